import io, logging, sys, signal
logging.disable(logging.CRITICAL)
sys.path.insert(0,'/tmp/probe')
from mk import *
from pdfminer.high_level import extract_text
def alarm(*a): raise TimeoutError('HANG >5s')
signal.signal(signal.SIGALRM, alarm)
def tryit(label, f):
    signal.alarm(5)
    try: print(label, '->', repr(f())[:80])
    except BaseException as e: print(label, '-> EXC', type(e).__name__, str(e)[:80])
    finally: signal.alarm(0)
font=b'<< /Type /Font /Subtype /Type1 /BaseFont /Helvetica >>'
def base(over={}):
    o={1:b'<< /Type /Catalog /Pages 2 0 R >>',2:b'<< /Type /Pages /Kids [4 0 R] /Count 1 >>',3:font,
       4:b'<< /Type /Page /Parent 2 0 R /MediaBox [0 0 200 200] /Contents 5 0 R /Resources << /Font << /F1 3 0 R >> >> >>',
       5:stream(b'',b'BT /F1 12 Tf 10 100 Td (Hi) Tj ET')}
    o.update(over); return pdf(o)
tryit('ok', lambda: extract_text(io.BytesIO(base())))
tryit('self-ref object value (Contents 5 -> 5 0 R)', lambda: extract_text(io.BytesIO(base({5:b"5 0 R"}))))
tryit('Kids direct dict', lambda: extract_text(io.BytesIO(base() .replace(b'/Kids [4 0 R]', b'/Kids [<< >> ]'))))
tryit('pagelabels kids cycle', lambda: extract_text(io.BytesIO(pdf({**{1:b'<< /Type /Catalog /Pages 2 0 R /PageLabels 6 0 R >>',2:b'<< /Type /Pages /Kids [4 0 R] /Count 1 >>',3:font,4:b'<< /Type /Page /Parent 2 0 R /MediaBox [0 0 200 200] /Contents 5 0 R /Resources << /Font << /F1 3 0 R >> >> >>',5:stream(b'',b'BT /F1 12 Tf 10 100 Td (Hi) Tj ET'),6:b'<< /Kids [6 0 R] >>'}}))))
tryit('scn no operand', lambda: extract_text(io.BytesIO(base({5:stream(b'',b'/DeviceRGB cs 0.5 scn BT /F1 12 Tf (Hi) Tj ET')}))))
tryit('Prev loop', lambda: extract_text(io.BytesIO(base().replace(b'/Root 1 0 R', b'/Root 1 0 R /Prev %d' % base().rfind(b'xref\n0 ')))))
tryit('Length self ref', lambda: extract_text(io.BytesIO(base({5:b'<< /Length 5 0 R >>\nstream\nBT /F1 12 Tf (Hi) Tj ET\nendstream'}))))
