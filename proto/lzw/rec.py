import io, json, random, sys
from pdfminer import lzw
def lzw_encode(data):
    out=[]; bits=[]
    def emit(code,nb): bits.append((code,nb))
    table={bytes([i]):i for i in range(256)}; nxt=258; nb=9
    emit(256,nb); w=b''
    for b in data:
        wc=w+bytes([b])
        if wc in table: w=wc
        else:
            emit(table[w],nb); table[wc]=nxt; nxt+=1
            # decoder table is one behind; early change: width switches when decoder table len hits 511 etc
            if nxt in (512,1024,2048): nb+=1
            if nxt==4096:
                emit(256,nb); table={bytes([i]):i for i in range(256)}; nxt=258; nb=9
            w=bytes([b])
    if w: emit(table[w],nb)
    emit(257,nb)
    acc=0;n=0;res=bytearray()
    for code,w_ in bits:
        acc=(acc<<w_)|code; n+=w_
        while n>=8: res.append((acc>>(n-8))&255); n-=8
    if n: res.append((acc<<(8-n))&255)
    return bytes(res)
ev=[]
orig=lzw.LZWDecoder.feed
def feed(self,code):
    nb=self.nbits
    x=orig(self,code)
    ev.append({"code":code,"nbits":nb,"tlen":len(self.table),"out":len(x)})
    return x
lzw.LZWDecoder.feed=feed
random.seed(int(sys.argv[1])); N=int(sys.argv[2])
data=bytes(random.choice(b'ab\x00\xff') if random.random()<.7 else random.randrange(256) for _ in range(N))
enc=lzw_encode(data); dec=lzw.lzwdecode(enc)
print('roundtrip',dec==data,'codes',len(ev),'enc',len(enc), file=sys.stderr)
json.dump(ev,open(sys.argv[3],'w'))
