---- MODULE LZWTrace ----
EXTENDS Naturals, Sequences, TLC, Json, IOUtils
Trace == JsonDeserialize(IOEnv.TRACE_FILE)
VARIABLES l, n, lens, prev, nbits
vars == <<l, n, lens, prev, nbits>>
Init == l = 1 /\ n = 0 /\ lens = <<>> /\ prev = 0 /\ nbits = 9
Ev == Trace[l]
Width(k, w) == IF k = 511 THEN 10 ELSE IF k = 1023 THEN 11 ELSE IF k = 2047 THEN 12 ELSE w
Base == [i \in 1..258 |-> IF i <= 256 THEN 1 ELSE 0]
Common == l <= Len(Trace) /\ l' = l + 1 /\ Ev.nbits = nbits
Clear == Common /\ Ev.code = 256 /\ n' = 258 /\ lens' = Base /\ prev' = 0 /\ nbits' = 9
         /\ Ev.out = 0 /\ Ev.tlen = 258
EOD   == Common /\ Ev.code = 257 /\ n >= 258 /\ Ev.out = 0 /\ UNCHANGED <<n, lens, prev, nbits>>
First == Common /\ n >= 258 /\ prev = 0 /\ Ev.code < 256
         /\ prev' = 1 /\ Ev.out = 1 /\ Ev.tlen = n /\ UNCHANGED <<n, lens, nbits>>
Known == Common /\ prev > 0 /\ Ev.code < n /\ Ev.code \notin {256, 257}
         /\ lens' = Append(lens, prev + 1) /\ n' = n + 1
         /\ Ev.out = lens[Ev.code + 1] /\ prev' = lens[Ev.code + 1]
         /\ nbits' = Width(n + 1, nbits) /\ Ev.tlen = n + 1
KwKwK == Common /\ prev > 0 /\ Ev.code = n
         /\ lens' = Append(lens, prev + 1) /\ n' = n + 1
         /\ Ev.out = prev + 1 /\ prev' = prev + 1
         /\ nbits' = Width(n + 1, nbits) /\ Ev.tlen = n + 1
Next == Clear \/ EOD \/ First \/ Known \/ KwKwK
Spec == Init /\ [][Next]_vars
TableBound == n <= 4096
WidthInv == nbits = (IF n < 511 THEN 9 ELSE IF n < 1023 THEN 10 ELSE IF n < 2047 THEN 11 ELSE 12)
Accepted == TLCGet("stats").diameter - 1 = Len(Trace)
====
