SPECIFICATION Spec
INVARIANT TableBound
INVARIANT WidthInv
POSTCONDITION Accepted
CHECK_DEADLOCK FALSE
