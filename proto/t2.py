import io, logging, sys, os, tempfile, zlib, struct
logging.disable(logging.CRITICAL)
sys.path.insert(0,'/tmp/probe')
from mk import *
def tryit(label, f):
    try: print(label, '->', f())
    except BaseException as e: print(label, '-> EXC', type(e).__name__, str(e)[:100])
# 1 PNG predictor colors>1 first row Up / Paeth
from pdfminer.utils import apply_png_predictor
raw=bytes([10,20,30,40,50,60])  # 2 cols x 3 colors, one row
tryit('png none', lambda: apply_png_predictor(15,3,2,8,bytes([0])+raw))
tryit('png up row0', lambda: apply_png_predictor(15,3,2,8,bytes([2])+raw))
tryit('png avg row0', lambda: apply_png_predictor(15,3,2,8,bytes([3])+raw))
tryit('png paeth row0', lambda: apply_png_predictor(15,3,2,8,bytes([4])+raw))
tryit('png 1bit 10 cols', lambda: apply_png_predictor(15,1,10,1,bytes([0,0xAA,0xC0, 0,0x55,0x40])))
# 2 xref stream multi-range get_objids
from pdfminer.pdfdocument import PDFXRefStream
x=PDFXRefStream(); x.ranges=[(0,1),(5,2)]; x.fl1,x.fl2,x.fl3=1,2,1; x.entlen=4
x.data=bytes([0,0,0,255, 1,0,100,0, 0,0,0,0]); # obj0 free, obj5 in use, obj6 free
tryit('objids multi-range (expect [5])', lambda: list(x.get_objids()))
tryit('get_pos 5', lambda: x.get_pos(5))
# 3 get_pages maxpages/pagenos
from pdfminer.pdfpage import PDFPage
from pdfminer.high_level import extract_text, extract_pages, extract_text_to_fp
from pdfminer.layout import LAParams, LTTextBox
font=b'<< /Type /Font /Subtype /Type1 /BaseFont /Helvetica >>'
def doc(npages, extra_page=b'', content=lambda i: b'BT /F1 12 Tf 10 100 Td (P%d) Tj ET'%i, xobj=None, res_extra=b''):
    objs={1:b'<< /Type /Catalog /Pages 2 0 R >>',3:font}
    kids=[]
    n=4
    for i in range(npages):
        objs[n]=b'<< /Type /Page /Parent 2 0 R /MediaBox [0 0 200 200] /Contents %d 0 R /Resources << /Font << /F1 3 0 R >> %s >> %s >>'%(n+1,res_extra,extra_page)
        objs[n+1]=stream(b'',content(i)); kids.append(b'%d 0 R'%n); n+=2
    objs[2]=b'<< /Type /Pages /Kids ['+b' '.join(kids)+b'] /Count %d >>'%npages
    if xobj: objs.update(xobj(n))
    return pdf(objs)
d=doc(7)
tryit('pagenos={0,5},maxpages=2', lambda: repr(extract_text(io.BytesIO(d), page_numbers={0,5}, maxpages=2)))
tryit('pagenos={5,6},maxpages=2', lambda: repr(extract_text(io.BytesIO(d), page_numbers={5,6}, maxpages=2)))
# 4 boxes_flow None index
tryit('boxes_flow None idx', lambda: [b.index for p in extract_pages(io.BytesIO(doc(1,content=lambda i:b'BT /F1 12 Tf 10 100 Td (A) Tj 0 -50 Td (B) Tj ET')), laparams=LAParams(boxes_flow=None)) for b in p if isinstance(b,LTTextBox)])
# 5 XML figure name + Text codec
xo=lambda n:{n:stream(b'/Type /XObject /Subtype /Form /BBox [0 0 10 10]',b'BT /F1 5 Tf (x) Tj ET')}
d5=doc(1,content=lambda i:b'/a#3Cb#26#22 Do', res_extra=b'/XObject << /a#3Cb#26#22 20 0 R >>', xobj=lambda n:{20:xo(20)[20]})
def xml():
    o=io.BytesIO(); extract_text_to_fp(io.BytesIO(d5),o,output_type='xml',laparams=LAParams()); return [l for l in o.getvalue().decode().splitlines() if 'figure' in l]
tryit('xml figure', xml)
def txtcodec():
    o=io.BytesIO(); extract_text_to_fp(io.BytesIO(doc(1)),o,output_type='text',codec='utf-16',laparams=LAParams()); return o.getvalue()[:12]
tryit('text utf-16 sink', txtcodec)
# 6 unfiltered image export
img=lambda n:{20:stream(b'/Type /XObject /Subtype /Image /Width 2 /Height 2 /ColorSpace /DeviceGray /BitsPerComponent 8',bytes([1,2,3,4]))}
d6=doc(1,content=lambda i:b'q 10 0 0 10 0 0 cm /Im1 Do Q', res_extra=b'/XObject << /Im1 20 0 R >>', xobj=img)
def exp():
    td=tempfile.mkdtemp(); o=io.StringIO(); extract_text_to_fp(io.BytesIO(d6),o,output_dir=td,laparams=LAParams()); return os.listdir(td)
tryit('export unfiltered', exp)
# 7 cmap path traversal: does it try to open outside?
td=tempfile.mkdtemp(); import gzip, pickle
os.makedirs(td+'/x'); gzip.open(td+'/x/evil.pickle.gz','wb').write(pickle.dumps({'CODE2CID':{65:{66:7}},'IS_VERTICAL':False}))
from pdfminer.cmapdb import CMapDB
rel=os.path.relpath(td+'/x/evil', os.path.join(os.path.dirname(__import__('pdfminer').__file__),'cmap'))
tryit('load_data traversal', lambda: list(CMapDB.get_cmap(rel).decode(b'AB')))
tryit('load_data abs', lambda: list(CMapDB.get_cmap(td+'/x/evil').decode(b'AB')))
