import io, zlib
def pdf(objs, root=1, trailer_extra=b''):
    out=io.BytesIO(); out.write(b'%PDF-1.4\n'); offs={}
    for n,body in objs.items():
        offs[n]=out.tell(); out.write(b'%d 0 obj\n'%n+body+b'\nendobj\n')
    x=out.tell(); N=max(objs)+1
    out.write(b'xref\n0 %d\n'%N); out.write(b'0000000000 65535 f \n')
    for n in range(1,N):
        if n in offs: out.write(b'%010d 00000 n \n'%offs[n])
        else: out.write(b'0000000000 65535 f \n')
    out.write(b'trailer\n<< /Size %d /Root %d 0 R %s>>\nstartxref\n%d\n%%%%EOF\n'%(N,root,trailer_extra,x))
    return out.getvalue()
def stream(d, data): return b'<< '+d+b' /Length %d >>\nstream\n'%len(data)+data+b'\nendstream'
