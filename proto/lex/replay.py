import io, re, sys, logging, time
logging.disable(logging.CRITICAL)
from pdfminer.psparser import PSBaseParser, PSEOF, PSKeyword, PSLiteral
def real(data,B):
    class P(PSBaseParser): BUFSIZ=B
    p=P(io.BytesIO(data)); out=[]
    try:
        while True:
            pos,t=p.nexttoken()
            if isinstance(t,bool): out.append((pos,'bool',t))
            elif isinstance(t,int): out.append((pos,'int',t))
            elif isinstance(t,float): out.append((pos,'real',t))
            elif isinstance(t,bytes): out.append((pos,'str',t))
            elif isinstance(t,PSKeyword): out.append((pos,'kw',t.name))
            elif isinstance(t,PSLiteral): out.append((pos,'lit',t.name if isinstance(t.name,bytes) else t.name.encode()))
    except PSEOF: return out
    except AssertionError: return 'ASSERT'
def parse_out(s):
    toks=[]
    for m in re.finditer(r'\[k \|-> "(\w+)", v \|-> <<([0-9, ]*)>>, pos \|-> (\d+)\]', s):
        k=m.group(1); v=bytes(int(x) for x in m.group(2).split(',') if x.strip()); pos=int(m.group(3))
        if k=='int': v=int(v)
        elif k=='real': v=float(v)
        toks.append((pos,k,v))
    return toks
cur={}; n=mis=asserts=0; t0=time.time(); examples=[]
with open('/tmp/tlcprobe/lex/dump.dump') as f:
    for line in f:
        if line.startswith('/\\ '):
            k,v=line[3:].rstrip('\n').split(' = ',1); cur[k]=v; last=k
        elif line.strip() and not line.startswith('State '):
            cur[last]+=' '+line.strip()
        elif not line.strip():
            if cur.get('phase')=='"done"':
                data=bytes(int(x) for x in cur['data'].strip('<>').split(',') if x.strip()); B=int(cur['B'])
                r=real(data,B); n+=1
                if r=='ASSERT': asserts+=1
                elif r!=parse_out(cur['out']):
                    mis+=1
                    if len(examples)<8: examples.append((data,B,r,parse_out(cur['out'])))
            cur={}
print('replayed',n,'mismatch',mis,'real-asserts',asserts,'secs',round(time.time()-t0,1))
for e in examples: print(e)
