------------------------------- MODULE PSLex -------------------------------
(* Prototype: implementation-shaped model of pdfminer.psparser.PSBaseParser *)
EXTENDS Naturals, Integers, Sequences, FiniteSets, TLC

CONSTANTS Alphabet,   \* set of byte values used to build inputs
          MaxLen,     \* inputs of length 0..MaxLen
          BufSizes,   \* set of positive buffer sizes
          FixCRLF,    \* TRUE: model the repaired continuation handling
          FixOct      \* TRUE: model octal overflow ignored (mod 256)

VARIABLES data, B, bufpos, buflen, charpos, fpos, st, cur, curpos, paren, oct, hex,
          out, eof, phase, err, pendcr

vars == <<data, B, bufpos, buflen, charpos, fpos, st, cur, curpos, paren, oct, hex,
          out, eof, phase, err, pendcr>>

WS      == {9, 10, 11, 12, 13, 32}            \* Python bytes \s
EOLS    == {10, 13}
DIGIT   == 48..57
OCTD    == 48..55
ALPHA   == (65..90) \cup (97..122)
HEXD    == DIGIT \cup (65..70) \cup (97..102)
ENDLIT  == {35, 47, 37, 91, 93, 40, 41, 60, 62, 123, 125} \cup WS
ENDSTR  == {40, 41, 92}
ESC     == [b \in {98, 116, 110, 102, 114, 40, 41, 92} |->
              CASE b = 98 -> 8 [] b = 116 -> 9 [] b = 110 -> 10 [] b = 102 -> 12
                [] b = 114 -> 13 [] b = 40 -> 40 [] b = 41 -> 41 [] b = 92 -> 92]

Min(a, b) == IF a < b THEN a ELSE b

\* absolute 0-based position of next byte to scan, and buffer end
P == bufpos + charpos
E == bufpos + buflen
At(p) == data[p + 1]                      \* byte at absolute 0-based position p

\* first position q in p..E-1 with At(q) \in S ; E if none
First(p, S) == LET c == {q \in p..(E - 1) : At(q) \in S} IN
               IF c = {} THEN E ELSE CHOOSE q \in c : \A r \in c : q <= r
FirstNot(p, S) == LET c == {q \in p..(E - 1) : At(q) \notin S} IN
               IF c = {} THEN E ELSE CHOOSE q \in c : \A r \in c : q <= r
Slice(p, q) == SubSeq(data, p + 1, q)     \* bytes p..q-1

HexVal(b) == IF b \in DIGIT THEN b - 48 ELSE IF b \in 65..70 THEN b - 55 ELSE b - 87

RECURSIVE OctNum(_)
OctNum(s) == IF s = <<>> THEN 0 ELSE OctNum(SubSeq(s, 1, Len(s) - 1)) * 8 + (s[Len(s)] - 48)
RECURSIVE HexNum(_)
HexNum(s) == IF s = <<>> THEN 0 ELSE HexNum(SubSeq(s, 1, Len(s) - 1)) * 16 + HexVal(s[Len(s)])

Tok(k, v) == [pos |-> curpos, k |-> k, v |-> v]
HasDigit(s) == \E i \in 1..Len(s) : s[i] \in DIGIT

Strings(n) == UNION {[1..m -> Alphabet] : m \in 0..n}

Init ==
  /\ data \in Strings(MaxLen)
  /\ B \in BufSizes
  /\ bufpos = 0 /\ buflen = 0 /\ charpos = 0 /\ fpos = 0
  /\ st = "main" /\ cur = <<>> /\ curpos = 0 /\ paren = 0 /\ oct = <<>> /\ hex = <<>>
  /\ out = <<>> /\ eof = FALSE /\ phase = "run" /\ err = "none" /\ pendcr = FALSE

\* ---------------------------------------------------------------- buffer refill
Refill ==
  /\ phase = "run" /\ charpos >= buflen /\ fpos < Len(data)
  /\ bufpos' = fpos
  /\ buflen' = Min(B, Len(data) - fpos)
  /\ fpos' = fpos + Min(B, Len(data) - fpos)
  /\ charpos' = 0
  /\ UNCHANGED <<data, B, st, cur, curpos, paren, oct, hex, out, eof, phase, err, pendcr>>

\* a scanner step returns (new absolute position, new state, cur, out, paren, oct, hex, curpos, err)
\* expressed with primes below; Adv(q) sets charpos to absolute q
Adv(q) == charpos' = q - bufpos

Keep == UNCHANGED <<data, B, bufpos, buflen, fpos, eof, phase>>

CanScan == phase = "run" /\ charpos < buflen

SMain ==
  /\ CanScan /\ st = "main"
  /\ LET j == FirstNot(P, WS) IN
     IF j = E THEN /\ Adv(E) /\ UNCHANGED <<st, cur, curpos, paren, oct, hex, out, err, pendcr>>
     ELSE LET c == At(j) IN
       /\ Adv(j + 1)
       /\ curpos' = j
       /\ UNCHANGED <<oct, hex, err, pendcr>>
       /\ CASE c = 37 -> st' = "comment" /\ cur' = <<37>> /\ UNCHANGED <<paren, out>>
            [] c = 47 -> st' = "literal" /\ cur' = <<>> /\ UNCHANGED <<paren, out>>
            [] c \in {45, 43} \cup DIGIT -> st' = "number" /\ cur' = <<c>> /\ UNCHANGED <<paren, out>>
            [] c = 46 -> st' = "float" /\ cur' = <<c>> /\ UNCHANGED <<paren, out>>
            [] c \in ALPHA -> st' = "keyword" /\ cur' = <<c>> /\ UNCHANGED <<paren, out>>
            [] c = 40 -> st' = "string" /\ cur' = <<>> /\ paren' = 1 /\ UNCHANGED out
            [] c = 60 -> st' = "wopen" /\ cur' = <<>> /\ UNCHANGED <<paren, out>>
            [] c = 62 -> st' = "wclose" /\ cur' = <<>> /\ UNCHANGED <<paren, out>>
            [] c = 0 -> UNCHANGED <<st, cur, paren, out>>
            [] OTHER -> out' = Append(out, [pos |-> j, k |-> "kw", v |-> <<c>>])
                        /\ UNCHANGED <<st, cur, paren>>
  /\ Keep

SComment ==
  /\ CanScan /\ st = "comment"
  /\ LET j == First(P, EOLS) IN
       /\ cur' = cur \o Slice(P, j)
       /\ Adv(j)
       /\ st' = IF j = E THEN "comment" ELSE "main"
  /\ UNCHANGED <<curpos, paren, oct, hex, out, err, pendcr>> /\ Keep

SLiteral ==
  /\ CanScan /\ st = "literal"
  /\ LET j == First(P, ENDLIT) IN
     IF j = E THEN /\ cur' = cur \o Slice(P, E) /\ Adv(E) /\ UNCHANGED <<st, hex, out>>
     ELSE IF At(j) = 35
          THEN /\ cur' = cur \o Slice(P, j) /\ hex' = <<>> /\ st' = "lithex" /\ Adv(j + 1)
               /\ UNCHANGED out
          ELSE /\ cur' = cur \o Slice(P, j) /\ Adv(j) /\ st' = "main"
               /\ out' = Append(out, Tok("lit", cur \o Slice(P, j))) /\ UNCHANGED hex
  /\ UNCHANGED <<curpos, paren, oct, err, pendcr>> /\ Keep

SLitHex ==
  /\ CanScan /\ st = "lithex"
  /\ LET c == At(P) IN
     IF c \in HEXD /\ Len(hex) < 2
     THEN /\ hex' = Append(hex, c) /\ Adv(P + 1) /\ UNCHANGED <<st, cur>>
     ELSE /\ cur' = IF hex # <<>> THEN Append(cur, HexNum(hex)) ELSE cur
          /\ st' = "literal" /\ Adv(P) /\ UNCHANGED hex
  /\ UNCHANGED <<curpos, paren, oct, out, err, pendcr>> /\ Keep

SNumber ==
  /\ CanScan /\ st = "number"
  /\ LET j == FirstNot(P, DIGIT) IN
     IF j = E THEN /\ cur' = cur \o Slice(P, E) /\ Adv(E) /\ UNCHANGED <<st, out>>
     ELSE IF At(j) = 46
          THEN /\ cur' = Append(cur \o Slice(P, j), 46) /\ st' = "float" /\ Adv(j + 1)
               /\ UNCHANGED out
          ELSE LET t == cur \o Slice(P, j) IN
               /\ cur' = t /\ st' = "main" /\ Adv(j)
               /\ out' = IF HasDigit(t) THEN Append(out, Tok("int", t)) ELSE out
  /\ UNCHANGED <<curpos, paren, oct, hex, err, pendcr>> /\ Keep

SFloat ==
  /\ CanScan /\ st = "float"
  /\ LET j == FirstNot(P, DIGIT) IN
     IF j = E THEN /\ cur' = cur \o Slice(P, E) /\ Adv(E) /\ UNCHANGED <<st, out>>
     ELSE LET t == cur \o Slice(P, j) IN
          /\ cur' = t /\ st' = "main" /\ Adv(j)
          /\ out' = IF HasDigit(t) THEN Append(out, Tok("real", t)) ELSE out
  /\ UNCHANGED <<curpos, paren, oct, hex, err, pendcr>> /\ Keep

SKeyword ==
  /\ CanScan /\ st = "keyword"
  /\ LET j == First(P, ENDLIT) IN
     IF j = E THEN /\ cur' = cur \o Slice(P, E) /\ Adv(E) /\ UNCHANGED <<st, out>>
     ELSE LET t == cur \o Slice(P, j) IN
          /\ cur' = t /\ st' = "main" /\ Adv(j)
          /\ out' = Append(out, Tok("kw", t))
  /\ UNCHANGED <<curpos, paren, oct, hex, err, pendcr>> /\ Keep

SString ==
  /\ CanScan /\ st = "string"
  /\ IF pendcr /\ At(P) = 10
     THEN \* repaired design: LF completing a \CR LF continuation split by a refill
          /\ Adv(P + 1) /\ pendcr' = FALSE /\ UNCHANGED <<st, cur, paren, oct, out>>
     ELSE
     /\ pendcr' = FALSE
     /\ LET j == First(P, ENDSTR) IN
        IF j = E THEN /\ cur' = cur \o Slice(P, E) /\ Adv(E) /\ UNCHANGED <<st, paren, oct, out>>
        ELSE LET c == At(j) t == cur \o Slice(P, j) IN
          CASE c = 92 -> /\ cur' = t /\ oct' = <<>> /\ st' = "string1" /\ Adv(j + 1)
                         /\ UNCHANGED <<paren, out>>
            [] c = 40 -> /\ cur' = Append(t, 40) /\ paren' = paren + 1 /\ Adv(j + 1)
                         /\ UNCHANGED <<st, oct, out>>
            [] c = 41 /\ paren > 1 -> /\ cur' = Append(t, 41) /\ paren' = paren - 1 /\ Adv(j + 1)
                         /\ UNCHANGED <<st, oct, out>>
            [] OTHER -> /\ cur' = t /\ paren' = paren - 1 /\ st' = "main" /\ Adv(j + 1)
                        /\ out' = Append(out, Tok("str", t)) /\ UNCHANGED oct
  /\ UNCHANGED <<curpos, hex, err>> /\ Keep

SString1 ==
  /\ CanScan /\ st = "string1"
  /\ LET c == At(P) IN
     IF c \in OCTD /\ Len(oct) < 3
     THEN /\ oct' = Append(oct, c) /\ Adv(P + 1) /\ UNCHANGED <<st, cur, err, pendcr>>
     ELSE IF oct # <<>>
     THEN /\ IF OctNum(oct) < 256 \/ FixOct
             THEN cur' = Append(cur, OctNum(oct) % 256) /\ UNCHANGED err
             ELSE err' = "AssertionError" /\ UNCHANGED cur
          /\ st' = "string" /\ Adv(P) /\ UNCHANGED <<oct, pendcr>>
     ELSE IF c \in DOMAIN ESC
     THEN /\ cur' = Append(cur, ESC[c]) /\ st' = "string" /\ Adv(P + 1)
          /\ UNCHANGED <<oct, err, pendcr>>
     ELSE IF c = 13
     THEN IF FixCRLF
          THEN /\ st' = "string" /\ Adv(P + 1) /\ pendcr' = TRUE /\ UNCHANGED <<cur, oct, err>>
          ELSE \* as coded: look-ahead only inside the current buffer
               /\ st' = "string" /\ UNCHANGED <<cur, oct, err, pendcr>>
               /\ IF P + 1 < E /\ At(P + 1) = 10 THEN Adv(P + 2) ELSE Adv(P + 1)
     ELSE /\ st' = "string" /\ Adv(P + 1) /\ UNCHANGED <<cur, oct, err, pendcr>>
  /\ UNCHANGED <<curpos, paren, hex, out>> /\ Keep

SWOpen ==
  /\ CanScan /\ st = "wopen"
  /\ IF At(P) = 60
     THEN /\ out' = Append(out, Tok("kw", <<60, 60>>)) /\ st' = "main" /\ Adv(P + 1)
     ELSE /\ st' = "hexstr" /\ Adv(P) /\ UNCHANGED out
  /\ UNCHANGED <<cur, curpos, paren, oct, hex, err, pendcr>> /\ Keep

SWClose ==
  /\ CanScan /\ st = "wclose"
  /\ IF At(P) = 62
     THEN /\ out' = Append(out, Tok("kw", <<62, 62>>)) /\ Adv(P + 1)
     ELSE /\ Adv(P) /\ UNCHANGED out
  /\ st' = "main"
  /\ UNCHANGED <<cur, curpos, paren, oct, hex, err, pendcr>> /\ Keep

\* HEX_PAIR.sub over the space-stripped digits: pairs, a trailing single digit d -> value d
RECURSIVE HexPairs(_)
HexPairs(s) == IF s = <<>> THEN <<>>
               ELSE IF Len(s) = 1 THEN <<HexVal(s[1])>>
               ELSE <<HexVal(s[1]) * 16 + HexVal(s[2])>> \o HexPairs(SubSeq(s, 3, Len(s)))
StripWS(s) == SelectSeq(s, LAMBDA b : b \notin WS)

SHexStr ==
  /\ CanScan /\ st = "hexstr"
  /\ LET j == FirstNot(P, WS \cup HEXD) IN
     IF j = E THEN /\ cur' = cur \o Slice(P, E) /\ Adv(E) /\ UNCHANGED <<st, out>>
     ELSE LET t == cur \o Slice(P, j) IN
          /\ cur' = t /\ st' = "main" /\ Adv(j)
          /\ out' = Append(out, Tok("str", HexPairs(StripWS(t))))
  /\ UNCHANGED <<curpos, paren, oct, hex, err, pendcr>> /\ Keep

\* ---------------------------------------------------------------- EOF flush: feed one LF
\* Only the effect on `out` matters afterwards; computed by cases on st.
Flush ==
  /\ phase = "run" /\ charpos >= buflen /\ fpos >= Len(data)
  /\ phase' = "done" /\ eof' = TRUE
  /\ out' = CASE st = "literal" -> Append(out, Tok("lit", cur))
              [] st = "number"  -> IF HasDigit(cur) THEN Append(out, Tok("int", cur)) ELSE out
              [] st = "float"   -> IF HasDigit(cur) THEN Append(out, Tok("real", cur)) ELSE out
              [] st = "keyword" -> Append(out, Tok("kw", cur))
              [] OTHER -> out
  /\ err' = IF st = "string1" /\ oct # <<>> /\ OctNum(oct) >= 256 /\ ~FixOct
            THEN "AssertionError" ELSE err
  /\ UNCHANGED <<data, B, bufpos, buflen, charpos, fpos, st, cur, curpos, paren, oct, hex, pendcr>>

Done == phase = "done" /\ UNCHANGED vars

Scan == SMain \/ SComment \/ SLiteral \/ SLitHex \/ SNumber \/ SFloat \/ SKeyword
        \/ SString \/ SString1 \/ SWOpen \/ SWClose \/ SHexStr

Next == (err = "none" /\ (Refill \/ Scan \/ Flush)) \/ Done

Spec == Init /\ [][Next]_vars

\* ---------------------------------------------------------------- properties
NoError == err = "none"

PositionsOK ==
  /\ \A i \in 1..Len(out) : out[i].pos \in 0..Len(data)
  /\ \A i \in 1..(Len(out) - 1) : out[i].pos <= out[i + 1].pos

\* progress: every step of the running machine advances the absolute position,
\* or keeps it while changing scanner state (bounded), or finishes.
Rank(s) == CASE s = "main" -> 0
             [] s \in {"wopen", "wclose", "lithex", "string1"} -> 2
             [] OTHER -> 1
Progress == [][ \/ phase' = "done"
                \/ (bufpos' + charpos') > (bufpos + charpos)
                \/ (bufpos' + charpos' = bufpos + charpos /\ (Rank(st') < Rank(st) \/ buflen' # buflen \/ bufpos' # bufpos)) ]_vars

\* Buffer independence is checked by the harness/TLC by comparing terminal `out`
\* per data across B; inside one behaviour we compare with the B = Len+1 run through RefOut.
=============================================================================
