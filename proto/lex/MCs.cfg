CONSTANTS
  Alphabet <- Alpha10
  MaxLen = 5
  BufSizes = {1,2,3,8}
  FixCRLF = FALSE
  FixOct = TRUE
INIT Init
NEXT Next
INVARIANT NoError
INVARIANT PositionsOK
PROPERTY Progress
CHECK_DEADLOCK FALSE
