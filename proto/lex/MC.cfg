CONSTANTS
  Alphabet <- Alpha24
  MaxLen = 3
  BufSizes = {1,2,4}
  FixCRLF = FALSE
  FixOct = FALSE
INIT Init
NEXT Next
INVARIANT NoError
INVARIANT PositionsOK
PROPERTY Progress
CHECK_DEADLOCK FALSE
