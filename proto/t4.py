import io, logging, sys
logging.disable(logging.CRITICAL)
sys.path.insert(0,'/tmp/probe')
from mk import *
def tryit(label, f):
    try: print(label, '->', repr(f())[:150])
    except BaseException as e: print(label, '-> EXC', type(e).__name__, str(e)[:100])
from pdfminer.pdffont import get_widths, get_widths2
tryit('W mixed', lambda: get_widths([1,[10,20],5,7,30, 9,[40]]))
tryit('W2', lambda: get_widths2([1,[10,1,2, 20,3,4],5,7,30,8,9]))
from pdfminer.cmapdb import CMapParser, FileUnicodeMap, CMapDB
def tu(src):
    m=FileUnicodeMap(); CMapParser(m, io.BytesIO(src)).run(); return dict(sorted(m.cid2unichr.items()))
tryit('bfrange carry', lambda: tu(b'begincmap 1 beginbfrange <00FE> <0101> <00FE> endbfrange endcmap'))
tryit('bfrange array', lambda: tu(b'begincmap 1 beginbfrange <0001> <0003> [<0041> <00420043> /fi] endbfrange endcmap'))
tryit('bfchar multi', lambda: tu(b'begincmap 2 beginbfchar <01> <D83DDE00> <0002> <00660069> endbfchar endcmap'))
c=CMapDB.get_cmap('90ms-RKSJ-H')
tryit('rksj mixed', lambda: list(c.decode(b'A\x82\xa0\xb1B')))
tryit('rksj invalid trail', lambda: list(c.decode(b'\x82\x20A')))
tryit('identity odd', lambda: list(CMapDB.get_cmap('Identity-H').decode(b'\x00A\x00')))
# C17
from pdfminer.pdfparser import PDFParser
from pdfminer.pdfdocument import PDFDocument
def docof(objs): return PDFDocument(PDFParser(io.BytesIO(pdf(objs))))
base={2:b'<< /Type /Pages /Kids [] /Count 0 >>'}
d=docof({**base,1:b'<< /Type /Catalog /Pages 2 0 R /Names << /Dests 3 0 R >> >>',
 3:b'<< /Kids [4 0 R 5 0 R] >>',4:b'<< /Limits [(a) (b)] /Names [(a) 0 (b) [2 0 R /Fit]] >>',5:b'<< /Limits [(c) (d)] /Names [(c) << /D [2 0 R /Fit] >> (d) 7] >>'})
for k in (b'a',b'b',b'c',b'd',b'bb',b'e'): tryit('dest %r'%k, lambda: d.get_dest(k))
d=docof({**base,1:b'<< /Type /Catalog /Pages 2 0 R /Outlines 3 0 R >>',3:b'<< /First 4 0 R /Last 5 0 R >>',
 4:b'<< /Title (A) /Parent 3 0 R /Next 5 0 R /First 6 0 R /Last 6 0 R >>',5:b'<< /Title (B) /Parent 3 0 R /Dest [2 0 R /Fit] >>',6:b'<< /Title (A1) /Parent 4 0 R /Dest [2 0 R /Fit] >>'})
tryit('outlines', lambda: [(l,t) for (l,t,*_) in d.get_outlines()])
d=docof({**base,1:b'<< /Type /Catalog /Pages 2 0 R /PageLabels << /Nums [0 << /S /a /St 26 >> 3 << /S /R /St 3999 >> ] >> >>'})
import itertools
tryit('labels', lambda: list(itertools.islice(d.get_page_labels(),6)))
# C18 inline
from pdfminer.high_level import extract_pages
from pdfminer.layout import LTChar, LTContainer, LTImage
def items(it):
    if isinstance(it,(LTChar,LTImage)): yield it
    elif isinstance(it,LTContainer):
        for c in it: yield from items(c)
font=b'<< /Type /Font /Subtype /Type1 /BaseFont /Helvetica >>'
def inl(data, sep=b'\n'):
    content=b'BT /F1 12 Tf (A) Tj ET q 10 0 0 10 0 0 cm BI /W 1 /H 1 /BPC 8 /CS /G ID '+data+sep+b'EI Q BT /F1 12 Tf (B) Tj ET'
    objs={1:b'<< /Type /Catalog /Pages 2 0 R >>',2:b'<< /Type /Pages /Kids [3 0 R] /Count 1 >>',3:b'<< /Type /Page /Parent 2 0 R /MediaBox [0 0 200 200] /Contents 4 0 R /Resources << /Font << /F1 5 0 R >> >> >>',4:stream(b'',content),5:font}
    r=[]
    for p in extract_pages(io.BytesIO(pdf(objs))):
        for it in items(p): r.append(it.get_text() if isinstance(it,LTChar) else it.stream.get_data())
    return r
for data,sep in ((b'x',b'\n'),(b'E',b'\n'),(b'xE',b''),(b'x\r',b'\n'),(b'x\n',b'\n'),(b'x ',b'\n'),(b'x',b' '),(b'EIEI',b'\n')):
    tryit('inline %r sep %r'%(data,sep), lambda: inl(data,sep))
