import io, logging, sys
logging.disable(logging.CRITICAL)
sys.path.insert(0,'/tmp/probe')
from mk import *
from pdfminer.high_level import extract_pages
from pdfminer.layout import LTChar, LTFigure, LTContainer
def chars(item):
    if isinstance(item, LTChar): yield item
    elif isinstance(item, LTContainer):
        for c in item: yield from chars(c)
font=b'<< /Type /Font /Subtype /Type1 /BaseFont /Xyz /FirstChar 65 /Widths [500 600 700] /Encoding /WinAnsiEncoding >>'
def run(content, xobjs=b''):
    objs={1:b'<< /Type /Catalog /Pages 2 0 R >>',2:b'<< /Type /Pages /Kids [3 0 R] /Count 1 >>',
      3:b'<< /Type /Page /Parent 2 0 R /MediaBox [0 0 200 200] /Contents 4 0 R /Resources << /Font << /F1 5 0 R >> /XObject << /Fm1 6 0 R >> >> >>',
      4:stream(b'',content),5:font,
      6:stream(b'/Type /XObject /Subtype /Form /BBox [0 0 100 100] /Matrix [2 0 0 2 10 10] /Resources << /Font << /F1 5 0 R >> >>', b'BT /F1 10 Tf (A) Tj ET')}
    for p in extract_pages(io.BytesIO(pdf(objs)), laparams=None):
        for c in chars(p): print('  ',c.get_text(), c.matrix, c.adv, c.graphicstate.ncolor)
print('dquote'); run(b'BT /F1 10 Tf 12 TL 0 100 Td (A) Tj 1 2 (B) " ET')
print('squote'); run(b"BT /F1 10 Tf 12 TL 0 100 Td (A) Tj (B) ' ET")
print('Tc across Tj'); run(b'BT /F1 10 Tf 3 Tc (A) Tj (B) Tj [(A) -100 (B)] TJ [-100 (A)] TJ ET')
print('form ctm leak'); run(b'1 0 0 rg BT /F1 10 Tf (A) Tj ET /Fm1 Do BT /F1 10 Tf (B) Tj ET')
