------------------------------- MODULE Widths -------------------------------
(***************************************************************************)
(* Composite fonts, property C07, part (iii): glyph metrics of CID fonts.  *)
(*   W   (horizontal)  c [w1 .. wn]            and  cfirst clast w         *)
(*   W2  (vertical)    c [w1y v1x v1y ..]      and  cfirst clast w1y v1x v1y*)
(*   DW (default 1000), DW2 (default [880 -1000]), and where a vertical    *)
(*   font puts each glyph (position vector, advance along -y).             *)
(* ISO 32000-1 9.7.4.3.                                                     *)
(*                                                                         *)
(* Machine (pdffont.get_widths / get_widths2): a register r collects       *)
(* numbers; a list after >= 1 number assigns consecutive CIDs from the     *)
(* LAST number (AList); the third (W) / fifth (W2) number closes a range   *)
(* (ARange); a list with an empty register is skipped (ASkipList);         *)
(* otherwise the number is kept (ANumber).  Later assignments overwrite.   *)
(* Reference: RefW / RefW2 parse the array by the grammar of the standard  *)
(* (groups "c [..]" and "c c w" / "c c w x y"); they are defined for       *)
(* well-formed arrays only - what a reader does with anything else is not  *)
(* specified, the machine merely has to stay total there.                  *)
(* Invariants: WidthsRef, Widths2Ref (on well-formed arrays, every prefix  *)
(* that is itself well-formed), RegisterBound; Placement relates a shown   *)
(* CID sequence to origins and advances.                                   *)
(*                                                                         *)
(* Array elements: [t |-> "n", v |-> k] a number, [t |-> "l", l |-> <<..>>]*)
(* a list of numbers.  Every reachable state is one array (grown one       *)
(* element per step) for one mode.                                         *)
(***************************************************************************)
EXTENDS WidthOps, TLC, Json

CONSTANTS Elems,     \* element alphabet
          MaxLen,    \* longest array
          Cids,      \* the CIDs whose metrics are observed
          Modes      \* subset of {"W", "W2"}

VARIABLES mode, arr, st
vars == <<mode, arr, st>>
Init == mode \in Modes /\ arr = <<>> /\ st = T0(Cids)
Grow(e) == arr' = Append(arr, e) /\ st' = StepW(mode, st, e) /\ UNCHANGED mode
AList == Len(arr) < MaxLen /\ st.r # <<>> /\ \E e \in Elems : ~IsN(e) /\ Grow(e)
ASkipList == Len(arr) < MaxLen /\ st.r = <<>> /\ \E e \in Elems : ~IsN(e) /\ Grow(e)
ARange == Len(arr) < MaxLen /\ Len(st.r) = RangeLen(mode) - 1 /\ \E e \in Elems : IsN(e) /\ Grow(e)
ANumber == Len(arr) < MaxLen /\ Len(st.r) < RangeLen(mode) - 1 /\ \E e \in Elems : IsN(e) /\ Grow(e)
Next == AList \/ ASkipList \/ ARange \/ ANumber
Spec == Init /\ [][Next]_vars

WidthsRef == WellFormed(mode, arr) => st.tab = RefTable(mode, arr, Cids) /\ st.r = <<>>
RegisterBound == Len(st.r) < RangeLen(mode)

\* ------------------------------------------------------------------ defaults and placement (used by the replay)
\* horizontal: advance w0(c) = W entry or DW;  vertical: advance w1y(c) = W2 entry [1] or DW2[2],
\* position vector (vx, vy) = W2 entry [2..3], or (none given: half the em as coded, vy = DW2[1])
Metric(tab, c, dflt) == IF c \in DOMAIN tab /\ tab[c] # NoW THEN tab[c] ELSE dflt
\* origins of a shown CID sequence in thousandths of the font size, starting at 0: horizontal along +x, vertical along y
RECURSIVE Origins(_, _, _, _)
Origins(tab, cids, dflt, pos) ==
  IF cids = <<>> THEN <<>> ELSE <<pos>> \o Origins(tab, Tail(cids), dflt, pos + Metric(tab, Head(cids), dflt)[1])

Emit == (WellFormed(mode, arr) \/ Len(arr) <= 3) =>
          PrintT("@@" \o ToJson([mode |-> mode, a |-> arr, wf |-> WellFormed(mode, arr),
                                 t |-> [c \in Cids |-> <<c, st.tab[c]>>]]))
=============================================================================
