----------------------------- MODULE SimpleFont -----------------------------
(***************************************************************************)
(* Simple fonts (Type1, MMType1, TrueType, Type3) of pdfminer, property    *)
(* C06: for every byte code the reported text is the ToUnicode entry if    *)
(* there is one, else the Unicode value of the glyph name the encoding     *)
(* (base encoding + Differences, or the built-in encoding of an embedded   *)
(* Type 1 program) assigns to the code, else the placeholder (cid:N); the  *)
(* advance is the Widths/FirstChar entry, the standard-14 metric of the    *)
(* character, or MissingWidth, scaled by FontMatrix for Type3.             *)
(*                                                                         *)
(* Implementation-shaped machine (one action per step of the code):        *)
(*   AWidths        PDFType1Font/PDFType3Font.__init__: width table         *)
(*   ASelectBase    PDFSimpleFont.__init__ + EncodingDB.get_encoding: table *)
(*   ADiffInt / ADiffName / ADiffUnmapped   the Differences cursor loop     *)
(*   AToUnicode     ToUnicode CMap parsed into unicode_map                  *)
(*   ABuiltinEntry / ABuiltinEnd   Type1FontHeaderParser.get_encoding       *)
(* then  Text(m, c) = PDFSimpleFont.to_unichr + the (cid:N) fallback of     *)
(* PDFLayoutAnalyzer.render_char and  Width(m, c) = PDFFont.char_width.     *)
(* Two copies of the machine run in lock step: mi with no deviation (the    *)
(* intended design) and mc with the deviations Dev that the code has:       *)
(*   "DiffKeepsBase"     a Differences name without Unicode value leaves    *)
(*                       the base-encoding entry in place (intended: the    *)
(*                       code has no Unicode value -> placeholder)          *)
(*   "HeaderValueError"  a built-in-encoding name for which name2unicode    *)
(*                       raises ValueError aborts the font (only KeyError   *)
(*                       is caught in Type1FontHeaderParser.get_encoding)   *)
(*   "Type3SkewWidth"    Type3 widths are scaled by a+c of FontMatrix       *)
(*                       (apply_matrix_norm(m,(1,1))) instead of a          *)
(*   "BuiltinKeepsEarlier" a dup/put entry whose name has no Unicode value  *)
(*                       leaves what the code had before (the standard      *)
(*                       character, or an earlier entry) instead of         *)
(*                       clearing it - the built-in twin of DiffKeepsBase   *)
(*   "BuiltinStdIgnored" an embedded Type 1 program that declares           *)
(*                       "/Encoding StandardEncoding def" (f.std) yields no *)
(*                       dup/put entries, and the empty result replaces the *)
(*                       table: every code loses its Unicode value          *)
(* Reference semantics (declarative, from ISO 32000-1 9.6.6, 9.10.2, 9.2.4, *)
(* 9.6.2/9.6.5 and the Type 1 font format): RefEncVal, RefText, RefWidth.   *)
(* Invariants: DiffOverlayStep, DiffOverlay, Precedence, WidthRule on the   *)
(* intended machine; DevLocal bounds where the as-coded machine may differ. *)
(*                                                                         *)
(* Codes 1..NC are a window of the 256 codes; window code k is the byte     *)
(* Off(f)+k-1 of the realised font (Off = 0 when the Differences array      *)
(* starts with a name, so that "the cursor starts at 0" is exercised, else  *)
(* OffWin).  Table contents are constants: Defined(b, byte) says whether    *)
(* base encoding b defines the byte (read from pdfminer.latin_enc at run    *)
(* time); glyph names are abstract: gA, gB have an AGL value, gBad has      *)
(* none, gErr makes name2unicode raise ValueError as coded (none intended). *)
(***************************************************************************)
EXTENDS Integers, Sequences, FiniteSets, TLC, Json, FontOps

CONSTANTS NC,            \* window size
          OffWin,        \* byte of window code 1 for fonts whose Differences do not start with a name
          Fonts,         \* the font dictionaries explored
          Defined(_, _), \* Defined(b, byte): base encoding b in {"std","mac","win","pdf"} defines the byte
          Dev

Codes == 1..NC
Mappable == {"gA", "gB"}
Max(S) == CHOOSE x \in S : \A y \in S : y <= x

None == [k |-> "none", a |-> "", n |-> 0]
BaseV(b, byte) == [k |-> "base", a |-> b, n |-> byte]     \* what table b holds for the byte
GlyphV(g) == [k |-> "glyph", a |-> g, n |-> 0]            \* AGL value of glyph name g
TuV(t) == [k |-> "tu", a |-> t, n |-> 0]                  \* ToUnicode target t
CidV(c) == [k |-> "cid", a |-> "", n |-> c]               \* placeholder (cid:N) for window code c

Off(f) == IF f.diff # <<>> /\ f.diff[1].t = "name" THEN 0 ELSE OffWin
Byte(f, c) == Off(f) + c - 1

\* which table: Encoding absent -> Standard; a name -> that table, an unknown name -> Standard;
\* a dictionary -> its BaseEncoding, absent/unknown -> Standard
EffBase(f) == IF f.enc = "absent" THEN "std"
              ELSE IF f.base \in {"std", "mac", "win", "pdf"} THEN f.base ELSE "std"
BaseTab(f) == [c \in Codes |-> IF Defined(EffBase(f), Byte(f, c)) THEN BaseV(EffBase(f), Byte(f, c)) ELSE None]

UsesBuiltin(f) == f.kind \in {"Type1", "MMType1", "TrueType"} /\ f.enc = "absent" /\ f.file
TuOf(f, c) == IF c \in DOMAIN f.tu THEN f.tu[c] ELSE "none"

\* ------------------------------------------------------------------ reference semantics
\* ISO 32000-1 table 114: each number is the first code to change; the names after it replace consecutive codes
RefCursor(diff, j) ==
  LET ints == {i \in 1..(j - 1) : diff[i].t = "int"}
      li == IF ints = {} THEN 0 ELSE Max(ints)
      start == IF li = 0 THEN 1 ELSE diff[li].v IN
  start + Cardinality({i \in (li + 1)..(j - 1) : diff[i].t = "name"})

RefEncDiff(f, diff, c) ==
  LET J == {j \in 1..Len(diff) : diff[j].t = "name" /\ RefCursor(diff, j) = c} IN
  IF J = {} THEN BaseTab(f)[c]
  ELSE IF diff[Max(J)].g \in Mappable THEN GlyphV(diff[Max(J)].g) ELSE None

RefEncVal(f, c) ==
  IF UsesBuiltin(f)
  THEN LET J == {j \in 1..Len(f.ent) : f.ent[j].c = c} IN
       IF J = {} THEN (IF f.std THEN BaseTab(f)[c] ELSE None)     \* the program's own table: StandardEncoding or .notdef
       ELSE IF f.ent[Max(J)].g \in Mappable THEN GlyphV(f.ent[Max(J)].g) ELSE None
  ELSE RefEncDiff(f, f.diff, c)

RefText(f, c) == IF TuOf(f, c) # "none" THEN TuV(TuOf(f, c))
                 ELSE IF RefEncVal(f, c) # None THEN RefEncVal(f, c) ELSE CidV(c)

WTab(i, sc) == [src |-> "W", idx |-> i, of |-> None, sc |-> sc]       \* Widths[i] (1-based) times scale sc
WMiss(sc) == [src |-> "MW", idx |-> 0, of |-> None, sc |-> sc]        \* MissingWidth (0 when absent)
WMetric(t) == [src |-> "metric", idx |-> 0, of |-> t, sc |-> "milli"] \* standard-14 metric of character t (MissingWidth if none)

RefWidth(f, c) ==
  IF f.kind = "Std14" THEN (IF RefText(f, c).k = "cid" THEN WMiss("milli") ELSE WMetric(RefText(f, c)))
  ELSE LET sc == IF f.kind = "Type3" THEN "a" ELSE "milli" IN
       IF (c - f.fc + 1) \in 1..Len(f.widths) THEN WTab(c - f.fc + 1, sc) ELSE WMiss(sc)

\* ------------------------------------------------------------------ the machine
M0 == [pc |-> "widths", enc |-> [c \in Codes |-> None], cur |-> 1, k |-> 0, umap |-> [c \in Codes |-> "none"],
       wmode |-> "table", sc |-> "milli", err |-> "none", hit |-> {}]

Step(m, f, dev) ==
  CASE m.pc = "widths" ->
         [m EXCEPT !.wmode = IF f.kind = "Std14" THEN "metric" ELSE "table",
                   !.sc = IF f.kind = "Type3" THEN (IF "Type3SkewWidth" \in dev THEN "a+c" ELSE "a") ELSE "milli",
                   !.pc = "base"]
    [] m.pc = "base" ->
         [m EXCEPT !.enc = BaseTab(f), !.cur = 1, !.k = 0, !.pc = IF f.enc = "dict" THEN "diff" ELSE "tu"]
    [] m.pc = "diff" ->
         IF m.k = Len(f.diff) THEN [m EXCEPT !.pc = "tu"]
         ELSE LET e == f.diff[m.k + 1] IN
              IF e.t = "int" THEN [m EXCEPT !.cur = e.v, !.k = m.k + 1]
              ELSE [m EXCEPT !.enc = DiffName(m.enc, m.cur, e.g \in Mappable, GlyphV(e.g), None, Codes,
                                              "DiffKeepsBase" \in dev),
                             !.cur = m.cur + 1, !.k = m.k + 1,
                             !.hit = IF e.g \notin Mappable /\ "DiffKeepsBase" \in dev /\ m.cur \in Codes
                                     THEN m.hit \cup {m.cur} ELSE m.hit]
    [] m.pc = "tu" ->
         [m EXCEPT !.umap = [c \in Codes |-> TuOf(f, c)], !.k = 0,
                   !.enc = IF UsesBuiltin(f)
                           THEN (IF f.std /\ "BuiltinStdIgnored" \notin dev THEN BaseTab(f) ELSE [c \in Codes |-> None])
                           ELSE m.enc,
                   !.hit = IF UsesBuiltin(f) /\ f.std /\ "BuiltinStdIgnored" \in dev THEN Codes ELSE m.hit,
                   !.pc = IF UsesBuiltin(f) THEN "builtin" ELSE "done"]
    [] m.pc = "builtin" ->
         IF m.k = Len(f.ent) THEN [m EXCEPT !.pc = "done"]
         ELSE LET e == f.ent[m.k + 1] IN
              IF e.g \in Mappable THEN [m EXCEPT !.enc = [m.enc EXCEPT ![e.c] = GlyphV(e.g)], !.k = m.k + 1]
              ELSE IF e.g = "gErr" /\ "HeaderValueError" \in dev
                   THEN [m EXCEPT !.err = "ValueError", !.hit = Codes, !.pc = "done"]
              ELSE IF "BuiltinKeepsEarlier" \in dev
                   THEN [m EXCEPT !.k = m.k + 1,          \* KeyError caught, entry left as it was
                                  !.hit = IF m.enc[e.c] # None THEN m.hit \cup {e.c} ELSE m.hit]
              ELSE [m EXCEPT !.enc = [m.enc EXCEPT ![e.c] = None], !.k = m.k + 1]   \* the code selects a glyph without Unicode value
    [] OTHER -> m

\* PDFSimpleFont.to_unichr, then PDFLayoutAnalyzer.handle_undefined_char
Text(m, c) == TextRule(m.umap[c] # "none", TuV(m.umap[c]), m.enc[c], None, CidV(c))
\* PDFFont.char_width: widths keyed by code (table) or by character (standard-14 metrics), else the default
Width(m, f, c) ==
  IF m.wmode = "metric" THEN (IF Text(m, c).k = "cid" THEN WMiss("milli") ELSE WMetric(Text(m, c)))
  ELSE IF (c - f.fc + 1) \in 1..Len(f.widths) THEN WTab(c - f.fc + 1, m.sc) ELSE WMiss(m.sc)

VARIABLES font, mi, mc
vars == <<font, mi, mc>>

Init == font \in Fonts /\ mi = M0 /\ mc = M0
Both == mi' = Step(mi, font, {}) /\ mc' = Step(mc, font, Dev) /\ UNCHANGED font

AWidths == mi.pc = "widths" /\ Both
ASelectBase == mi.pc = "base" /\ Both
ADiffInt == mi.pc = "diff" /\ mi.k < Len(font.diff) /\ font.diff[mi.k + 1].t = "int" /\ Both
ADiffName == mi.pc = "diff" /\ mi.k < Len(font.diff) /\ font.diff[mi.k + 1].t = "name"
             /\ font.diff[mi.k + 1].g \in Mappable /\ Both
ADiffUnmapped == mi.pc = "diff" /\ mi.k < Len(font.diff) /\ font.diff[mi.k + 1].t = "name"
                 /\ font.diff[mi.k + 1].g \notin Mappable /\ Both
ADiffEnd == mi.pc = "diff" /\ mi.k = Len(font.diff) /\ Both
AToUnicode == mi.pc = "tu" /\ Both
ABuiltinEntry == mi.pc = "builtin" /\ mi.k < Len(font.ent) /\ Both
ABuiltinEnd == mi.pc = "builtin" /\ mi.k = Len(font.ent) /\ Both
Next == AWidths \/ ASelectBase \/ ADiffInt \/ ADiffName \/ ADiffUnmapped \/ ADiffEnd \/ AToUnicode
        \/ ABuiltinEntry \/ ABuiltinEnd
Spec == Init /\ [][Next]_vars

\* ------------------------------------------------------------------ properties
Done == mi.pc = "done"
\* after k elements the table is the declarative overlay of the first k elements: exactly the assigned codes changed
DiffOverlayStep == mi.pc = "diff" => \A c \in Codes : mi.enc[c] = RefEncDiff(font, SubSeq(font.diff, 1, mi.k), c)
DiffOverlay == Done => \A c \in Codes : mi.enc[c] = RefEncVal(font, c)
Precedence == Done => \A c \in Codes : Text(mi, c) = RefText(font, c)
WidthRule == Done => \A c \in Codes : Width(mi, font, c) = RefWidth(font, c)
CursorInWindow == mi.cur <= NC + 1 /\ mc.cur = mi.cur
NoIntendedError == mi.err = "none"
\* the as-coded machine differs only where a named deviation was taken
DevLocal == Done => \A c \in Codes :
              (Text(mc, c) # Text(mi, c) \/ (font.kind # "Type3" /\ Width(mc, font, c) # Width(mi, font, c))) => c \in mc.hit
\* NOT expected to hold while Dev is non-empty: TLC refutes the as-coded machine
AsCodedPrecedence == Done => mc.err = "none" /\ \A c \in Codes : Text(mc, c) = RefText(font, c)
AsCodedWidthRule == Done => \A c \in Codes : Width(mc, font, c) = RefWidth(font, c)
DevScale == Done /\ mc.sc # mi.sc => font.kind = "Type3" /\ "Type3SkewWidth" \in Dev

Emit == Done => PrintT("@@" \o ToJson([f |-> font, off |-> Off(font),
                  ti |-> [c \in Codes |-> Text(mi, c)], tc |-> [c \in Codes |-> Text(mc, c)],
                  wi |-> [c \in Codes |-> Width(mi, font, c)], wc |-> [c \in Codes |-> Width(mc, font, c)],
                  err |-> mc.err, hit |-> mc.hit]))
=============================================================================
