---- MODULE MC_Placement ----
EXTENDS Placement
\* -1 stands for "no explicit vx" (DW2 gives only vy and w1y)
MCSetups == {
  [id |-> "H-default", mode |-> "H", tab |-> [c \in 1..3 |-> <<>>], dw |-> <<1000>>],
  [id |-> "H-W", mode |-> "H", tab |-> (1 :> <<250>> @@ 2 :> <<600>> @@ 3 :> <<>>), dw |-> <<500>>],
  [id |-> "V-default", mode |-> "V", tab |-> [c \in 1..3 |-> <<>>], dw |-> <<-1000, -1, 880>>],
  [id |-> "V-W2", mode |-> "V", tab |-> (1 :> <<-500, 300, 700>> @@ 2 :> <<>> @@ 3 :> <<-750, 500, 880>>), dw |-> <<-1000, -1, 880>>],
  [id |-> "V-DW2", mode |-> "V", tab |-> (1 :> <<-800, 400, 900>> @@ 2 :> <<-800, 400, 900>> @@ 3 :> <<>>), dw |-> <<-900, -1, 800>>]}
MCShow == {1, 2, 3}
====
