---- MODULE MC_Placement ----
EXTENDS Placement
\* -1 stands for "no explicit vx" (DW2 gives only vy and w1y)
MCSetups == {
  [id |-> "H-default", mode |-> "H", tc |-> 0, tw |-> 0, sc |-> 1, tab |-> [c \in 1..3 |-> <<>>], dw |-> <<1000>>],
  [id |-> "H-W", mode |-> "H", tc |-> 0, tw |-> 0, sc |-> 1, tab |-> (1 :> <<250>> @@ 2 :> <<600>> @@ 3 :> <<>>), dw |-> <<500>>],
  [id |-> "V-default", mode |-> "V", tc |-> 0, tw |-> 0, sc |-> 1, tab |-> [c \in 1..3 |-> <<>>], dw |-> <<-1000, -1, 880>>],
  [id |-> "V-W2", mode |-> "V", tc |-> 0, tw |-> 0, sc |-> 1, tab |-> (1 :> <<-500, 300, 700>> @@ 2 :> <<>> @@ 3 :> <<-750, 500, 880>>), dw |-> <<-1000, -1, 880>>],
  [id |-> "V-DW2", mode |-> "V", tc |-> 0, tw |-> 0, sc |-> 1, tab |-> (1 :> <<-800, 400, 900>> @@ 2 :> <<-800, 400, 900>> @@ 3 :> <<>>), dw |-> <<-900, -1, 800>>],
  \* real-valued numbers (x.5), written in HALVES: W [1 [250.5] 2 2 600.5] DW 499.5 ; W2 [1 [-500.5 300.5 700.5] 3 3 -750.5 500.5 880.5]
  \* DW2 [880.5 -999.5]
  [id |-> "H-real", mode |-> "H", tc |-> 0, tw |-> 0, sc |-> 1, tab |-> (1 :> <<501>> @@ 2 :> <<1201>> @@ 3 :> <<>>), dw |-> <<999>>],
  [id |-> "V-real", mode |-> "V", tc |-> 0, tw |-> 0, sc |-> 1, tab |-> (1 :> <<-1001, 601, 1401>> @@ 2 :> <<>> @@ 3 :> <<-1501, 1001, 1761>>), dw |-> <<-1999, -1, 1761>>],
  \* an explicit default of 0: /DW 0 and /DW2 [880 0] (the descriptor's /MissingWidth is not a default of CID fonts)
  [id |-> "H-dw0", mode |-> "H", tc |-> 0, tw |-> 0, sc |-> 1, tab |-> (1 :> <<250>> @@ 2 :> <<>> @@ 3 :> <<>>), dw |-> <<0>>],
  [id |-> "V-dw0", mode |-> "V", tc |-> 0, tw |-> 0, sc |-> 1, tab |-> (1 :> <<-500, 300, 700>> @@ 2 :> <<>> @@ 3 :> <<>>), dw |-> <<0, -1, 880>>],
  \* zero components: position vector x = 0 (CID 1), vertical displacement 0 and position vector y = 0 (CID 2)
  [id |-> "V-zero", mode |-> "V", tc |-> 0, tw |-> 0, sc |-> 1, tab |-> (1 :> <<-500, 0, 700>> @@ 2 :> <<0, 300, 0>> @@ 3 :> <<>>), dw |-> <<-1000, -1, 880>>],
  \* text-state parameters that are usually left at their defaults: 0.5 Tc 2 Tw (fs 10: 50 / 200 thousandths), 200 Tz, 3 Ts
  [id |-> "H-ts", mode |-> "H", tc |-> 50, tw |-> 200, sc |-> 2, tab |-> (1 :> <<250>> @@ 2 :> <<600>> @@ 3 :> <<>>), dw |-> <<500>>],
  [id |-> "V-ts", mode |-> "V", tc |-> 50, tw |-> 200, sc |-> 1, tab |-> (1 :> <<-500, 300, 700>> @@ 2 :> <<>> @@ 3 :> <<-750, 500, 880>>), dw |-> <<-1000, -1, 880>>],
  [id |-> "V-tz", mode |-> "V", tc |-> 50, tw |-> 200, sc |-> 2, tab |-> [c \in 1..3 |-> <<>>], dw |-> <<-1000, -1, 880>>]}
MCShow == {1, 2, 3, 32}
AllDev == {"VerticalTzScales"}
NoDev == {}
====
