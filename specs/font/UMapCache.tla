------------------------------ MODULE UMapCache ------------------------------
(***************************************************************************)
(* Property C07: the CID -> Unicode map of a character collection depends  *)
(* on the writing mode (the vertical map differs from the horizontal one   *)
(* on arrows, punctuation, brackets ...).  CMapDB.get_unicode_map(name,    *)
(* vertical) caches per collection for the life of the process, so what a  *)
(* font gets must not depend on which fonts were built before it.          *)
(*                                                                         *)
(* State: cache[coll] = the set of modes for which a map is held (as coded *)
(* both modes are built on the first request), and the history of requests *)
(* with the map each one was answered with (<<coll, mode>> names a map).   *)
(*   ALoad   first request for the collection: read the data, build the    *)
(*           maps, answer with the requested mode                          *)
(*   AHit    later request: answer from the cache                          *)
(* Switch "SingleSlot" (never in force on a correct tree; kept so that TLC *)
(* can exhibit the failure): only the requested mode is built and the slot *)
(* is keyed by collection alone, so a later request for the other mode     *)
(* gets the first one's map.                                               *)
(* Invariant ModeCorrect: every request was answered with the map of its   *)
(* own collection AND mode - whatever came before (history independence).  *)
(***************************************************************************)
EXTENDS Integers, Sequences, FiniteSets, TLC, Json

CONSTANTS Colls, MaxReq, Dev
Modes == {"H", "V"}

VARIABLES slot, hist
vars == <<slot, hist>>
\* slot[c] = "" (nothing cached), "both", or the single mode held under "SingleSlot"
Init == slot = [c \in Colls |-> ""] /\ hist = <<>>

Answer(c, m) == IF slot[c] \in {"", "both"} THEN <<c, m>> ELSE <<c, slot[c]>>
ALoad == /\ Len(hist) < MaxReq
         /\ \E c \in Colls, m \in Modes :
              /\ slot[c] = ""
              /\ slot' = [slot EXCEPT ![c] = IF "SingleSlot" \in Dev THEN m ELSE "both"]
              /\ hist' = Append(hist, [coll |-> c, mode |-> m, got |-> <<c, m>>])
AHit == /\ Len(hist) < MaxReq
        /\ \E c \in Colls, m \in Modes :
              /\ slot[c] # ""
              /\ hist' = Append(hist, [coll |-> c, mode |-> m, got |-> Answer(c, m)])
              /\ UNCHANGED slot
Next == ALoad \/ AHit
Spec == Init /\ [][Next]_vars

ModeCorrect == \A i \in 1..Len(hist) : hist[i].got = <<hist[i].coll, hist[i].mode>>
Emit == Len(hist) > 0 => PrintT("@@" \o ToJson([h |-> hist]))
=============================================================================
