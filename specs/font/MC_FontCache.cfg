CONSTANTS
  NP = 2
  Names <- MCNames
  Objs <- MCObjs
  Inlines <- MCInlines
  SpecOf <- MCSpecOf
INIT Init
NEXT Next
INVARIANT Coherent
INVARIANT CacheSound
INVARIANT NoInlineCached
CHECK_DEADLOCK FALSE
