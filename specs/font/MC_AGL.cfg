CONSTANTS
  Alphabet <- MCAlphabet
  MaxLen = 4
  Prefix <- MCPrefix
  ListNames <- MCListNames
  ListVal <- MCListVal
  Dev <- MCDev
  LowerHexOK = TRUE
INIT Init
NEXT Next
INVARIANT AGLAgrees
INVARIANT DevLocal
INVARIANT ScalarsOK
INVARIANT AutomatonOK
CHECK_DEADLOCK FALSE
