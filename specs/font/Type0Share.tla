----------------------------- MODULE Type0Share -----------------------------
(***************************************************************************)
(* Property C07 over several Type0 fonts that SHARE one descendant CIDFont *)
(* dictionary (an indirect object, so the document hands out the same      *)
(* dictionary object every time): what a Type0 font reports depends on its *)
(* own /Encoding and /ToUnicode and on the descendant, never on which      *)
(* other Type0 font was loaded before it.                                  *)
(*                                                                         *)
(* PDFResourceManager.get_font, Type0 branch: the descendant dictionary is *)
(* COPIED, the parent's Encoding / ToUnicode entries are written into the  *)
(* copy, and the CID font is built from the copy.                          *)
(*   ALoad(t)  one such construction; the font built is recorded as the    *)
(*             <<Encoding, ToUnicode>> it was built with                   *)
(* Switch "NoCopy" (never in force on a correct tree; lets TLC exhibit the *)
(* failure): the entries are written into the shared dictionary itself.    *)
(* Invariants: DescendantUnchanged, Isolated (every font built so far was  *)
(* built with exactly its own parent's entries; "absent" ToUnicode means   *)
(* the character collection decides, CIDSelect.tla).                       *)
(***************************************************************************)
EXTENDS Integers, Sequences, FiniteSets, TLC, Json

CONSTANTS Parents,   \* Type0 dictionaries: [id, enc, tu]  tu = "absent" or the name of a ToUnicode stream
          MaxLoads, Dev

D0 == [enc |-> "absent", tu |-> "absent"]           \* the descendant as stored in the file
VARIABLES desc, built
vars == <<desc, built>>
Init == desc = D0 /\ built = <<>>

Written(d, t) == [enc |-> t.enc, tu |-> IF t.tu # "absent" THEN t.tu ELSE d.tu]
ALoad == /\ Len(built) < MaxLoads
         /\ \E t \in Parents :
              /\ ~\E i \in 1..Len(built) : built[i].id = t.id          \* get_font caches by object id
              /\ built' = Append(built, [id |-> t.id, enc |-> t.enc, want |-> t.tu, got |-> Written(desc, t)])
              /\ desc' = IF "NoCopy" \in Dev THEN Written(desc, t) ELSE desc
Next == ALoad
Spec == Init /\ [][Next]_vars

DescendantUnchanged == desc = D0
Isolated == \A i \in 1..Len(built) : built[i].got = [enc |-> built[i].enc, tu |-> built[i].want]
Emit == Len(built) > 0 => PrintT("@@" \o ToJson([b |-> built]))
=============================================================================
