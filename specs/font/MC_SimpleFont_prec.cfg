CONSTANTS
  NC = 8
  OffWin = 124
  MaxDiff = 4
  PrecKinds = {"Type1", "Type3"}
  Fonts <- FontsPrec
  Defined <- SampleDefined
  Dev <- AllDev
INIT Init
NEXT Next
INVARIANT DiffOverlayStep
INVARIANT DiffOverlay
INVARIANT Precedence
INVARIANT WidthRule
INVARIANT CursorInWindow
INVARIANT NoIntendedError
INVARIANT DevLocal
INVARIANT DevScale
CHECK_DEADLOCK FALSE
