-------------------------------- MODULE AGL --------------------------------
(***************************************************************************)
(* The Adobe Glyph List algorithm (glyph name -> Unicode string) as used   *)
(* by pdfminer's encodingdb.name2unicode, for property C06.                *)
(*                                                                         *)
(* Three things live here.                                                 *)
(*  1. Ref(name): the declarative reading of the AGL specification         *)
(*     (https://github.com/adobe-type-tools/agl-specification, section 2): *)
(*     drop everything from the first ".", split at "_", map each          *)
(*     component by  list lookup / "uni" + 4k hex digits (no surrogates) / *)
(*     "u" + 4..6 hex digits (<= 10FFFF, no surrogates) / empty string,    *)
(*     concatenate.  An empty result means "no Unicode value".             *)
(*     The repository documents one relaxation (tests/test_encodingdb.py): *)
(*     lower-case hexadecimal digits are accepted; LowerHexOK switches it. *)
(*  2. The machine: a left-to-right automaton over the symbols of the      *)
(*     name (actions ADot, AUnderscore, ASuffix, AChar) that cuts the name *)
(*     into components, plus Comp(c, dev): the classification of one       *)
(*     component written the way the Python code does it (str.strip,       *)
(*     re.match, len tests, int(.., 16), chr).  dev is the set of named    *)
(*     deviations of the code from the intended design that are switched   *)
(*     on; dev = {} is the intended algorithm.                             *)
(*       "HexPrefixOnly"  re.match anchors only at the start, so a name    *)
(*                        whose hex part merely STARTS with a hex digit    *)
(*                        reaches int(.., 16): ValueError (or, for "0x41", *)
(*                        a value) instead of "no value"                   *)
(*       "ChrRange"       u + 5..6 digits above 10FFFF reaches chr():      *)
(*                        ValueError instead of "no value"                 *)
(*       "StripBothEnds"  str.strip("uni") / strip("u") removes the        *)
(*                        characters u,n,i from BOTH ends and any number   *)
(*                        of them, instead of removing the prefix          *)
(*       "CompFailAll"    one unmapped component makes the whole name      *)
(*                        unmapped (AGL: it contributes the empty string)  *)
(*  3. The invariants:  AGLAgrees (intended machine = Ref on every name),  *)
(*     DevLocal (the as-coded machine differs from the intended one only   *)
(*     where a deviation fires), ScalarsOK (never a surrogate or > 10FFFF).*)
(*                                                                         *)
(* Every reachable state is one name (names are grown one symbol per       *)
(* step), so TLC evaluates the invariants on every name over Alphabet of   *)
(* length <= MaxLen that extends Prefix.  The contents of the glyph list   *)
(* are a constant (ListNames / ListVal), read from pdfminer.glyphlist at   *)
(* run time by the harness.                                                *)
(***************************************************************************)
EXTENDS Integers, Sequences, FiniteSets, TLC, Json

CONSTANTS Alphabet,      \* set of one-character strings
          MaxLen,        \* longest name explored
          Prefix,        \* every explored name starts with this sequence (<<>> for all names)
          ListNames,     \* the names over Alphabet (length <= MaxLen) that the glyph list contains
          ListVal(_),    \* glyph-list value of such a name: sequence of code points
          Dev,           \* deviations in force (as coded)
          LowerHexOK     \* the repository's documented relaxation

HexUp == {"0", "1", "2", "3", "4", "5", "6", "7", "8", "9", "A", "B", "C", "D", "E", "F"}
HexLo == {"a", "b", "c", "d", "e", "f"}
HexAny == HexUp \cup HexLo
RefHex == IF LowerHexOK THEN HexAny ELSE HexUp
HexVal(c) == CASE c = "0" -> 0 [] c = "1" -> 1 [] c = "2" -> 2 [] c = "3" -> 3 [] c = "4" -> 4
               [] c = "5" -> 5 [] c = "6" -> 6 [] c = "7" -> 7 [] c = "8" -> 8 [] c = "9" -> 9
               [] c \in {"A", "a"} -> 10 [] c \in {"B", "b"} -> 11 [] c \in {"C", "c"} -> 12
               [] c \in {"D", "d"} -> 13 [] c \in {"E", "e"} -> 14 [] c \in {"F", "f"} -> 15

Take(s, n) == SubSeq(s, 1, n)
Drop(s, n) == SubSeq(s, n + 1, Len(s))
StartsWith(s, p) == Len(s) >= Len(p) /\ Take(s, Len(p)) = p
AllIn(s, S) == \A i \in 1..Len(s) : s[i] \in S
FirstIdx(s, ch) == LET I == {i \in 1..Len(s) : s[i] = ch} IN
                   IF I = {} THEN 0 ELSE CHOOSE i \in I : \A j \in I : i <= j
RECURSIVE HexNum(_)
HexNum(s) == IF s = <<>> THEN 0 ELSE HexNum(Take(s, Len(s) - 1)) * 16 + HexVal(s[Len(s)])
RECURSIVE Flatten(_)
Flatten(ss) == IF ss = <<>> THEN <<>> ELSE Head(ss) \o Flatten(Tail(ss))
Surr(v) == v >= 55296 /\ v <= 57343
MaxScalar == 1114111
UNI == <<"u", "n", "i">>
U == <<"u">>

\* ------------------------------------------------------------------ 1. reference (AGL specification)
BeforeDot(s) == LET i == FirstIdx(s, ".") IN IF i = 0 THEN s ELSE Take(s, i - 1)
RECURSIVE SplitUS(_)
SplitUS(s) == LET i == FirstIdx(s, "_") IN
              IF i = 0 THEN <<s>> ELSE <<Take(s, i - 1)>> \o SplitUS(Drop(s, i))
Groups(r) == [k \in 1..(Len(r) \div 4) |-> HexNum(SubSeq(r, 4 * k - 3, 4 * k))]

RefComp(c) ==
  IF c \in ListNames THEN ListVal(c)
  ELSE IF /\ StartsWith(c, UNI) /\ Len(c) > 3 /\ (Len(c) - 3) % 4 = 0 /\ AllIn(Drop(c, 3), RefHex)
          /\ \A k \in 1..((Len(c) - 3) \div 4) : ~Surr(Groups(Drop(c, 3))[k])
       THEN Groups(Drop(c, 3))
  ELSE IF /\ StartsWith(c, U) /\ (Len(c) - 1) \in 4..6 /\ AllIn(Drop(c, 1), RefHex)
          /\ HexNum(Drop(c, 1)) <= MaxScalar /\ ~Surr(HexNum(Drop(c, 1)))
       THEN <<HexNum(Drop(c, 1))>>
  ELSE <<>>

Ref(name) == LET cs == SplitUS(BeforeDot(name)) IN Flatten([k \in 1..Len(cs) |-> RefComp(cs[k])])

\* ------------------------------------------------------------------ 2. the machine
Ok(v) == [k |-> "ok", v |-> v]
Undef == [k |-> "undef", v |-> <<>>]
VErr == [k |-> "verr", v |-> <<>>]

\* Python: s.strip(chars)
RECURSIVE LStrip(_, _)
LStrip(s, S) == IF s # <<>> /\ Head(s) \in S THEN LStrip(Tail(s), S) ELSE s
RECURSIVE RStrip(_, _)
RStrip(s, S) == IF s # <<>> /\ s[Len(s)] \in S THEN RStrip(Take(s, Len(s) - 1), S) ELSE s
Strip(s, S) == RStrip(LStrip(s, S), S)

\* Python: int(s, 16) on the symbols a glyph-name component can hold (no sign, blank or "_"):
\* hex digits, optionally after a "0x"/"0X" prefix; -1 stands for ValueError
PyInt16(s) == IF s # <<>> /\ AllIn(s, HexAny) THEN HexNum(s)
              ELSE IF Len(s) > 2 /\ s[1] = "0" /\ s[2] \in {"x", "X"} /\ AllIn(Drop(s, 2), HexAny)
                   THEN HexNum(Drop(s, 2))
              ELSE -1
\* Python: HEXADECIMAL.match(r)  (re.match, pattern [0-9a-fA-F]+) ; intended: the whole of r is hexadecimal
MatchHex(r, dev) == IF "HexPrefixOnly" \in dev THEN r # <<>> /\ r[1] \in HexAny
                    ELSE r # <<>> /\ AllIn(r, HexAny)

Comp(c, dev) ==
  IF c \in ListNames THEN Ok(ListVal(c))
  ELSE IF StartsWith(c, UNI) THEN
       LET r == IF "StripBothEnds" \in dev THEN Strip(c, {"u", "n", "i"}) ELSE Drop(c, 3)
           g == [k \in 1..(Len(r) \div 4) |-> PyInt16(SubSeq(r, 4 * k - 3, 4 * k))] IN
       IF MatchHex(r, dev) /\ Len(r) % 4 = 0
       THEN IF \E k \in DOMAIN g : g[k] = -1 THEN VErr
            ELSE IF \E k \in DOMAIN g : Surr(g[k]) THEN Undef
            ELSE Ok(g)
       ELSE Undef
  ELSE IF StartsWith(c, U) THEN
       LET r == IF "StripBothEnds" \in dev THEN Strip(c, {"u"}) ELSE Drop(c, 1)
           v == PyInt16(r) IN
       IF MatchHex(r, dev) /\ Len(r) \in 4..6
       THEN IF v = -1 THEN VErr
            ELSE IF Surr(v) THEN Undef
            ELSE IF v > MaxScalar THEN (IF "ChrRange" \in dev THEN VErr ELSE Undef)
            ELSE Ok(<<v>>)
       ELSE Undef
  ELSE Undef

\* "".join(map(name2unicode, components)): the first component that raises decides (as coded);
\* intended: an unmapped component contributes nothing, an empty total is "no value"
Combine(vals, dev) ==
  LET bad == {k \in 1..Len(vals) : vals[k].k = "verr" \/ ("CompFailAll" \in dev /\ vals[k].k = "undef")}
      all == Flatten([k \in 1..Len(vals) |-> vals[k].v]) IN
  IF bad # {} THEN vals[CHOOSE k \in bad : \A j \in bad : k <= j]
  ELSE IF all = <<>> THEN Undef ELSE Ok(all)

\* automaton state: finished components, the component being read, whether a "." was seen
A0 == [done |-> <<>>, cur |-> <<>>, suffix |-> FALSE]
Delta(a, ch) == IF a.suffix THEN a
                ELSE IF ch = "." THEN [a EXCEPT !.suffix = TRUE]
                ELSE IF ch = "_" THEN [a EXCEPT !.done = Append(a.done, a.cur), !.cur = <<>>]
                ELSE [a EXCEPT !.cur = Append(a.cur, ch)]
RECURSIVE Run(_, _)
Run(a, s) == IF s = <<>> THEN a ELSE Run(Delta(a, Head(s)), Tail(s))
Result(a, dev) == LET cs == Append(a.done, a.cur) IN Combine([k \in 1..Len(cs) |-> Comp(cs[k], dev)], dev)

VARIABLES name, aut
vars == <<name, aut>>

Init == name = Prefix /\ aut = Run(A0, Prefix)

Grow(ch) == /\ Len(name) < MaxLen
            /\ name' = Append(name, ch)
            /\ aut' = Delta(aut, ch)
ASuffix == aut.suffix /\ \E ch \in Alphabet : Grow(ch)
ADot == ~aut.suffix /\ "." \in Alphabet /\ Grow(".")
AUnderscore == ~aut.suffix /\ "_" \in Alphabet /\ Grow("_")
AChar == ~aut.suffix /\ \E ch \in Alphabet \ {".", "_"} : Grow(ch)
Next == ASuffix \/ ADot \/ AUnderscore \/ AChar
Spec == Init /\ [][Next]_vars

\* ------------------------------------------------------------------ 3. properties
Intended == Result(aut, {})
AsCoded == Result(aut, Dev)
AsValue(r) == IF r.k = "ok" THEN r.v ELSE <<>>
Fired == IF AsCoded = Intended THEN {} ELSE {d \in Dev : AsCoded # Result(aut, Dev \ {d})}

AGLAgrees == Intended.k # "verr" /\ AsValue(Intended) = Ref(name)
DevLocal == (AsCoded # Intended) => (Fired # {})
ScalarsOK == \A r \in {Intended, AsCoded} : \A i \in 1..Len(r.v) : r.v[i] >= 0 /\ r.v[i] <= MaxScalar /\ ~Surr(r.v[i])
AutomatonOK == aut = Run(A0, name)
\* NOT expected to hold while Dev is non-empty: TLC refutes the as-coded machine (used to exhibit each deviation)
AsCodedAgrees == AsCoded.k # "verr" /\ AsValue(AsCoded) = Ref(name)

\* every explored name, with what the intended and the as-coded algorithm give (replayed on name2unicode)
Emit == PrintT("@@" \o ToJson([n |-> name, i |-> Intended, c |-> AsCoded, f |-> Fired]))
=============================================================================
