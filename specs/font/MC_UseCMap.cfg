CONSTANTS
  Syms <- MCSyms
  AddCodes <- MCAdd
  MaxOps = 3
INIT Init
NEXT Next
INVARIANT SharedUnchanged
INVARIANT NoAlias
INVARIANT MineRef
CHECK_DEADLOCK FALSE
INVARIANT MineComplete
