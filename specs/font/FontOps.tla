------------------------------ MODULE FontOps ------------------------------
(***************************************************************************)
(* Steps shared by the simple-font machine (SimpleFont.tla, abstract       *)
(* values, a window of codes) and its trace specification                  *)
(* (SimpleFontTrace.tla, real values, all 256 codes).                      *)
(***************************************************************************)
EXTENDS Integers, Sequences

\* enc is a function (or sequence) over dom; positions outside dom are not represented
Assign(enc, idx, val, dom) == IF idx \in dom THEN [enc EXCEPT ![idx] = val] ELSE enc

\* one name element of a Differences array at cursor position idx (EncodingDB.get_encoding loop body):
\*   mapped  - name2unicode gave a value (val)
\*   keep    - deviation "DiffKeepsBase": an unmapped name leaves the entry as it was
\*             (intended: the code now selects a glyph without Unicode value -> entry cleared to none)
DiffName(enc, idx, mapped, val, none, dom, keep) ==
  IF mapped THEN Assign(enc, idx, val, dom)
  ELSE IF keep THEN enc ELSE Assign(enc, idx, none, dom)

\* PDFSimpleFont.to_unichr + (cid:N) fallback, over explicit facts
TextRule(hastu, tu, encval, none, undef) == IF hastu THEN tu ELSE IF encval # none THEN encval ELSE undef

\* PDFFont.char_width control skeleton over boolean facts computed with exact arithmetic by the harness:
\*   inw  - the width table has the code as key           eqw - result = that entry * hscale
\*   inm  - the text is defined and the table has it as key (standard-14 metrics)   eqm - result = that entry * hscale
\*   eqd  - result = default width (MissingWidth or 0) * hscale
WidthOK(inw, eqw, inm, eqm, eqd) == IF inw THEN eqw ELSE IF inm THEN eqm ELSE eqd
=============================================================================
