------------------------------ MODULE UseCMap ------------------------------
(***************************************************************************)
(* Composite fonts, property C07: `usecmap` - cmapdb.CMap.use_cmap copies  *)
(* the code table of the used CMap (which is a process-wide cached object, *)
(* CMapDB._cmap_cache) into the using CMap; FileCMap.add_code2cid then     *)
(* extends the copy.  The nested dictionaries are modelled as a heap of    *)
(* objects so that aliasing is expressible:  heap[id][sym] = 0 (no entry), *)
(* n > 0 (leaf: CID n), n < 0 (reference to object -n).                    *)
(*   AUse   use_cmap: recursive copy (a new object per nested dictionary)  *)
(*   AAdd   add_code2cid(code, cid): walk / create, assign the last byte   *)
(* Reference: the using CMap's table is the used table overridden by the   *)
(* added codes; the used CMap is what it was.  Invariants: SharedUnchanged,*)
(* NoAlias (no object reachable from both roots), MineRef.                 *)
(***************************************************************************)
EXTENDS Integers, Sequences, FiniteSets, TLC, Json

CONSTANTS Syms, AddCodes, MaxOps

Ids == 1..8
Empty == [s \in Syms |-> 0]
\* the used (cached) CMap: a -> CID 1, l a -> CID 2, l t -> CID 3     object 1 = its root, object 2 = under l
SharedRoot == 1
MineRoot == 3
H0 == [i \in Ids |-> IF i = 1 THEN [s \in Syms |-> IF s = "a" THEN 1 ELSE IF s = "l" THEN -2 ELSE 0]
                     ELSE IF i = 2 THEN [s \in Syms |-> IF s = "a" THEN 2 ELSE IF s = "t" THEN 3 ELSE 0]
                     ELSE Empty]

\* table of an object as a set of <<code, cid>>
RECURSIVE Table(_, _, _)
Table(h, id, pre) == UNION {IF h[id][s] > 0 THEN {<<Append(pre, s), h[id][s]>>}
                            ELSE IF h[id][s] < 0 THEN Table(h, -h[id][s], Append(pre, s)) ELSE {} : s \in Syms}
RECURSIVE Reach(_, _)
Reach(h, id) == {id} \cup UNION {IF h[id][s] < 0 THEN Reach(h, -h[id][s]) ELSE {} : s \in Syms}

\* use_cmap.copy(dst, src): entries in a fixed order; a nested dictionary gets a fresh object
SymSeq == CHOOSE q \in [1..Cardinality(Syms) -> Syms] : \A i, j \in 1..Cardinality(Syms) : i # j => q[i] # q[j]
RECURSIVE Copy(_, _, _, _)
\* st = [h, next]; copies entries k..n of src object into dst object
Copy(st, dst, src, k) ==
  IF k > Cardinality(Syms) THEN st
  ELSE LET s == SymSeq[k]  v == st.h[src][s] IN
       IF v < 0
       THEN LET n == st.next
                st1 == [h |-> [st.h EXCEPT ![dst][s] = -n, ![n] = Empty], next |-> n + 1]
                st2 == Copy(st1, n, -v, 1) IN
            Copy(st2, dst, src, k + 1)
       ELSE IF v = 0 THEN Copy(st, dst, src, k + 1)          \* only existing keys are iterated
       ELSE Copy([st EXCEPT !.h[dst][s] = v], dst, src, k + 1)

\* add_code2cid on the using CMap
RECURSIVE Add(_, _, _, _)
Add(st, id, code, cid) ==
  IF Len(code) = 1 THEN [st EXCEPT !.h[id][code[1]] = cid]
  ELSE LET v == st.h[id][code[1]] IN
       IF v < 0 THEN Add(st, -v, Tail(code), cid)
       ELSE LET n == st.next IN
            Add([h |-> [st.h EXCEPT ![id][code[1]] = -n, ![n] = Empty], next |-> n + 1], n, Tail(code), cid)

VARIABLES st, ops, used
vars == <<st, ops, used>>
Init == st = [h |-> H0, next |-> 4] /\ ops = <<>> /\ used = FALSE
\* usecmap comes before any definition of the using CMap (CMap syntax; TN 5014 section 7): a later use_cmap would
\* replace whole nested dictionaries of the using CMap, which no CMap file can ask for
AUse == /\ Len(ops) < MaxOps /\ ~used /\ ops = <<>>
        /\ st' = Copy(st, MineRoot, SharedRoot, 1) /\ used' = TRUE /\ ops' = Append(ops, <<"use">>)
AAdd == /\ Len(ops) < MaxOps
        /\ \E ac \in AddCodes : /\ st' = Add(st, MineRoot, ac[1], ac[2])
                                /\ ops' = Append(ops, <<"add", ac[1], ac[2]>>)
        /\ UNCHANGED used
Next == AUse \/ AAdd
Spec == Init /\ [][Next]_vars

SharedUnchanged == Table(st.h, SharedRoot, <<>>) = Table(H0, SharedRoot, <<>>) /\ st.h[1] = H0[1] /\ st.h[2] = H0[2]
NoAlias == Reach(st.h, SharedRoot) \cap Reach(st.h, MineRoot) = {}
\* declarative: last writer per code wins; `use` writes the whole used table
LastFor(code) == LET J == {j \in 1..Len(ops) : (ops[j][1] = "add" /\ ops[j][2] = code)
                                                \/ (ops[j][1] = "use" /\ \E p \in Table(H0, SharedRoot, <<>>) : p[1] = code)} IN
                 IF J = {} THEN 0 ELSE CHOOSE j \in J : \A i \in J : i <= j
MineRef == \A p \in Table(st.h, MineRoot, <<>>) :
             LET j == LastFor(p[1]) IN j > 0 /\ (IF ops[j][1] = "add" THEN p[2] = ops[j][3]
                                                 ELSE <<p[1], p[2]>> \in Table(H0, SharedRoot, <<>>))
MineComplete == /\ \A j \in 1..Len(ops) : ops[j][1] = "add" => \E p \in Table(st.h, MineRoot, <<>>) : p[1] = ops[j][2]
                /\ used => \A p \in Table(H0, SharedRoot, <<>>) : \E q \in Table(st.h, MineRoot, <<>>) : q[1] = p[1]
Emit == PrintT("@@" \o ToJson([ops |-> ops, mine |-> Table(st.h, MineRoot, <<>>)]))
=============================================================================
