------------------------------ MODULE MC_AGL ------------------------------
(* A fixed instance of AGL.tla for runs by hand (tlc -config MC_AGL.cfg MC_AGL).  The harness generates the same   *)
(* wrapper at run time with the glyph-list constants read from pdfminer.glyphlist for each alphabet it explores.   *)
EXTENDS AGL
MCAlphabet == {"u", "n", "i", "0", "D", "F", "8", "d", "x", "_", "."}
\* the glyph-list names over this alphabet up to length 4 and their values (pdfminer/glyphlist.py)
MCListNames == {<<"D">>, <<"F">>, <<"d">>, <<"i">>, <<"n">>, <<"u">>, <<"x">>, <<"n", "u">>, <<"x", "i">>, <<"n", "u", "n">>}
MCListVal(n) == CASE n = <<"D">> -> <<68>> [] n = <<"F">> -> <<70>> [] n = <<"d">> -> <<100>> [] n = <<"i">> -> <<105>>
                  [] n = <<"n">> -> <<110>> [] n = <<"u">> -> <<117>> [] n = <<"x">> -> <<120>>
                  [] n = <<"n", "u">> -> <<957>> [] n = <<"x", "i">> -> <<958>> [] n = <<"n", "u", "n">> -> <<1504>>
                  [] OTHER -> <<>>
MCPrefix == <<>>
MCDev == {"HexPrefixOnly", "ChrRange", "StripBothEnds", "CompFailAll"}
=============================================================================
