---- MODULE MC_UseCMap ----
EXTENDS UseCMap
MCSyms == {"a", "l", "t"}
\* codes that keep the table prefix-free (add_code2cid cannot turn a leaf into a node): an override of an existing
\* two-byte code, a new second byte under an existing lead byte, two codes under a new lead byte
MCAdd == {<<<<"t", "t">>, 7>>, <<<<"l", "a">>, 8>>, <<<<"l", "l">>, 9>>, <<<<"t", "a">>, 5>>}
====
