CONSTANTS
  Elems <- ElemsW
  MaxLen = 6
  Cids <- MCCids
  Modes = {"W"}
INIT Init
NEXT Next
INVARIANT WidthsRef
INVARIANT RegisterBound
CHECK_DEADLOCK FALSE
