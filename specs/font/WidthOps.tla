------------------------------ MODULE WidthOps ------------------------------
(***************************************************************************)
(* Operators of the W / W2 array machines (pdffont.get_widths /            *)
(* get_widths2) and their reference, shared by Widths.tla (exhaustive      *)
(* exploration) and CIDFontTrace.tla (real arrays of real documents).      *)
(* See Widths.tla for the description.                                     *)
(***************************************************************************)
EXTENDS Integers, Sequences, FiniteSets

Take(s, n) == SubSeq(s, 1, n)
Drop(s, n) == SubSeq(s, n + 1, Len(s))
Max(S) == CHOOSE x \in S : \A y \in S : y <= x
NoW == <<>>                                  \* no entry: the default applies
IsN(e) == e.t = "n"
Arity(mode) == IF mode = "W" THEN 1 ELSE 3   \* numbers per glyph in a list
RangeLen(mode) == IF mode = "W" THEN 3 ELSE 5

\* ------------------------------------------------------------------ reference: grammar of the standard
\* groups(arr) = sequence of [c1, c2, vals(list of per-glyph tuples or one tuple for a range), form]
RECURSIVE WellFormed(_, _)
WellFormed(mode, a) ==
  \/ a = <<>>
  \/ /\ Len(a) >= 2 /\ IsN(a[1]) /\ ~IsN(a[2]) /\ Len(a[2].l) % Arity(mode) = 0
     /\ WellFormed(mode, Drop(a, 2))
  \/ /\ Len(a) >= RangeLen(mode) /\ \A i \in 1..RangeLen(mode) : IsN(a[i])
     /\ WellFormed(mode, Drop(a, RangeLen(mode)))
\* the groups of a well-formed array, in order: [lo, hi, val(c)] as records of (first cid, last cid, tuple for offset)
RECURSIVE Groups(_, _)
Groups(mode, a) ==
  IF a = <<>> THEN <<>>
  ELSE IF ~IsN(a[2])
       THEN <<[form |-> "list", lo |-> a[1].v, hi |-> a[1].v + (Len(a[2].l) \div Arity(mode)) - 1, l |-> a[2].l,
               w |-> <<>>]>> \o Groups(mode, Drop(a, 2))
       ELSE <<[form |-> "range", lo |-> a[1].v, hi |-> a[2].v, l |-> <<>>,
               w |-> [i \in 1..Arity(mode) |-> a[2 + i].v]]>> \o Groups(mode, Drop(a, RangeLen(mode)))
GroupVal(mode, g, c) == IF g.form = "range" THEN g.w
                        ELSE SubSeq(g.l, (c - g.lo) * Arity(mode) + 1, (c - g.lo + 1) * Arity(mode))
RefTable(mode, a, cids) == LET gs == Groups(mode, a) IN
  [c \in cids |-> LET J == {j \in 1..Len(gs) : gs[j].lo <= c /\ c <= gs[j].hi} IN
                  IF J = {} THEN NoW ELSE GroupVal(mode, gs[Max(J)], c)]

\* ------------------------------------------------------------------ machine
T0(cids) == [r |-> <<>>, tab |-> [c \in cids |-> NoW]]
\* for i, w in enumerate(choplist(arity, l)): widths[c1 + i] = w    (an incomplete tail is dropped)
PutList(tab, mode, c1, l) ==
  [c \in DOMAIN tab |-> IF c >= c1 /\ (c - c1 + 1) * Arity(mode) <= Len(l)
                        THEN SubSeq(l, (c - c1) * Arity(mode) + 1, (c - c1 + 1) * Arity(mode)) ELSE tab[c]]
\* for i in range(c1, c2 + 1): widths[i] = v
PutRange(tab, c1, c2, v) == [c \in DOMAIN tab |-> IF c1 <= c /\ c <= c2 THEN v ELSE tab[c]]

StepW(mode, s, e) ==
  IF ~IsN(e) THEN (IF s.r # <<>> THEN [r |-> <<>>, tab |-> PutList(s.tab, mode, s.r[Len(s.r)], e.l)] ELSE s)
  ELSE LET r == Append(s.r, e.v) IN
       IF Len(r) = RangeLen(mode)
       THEN [r |-> <<>>, tab |-> PutRange(s.tab, r[1], r[2], SubSeq(r, 3, RangeLen(mode)))]
       ELSE [s EXCEPT !.r = r]

=============================================================================
