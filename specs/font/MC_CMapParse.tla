---- MODULE MC_CMapParse ----
EXTENDS CMapParse
\* codes over bytes {00, 01, FF}: 0000 0001 00FF 0100 0101 ; targets: "A", U+00FF (carries into U+0100), "AB", "A"+U+00FF
TA == <<0, 65>>
TF == <<0, 255>>
TAB == <<0, 65, 0, 66>>
TAF == <<0, 65, 0, 255>>
TS == <<216, 52, 221, 30>>     \* a surrogate pair (U+1D11E): one character, four bytes
T3 == <<0, 102, 0, 102, 0, 105>>                       \* "ffi": three units, two bytes of constant prefix
T3F == <<0, 102, 0, 102, 0, 255>>                      \* three units, the last byte carries
T4 == <<216, 52, 221, 30, 0, 65, 0, 66>>               \* a surrogate pair and "AB": four units, four bytes of prefix
T4F == <<0, 65, 0, 66, 216, 52, 221, 255>>             \* "AB" and a surrogate pair whose last byte carries (DDFF -> DE00)
TE == <<>>                                             \* the empty target: the code has the empty text
Targets == {TA, TF, TAB, TAF}
LongTargets == {T3, T3F, T4, T4F}
CodeVals == {0, 1, 255, 256, 257}
Ranges == {<<0, 1>>, <<1, 1>>, <<255, 256>>, <<255, 257>>, <<256, 257>>, <<1, 0>>}
Z == [t |-> "", lo |-> 0, hi |-> 0, tgt |-> <<>>, arr |-> <<>>]
BfChars == {[Z EXCEPT !.t = "bfchar", !.lo = c, !.tgt = t] : c \in CodeVals, t \in Targets \cup {TS, T3, TE}}
BfRanges == {[Z EXCEPT !.t = "bfrange", !.lo = r[1], !.hi = r[2], !.tgt = t] : r \in Ranges, t \in Targets \cup LongTargets}
            \cup {[Z EXCEPT !.t = "bfrange", !.lo = 1, !.hi = 1, !.tgt = TE]}      \* increment form, empty base, one code
BfArrs == {[Z EXCEPT !.t = "bfrarr", !.lo = r[1], !.hi = r[2], !.arr = a] : r \in Ranges, a \in {<<TA>>, <<TF, TAB>>, <<TAB, TA, TF>>, <<TE, TA>>}}
Marks == {[Z EXCEPT !.t = "endcmap"], [Z EXCEPT !.t = "begincmap"],
          [Z EXCEPT !.t = "junkchar", !.lo = 1], [Z EXCEPT !.t = "junkrange", !.lo = 0, !.hi = 1]}
MCEntries == BfChars \cup BfRanges \cup BfArrs \cup Marks
\* a smaller alphabet for three-entry sequences in the quick tier
SmallEntries == {e \in MCEntries : (e.t = "bfchar" => e.lo \in {1, 256} /\ e.tgt \in {TA, TAB, TE})
                                   /\ (e.t = "bfrange" => (<<e.lo, e.hi>> \in {<<0, 1>>, <<255, 257>>} /\ e.tgt \in {TF, TAF, T3F, T4}) \/ e.tgt = TE)
                                   /\ (e.t = "bfrarr" => <<e.lo, e.hi>> \in {<<0, 1>>, <<255, 257>>} /\ Len(e.arr) = 2)}
AllDev == {"EmptyIncrementBase"}
NoDev == {}
MCCidDom == {0, 1, 2, 255, 256, 257, 258}
====
