---- MODULE MC_CIDSelect ----
EXTENDS CIDSelect
EncNames == {"Identity-H", "Identity-V", "DLIdent-H", "DLIdent-V", "OneByteIdentityH", "OneByteIdentityV", "pre-H", "pre-V"}
MCFonts == [encform : {"name", "stream"}, encname : EncNames, tu : {"absent", "stream", "name-identity"},
            coll : {"identity", "ucs", "known", "unknown"}, ttf : {"none", "cmap", "nocmap"}]
AllDev == {"ToUnicodeByCID"}
NoDev == {}
====
