---- MODULE MC_UMapCache ----
EXTENDS UMapCache
MCColls == {"Adobe-Japan1", "Adobe-Korea1"}
NoDev == {}
Single == {"SingleSlot"}
====
