---------------------------- MODULE TrueTypeCMap ----------------------------
(***************************************************************************)
(* Property C07, clause "or the embedded TrueType cmap define":            *)
(* pdffont.TrueTypeFont.create_unicode_map - which subtables of the 'cmap' *)
(* table are read, how formats 0, 2 and 4 map character codes to glyph     *)
(* indices, and the inverse map glyph (= CID under Identity-H) -> Unicode. *)
(*                                                                         *)
(* A case is one of                                                        *)
(*   [kind "f4"]  a format 4 subtable: segments <<sc, ec, idd, idr>> (the  *)
(*                FFFF terminator included) and the glyphIdArray           *)
(*   [kind "f0"]  a format 0 byte table                                    *)
(*   [kind "f2"]  a format 2 subtable: subHeaderKeys, subheaders <<first,  *)
(*                count, delta, roff>>, glyph array                        *)
(*   [kind "dir"] a font: is there a cmap table, and its subtable records  *)
(*                <<platform, encoding, format, content>>                  *)
(* Cases are produced by the ENCODER relation Enc4 / Enc0 / Enc2 from a    *)
(* small code -> glyph map and a style (delta form, idRangeOffset form     *)
(* with and without idDelta, one segment per code; shared subheaders);     *)
(* RoundTrip says the reference decoding of an encoded map is the map.     *)
(*                                                                         *)
(* Machine (one action per loop iteration of the code): ASegDelta,         *)
(* ASegRange (format 4 segments), AByteTable (format 0), ASubHeader        *)
(* (format 2), ASkipPlatform / AReadSubtable / ASkipFormat (subtable       *)
(* records), AFinish.  Memory is word addressed as in the file: for format *)
(* 4 word 0 is idRangeOffset[0] and the glyphIdArray follows the           *)
(* idRangeOffset array.  Deviations (named, in force while listed known):  *)
(*   "F4RangeBase"    the glyphIdArray address is taken from the START of  *)
(*                    the idRangeOffset array instead of from              *)
(*                    &idRangeOffset[i]: wrong for every segment i > 0     *)
(*   "F4ZeroDelta"    a glyphIdArray entry 0 (missing glyph) still gets    *)
(*                    idDelta added                                        *)
(*   "F2SingleHigh"   format 2: the single-byte codes of subheader 0 are   *)
(*                    given the high byte of the LAST byte whose key is 0  *)
(*   "F2OneHigh"      format 2: a subheader shared by several high bytes   *)
(*                    is applied to the last of them only                  *)
(*   "F2NoModulo"     format 2: idDelta is added without modulo 65536      *)
(*   "BadFormatAsserts" a Unicode subtable of another format (6, 12, ..)   *)
(*                    raises AssertionError instead of being skipped       *)
(* Reference (OpenType specification, 'cmap'): RefPairs.                   *)
(* Invariants: RoundTrip, MachineRef (machine with no deviation = RefPairs *)
(* at the end), DevLocal.  Result: the set of <<char, glyph>> pairs with   *)
(* glyph # 0; the inverse picks, per glyph, one of its characters.         *)
(***************************************************************************)
EXTENDS TrueTypeOps, Json

CONSTANTS Cases, Dev

VARIABLES case, mi, mc
vars == <<case, mi, mc>>
Init == case \in Cases /\ mi = S0 /\ mc = S0
Both == mi' = Step(mi, case, {}) /\ mc' = Step(mc, case, Dev) /\ UNCHANGED case
Running == mi.pc = "run" /\ mi.i < Steps(case)
ASegDelta == Running /\ case.kind = "f4" /\ case.segs[mi.i + 1].idr = 0 /\ Both
ASegRange == Running /\ case.kind = "f4" /\ case.segs[mi.i + 1].idr # 0 /\ Both
AByteTable == Running /\ case.kind = "f0" /\ Both
ASubHeader == Running /\ case.kind = "f2" /\ Both
ASkipPlatform == Running /\ case.kind = "dir" /\ ~Unicode(case.subs[mi.i + 1].p, case.subs[mi.i + 1].e) /\ Both
AReadSubtable == Running /\ case.kind = "dir" /\ Unicode(case.subs[mi.i + 1].p, case.subs[mi.i + 1].e)
                 /\ Supported(case.subs[mi.i + 1].fmt) /\ Both
ASkipFormat == Running /\ case.kind = "dir" /\ Unicode(case.subs[mi.i + 1].p, case.subs[mi.i + 1].e)
               /\ ~Supported(case.subs[mi.i + 1].fmt) /\ Both
AFinish == mi.pc = "run" /\ mi.i = Steps(case) /\ Both
Next == ASegDelta \/ ASegRange \/ AByteTable \/ ASubHeader \/ ASkipPlatform \/ AReadSubtable \/ ASkipFormat \/ AFinish
Spec == Init /\ [][Next]_vars

Done == mi.pc = "done"
EncoderRoundTrip == (mi.i = 0 /\ mi.pc = "run") => RoundTrip(case)      \* once per case
MachineRef == Done => IF case.kind = "dir" THEN DirOK(Result(mi), case) ELSE Result(mi) = RefResult(case)
NoIntendedError == mi.err = "none"
\* NOT expected to hold while Dev is non-empty: the refutation handle
AsCodedRef == Done => IF case.kind = "dir" THEN DirOK(Result(mc), case) ELSE Result(mc) = RefResult(case)
Fired == IF Result(mc) = Result(mi) THEN {}
         ELSE {d \in Dev : Result(RunAll(S0, case, Dev)) # Result(RunAll(S0, case, Dev \ {d}))}
DevLocal == Done /\ Result(mc) # Result(mi) => Fired # {}

Emit == Done => PrintT("@@" \o ToJson([cs |-> case, i |-> Result(mi), c |-> Result(mc), f |-> Fired]))
=============================================================================
