---- MODULE MC_CIDFont ----
EXTENDS CIDFont
\* abstract byte symbols: a = single byte that is also a valid second byte, s = single byte only, l/k = lead bytes that are
\* also valid second bytes, t = second byte only, x = byte that occurs nowhere, m = first byte of a three-byte code
MCFamilies == {
  [name |-> "id2", kind |-> "id2", syms |-> {"p", "q", "r"}, codes |-> {}],
  [name |-> "id1", kind |-> "id1", syms |-> {"p", "q", "r"}, codes |-> {}],
  \* Shift-JIS shaped (90ms-RKSJ, 90msp-RKSJ, KSCms-UHC, GBK-EUC, B5pc, ETen-B5 ...)
  [name |-> "sjis", kind |-> "trie", syms |-> {"a", "s", "l", "t", "x"},
   codes |-> {<<"a">>, <<"s">>, <<"l", "a">>, <<"l", "l">>, <<"l", "t">>}],
  \* EUC shaped: single bytes are never second bytes, lead bytes are (EUC-H, GB-EUC, KSC-EUC ...)
  [name |-> "euc", kind |-> "trie", syms |-> {"s", "l", "k", "x"},
   codes |-> {<<"s">>, <<"l", "l">>, <<"l", "k">>, <<"k", "l">>, <<"k", "k">>}],
  \* only two-byte codes (H, UniJIS-UCS2-H, UniGB-UCS2-H ...): every code starts with a lead byte
  [name |-> "two", kind |-> "trie", syms |-> {"l", "k", "x"},
   codes |-> {<<"l", "l">>, <<"l", "k">>, <<"k", "l">>}],
  \* one, two and three byte codes (UniJIS-UTF8-H shaped)
  [name |-> "utf8", kind |-> "trie", syms |-> {"s", "l", "m", "t"},
   codes |-> {<<"s">>, <<"l", "t">>, <<"m", "t", "t">>}]}
AllDev == {"IdentityOddRaises"}
NoDev == {}
====
