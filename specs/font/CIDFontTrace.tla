---------------------------- MODULE CIDFontTrace ----------------------------
(***************************************************************************)
(* Trace validation (binding B) for composite fonts, property C07.         *)
(* One trace = one real PDFCIDFont of a real document, recorded by         *)
(* harness/observe/cidrec.py from the unmodified pdfminer code:            *)
(*   seg      "id2" | "id1" | "trie"  (class of font.cmap)                 *)
(*   decodes  decode events: the bytes, the CIDs decode() returned, and    *)
(*            for "trie" one fact per byte from an independent walk of the *)
(*            CMap DATA: inn (the byte has an entry at the current node),  *)
(*            leaf (that entry is a CID), cid                              *)
(*   warr / wmode / wtab   the font's W (or W2) array as numbers and lists,*)
(*            and the width table the font built from it, on the CIDs in   *)
(*            wcids                                                        *)
(*   codes    to_unichr / char_width events: has/val (entry of the         *)
(*            selected Unicode source), txt (<<-1>> = undefined), and the  *)
(*            facts inw/eqw/eqd about the returned width                   *)
(* The specification replays the walk of CIDFont.tla over the facts, the   *)
(* W machine of Widths.tla (WidthOps!StepW) over the real array, and the   *)
(* precedence / width skeleton for every recorded CID.  A trace that is    *)
(* not a behaviour deadlocks; the last state names t, ph and k.            *)
(***************************************************************************)
EXTENDS WidthOps, TLC, Json, IOUtils

Traces == JsonDeserialize(IOEnv.TRACE_FILE)
N == Len(Traces)
Undef == <<-1>>

VARIABLES t, ph, k, ws
vars == <<t, ph, k, ws>>
Cur == Traces[t]
Init == t = 1 /\ ph = "decode" /\ k = 0 /\ ws = <<>>

\* ---- segmentation
RECURSIVE Pairs(_)
Pairs(b) == IF Len(b) < 2 THEN <<>> ELSE <<b[1] * 256 + b[2]>> \o Pairs(SubSeq(b, 3, Len(b)))
\* the nested-dictionary walk over per-byte facts: emit at leaves, in order
RECURSIVE Walk(_)
Walk(fs) == IF fs = <<>> THEN <<>>
            ELSE IF fs[1].inn /\ fs[1].leaf THEN <<fs[1].cid>> \o Walk(Tail(fs)) ELSE Walk(Tail(fs))
DecodeOK(seg, d) == CASE seg = "id2" -> d.out = Pairs(d.bytes)
                      [] seg = "id1" -> d.out = d.bytes
                      [] OTHER -> Len(d.facts) = Len(d.bytes) /\ d.out = Walk(d.facts)

ADecode == /\ t <= N /\ ph = "decode" /\ k < Len(Cur.decodes)
           /\ DecodeOK(Cur.seg, Cur.decodes[k + 1])
           /\ k' = k + 1 /\ UNCHANGED <<t, ph, ws>>
ADecodeEnd == /\ t <= N /\ ph = "decode" /\ k = Len(Cur.decodes)
              /\ ph' = "w" /\ k' = 0 /\ ws' = T0({Cur.wcids[i] : i \in 1..Len(Cur.wcids)}) /\ UNCHANGED t

\* ---- W / W2 array machine over the real array
AWStep == /\ t <= N /\ ph = "w" /\ k < Len(Cur.warr)
          /\ ws' = StepW(Cur.wmode, ws, Cur.warr[k + 1])
          /\ k' = k + 1 /\ UNCHANGED <<t, ph>>
\* the table the font holds is the table the machine built (on the observed CIDs)
AWEnd == /\ t <= N /\ ph = "w" /\ k = Len(Cur.warr)
         /\ \A i \in 1..Len(Cur.wcids) : ws.tab[Cur.wcids[i]] = Cur.wtab[i]
         /\ ph' = "codes" /\ k' = 0 /\ UNCHANGED <<t, ws>>

\* ---- per-CID events
ACode == /\ t <= N /\ ph = "codes" /\ k < Len(Cur.codes)
         /\ LET r == Cur.codes[k + 1] IN
              /\ r.txt = (IF r.has THEN r.val ELSE Undef)
              /\ (IF r.inw THEN r.eqw ELSE r.eqd)
         /\ k' = k + 1 /\ UNCHANGED <<t, ph, ws>>
AEndTrace == /\ t <= N /\ ph = "codes" /\ k = Len(Cur.codes)
             /\ t' = t + 1 /\ ph' = "decode" /\ k' = 0 /\ ws' = <<>>
Finished == t > N /\ UNCHANGED vars

Next == ADecode \/ ADecodeEnd \/ AWStep \/ AWEnd \/ ACode \/ AEndTrace \/ Finished
Spec == Init /\ [][Next]_vars
RegisterOK == ph = "w" => Len(ws.r) < 5
=============================================================================
