--------------------------- MODULE MC_SimpleFont ---------------------------
(***************************************************************************)
(* Font-dictionary spaces explored exhaustively for SimpleFont.tla.        *)
(* The harness (harness/props/c06.py) generates a wrapper that extends     *)
(* this module and defines MCDefined from pdfminer.latin_enc at run time;  *)
(* SampleDefined below is the pattern of bytes 124..131 / 0..7, kept here  *)
(* so that the configurations can also be run by hand:                     *)
(*   tlc -config MC_SimpleFont_diff.cfg MC_SimpleFont                      *)
(***************************************************************************)
EXTENDS SimpleFont

CONSTANTS MaxDiff,
          PrecKinds     \* font kinds crossed with the Encoding-dictionary forms in FontsPrec

I(n) == [t |-> "int", v |-> n, g |-> ""]
N(g) == [t |-> "name", v |-> 0, g |-> g]
E(c, g) == [c |-> c, g |-> g]
SeqsUpTo(S, n) == UNION {[1..k -> S] : k \in 0..n}

F0 == [kind |-> "Type1", enc |-> "dict", base |-> "win", diff |-> <<>>, tu |-> <<>>, file |-> FALSE, std |-> FALSE, ent |-> <<>>,
       fc |-> 1, widths |-> <<1200, 0, 1450>>, wform |-> "direct", lc |-> "consistent", tuform |-> "bfchar", bname |-> "custom", mw |-> -1, fm |-> "m001"]
Tu3 == [1..3 -> {"none", "t1", "t2"}]
TuOne == <<"none", "t1", "none">>

\* (1) the Differences cursor machine: every array of <= MaxDiff elements over 3 numbers and 3 names
DiffElems == {I(1), I(2), I(4), N("gA"), N("gB"), N("gBad")}
FontsDiff == {[F0 EXCEPT !.diff = d] : d \in SeqsUpTo(DiffElems, MaxDiff)}
             \cup {[F0 EXCEPT !.diff = d, !.tu = TuOne] : d \in SeqsUpTo(DiffElems, MaxDiff - 1)}

\* (2) precedence: every way of naming the base encoding x short Differences x every ToUnicode map on 3 codes
EncPlain == {<<"absent", "">>, <<"name", "std">>, <<"name", "mac">>, <<"name", "win">>, <<"name", "pdf">>,
             <<"name", "other">>}
EncDict == {<<"dict", "absent">>, <<"dict", "win">>, <<"dict", "mac">>, <<"dict", "other">>}
\* tuform: how the ToUnicode entries are WRITTEN - one bfchar each, one-code bfrange in increment form, or bfrange in
\* array form whose array is shorter / longer than the declared range (tolerated: the pairs that exist apply, the rest of
\* the range gets nothing, extra array elements are ignored).  The model's result does not depend on it.
TuForms == {"bfchar", "range", "arrshort", "arrlong"}
FontsPrec ==
  {[F0 EXCEPT !.kind = k, !.enc = eb[1], !.base = eb[2], !.tu = t] : k \in {"Type1", "Type3"}, eb \in EncPlain, t \in Tu3}
  \cup {[F0 EXCEPT !.enc = eb[1], !.base = eb[2], !.tu = t, !.tuform = tf] :
          eb \in {<<"absent", "">>, <<"name", "win">>}, t \in Tu3, tf \in TuForms \ {"bfchar"}}
  \* t0: the EMPTY target (<41> <>, [<>]): an entry - the code has the empty text, the encoding is not consulted
  \cup {[F0 EXCEPT !.kind = k, !.enc = eb[1], !.base = eb[2], !.tu = t, !.tuform = tf] :
          k \in {"Type1", "Type3"}, eb \in {<<"absent", "">>, <<"name", "win">>, <<"name", "std">>},
          t \in {<<"t0", "none", "none">>, <<"t1", "t0", "none">>, <<"none", "t0", "t2">>, <<"t0", "t0", "t0">>}, tf \in TuForms}
  \cup {[F0 EXCEPT !.kind = k, !.enc = eb[1], !.base = eb[2], !.tu = t, !.diff = d] :
          k \in PrecKinds, eb \in EncDict, t \in Tu3, d \in SeqsUpTo({I(2), N("gA"), N("gBad")}, 2)}

\* (3) widths: FirstChar/Widths windows, MissingWidth, Type3 font matrices, standard-14 metrics by character
\* NUMBERS (Widths elements, MissingWidth) are written in HALVES of a glyph-space unit, so that the real-valued numbers
\* the standard allows wherever it says "number" are part of the space: 1000 = 500, 1001 = 500.5, 555 = 277.5
WidthSeqs == {<<>>, <<1000>>, <<1001, 0>>, <<1000, 0, 1451>>, <<1000, 0, 1450, 2001>>}
\* wform: how /Widths is written in the file - indirect objects are transparent (ISO 32000-1 7.3.10), so the model's
\* result does not depend on it: the array directly, every second element / every element an indirect reference to a
\* number, or the array itself an indirect object
WForms == {"direct", "someref", "allref", "arrayref"}
\* lc: /LastChar - absent, FirstChar + len(Widths) - 1, one less ("small") or three more ("large").  The advance is the
\* Widths entry at code - FirstChar; LastChar plays no role in the property, so the result does not depend on it.
LCs == {"absent", "small", "large"}
FontsWidth ==
  {[F0 EXCEPT !.kind = k, !.fc = fc, !.widths = w, !.mw = mw, !.wform = wf] :
      k \in {"Type1", "MMType1", "TrueType"}, fc \in {1, 3, 5}, w \in WidthSeqs, mw \in {-1, 500, 555}, wf \in WForms}
  \cup {[F0 EXCEPT !.kind = "Type3", !.fc = fc, !.widths = w, !.mw = mw, !.fm = fm, !.wform = wf] :
      fc \in {1, 3, 5}, w \in WidthSeqs, mw \in {-1, 500, 555}, fm \in {"m001", "m01", "skew"}, wf \in WForms}
  \cup {[F0 EXCEPT !.kind = k, !.fc = fc, !.widths = w, !.mw = mw, !.lc = lc] :
      k \in {"Type1", "TrueType", "Type3"}, fc \in {1, 3, 5}, w \in WidthSeqs, mw \in {-1, 555}, lc \in LCs}
  \* bname: the BaseFont name of a font with its OWN Widths / MissingWidth - a subset-tagged standard-14 name
  \* (ABCDEF+Helvetica) or a near miss (Helvetica-Foo, helvetica) is not one of the standard 14 fonts: the Widths entry wins
  \cup {[F0 EXCEPT !.kind = k, !.fc = fc, !.widths = w, !.mw = mw, !.bname = bn] :
      k \in {"Type1", "TrueType"}, fc \in {1, 3, 5}, w \in WidthSeqs, mw \in {-1, 555}, bn \in {"tagstd", "near"}}
  \cup {[F0 EXCEPT !.kind = "Std14", !.enc = eb[1], !.base = eb[2], !.diff = d, !.tu = t] :
      eb \in {<<"dict", "win">>, <<"dict", "absent">>},
      d \in {<<>>, <<I(2), N("gA")>>, <<I(2), N("gBad")>>, <<I(1), N("gB"), N("gA")>>},
      t \in {<<>>, TuOne, <<"t1", "none", "none">>}}
  \cup {[F0 EXCEPT !.kind = "Std14", !.enc = eb[1], !.base = eb[2], !.tu = t] :
      eb \in {<<"absent", "">>, <<"name", "mac">>}, t \in {<<>>, TuOne}}

\* (4) the built-in encoding of an embedded Type 1 program: dup <code> /name put sequences
G4 == {"gA", "gB", "gBad", "gErr"}
EntSeqs == {<<>>, <<E(1, "gA"), E(1, "gB")>>}
           \cup {<<E(c, g)>> : c \in 1..3, g \in G4}
           \cup {<<E(p[1], g1), E(p[2], g2)>> : p \in {<<1, 2>>, <<1, 3>>, <<2, 3>>}, g1 \in G4, g2 \in G4}
           \cup {<<E(1, g1), E(2, g2), E(3, g3)>> : g1 \in G4, g2 \in G4, g3 \in G4}
FontsBuiltin ==
  {[F0 EXCEPT !.enc = "absent", !.base = "", !.file = TRUE, !.ent = es, !.tu = t] : es \in EntSeqs, t \in {<<>>, TuOne}}
  \cup {[F0 EXCEPT !.enc = "name", !.base = "win", !.file = TRUE, !.ent = es] : es \in EntSeqs}
  \cup {[F0 EXCEPT !.file = TRUE, !.ent = es, !.diff = <<I(2), N("gB")>>] : es \in EntSeqs}
  \cup {[F0 EXCEPT !.kind = "MMType1", !.enc = "absent", !.base = "", !.file = TRUE, !.ent = es] :
          es \in {<<>>, <<E(2, "gA")>>, <<E(1, "gBad"), E(3, "gB")>>}}
  \* the program declares "/Encoding StandardEncoding def" (with or without a ToUnicode map / an Encoding entry)
  \cup {[F0 EXCEPT !.kind = k, !.enc = eb[1], !.base = eb[2], !.file = TRUE, !.std = TRUE, !.tu = t] :
          k \in {"Type1", "MMType1"}, eb \in {<<"absent", "">>, <<"name", "mac">>}, t \in {<<>>, TuOne}}
  \* ... followed by dup/put entries that override single codes of the standard table
  \cup {[F0 EXCEPT !.enc = "absent", !.base = "", !.file = TRUE, !.std = TRUE, !.ent = es] :
          es \in {<<E(1, "gA")>>, <<E(2, "gB"), E(3, "gA")>>, <<E(1, "gBad")>>, <<E(2, "gA"), E(2, "gB")>>}}

\* pattern of latin_enc at bytes 0..7 (nothing defined) and 124..131, for hand runs
SampleDefined(b, byte) == byte \in 124..126 \/ (b \in {"mac", "win", "pdf"} /\ byte \in 128..131)
                          \/ (b = "pdf" /\ byte = 127 /\ FALSE)
AllDev == {"DiffKeepsBase", "HeaderValueError", "Type3SkewWidth", "BuiltinStdIgnored", "BuiltinKeepsEarlier"}
NoDev == {}
=============================================================================
