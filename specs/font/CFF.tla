--------------------------------- MODULE CFF ---------------------------------
(***************************************************************************)
(* Extended coverage behind property C06 (fonts whose program is a Compact *)
(* Font Format blob, FontFile3 /Type1C): pdffont.CFFFont and getdict.      *)
(* Adobe Technical Note 5176 "The Compact Font Format Specification".      *)
(* Nothing here is part of C06's statement (pdfminer's text extraction     *)
(* never consults CFFFont); differences between the code and the reference *)
(* are reported as NOTEs, never as violations.                             *)
(*                                                                         *)
(* A case is one of                                                        *)
(*   "int"      an integer operand in one of its encodings (1, 2, 3, 5     *)
(*              bytes; table 3 of TN 5176)                                 *)
(*   "real"     a real operand: a literal over 0-9 . - E E- packed in      *)
(*              nibbles with terminator f (table 5)                        *)
(*   "dict"     a DICT: entries <<operands, operator>>, operators one byte *)
(*              (0..21) or escaped (12 x)                                  *)
(*   "index"    an INDEX: count, offSize 1..4, offsets, data; the empty    *)
(*              INDEX is the two-byte count alone                          *)
(*   "charset"  glyph -> SID for glyphs 1..n-1: format 0 (array), 1 and 2  *)
(*              (ranges first SID / nLeft), or a predefined charset id     *)
(*   "encoding" glyph -> code: format 0 (array of codes), 1 (ranges first  *)
(*              code / nLeft), optional supplement bit                     *)
(* Each is produced by the ENCODER relation Enc* from abstract content;    *)
(* the invariant RoundTrip says the reference decoding Ref* of an encoding *)
(* is the content.  Machine (one action per structure): AOperand, AReal,   *)
(* ADict, AIndex, ACharset, AEncoding - what getdict / CFFFont.INDEX /     *)
(* CFFFont.__init__ compute, with the deviations of the code named:        *)
(*   "EmptyIndex3"     an empty INDEX is read as three header bytes        *)
(*   "EscapeSplit"     12 x is read as operator 12 followed by token x     *)
(*   "Charset1AsCodes" charset format 1 is read with the layout of         *)
(*                     encoding format 1 (count byte, byte ranges) and its *)
(*                     ranges are taken for glyph ranges                   *)
(*   "Charset2Assert"  charset format 2 raises AssertionError              *)
(*   "EncodingSwapped" encoding arrays are read as code -> glyph with the  *)
(*                     array VALUE taken for the glyph and glyphs numbered *)
(*                     from 0                                              *)
(*   "EncodingSuppl"   the supplement bit (0x80) makes the format unknown  *)
(* (Predefined charsets / encodings - offsets 0, 1, 2 in the Top DICT - are *)
(* not modelled; the harness reports how the code treats them on the       *)
(* repository's own Type1C programs.)                                      *)
(* Invariants: RoundTrip, MachineRef (machine without deviation =          *)
(* reference), DevLocal.                                                   *)
(***************************************************************************)
EXTENDS Integers, Sequences, FiniteSets, TLC, Json

CONSTANTS Cases, Dev

Take(s, n) == SubSeq(s, 1, n)
Drop(s, n) == SubSeq(s, n + 1, Len(s))
RECURSIVE Flatten(_)
Flatten(ss) == IF ss = <<>> THEN <<>> ELSE Head(ss) \o Flatten(Tail(ss))
RECURSIVE SumLen(_, _)
SumLen(ss, n) == IF n = 0 THEN 0 ELSE SumLen(ss, n - 1) + Len(ss[n])
Byte(v, k) == (v \div k) % 256                 \* floor division: two's complement bytes of negative numbers
RECURSIVE Pack(_, _)
Pack(v, n) == IF n = 0 THEN <<>> ELSE Append(Pack(v \div 256, n - 1), v % 256)
RECURSIVE Unpack(_)
Unpack(bs) == IF bs = <<>> THEN 0 ELSE Unpack(Take(bs, Len(bs) - 1)) * 256 + bs[Len(bs)]

\* ================================================================== integers (TN 5176 table 3)
FormOK(v, f) == CASE f = 1 -> v >= -107 /\ v <= 107
                  [] f = 2 -> (v >= 108 /\ v <= 1131) \/ (v >= -1131 /\ v <= -108)
                  [] f = 3 -> v >= -32768 /\ v <= 32767
                  [] f = 5 -> TRUE
EncInt(v, f) == CASE f = 1 -> <<v + 139>>
                  [] f = 2 -> IF v > 0 THEN <<(v - 108) \div 256 + 247, (v - 108) % 256>>
                              ELSE <<(-v - 108) \div 256 + 251, (-v - 108) % 256>>
                  [] f = 3 -> <<28, Byte(v, 256), Byte(v, 1)>>
                  [] f = 5 -> <<29, Byte(v, 16777216), Byte(v, 65536), Byte(v, 256), Byte(v, 1)>>
Signed(b) == IF b >= 128 THEN b - 256 ELSE b
\* -> <<value, bytes consumed>>
RefInt(bs) == LET b0 == bs[1] IN
  CASE b0 >= 32 /\ b0 <= 246 -> <<b0 - 139, 1>>
    [] b0 >= 247 /\ b0 <= 250 -> <<(b0 - 247) * 256 + bs[2] + 108, 2>>
    [] b0 >= 251 /\ b0 <= 254 -> <<-(b0 - 251) * 256 - bs[2] - 108, 2>>
    [] b0 = 28 -> <<Signed(bs[2]) * 256 + bs[3], 3>>
    [] b0 = 29 -> <<Signed(bs[2]) * 16777216 + bs[3] * 65536 + bs[4] * 256 + bs[5], 5>>

\* ================================================================== reals (table 5): literal = sequence of tokens
NibOf(t) == CASE t = "." -> 10 [] t = "E" -> 11 [] t = "E-" -> 12 [] t = "-" -> 14
              [] t = "0" -> 0 [] t = "1" -> 1 [] t = "2" -> 2 [] t = "3" -> 3 [] t = "4" -> 4
              [] t = "5" -> 5 [] t = "6" -> 6 [] t = "7" -> 7 [] t = "8" -> 8 [] t = "9" -> 9
TokOf(n) == CASE n = 10 -> "." [] n = 11 -> "E" [] n = 12 -> "E-" [] n = 14 -> "-"
              [] n = 0 -> "0" [] n = 1 -> "1" [] n = 2 -> "2" [] n = 3 -> "3" [] n = 4 -> "4"
              [] n = 5 -> "5" [] n = 6 -> "6" [] n = 7 -> "7" [] n = 8 -> "8" [] n = 9 -> "9"
EncReal(lit) == LET nibs == [i \in 1..Len(lit) |-> NibOf(lit[i])] \o (IF Len(lit) % 2 = 0 THEN <<15, 15>> ELSE <<15>>) IN
                <<30>> \o [i \in 1..(Len(nibs) \div 2) |-> nibs[2 * i - 1] * 16 + nibs[2 * i]]
RECURSIVE NibToks(_)
NibToks(ns) == IF ns = <<>> \/ ns[1] = 15 THEN <<>> ELSE <<TokOf(ns[1])>> \o NibToks(Tail(ns))
\* -> <<tokens, bytes consumed>>
RefReal(bs) == LET I == {i \in 2..Len(bs) : bs[i] \div 16 = 15 \/ bs[i] % 16 = 15}
                   last == CHOOSE i \in I : \A j \in I : i <= j
                   ns == Flatten([i \in 1..(last - 1) |-> <<bs[i + 1] \div 16, bs[i + 1] % 16>>]) IN
               <<NibToks(ns), last>>

\* ================================================================== DICT: entries [op |-> <<b>> or <<12, x>>, args |-> <<[k |-> "int", v, f] ...>>]
EncArg(a) == IF a.k = "int" THEN EncInt(a.v, a.f) ELSE EncReal(a.lit)
EncDict(ents) == Flatten([i \in 1..Len(ents) |->
                            Flatten([j \in 1..Len(ents[i].args) |-> EncArg(ents[i].args[j])]) \o ents[i].op])
\* operand values as the decoder sees them: integers, or token sequences for reals
ArgVal(a) == IF a.k = "int" THEN a.v ELSE a.lit
\* reference decoder: sequence of <<operator, operands>>
RECURSIVE RefDict(_, _)
RefDict(bs, stack) ==
  IF bs = <<>> THEN <<>>
  ELSE IF bs[1] = 12 THEN <<[op |-> <<12, bs[2]>>, args |-> stack]>> \o RefDict(Drop(bs, 2), <<>>)
  ELSE IF bs[1] <= 21 THEN <<[op |-> <<bs[1]>>, args |-> stack]>> \o RefDict(Drop(bs, 1), <<>>)
  ELSE IF bs[1] = 30 THEN RefDict(Drop(bs, RefReal(bs)[2]), Append(stack, RefReal(bs)[1]))
  ELSE RefDict(Drop(bs, RefInt(bs)[2]), Append(stack, RefInt(bs)[1]))
\* the code: d[b0] = stack for every byte <= 21
RECURSIVE MachDict(_, _, _)
MachDict(bs, stack, dev) ==
  IF bs = <<>> THEN <<>>
  ELSE IF bs[1] = 12 /\ "EscapeSplit" \notin dev
       THEN <<[op |-> <<12, bs[2]>>, args |-> stack]>> \o MachDict(Drop(bs, 2), <<>>, dev)
  ELSE IF bs[1] <= 21 THEN <<[op |-> <<bs[1]>>, args |-> stack]>> \o MachDict(Drop(bs, 1), <<>>, dev)
  ELSE IF bs[1] = 30 THEN MachDict(Drop(bs, RefReal(bs)[2]), Append(stack, RefReal(bs)[1]), dev)
  ELSE IF bs[1] = 255 \/ (bs[1] >= 22 /\ bs[1] <= 27) \/ bs[1] = 31 THEN <<[op |-> <<-1>>, args |-> <<>>]>>      \* not exercised
  ELSE MachDict(Drop(bs, RefInt(bs)[2]), Append(stack, RefInt(bs)[1]), dev)
\* last definition of every operator wins (a Python dict)
AsMap(es) == {<<es[i].op, es[i].args>> : i \in {j \in 1..Len(es) : \A k \in (j + 1)..Len(es) : es[k].op # es[j].op}}

\* ================================================================== INDEX
EncIndex(items, osz) ==
  IF items = <<>> THEN <<0, 0>>
  ELSE Pack(Len(items), 2) \o <<osz>>
       \o Flatten([i \in 1..(Len(items) + 1) |-> Pack(1 + SumLen(items, i - 1), osz)]) \o Flatten(items)
\* -> [items, used]   (used = bytes the INDEX occupies)
RefIndex(bs) ==
  LET n == Unpack(Take(bs, 2)) IN
  IF n = 0 THEN [items |-> <<>>, used |-> 2]
  ELSE LET osz == bs[3]
           off(i) == Unpack(SubSeq(bs, 4 + (i - 1) * osz, 3 + i * osz))
           base == 3 + (n + 1) * osz IN      \* offsets count from the byte before the data
       [items |-> [i \in 1..n |-> SubSeq(bs, base + off(i), base + off(i + 1) - 1)], used |-> base + off(n + 1) - 1]
MachIndex(bs, dev) ==
  IF "EmptyIndex3" \notin dev \/ Unpack(Take(bs, 2)) # 0 THEN RefIndex(bs)
  ELSE \* count 0: a third byte is taken for offSize and one offset of that size is read; nothing sensible follows
       [items |-> <<>>, used |-> -1]

\* ================================================================== charsets: sids[g] for glyph g = 1..n-1
RECURSIVE RangesOf(_, _)
RangesOf(xs, cur) ==        \* maximal runs of consecutive values -> <<first, nLeft>>
  IF xs = <<>> THEN (IF cur = <<>> THEN <<>> ELSE <<<<cur[1], Len(cur) - 1>>>>)
  ELSE IF cur = <<>> THEN RangesOf(Tail(xs), <<Head(xs)>>)
  ELSE IF Head(xs) = cur[Len(cur)] + 1 THEN RangesOf(Tail(xs), Append(cur, Head(xs)))
  ELSE <<<<cur[1], Len(cur) - 1>>>> \o RangesOf(Tail(xs), <<Head(xs)>>)
EncCharset(sids, fmt) ==
  CASE fmt = 0 -> <<0>> \o Flatten([g \in 1..Len(sids) |-> Pack(sids[g], 2)])
    [] fmt = 1 -> <<1>> \o Flatten([r \in 1..Len(RangesOf(sids, <<>>)) |->
                                     Pack(RangesOf(sids, <<>>)[r][1], 2) \o <<RangesOf(sids, <<>>)[r][2]>>])
    [] fmt = 2 -> <<2>> \o Flatten([r \in 1..Len(RangesOf(sids, <<>>)) |->
                                     Pack(RangesOf(sids, <<>>)[r][1], 2) \o Pack(RangesOf(sids, <<>>)[r][2], 2)])
\* reference: n = number of glyphs; ranges are read until n-1 glyphs are covered
RECURSIVE RefRanges(_, _, _)
RefRanges(bs, need, w) ==      \* w = width of nLeft
  IF need <= 0 THEN <<>>
  ELSE LET first == Unpack(Take(bs, 2))  nl == Unpack(SubSeq(bs, 3, 2 + w)) IN
       [i \in 1..(nl + 1) |-> first + i - 1] \o RefRanges(Drop(bs, 2 + w), need - nl - 1, w)
RefCharset(bs, n) == CASE bs[1] = 0 -> [g \in 1..(n - 1) |-> Unpack(SubSeq(bs, 2 * g, 2 * g + 1))]
                       [] bs[1] = 1 -> RefRanges(Tail(bs), n - 1, 1)
                       [] bs[1] = 2 -> RefRanges(Tail(bs), n - 1, 2)
\* the code on format 1: a count byte, then that many <<first, nleft>> BYTE pairs; "first..first+nleft" are taken for
\* glyph indices and the SIDs simply count up from 0: result as a set of <<glyph, sid>>
RECURSIVE MachCs1(_, _, _)
MachCs1(bs, k, sid) == IF k = 0 \/ Len(bs) < 2 THEN {}
                       ELSE {<<bs[1] + i, sid + i>> : i \in 0..bs[2]} \cup MachCs1(Drop(bs, 2), k - 1, sid + bs[2] + 1)
PairsOfSeq(s) == {<<g, s[g]>> : g \in 1..Len(s)}
MachCharset(bs, n, dev) ==
  CASE bs[1] = 0 -> [err |-> "none", pairs |-> PairsOfSeq(RefCharset(bs, n))]
    [] bs[1] = 1 -> IF "Charset1AsCodes" \in dev THEN [err |-> "none", pairs |-> MachCs1(Drop(bs, 2), bs[2], 0)]
                    ELSE [err |-> "none", pairs |-> PairsOfSeq(RefCharset(bs, n))]
    [] bs[1] = 2 -> IF "Charset2Assert" \in dev THEN [err |-> "AssertionError", pairs |-> {}]
                    ELSE [err |-> "none", pairs |-> PairsOfSeq(RefCharset(bs, n))]

\* ================================================================== encodings: codes[g] for glyph g = 1..k
EncEncoding(codes, fmt, suppl) ==
  LET f == fmt + (IF suppl THEN 128 ELSE 0)
      tail == IF suppl THEN <<0>> ELSE <<>> IN                      \* nSups = 0
  IF fmt = 0 THEN <<f, Len(codes)>> \o codes \o tail
  ELSE <<f, Len(RangesOf(codes, <<>>))>> \o Flatten([r \in 1..Len(RangesOf(codes, <<>>)) |->
                                               <<RangesOf(codes, <<>>)[r][1], RangesOf(codes, <<>>)[r][2]>>]) \o tail
RECURSIVE RefEncRanges(_, _)
RefEncRanges(bs, k) == IF k = 0 THEN <<>> ELSE [i \in 1..(bs[2] + 1) |-> bs[1] + i - 1] \o RefEncRanges(Drop(bs, 2), k - 1)
\* reference: <<code, glyph>> pairs; glyphs are numbered from 1 (glyph 0 is .notdef)
RefEncoding(bs) == LET fmt == bs[1] % 128 IN
  IF fmt = 0 THEN {<<bs[2 + g], g>> : g \in 1..bs[2]}
  ELSE LET cs == RefEncRanges(Drop(bs, 2), bs[2]) IN {<<cs[g], g>> : g \in 1..Len(cs)}
RECURSIVE MachEnc1(_, _, _)
MachEnc1(bs, k, code) == IF k = 0 THEN {}
                         ELSE {<<code + i, bs[1] + i>> : i \in 0..bs[2]} \cup MachEnc1(Drop(bs, 2), k - 1, code + bs[2] + 1)
MachEncoding(bs, dev) ==
  IF bs[1] >= 128 /\ "EncodingSuppl" \in dev THEN [err |-> "PDFValueError", pairs |-> {}]
  ELSE IF "EncodingSwapped" \notin dev THEN [err |-> "none", pairs |-> RefEncoding(bs)]
  ELSE IF bs[1] % 128 = 0 THEN [err |-> "none", pairs |-> {<<i - 1, bs[2 + i]>> : i \in 1..bs[2]}]     \* enumerate(array)
  ELSE [err |-> "none", pairs |-> MachEnc1(Drop(bs, 2), bs[2], 0)]

\* ================================================================== cases, machine, properties
\* a case carries its content, the bytes the encoder made, and for charsets the number of glyphs
Ref(cs) == CASE cs.kind = "int" -> [err |-> "none", val |-> RefInt(cs.bytes)[1]]
             [] cs.kind = "real" -> [err |-> "none", val |-> RefReal(cs.bytes)[1]]
             [] cs.kind = "dict" -> [err |-> "none", val |-> AsMap(RefDict(cs.bytes, <<>>))]
             [] cs.kind = "index" -> [err |-> "none", val |-> RefIndex(cs.bytes)]
             [] cs.kind = "charset" -> [err |-> "none", val |-> PairsOfSeq(RefCharset(cs.bytes, cs.n))]
             [] cs.kind = "encoding" -> [err |-> "none", val |-> RefEncoding(cs.bytes)]
Mach(cs, dev) ==
  CASE cs.kind = "int" -> [err |-> "none", val |-> RefInt(cs.bytes)[1]]           \* the code's formulas are table 3
    [] cs.kind = "real" -> [err |-> "none", val |-> RefReal(cs.bytes)[1]]
    [] cs.kind = "dict" -> [err |-> "none", val |-> AsMap(MachDict(cs.bytes, <<>>, dev))]
    [] cs.kind = "index" -> [err |-> "none", val |-> MachIndex(cs.bytes, dev)]
    [] cs.kind = "charset" -> LET r == MachCharset(cs.bytes, cs.n, dev) IN [err |-> r.err, val |-> r.pairs]
    [] cs.kind = "encoding" -> LET r == MachEncoding(cs.bytes, dev) IN [err |-> r.err, val |-> r.pairs]
Content(cs) == CASE cs.kind = "int" -> cs.v
                 [] cs.kind = "real" -> cs.lit
                 [] cs.kind = "dict" -> AsMap([i \in 1..Len(cs.ents) |->
                                                 [op |-> cs.ents[i].op, args |-> [j \in 1..Len(cs.ents[i].args) |-> ArgVal(cs.ents[i].args[j])]]])
                 [] cs.kind = "index" -> [items |-> cs.items, used |-> Len(cs.bytes)]
                 [] cs.kind = "charset" -> PairsOfSeq(cs.sids)
                 [] cs.kind = "encoding" -> {<<cs.codes[g], g>> : g \in 1..Len(cs.codes)}

VARIABLES case, ri, rc, pc
vars == <<case, ri, rc, pc>>
Init == case \in Cases /\ ri = <<>> /\ rc = <<>> /\ pc = "run"
Do == ri' = Mach(case, {}) /\ rc' = Mach(case, Dev) /\ pc' = "done" /\ UNCHANGED case
AOperand == pc = "run" /\ case.kind = "int" /\ Do
AReal == pc = "run" /\ case.kind = "real" /\ Do
ADict == pc = "run" /\ case.kind = "dict" /\ Do
AIndex == pc = "run" /\ case.kind = "index" /\ Do
ACharset == pc = "run" /\ case.kind = "charset" /\ Do
AEncoding == pc = "run" /\ case.kind = "encoding" /\ Do
Next == AOperand \/ AReal \/ ADict \/ AIndex \/ ACharset \/ AEncoding
Spec == Init /\ [][Next]_vars

Done == pc = "done"
RoundTrip == pc = "run" => Ref(case).val = Content(case)
MachineRef == Done => ri = Ref(case)
Fired == IF rc = ri THEN {} ELSE {d \in Dev : Mach(case, Dev) # Mach(case, Dev \ {d})}
DevLocal == Done /\ rc # ri => Fired # {}
AsCodedRef == Done => rc = Ref(case)       \* NOT expected to hold while Dev is non-empty
Emit == Done => PrintT("@@" \o ToJson([cs |-> case, i |-> ri, c |-> rc, f |-> Fired]))
=============================================================================
