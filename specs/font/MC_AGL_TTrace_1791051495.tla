---- MODULE MC_AGL_TTrace_1791051495 ----
EXTENDS Sequences, TLCExt, Toolbox, Naturals, TLC, MC_AGL

_expression ==
    LET MC_AGL_TEExpression == INSTANCE MC_AGL_TEExpression
    IN MC_AGL_TEExpression!expression
----

_trace ==
    LET MC_AGL_TETrace == INSTANCE MC_AGL_TETrace
    IN MC_AGL_TETrace!trace
----

_inv ==
    ~(
        TLCGet("level") = Len(_TETrace)
        /\
        aut = ([done |-> <<<<>>>>, cur |-> <<"n">>, suffix |-> FALSE])
        /\
        name = (<<"_", "n">>)
    )
----

_init ==
    /\ aut = _TETrace[1].aut
    /\ name = _TETrace[1].name
----

_next ==
    /\ \E i,j \in DOMAIN _TETrace:
        /\ \/ /\ j = i + 1
              /\ i = TLCGet("level")
        /\ aut  = _TETrace[i].aut
        /\ aut' = _TETrace[j].aut
        /\ name  = _TETrace[i].name
        /\ name' = _TETrace[j].name

\* Uncomment the ASSUME below to write the states of the error trace
\* to the given file in Json format. Note that you can pass any tuple
\* to `JsonSerialize`. For example, a sub-sequence of _TETrace.
    \* ASSUME
    \*     LET J == INSTANCE Json
    \*         IN J!JsonSerialize("MC_AGL_TTrace_1791051495.json", _TETrace)

=============================================================================

 Note that you can extract this module `MC_AGL_TEExpression`
  to a dedicated file to reuse `expression` (the module in the 
  dedicated `MC_AGL_TEExpression.tla` file takes precedence 
  over the module `MC_AGL_TEExpression` below).

---- MODULE MC_AGL_TEExpression ----
EXTENDS Sequences, TLCExt, Toolbox, Naturals, TLC, MC_AGL

expression == 
    [
        \* To hide variables of the `MC_AGL` spec from the error trace,
        \* remove the variables below.  The trace will be written in the order
        \* of the fields of this record.
        aut |-> aut
        ,name |-> name
        
        \* Put additional constant-, state-, and action-level expressions here:
        \* ,_stateNumber |-> _TEPosition
        \* ,_autUnchanged |-> aut = aut'
        
        \* Format the `aut` variable as Json value.
        \* ,_autJson |->
        \*     LET J == INSTANCE Json
        \*     IN J!ToJson(aut)
        
        \* Lastly, you may build expressions over arbitrary sets of states by
        \* leveraging the _TETrace operator.  For example, this is how to
        \* count the number of times a spec variable changed up to the current
        \* state in the trace.
        \* ,_autModCount |->
        \*     LET F[s \in DOMAIN _TETrace] ==
        \*         IF s = 1 THEN 0
        \*         ELSE IF _TETrace[s].aut # _TETrace[s-1].aut
        \*             THEN 1 + F[s-1] ELSE F[s-1]
        \*     IN F[_TEPosition - 1]
    ]

=============================================================================



Parsing and semantic processing can take forever if the trace below is long.
 In this case, it is advised to uncomment the module below to deserialize the
 trace from a generated binary file.

\*
\*---- MODULE MC_AGL_TETrace ----
\*EXTENDS IOUtils, TLC, MC_AGL
\*
\*trace == IODeserialize("MC_AGL_TTrace_1791051495.bin", TRUE)
\*
\*=============================================================================
\*

---- MODULE MC_AGL_TETrace ----
EXTENDS TLC, MC_AGL

trace == 
    <<
    ([aut |-> [done |-> <<>>, cur |-> <<>>, suffix |-> FALSE],name |-> <<>>]),
    ([aut |-> [done |-> <<<<>>>>, cur |-> <<>>, suffix |-> FALSE],name |-> <<"_">>]),
    ([aut |-> [done |-> <<<<>>>>, cur |-> <<"n">>, suffix |-> FALSE],name |-> <<"_", "n">>])
    >>
----


=============================================================================

---- CONFIG MC_AGL_TTrace_1791051495 ----
CONSTANTS
    Alphabet <- MCAlphabet
    MaxLen = 4
    Prefix <- MCPrefix
    ListNames <- MCListNames
    ListVal <- MCListVal
    Dev <- MCDev
    LowerHexOK = TRUE

INVARIANT
    _inv

CHECK_DEADLOCK
    \* CHECK_DEADLOCK off because of PROPERTY or INVARIANT above.
    FALSE

INIT
    _init

NEXT
    _next

CONSTANT
    _TETrace <- _trace

ALIAS
    _expression
=============================================================================
\* Generated on Sat Oct 03 18:18:17 UTC 2026