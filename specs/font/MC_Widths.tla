---- MODULE MC_Widths ----
EXTENDS Widths
Nn(k) == [t |-> "n", v |-> k, l |-> <<>>]
Ll(l) == [t |-> "l", v |-> 0, l |-> l]
\* numbers double as CIDs and as widths; lists of one and two glyph widths
ElemsW == {Nn(1), Nn(2), Nn(4), Ll(<<7>>), Ll(<<8, 9>>)}
\* vertical: a list describes glyphs by triples; the four-element list has an incomplete second triple
\* (with zero components: a position vector x of 0, a vertical displacement of 0, a position vector y of 0)
ElemsW2 == {Nn(1), Nn(2), Nn(4), Ll(<<7, 0, 9>>), Ll(<<5, 6, 7, 8>>), Ll(<<0, 5, 6, 7, 8, 0>>)}
MCCids == 0..7
====
