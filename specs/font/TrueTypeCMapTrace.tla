------------------------- MODULE TrueTypeCMapTrace -------------------------
(***************************************************************************)
(* Trace validation (binding B) for the TrueType cmap reader, property C07.*)
(* One trace = one embedded TrueType program (FontFile2) of a repository   *)
(* sample, recorded by harness/observe/ttrec.py:                           *)
(*   hascmap  the table directory holds a 'cmap' table                     *)
(*   subs     its subtable records in file order, read by the harness's    *)
(*            own OpenType reader: p, e, fmt and for format 4 the segments *)
(*            and the words that follow idRangeOffset[0]; for format 0 the *)
(*            byte table                                                   *)
(*   result   what the real create_unicode_map() did: "ok", or the name of *)
(*            the exception                                                *)
(*   obs      sampled <<char, glyph>> results of the real reader (the      *)
(*            add_cid2unichr calls it made), and inv: sampled <<glyph,     *)
(*            char>> entries of the map it returned                        *)
(* Every observed character must get the glyph the machine of              *)
(* TrueTypeCMap.tla (TrueTypeOps!MachGlyph4, with the deviations in force) *)
(* computes from the LAST Unicode subtable of a supported format that      *)
(* covers it; every entry of the returned map must be one of the observed  *)
(* pairs; the outcome must fit the structure.                              *)
(***************************************************************************)
EXTENDS TrueTypeOps, Json, IOUtils

CONSTANTS Dev
Traces == JsonDeserialize(IOEnv.TRACE_FILE)
N == Len(Traces)

VARIABLES t, ph, k
vars == <<t, ph, k>>
Cur == Traces[t]
Init == t = 1 /\ ph = "font" /\ k = 0

BadFmt(s) == Unicode(s.p, s.e) /\ ~Supported(s.fmt)
\* glyph a subtable gives to c, -1 when the subtable does not cover c
SubGlyph(s, c) == IF s.fmt = 4 THEN MachGlyph4([segs |-> s.segs, gia |-> s.gia], c, Dev)
                  ELSE IF s.fmt = 0 THEN (IF c < 256 THEN s.table[c + 1] ELSE -1)
                  ELSE -1
ModelGlyph(c) == LET I == {i \in 1..Len(Cur.subs) : Usable(Cur.subs[i]) /\ SubGlyph(Cur.subs[i], c) # -1} IN
                 IF I = {} THEN -1 ELSE SubGlyph(Cur.subs[SetMax(I)], c)

\* outcome: AssertionError exactly when (as coded) a Unicode subtable of another format is met before anything failed;
\* otherwise "ok" needs a usable subtable, and no usable subtable means CMapNotFound
AFont == /\ t <= N /\ ph = "font"
         /\ LET bad == \E i \in 1..Len(Cur.subs) : BadFmt(Cur.subs[i])
                use == \E i \in 1..Len(Cur.subs) : Usable(Cur.subs[i]) IN
              /\ (Cur.result = "AssertionError") => (bad /\ "BadFormatAsserts" \in Dev)
              /\ (Cur.result = "ok") => (Cur.hascmap /\ use)
              /\ (~Cur.hascmap \/ (~use /\ ~bad)) => Cur.result = "CMapNotFound"
              \* anyglyph (harness's own OpenType reader): some usable subtable maps a character to a glyph other than 0
              /\ (Cur.hascmap /\ use /\ Cur.anyglyph /\ ~(bad /\ "BadFormatAsserts" \in Dev)) => Cur.result = "ok"
         /\ ph' = "obs" /\ k' = 0 /\ UNCHANGED t
AObs == /\ t <= N /\ ph = "obs" /\ k < Len(Cur.obs)
        /\ Cur.obs[k + 1][2] = ModelGlyph(Cur.obs[k + 1][1])
        /\ k' = k + 1 /\ UNCHANGED <<t, ph>>
AObsEnd == /\ t <= N /\ ph = "obs" /\ k = Len(Cur.obs) /\ ph' = "inv" /\ k' = 0 /\ UNCHANGED t
\* the inverse map hands out, for a glyph, one of the characters that were given that glyph
AInv == /\ t <= N /\ ph = "inv" /\ k < Len(Cur.inv)
        /\ \E j \in 1..Len(Cur.obs) : Cur.obs[j] = <<Cur.inv[k + 1][2], Cur.inv[k + 1][1]>>
        /\ k' = k + 1 /\ UNCHANGED <<t, ph>>
AEndTrace == /\ t <= N /\ ph = "inv" /\ k = Len(Cur.inv) /\ t' = t + 1 /\ ph' = "font" /\ k' = 0
Finished == t > N /\ UNCHANGED vars
Next == AFont \/ AObs \/ AObsEnd \/ AInv \/ AEndTrace \/ Finished
Spec == Init /\ [][Next]_vars
IndexOK == k >= 0
=============================================================================
