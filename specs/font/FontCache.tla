----------------------------- MODULE FontCache -----------------------------
(***************************************************************************)
(* PDFResourceManager.get_font: fonts are cached by the object id of the   *)
(* font dictionary (property C06, "font construction and caching").        *)
(*                                                                         *)
(* A document has NP pages; each page's /Resources /Font dictionary binds  *)
(* the names in Names to a source: an indirect reference to one of the     *)
(* font objects in Objs, or a direct (inline) dictionary.  Every source    *)
(* has one font specification SpecOf(src).  One resource manager lives     *)
(* through all pages (as in high_level.extract_pages).                     *)
(*                                                                         *)
(* Machine (PDFPageInterpreter.init_resources -> get_font):                *)
(*   AHit      objid given and cached        -> the cached font            *)
(*   ACreate   objid given, not cached       -> build from spec, store if  *)
(*                                              caching is on              *)
(*   AInline   no objid (direct dictionary)  -> build from spec, never     *)
(*                                              stored                     *)
(* Reference: the font that name n selects on page p is the one built from *)
(* the specification of the source it is bound to (ISO 32000-1 7.8.3).     *)
(* Invariants: Coherent (every font handed out was built from the right    *)
(* specification), CacheSound (a cache entry for objid o holds SpecOf(o)), *)
(* NoInlineCached.                                                         *)
(***************************************************************************)
EXTENDS Integers, Sequences, FiniteSets, TLC, Json

CONSTANTS NP, Names, Objs, Inlines, SpecOf(_)

Sources == Objs \cup Inlines
NameSeq == CHOOSE s \in [1..Cardinality(Names) -> Names] : \A i, j \in 1..Cardinality(Names) : i # j => s[i] # s[j]

VARIABLES bind,      \* bind[p][n]: the source name n is bound to on page p   (the document)
          caching,   \* PDFResourceManager(caching=...)
          cache,     \* objid -> spec the cached font was built from ("" = no entry)
          page, slot,\* progress: page being initialised, next name
          out        \* out[p][n]: the spec of the font handed out ("" = not yet)
vars == <<bind, caching, cache, page, slot, out>>

Init == /\ bind \in [1..NP -> [Names -> Sources]]
        /\ caching \in BOOLEAN
        /\ cache = [o \in Objs |-> ""]
        /\ page = 1 /\ slot = 1
        /\ out = [p \in 1..NP |-> [n \in Names |-> ""]]

Cur == NameSeq[slot]
Src == bind[page][Cur]
Advance == IF slot = Cardinality(Names) THEN page' = page + 1 /\ slot' = 1 ELSE page' = page /\ slot' = slot + 1
Hand(spec) == out' = [out EXCEPT ![page][Cur] = spec]

AHit == /\ page <= NP /\ Src \in Objs /\ cache[Src] # ""
        /\ Hand(cache[Src]) /\ Advance /\ UNCHANGED <<bind, caching, cache>>
ACreate == /\ page <= NP /\ Src \in Objs /\ cache[Src] = ""
           /\ Hand(SpecOf(Src)) /\ Advance
           /\ cache' = IF caching THEN [cache EXCEPT ![Src] = SpecOf(Src)] ELSE cache
           /\ UNCHANGED <<bind, caching>>
AInline == /\ page <= NP /\ Src \in Inlines
           /\ Hand(SpecOf(Src)) /\ Advance /\ UNCHANGED <<bind, caching, cache>>
Next == AHit \/ ACreate \/ AInline
Spec == Init /\ [][Next]_vars

Done == page > NP
Coherent == \A p \in 1..NP : \A n \in Names : out[p][n] # "" => out[p][n] = SpecOf(bind[p][n])
CacheSound == \A o \in Objs : cache[o] # "" => cache[o] = SpecOf(o) /\ caching
NoInlineCached == \A o \in Objs : cache[o] # "" => \E p \in 1..NP : \E n \in Names : bind[p][n] = o

Emit == Done => PrintT("@@" \o ToJson([bind |-> bind, caching |-> caching, out |-> out]))
=============================================================================
