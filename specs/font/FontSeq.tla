------------------------------- MODULE FontSeq -------------------------------
(***************************************************************************)
(* Property C06 over SEQUENCES of simple fonts built in one process: the   *)
(* code -> text map of a font is a function of its own dictionary; the     *)
(* construction of one font never changes what another font (built before  *)
(* or after) reports.  The danger is aliasing: EncodingDB.get_encoding     *)
(* without a Differences array hands out the class-level base table itself *)
(* (every such font SHARES that object), get_encoding with Differences     *)
(* copies it, and Type1FontHeaderParser builds the built-in encoding of an *)
(* embedded Type 1 program in a dictionary of its own.                     *)
(*                                                                         *)
(* Heap of table objects: heap[id] : Codes -> value.  Objects 1 and 2 are  *)
(* the shared StandardEncoding and WinAnsiEncoding tables; font i holds a  *)
(* reference tab[i].  One action per kind of construction:                 *)
(*   AAlias      no Differences: tab = the shared object                   *)
(*   ACopyDiff   Differences: tab = fresh copy of the base, entry assigned *)
(*   AProgram    embedded program, no /Encoding: the parser's own object;  *)
(*               "StandardEncoding def" copies the standard table into it  *)
(*               (update), dup/put entries are written into it             *)
(* Switch "StdAliased" (never in force on a correct tree; kept to let TLC  *)
(* exhibit the failure): the parser adopts the shared object instead of    *)
(* copying it, so its dup/put entries land in the shared table.            *)
(* Properties: SharedUnchanged (the base tables are what they were - as    *)
(* invariant and as action property Frame), Isolated (EVERY font built so  *)
(* far, re-read now, reports what its dictionary alone prescribes).        *)
(***************************************************************************)
EXTENDS Integers, Sequences, FiniteSets, TLC, Json

CONSTANTS Codes, Specs, MaxFonts, Dev

Std0 == [c \in Codes |-> <<"std", c>>]
Win0 == [c \in Codes |-> <<"win", c>>]
Empty == [c \in Codes |-> <<"none", 0>>]
Glyph(g) == <<"glyph", g>>
Ids == 1..(2 + MaxFonts)
H0 == [i \in Ids |-> IF i = 1 THEN Std0 ELSE IF i = 2 THEN Win0 ELSE Empty]

\* reference: the table a font dictionary prescribes, in isolation (see SimpleFont.tla RefEncVal)
RECURSIVE Overlay(_, _)
Overlay(t, ents) == IF ents = <<>> THEN t ELSE Overlay([t EXCEPT ![ents[1][1]] = Glyph(ents[1][2])], Tail(ents))
RefTable(s) == CASE s.k = "plain" -> (IF s.base = "win" THEN Win0 ELSE Std0)
                 [] s.k = "diff" -> Overlay(IF s.base = "win" THEN Win0 ELSE Std0, s.ents)
                 [] s.k = "prog" -> Overlay(IF s.std THEN Std0 ELSE Empty, s.ents)

VARIABLES heap, next, fonts
vars == <<heap, next, fonts>>
Init == heap = H0 /\ next = 3 /\ fonts = <<>>

BaseId(s) == IF s.base = "win" THEN 2 ELSE 1
Room == Len(fonts) < MaxFonts
AAlias == Room /\ \E s \in Specs : /\ s.k = "plain"
                                   /\ fonts' = Append(fonts, [spec |-> s, tab |-> BaseId(s)])
                                   /\ UNCHANGED <<heap, next>>
ACopyDiff == Room /\ \E s \in Specs : /\ s.k = "diff"
                                      /\ heap' = [heap EXCEPT ![next] = Overlay(heap[BaseId(s)], s.ents)]
                                      /\ fonts' = Append(fonts, [spec |-> s, tab |-> next])
                                      /\ next' = next + 1
AProgram == Room /\ \E s \in Specs :
              /\ s.k = "prog"
              /\ LET obj == IF s.std /\ "StdAliased" \in Dev THEN 1 ELSE next
                     start == IF s.std THEN heap[1] ELSE Empty IN
                 /\ heap' = [heap EXCEPT ![obj] = Overlay(start, s.ents)]
                 /\ fonts' = Append(fonts, [spec |-> s, tab |-> obj])
              /\ next' = next + 1
Next == AAlias \/ ACopyDiff \/ AProgram
Spec == Init /\ [][Next]_vars

SharedUnchanged == heap[1] = Std0 /\ heap[2] = Win0
Frame == [][heap'[1] = heap[1] /\ heap'[2] = heap[2]]_vars
Isolated == \A i \in 1..Len(fonts) : heap[fonts[i].tab] = RefTable(fonts[i].spec)
Emit == Len(fonts) > 0 => PrintT("@@" \o ToJson([specs |-> [i \in 1..Len(fonts) |-> fonts[i].spec],
                                                  tabs |-> [i \in 1..Len(fonts) |-> heap[fonts[i].tab]]]))
=============================================================================
