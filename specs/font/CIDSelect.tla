----------------------------- MODULE CIDSelect -----------------------------
(***************************************************************************)
(* Composite fonts, property C07, part (iv): which encoding CMap and which *)
(* CID -> Unicode source a Type0 font ends up with, and the text of a CID. *)
(*                                                                         *)
(* A font (Type0 dictionary + its descendant CIDFont) is abstracted to     *)
(*   encform  "name" | "stream"   Encoding is a name, or a CMap stream     *)
(*                                carrying /CMapName                       *)
(*   encname  Identity-H/-V, DLIdent-H/-V, OneByteIdentityH/V, or a        *)
(*            predefined CJK CMap "pre-H" / "pre-V"                        *)
(*   tu       "absent" | "stream" | "name-identity"  (the ToUnicode entry) *)
(*   coll     "identity" (Adobe-Identity) | "ucs" (Adobe-UCS) | "known"    *)
(*            (Adobe-Japan1/GB1/CNS1/Korea1) | "unknown"                   *)
(*   ttf      "none" | "cmap" | "nocmap"  (FontFile2 with/without a usable *)
(*            Unicode cmap table)                                          *)
(* Machine: PDFResourceManager.get_font (AType0: descend into              *)
(* DescendantFonts[0], copying Encoding and ToUnicode down),               *)
(* PDFCIDFont.__init__: ACMap (_get_cmap_name, IDENTITY_ENCODER,           *)
(* CMapDB.get_cmap), AUnicodeMap (the if/elif cascade), AMetrics (vertical *)
(* iff the CMap's WMode).  Reference (ISO 32000-1 9.7.5.2, 9.7.6.1,        *)
(* 9.10.2): RefSeg / RefUmap / RefVertical as precedence lists.            *)
(* Invariant SelectionRef; Text is the end-to-end rule: the source's entry *)
(* for the key, else (cid:N).  The key of a ToUnicode CMap is the          *)
(* character CODE (9.10.3: it maps character codes to Unicode); every      *)
(* other source is keyed by CID.  Deviation "ToUnicodeByCID": the code     *)
(* looks every source up by CID, which differs from the code whenever the  *)
(* encoding CMap is not an identity (predefined CJK CMap + ToUnicode).     *)
(* Two copies run in lock step: mi (intended) and m (as coded, Dev).       *)
(***************************************************************************)
EXTENDS Integers, Sequences, FiniteSets, TLC, Json

CONSTANTS Fonts, Dev

IdentityNames == {"Identity-H", "Identity-V", "DLIdent-H", "DLIdent-V"}
ByteNames == {"OneByteIdentityH", "OneByteIdentityV"}
VerticalNames == {"Identity-V", "DLIdent-V", "OneByteIdentityV", "pre-V"}

\* ------------------------------------------------------------------ reference
RefSeg(f) == IF f.encname \in IdentityNames THEN "id2" ELSE IF f.encname \in ByteNames THEN "id1" ELSE "trie"
RefVertical(f) == f.encname \in VerticalNames
\* 9.10.2: a ToUnicode CMap wins; else the character collection of a known registry-ordering; the repository adds:
\* ToUnicode given as the NAME Identity-* means CID = Unicode, and for Adobe-Identity / Adobe-UCS descendants the
\* embedded TrueType cmap is inverted; otherwise there is no Unicode value
RefUmap(f) == IF f.tu = "stream" THEN "file"
              ELSE IF f.tu = "name-identity" THEN "identity"
              ELSE IF f.coll = "known" THEN "collection"
              ELSE IF f.coll \in {"identity", "ucs"} /\ f.ttf = "cmap" THEN "ttf"
              ELSE "none"
RefKey(f) == IF RefUmap(f) = "file" THEN "code" ELSE "cid"

\* ------------------------------------------------------------------ machine
M0 == [pc |-> "type0", enc |-> "", tu |-> "", seg |-> "", wmode |-> 0, umap |-> "", key |-> "", vertical |-> FALSE]
Step(m, f, dev) ==
  CASE m.pc = "type0" ->   \* subspec = DescendantFonts[0].copy(); Encoding / ToUnicode of the Type0 dictionary copied in
         [m EXCEPT !.enc = f.encname, !.tu = f.tu, !.pc = "cmap"]
    [] m.pc = "cmap" ->    \* IDENTITY_ENCODER then CMapDB.get_cmap
         LET n == CASE m.enc = "DLIdent-H" -> "Identity-H" [] m.enc = "DLIdent-V" -> "Identity-V" [] OTHER -> m.enc IN
         [m EXCEPT !.seg = CASE n \in {"Identity-H", "Identity-V"} -> "id2"
                             [] n \in {"OneByteIdentityH", "OneByteIdentityV"} -> "id1"
                             [] OTHER -> "trie",
                   !.wmode = IF n \in {"Identity-V", "OneByteIdentityV", "pre-V"} THEN 1 ELSE 0,
                   !.pc = "umap"]
    [] m.pc = "umap" ->
         [m EXCEPT !.umap =
             IF m.tu # "absent"
             THEN (IF m.tu = "stream" THEN "file" ELSE "identity")    \* name containing "Identity" -> IdentityUnicodeMap
             ELSE IF f.coll \in {"identity", "ucs"}
                  THEN (IF f.ttf = "cmap" THEN "ttf" ELSE "none")      \* CMapNotFound -> no map
             ELSE (IF f.coll = "known" THEN "collection" ELSE "none"),  \* CMapDB.CMapNotFound -> no map
                   !.pc = "metrics"]
    [] m.pc = "metrics" ->   \* render_char: font.to_unichr(cid)
         [m EXCEPT !.vertical = (m.wmode # 0), !.pc = "done",
                   !.key = IF m.umap = "file" /\ "ToUnicodeByCID" \notin dev THEN "code" ELSE "cid"]
    [] OTHER -> m

VARIABLES font, m, mi
vars == <<font, m, mi>>
Init == font \in Fonts /\ m = M0 /\ mi = M0
Both == m' = Step(m, font, Dev) /\ mi' = Step(mi, font, {}) /\ UNCHANGED font
AType0 == m.pc = "type0" /\ Both
ACMap == m.pc = "cmap" /\ Both
AUnicodeMap == m.pc = "umap" /\ Both
AMetrics == m.pc = "metrics" /\ Both
Next == AType0 \/ ACMap \/ AUnicodeMap \/ AMetrics
Spec == Init /\ [][Next]_vars

Done == m.pc = "done"
SelectionRef == Done => /\ mi.seg = RefSeg(font) /\ mi.umap = RefUmap(font) /\ mi.vertical = RefVertical(font)
                        /\ mi.key = RefKey(font)
\* NOT expected to hold while Dev is non-empty
AsCodedSelection == Done => m.key = RefKey(font)
DevLocal == Done /\ m # mi => /\ [m EXCEPT !.key = mi.key] = mi
                              /\ "ToUnicodeByCID" \in Dev /\ mi.umap = "file"
\* PDFCIDFont.to_unichr + (cid:N): `has` = the selected source has an entry for the CID
Text(umap, has, val, cid) == IF umap # "none" /\ has THEN val ELSE <<"cid", cid>>

Emit == Done => PrintT("@@" \o ToJson([f |-> font, seg |-> mi.seg, umap |-> mi.umap, vertical |-> mi.vertical,
                                        keyi |-> mi.key, keyc |-> m.key]))
=============================================================================
