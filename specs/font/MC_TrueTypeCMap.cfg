CONSTANTS
  D4 = {32, 33, 34, 36, 37, 65534}
  G4 = {0, 1, 2, 65534}
  G2 = {0, 1, 2}
  DL2 <- DL2Full
  Cases <- MCCases
  Dev <- NoDev
INIT Init
NEXT Next
INVARIANT EncoderRoundTrip
INVARIANT MachineRef
INVARIANT NoIntendedError
INVARIANT DevLocal
CHECK_DEADLOCK FALSE
