CONSTANTS
  Entries <- SmallEntries
  MaxEnt = 3
  CidDom <- MCCidDom
INIT Init
NEXT Next
INVARIANT ToUnicodeRef
INVARIANT IncrementAgrees
INVARIANT EvenTargets
CHECK_DEADLOCK FALSE
