CONSTANTS
  Entries <- SmallEntries
  MaxEnt = 3
  CidDom <- MCCidDom
  Dev <- NoDev
INIT Init
NEXT Next
INVARIANT ToUnicodeRef
INVARIANT IncrementAgrees
INVARIANT EvenTargets
INVARIANT DevLocal
CHECK_DEADLOCK FALSE
