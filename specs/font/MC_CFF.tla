---- MODULE MC_CFF ----
EXTENDS CFF
CONSTANTS MaxSeq    \* longest dict / charset / encoding / index content
SeqsUpTo(S, n) == UNION {[1..k -> S] : k \in 0..n}
Inj(S, n) == {s \in SeqsUpTo(S, n) : Len(s) > 0 /\ \A i, j \in 1..Len(s) : i # j => s[i] # s[j]}
MinInt == -2147483647 - 1
IntVals == {0, 1, -1, 107, -107, 108, -108, 255, 256, 1131, -1131, 1132, -1132, 32767, -32768, 32768, -32769, 65536,
            16777216, -16777216, 2147483647, MinInt}
IntCases == {[kind |-> "int", v |-> p[1], f |-> p[2], bytes |-> EncInt(p[1], p[2])] :
               p \in {q \in IntVals \X {1, 2, 3, 5} : FormOK(q[1], q[2])}}
Lits == {<<"0", ".", "5">>, <<"-", "2", ".", "2", "5">>, <<"1", "4", "0", "5", "4", "1", "E-", "3">>, <<"1", "E", "2">>,
         <<"0">>, <<"-", ".", "0", "0", "1">>, <<"1", "2", "3", "4", "5", "6", "7", "8">>}
RealCases == {[kind |-> "real", lit |-> l, bytes |-> EncReal(l)] : l \in Lits}
Ia(v, f) == [k |-> "int", v |-> v, f |-> f, lit |-> <<>>]
Ra(l) == [k |-> "real", v |-> 0, f |-> 0, lit |-> l]
DictEnts == {[op |-> <<15>>, args |-> <<Ia(0, 1)>>], [op |-> <<16>>, args |-> <<Ia(300, 2)>>], [op |-> <<17>>, args |-> <<Ia(1000, 3)>>],
             [op |-> <<12, 7>>, args |-> <<Ra(<<"0", ".", "0", "0", "1">>), Ia(0, 1)>>],
             [op |-> <<5>>, args |-> <<Ia(-100, 1), Ia(-250, 2), Ia(1000, 2), Ia(70000, 5)>>],
             [op |-> <<15>>, args |-> <<Ia(500, 5)>>], [op |-> <<12, 20>>, args |-> <<Ia(3, 1)>>]}
DictCases == {[kind |-> "dict", ents |-> es, bytes |-> EncDict(es)] : es \in SeqsUpTo(DictEnts, MaxSeq)}
Items == {<<>>, <<65>>, <<66, 67>>}
IndexCases == {[kind |-> "index", items |-> it, osz |-> o, bytes |-> EncIndex(it, o)] : it \in SeqsUpTo(Items, MaxSeq), o \in 1..4}
Sids == {1, 2, 3, 5, 391, 392}
CharsetCases == {[kind |-> "charset", sids |-> s, fmt |-> f, n |-> Len(s) + 1, bytes |-> EncCharset(s, f)] :
                   s \in Inj(Sids, MaxSeq), f \in 0..2}
Codes == {32, 33, 34, 65}
EncodingCases == {[kind |-> "encoding", codes |-> c, fmt |-> f, suppl |-> sp, bytes |-> EncEncoding(c, f, sp)] :
                    c \in Inj(Codes, MaxSeq), f \in 0..1, sp \in BOOLEAN}
MCCases == IntCases \cup RealCases \cup DictCases \cup IndexCases \cup CharsetCases \cup EncodingCases
AllDev == {"EmptyIndex3", "EscapeSplit", "Charset1AsCodes", "Charset2Assert", "EncodingSwapped", "EncodingSuppl"}
NoDev == {}
====
