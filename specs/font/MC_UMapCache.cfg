CONSTANTS
  Colls <- MCColls
  MaxReq = 3
  Dev <- NoDev
INIT Init
NEXT Next
INVARIANT ModeCorrect
CHECK_DEADLOCK FALSE
