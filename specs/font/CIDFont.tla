------------------------------ MODULE CIDFont ------------------------------
(***************************************************************************)
(* Composite fonts, property C07, part (i): how a shown string is cut into *)
(* character codes by the font's encoding CMap.                            *)
(*                                                                         *)
(* A family describes one kind of encoding CMap over abstract byte symbols *)
(* (the harness binds every symbol to real bytes of real CMaps and checks  *)
(* from the CMap DATA that the real code table has exactly this shape):    *)
(*   kind "id2"   Identity-H / Identity-V: every code is two bytes         *)
(*   kind "id1"   OneByteIdentityH / V: every code is one byte             *)
(*   kind "trie"  a predefined CJK CMap: codes = a prefix-free set of      *)
(*                symbol sequences of length 1..3 (its mapped codes)       *)
(*                                                                         *)
(* Machine (cmapdb.CMap.decode / IdentityCMap.decode / IdentityCMapByte):  *)
(*   the nested-dictionary walk: ALeaf (the byte completes a code: emit,   *)
(*   back to the root), ADescend (the byte extends a partial code), ADrop  *)
(*   (no such entry: back to the root, the partial code and the byte are   *)
(*   dropped); for the identities APair / AHold / AByte.                   *)
(*   Deviation "IdentityOddRaises": IdentityCMap.decode computes           *)
(*   n = len // 2 but unpacks the whole string, so an odd-length string of *)
(*   three or more bytes raises struct.error (intended: the odd final byte *)
(*   is ignored).                                                          *)
(* Reference (ISO 32000-1 9.7.6.2, Adobe TN 5014): RefSeg - at each        *)
(* position the code of the CMap that the string continues with; a         *)
(* partial code followed by a byte that does not continue it is consumed   *)
(* together with that byte and selects no CID; an incomplete final code    *)
(* selects nothing.  IsConcat/ConcatLossless state the unambiguous core:   *)
(* a string that is a concatenation of codes is cut into exactly them.     *)
(*                                                                         *)
(* Every reachable state is one (family, string): strings are grown one    *)
(* symbol per step and the walk advances with them, so the invariants are  *)
(* evaluated on every string over the family's symbols up to MaxLen.       *)
(***************************************************************************)
EXTENDS Integers, Sequences, FiniteSets, TLC, Json

CONSTANTS Families, MaxLen, Dev

Take(s, n) == SubSeq(s, 1, n)
Drop(s, n) == SubSeq(s, n + 1, Len(s))
RECURSIVE Flatten(_)
Flatten(ss) == IF ss = <<>> THEN <<>> ELSE Head(ss) \o Flatten(Tail(ss))
IsProperPrefix(p, codes) == \E c \in codes : Len(c) > Len(p) /\ Take(c, Len(p)) = p

\* ------------------------------------------------------------------ reference
RECURSIVE RefSeg(_, _)
RefSeg(fam, s) ==
  IF s = <<>> THEN <<>>
  ELSE IF fam.kind = "id1" THEN <<Take(s, 1)>> \o RefSeg(fam, Drop(s, 1))
  ELSE IF fam.kind = "id2" THEN (IF Len(s) < 2 THEN <<>> ELSE <<Take(s, 2)>> \o RefSeg(fam, Drop(s, 2)))
  ELSE LET L == {n \in 1..Len(s) : Take(s, n) \in fam.codes} IN
       IF L # {} THEN LET n == CHOOSE n \in L : TRUE IN <<Take(s, n)>> \o RefSeg(fam, Drop(s, n))
       ELSE LET P == {k \in 0..Len(s) : IsProperPrefix(Take(s, k), fam.codes)}
                m == CHOOSE k \in P : \A j \in P : j <= k IN
            IF m = Len(s) THEN <<>> ELSE RefSeg(fam, Drop(s, m + 1))

IsCode(fam, c) == CASE fam.kind = "id1" -> Len(c) = 1 [] fam.kind = "id2" -> Len(c) = 2 [] OTHER -> c \in fam.codes
RECURSIVE IsConcat(_, _)
IsConcat(fam, s) == s = <<>> \/ \E n \in 1..Len(s) : IsCode(fam, Take(s, n)) /\ IsConcat(fam, Drop(s, n))

\* ------------------------------------------------------------------ machine
W0 == [path |-> <<>>, out |-> <<>>]
WalkStep(fam, w, b) ==
  LET p == Append(w.path, b) IN
  CASE fam.kind = "id1" -> [w EXCEPT !.out = Append(w.out, p)]
    [] fam.kind = "id2" -> IF Len(p) = 2 THEN [path |-> <<>>, out |-> Append(w.out, p)] ELSE [w EXCEPT !.path = p]
    [] OTHER -> IF p \in fam.codes THEN [path |-> <<>>, out |-> Append(w.out, p)]
                ELSE IF IsProperPrefix(p, fam.codes) THEN [w EXCEPT !.path = p]
                ELSE [w EXCEPT !.path = <<>>]
\* what decode(s) returns: the codes, or the exception
Result(fam, w, s, dev) ==
  IF fam.kind = "id2" /\ "IdentityOddRaises" \in dev /\ Len(s) % 2 = 1 /\ Len(s) >= 3
  THEN [err |-> "struct.error", out |-> <<>>] ELSE [err |-> "none", out |-> w.out]

VARIABLES fam, str, walk
vars == <<fam, str, walk>>
Init == fam \in Families /\ str = <<>> /\ walk = W0
Grow(b) == /\ Len(str) < MaxLen /\ b \in fam.syms
           /\ str' = Append(str, b) /\ walk' = WalkStep(fam, walk, b) /\ UNCHANGED fam
P(b) == Append(walk.path, b)
ALeaf == fam.kind = "trie" /\ \E b \in fam.syms : P(b) \in fam.codes /\ Grow(b)
ADescend == fam.kind = "trie" /\ \E b \in fam.syms : P(b) \notin fam.codes /\ IsProperPrefix(P(b), fam.codes) /\ Grow(b)
ADrop == fam.kind = "trie" /\ \E b \in fam.syms : P(b) \notin fam.codes /\ ~IsProperPrefix(P(b), fam.codes) /\ Grow(b)
APair == fam.kind = "id2" /\ Len(walk.path) = 1 /\ \E b \in fam.syms : Grow(b)
AHold == fam.kind = "id2" /\ Len(walk.path) = 0 /\ \E b \in fam.syms : Grow(b)
AByte == fam.kind = "id1" /\ \E b \in fam.syms : Grow(b)
Next == ALeaf \/ ADescend \/ ADrop \/ APair \/ AHold \/ AByte
Spec == Init /\ [][Next]_vars

\* ------------------------------------------------------------------ properties
Intended == Result(fam, walk, str, {})
AsCoded == Result(fam, walk, str, Dev)
SegmentationRef == Intended.err = "none" /\ Intended.out = RefSeg(fam, str)
ConcatLossless == IsConcat(fam, str) => Flatten(Intended.out) = str /\ walk.path = <<>>
CodesOnly == \A i \in 1..Len(walk.out) : IsCode(fam, walk.out[i])
PathIsPrefix == walk.path = <<>> \/ fam.kind = "id2" \/ IsProperPrefix(walk.path, fam.codes)
\* NOT expected to hold while Dev is non-empty
AsCodedSegmentation == AsCoded.err = "none" /\ AsCoded.out = RefSeg(fam, str)
DevLocal == AsCoded # Intended => fam.kind = "id2" /\ Len(str) % 2 = 1

Emit == PrintT("@@" \o ToJson([fam |-> fam.name, s |-> str, i |-> Intended, c |-> AsCoded]))
=============================================================================
