CONSTANTS
  Setups <- MCSetups
  ShowCids <- MCShow
  MaxShow = 3
  Dev <- NoDev
INIT Init
NEXT Next
INVARIANT PlacementRef
INVARIANT VerticalPlacement
INVARIANT DevLocal
CHECK_DEADLOCK FALSE
