CONSTANTS
  Setups <- MCSetups
  ShowCids <- MCShow
  MaxShow = 4
INIT Init
NEXT Next
INVARIANT PlacementRef
INVARIANT VerticalPlacement
CHECK_DEADLOCK FALSE
