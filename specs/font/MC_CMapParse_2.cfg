CONSTANTS
  Entries <- MCEntries
  MaxEnt = 2
  CidDom <- MCCidDom
INIT Init
NEXT Next
INVARIANT ToUnicodeRef
INVARIANT IncrementAgrees
INVARIANT EvenTargets
CHECK_DEADLOCK FALSE
