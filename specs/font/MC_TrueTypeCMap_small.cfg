CONSTANTS
  D4 = {32, 33, 34, 65534}
  G4 = {0, 1, 65534}
  G2 = {0, 1}
  DL2 = {0, 5}
  Cases <- MCCases
  Dev <- NoDev
INIT Init
NEXT Next
INVARIANT EncoderRoundTrip
INVARIANT MachineRef
INVARIANT NoIntendedError
INVARIANT DevLocal
CHECK_DEADLOCK FALSE
