CONSTANTS
  Fonts <- MCFonts
  Dev <- AllDev
INIT Init
NEXT Next
INVARIANT SelectionRef
INVARIANT DevLocal
CHECK_DEADLOCK FALSE
