-------------------------- MODULE SimpleFontTrace --------------------------
(***************************************************************************)
(* Trace validation (binding B) for simple fonts, property C06.            *)
(*                                                                         *)
(* One trace = one real font of a real document, recorded by               *)
(* harness/observe/fontrec.py from the unmodified pdfminer code:           *)
(*   base    the table EncodingDB.get_encoding returned for the font's     *)
(*           base-encoding name alone (256 entries, <<>> = undefined)      *)
(*   diff    the Differences array as the code saw it: numbers, and names  *)
(*           with the value name2unicode gives them (ok = FALSE: none)     *)
(*   enc     the table the real get_encoding(name, diff) call returned     *)
(*   final   font.cid2unicode after construction (= enc unless the         *)
(*           built-in encoding of an embedded Type 1 program replaced it)  *)
(*   tabs0 / tabs1 / pristine   digest of EncodingDB's four shared base     *)
(*           tables before and after the font was built, and whether the   *)
(*           base table the font started from is what latin_enc prescribes *)
(*           (constructing a font must leave the shared tables unchanged:  *)
(*           FontSeq.tla SharedUnchanged)                                  *)
(*   codes   for every code 0..255 the to_unichr / char_width events:      *)
(*           hastu/tu (entry of the ToUnicode map), txt (result, <<-1>> =  *)
(*           PDFUnicodeNotDefined), and the arithmetic facts inw/eqw/inm/  *)
(*           eqm/eqd about the char_width result (computed by the harness  *)
(*           with exact rational arithmetic; TLC has no reals)             *)
(* The specification steps the Differences machine of SimpleFont.tla       *)
(* (FontOps!DiffName) over the real array and demands that the recorded    *)
(* table is exactly the overlay (frame rule: every one of the 256 entries),*)
(* then checks precedence (FontOps!TextRule) and the width skeleton        *)
(* (FontOps!WidthOK) for every code.  A trace that is not a behaviour      *)
(* deadlocks; the last state names the trace (t), phase and index (k).     *)
(***************************************************************************)
EXTENDS Integers, Sequences, TLC, Json, IOUtils, FontOps

CONSTANTS Dev

Traces == JsonDeserialize(IOEnv.TRACE_FILE)
N == Len(Traces)
Undef == <<-1>>

VARIABLES t, ph, k, cur, enc
vars == <<t, ph, k, cur, enc>>

Cur == Traces[t]
Init == t = 1 /\ ph = "start" /\ k = 0 /\ cur = 0 /\ enc = <<>>

\* table index of code c is c+1 (JSON arrays are 1-based sequences)
AStart == /\ t <= N /\ ph = "start"
          /\ Cur.tabs0 = Cur.tabs1 /\ Cur.pristine
          /\ Len(Cur.base) = 256 /\ Len(Cur.enc) = 256 /\ Len(Cur.final) = 256 /\ Len(Cur.codes) = 256
          /\ enc' = Cur.base /\ cur' = 0 /\ k' = 0 /\ ph' = "diff" /\ UNCHANGED t

ADiffInt == /\ t <= N /\ ph = "diff" /\ k < Len(Cur.diff) /\ Cur.diff[k + 1].t = "int"
            /\ cur' = Cur.diff[k + 1].v /\ k' = k + 1 /\ UNCHANGED <<t, ph, enc>>

ADiffName == /\ t <= N /\ ph = "diff" /\ k < Len(Cur.diff) /\ Cur.diff[k + 1].t = "name"
             /\ enc' = DiffName(enc, cur + 1, Cur.diff[k + 1].ok, Cur.diff[k + 1].val, <<>>, 1..256,
                                "DiffKeepsBase" \in Dev)
             /\ cur' = cur + 1 /\ k' = k + 1 /\ UNCHANGED <<t, ph>>

\* frame rule: the recorded result of get_encoding is exactly the overlay, and (unless a built-in encoding
\* replaced it) it is the table the font ends up with
ADiffEnd == /\ t <= N /\ ph = "diff" /\ k = Len(Cur.diff)
            /\ enc = Cur.enc
            /\ (~Cur.builtin => Cur.final = enc)
            /\ ph' = "codes" /\ k' = 0 /\ UNCHANGED <<t, cur, enc>>

ACode == /\ t <= N /\ ph = "codes" /\ k < 256
         /\ LET r == Cur.codes[k + 1] IN
              /\ r.txt = TextRule(r.hastu, r.tu, Cur.final[k + 1], <<>>, Undef)
              /\ WidthOK(r.inw, r.eqw, r.txt # Undef /\ r.inm, r.eqm, r.eqd)
         /\ k' = k + 1 /\ UNCHANGED <<t, ph, cur, enc>>

AEndTrace == /\ t <= N /\ ph = "codes" /\ k = 256
             /\ t' = t + 1 /\ ph' = "start" /\ k' = 0 /\ cur' = 0 /\ enc' = <<>>

Finished == t > N /\ UNCHANGED vars

Next == AStart \/ ADiffInt \/ ADiffName \/ ADiffEnd \/ ACode \/ AEndTrace \/ Finished
Spec == Init /\ [][Next]_vars

\* evaluated in every state
CursorSane == cur >= 0
TableShape == ph \in {"diff", "codes"} => Len(enc) = 256
=============================================================================
