CONSTANTS
  Families <- MCFamilies
  MaxLen = 5
  Dev <- AllDev
INIT Init
NEXT Next
INVARIANT SegmentationRef
INVARIANT ConcatLossless
INVARIANT CodesOnly
INVARIANT PathIsPrefix
INVARIANT DevLocal
CHECK_DEADLOCK FALSE
