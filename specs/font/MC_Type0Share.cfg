CONSTANTS
  Parents <- MCParents
  MaxLoads = 3
  Dev <- NoDev
INIT Init
NEXT Next
INVARIANT DescendantUnchanged
INVARIANT Isolated
CHECK_DEADLOCK FALSE
