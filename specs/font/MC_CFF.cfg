CONSTANTS
  MaxSeq = 3
  Cases <- MCCases
  Dev <- AllDev
INIT Init
NEXT Next
INVARIANT RoundTrip
INVARIANT MachineRef
INVARIANT DevLocal
CHECK_DEADLOCK FALSE
