CONSTANTS
  Elems <- ElemsW2
  MaxLen = 6
  Cids <- MCCids
  Modes = {"W2"}
INIT Init
NEXT Next
INVARIANT WidthsRef
INVARIANT RegisterBound
CHECK_DEADLOCK FALSE
