---- MODULE MC_FontSeq ----
EXTENDS FontSeq
Z == [k |-> "", base |-> "std", std |-> FALSE, ents |-> <<>>]
MCCodes == 1..3
MCSpecs == {[Z EXCEPT !.k = "plain"],                                   \* no /Encoding, no program
            [Z EXCEPT !.k = "plain", !.base = "stdname"],               \* /Encoding /StandardEncoding
            [Z EXCEPT !.k = "plain", !.base = "win"],
            [Z EXCEPT !.k = "diff", !.ents = <<<<1, "gA">>>>],
            [Z EXCEPT !.k = "diff", !.base = "win", !.ents = <<<<2, "gB">>>>],
            [Z EXCEPT !.k = "prog", !.ents = <<<<1, "gA">>>>],          \* 256 array + dup 1 /gA put
            [Z EXCEPT !.k = "prog", !.std = TRUE],                      \* /Encoding StandardEncoding def
            [Z EXCEPT !.k = "prog", !.std = TRUE, !.ents = <<<<1, "gA">>>>],
            [Z EXCEPT !.k = "prog", !.std = TRUE, !.ents = <<<<2, "gB">>, <<3, "gA">>>>]}
NoDev == {}
Aliased == {"StdAliased"}
====
