---- MODULE MC_TrueTypeCMap ----
EXTENDS TrueTypeCMap
CONSTANTS D4,      \* code domain of the format 4 / format 0 maps
          G4,      \* glyph values (0 = not mapped)
          G2, DL2  \* format 2: glyph values and idDelta values
\* format 4: every map D4 -> G4 in five styles
Maps4 == [D4 -> G4]
Cases4 == {Enc4(M, st) : M \in Maps4, st \in {"delta", "single", "range0", "ranged", "rangew", "mixed"}}
\* format 0: the maps on the codes below 256
Cases0 == {Enc0(M) : M \in [{c \in D4 : c < 256} -> {g \in G4 : g < 256}]}    \* a byte table holds glyphs below 256
\* format 2: single-byte codes 41 42 and two-byte codes 8140 8141 8240 8241 (two high bytes whose rows may coincide)
D2 == {65, 66, 33088, 33089, 33344, 33345}
Cases2 == {Enc2(M, d, sh) : M \in [D2 -> G2], d \in DL2, sh \in BOOLEAN}
\* (a format 0 subtable assigns all 256 codes: zeros = the codes of interest it gives glyph 0)
\* fonts: with/without cmap table; up to 3 subtable records over these (platform, encoding, format, content)
PA == {<<65, 1>>}
PB == {<<66, 2>>, <<65, 3>>}
Recs == {[p |-> 0, e |-> 3, fmt |-> 4, pairs |-> PA, zeros |-> {}], [p |-> 1, e |-> 0, fmt |-> 0, pairs |-> PB, zeros |-> {}],
         [p |-> 1, e |-> 0, fmt |-> 6, pairs |-> PB, zeros |-> {}], [p |-> 3, e |-> 1, fmt |-> 4, pairs |-> PB, zeros |-> {}],
         [p |-> 3, e |-> 10, fmt |-> 12, pairs |-> PA, zeros |-> {}], [p |-> 3, e |-> 0, fmt |-> 4, pairs |-> PA, zeros |-> {}],
         [p |-> 0, e |-> 4, fmt |-> 12, pairs |-> PB, zeros |-> {}], [p |-> 3, e |-> 1, fmt |-> 0, pairs |-> PA, zeros |-> {66}]}
CasesDir == {[kind |-> "dir", style |-> "dir", hascmap |-> h, subs |-> s] :
               h \in BOOLEAN, s \in UNION {[1..n -> Recs] : n \in 0..2}}
MCCases == Cases4 \cup Cases0 \cup Cases2 \cup CasesDir
AllDev == {"F4RangeBase", "F4ZeroDelta", "F2SingleHigh", "F2OneHigh", "F2NoModulo", "BadFormatAsserts"}
NoDev == {}
DL2Full == {0, 5, -2}
====
