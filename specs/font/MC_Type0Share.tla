---- MODULE MC_Type0Share ----
EXTENDS Type0Share
MCParents == {[id |-> "T1", enc |-> "Identity-H", tu |-> "streamX"], [id |-> "T2", enc |-> "Identity-H", tu |-> "absent"],
              [id |-> "T3", enc |-> "Identity-V", tu |-> "absent"], [id |-> "T4", enc |-> "Identity-H", tu |-> "streamY"]}
NoDev == {}
NoCopy == {"NoCopy"}
====
