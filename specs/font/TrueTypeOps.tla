----------------------------- MODULE TrueTypeOps -----------------------------
(***************************************************************************)
(* Operators of TrueTypeCMap.tla (encoder relation, OpenType reference,    *)
(* machine steps) without state, shared with TrueTypeCMapTrace.tla.        *)
(* See TrueTypeCMap.tla for the description.                               *)
(***************************************************************************)
EXTENDS Integers, Sequences, FiniteSets, TLC

M16 == 65536
Mod16(x) == x % M16
SetMin(S) == CHOOSE x \in S : \A y \in S : x <= y
SetMax(S) == CHOOSE x \in S : \A y \in S : y <= x
RECURSIVE AscSeq(_)
AscSeq(S) == IF S = {} THEN <<>> ELSE <<SetMin(S)>> \o AscSeq(S \ {SetMin(S)})
RECURSIVE Flatten(_)
Flatten(ss) == IF ss = <<>> THEN <<>> ELSE Head(ss) \o Flatten(Tail(ss))
RECURSIVE SumLen(_, _)
SumLen(ss, n) == IF n = 0 THEN 0 ELSE SumLen(ss, n - 1) + Len(ss[n])

\* ================================================================== encoder relation
\* maximal runs of a sorted code sequence; "delta": consecutive codes AND consecutive glyphs; "range": consecutive codes
RECURSIVE RunsOf(_, _, _, _)
RunsOf(cs, cur, M, mode) ==
  IF cs = <<>> THEN (IF cur = <<>> THEN <<>> ELSE <<cur>>)
  ELSE IF cur = <<>> THEN RunsOf(Tail(cs), <<Head(cs)>>, M, mode)
  ELSE LET a == cur[Len(cur)]  b == Head(cs) IN
       IF b = a + 1 /\ (mode = "range" \/ M[b] - b = M[a] - a)
       THEN RunsOf(Tail(cs), Append(cur, b), M, mode)
       ELSE <<cur>> \o RunsOf(Tail(cs), <<b>>, M, mode)
Mapped(M) == {c \in DOMAIN M : M[c] # 0}
\* a run of consecutive codes of the domain, cut down to first mapped .. last mapped (holes inside stay, as glyph 0)
Trim(run, M) == LET I == {i \in 1..Len(run) : M[run[i]] # 0} IN
                IF I = {} THEN <<>> ELSE SubSeq(run, SetMin(I), SetMax(I))
Term == [sc |-> 65535, ec |-> 65535, idd |-> 1, idr |-> 0]

Enc4(M, style) ==
  IF style \in {"delta", "single"}
  THEN LET runs == IF style = "single" THEN [i \in 1..Cardinality(Mapped(M)) |-> <<AscSeq(Mapped(M))[i]>>]
                   ELSE RunsOf(AscSeq(Mapped(M)), <<>>, M, "delta") IN
       [kind |-> "f4", style |-> style, map |-> M, gia |-> <<>>,
        segs |-> [k \in 1..Len(runs) |-> [sc |-> runs[k][1], ec |-> runs[k][Len(runs[k])],
                                          idd |-> Mod16(M[runs[k][1]] - runs[k][1]), idr |-> 0]] \o <<Term>>]
  ELSE \* "range0": idRangeOffset form with idDelta 0; "ranged": idDelta 65533 (= -3) and entries stored as glyph + 3
       \* (glyph 65534 is stored as 1: 1 + (-3) wraps below 0); "rangew": idDelta 10 and entries stored as glyph - 10
       \* modulo 65536 (glyph 1 is stored as 65527: 65527 + 10 wraps past 65535);
       \* "mixed": the first run in delta form when it can be, the others in idRangeOffset form
       LET all == RunsOf(AscSeq(DOMAIN M), <<>>, M, "range")
           tr == [k \in 1..Len(all) |-> Trim(all[k], M)]
           runs == SelectSeq(tr, LAMBDA r : r # <<>>)
           n == Len(runs) + 1
           d == IF style = "ranged" THEN 65533 ELSE IF style = "rangew" THEN 10 ELSE 0
           isd(k) == style = "mixed" /\ k = 1 /\ Len(RunsOf(runs[1], <<>>, M, "delta")) = 1
           words(k) == IF isd(k) THEN <<>> ELSE [j \in 1..Len(runs[k]) |->
                          IF M[runs[k][j]] = 0 THEN 0 ELSE Mod16(M[runs[k][j]] - d)]
           ws == [k \in 1..Len(runs) |-> words(k)] IN
       [kind |-> "f4", style |-> style, map |-> M, gia |-> Flatten(ws),
        segs |-> [k \in 1..Len(runs) |->
                    IF isd(k) THEN [sc |-> runs[k][1], ec |-> runs[k][Len(runs[k])],
                                    idd |-> Mod16(M[runs[k][1]] - runs[k][1]), idr |-> 0]
                    ELSE [sc |-> runs[k][1], ec |-> runs[k][Len(runs[k])], idd |-> d,
                          idr |-> 2 * ((n - (k - 1)) + SumLen(ws, k - 1))]] \o <<Term>>]

Enc0(M) == [kind |-> "f0", style |-> "f0", map |-> M, table |-> M]

\* format 2 over single-byte codes (< 256) and two-byte codes; style = <<delta, shared>>
Hi(c) == c \div 256
Lo(c) == c % 256
Enc2(M, delta, shared) ==
  LET singles == {c \in DOMAIN M : c < 256}
      his == AscSeq({Hi(c) : c \in DOMAIN M \ singles})
      lows(h) == {Lo(c) : c \in {x \in DOMAIN M : x >= 256 /\ Hi(x) = h}}
      G(c) == IF c \in DOMAIN M THEN M[c] ELSE 0
      stored(g) == IF g = 0 THEN 0 ELSE Mod16(g - delta)
      row0 == IF singles = {} THEN <<>> ELSE [j \in 1..(SetMax(singles) - SetMin(singles) + 1) |-> stored(G(SetMin(singles) + j - 1))]
      row(h) == [j \in 1..(SetMax(lows(h)) - SetMin(lows(h)) + 1) |-> stored(G(h * 256 + SetMin(lows(h)) + j - 1))]
      sig(h) == <<SetMin(lows(h)), row(h)>>
      \* subheader index of high byte his[i]: a fresh one, or (shared) the one of an earlier high byte with the same row
      rep(i) == IF shared /\ \E j \in 1..(i - 1) : sig(his[j]) = sig(his[i])
                THEN SetMin({j \in 1..(i - 1) : sig(his[j]) = sig(his[i])}) ELSE i
      reps == AscSeq({rep(i) : i \in 1..Len(his)})
      idx(i) == CHOOSE k \in 1..Len(reps) : reps[k] = rep(i)          \* 1-based index among the real subheaders 1..
      nsub == Len(reps) + 1
      rows == <<row0>> \o [k \in 1..Len(reps) |-> row(his[reps[k]])]
      sub(k) == [first |-> IF k = 1 THEN (IF singles = {} THEN 0 ELSE SetMin(singles)) ELSE SetMin(lows(his[reps[k - 1]])),
                 count |-> Len(rows[k]), delta |-> delta,
                 roff |-> 2 * (4 * nsub + SumLen(rows, k - 1) - (4 * (k - 1) + 3))] IN
  [kind |-> "f2", style |-> IF shared THEN "f2-shared" ELSE "f2", dl |-> delta, map |-> M,
   keys |-> [i \in 1..Len(his) |-> <<his[i], idx(i)>>],          \* <<high byte, subheader index>>; every other byte has key 0
   subs |-> [k \in 1..nsub |-> sub(k)], gia |-> Flatten(rows)]

\* ================================================================== reference (OpenType 'cmap')
\* format 4: word w of the memory that starts at idRangeOffset[0]
Word4(cs, w) == IF w < Len(cs.segs) THEN cs.segs[w + 1].idr ELSE cs.gia[w - Len(cs.segs) + 1]
InMem4(cs, w) == w >= 0 /\ w < Len(cs.segs) + Len(cs.gia)
RefGlyph4(cs, c) ==
  LET I == {i \in 1..Len(cs.segs) : cs.segs[i].ec >= c} IN
  IF I = {} THEN 0
  ELSE LET i == SetMin(I)  s == cs.segs[i] IN
       IF s.sc > c THEN 0
       ELSE IF s.idr = 0 THEN Mod16(c + s.idd)
       ELSE LET g == Word4(cs, (i - 1) + s.idr \div 2 + (c - s.sc)) IN
            IF g = 0 THEN 0 ELSE Mod16(g + s.idd)
Codes4(cs) == UNION {cs.segs[i].sc..cs.segs[i].ec : i \in 1..Len(cs.segs)}

\* format 2: word w of the memory that starts at subheader 0
Word2(cs, w) == LET k == w \div 4 IN
                IF k < Len(cs.subs) THEN (CASE w % 4 = 0 -> cs.subs[k + 1].first [] w % 4 = 1 -> cs.subs[k + 1].count
                                            [] w % 4 = 2 -> cs.subs[k + 1].delta [] OTHER -> cs.subs[k + 1].roff)
                ELSE cs.gia[w - 4 * Len(cs.subs) + 1]
Key2(cs, b) == LET I == {i \in 1..Len(cs.keys) : cs.keys[i][1] = b} IN IF I = {} THEN 0 ELSE cs.keys[SetMin(I)][2]
Glyph2(cs, k, j, mod) ==       \* entry j (0-based) of subheader k (0-based)
  LET s == cs.subs[k + 1]  g == Word2(cs, 4 * k + 3 + s.roff \div 2 + j) IN
  IF g = 0 THEN 0 ELSE IF mod THEN Mod16(g + s.delta) ELSE g + s.delta
HighBytes(cs) == {cs.keys[i][1] : i \in 1..Len(cs.keys)}          \* the bytes whose key is not 0
BytesOf(cs, k) == IF k = 0 THEN (0..255) \ HighBytes(cs) ELSE {cs.keys[i][1] : i \in {j \in 1..Len(cs.keys) : cs.keys[j][2] = k}}
RefPairs2(cs) ==
  {<<b, Glyph2(cs, 0, b - cs.subs[1].first, TRUE)>> :
      b \in (cs.subs[1].first..(cs.subs[1].first + cs.subs[1].count - 1)) \ HighBytes(cs)}
  \cup UNION {{<<b * 256 + cs.subs[Key2(cs, b) + 1].first + j, Glyph2(cs, Key2(cs, b), j, TRUE)>> :
                  j \in 0..(cs.subs[Key2(cs, b) + 1].count - 1)} : b \in HighBytes(cs)}

Unicode(p, e) == p = 0 \/ (p = 3 /\ e \in {1, 10})
Supported(fmt) == fmt \in {0, 2, 4}
\* later subtables overwrite earlier ones character by character
Merge(ps, qs) == {p \in ps : ~\E q \in qs : q[1] = p[1]} \cup qs
\* A font may carry several Unicode subtables.  OpenType lets a consumer pick one of them; the code merges them
\* character by character.  Either is accepted: what is handed out must be defined by SOME usable subtable (DirSound)
\* and must cover at least one usable subtable completely (DirComplete).
Usable(s) == Unicode(s.p, s.e) /\ Supported(s.fmt)
DirUnion(subs) == UNION {subs[i].pairs : i \in {j \in 1..Len(subs) : Usable(subs[j])}}
Glyphs(ps) == {p[2] : p \in ps}
DirOK(res, cs) ==
  LET U == IF cs.hascmap THEN DirUnion(cs.subs) ELSE {} IN
  IF U = {} THEN res.err = "CMapNotFound"
  ELSE /\ res.err = "none" /\ res.pairs \subseteq U
       /\ \E i \in 1..Len(cs.subs) : Usable(cs.subs[i]) /\ cs.subs[i].pairs # {}
                                       /\ Glyphs(cs.subs[i].pairs) \subseteq Glyphs(res.pairs)

NonZero(ps) == {p \in ps : p[2] # 0}
RefPairs(cs) == CASE cs.kind = "f4" -> NonZero({<<c, RefGlyph4(cs, c)>> : c \in Codes4(cs)})
                  [] cs.kind = "f0" -> NonZero({<<c, cs.table[c]>> : c \in DOMAIN cs.table})
                  [] cs.kind = "f2" -> NonZero(RefPairs2(cs))
                  [] cs.kind = "dir" -> IF cs.hascmap THEN DirUnion(cs.subs) ELSE {}
\* the encoder is right: decoding what it produced gives the map back (on the mapped codes)
RoundTrip(cs) == cs.kind \in {"f4", "f0", "f2"} =>
                   {p \in RefPairs(cs) : p[1] # 65535} = {<<c, cs.map[c]>> : c \in {x \in DOMAIN cs.map : cs.map[x] # 0}}

\* ================================================================== machine
Steps(cs) == CASE cs.kind = "f4" -> Len(cs.segs) [] cs.kind = "f0" -> 1 [] cs.kind = "f2" -> Len(cs.subs)
               [] cs.kind = "dir" -> IF cs.hascmap THEN Len(cs.subs) ELSE 0
S0 == [i |-> 0, pairs |-> {}, err |-> "none", pc |-> "run"]

SegPairs(cs, i, dev) ==
  LET s == cs.segs[i]
      base == IF "F4RangeBase" \in dev THEN 0 ELSE i - 1 IN
  IF s.idr = 0 THEN {<<c, Mod16(c + s.idd)>> : c \in s.sc..s.ec}
  ELSE {<<c, LET g == Word4(cs, base + s.idr \div 2 + (c - s.sc)) IN
             IF g = 0 /\ "F4ZeroDelta" \notin dev THEN 0 ELSE Mod16(g + s.idd)>> : c \in s.sc..s.ec}
SegInMem(cs, i, dev) ==
  LET s == cs.segs[i]  base == IF "F4RangeBase" \in dev THEN 0 ELSE i - 1 IN
  s.idr = 0 \/ \A c \in s.sc..s.ec : InMem4(cs, base + s.idr \div 2 + (c - s.sc))

SubPairs(cs, k, dev) ==      \* subheader k (0-based)
  LET s == cs.subs[k + 1]
      B == BytesOf(cs, k)
      G(j) == Glyph2(cs, k, j, "F2NoModulo" \notin dev)
      J == 0..(s.count - 1) IN
  IF k = 0 /\ "F2SingleHigh" \notin dev
  THEN \* subheader 0 serves the single-byte codes (a byte that starts two-byte codes is not one of them)
       {<<s.first + j, G(j)>> : j \in {x \in J : (s.first + x) \notin HighBytes(cs)}}
  ELSE LET highs == IF B = {} THEN (IF "F2OneHigh" \in dev THEN {0} ELSE {})
                    ELSE IF k = 0 \/ "F2OneHigh" \in dev THEN {SetMax(B)} ELSE B IN
       {<<h * 256 + s.first + j, G(j)>> : h \in highs, j \in J}

Step(m, cs, dev) ==
  IF m.i = Steps(cs) THEN [m EXCEPT !.pc = "done"]
  ELSE LET i == m.i + 1 IN
  CASE cs.kind = "f4" -> IF SegInMem(cs, i, dev) THEN [m EXCEPT !.i = i, !.pairs = Merge(m.pairs, SegPairs(cs, i, dev))]
                         ELSE [m EXCEPT !.err = "CMapNotFound", !.pc = "done"]     \* struct.error -> CMapNotFound
    [] cs.kind = "f0" -> [m EXCEPT !.i = i, !.pairs = {<<c, cs.table[c]>> : c \in DOMAIN cs.table}]
    [] cs.kind = "f2" -> [m EXCEPT !.i = i, !.pairs = Merge(m.pairs, SubPairs(cs, i - 1, dev))]
    [] cs.kind = "dir" -> LET s == cs.subs[i] IN
         IF ~Unicode(s.p, s.e) THEN [m EXCEPT !.i = i]
         ELSE IF Supported(s.fmt)     \* dict.update: every character the subtable assigns, glyph 0 included
              THEN [m EXCEPT !.i = i, !.pairs = Merge(m.pairs, s.pairs \cup {<<c, 0>> : c \in s.zeros})]
         ELSE IF "BadFormatAsserts" \in dev THEN [m EXCEPT !.err = "AssertionError", !.pc = "done"]
         ELSE [m EXCEPT !.i = i]
\* what create_unicode_map hands out: the pairs with a glyph, or CMapNotFound when there is none
Result(m) == IF m.err # "none" THEN [err |-> m.err, pairs |-> {}]
             ELSE IF NonZero(m.pairs) = {} THEN [err |-> "CMapNotFound", pairs |-> {}]
             ELSE [err |-> "none", pairs |-> NonZero(m.pairs)]
RefResult(cs) == IF RefPairs(cs) = {} THEN [err |-> "CMapNotFound", pairs |-> {}] ELSE [err |-> "none", pairs |-> RefPairs(cs)]

\* the whole run as a function (used to tell which deviation changes a result, and by the trace specification)
RECURSIVE RunAll(_, _, _)
RunAll(m, cs, dev) == IF m.pc = "done" THEN m ELSE RunAll(Step(m, cs, dev), cs, dev)
\* format 4, one character: the LAST segment containing c decides (every segment is written out in turn)
MachGlyph4(cs, c, dev) ==
  LET I == {i \in 1..Len(cs.segs) : cs.segs[i].sc <= c /\ c <= cs.segs[i].ec} IN
  IF I = {} THEN -1
  ELSE LET i == SetMax(I)  s == cs.segs[i]  base == IF "F4RangeBase" \in dev THEN 0 ELSE i - 1 IN
       IF s.idr = 0 THEN Mod16(c + s.idd)
       ELSE IF ~InMem4(cs, base + s.idr \div 2 + (c - s.sc)) THEN -2
       ELSE LET g == Word4(cs, base + s.idr \div 2 + (c - s.sc)) IN
            IF g = 0 /\ "F4ZeroDelta" \notin dev THEN 0 ELSE Mod16(g + s.idd)
=============================================================================
