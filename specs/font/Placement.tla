----------------------------- MODULE Placement -----------------------------
(***************************************************************************)
(* Composite fonts, property C07: where the glyphs of a shown CID string   *)
(* go (pdfdevice.PDFTextDevice.render_string_horizontal / _vertical with   *)
(* PDFCIDFont.char_width / char_disp), in thousandths of the font size.    *)
(*   horizontal (WMode 0): glyph i sits at x0 + sum of w0 of the glyphs    *)
(*       before it; w0 = W entry or DW                                     *)
(*   vertical (WMode 1): glyph i sits at y0 + sum of w1y of the glyphs     *)
(*       before it (w1y is negative: downwards), x unchanged; w1y and the  *)
(*       position vector (vx, vy) come from the W2 entry, else w1y=DW2[1], *)
(*       vy = DW2[0] and no explicit vx ("half": half the glyph width)     *)
(* Machine: AShow - one render_char call: record origin/advance/disp, move *)
(* the pen.  Reference: closed-form sums.  Invariant: PlacementRef         *)
(* (VerticalPlacement for mode "V").  ISO 32000-1 9.7.4.3, 9.4.4.          *)
(***************************************************************************)
EXTENDS Integers, Sequences, FiniteSets, TLC, Json

CONSTANTS Setups,    \* records [mode |-> "H"|"V", tab |-> [cid -> tuple or <<>>], dw |-> default tuple, id |-> name]
          ShowCids,  \* CIDs that may be shown
          MaxShow

NoW == <<>>
Met(su, c) == IF c \in DOMAIN su.tab /\ su.tab[c] # NoW THEN su.tab[c] ELSE su.dw
Adv(su, c) == Met(su, c)[1]
Disp(su, c) == IF su.mode = "H" THEN <<0, 0>> ELSE <<Met(su, c)[2], Met(su, c)[3]>>
RECURSIVE Sum(_, _, _)
Sum(su, cids, n) == IF n = 0 THEN 0 ELSE Sum(su, cids, n - 1) + Adv(su, cids[n])

VARIABLES su, cids, pen, glyphs
vars == <<su, cids, pen, glyphs>>
Init == su \in Setups /\ cids = <<>> /\ pen = 0 /\ glyphs = <<>>
AShow == /\ Len(cids) < MaxShow
         /\ \E c \in ShowCids :
              /\ cids' = Append(cids, c)
              /\ glyphs' = Append(glyphs, [at |-> pen, adv |-> Adv(su, c), disp |-> Disp(su, c)])
              /\ pen' = pen + Adv(su, c)
         /\ UNCHANGED su
Next == AShow
Spec == Init /\ [][Next]_vars

PlacementRef == /\ Len(glyphs) = Len(cids)
                /\ \A i \in 1..Len(cids) : /\ glyphs[i].at = Sum(su, cids, i - 1)
                                           /\ glyphs[i].adv = Adv(su, cids[i])
                                           /\ glyphs[i].disp = Disp(su, cids[i])
                /\ pen = Sum(su, cids, Len(cids))
VerticalPlacement == su.mode = "V" => PlacementRef
Emit == Len(cids) > 0 => PrintT("@@" \o ToJson([id |-> su.id, mode |-> su.mode, cids |-> cids, g |-> glyphs]))
=============================================================================
