----------------------------- MODULE Placement -----------------------------
(***************************************************************************)
(* Composite fonts, property C07: where the glyphs of a shown CID string   *)
(* go (pdfdevice.PDFTextDevice.render_string_horizontal / _vertical with   *)
(* PDFCIDFont.char_width / char_disp), in thousandths of the font size.    *)
(*   horizontal (WMode 0): glyph i sits at x0 + sum of w0 of the glyphs    *)
(*       before it; w0 = W entry or DW                                     *)
(*   vertical (WMode 1): glyph i sits at y0 + sum of w1y of the glyphs     *)
(*       before it (w1y is negative: downwards), x unchanged; w1y and the  *)
(*       position vector (vx, vy) come from the W2 entry, else w1y=DW2[1], *)
(*       vy = DW2[0] and no explicit vx ("half": half the glyph width)     *)
(* Machine: AShow - one render_char call: record origin/advance/disp, move *)
(* the pen - with the text-state parameters Tc, Tw, Tz (Ts in the          *)
(* realisation): two copies, intended and as coded.  Reference: closed     *)
(* forms of 9.4.4.  Invariants: PlacementRef (VerticalPlacement for mode   *)
(* "V"), DevLocal.  ISO 32000-1 9.7.4.3, 9.4.4.                            *)
(***************************************************************************)
EXTENDS Integers, Sequences, FiniteSets, TLC, Json

CONSTANTS Setups,    \* records [id, mode |-> "H"|"V", tab |-> [cid -> tuple or <<>>], dw |-> default tuple,
                     \*          tc, tw |-> character / word spacing (thousandths of the font size), sc |-> Tz / 100]
          ShowCids,  \* CIDs that may be shown (32 among them: the CID a word-spacing rule could mistake for a space)
          MaxShow,
          Dev

NoW == <<>>
Met(su, c) == IF c \in DOMAIN su.tab /\ su.tab[c] # NoW THEN su.tab[c] ELSE su.dw
Adv(su, c) == Met(su, c)[1]
Disp(su, c) == IF su.mode = "H" THEN <<0, 0>> ELSE <<Met(su, c)[2], Met(su, c)[3]>>

\* Reference, ISO 32000-1 9.4.4 (one shown string, no TJ adjustments):
\*   horizontal  tx = (w0 * Tfs + Tc + Tw) * Th        vertical  ty = w1 * Tfs + Tc + Tw      (Th does not enter)
\* and "word spacing shall be applied to every occurrence of the single-byte character code 32 ... it shall not apply to
\* occurrences of the byte value 32 in multiple-byte codes": the codes of these fonts are two bytes long, so Tw never
\* applies - whatever the CID is.  Text rise (Ts) moves no origin and changes no advance.
RefScale(su) == IF su.mode = "H" THEN su.sc ELSE 1
RefStep(su, c) == (Adv(su, c) + su.tc) * RefScale(su)
RECURSIVE RefAt(_, _, _)
RefAt(su, cids, n) == IF n = 0 THEN 0 ELSE RefAt(su, cids, n - 1) + RefStep(su, cids[n])

\* Machine: PDFTextDevice.render_string + render_string_horizontal / _vertical + LTChar.adv.
\*   scaling = Tz/100 ; charspace = Tc * scaling ; wordspace = 0 for a multi-byte font ; per glyph: the pen first moves
\*   by charspace (not before the first glyph), the glyph is placed, the pen moves by adv = w * Tfs * scaling
\* Deviation "VerticalTzScales": the vertical branch uses the same scaling (intended: none in vertical mode).
Scale(su, dev) == IF su.mode = "H" \/ "VerticalTzScales" \in dev THEN su.sc ELSE 1

VARIABLES su, cids, pen, glyphs, penc, glyphsc
vars == <<su, cids, pen, glyphs, penc, glyphsc>>
Init == su \in Setups /\ cids = <<>> /\ pen = 0 /\ glyphs = <<>> /\ penc = 0 /\ glyphsc = <<>>
Place(p, first, c, dev) == LET at == IF first THEN p ELSE p + su.tc * Scale(su, dev) IN
                           [g |-> [at |-> at, adv |-> Adv(su, c) * Scale(su, dev), disp |-> Disp(su, c)],
                            pen |-> at + Adv(su, c) * Scale(su, dev)]
AShow == /\ Len(cids) < MaxShow
         /\ \E c \in ShowCids :
              /\ cids' = Append(cids, c)
              /\ glyphs' = Append(glyphs, Place(pen, cids = <<>>, c, {}).g)
              /\ pen' = Place(pen, cids = <<>>, c, {}).pen
              /\ glyphsc' = Append(glyphsc, Place(penc, cids = <<>>, c, Dev).g)
              /\ penc' = Place(penc, cids = <<>>, c, Dev).pen
         /\ UNCHANGED su
Next == AShow
Spec == Init /\ [][Next]_vars

PlacementRef == /\ Len(glyphs) = Len(cids)
                /\ \A i \in 1..Len(cids) : /\ glyphs[i].at = RefAt(su, cids, i - 1)
                                           /\ glyphs[i].adv = Adv(su, cids[i]) * RefScale(su)
                                           /\ glyphs[i].disp = Disp(su, cids[i])
VerticalPlacement == su.mode = "V" => PlacementRef
DevLocal == glyphsc # glyphs => su.mode = "V" /\ su.sc # 1 /\ "VerticalTzScales" \in Dev
Emit == Len(cids) > 0 => PrintT("@@" \o ToJson([id |-> su.id, mode |-> su.mode, cids |-> cids, g |-> glyphs, gc |-> glyphsc]))
=============================================================================
