CONSTANTS
  Codes <- MCCodes
  Specs <- MCSpecs
  MaxFonts = 3
  Dev <- NoDev
SPECIFICATION Spec
INVARIANT SharedUnchanged
INVARIANT Isolated
PROPERTY Frame
CHECK_DEADLOCK FALSE
