----------------------------- MODULE CMapParse -----------------------------
(***************************************************************************)
(* Composite fonts, property C07, part (ii): the ToUnicode CMap sections   *)
(* as cmapdb.CMapParser.do_keyword + FileUnicodeMap.add_cid2unichr read    *)
(* them: beginbfchar, beginbfrange in increment form (the target's last    *)
(* bytes are incremented, with carry out of the last byte) and in array    *)
(* form, multi-character UTF-16BE targets, begincmap / endcmap.            *)
(*                                                                         *)
(* A ToUnicode CMap is a sequence of entries over a two-byte code space    *)
(* (codes are integers: nunpack of the source bytes):                      *)
(*   [t |-> "bfchar",  lo, tgt]            <lo> <tgt>                      *)
(*   [t |-> "bfrange", lo, hi, tgt]        <lo> <hi> <tgt>                 *)
(*   [t |-> "bfrarr",  lo, hi, arr]        <lo> <hi> [<t1> <t2> ..]        *)
(*   [t |-> "endcmap"], [t |-> "begincmap"]                                *)
(*   [t |-> "junkchar", lo] / [t |-> "junkrange", lo, hi]   sections with  *)
(*       an incomplete operand group (<lo> alone / <lo> <hi> without a     *)
(*       target): tolerated, the incomplete group defines nothing          *)
(* Targets are byte strings (UTF-16BE); turning bytes into text is left to *)
(* the platform codec on both sides.                                       *)
(*                                                                         *)
(* Machine (one action per section end, as in do_keyword): ABfChar,        *)
(* ABfRange (numeric: nunpack of the last <= 4 bytes, + i, packed back to  *)
(* the same width), ABfRangeArray (zip of the code range with the array),  *)
(* AEndCMap / ABeginCMap (the _in_cmap flag; sections after endcmap are    *)
(* ignored).  Later definitions overwrite earlier ones.                    *)
(* Reference (ISO 32000-1 9.10.3, Adobe TN 5014/5411): RefMap - for each   *)
(* code the LAST active entry that covers it; increment form by byte-wise  *)
(* increment with carry (IncBytes), independent of the numeric route.      *)
(* Invariant ToUnicodeRef: map = RefMap(entries read so far), in every     *)
(* state (every prefix of every entry sequence up to MaxEnt).              *)
(* The EMPTY target (<lo> <>, [<>], <lo> <lo> <>) is an entry: the code     *)
(* has the empty text.                                                     *)
(* Not modelled: the "U+00A0 does not overwrite a space" special case of   *)
(* add_cid2unichr (targets here are never U+00A0), glyph-name targets,     *)
(* cidrange/cidchar sections, one-byte source codes.                       *)
(***************************************************************************)
EXTENDS Integers, Sequences, FiniteSets, TLC, Json

CONSTANTS Entries,    \* the entry alphabet
          MaxEnt,     \* longest entry sequence
          CidDom,     \* the codes whose mapping is observed
          Dev         \* deviations in force: "EmptyIncrementBase" - the increment form of bfrange with an EMPTY target
                      \* (<lo> <lo> <>) yields four zero bytes instead of the empty string (code[-4:] of b"" has length 0
                      \* and struct.pack(">L", ..)[-0:] is the whole four-byte string)

Max(S) == CHOOSE x \in S : \A y \in S : y <= x
Min2(a, b) == IF a < b THEN a ELSE b
Take(s, n) == SubSeq(s, 1, n)
Drop(s, n) == SubSeq(s, n + 1, Len(s))
Undef == <<-1>>        \* no entry (the EMPTY target <<>> is an entry: the code has the empty text)

\* ------------------------------------------------------------------ reference
\* add one to a big-endian byte string, carrying; overflow of the whole string wraps (not exercised)
RECURSIVE IncBytes(_)
IncBytes(bs) == IF bs = <<>> THEN <<>>
                ELSE IF bs[Len(bs)] < 255 THEN [bs EXCEPT ![Len(bs)] = @ + 1]
                ELSE Append(IncBytes(Take(bs, Len(bs) - 1)), 0)
RECURSIVE IncN(_, _)
IncN(bs, n) == IF n = 0 THEN bs ELSE IncN(IncBytes(bs), n - 1)

Active(es, j) == LET M == {i \in 1..(j - 1) : es[i].t \in {"endcmap", "begincmap"}} IN
                 M = {} \/ es[Max(M)].t = "begincmap"
Covers(e, c) == CASE e.t = "bfchar" -> c = e.lo
                  [] e.t = "bfrange" -> e.lo <= c /\ c <= e.hi
                  [] e.t = "bfrarr" -> e.lo <= c /\ c <= e.hi /\ c - e.lo + 1 <= Len(e.arr)
                  [] OTHER -> FALSE
ValueAt(e, c) == CASE e.t = "bfchar" -> e.tgt
                   [] e.t = "bfrange" -> IncN(e.tgt, c - e.lo)
                   [] e.t = "bfrarr" -> e.arr[c - e.lo + 1]
RefMap(es) == [c \in CidDom |->
                LET J == {j \in 1..Len(es) : Active(es, j) /\ Covers(es[j], c)} IN
                IF J = {} THEN Undef ELSE ValueAt(es[Max(J)], c)]

\* ------------------------------------------------------------------ machine
RECURSIVE Unpack(_)
Unpack(bs) == IF bs = <<>> THEN 0 ELSE Unpack(Take(bs, Len(bs) - 1)) * 256 + bs[Len(bs)]
RECURSIVE Pack(_, _)
Pack(v, n) == IF n = 0 THEN <<>> ELSE Append(Pack(v \div 256, n - 1), v % 256)     \* low n bytes, big-endian
\* code[-4:] numeric, + i, struct.pack(">L")[-vlen:]   - computed on two 16-bit limbs (TLC integers are 32 bits wide)
Pow256(n) == IF n = 0 THEN 1 ELSE IF n = 1 THEN 256 ELSE 65536
AddVar(var, i) == LET n == Len(var) IN
                  IF n <= 2 THEN Pack((Unpack(var) + i) % Pow256(n), n)
                  ELSE LET lo == Unpack(SubSeq(var, n - 1, n)) + i
                           hi == (Unpack(SubSeq(var, 1, n - 2)) + lo \div 65536) % Pow256(n - 2) IN
                       Pack(hi, n - 2) \o Pack(lo % 65536, 2)
PackAdd(tgt, i, dev) == LET vlen == Min2(4, Len(tgt))
                            pre == Take(tgt, Len(tgt) - vlen)
                            var == Drop(tgt, Len(tgt) - vlen) IN
                        IF tgt = <<>> THEN (IF "EmptyIncrementBase" \in dev THEN Pack(i, 4) ELSE <<>>)
                        ELSE pre \o AddVar(var, i)

Put(m, c, v) == IF c \in CidDom THEN [m EXCEPT ![c] = v] ELSE m
RECURSIVE PutRange(_, _, _, _, _)
PutRange(m, e, i, n, dev) == IF i >= n THEN m ELSE PutRange(Put(m, e.lo + i, PackAdd(e.tgt, i, dev)), e, i + 1, n, dev)
RECURSIVE PutArr(_, _, _, _)
PutArr(m, e, i, n) == IF i >= n THEN m ELSE PutArr(Put(m, e.lo + i, e.arr[i + 1]), e, i + 1, n)

S0 == [map |-> [c \in CidDom |-> Undef], incmap |-> TRUE]
Apply(s, e, dev) ==
  CASE e.t = "begincmap" -> [s EXCEPT !.incmap = TRUE]
    [] e.t = "endcmap" -> [s EXCEPT !.incmap = FALSE]
    [] e.t \in {"junkchar", "junkrange"} -> s          \* choplist drops the incomplete group
    [] ~s.incmap -> s
    [] e.t = "bfchar" -> [s EXCEPT !.map = Put(s.map, e.lo, e.tgt)]
    [] e.t = "bfrange" -> [s EXCEPT !.map = PutRange(s.map, e, 0, e.hi - e.lo + 1, dev)]
    [] e.t = "bfrarr" -> [s EXCEPT !.map = PutArr(s.map, e, 0, Min2(e.hi - e.lo + 1, Len(e.arr)))]

VARIABLES ents, st, stc          \* st: the intended machine, stc: as coded (Dev)
vars == <<ents, st, stc>>
Init == ents = <<>> /\ st = S0 /\ stc = S0
Read(e) == Len(ents) < MaxEnt /\ ents' = Append(ents, e) /\ st' = Apply(st, e, {}) /\ stc' = Apply(stc, e, Dev)
ABfChar == Len(ents) < MaxEnt /\ \E e \in Entries : e.t = "bfchar" /\ Read(e)
ABfRange == Len(ents) < MaxEnt /\ \E e \in Entries : e.t = "bfrange" /\ Read(e)
ABfRangeArray == Len(ents) < MaxEnt /\ \E e \in Entries : e.t = "bfrarr" /\ Read(e)
AJunk == Len(ents) < MaxEnt /\ \E e \in Entries : e.t \in {"junkchar", "junkrange"} /\ Read(e)
AEndCMap == Len(ents) < MaxEnt /\ \E e \in Entries : e.t = "endcmap" /\ Read(e)
ABeginCMap == Len(ents) < MaxEnt /\ \E e \in Entries : e.t = "begincmap" /\ Read(e)
Next == ABfChar \/ ABfRange \/ ABfRangeArray \/ AJunk \/ AEndCMap \/ ABeginCMap
Spec == Init /\ [][Next]_vars

ToUnicodeRef == st.map = RefMap(ents)
\* the numeric route of the code and the byte-wise reading of the standard agree on every increment used
IncrementAgrees == \A j \in 1..Len(ents) : ents[j].t = "bfrange" =>
                     \A i \in 0..(ents[j].hi - ents[j].lo) : PackAdd(ents[j].tgt, i, {}) = IncN(ents[j].tgt, i)
EvenTargets == \A c \in CidDom : st.map[c] = Undef \/ Len(st.map[c]) % 2 = 0
DevLocal == stc # st => "EmptyIncrementBase" \in Dev /\ \E j \in 1..Len(ents) : ents[j].t = "bfrange" /\ ents[j].tgt = <<>>
AsCodedRef == stc.map = RefMap(ents)       \* NOT expected to hold while Dev is non-empty

Emit == PrintT("@@" \o ToJson([e |-> ents, m |-> [c \in CidDom |-> <<c, st.map[c]>>], mc |-> [c \in CidDom |-> <<c, stc.map[c]>>]]))
=============================================================================
