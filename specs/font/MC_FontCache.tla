---- MODULE MC_FontCache ----
EXTENDS FontCache
MCNames == {"F1", "F2"}
MCObjs == {"o5", "o6"}
MCInlines == {"iA", "iB"}
\* o5 and iA carry specification A, o6 and iB specification B (so an inline font equal to a cached one is distinguishable
\* only by where it came from, and two objects are distinguishable by what they show)
MCSpecOf(s) == IF s \in {"o5", "iA"} THEN "A" ELSE "B"
====
