----------------------------- MODULE AffineLaws -----------------------------
(***************************************************************************)
(* C20, first half: the algebraic laws of the matrix helpers as a machine. *)
(*                                                                         *)
(* A behaviour picks a law and its inputs (Init), then performs the        *)
(* helper calls of that law's program one at a time - one named action per *)
(* helper of utils.py (AMult, ATranslate, AApplyPt, AApplyNorm,            *)
(* AApplyRect) - storing each result under a name in env.  The terminal    *)
(* state (all calls done) is printed and replayed call by call on the real *)
(* helpers.                                                                *)
(*                                                                         *)
(* Invariants: MatchesRef (every computed value equals the ISO 32000-1     *)
(* 3x3-matrix reference of Affine.tla) and LawHolds (the law relating the  *)
(* computed values).                                                       *)
(***************************************************************************)
EXTENDS Affine, TLC, Json

CONSTANTS Laws,        \* subset of {"unit","assoc","compose","translate","norm","rect"}
          MatsUnit, MatsA, MatsB, MatsC,      \* unit: m ; assoc: a, b, c
          MatsP1, MatsP0, Pts,                \* compose: m1, m0, p
          MatsT, Vecs, PtsT,                  \* translate: m, v, p
          MatsN, VecsN,                       \* norm: m, v
          MatsR, Rects                        \* rect: m, r

VARIABLES law, env, pc
vars == <<law, env, pc>>

C(fn, x, y, out) == [fn |-> fn, x |-> x, y |-> y, out |-> out]

Prog(l) ==
  CASE l = "unit"      -> <<C("mult", "I", "m", "l"), C("mult", "m", "I", "r")>>
    [] l = "assoc"     -> <<C("mult", "a", "b", "ab"), C("mult", "ab", "c", "x"),
                            C("mult", "b", "c", "bc"), C("mult", "a", "bc", "y")>>
    [] l = "compose"   -> <<C("mult", "m1", "m0", "m"),
                            C("pt", "m1", "p", "q"), C("pt", "m0", "q", "x"), C("pt", "m", "p", "y"),
                            C("norm", "m1", "p", "nq"), C("norm", "m0", "nq", "nx"), C("norm", "m", "p", "ny")>>
    [] l = "translate" -> <<C("translate", "m", "v", "t"), C("mult", "T", "m", "t2"),
                            C("pt", "t", "p", "x"), C("pt", "m", "pv", "y"),
                            C("pt", "t", "O", "o1"), C("pt", "m", "v", "o2")>>
    [] l = "norm"      -> <<C("norm", "m", "v", "n"), C("pt", "m", "v", "a"), C("pt", "m", "O", "o")>>
    [] l = "rect"      -> <<C("rect", "m", "r", "h"), C("pt", "m", "c1", "k1"), C("pt", "m", "c2", "k2"),
                            C("pt", "m", "c3", "k3"), C("pt", "m", "c4", "k4")>>

Env0(l) ==
  CASE l = "unit"      -> {[m |-> m, I |-> Id] : m \in MatsUnit}
    [] l = "assoc"     -> {[a |-> a, b |-> b, c |-> c] : a \in MatsA, b \in MatsB, c \in MatsC}
    [] l = "compose"   -> {[m1 |-> m1, m0 |-> m0, p |-> p] : m1 \in MatsP1, m0 \in MatsP0, p \in Pts}
    [] l = "translate" -> {[m |-> m, v |-> v, p |-> p, pv |-> <<p[1] + v[1], p[2] + v[2]>>,
                            T |-> TransM(v), O |-> Origin] : m \in MatsT, v \in Vecs, p \in PtsT}
    [] l = "norm"      -> {[m |-> m, v |-> v, O |-> Origin] : m \in MatsN, v \in VecsN}
    [] l = "rect"      -> {[m |-> m, r |-> r, c1 |-> <<r[1], r[2]>>, c2 |-> <<r[3], r[2]>>,
                            c3 |-> <<r[3], r[4]>>, c4 |-> <<r[1], r[4]>>] : m \in MatsR, r \in Rects}

Init == /\ law \in Laws
        /\ env \in Env0(law)
        /\ pc = 1

Done == pc > Len(Prog(law))

\* one call of helper fn: the next call of the program, evaluated as the code evaluates it
Call(fn) ==
  /\ ~Done
  /\ LET c == Prog(law)[pc] IN
       /\ c.fn = fn
       /\ env' = [n \in DOMAIN env \cup {c.out} |->
                     IF n = c.out THEN Eval(fn, env[c.x], env[c.y]) ELSE env[n]]
  /\ pc' = pc + 1
  /\ UNCHANGED law

NextFn == IF Done THEN "none" ELSE Prog(law)[pc].fn

AMult      == NextFn = "mult"      /\ Call("mult")
ATranslate == NextFn = "translate" /\ Call("translate")
AApplyPt   == NextFn = "pt"        /\ Call("pt")
AApplyNorm == NextFn = "norm"      /\ Call("norm")
AApplyRect == NextFn = "rect"      /\ Call("rect")

Next == AMult \/ ATranslate \/ AApplyPt \/ AApplyNorm \/ AApplyRect
Spec == Init /\ [][Next]_vars

\* ------------------------------------------------------------------ C20 (helpers)
\* every value computed so far is the one the 3x3 homogeneous-matrix semantics gives
MatchesRef ==
  \A k \in 1..(pc - 1) :
     LET c == Prog(law)[k] IN env[c.out] = Ref(c.fn, env[c.x], env[c.y])

\* products of affine matrices stay affine (third column 0 0 1), so UnH loses nothing
StaysAffine ==
  \A k \in 1..(pc - 1) :
     LET c == Prog(law)[k] IN
       c.fn = "mult" => IsAffineH(MatMul(H(env[c.x]), H(env[c.y])))

Sub(u, w) == <<u[1] - w[1], u[2] - w[2]>>

LawHolds ==
  Done =>
    CASE law = "unit"      -> env["l"] = env["m"] /\ env["r"] = env["m"]          \* identity is a two-sided unit
      [] law = "assoc"     -> env["x"] = env["y"]                                \* (a b) c = a (b c)
      [] law = "compose"   -> /\ env["x"] = env["y"]                             \* composed = factors in turn
                              /\ env["nx"] = env["ny"]                           \* ... for directions as well
      [] law = "translate" -> /\ env["t"] = env["t2"]                            \* = (translate by v) then m
                              /\ env["x"] = env["y"]                             \* t(p) = m(p + v)
                              /\ env["o1"] = env["o2"]                           \* origin of t is m(v)
      [] law = "norm"      -> env["n"] = Sub(env["a"], env["o"])                 \* as its docstring says
      [] law = "rect"      -> HullTight(env["h"], {env["k1"], env["k2"], env["k3"], env["k4"]})

\* terminal states are printed for the replay into the real helpers
EmitTerminal == Done => PrintT("@@" \o ToJson([law |-> law, env |-> env]))
=============================================================================
