----------------------------- MODULE PlaneTrace -----------------------------
(***************************************************************************)
(* Trace validation for the spatial index (binding B).  A trace is the     *)
(* sequence of calls made on one real utils.Plane instance - by the layout *)
(* analysis of a real page, or by a long random workload at the default    *)
(* grid size 50 - with arguments and results as recorded by the wrappers   *)
(* in harness/observe/geomrun.py:                                          *)
(*   [origin, u, g, pb, ev: <<[op, o, b, r, n, cf, ct], ...>>]             *)
(*   op "add"/"remove": object id o with box b; n = len(plane) afterwards  *)
(*   op "xremove": a remove() that raised (the object is not in the index) *)
(*   op "find": query b, r = ids returned ; "iter": r = ids ; "len": n     *)
(* u > 0: coordinates are exact integers in units of 1/u and the cell      *)
(*        ranges are computed here (CellRange);                            *)
(* u = 0: the page's coordinates are arbitrary binary64 numbers; they are  *)
(*        replaced by their ranks (all predicates of the index are order   *)
(*        comparisons) and the two cell ranges of each box - cf with       *)
(*        floor, ct with int() - are arithmetic facts recomputed by the    *)
(*        harness with exact fractions.                                    *)
(* The machines `ideal` and `impl` of PlaneOps are stepped by every        *)
(* mutating call; every recorded answer must be the answer of `impl`       *)
(* (binding) and must satisfy the C20 predicates against the brute-force   *)
(* reference over the registered boxes (property), except where a          *)
(* switched-on deviation applies; those places are counted (miss, missi).   *)
(* A rejected trace is a deadlock whose last state names trace t and the   *)
(* index k of the last explained event.                                    *)
(***************************************************************************)
EXTENDS PlaneOps, TLC, Json, IOUtils

CONSTANTS Dev

Traces == JsonDeserialize(IOEnv.TRACE_FILE)
N == Len(Traces)

VARIABLES t, k, ideal, impl, reg, gone, dup, readd, miss, missi
vars == <<t, k, ideal, impl, reg, gone, dup, readd, miss, missi>>
\* reg: id -> [b |-> box at the time of add, th |-> its cell range differs between floor and int()]

Init == /\ t = 1 /\ k = 0 /\ ideal = S0 /\ impl = S0 /\ reg = <<>> /\ gone = {}
        /\ dup = FALSE /\ readd = FALSE /\ miss = 0 /\ missi = 0

Cur == Traces[t]
Ev == Cur.ev[k + 1]
More == t <= N /\ k < Len(Cur.ev)

CRI(e) == IF Cur.u > 0 THEN CellRange(e.b, Cur.pb, Cur.u, Cur.g, {}) ELSE e.cf
CRM(e) == IF Cur.u > 0 THEN CellRange(e.b, Cur.pb, Cur.u, Cur.g, Dev)
          ELSE IF "DrangeTrunc" \in Dev THEN e.ct ELSE e.cf
TH(e) == "DrangeTrunc" \in Dev /\ CellSeq(CRI(e)) # CellSeq(CRM(e))
Live == ideal.objs

EvAdd == /\ More /\ Ev.op = "add"
         /\ LET e == Ev IN
              /\ ideal' = Add(ideal, e.o, CellSeq(CRI(e)), {})
              /\ impl' = Add(impl, e.o, CellSeq(CRM(e)), Dev)
              /\ e.n = Cardinality(impl'.objs)
              /\ reg' = [o \in DOMAIN reg \cup {e.o} |-> IF o = e.o THEN [b |-> e.b, th |-> TH(e)] ELSE reg[o]]
              /\ dup' = (dup \/ e.o \in Live)
              /\ readd' = (readd \/ e.o \in gone)
         /\ k' = k + 1 /\ UNCHANGED <<t, gone, miss, missi>>

EvRemove == /\ More /\ Ev.op = "remove"
            /\ LET e == Ev IN
                 /\ e.o \in Live
                 /\ ideal' = Remove(ideal, e.o, CellSeq(CRI(e)), {})
                 /\ impl' = Remove(impl, e.o, CellSeq(CRM(e)), Dev)
                 /\ e.n = Cardinality(impl'.objs)
                 /\ gone' = gone \cup {e.o}
            /\ k' = k + 1 /\ UNCHANGED <<t, reg, dup, readd, miss, missi>>

\* (the checks are the guard of an IF so that TLC evaluates them as one state-level expression; as conjuncts of
\*  the action their quantifiers would be unfolded recursively and overflow the Java stack on long answers)
\* remove() that raised (KeyError: the object is not in the index): nothing may change - the following answers are
\* checked against the unchanged intended index; the index as coded runs its cell loop first (RemoveRejected)
EvRemoveRejected == /\ More /\ Ev.op = "xremove"
                    /\ LET e == Ev IN
                         /\ e.o \notin Live
                         /\ impl' = RemoveRejected(impl, e.o, CellSeq(CRM(e)), Dev)
                         /\ e.n = Cardinality(impl'.objs)
                    /\ k' = k + 1 /\ UNCHANGED <<t, ideal, reg, gone, dup, readd, miss, missi>>

EvFind == /\ More /\ Ev.op = "find"
          /\ LET e == Ev
                 BoxOf == [o \in DOMAIN reg |-> reg[o].b]
                 excusedS == "AddNotIdempotent" \in Dev /\ dup
                 missed == {o \in Live : MustFind(o, e.b, Cur.pb, BoxOf) /\ o \notin Range(e.r)}
                 binding == NoDup(e.r) /\ Range(e.r) = FindSet(impl, e.b, CellSeq(CRM(e)), BoxOf)
                 sound == excusedS \/ Sound(e.r, Live, e.b, BoxOf)                     \* property
                 complete == \A o \in missed : TH(e) \/ reg[o].th                      \* property
             IN IF binding /\ sound /\ complete
                THEN miss' = miss + Cardinality(missed)
                ELSE FALSE
          /\ k' = k + 1 /\ UNCHANGED <<t, ideal, impl, reg, gone, dup, readd, missi>>

EvIter == /\ More /\ Ev.op = "iter"
          /\ Ev.r = IterRes(impl)                                                       \* binding
          /\ \/ Ev.r = IterRes(ideal)                                                   \* property
             \/ ("AddNotIdempotent" \in Dev /\ dup) \/ ("SeqKeepsRemoved" \in Dev /\ readd)
          /\ missi' = missi + (IF Ev.r = IterRes(ideal) THEN 0 ELSE 1)
          /\ k' = k + 1 /\ UNCHANGED <<t, ideal, impl, reg, gone, dup, readd, miss>>

EvLen == /\ More /\ Ev.op = "len"
         /\ Ev.n = Cardinality(impl.objs)
         /\ k' = k + 1 /\ UNCHANGED <<t, ideal, impl, reg, gone, dup, readd, miss, missi>>

EndTrace == /\ t <= N /\ k = Len(Cur.ev)
            /\ PrintT("@@" \o ToJson([t |-> t, miss |-> miss, missi |-> missi, events |-> k]))
            /\ t' = t + 1 /\ k' = 0 /\ ideal' = S0 /\ impl' = S0 /\ reg' = <<>> /\ gone' = {}
            /\ dup' = FALSE /\ readd' = FALSE /\ miss' = 0 /\ missi' = 0

Finished == t > N /\ UNCHANGED vars

Next == EvAdd \/ EvRemove \/ EvRemoveRejected \/ EvFind \/ EvIter \/ EvLen \/ EndTrace \/ Finished
Spec == Init /\ [][Next]_vars

\* evaluated in every state of every trace
LiveAgree == impl.objs = ideal.objs
NoDevNoMiss == Dev = {} => (miss = 0 /\ missi = 0 /\ impl = ideal)
=============================================================================
