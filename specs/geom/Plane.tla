------------------------------- MODULE Plane -------------------------------
(***************************************************************************)
(* C20, second half: every history of insertions and removals on the       *)
(* spatial index utils.Plane, with every query of the setup asked in every *)
(* state.                                                                  *)
(*                                                                         *)
(* Two copies of the machine of PlaneOps run in lock step on the same      *)
(* history: `ideal` (no deviation: the intended index) and `impl` (the     *)
(* deviations Dev of the code switched on).  The declarative reference is  *)
(* brute force over the history (RefLive, RefIter, MayFind, MustFind).     *)
(*   - the C20 invariants must hold of `ideal` without exception;          *)
(*   - of `impl` they must hold wherever no switched-on deviation applies  *)
(*     (the Impl* invariants delimit what each deviation can affect);      *)
(*   - every state is printed and replayed on the real utils.Plane, whose  *)
(*     projected state and answers are compared with both copies.          *)
(* Actions: AAdd, ARemove, ARemoveRejected (the history; the last is a     *)
(* remove() that raises KeyError), AFind, AIter (observations; they         *)
(* leave the index unchanged and only fill `res`).                         *)
(***************************************************************************)
EXTENDS PlaneOps, TLC, Json

CONSTANTS Setups,     \* set of [id, box: <<box,...>>, qs: <<query,...>>, pb: bounds, g: gridsize, u: unit denominator]
          MaxOps,     \* histories of up to MaxOps insertions/removals
          ObsDepth,   \* the observation actions AFind/AIter are taken after histories of up to ObsDepth calls (their
                      \* answers are checked in EVERY state by the state invariants; this only bounds the extra states)
          MaxOdd,     \* how many duplicate adds and rejected calls together per history
          MaxRej,     \* how many rejected calls (remove() of an object that is not in the index) per history
          MaxDup,     \* how many times per history an object that is already in the index may be added again
          Dev         \* deviations of the code modelled as coded

VARIABLES su, hist, ideal, impl, res
vars == <<su, hist, ideal, impl, res>>

Objs == DOMAIN su.box
Cells(b, D) == CellSeq(CellRange(b, su.pb, su.u, su.g, D))

Init == /\ su \in Setups
        /\ hist = <<>>
        /\ ideal = S0 /\ impl = S0
        /\ res = <<>>

RejCount(h) == Cardinality({i \in 1..Len(h) : h[i][1] = "xremove"})
DupCount(h) == Cardinality({i \in 1..Len(h) : h[i][1] = "add" /\ h[i][2] \in RefLive(SubSeq(h, 1, i - 1))})

AddObj(o) == /\ res = <<>> /\ Len(hist) < MaxOps
             /\ o \notin RefLive(hist) \/ (DupCount(hist) < MaxDup /\ DupCount(hist) + RejCount(hist) < MaxOdd)
             /\ hist' = Append(hist, <<"add", o>>)
             /\ ideal' = Add(ideal, o, Cells(su.box[o], {}), {})
             /\ impl' = Add(impl, o, Cells(su.box[o], Dev), Dev)
             /\ UNCHANGED <<su, res>>

RemoveObj(o) == /\ res = <<>> /\ Len(hist) < MaxOps
                /\ o \in RefLive(hist)                 \* removing an absent object raises KeyError: not a history
                /\ hist' = Append(hist, <<"remove", o>>)
                /\ ideal' = Remove(ideal, o, Cells(su.box[o], {}), {})
                /\ impl' = Remove(impl, o, Cells(su.box[o], Dev), Dev)
                /\ UNCHANGED <<su, res>>

\* remove() of an object that was never added or has been removed already: KeyError, and the index - the intended one
\* and the one as coded - must answer every query as before (all state invariants are evaluated after this step too)
RemoveRejectedObj(o) == /\ res = <<>> /\ Len(hist) < MaxOps
                        /\ o \notin RefLive(hist) /\ RejCount(hist) < MaxRej /\ DupCount(hist) + RejCount(hist) < MaxOdd
                        /\ hist' = Append(hist, <<"xremove", o>>)
                        /\ ideal' = ideal
                        /\ impl' = RemoveRejected(impl, o, Cells(su.box[o], Dev), Dev)
                        /\ UNCHANGED <<su, res>>

FI(i) == FindRes(ideal, su.qs[i], Cells(su.qs[i], {}), su.box)
FM(i) == FindRes(impl, su.qs[i], Cells(su.qs[i], Dev), su.box)

FindQuery(i) == /\ res = <<>> /\ Len(hist) <= ObsDepth
                /\ res' = [op |-> "find", q |-> i, ideal |-> FI(i), impl |-> FM(i)]
                /\ UNCHANGED <<su, hist, ideal, impl>>

AIter == /\ res = <<>> /\ Len(hist) <= ObsDepth
         /\ res' = [op |-> "iter", ideal |-> IterRes(ideal), impl |-> IterRes(impl)]
         /\ UNCHANGED <<su, hist, ideal, impl>>

AAdd    == \E o \in Objs : AddObj(o)                 \* Plane.add
ARemove == \E o \in Objs : RemoveObj(o)              \* Plane.remove
ARemoveRejected == \E o \in Objs : RemoveRejectedObj(o)   \* Plane.remove raising KeyError
AFind   == \E i \in DOMAIN su.qs : FindQuery(i)      \* Plane.find

Next == AAdd \/ ARemove \/ ARemoveRejected \/ AFind \/ AIter
Spec == Init /\ [][Next]_vars

\* ------------------------------------------------------------------ C20 (index), intended design
\* (observation states repeat the index of the state they were asked in, so the state predicates are evaluated at rest)
AtRest == res = <<>>
LiveOK == AtRest => ideal.objs = RefLive(hist)
IterInsertionOrder == AtRest => IterRes(ideal) = RefIter(hist)
FindSound == AtRest => \A i \in DOMAIN su.qs : Sound(FI(i), RefLive(hist), su.qs[i], su.box)
FindComplete == AtRest => \A i \in DOMAIN su.qs : Complete(FI(i), RefLive(hist), su.qs[i], su.pb, su.box)
\* every cell list holds exactly the live objects whose (clipped) box reaches the cell, each once
GridCoherent == AtRest =>
  /\ \A c \in DOMAIN ideal.grid : \A i \in 1..Len(ideal.grid[c]) :
        LET o == ideal.grid[c][i] IN o \in ideal.objs /\ c \in Range(Cells(su.box[o], {}))
  /\ \A o \in ideal.objs : \A c \in Range(Cells(su.box[o], {})) :
        c \in DOMAIN ideal.grid /\ Cardinality({i \in 1..Len(ideal.grid[c]) : ideal.grid[c][i] = o}) = 1
\* the recursion-free form of find() used by the trace specification is the same answer
FindSetAgrees == AtRest => \A i \in DOMAIN su.qs :
   /\ NoDup(FI(i)) /\ Range(FI(i)) = FindSet(ideal, su.qs[i], Cells(su.qs[i], {}), su.box)
   /\ NoDup(FM(i)) /\ Range(FM(i)) = FindSet(impl, su.qs[i], Cells(su.qs[i], Dev), su.box)
\* observations do not disturb the index (by construction here; the replay checks it on the code)
ObservationsPure == [][res' # <<>> => (ideal' = ideal /\ impl' = impl)]_vars

\* ------------------------------------------------------------------ the code as written (impl)
\* what each switched-on deviation can affect, and nothing else
DupHit == "AddNotIdempotent" \in Dev /\ HasDupAdd(hist)
ReAddHit == "SeqKeepsRemoved" \in Dev /\ HasReAdd(hist)
TruncHit(b) == "DrangeTrunc" \in Dev /\ Cells(b, Dev) # Cells(b, {})

\* a rejected call leaves the intended index untouched, and the index as coded answers as before
RejectedChangesNothing ==
  [][(Len(hist') > Len(hist) /\ hist'[Len(hist')][1] = "xremove") =>
        /\ ideal' = ideal
        /\ IterRes(impl') = IterRes(impl) /\ impl'.objs = impl.objs
        /\ (~DupHit => \A i \in DOMAIN su.qs :
               FindRes(impl', su.qs[i], Cells(su.qs[i], Dev), su.box) = FindRes(impl, su.qs[i], Cells(su.qs[i], Dev), su.box))]_vars

ImplLive == AtRest => impl.objs = RefLive(hist)
ImplIter == (AtRest /\ ~DupHit /\ ~ReAddHit) => IterRes(impl) = RefIter(hist)
ImplFindSound == (AtRest /\ ~DupHit) => \A i \in DOMAIN su.qs : Sound(FM(i), RefLive(hist), su.qs[i], su.box)
ImplFindComplete == AtRest =>
  \A i \in DOMAIN su.qs : \A o \in RefLive(hist) :
     MustFind(o, su.qs[i], su.pb, su.box) =>
        o \in Range(FM(i)) \/ TruncHit(su.box[o]) \/ TruncHit(su.qs[i])
ImplSameWhenNoDev == (AtRest /\ Dev = {}) => impl = ideal

\* the same predicates without the excuses: TLC must REFUTE these while the deviation is switched on
\* (the harness runs them to show that the specification sees each defect; see notes/C20.md)
StrictImplIter == AtRest => IterRes(impl) = RefIter(hist)
StrictImplFindSound == AtRest => \A i \in DOMAIN su.qs : Sound(FM(i), RefLive(hist), su.qs[i], su.box)
StrictImplFindComplete == AtRest => \A i \in DOMAIN su.qs : Complete(FM(i), RefLive(hist), su.qs[i], su.pb, su.box)

\* ------------------------------------------------------------------ output for the replay
GridPairs(s) == {<<c, s.grid[c]>> : c \in DOMAIN s.grid}
Obs(s, D) == [seq |-> s.seq, objs |-> s.objs, grid |-> GridPairs(s), it |-> IterRes(s),
              f |-> [i \in DOMAIN su.qs |-> FindRes(s, su.qs[i], Cells(su.qs[i], D), su.box)]]
EmitState ==
  res = <<>> =>
    PrintT("@@" \o ToJson([su |-> su, h |-> hist, I |-> Obs(ideal, {}), M |-> Obs(impl, Dev),
                           must |-> [i \in DOMAIN su.qs |-> {o \in RefLive(hist) : MustFind(o, su.qs[i], su.pb, su.box)}],
                           may |-> [i \in DOMAIN su.qs |-> {o \in RefLive(hist) : MayFind(o, su.qs[i], su.box)}],
                           ri |-> RefIter(hist)]))
=============================================================================
