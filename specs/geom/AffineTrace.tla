----------------------------- MODULE AffineTrace -----------------------------
(***************************************************************************)
(* Trace validation for the matrix helpers (binding B): calls of the real  *)
(* mult_matrix / translate_matrix / apply_matrix_pt / apply_matrix_norm /  *)
(* apply_matrix_rect recorded with integral arguments far outside the      *)
(* exhaustive domain (chains of transformations with entries up to a few   *)
(* thousand, and the integral calls made while real sample pages are       *)
(* interpreted).  Each event [fn, x, y, r] must carry the result of the    *)
(* transcribed helper and of the ISO 32000-1 reference of Affine.tla.      *)
(* A chain event [fn |-> "chain", ms, p, r] checks that applying the       *)
(* matrices ms one after the other to p equals applying their product.     *)
(* Rejection = deadlock; the last state names the trace and the event.     *)
(***************************************************************************)
EXTENDS Affine, TLC, Json, IOUtils

Traces == JsonDeserialize(IOEnv.TRACE_FILE)
N == Len(Traces)

VARIABLES t, k
vars == <<t, k>>
Init == t = 1 /\ k = 0
Cur == Traces[t]

RECURSIVE Prod(_)           \* ms[1] first, ..., ms[n] last
Prod(ms) == IF ms = <<>> THEN Id ELSE RefMult(ms[1], Prod(Tail(ms)))
RECURSIVE Thread(_, _)
Thread(ms, p) == IF ms = <<>> THEN p ELSE Thread(Tail(ms), RefApplyPt(ms[1], p))

Call == /\ t <= N /\ k < Len(Cur.ev)
        /\ LET e == Cur.ev[k + 1] IN
             IF e.fn = "chain"
             THEN /\ e.r = Thread(e.ms, e.p)
                  /\ e.r = RefApplyPt(Prod(e.ms), e.p)
                  /\ e.m = Prod(e.ms)
             ELSE /\ e.r = Eval(e.fn, e.x, e.y)
                  /\ e.r = Ref(e.fn, e.x, e.y)
        /\ k' = k + 1 /\ UNCHANGED t
EndTrace == t <= N /\ k = Len(Cur.ev) /\ t' = t + 1 /\ k' = 0
Finished == t > N /\ UNCHANGED vars
Next == Call \/ EndTrace \/ Finished
Spec == Init /\ [][Next]_vars
=============================================================================
