---------------------------- MODULE AffineProofs ----------------------------
(***************************************************************************)
(* Unbounded supplement to C20 (TLC remains the deciding engine): the      *)
(* polynomial laws of the matrix helpers over ALL integers, checked by     *)
(* TLAPS with the SMT back end on the operators of Affine.tla.             *)
(***************************************************************************)
EXTENDS Affine

Mat == Int \X Int \X Int \X Int \X Int \X Int
Pt == Int \X Int

THEOREM UnitLaw == \A m \in Mat : Mult(Id, m) = m /\ Mult(m, Id) = m
  BY DEF Mult, Id, Mat

THEOREM ComposeLaw == \A m1, m0 \in Mat : \A p \in Pt :
                         ApplyPt(Mult(m1, m0), p) = ApplyPt(m0, ApplyPt(m1, p))
  BY DEF Mult, ApplyPt, Mat, Pt

THEOREM NormLaw == \A m \in Mat : \A v \in Pt :
                      ApplyNorm(m, v) = <<ApplyPt(m, v)[1] - ApplyPt(m, Origin)[1], ApplyPt(m, v)[2] - ApplyPt(m, Origin)[2]>>
  BY DEF ApplyNorm, ApplyPt, Origin, Mat, Pt

THEOREM TranslateLaw == \A m \in Mat : \A v \in Pt : Translate(m, v) = Mult(TransM(v), m)
  BY DEF Translate, Mult, TransM, Mat, Pt

THEOREM AssocLaw == \A a, b, c \in Mat : Mult(Mult(a, b), c) = Mult(a, Mult(b, c))
  BY DEF Mult, Mat

THEOREM MultMatchesRef == \A m1, m0 \in Mat : Mult(m1, m0) = RefMult(m1, m0)
  BY DEF Mult, RefMult, H, UnH, MatMul, Mat
=============================================================================
