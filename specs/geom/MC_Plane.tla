---- MODULE MC_Plane ----
EXTENDS Plane, SequencesExt
NoDev == {}

\* ---- histories over four objects; coordinates in halves (u = 2)
\* negatives around the origin, quarter units: cells (-1,-1),(0,0) shared; C lies inside the open unit cell (-1,0)^2
L1 == [id |-> "neg-origin", u |-> 4, g |-> 1, pb |-> <<-8, -8, 8, 8>>,
       box |-> <<<<-2, -2, 2, 2>>, <<-6, -6, -2, -2>>, <<-3, -3, -1, -1>>, <<-2, 0, 6, 6>>>>,
       qs |-> <<<<-4, -4, 0, 0>>, <<-2, -2, -1, -1>>, <<0, 0, 2, 2>>, <<-8, -8, 8, 8>>, <<-12, -12, 12, 12>>,
                <<-2, -6, 0, 6>>, <<0, 0, 0, 0>>, <<-6, -2, -4, 0>>>>]
\* objects across and outside the bounds, on grid lines, grid size 2
L2 == [id |-> "across-outside", u |-> 2, g |-> 2, pb |-> <<0, 0, 8, 8>>,
       box |-> <<<<-2, 2, 2, 6>>, <<-6, -6, -2, -2>>, <<1, 1, 7, 7>>, <<4, 4, 8, 8>>>>,
       qs |-> <<<<0, 0, 8, 8>>, <<-4, -4, 0, 0>>, <<-4, 0, 1, 8>>, <<3, 3, 4, 4>>, <<4, 4, 5, 5>>,
                <<7, 7, 12, 12>>, <<-8, -8, -1, -1>>, <<2, 0, 3, 9>>>>]
\* identical boxes and degenerate boxes (a zero-width line, a point)
L3 == [id |-> "same-degenerate", u |-> 2, g |-> 1, pb |-> <<-2, -2, 6, 6>>,
       box |-> <<<<1, 1, 3, 3>>, <<1, 1, 3, 3>>, <<2, 0, 2, 4>>, <<2, 2, 2, 2>>>>,
       qs |-> <<<<0, 0, 4, 4>>, <<2, 2, 3, 3>>, <<1, 1, 2, 2>>, <<2, 2, 2, 2>>, <<0, 2, 4, 2>>,
                <<-1, -1, 1, 1>>, <<3, 3, 5, 5>>>>]
\* all-negative plane, grid size 2, bounds not on a grid line
L4 == [id |-> "neg-far", u |-> 2, g |-> 2, pb |-> <<-19, -19, 3, 3>>,
       box |-> <<<<-19, -19, -9, -9>>, <<-9, -9, -5, -5>>, <<-5, -1, 1, 1>>, <<-17, -3, 2, -1>>>>,
       qs |-> <<<<-20, -20, 4, 4>>, <<-9, -9, -8, -8>>, <<-7, -3, -5, -1>>, <<-1, -1, 0, 0>>, <<-13, -13, -9, -2>>,
                <<-5, -5, -3, -3>>, <<1, -19, 3, 3>>>>]
\* three objects, halves, bounds at half units
L5 == [id |-> "half-bounds", u |-> 2, g |-> 1, pb |-> <<-5, -5, 3, 3>>,
       box |-> <<<<-3, -3, -1, -1>>, <<-5, -2, -3, 2>>, <<-1, -7, 1, -4>>>>,
       qs |-> <<<<-4, -4, 0, 0>>, <<-2, -2, -1, -1>>, <<-6, -1, -4, 1>>, <<-8, -8, 8, 8>>, <<0, -6, 2, -5>>>>]
SeqQuick == {L1, L2, L3}
SeqFull == {L1, L2, L3, L4, L5}

\* ---- geometry: one object, every box x every query over a product domain
Intervals(S) == {<<lo, hi>> \in S \X S : lo <= hi}
BoxesXY(XI, YI) == {<<x[1], y[1], x[2], y[2]>> : x \in XI, y \in YI}
GeoSetups(name, u, g, pb, XI, YI) ==
  LET B == BoxesXY(XI, YI) \cup BoxesXY(YI, XI) IN
  {[id |-> name, u |-> u, g |-> g, pb |-> pb, box |-> <<b>>, qs |-> SetToSeq({q \in B : (q[2] = b[2] /\ q[4] = b[4]) \/ (q[1] = b[1] /\ q[3] = b[3])})] : b \in B}
Few == {<<-1, 1>>, <<-3, -1>>, <<0, 0>>}
GeoQuick == GeoSetups("geo-h", 2, 1, <<-4, -4, 4, 4>>, Intervals(-5..5), {<<-1, 1>>})
GeoFull == GeoSetups("geo-h", 2, 1, <<-4, -4, 4, 4>>, Intervals(-6..6), Few)
            \cup GeoSetups("geo-g2", 2, 2, <<-7, -5, 5, 6>>, Intervals(-8..7), {<<-3, -1>>, <<0, 3>>})
            \cup GeoSetups("geo-q", 4, 1, <<-6, -6, 6, 6>>, Intervals(-7..7), {<<-3, -1>>})
====
