---- MODULE MC_AffineLaws ----
EXTENDS AffineLaws
\* matrices with linear part over L and translation part over T
MatSet(L, T) == {<<a, b, c, d, e, f>> : a \in L, b \in L, c \in L, d \in L, e \in T, f \in T}
PtSet(S) == {<<x, y>> : x \in S, y \in S}
RectSet(S) == {<<x0, y0, x1, y1>> : x0 \in S, y0 \in S, x1 \in S, y1 \in S}

\* Every helper output is a polynomial of degree <= 1 in each single argument entry (multilinear); so is every
\* law's difference polynomial.  A non-zero multilinear polynomial cannot vanish on a grid with two values per
\* variable, so the two-valued grids below decide the polynomial laws for every multilinear implementation.
Two   == {-1, 2}
Three == {-1, 0, 2}
Five  == -2..2
Gen == {Id, <<0, 1, -1, 0, 0, 0>>, <<2, 0, 0, 3, 0, 0>>, <<1, 0, 0, -1, 0, 5>>, <<1, 2, 0, 1, 0, 0>>,
        <<1, 0, 0, 1, 3, -4>>, <<0, 0, 0, 0, 1, 1>>, <<1, 2, 3, 4, 5, 6>>, <<-2, 1, 1, 2, -3, 7>>,
        <<2, 4, 1, 2, 0, -1>>, <<0, -1, -1, 0, 6, 6>>, <<3, -2, 5, 7, -11, 13>>}

Grid2  == MatSet(Two, Two)          \* 64
Grid3  == MatSet(Three, Three)      \* 729
Lin5   == MatSet(Five, {-1, 0, 3})  \* 5625
Lin3T2 == MatSet(Three, Two)        \* 324
AllLaws == {"unit", "assoc", "compose", "translate", "norm", "rect"}
NoMats == {}

\* quick tier
Q_Unit == Lin3T2 \cup Gen
Q_A == Grid2
Q_B == Gen
Q_C == Gen
Q_P1 == Grid2
Q_P0 == Gen
Q_Pts == PtSet(Two)
Q_T == Grid2 \cup Gen
Q_Vecs == PtSet(Three)
Q_N == Lin3T2 \cup Gen
Q_R == MatSet(Three, {2}) \cup Gen
Q_Rects == RectSet(Three)
\* thorough tier
T_Unit == Lin5 \cup Gen
T_C == Grid2
T_P1 == Grid2 \cup Gen
T_P0 == Lin3T2 \cup Gen
T_T == Grid3 \cup Gen
T_N == Lin5 \cup Gen
T_R == MatSet(Five, {2}) \cup Gen
====
