------------------------------ MODULE PlaneOps ------------------------------
(***************************************************************************)
(* C20, second half: the spatial index utils.Plane as pure operators over  *)
(* a state record [seq, objs, grid], shaped like the code:                 *)
(*    seq   the list  Plane._seq   (objects in the order they were added)  *)
(*    objs  the set   Plane._objs  (live objects)                          *)
(*    grid  the dict  Plane._grid  (cell <<gx,gy>> -> list of objects)     *)
(* one operator per method: Add, Remove, FindRes, IterRes; CellRange is    *)
(* Plane._getrange with utils.drange.                                      *)
(*                                                                         *)
(* Numbers.  A coordinate is an integer h standing for the real h/U (U = 2 *)
(* : halves) so that int()'s truncation is visible; the grid size G is an  *)
(* integer number of whole units, like the code's gridsize.                *)
(*                                                                         *)
(* D is the set of named deviations of the code from the intended design   *)
(* that are switched on (D = {} is the intended index):                    *)
(*  "DrangeTrunc"      drange() uses int(), which rounds towards zero, so  *)
(*                     negative non-integral coordinates land one cell too *)
(*                     high (intended: floor)                              *)
(*  "SeqKeepsRemoved"  remove() leaves the object in _seq; adding it again *)
(*                     makes iteration yield it twice, first at its old    *)
(*                     position (intended: removal forgets the position)   *)
(*  "AddNotIdempotent" add() of an object that is already present appends  *)
(*                     it again to _seq and to every cell list; remove()   *)
(*                     then deletes one occurrence per cell and find()     *)
(*                     keeps returning the removed object (intended: a     *)
(*                     set-like container ignores the second add)          *)
(***************************************************************************)
EXTENDS Integers, Sequences, FiniteSets

Min2(x, y) == IF x <= y THEN x ELSE y
Max2(x, y) == IF x >= y THEN x ELSE y
Range(f) == {f[i] : i \in DOMAIN f}

\* ------------------------------------------------------------------ cells
Trunc(h, U) == IF h >= 0 THEN h \div U ELSE -((-h) \div U)     \* Python int(h/U)
Floor(h, U) == h \div U                                        \* math.floor(h/U)  (\div floors)
ToInt(h, U, D) == IF "DrangeTrunc" \in D THEN Trunc(h, U) ELSE Floor(h, U)

\* utils.drange(v0, v1, d) = range(int(v0) // d, int(v1 + d) // d)   ->  <<lo, hi>> (hi exclusive)
DRange(h0, h1, U, G, D) == <<ToInt(h0, U, D) \div G, ToInt(h1 + G * U, U, D) \div G>>

\* Plane._getrange(bbox): nothing when the box does not properly meet the bounds pb, else the
\* cell ranges of the box clipped to the bounds:  <<gx0, gx1, gy0, gy1>>, gx1/gy1 exclusive
CellRange(b, pb, U, G, D) ==
  IF b[3] <= pb[1] \/ pb[3] <= b[1] \/ b[4] <= pb[2] \/ pb[4] <= b[2]
  THEN <<0, 0, 0, 0>>
  ELSE LET x0 == Max2(pb[1], b[1])  y0 == Max2(pb[2], b[2])
           x1 == Min2(pb[3], b[3])  y1 == Min2(pb[4], b[4])
           xr == DRange(x0, x1, U, G, D)
           yr == DRange(y0, y1, U, G, D)
       IN <<xr[1], xr[2], yr[1], yr[2]>>

\* the cells in the order _getrange yields them: for grid_y ...: for grid_x ...
CellSeq(r) ==
  LET nx == Max2(0, r[2] - r[1])
      ny == Max2(0, r[4] - r[3])
  IN [i \in 1..(nx * ny) |-> <<r[1] + ((i - 1) % nx), r[3] + ((i - 1) \div nx)>>]

\* ------------------------------------------------------------------ state and methods
S0 == [seq |-> <<>>, objs |-> {}, grid |-> <<>>]       \* grid: function with empty domain

\* list.remove(o): the first occurrence; unchanged when absent (the code swallows ValueError)
RemoveFirst(q, o) ==
  IF \E i \in 1..Len(q) : q[i] = o
  THEN LET i == CHOOSE i \in 1..Len(q) : q[i] = o /\ \A j \in 1..(i - 1) : q[j] # o
       IN SubSeq(q, 1, i - 1) \o SubSeq(q, i + 1, Len(q))
  ELSE q

\* Plane.add(o); cs = cell sequence of o's box
Add(s, o, cs, D) ==
  IF "AddNotIdempotent" \notin D /\ o \in s.objs
  THEN s
  ELSE LET cells == Range(cs)  old == DOMAIN s.grid IN
       [seq  |-> Append(s.seq, o),
        objs |-> s.objs \cup {o},
        grid |-> [c \in old \cup cells |->
                    IF c \in cells
                    THEN Append(IF c \in old THEN s.grid[c] ELSE <<>>, o)
                    ELSE s.grid[c]]]

\* Plane.remove(o); cs = cell sequence of o's box (cells the dict does not have are skipped)
Remove(s, o, cs, D) ==
  LET cells == Range(cs) IN
  [seq  |-> IF "SeqKeepsRemoved" \in D THEN s.seq ELSE SelectSeq(s.seq, LAMBDA x : x # o),
   objs |-> s.objs \ {o},
   grid |-> [c \in DOMAIN s.grid |-> IF c \in cells THEN RemoveFirst(s.grid[c], o) ELSE s.grid[c]]]

\* Plane.remove(o) for an object that is not in the index: the loop over the cells runs first (as coded it finds
\* nothing to delete, unless an earlier duplicate add left a stale entry), then `self._objs.remove(obj)` raises KeyError
\* before anything else is touched.  The contract: the call is rejected and the index is what it was.
RemoveRejected(s, o, cs, D) ==
  LET cells == Range(cs) IN
  [s EXCEPT !.grid = [c \in DOMAIN s.grid |-> IF c \in cells THEN RemoveFirst(s.grid[c], o) ELSE s.grid[c]]]

Ov(a, b) == ~(a[3] <= b[1] \/ b[3] <= a[1] \/ a[4] <= b[2] \/ b[4] <= a[2])    \* the filter in find()

RECURSIVE Flat(_, _)         \* candidates in the order find() meets them
Flat(g, cs) == IF cs = <<>> THEN <<>>
               ELSE (IF Head(cs) \in DOMAIN g THEN g[Head(cs)] ELSE <<>>) \o Flat(g, Tail(cs))
RECURSIVE Dedup(_, _)        \* the `done` set
Dedup(q, seen) == IF q = <<>> THEN <<>>
                  ELSE IF Head(q) \in seen THEN Dedup(Tail(q), seen)
                  ELSE <<Head(q)>> \o Dedup(Tail(q), seen \cup {Head(q)})

\* Plane.find(q): box = function object -> box ; cs = cell sequence of the query
FindRes(s, q, cs, box) == SelectSeq(Dedup(Flat(s.grid, cs), {}), LAMBDA o : Ov(box[o], q))
\* the same answer as a set, without recursion (used at real scale by PlaneTrace, where the candidate lists are
\* hundreds long; Plane.tla checks FindSetAgrees: FindRes is a duplicate-free enumeration of FindSet)
CandSet(g, cs) == UNION {Range(g[c]) : c \in Range(cs) \cap DOMAIN g}
FindSet(s, q, cs, box) == {o \in CandSet(s.grid, cs) : Ov(box[o], q)}
\* Plane.__iter__
IterRes(s) == SelectSeq(s.seq, LAMBDA o : o \in s.objs)

\* ------------------------------------------------------------------ reference (brute force over the history)
\* a history is a sequence of <<"add", o>> / <<"remove", o>> / <<"xremove", o>> (a remove() of an object that is not in
\* the index: rejected with KeyError, changes nothing)
RECURSIVE RefLive(_)
RefLive(h) == IF h = <<>> THEN {}
              ELSE LET r == RefLive(SubSeq(h, 1, Len(h) - 1))  op == h[Len(h)]
                   IN IF op[1] = "add" THEN r \cup {op[2]} ELSE r \ {op[2]}

\* step i inserted an object that was not in the index and that stayed in it until the end
IsBirth(h, i) == /\ h[i][1] = "add"
                 /\ h[i][2] \notin RefLive(SubSeq(h, 1, i - 1))
                 /\ \A j \in (i + 1)..Len(h) : h[j] # <<"remove", h[i][2]>>
RECURSIVE BirthsFrom(_, _)
BirthsFrom(h, i) == IF i > Len(h) THEN <<>>
                    ELSE (IF IsBirth(h, i) THEN <<h[i][2]>> ELSE <<>>) \o BirthsFrom(h, i + 1)
RefIter(h) == BirthsFrom(h, 1)                 \* live objects in insertion order, each once

Inter(a, b) == <<Max2(a[1], b[1]), Max2(a[2], b[2]), Min2(a[3], b[3]), Min2(a[4], b[4])>>
\* brute force: o may be returned for q / must be returned for q (the common part of o and q
\* properly meets the index bounds; what overlaps q only outside the bounds is unconstrained)
MayFind(o, q, box) == Ov(box[o], q)
MustFind(o, q, pb, box) == Ov(box[o], q) /\ Ov(Inter(box[o], q), pb)

NoDup(q) == \A i, j \in 1..Len(q) : i # j => q[i] # q[j]
Sound(r, live, q, box) == NoDup(r) /\ \A i \in 1..Len(r) : r[i] \in live /\ MayFind(r[i], q, box)
Complete(r, live, q, pb, box) == \A o \in live : MustFind(o, q, pb, box) => o \in Range(r)

HasDupAdd(h) == \E i \in 1..Len(h) : h[i][1] = "add" /\ h[i][2] \in RefLive(SubSeq(h, 1, i - 1))
HasReAdd(h) == \E i, j \in 1..Len(h) : i < j /\ h[i][1] = "remove" /\ h[j] = <<"add", h[i][2]>>
=============================================================================
