----------------------------- MODULE AffineScaled -----------------------------
(***************************************************************************)
(* C20, helpers, the magnitude dimension.  AffineLaws.tla checks the laws  *)
(* over small integers; here the same laws are checked where intermediate  *)
(* and result components are tiny but not zero, or huge.                   *)
(*                                                                         *)
(* Numbers.  A number is a Laurent polynomial in a formal magnitude symbol *)
(* T with small integer coefficients,                                      *)
(*     x = x[1]*T^-3 + x[2]*T^-2 + x[3]*T^-1 + x[4] + x[5]*T + ... + x[7]*T^3,  *)
(* i.e. a 7-tuple of coefficients, each tagged by its exponent (its index) *)
(* - TLC integers stay far below 2^31 while the value ranges over 10^-18   *)
(* .. 10^18: the replay realises T as the exact fraction 10^6, so inputs   *)
(* are the small integer matrices/points of the generator set scaled by    *)
(* 10^-6, 1, 10^6 (linear part and translation part separately), products  *)
(* of two of them reach 10^-12 / 10^12 and of three 10^-18 / 10^18.        *)
(* Addition is coefficient-wise, multiplication is convolution, order is   *)
(* lexicographic from the highest exponent (sound for T = 10^6 because all *)
(* coefficients stay below 10^5 in magnitude: CoeffsSmall).  A law that    *)
(* holds for the polynomials holds for every value of T.                   *)
(*                                                                         *)
(* The helpers are transcribed once more over this ring (MultS, ...), next *)
(* to the 3x3 homogeneous-matrix reference over the same ring; PlainAgrees *)
(* ties the transcription to Affine.tla on inputs without magnitude.       *)
(* The machine is that of AffineLaws.tla: Init picks a law and its inputs, *)
(* one action per helper call.                                             *)
(***************************************************************************)
EXTENDS Affine, TLC, Json

CONSTANTS Laws,
          Mats, MatsFew, MatsOne,   \* integer matrices <<a,b,c,d,e,f>>; every one is used at every pair of scales
          Pts, Rects,         \* integer points / rectangles; used at every scale
          Scales,             \* exponents of T the inputs are scaled by (a subset of -1..1)
          OffScales,          \* exponents of T for far-away positions in the rect and norm laws (a subset of 2..3)
          RectOffs, Extents   \* integer pairs: where a far-away rectangle sits / how wide and high it is

\* ------------------------------------------------------------------ the number ring
IDX == 1..7
Z == [i \in IDX |-> 0]
Mono(c, k) == [i \in IDX |-> IF i = k + 4 THEN c ELSE 0]              \* c * T^k
One == Mono(1, 0)
NAdd(x, y) == [i \in IDX |-> x[i] + y[i]]
NSub(x, y) == [i \in IDX |-> x[i] - y[i]]
RECURSIVE ConvTo(_, _, _, _)
ConvTo(x, y, i, j) == IF j = 0 THEN 0
                      ELSE (IF (i - j + 4) \in IDX THEN x[j] * y[i - j + 4] ELSE 0) + ConvTo(x, y, i, j - 1)
Fits(x, y) == \A j, l \in IDX : (x[j] # 0 /\ y[l] # 0) => (j + l - 4) \in IDX     \* no term falls off the 7 exponents
NMul(x, y) == IF Fits(x, y) THEN [i \in IDX |-> ConvTo(x, y, i, 7)]
              ELSE Assert(FALSE, "AffineScaled: exponent range exceeded")
\* x < y for T large: the highest exponent at which they differ decides
NLess(x, y) == \E i \in IDX : x[i] < y[i] /\ \A j \in IDX : j > i => x[j] = y[j]
NLeq(x, y) == x = y \/ NLess(x, y)
NMin2(x, y) == IF NLeq(x, y) THEN x ELSE y
NMax2(x, y) == IF NLeq(x, y) THEN y ELSE x
NMin4(p, q, r, s) == NMin2(NMin2(p, q), NMin2(r, s))
NMax4(p, q, r, s) == NMax2(NMax2(p, q), NMax2(r, s))
IsPlain(x) == \A i \in IDX : i # 4 => x[i] = 0

\* ------------------------------------------------------------------ the helpers as coded, over the ring
MultS(m1, m0) ==
  LET a1 == m1[1]  b1 == m1[2]  c1 == m1[3]  d1 == m1[4]  e1 == m1[5]  f1 == m1[6]
      a0 == m0[1]  b0 == m0[2]  c0 == m0[3]  d0 == m0[4]  e0 == m0[5]  f0 == m0[6]
  IN <<NAdd(NMul(a0, a1), NMul(c0, b1)),
       NAdd(NMul(b0, a1), NMul(d0, b1)),
       NAdd(NMul(a0, c1), NMul(c0, d1)),
       NAdd(NMul(b0, c1), NMul(d0, d1)),
       NAdd(NAdd(NMul(a0, e1), NMul(c0, f1)), e0),
       NAdd(NAdd(NMul(b0, e1), NMul(d0, f1)), f0)>>
TranslateS(m, v) ==
  LET a == m[1]  b == m[2]  c == m[3]  d == m[4]  e == m[5]  f == m[6]  x == v[1]  y == v[2]
  IN <<a, b, c, d, NAdd(NAdd(NMul(x, a), NMul(y, c)), e), NAdd(NAdd(NMul(x, b), NMul(y, d)), f)>>
ApplyPtS(m, v) ==
  LET a == m[1]  b == m[2]  c == m[3]  d == m[4]  e == m[5]  f == m[6]  x == v[1]  y == v[2]
  IN <<NAdd(NAdd(NMul(a, x), NMul(c, y)), e), NAdd(NAdd(NMul(b, x), NMul(d, y)), f)>>
ApplyNormS(m, v) ==
  LET a == m[1]  b == m[2]  c == m[3]  d == m[4]  p == v[1]  q == v[2]
  IN <<NAdd(NMul(a, p), NMul(c, q)), NAdd(NMul(b, p), NMul(d, q))>>
ApplyRectS(m, r) ==
  LET lb == ApplyPtS(m, <<r[1], r[2]>>)  rb == ApplyPtS(m, <<r[3], r[2]>>)
      rt == ApplyPtS(m, <<r[3], r[4]>>)  lt == ApplyPtS(m, <<r[1], r[4]>>)
  IN <<NMin4(lb[1], lt[1], rb[1], rt[1]), NMin4(lb[2], rb[2], rt[2], lt[2]),
       NMax4(lb[1], lt[1], rb[1], rt[1]), NMax4(lb[2], rb[2], rt[2], lt[2])>>

\* ------------------------------------------------------------------ reference: ISO 32000-1 8.3.4 over the ring
HS(m) == <<<<m[1], m[2], Z>>, <<m[3], m[4], Z>>, <<m[5], m[6], One>>>>
UnHS(M) == <<M[1][1], M[1][2], M[2][1], M[2][2], M[3][1], M[3][2]>>
MatMulS(A, B) == [i \in 1..3 |-> [j \in 1..3 |->
                    NAdd(NAdd(NMul(A[i][1], B[1][j]), NMul(A[i][2], B[2][j])), NMul(A[i][3], B[3][j]))]]
RowMulS(v, M) == [j \in 1..3 |-> NAdd(NAdd(NMul(v[1], M[1][j]), NMul(v[2], M[2][j])), NMul(v[3], M[3][j]))]
IdS == <<One, Z, Z, One, Z, Z>>
OriginS == <<Z, Z>>
TransMS(v) == <<One, Z, Z, One, v[1], v[2]>>
RefS(fn, x, y) ==
  CASE fn = "mult"      -> UnHS(MatMulS(HS(x), HS(y)))
    [] fn = "translate" -> UnHS(MatMulS(HS(TransMS(y)), HS(x)))
    [] fn = "pt"        -> LET r == RowMulS(<<y[1], y[2], One>>, HS(x)) IN <<r[1], r[2]>>
    [] fn = "norm"      -> LET r == RowMulS(<<y[1], y[2], Z>>, HS(x)) IN <<r[1], r[2]>>
    [] fn = "rect"      -> LET P == {ApplyPtS(x, c) : c \in {<<y[1], y[2]>>, <<y[3], y[2]>>, <<y[3], y[4]>>, <<y[1], y[4]>>}}
                               lo(k) == CHOOSE u \in {p[k] : p \in P} : \A w \in {p[k] : p \in P} : NLeq(u, w)
                               hi(k) == CHOOSE u \in {p[k] : p \in P} : \A w \in {p[k] : p \in P} : NLeq(w, u)
                           IN <<lo(1), lo(2), hi(1), hi(2)>>
EvalS(fn, x, y) == CASE fn = "mult"      -> MultS(x, y)
                     [] fn = "translate" -> TranslateS(x, y)
                     [] fn = "pt"        -> ApplyPtS(x, y)
                     [] fn = "norm"      -> ApplyNormS(x, y)
                     [] fn = "rect"      -> ApplyRectS(x, y)

\* ------------------------------------------------------------------ inputs: integer objects at scales
ScaleMat(m, s, u) == <<Mono(m[1], s), Mono(m[2], s), Mono(m[3], s), Mono(m[4], s), Mono(m[5], u), Mono(m[6], u)>>
ScaleVec(v, s) == [i \in DOMAIN v |-> Mono(v[i], s)]
SMats(B) == {ScaleMat(m, s, u) : m \in B, s \in Scales, u \in Scales}
SPts == {ScaleVec(p, s) : p \in Pts, s \in Scales}
SRects == {ScaleVec(r, s) : r \in Rects, s \in Scales}
\* far away: translations, points and whole rectangles at T^2, T^3 (10^12, 10^18: beyond 2^31, and with a
\* coefficient >= 10 beyond 2^63), so that all four corner images lie on one side of any would-be sentinel; a
\* rectangle is an offset at one magnitude plus an extent at another:  <<X, Y, X + w, Y + h>>
SMatsFar(B) == {ScaleMat(m, s, u) : m \in B, s \in Scales, u \in Scales \cup OffScales}
FarPts == {ScaleVec(p, k) : p \in Pts, k \in OffScales}
FarRects == {<<Mono(o[1], kx), Mono(o[2], ky), NAdd(Mono(o[1], kx), Mono(e[1], se)), NAdd(Mono(o[2], ky), Mono(e[2], se))>> :
               o \in RectOffs, kx \in OffScales, ky \in OffScales, e \in Extents, se \in Scales}
\* every product the helpers form with these arguments stays inside the seven exponents
FitsWith(m, v) == \A i \in 1..4 : \A j \in DOMAIN v : Fits(m[i], v[j])
NegV(v) == <<NSub(Z, v[1]), NSub(Z, v[2])>>

VARIABLES law, env, pc
vars == <<law, env, pc>>
C(fn, x, y, out) == [fn |-> fn, x |-> x, y |-> y, out |-> out]
Prog(l) ==
  CASE l = "unit"      -> <<C("mult", "I", "m", "l"), C("mult", "m", "I", "r")>>
    [] l = "assoc"     -> <<C("mult", "a", "b", "ab"), C("mult", "ab", "c", "x"),
                            C("mult", "b", "c", "bc"), C("mult", "a", "bc", "y")>>
    [] l = "compose"   -> <<C("mult", "m1", "m0", "m"),
                            C("pt", "m1", "p", "q"), C("pt", "m0", "q", "x"), C("pt", "m", "p", "y"),
                            C("norm", "m1", "p", "nq"), C("norm", "m0", "nq", "nx"), C("norm", "m", "p", "ny")>>
    [] l = "translate" -> <<C("translate", "m", "v", "t"), C("mult", "T", "m", "t2"),
                            C("pt", "t", "O", "o1"), C("pt", "m", "v", "o2"),
                            C("translate", "t", "nv", "back")>>           \* there and back again
    [] l = "norm"      -> <<C("norm", "m", "v", "n"), C("pt", "m", "v", "a"), C("pt", "m", "O", "o")>>
    [] l = "rect"      -> <<C("rect", "m", "r", "h"), C("pt", "m", "c1", "k1"), C("pt", "m", "c2", "k2"),
                            C("pt", "m", "c3", "k3"), C("pt", "m", "c4", "k4")>>
Env0(l) ==
  CASE l = "unit"      -> {[m |-> m, I |-> IdS] : m \in SMats(Mats)}
    [] l = "assoc"     -> {[a |-> a, b |-> b, c |-> c] : a \in SMats(Mats), b \in SMats(MatsOne), c \in SMats(MatsFew)}
    [] l = "compose"   -> {[m1 |-> m1, m0 |-> m0, p |-> p] : m1 \in SMats(Mats), m0 \in SMats(MatsOne), p \in SPts}
    [] l = "translate" -> {[m |-> m, v |-> v, nv |-> NegV(v), T |-> TransMS(v), O |-> OriginS] : m \in SMats(Mats), v \in SPts}
    [] l = "norm"      -> {e \in {[m |-> m, v |-> v, O |-> OriginS] : m \in SMatsFar(Mats), v \in SPts \cup FarPts} :
                               FitsWith(e.m, e.v)}
    [] l = "rect"      -> {e \in {[m |-> m, r |-> r, c1 |-> <<r[1], r[2]>>, c2 |-> <<r[3], r[2]>>,
                                    c3 |-> <<r[3], r[4]>>, c4 |-> <<r[1], r[4]>>] :
                                      m \in SMatsFar(Mats), r \in SRects \cup FarRects} : FitsWith(e.m, e.r)}

Init == law \in Laws /\ env \in Env0(law) /\ pc = 1
Done == pc > Len(Prog(law))
NextFn == IF Done THEN "none" ELSE Prog(law)[pc].fn
Call(fn) ==
  /\ ~Done
  /\ LET c == Prog(law)[pc] IN
       /\ c.fn = fn
       /\ env' = [n \in DOMAIN env \cup {c.out} |-> IF n = c.out THEN EvalS(fn, env[c.x], env[c.y]) ELSE env[n]]
  /\ pc' = pc + 1 /\ UNCHANGED law
AMult      == NextFn = "mult"      /\ Call("mult")
ATranslate == NextFn = "translate" /\ Call("translate")
AApplyPt   == NextFn = "pt"        /\ Call("pt")
AApplyNorm == NextFn = "norm"      /\ Call("norm")
AApplyRect == NextFn = "rect"      /\ Call("rect")
Next == AMult \/ ATranslate \/ AApplyPt \/ AApplyNorm \/ AApplyRect
Spec == Init /\ [][Next]_vars

\* ------------------------------------------------------------------ C20 (helpers) at every magnitude
\* (each value is checked in the state right after the call that computed it; it never changes afterwards)
LastCall == IF pc > 1 THEN {pc - 1} ELSE {}
MatchesRef == \A k \in LastCall : LET c == Prog(law)[k] IN env[c.out] = RefS(c.fn, env[c.x], env[c.y])
SubS(u, w) == <<NSub(u[1], w[1]), NSub(u[2], w[2])>>
LawHolds ==
  Done =>
    CASE law = "unit"      -> env["l"] = env["m"] /\ env["r"] = env["m"]
      [] law = "assoc"     -> env["x"] = env["y"]
      [] law = "compose"   -> env["x"] = env["y"] /\ env["nx"] = env["ny"]
      [] law = "translate" -> env["t"] = env["t2"] /\ env["o1"] = env["o2"] /\ env["back"] = env["m"]
      [] law = "norm"      -> env["n"] = SubS(env["a"], env["o"])
      [] law = "rect"      -> LET h == env["h"]  P == {env["k1"], env["k2"], env["k3"], env["k4"]} IN
                                /\ \A p \in P : NLeq(h[1], p[1]) /\ NLeq(p[1], h[3]) /\ NLeq(h[2], p[2]) /\ NLeq(p[2], h[4])
                                /\ \E p \in P : p[1] = h[1]
                                /\ \E p \in P : p[2] = h[2]
                                /\ \E p \in P : p[1] = h[3]
                                /\ \E p \in P : p[2] = h[4]
\* lexicographic order = numeric order for T = 10^6
AllNums == IF pc = 1 THEN UNION {{env[n][i] : i \in DOMAIN env[n]} : n \in DOMAIN env}
           ELSE LET v == env[Prog(law)[pc - 1].out] IN {v[i] : i \in DOMAIN v}
CoeffsSmall == \A x \in AllNums : \A i \in IDX : x[i] > -100000 /\ x[i] < 100000
\* without magnitude the transcription over the ring is the transcription of Affine.tla
Plain(v) == [i \in DOMAIN v |-> v[i][4]]
Embed(v) == [i \in DOMAIN v |-> Mono(v[i], 0)]
PlainAgrees ==
  \A k \in LastCall :
     LET c == Prog(law)[k] IN
       (\A i \in DOMAIN env[c.x] : IsPlain(env[c.x][i])) /\ (\A i \in DOMAIN env[c.y] : IsPlain(env[c.y][i]))
          => env[c.out] = Embed(Eval(c.fn, Plain(env[c.x]), Plain(env[c.y])))

EmitTerminal == Done => PrintT("@@" \o ToJson([law |-> law, env |-> env]))
=============================================================================
