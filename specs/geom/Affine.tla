------------------------------- MODULE Affine -------------------------------
(***************************************************************************)
(* C20, first half: the matrix helpers of pdfminer/utils.py.               *)
(*                                                                         *)
(* A matrix is the 6-tuple <<a,b,c,d,e,f>>, a point <<x,y>>, a rectangle   *)
(* <<x0,y0,x1,y1>>.  All numbers are integers (TLC has no reals); every    *)
(* helper is a polynomial (or min/max of polynomials) in its arguments, so *)
(* the laws below are identities over any commutative ring and the replay  *)
(* exercises the same cases over int, Fraction and float.                  *)
(*                                                                         *)
(* Part 1 transcribes the code, one operator per helper, term by term in   *)
(* the order the code writes them.  Part 2 is the reference semantics from *)
(* ISO 32000-1 8.3.3/8.3.4: a transformation is the 3x3 matrix             *)
(*        | a b 0 |                                                        *)
(*    M = | c d 0 |      [x' y' 1] = [x y 1] x M                           *)
(*        | e f 1 |                                                        *)
(* and "M1 then M0" is the matrix product M1 x M0, written with a generic  *)
(* 3x3 product that knows nothing about the zero/one column.               *)
(***************************************************************************)
EXTENDS Integers, Sequences, FiniteSets

Id == <<1, 0, 0, 1, 0, 0>>
Origin == <<0, 0>>

Min2(x, y) == IF x <= y THEN x ELSE y
Max2(x, y) == IF x >= y THEN x ELSE y
Min4(p, q, r, s) == Min2(Min2(p, q), Min2(r, s))
Max4(p, q, r, s) == Max2(Max2(p, q), Max2(r, s))

\* ------------------------------------------------------------ 1. as coded
\* utils.mult_matrix(m1, m0): "m1 first, then m0"
Mult(m1, m0) ==
  LET a1 == m1[1]  b1 == m1[2]  c1 == m1[3]  d1 == m1[4]  e1 == m1[5]  f1 == m1[6]
      a0 == m0[1]  b0 == m0[2]  c0 == m0[3]  d0 == m0[4]  e0 == m0[5]  f0 == m0[6]
  IN <<a0 * a1 + c0 * b1,
       b0 * a1 + d0 * b1,
       a0 * c1 + c0 * d1,
       b0 * c1 + d0 * d1,
       a0 * e1 + c0 * f1 + e0,
       b0 * e1 + d0 * f1 + f0>>

\* utils.translate_matrix(m, v): translation by v inside the projection
Translate(m, v) ==
  LET a == m[1]  b == m[2]  c == m[3]  d == m[4]  e == m[5]  f == m[6]
      x == v[1]  y == v[2]
  IN <<a, b, c, d, x * a + y * c + e, x * b + y * d + f>>

\* utils.apply_matrix_pt(m, v)
ApplyPt(m, v) ==
  LET a == m[1]  b == m[2]  c == m[3]  d == m[4]  e == m[5]  f == m[6]
      x == v[1]  y == v[2]
  IN <<a * x + c * y + e, b * x + d * y + f>>

\* utils.apply_matrix_norm(m, v): the linear part only
ApplyNorm(m, v) ==
  LET a == m[1]  b == m[2]  c == m[3]  d == m[4]
      p == v[1]  q == v[2]
  IN <<a * p + c * q, b * p + d * q>>

\* utils.apply_matrix_rect(m, rect): the four corners are mapped, then min/max
ApplyRect(m, r) ==
  LET x0 == r[1]  y0 == r[2]  x1 == r[3]  y1 == r[4]
      lb == ApplyPt(m, <<x0, y0>>)      \* (left1,  bottom1)
      rb == ApplyPt(m, <<x1, y0>>)      \* (right1, bottom2)
      rt == ApplyPt(m, <<x1, y1>>)      \* (right2, top1)
      lt == ApplyPt(m, <<x0, y1>>)      \* (left2,  top2)
  IN <<Min4(lb[1], lt[1], rb[1], rt[1]),
       Min4(lb[2], rb[2], rt[2], lt[2]),
       Max4(lb[1], lt[1], rb[1], rt[1]),
       Max4(lb[2], rb[2], rt[2], lt[2])>>

\* ------------------------------------------------------------ 2. reference
H(m) == <<<<m[1], m[2], 0>>, <<m[3], m[4], 0>>, <<m[5], m[6], 1>>>>
UnH(M) == <<M[1][1], M[1][2], M[2][1], M[2][2], M[3][1], M[3][2]>>
IsAffineH(M) == M[1][3] = 0 /\ M[2][3] = 0 /\ M[3][3] = 1

MatMul(A, B) == [i \in 1..3 |-> [j \in 1..3 |->
                    A[i][1] * B[1][j] + A[i][2] * B[2][j] + A[i][3] * B[3][j]]]
RowMul(v, M) == [j \in 1..3 |-> v[1] * M[1][j] + v[2] * M[2][j] + v[3] * M[3][j]]

RefMult(m1, m0)    == UnH(MatMul(H(m1), H(m0)))
RefApplyPt(m, v)   == LET r == RowMul(<<v[1], v[2], 1>>, H(m)) IN <<r[1], r[2]>>
RefApplyNorm(m, v) == LET r == RowMul(<<v[1], v[2], 0>>, H(m)) IN <<r[1], r[2]>>   \* a direction, not a position
TransM(v)          == <<1, 0, 0, 1, v[1], v[2]>>
RefTranslate(m, v) == UnH(MatMul(H(TransM(v)), H(m)))          \* "translate first, then m"

Corners(r) == {<<r[1], r[2]>>, <<r[3], r[2]>>, <<r[3], r[4]>>, <<r[1], r[4]>>}
SetMin(S) == CHOOSE x \in S : \A y \in S : x <= y
SetMax(S) == CHOOSE x \in S : \A y \in S : x >= y
Hull(P) == <<SetMin({p[1] : p \in P}), SetMin({p[2] : p \in P}),
             SetMax({p[1] : p \in P}), SetMax({p[2] : p \in P})>>
RefApplyRect(m, r) == Hull({RefApplyPt(m, c) : c \in Corners(r)})

\* h is the tight axis-parallel hull of the point set P: contains every point, every side is touched
HullTight(h, P) ==
  /\ \A p \in P : h[1] <= p[1] /\ p[1] <= h[3] /\ h[2] <= p[2] /\ p[2] <= h[4]
  /\ \E p \in P : p[1] = h[1]
  /\ \E p \in P : p[2] = h[2]
  /\ \E p \in P : p[1] = h[3]
  /\ \E p \in P : p[2] = h[4]

\* dispatch used by the machine (AffineLaws) and by the trace spec (AffineTrace)
Eval(fn, x, y) == CASE fn = "mult"      -> Mult(x, y)
                    [] fn = "translate" -> Translate(x, y)
                    [] fn = "pt"        -> ApplyPt(x, y)
                    [] fn = "norm"      -> ApplyNorm(x, y)
                    [] fn = "rect"      -> ApplyRect(x, y)
Ref(fn, x, y) ==  CASE fn = "mult"      -> RefMult(x, y)
                    [] fn = "translate" -> RefTranslate(x, y)
                    [] fn = "pt"        -> RefApplyPt(x, y)
                    [] fn = "norm"      -> RefApplyNorm(x, y)
                    [] fn = "rect"      -> RefApplyRect(x, y)
=============================================================================
