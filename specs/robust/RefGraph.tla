------------------------------ MODULE RefGraph ------------------------------
(***************************************************************************)
(* C13: object graphs with ARBITRARY reference edges - self-loops, cycles, *)
(* dangling references - and the library's traversals over them, as        *)
(* machines.  The property: every traversal terminates within              *)
(* C * |graph| steps and with a call stack no deeper than |graph| + 2 on   *)
(* EVERY graph (a damaged document can hold any graph).                    *)
(*                                                                         *)
(* A graph gives every object number 1..N a value:                         *)
(*    ref   - the whole value is a reference  "t 0 R"                      *)
(*    leaf  - a value without outgoing references                          *)
(*    node  - a container with <= MaxOut outgoing references (Kids, First/ *)
(*            Next, Prev/XRefStm, array elements, /Length - the traversal  *)
(*            says which)                                                  *)
(* Target 0 is an object the file does not define.                         *)
(*                                                                         *)
(* Traversals (Param gives their shape, read off the code):                *)
(*    resolve1     pdftypes.resolve1: while isinstance(x, ref): x=resolve  *)
(*    accessor     dict_value / list_value / int_value ...: resolve1, test *)
(*    resolve_all  pdftypes.resolve_all: resolve1, recurse into elements   *)
(*    getobj       PDFDocument.getobj re-entered while parsing an object   *)
(*                 (/Length n 0 R of a stream; an object stream's stream)  *)
(*    xrefchain    PDFDocument.read_xref_from: XRefStm then Prev, recursive*)
(*    pagetree     PDFPage.create_pages.depth_first_search (has a visited  *)
(*                 set, keyed by the number of the reference followed)     *)
(*    numtree      data_structures.NumberTree._parse over Kids             *)
(*    nametree     PDFDocument.lookup_name.lookup over Kids                *)
(*    outline      PDFDocument.get_outlines.search over First / Next       *)
(* Python recursion is the explicit `stack`; one action per code step.     *)
(*                                                                         *)
(* Guards is the set of cycle guards in force.  AsCoded = what the code    *)
(* has today (Dev switches name the guards known to be missing); Intended  *)
(* = every traversal guarded.  TLC finds the non-terminating (graph,       *)
(* traversal) pairs as violations of Bound on the as-coded machine and     *)
(* checks Bound on the intended machine for all graphs.                    *)
(***************************************************************************)
EXTENDS Integers, Sequences, FiniteSets, TLC, Json

CONSTANTS N,         \* object numbers 1..N
          MaxOut,    \* out-degree of container nodes
          Travs,     \* traversals explored
          Guards,    \* cycle guards in force: subset of AllGuards
          PathGuards,\* those of them that only remember the objects *being* visited (the ancestors of the current one):
                     \* they cut cycles, but an object reachable along several paths is walked once per path
          Family,    \* "all": every canonical graph on N objects;  "diamond": the one chain of N containers in which
                     \* both references of each container lead to the next one (2**N paths, 2N edges)
          C          \* the constant of the bound

Nodes == 1..N
Targets == 0..N
AllTravs == {"resolve1", "accessor", "resolve_all", "getobj", "xrefchain", "pagetree", "numtree", "nametree", "outline",
             "form"}
AllGuards == AllTravs
\* The guards the code has today: pdfpage.create_pages keeps a visited set; every other guard is missing as long as
\* the corresponding named deviation is in force (known_findings/C13.json carries them as "dev": "robust:<Name>"):
\*   Resolve1NoCycleGuard (resolve1, accessor)  ResolveAllNoGuard  GetobjNoReentryGuard  XRefChainNoGuard
\*   NumTreeNoGuard  NameTreeNoGuard  OutlineNoGuard
\*   ResolveAllPathGuardOnly (resolve_all remembers the enclosing objects only: PathGuards)
\* harness/props/c13_graphs.py computes Guards / PathGuards from them for the as-coded runs.  Intended: every traversal
\* guarded, and by a guard that remembers every object visited - except "form" (PDFPageInterpreter.do_Do over the
\* /XObject resources a form invokes): painting a form twice is what the document asks for, so a path guard (the set of
\* forms being rendered) is the intended one and the diamond family does not apply to it.

OutSeqs == UNION {[1..k -> Targets] : k \in 0..MaxOut}
Values == {[k |-> "ref", out |-> <<t>>] : t \in Targets} \cup {[k |-> "leaf", out |-> <<>>]}
          \cup {[k |-> "node", out |-> o] : o \in OutSeqs}

\* shape of each traversal:  loop - no recursion at all;  resolves - children are reached through resolve1
\* (dict_value(child) etc.);  byref - a guard, if any, remembers the number of the reference followed (as coded in
\* depth_first_search) rather than the object reached
Param(t) ==
  CASE t = "resolve1"    -> [loop |-> TRUE,  resolves |-> TRUE]
    [] t = "accessor"    -> [loop |-> TRUE,  resolves |-> TRUE]
    [] t = "xrefchain"   -> [loop |-> FALSE, resolves |-> FALSE]
    [] OTHER             -> [loop |-> FALSE, resolves |-> TRUE]

\* how many of a container's outgoing references the traversal follows: parsing a stream re-enters getobj for /Length
\* only; First/Next and XRefStm/Prev are two; Kids and array elements are all of them
Fanout(t) == IF t = "getobj" THEN 1 ELSE MaxOut
Min(a, b) == IF a < b THEN a ELSE b
Follows(t, v) == Min(Len(v.out), Fanout(t))

NEdges(g) == LET RECURSIVE S(_) S(i) == IF i = 0 THEN 0 ELSE Len(g[i].out) + S(i - 1) IN S(N)
Bound(g) == C * (N + NEdges(g) + 1)
DepthBound == N + 2

\* ------------------------------------------------------------------ building the graph (one object at a time)
VARIABLES g, built, trav, stack, res, visited, steps, status
vars == <<g, built, trav, stack, res, visited, steps, status>>

NoRes == [on |-> FALSE, t |-> 0, first |-> 0, seen |-> {}]
Diamond == [i \in Nodes |-> IF i < N THEN [k |-> "node", out |-> <<i + 1, i + 1>>] ELSE [k |-> "leaf", out |-> <<>>]]
Init == /\ g = IF Family = "diamond" THEN Diamond ELSE [i \in Nodes |-> [k |-> "leaf", out |-> <<>>]]
        /\ built = (IF Family = "diamond" THEN N ELSE 0)
        /\ trav = "none" /\ stack = <<>> /\ res = NoRes /\ visited = {} /\ steps = 0 /\ status = "build"

ABuild == /\ status = "build" /\ built < N
          /\ \E v \in Values : g' = [g EXCEPT ![built + 1] = v]
          /\ built' = built + 1
          /\ UNCHANGED <<trav, stack, res, visited, steps, status>>

\* canonical representatives only: every object is reachable from object 1, and objects are numbered in the order a
\* breadth-first walk from 1 first mentions them (isomorphic graphs are explored once)
RECURSIVE Mention(_, _, _)
Mention(gr, queue, order) ==       \* order: sequence of object numbers in first-mention order
  IF queue = <<>> THEN order
  ELSE LET n == Head(queue)
           RECURSIVE Add(_, _, _)
           Add(i, q, o) == IF i > Len(gr[n].out) THEN <<q, o>>
                           ELSE LET t == gr[n].out[i] IN
                                IF t = 0 \/ (\E j \in 1..Len(o) : o[j] = t) THEN Add(i + 1, q, o)
                                ELSE Add(i + 1, Append(q, t), Append(o, t))
           r == Add(1, Tail(queue), order)
       IN Mention(gr, r[1], r[2])
Canonical(gr) == Mention(gr, <<1>>, <<1>>) = [i \in 1..N |-> i]

AStart == /\ status = "build" /\ built = N /\ Canonical(g)
          /\ \E t \in Travs : trav' = t
          /\ res' = [on |-> TRUE, t |-> 1, first |-> 1, seen |-> {}]        \* the traversal is handed a reference to object 1
          /\ status' = "run"
          /\ UNCHANGED <<g, built, stack, visited, steps>>

\* ------------------------------------------------------------------ resolve1 (inside every resolving traversal)
\* value of object t; object 0 stands for every object the file does not define
V(t) == IF t = 0 THEN [k |-> "missing", out |-> <<>>] ELSE g[t]
Guarded(x) == x \in Guards
\* a run that has left the bound is cut off and marked, so that TLC can go on to the next graph
Over == steps > Bound(g) \/ Len(stack) > DepthBound
Running == status = "run" /\ ~Over
Tick == steps' = steps + 1
\* one iteration of the while loop: x = x.resolve()
AResolveStep ==
  /\ Running /\ res.on /\ V(res.t).k = "ref" /\ Param(trav).resolves
  /\ LET nxt == V(res.t).out[1] IN
     IF Guarded("resolve1") /\ nxt \in res.seen \cup {res.t}
       THEN res' = [res EXCEPT !.t = 0]                           \* guard: a reference cycle resolves to the default
       ELSE res' = [res EXCEPT !.t = nxt, !.seen = @ \cup {res.t}]
  /\ Tick /\ UNCHANGED <<g, built, trav, stack, visited, status>>

\* the loop has ended on a value (or on a missing object -> default)
Landed == Running /\ res.on /\ (V(res.t).k # "ref" \/ ~Param(trav).resolves)
\* loop-shaped traversals end here
AFinishLoop == /\ Landed /\ Param(trav).loop
               /\ status' = "done" /\ res' = NoRes /\ Tick
               /\ UNCHANGED <<g, built, trav, stack, visited>>
\* recursive traversals: enter the object reached (a new Python frame) unless it is no container / already visited
AEnter ==
  /\ Landed /\ ~Param(trav).loop
  /\ LET t == res.t
         \* as coded, depth_first_search remembers the number of the reference it followed, not the object reached
         key == IF trav = "pagetree" THEN res.first ELSE t
         container == V(t).k = "node"
     IN IF (trav = "xrefchain" /\ ~container) \/ (trav = "nametree" /\ t = 0)
          \* not a cross-reference section: PDFNoValidXRef; lookup_name on a missing kid: PDFKeyError ends the lookup
          THEN /\ status' = "family" /\ UNCHANGED <<stack, visited>>
          ELSE IF ~container
            THEN UNCHANGED <<stack, visited, status>>                        \* leaf / missing: lenient default, return
            ELSE IF Guarded(trav) /\ key \in visited
              THEN UNCHANGED <<stack, visited, status>>                      \* guard: seen before, return
              ELSE /\ stack' = Append(stack, [n |-> t, i |-> 1, key |-> key])
                   /\ visited' = IF Guarded(trav) THEN visited \cup {key} ELSE visited
                   /\ UNCHANGED status
  /\ res' = NoRes /\ Tick
  /\ UNCHANGED <<g, built, trav>>
\* the frame on top follows its next outgoing reference (recursive call) ...
AChild == /\ Running /\ ~res.on /\ stack # <<>>
          /\ LET f == stack[Len(stack)] IN
             /\ f.i <= Follows(trav, g[f.n])
             /\ res' = [on |-> TRUE, t |-> g[f.n].out[f.i], first |-> g[f.n].out[f.i], seen |-> {}]
             /\ stack' = [stack EXCEPT ![Len(stack)] = [f EXCEPT !.i = f.i + 1]]
          /\ Tick /\ UNCHANGED <<g, built, trav, visited, status>>
\* ... or returns
AReturn == /\ Running /\ ~res.on /\ stack # <<>>
           /\ stack[Len(stack)].i > Follows(trav, g[stack[Len(stack)].n])
           /\ stack' = SubSeq(stack, 1, Len(stack) - 1)
           \* a path guard forgets the object when its frame returns
           /\ visited' = IF trav \in PathGuards THEN visited \ {stack[Len(stack)].key} ELSE visited
           \* lookup_name: a node whose kids all came back empty raises PDFKeyError, which ends the whole lookup
           /\ status' = IF trav = "nametree" THEN "family" ELSE status
           /\ UNCHANGED <<g, built, trav, res, steps>>
AFinish == /\ Running /\ ~res.on /\ stack = <<>>
           /\ status' = "done"
           /\ UNCHANGED <<g, built, trav, stack, res, visited, steps>>
ACutOff == /\ status = "run" /\ Over
           /\ status' = IF Len(stack) > DepthBound THEN "recursion" ELSE "hang"
           /\ UNCHANGED <<g, built, trav, stack, res, visited, steps>>

Next == ABuild \/ AStart \/ AResolveStep \/ AFinishLoop \/ AEnter \/ AChild \/ AReturn \/ AFinish \/ ACutOff
Spec == Init /\ [][Next]_vars

\* ------------------------------------------------------------------ C13 for traversals
\* every traversal ends within the bound on every graph
BoundOK == status \notin {"hang", "recursion"}
Terminal == status \in {"done", "family", "hang", "recursion"}
\* a guarded DFS enters no object twice
EnterOnce == Guarded(trav) /\ trav # "pagetree" =>          \* (holds for path guards too: the stack is a path)
               \A i, j \in 1..Len(stack) : i # j => stack[i].n # stack[j].n

Emit == Terminal => PrintT("@@" \o ToJson([g |-> g, trav |-> trav, status |-> status, steps |-> steps,
                                               depth |-> Len(stack)]))
=============================================================================
