----------------------------- MODULE Accessors -----------------------------
(***************************************************************************)
(* C13: the typed accessors of pdftypes (resolve1, int_value, float_value, *)
(* num_value, uint_value, str_value, list_value, dict_value, stream_value) *)
(* and the casts of casting.py (safe_int, safe_float, safe_rgb, safe_cmyk, *)
(* safe_matrix, safe_rect, safe_rect_list) as functions over *value kinds*.*)
(*                                                                         *)
(* These are the library's mechanism for staying inside its exception      *)
(* family on damaged input: whatever kind of value a damaged document puts *)
(* at a site, an accessor either returns a value of the wanted type,       *)
(* returns its lenient default, or (settings.STRICT) raises PDFTypeError;  *)
(* a safe_* cast returns a value or None.  The property of this module is  *)
(* TOTALITY: for every accessor, every kind and both STRICT settings the   *)
(* outcome is one of those - never a leaked TypeError / KeyError, never    *)
(* divergence.  The machine is shaped like the code: AResolveStep is one   *)
(* iteration of resolve1's while loop, ACheck the isinstance test.         *)
(* Dev names the points where the code is known not to be total.           *)
(***************************************************************************)
EXTENDS Integers, Sequences, FiniteSets, TLC, Json

CONSTANTS Dev,        \* subset of {"Resolve1NoCycleGuard", "RectListStreamKeyError"}
          MaxSteps    \* bound on resolve1 iterations explored (anything > 3 shows divergence)

Direct == {"null", "bool", "int", "real", "name", "string", "array", "dict", "stream"}
RefTo(k) == "ref_" \o k
Kinds == Direct \cup {RefTo(k) : k \in Direct} \cup {"ref_missing", "ref_self"}
IsRef(k) == k \notin Direct

Resolving == {"resolve1", "int_value", "float_value", "num_value", "uint_value", "str_value", "list_value",
              "dict_value", "stream_value"}
Casts     == {"safe_int", "safe_float", "safe_rgb", "safe_cmyk", "safe_matrix", "safe_rect", "safe_rect_list"}
Accessors == Resolving \cup Casts

\* what isinstance lets through (Python: bool is a subclass of int - True is accepted where an integer is wanted)
Accepts(a) ==
  CASE a = "resolve1"     -> Direct
    [] a = "int_value"    -> {"int", "bool"}
    [] a = "uint_value"   -> {"int", "bool"}
    [] a = "float_value"  -> {"real"}
    [] a = "num_value"    -> {"int", "real", "bool"}
    [] a = "str_value"    -> {"string"}
    [] a = "list_value"   -> {"array"}
    [] a = "dict_value"   -> {"dict"}
    [] a = "stream_value" -> {"stream"}

\* int() / float() succeed on numbers (a string only when it spells a number: the representative does not);
\* everything else raises TypeError / ValueError, which the cast turns into None.  References are NOT resolved.
Numeric == {"bool", "int", "real"}
\* safe_rect_list iterates its argument: numbers, names, references are not iterable (TypeError -> None); a string
\* iterates as byte values, a dictionary as its keys, an array as its elements: a value only when four numbers come
\* out (the representative array is [1 2 3 4], the representative string has two bytes, the dictionary keys are
\* strings); a stream object has __getitem__, so Python iterates it by stream[0], stream[1], ... -> KeyError
RectList(k) ==
  CASE k = "array"  -> "value"
    [] k = "stream" -> IF "RectListStreamKeyError" \in Dev THEN "leak:KeyError" ELSE "none"
    [] OTHER        -> "none"
CastResult(a, k) == IF a = "safe_rect_list" THEN RectList(k) ELSE IF k \in Numeric THEN "value" ELSE "none"

\* ------------------------------------------------------------------ the machine
VARIABLES acc, arg, strict, cur, steps, result
vars == <<acc, arg, strict, cur, steps, result>>

Init == /\ acc \in Accessors /\ arg \in Kinds /\ strict \in BOOLEAN
        /\ cur = arg /\ steps = 0 /\ result = "running"

\* one iteration of   while isinstance(x, PDFObjRef): x = x.resolve(default)
Target(k) == CASE k = "ref_missing" -> "null"          \* PDFObjectNotFound -> default (None)
               [] k = "ref_self"    -> "ref_self"      \* the object's value is a reference to the object itself
               [] OTHER             -> SubSeq(k, 5, Len(k))
AResolveStep ==
  /\ result = "running" /\ acc \in Resolving /\ IsRef(cur)
  /\ IF cur = "ref_self" /\ "Resolve1NoCycleGuard" \notin Dev
       THEN /\ cur' = "null" /\ steps' = steps + 1 /\ UNCHANGED result      \* guarded: a cycle resolves to the default
       ELSE IF steps >= MaxSteps
              THEN /\ result' = "diverge" /\ UNCHANGED <<cur, steps>>
              ELSE /\ cur' = Target(cur) /\ steps' = steps + 1 /\ UNCHANGED result
  /\ UNCHANGED <<acc, arg, strict>>
\* the isinstance test after the loop
ACheck ==
  /\ result = "running" /\ acc \in Resolving /\ ~IsRef(cur)
  /\ result' = IF cur \in Accepts(acc) THEN "value" ELSE IF strict THEN "PDFTypeError" ELSE "default"
  /\ UNCHANGED <<acc, arg, strict, cur, steps>>
ACast ==
  /\ result = "running" /\ acc \in Casts
  /\ result' = CastResult(acc, cur)
  /\ UNCHANGED <<acc, arg, strict, cur, steps>>
Next == AResolveStep \/ ACheck \/ ACast
Spec == Init /\ [][Next]_vars

\* ------------------------------------------------------------------ C13 for accessors
Done == result # "running"
\* every accessor is a total function into {value, default, family error, None}
Total == result \in {"running", "value", "default", "PDFTypeError", "none"}
\* resolve1 needs at most two iterations on any acyclic chain of this model (reference, then the value)
Bounded == steps <= 2 \/ arg = "ref_self"
\* reference semantics of the lenient accessors: the wanted type comes back iff the (resolved) value has it
Resolved(k) == IF k \in Direct THEN k ELSE IF k \in {"ref_missing", "ref_self"} THEN "null" ELSE SubSeq(k, 5, Len(k))
AgreesWithReference ==
  (Done /\ acc \in Resolving /\ result # "diverge") =>
     (result = "value") = (Resolved(arg) \in Accepts(acc))

Emit == Done => PrintT("@@" \o ToJson([acc |-> acc, arg |-> arg, strict |-> strict, result |-> result, steps |-> steps]))
=============================================================================
