------------------------------- MODULE Faults -------------------------------
(***************************************************************************)
(* C13: the space of single structural faults of a seed document.          *)
(*                                                                         *)
(* A seed is abstract: a typed object graph given as its set of *sites*    *)
(* (every whole object, every dictionary value, every array element - also *)
(* of the structures a writer derives: /Length, the object-stream and      *)
(* cross-reference-stream dictionaries, the trailer, the startxref         *)
(* number), its stream payloads with their lengths, its cross-reference    *)
(* entries and the length of the file.  The property quantifies over "all  *)
(* single structural faults (site x fault kind) and all truncation         *)
(* points"; this module *is* that quantifier: FaultSpace(S) is written     *)
(* down declaratively from the property text, TLC enumerates it (one state *)
(* per fault), checks that every fault is applicable at its site and       *)
(* really changes the document, that the space has exactly the size the    *)
(* per-site arithmetic predicts (nothing dropped, nothing counted twice),  *)
(* and prints every fault as a JSON line; harness/props/c13.py applies     *)
(* each line to the real object graph before serialisation.  The seeds are *)
(* described by the harness from the same structures it serialises         *)
(* (harness/realise/faultdoc.describe) in a generated MC module.           *)
(***************************************************************************)
EXTENDS Integers, Sequences, FiniteSets, FiniteSetsExt, TLC, Json

CONSTANTS Seeds,          \* function  seed name -> [sites, streams, ents, flen]
          Variants,       \* representatives per replacement kind, e.g. {0, 1}
          PayloadStride,  \* 1: every byte position of every payload; n: every n-th (and the last)
          FileStride      \* likewise for the truncation points of the file

DirectKinds == {"null", "bool", "int", "real", "name", "string", "array", "dict"}
BaseKinds   == DirectKinds \cup {"stream"}
SingleRep   == {"null", "stream"}          \* kinds that have a single representative value
Containers  == {"root", "dict", "array"}
Classes     == {"value", "offset", "content"}    \* content: an entry of a dictionary written inside a content stream
                                                 \* (inline-image dictionary, BDC property list): no references there

\* a site:   [id, ownerobj (0: no enclosing indirect object), cont, base (kind of the value, through references),
\*            ind (the site holds a reference), cls (offset: the value is a file position)]
SiteOK(s) == /\ s.cont \in Containers /\ s.base \in BaseKinds /\ s.cls \in Classes
             /\ s.ind \in BOOLEAN /\ s.ownerobj \in Nat
SeedOK(S) == /\ S.enc \in BOOLEAN                       \* the document is encrypted (standard security handler)
             /\ \A s \in S.sites : SiteOK(s)
             /\ \A t \in S.streams : t.plen \in Nat /\ t.hdr \in Nat /\ \A fl \in t.fields : fl[1] + fl[2] <= t.plen
             /\ \A e \in S.ents : e.form \in {"table", "stream"}
             /\ S.flen \in Nat \ {0} /\ S.fstride \in Nat \ {0} /\ S.nocache \in BOOLEAN
             /\ \A s1, s2 \in S.sites : s1.id = s2.id => s1 = s2        \* sites are named uniquely

F(cls, site, kind, to, variant, pos, mode) ==
  [cls |-> cls, site |-> site, kind |-> kind, to |-> to, variant |-> variant, pos |-> pos, mode |-> mode]

\* ------------------------------------------------------------------ replacing a value by a value of another type
\* target: a kind other than the one the site has, planted directly ("k") or behind a reference ("r_k");
\* a stream can only be planted behind a reference
Targets(s) == {k \in DirectKinds : k # s.base}
              \cup (IF s.cls = "content" THEN {} ELSE {"r_" \o k : k \in BaseKinds \ {s.base}})
KindOf(t) == IF t \in DirectKinds THEN t ELSE SubSeq(t, 3, Len(t))
\* representatives: the variants (for arrays, dictionaries and strings one of them is the EMPTY value); a name has the
\* empty name "/" as a third one
VariantsOf(t) == IF KindOf(t) \in SingleRep THEN {0} ELSE IF KindOf(t) = "name" THEN Variants \cup {2} ELSE Variants
RetypeSet(s) == UNION {{F("value", s.id, "retype", t, v, 0, "") : v \in VariantsOf(t)} : t \in Targets(s)}

\* ------------------------------------------------------------------ the empty value of the kind that is there
\* retype never plants the kind a site already has; a container, string or name is also replaced by the EMPTY array /
\* dictionary / string / name ([] is a legal /Filter, << >> a legal /Resources ...), directly and behind a reference
EmptyKinds == {"array", "dict", "string", "name"}
EmptyFaults(s) == IF s.base \in EmptyKinds /\ s.cls # "offset"
                  THEN {F("value", s.id, "empty", t, 0, 0, "") :
                           t \in {s.base} \cup (IF s.cls = "content" THEN {} ELSE {"r_" \o s.base})}
                  ELSE {}

\* ------------------------------------------------------------------ boundary values inside payloads
\* operands written inside a payload (a CMap's bfchar / bfrange entries, the `put` entries of a Type 1 header) are
\* replaced by boundary values of their own kind: a number by 0x110000 (first code point past Unicode), 0xD800 (a lone
\* surrogate) and 2**32; a string by FFFFFFFF (an increment overflows four bytes), D800 and a 40-byte string
ExtremeForms == {0, 1, 2}
ExtremeFaults(s) == IF s.cls = "content" /\ s.base \in {"int", "string"}
                    THEN {F("value", s.id, "extreme", s.base, v, 0, "") : v \in ExtremeForms} ELSE {}

\* ------------------------------------------------------------------ removing a key
Deletes(s) == IF s.cont = "dict" THEN {F("value", s.id, "delete", "", 0, 0, "")} ELSE {}

\* ------------------------------------------------------------------ pointing a reference at itself / nowhere / into a cycle
\* ref_self: at the enclosing object (Kids [self], /Length n 0 R inside object n, object n = n 0 R)
\* ref_missing: at an object number the file does not define
\* ref_loop1 / ref_loop2: at an object whose whole value is a reference to itself / to an object that refers back
\* The option dimension: every entry point can be run with its caches off (caching=False / disable_caching=True),
\* which changes what a cycle guard can rely on (getobj then returns a fresh object on every request).  Every fault
\* that closes a cycle is enumerated twice: mode "" (caches on, the default) and mode "nocache".
CycleKinds == {"ref_self", "ref_loop1", "ref_loop2", "off_self", "off_cycle", "off_self_ws", "off_cycle_ws", "ent_in_self",
               "ent_in_cycle2"}
\* (a seed may opt out: with the caches off every lookup in an object stream re-reads the stream - by design - so for the
\* seed with hundreds of members in one stream the work bound is claimed with the caches on only)
Modes(k, a) == IF k \in CycleKinds /\ a.nocache THEN {"", "nocache"} ELSE {""}
RefKinds(s) == (IF s.ownerobj # 0 THEN {"ref_self"} ELSE {}) \cup {"ref_missing", "ref_loop1", "ref_loop2"}
RefFaults(s) == UNION {{F("value", s.id, k, "", 0, 0, m) : m \in Modes(k, s)} : k \in RefKinds(s)}
\* the same for values that are file positions (Prev, XRefStm, startxref): own section, past the end of the file,
\* the newest section (so that every chain reaching it starts over), the middle of an object
\* Offsets come in two styles: the first byte of the target (`xref`, or the object number of a cross-reference stream)
\* or the end-of-line / white space just before it (some producers write that, readers skip the white space).  The
\* styled kinds: off_ws - the right target, in the second style; off_self_ws / off_cycle_ws - the two cycle faults in
\* the second style (a cycle guard that remembers positions must not depend on the style)
OffKinds == {"off_self", "off_dangling", "off_cycle", "off_garbage", "off_ws", "off_self_ws", "off_cycle_ws"}
OffFaults(s) == UNION {{F("value", s.id, k, "", 0, 0, m) : m \in Modes(k, s)} : k \in OffKinds}

\* ------------------------------------------------------------------ encrypted documents: a string that is no ciphertext
\* Every other replacement value is written the way a writer would write it - encrypted.  In an encrypted document
\* a value can also be replaced by a string whose bytes in the file are NOT a valid ciphertext (what a damaged or
\* truncated encrypted string looks like): a few bytes, shorter than an AES initialization vector.
\* Form 0: a literal string planted directly; form 1: a hexadecimal string in an object of its own, behind a reference.
RawForms == {0, 1}
RawStrFaults(s) == IF s.enc /\ s.cls = "value" THEN {F("value", s.id, "rawstr", "", v, 0, "") : v \in RawForms} ELSE {}

SiteFaults(s) == RetypeSet(s) \cup Deletes(s) \cup EmptyFaults(s) \cup ExtremeFaults(s)
                 \cup (CASE s.cls = "offset" -> OffFaults(s) [] s.cls = "value" -> RefFaults(s) [] OTHER -> {})
                 \cup RawStrFaults(s)

\* ------------------------------------------------------------------ stream payloads and the file
Positions(n, stride) == {p \in 0..(n - 1) : p % stride = 0 \/ p = n - 1}
Min2(a, b) == IF a < b THEN a ELSE b
\* Embedded font programs (FontFile, FontFile2, FontFile3) begin with a binary header the reader trusts: for a TrueType
\* program the 12-byte offset table and the 16-byte table directory records.  For such a payload the seed gives hdr (the
\* header, the directory and 8 bytes more) and the header fields <<offset, width>> (numTables, each record's offset and
\* length); the payload is then cut at EVERY length inside the header whatever the stride, and every field is set to 0,
\* to its maximum and to a value beyond the end of the program.
HeaderCuts(t) == {p \in 0..(Min2(t.hdr, t.plen) - 1) : TRUE}
FieldValues == {"zero", "max", "beyond"}
PayloadFaults(t) ==
  {F("payload", t.id, "corrupt", "", 0, p, m) : p \in Positions(t.plen, PayloadStride), m \in {"flip", "low"}}
  \cup {F("payload", t.id, "truncate", "", 0, p, "") : p \in Positions(t.plen, PayloadStride) \cup HeaderCuts(t)}   \* p bytes are kept
  \cup {F("payload", t.id, "setfield", "", fl[2], fl[1], v) : fl \in t.fields, v \in FieldValues}        \* variant: width, pos: offset
\* The one combination of faults in the space: every element of every /Kids array written twice, at every level at
\* once.  A single duplicated kid doubles one subtree; all of them together make a tree of depth d a "diamond chain"
\* with 2**d paths - a traversal must still visit every node once (work in proportion to the input).
MultiFaults(a) == {F("multi", "", "dup_kids_all", "", 0, 0, m) : m \in Modes("ref_self", a)}
\* (a seed may ask for a coarser stride of its own: long files whose every run is costly)
Max2(a, b) == IF a > b THEN a ELSE b
FileFaults(S) == {F("file", "", "truncate", "", 0, p, "") : p \in Positions(S.flen, Max2(FileStride, S.fstride))}
                 \cup MultiFaults(S)

\* ------------------------------------------------------------------ cross-reference entries
EntKinds(e) == {"ent_dangling", "ent_other", "ent_mid", "ent_free"} \cup
               (IF e.form = "stream" THEN {"ent_in_self", "ent_in_cycle2", "ent_in_missing", "ent_in_nonstream", "ent_idx_big"} ELSE {})
\* ent_in_cycle2: the entry says "stored in object stream m" and m's entry says "stored in this object" (m another object
\* stream when the document has one): a containment cycle of length two, which a guard on the parse branch alone misses
EntFaults(e) == UNION {{F("xrefent", e.id, k, "", 0, 0, m) : m \in Modes(k, e)} : k \in EntKinds(e)}

\* ------------------------------------------------------------------ anchors: where a fault can sit
\* one record shape for sites, stream payloads, cross-reference entries and the file as a whole
Anchor(t, id, ownerobj, cont, base, ind, cls, n, form, enc, hdr, fields, nocache) ==
  [t |-> t, id |-> id, ownerobj |-> ownerobj, cont |-> cont, base |-> base, ind |-> ind, cls |-> cls, n |-> n, form |-> form,
   enc |-> enc, hdr |-> hdr, fields |-> fields, nocache |-> nocache]
Anchors(S) ==
  {Anchor("site", s.id, s.ownerobj, s.cont, s.base, s.ind, s.cls, 0, "", S.enc, 0, {}, S.nocache) : s \in S.sites}
  \cup {Anchor("stream", t.id, 0, "", "stream", FALSE, "", t.plen, "", S.enc, t.hdr, t.fields, S.nocache) : t \in S.streams}
  \cup {Anchor("ent", e.id, 0, "", "", FALSE, "", 0, e.form, S.enc, 0, {}, S.nocache) : e \in S.ents}
  \cup {Anchor("file", "", 0, "", "", FALSE, "", S.flen, "", S.enc, S.fstride, {}, S.nocache)}     \* (hdr carries the seed's stride)
FaultsAt(a) ==
  CASE a.t = "site"   -> SiteFaults(a)
    [] a.t = "stream" -> PayloadFaults([id |-> a.id, plen |-> a.n, hdr |-> a.hdr, fields |-> a.fields])
    [] a.t = "ent"    -> EntFaults(a)
    [] a.t = "file"   -> FileFaults([flen |-> a.n, fstride |-> a.hdr, nocache |-> a.nocache])
FaultSpace(S) == UNION {FaultsAt(a) : a \in Anchors(S)}

\* ------------------------------------------------------------------ the size of the space, by arithmetic
NV == Cardinality(Variants)
\* 7 other direct kinds + 8 other kinds behind a reference; null and stream have one representative
PerSiteRetypes(s) ==
  LET d1 == IF s.base = "null" THEN 0 ELSE 1                       \* direct null
      dn == Cardinality(DirectKinds \ {s.base, "null"})            \* other direct kinds, NV representatives each
      nm == IF s.base = "name" THEN 0 ELSE 1                       \* the third representative of a name
      r1 == (IF s.base = "null" THEN 0 ELSE 1) + (IF s.base = "stream" THEN 0 ELSE 1)
      rn == Cardinality(BaseKinds \ {s.base, "null", "stream"})
  IN d1 + dn * NV + nm + (IF s.cls = "content" THEN 0 ELSE r1 + rn * NV + nm)
PerSite(s) == PerSiteRetypes(s) + (IF s.cont = "dict" THEN 1 ELSE 0)
              + (IF s.base \in EmptyKinds /\ s.cls # "offset" THEN (IF s.cls = "content" THEN 1 ELSE 2) ELSE 0)
              + (IF s.cls = "content" /\ s.base \in {"int", "string"} THEN Cardinality(ExtremeForms) ELSE 0)
              \* offsets: 7 kinds, 4 of them cycles (x 2 modes); values: ref_missing + 2 loops x 2 modes (+ ref_self x 2)
              + (LET m == IF s.nocache THEN 2 ELSE 1 IN
                 CASE s.cls = "offset" -> 3 + 4 * m [] s.cls = "value" -> 1 + 2 * m + (IF s.ownerobj # 0 THEN m ELSE 0)
                   [] OTHER -> 0)
              + (IF s.enc /\ s.cls = "value" THEN Cardinality(RawForms) ELSE 0)
NPos(n, stride) == IF n = 0 THEN 0 ELSE ((n - 1) \div stride) + 1 + (IF (n - 1) % stride = 0 THEN 0 ELSE 1)
ExpectedAt(a) ==
  CASE a.t = "site"   -> PerSite(a)
    [] a.t = "stream" -> 3 * NPos(a.n, PayloadStride)
                         + Cardinality({p \in 0..(Min2(a.hdr, a.n) - 1) : p \notin Positions(a.n, PayloadStride)})
                         + 3 * Cardinality(a.fields)
    [] a.t = "ent"    -> IF a.form = "stream" THEN (IF a.nocache THEN 11 ELSE 9) ELSE 4
    [] a.t = "file"   -> NPos(a.n, Max2(FileStride, a.hdr)) + (IF a.nocache THEN 2 ELSE 1)
\* faults at different anchors differ in their site / class fields, so the space is the disjoint union over anchors
ExpectedCount(S) == FoldSet(LAMBDA a, n : n + ExpectedAt(a), 0, Anchors(S))

ASSUME SeedsWellFormed == \A n \in DOMAIN Seeds : SeedOK(Seeds[n])

\* ------------------------------------------------------------------ enumeration: one state per (seed, fault)
VARIABLES seed, at, fault
vars == <<seed, at, fault>>

NoAnchor == Anchor("none", "", 0, "", "", FALSE, "", 0, "", FALSE, 0, {}, FALSE)
NoFault  == F("none", "", "", "", 0, 0, "")

Init == /\ seed \in DOMAIN Seeds
        /\ at = NoAnchor /\ fault = NoFault
\* choose where the damage goes ...
APickAnchor == /\ at = NoAnchor
               /\ at' \in Anchors(Seeds[seed])
               /\ UNCHANGED <<seed, fault>>
\* ... and what it is.  A damaged document is a terminal state: single faults only.
AApplyFault == /\ at # NoAnchor /\ fault = NoFault
               /\ fault' \in FaultsAt(at)
               /\ UNCHANGED <<seed, at>>
Next == APickAnchor \/ AApplyFault
Spec == Init /\ [][Next]_vars
Damaged == fault # NoFault

\* the space has exactly the size the arithmetic predicts, anchor by anchor (nothing dropped, nothing doubled)
CountedExactly == (at # NoAnchor /\ ~Damaged) => Cardinality(FaultsAt(at)) = ExpectedAt(at)

\* every enumerated fault is applicable where it is put ...
Applicable ==
  Damaged =>
  CASE fault.cls = "value" ->
         /\ at.t = "site" /\ fault.site = at.id
         /\ (fault.kind = "delete" => at.cont = "dict")
         /\ (fault.kind = "ref_self" => at.ownerobj # 0)
         /\ (fault.kind \in {"ref_self", "ref_missing", "ref_loop1", "ref_loop2"} => at.cls = "value")
         /\ (fault.kind \in OffKinds => at.cls = "offset")
         /\ (fault.kind = "retype" => fault.to # "stream" /\ fault.variant \in VariantsOf(fault.to))
         /\ (fault.kind = "rawstr" => at.enc /\ at.cls = "value" /\ fault.variant \in RawForms)
         /\ (fault.kind = "empty" => at.base \in EmptyKinds /\ KindOf(fault.to) = at.base)
         /\ (at.cls = "content" => fault.kind \in {"retype", "delete", "empty", "extreme"} /\ fault.to \in DirectKinds \cup {""})
         /\ (fault.kind = "extreme" => at.cls = "content" /\ fault.to = at.base /\ fault.variant \in ExtremeForms)
    [] fault.cls = "payload" -> /\ at.t = "stream" /\ fault.site = at.id /\ fault.pos < at.n
                                /\ (fault.kind = "setfield" => <<fault.pos, fault.variant>> \in at.fields
                                                                /\ fault.pos + fault.variant <= at.n)
    [] fault.cls = "file" -> at.t = "file" /\ fault.pos < at.n
    [] fault.cls = "multi" -> at.t = "file" /\ fault.kind = "dup_kids_all"
    [] fault.cls = "xrefent" -> at.t = "ent" /\ fault.site = at.id /\ fault.kind \in EntKinds(at)
\* ... and changes the document: a retype never plants the kind that is already there
Damaging == Damaged /\ fault.cls = "value" /\ fault.kind = "retype" => KindOf(fault.to) # at.base
\* the caches are switched off for cycle faults only (and the dup_kids_all combination)
ModeOK == Damaged /\ fault.mode = "nocache" => fault.kind \in CycleKinds \cup {"dup_kids_all"}

\* every (site, kind) pair of the property text is present at the anchor a state's fault sits on
KindsPresent ==
  (at # NoAnchor /\ ~Damaged) =>
  LET sp == FaultsAt(at) IN
  CASE at.t = "site" ->
         /\ \A k \in (IF at.cls = "content" THEN DirectKinds ELSE BaseKinds) \ {at.base} :
               \E g \in sp : g.kind = "retype" /\ KindOf(g.to) = k                                   \* every other type
         /\ (at.base \in EmptyKinds /\ at.cls # "offset" => \E g \in sp : g.kind = "empty" /\ g.to = at.base)  \* and the empty one
         /\ \A k \in DirectKinds \ {at.base} : \A v \in VariantsOf(k) : F("value", at.id, "retype", k, v, 0, "") \in sp
         /\ (at.cont = "dict" => \E g \in sp : g.kind = "delete")                                  \* removing the key
         /\ (at.cls = "offset" => \A k \in OffKinds : \E g \in sp : g.kind = k)                    \* every offset fault and style
         /\ (at.cls = "value" =>
               /\ \A k \in {"ref_missing", "ref_loop1", "ref_loop2"} : \E g \in sp : g.kind = k       \* nowhere / cycle
               /\ (at.ownerobj # 0 => \E g \in sp : g.kind = "ref_self")                           \* itself
               /\ (at.nocache => \A g \in sp : g.kind \in CycleKinds => F("value", at.id, g.kind, "", 0, 0, "nocache") \in sp)  \* caches off too
               /\ (at.enc => \A v \in RawForms : \E g \in sp : g.kind = "rawstr" /\ g.variant = v))  \* no ciphertext
    [] at.t = "stream" ->                                      \* every position: damaged, and cut
         /\ {g.pos : g \in {h \in sp : h.kind = "corrupt" /\ h.mode = "flip"}} = Positions(at.n, PayloadStride)
         /\ Positions(at.n, PayloadStride) \subseteq {g.pos : g \in {h \in sp : h.kind = "truncate"}}
         /\ \A p \in 0..(Min2(at.hdr, at.n) - 1) : F("payload", at.id, "truncate", "", 0, p, "") \in sp   \* every cut in the header
         /\ \A fl \in at.fields : \A v \in FieldValues : F("payload", at.id, "setfield", "", fl[2], fl[1], v) \in sp
    [] at.t = "file" -> /\ {g.pos : g \in {h \in sp : h.cls = "file"}} = Positions(at.n, Max2(FileStride, at.hdr))     \* every truncation point
                        /\ MultiFaults(at) \subseteq sp
    [] at.t = "ent" -> sp # {}

Emit == Damaged => PrintT("@@" \o ToJson([seed |-> seed, f |-> fault, base |-> at.base]))
=============================================================================
