--------------------------- MODULE ContentInterp ---------------------------
(***************************************************************************)
(* C05 (text model) and C16 (painted paths): the content-stream            *)
(* interpreter PDFPageInterpreter + PDFTextDevice + PDFLayoutAnalyzer as a *)
(* state machine over token programs.                                      *)
(*                                                                         *)
(* Numbers.  Operands are integers (points, percent, or thousandths for TJ *)
(* adjustments).  The CTM is <<a,b,c,d,e,f>> with e,f in points.  Text     *)
(* positions are exact in units u = 1/100000 pt:                           *)
(*     glyph advance  w0 * Tfs * Th      = W * size * tz          u        *)
(*     char spacing   Tc * Th            = tc * tz * 1000         u        *)
(*     TJ adjustment  adj/1000*Tfs*Th    = adj * size * tz        u        *)
(* (W = glyph width in 1/1000, tz = horizontal scaling in percent).        *)
(*                                                                         *)
(* Dev: named deviations of the code from ISO 32000-1 9.3-9.4 / 8.4-8.6:   *)
(*   "TcNotTrailing"   character spacing is added before every glyph but   *)
(*                     the first of a show operator (and after a leading   *)
(*                     TJ number) instead of after every glyph             *)
(*   "FormNoGsInherit" a form XObject starts from a fresh graphics state   *)
(*   "CsNoColorReset"  cs/CS do not reset the colour to the initial value  *)
(*   "LoneMoveShape"   a painted path that is a lone `m` yields a one-point *)
(*                     curve although it has no segment                    *)
(*   "DQuoteNoTstar", "FormCtmLeak", "ScnShortRaises" (repaired in /repo)  *)
(***************************************************************************)
EXTENDS Integers, Sequences, FiniteSets, TLC, Json, InterpFrame

\* the deviation set is a variable fixed at Init, so that one TLC run yields the intended outputs (dev = {}), the
\* as-coded outputs (all listed deviations) and one run per single deviation (used to attribute a difference)
VARIABLE dev
Dev == dev

U == 100000

\* ------------------------------------------------------------------ matrices
Ident == <<1, 0, 0, 1, 0, 0>>
Mult(m1, m0) == <<m0[1] * m1[1] + m0[3] * m1[2], m0[2] * m1[1] + m0[4] * m1[2],
                  m0[1] * m1[3] + m0[3] * m1[4], m0[2] * m1[3] + m0[4] * m1[4],
                  m0[1] * m1[5] + m0[3] * m1[6] + m0[5], m0[2] * m1[5] + m0[4] * m1[6] + m0[6]>>
ApplyPt(m, x, y) == <<m[1] * x + m[3] * y + m[5], m[2] * x + m[4] * y + m[6]>>
Min2(a, b) == IF a < b THEN a ELSE b
Max2(a, b) == IF a > b THEN a ELSE b
Min4(a, b, c, d) == Min2(Min2(a, b), Min2(c, d))
Max4(a, b, c, d) == Max2(Max2(a, b), Max2(c, d))
ApplyRect(m, x0, y0, x1, y1) ==
  LET p1 == ApplyPt(m, x0, y0)  p2 == ApplyPt(m, x1, y0)  p3 == ApplyPt(m, x0, y1)  p4 == ApplyPt(m, x1, y1) IN
  <<Min4(p1[1], p2[1], p3[1], p4[1]), Min4(p1[2], p2[2], p3[2], p4[2]),
    Max4(p1[1], p2[1], p3[1], p4[1]), Max4(p1[2], p2[2], p3[2], p4[2])>>
\* the CTM with its translation expressed in u
CtmU(m) == <<m[1], m[2], m[3], m[4], m[5] * U, m[6] * U>>

\* ------------------------------------------------------------------ resources (constants of the model)
\* fonts: F1 single-byte (A=500 B=1000 space=250, others 0), F2 two-byte Identity-H (every CID 1000)
FontMB(f) == f = "F2"
\* F1: /FirstChar 32 /LastChar 67 /Widths with A 500, B 1000, space 250 and an explicit 0 for every other code of the
\*     table (C = 67 among them); /MissingWidth 300 for codes outside the table (D = 68)
\* F2: /DW 1000 and /W [32 [0] 65 65 300] - an explicit zero next to a non-zero default, and a range of ONE CID
\* F1b: what the NAME F1 means inside a form whose own /Resources define it differently - a direct font dictionary with the
\*      same /BaseFont as F1 and other widths (A 600, B 900)
FontW(f, cid) == IF f = "F2" THEN (IF cid = 32 THEN 0 ELSE IF cid = 65 THEN 300 ELSE 1000)
                 ELSE IF f = "F1b" THEN CASE cid = 65 -> 600 [] cid = 66 -> 900 [] cid = 32 -> 250
                                          [] cid \in 32..67 -> 0 [] OTHER -> 300
                 ELSE CASE cid = 65 -> 500 [] cid = 66 -> 1000 [] cid = 32 -> 250
                        [] cid \in 32..67 -> 0 [] OTHER -> 300
FontDesc(f) == -200
RECURSIVE Pairs2(_)
Pairs2(s) == IF Len(s) < 2 THEN <<>> ELSE <<s[1] * 256 + s[2]>> \o Pairs2(SubSeq(s, 3, Len(s)))
Codes(f, s) == IF FontMB(f) THEN Pairs2(s) ELSE s
\* colour spaces: the device spaces by name and the page's /ColorSpace resources (MC: the realiser writes exactly these)
\*   CsI1 CsI3 CsI4  [/ICCBased stream] with /N 1, 3, 4      CsBad  [/ICCBased stream] without /N (unusable: `cs` ignored)
\*   CsN2 CsN3       [/DeviceN [names] /DeviceRGB fn]         CsSep  [/Separation /Spot /DeviceCMYK fn]
\*   CsIdx           [/Indexed /DeviceRGB 1 <...>]            CsLab  [/Lab << /WhitePoint ... >>]
CSN(name) == CASE name \in {"DeviceGray", "CsI1", "CsSep", "CsIdx"} -> 1
               [] name \in {"DeviceRGB", "CsI3", "CsN3", "CsLab"} -> 3
               [] name \in {"DeviceCMYK", "CsI4"} -> 4
               [] name = "CsN2" -> 2
               [] OTHER -> 0
\* initial colour of a colour space (ISO 32000-1 table 74): black in the device spaces, all components 0 in CIE-based and
\* indexed spaces, all tints 1 in Separation and DeviceN
CSInit(name) == CASE name = "DeviceCMYK" -> <<0, 0, 0, 1>>
                  [] name \in {"CsN2", "CsN3", "CsSep"} -> [i \in 1..CSN(name) |-> 1]
                  [] OTHER -> [i \in 1..CSN(name) |-> 0]

\* tokens
Num(n)  == [t |-> "num", n |-> n, s |-> <<>>, a |-> <<>>]
Str(s)  == [t |-> "str", n |-> 0, s |-> s, a |-> <<>>]
\* names and operators are stored as indexes into these tables so that every token field has one type
\* (TLC cannot order sets that mix integers and strings)
NameTab == <<"F1", "F2", "Fm1", "Fm2", "Fm3", "Fm5", "DeviceGray", "DeviceRGB", "DeviceCMYK", "x",
            "CsI1", "CsI3", "CsI4", "CsBad", "CsN2", "CsN3", "CsSep", "CsIdx", "CsLab">>
OpTab == <<"q", "Q", "cm", "w", "d", "BT", "ET", "Tc", "Tw", "Tz", "TL", "Tf", "Ts", "Td", "TD", "Tm", "T*", "Tj", "TJ", "'", "\"",
           "g", "G", "rg", "RG", "k", "K", "cs", "CS", "sc", "scn", "SC", "SCN", "m", "l", "c", "v", "y", "h", "re",
           "S", "s", "f", "F", "f*", "B", "B*", "b", "b*", "n", "Do", "zz",
           \* operators that take operands but change nothing of the modelled state (marked content, compatibility sections,
           \* clipping, the graphics-state parameters no shape reports, shading, rendering mode, ExtGState)
           "BMC", "BDC", "EMC", "MP", "DP", "BX", "EX", "W", "W*", "J", "j", "M", "i", "ri", "gs", "Tr", "sh">>
IdxOf(tab, x) == CHOOSE i \in 1..Len(tab) : tab[i] = x
Nam(s)  == [t |-> "name", n |-> 0, s |-> <<IdxOf(NameTab, s)>>, a |-> <<>>]
Arr(a)  == [t |-> "arr", n |-> 0, s |-> <<>>, a |-> a]        \* a: sequence of Num/Str tokens
Op(o)   == [t |-> "op", n |-> 0, s |-> <<IdxOf(OpTab, o)>>, a |-> <<>>]
NameStr(tok) == NameTab[tok.s[1]]
OpStr(tok) == OpTab[tok.s[1]]
IsNum(x) == x.t = "num"

\* form XObjects.  Resource names are local to a resource dictionary: the page's /XObject dictionary is PageXO; a form
\* with a /Resources dictionary of its own (own = TRUE) sees only the XObjects that dictionary lists (xo), a form
\* without one sees what its caller sees.
CONSTANTS Forms,     \* function from form key to [m |-> matrix (pts), body |-> token sequence, own |-> BOOLEAN,
                     \*   xo |-> name -> form key, fo |-> name -> font key  (the form's own /XObject and /Font resources)]
          PageXO,    \* function from the names in the page's /XObject dictionary to form keys
          PageFonts  \* function from the names in the page's /Font dictionary to font keys

\* ------------------------------------------------------------------ state
TS0 == [font |-> "", size |-> 0, tc |-> 0, tw |-> 0, tz |-> 100, tl |-> 0, rise |-> 0,
        tm |-> Ident, lx |-> 0, ly |-> 0]              \* tm: e,f in u; lx,ly: pen offset in the line, u
GS0 == [lw |-> 0, dash |-> <<>>, sc |-> <<>>, nc |-> <<>>]   \* colour <<>> = never set
State0(ctm, env, fenv) == [ctm |-> ctm, dctm |-> ctm, env |-> env, fenv |-> fenv, gstack |-> <<>>, ts |-> TS0, gs |-> GS0,
                scs |-> "DeviceGray", ncs |-> "DeviceGray", path |-> <<>>, args |-> <<>>,
                glyphs |-> <<>>, shapes |-> <<>>, err |-> "none"]

NArgs(o) == CASE o \in {"q", "Q", "BT", "ET", "T*", "h", "S", "s", "f", "F", "f*", "B", "B*", "b", "b*", "n", "W", "W*",
                        "sc", "scn", "SC", "SCN", "EMC", "BX", "EX"} -> 0
              [] o \in {"Tc", "Tw", "Tz", "TL", "Ts", "Tr", "Tj", "TJ", "'", "g", "G", "w", "cs", "CS", "Do", "J", "j", "M", "i", "ri", "gs",
                        "BMC", "MP", "sh"} -> 1
              [] o \in {"Td", "TD", "Tf", "m", "l", "d", "BDC", "DP"} -> 2
              [] o \in {"rg", "RG", "\""} -> 3
              [] o \in {"k", "K", "re", "v", "y"} -> 4
              [] o \in {"cm", "Tm", "c"} -> 6
              [] OTHER -> -1
AllNum(q) == \A i \in 1..Len(q) : IsNum(q[i])
NumsOf(q) == [i \in 1..Len(q) |-> q[i].n]

\* ------------------------------------------------------------------ text showing
\* one glyph at pen offset (x, y) of the current line
GlyphAt(st, x, y, cid) ==
  LET ts == st.ts
      m == Mult(ts.tm, CtmU(st.dctm))                       \* device: textstate.matrix x device CTM
      mt == <<m[1], m[2], m[3], m[4], x * m[1] + y * m[3] + m[5], x * m[2] + y * m[4] + m[6]>>
      adv == FontW(ts.font, cid) * ts.size * ts.tz
      d == FontDesc(ts.font) * ts.size * 100
  IN [m |-> mt, adv |-> adv, font |-> ts.font, size |-> ts.size, cid |-> cid, nc |-> st.gs.nc,
      bbox |-> ApplyRect(mt, 0, d + ts.rise * U, adv, d + ts.rise * U + ts.size * U)]

\* showing a TJ sequence: returns <<new lx, glyph list>>  (horizontal writing)
\* intended (ISO 9.4.4): tx = ((w0 - Tj/1000) * Tfs + Tc + Tw) * Th after EVERY glyph
\* as coded: Tc before every glyph except the first of the operator; also after a leading number
RECURSIVE ShowCodes(_, _, _, _, _)
ShowCodes(st, x, cs, need, acc) ==
  IF cs = <<>> THEN <<x, acc, need>>
  ELSE LET ts == st.ts
           cid == Head(cs)
           csp == ts.tc * ts.tz * 1000
           wsp == IF cid = 32 /\ ~FontMB(ts.font) THEN ts.tw * ts.tz * 1000 ELSE 0
           x0 == IF "TcNotTrailing" \in Dev THEN (IF need THEN x + csp ELSE x) ELSE x
           g == GlyphAt(st, x0, ts.ly, cid)
           x1 == IF "TcNotTrailing" \in Dev THEN x0 + g.adv + wsp ELSE x0 + g.adv + csp + wsp
       IN ShowCodes(st, x1, Tail(cs), TRUE, Append(acc, g))
RECURSIVE ShowSeq(_, _, _, _, _)
ShowSeq(st, x, seq, need, acc) ==
  IF seq = <<>> THEN <<x, acc>>
  ELSE LET e == Head(seq) IN
       IF e.t = "num" THEN ShowSeq(st, x - e.n * st.ts.size * st.ts.tz, Tail(seq), TRUE, acc)
       ELSE IF e.t = "str"
            THEN LET r == ShowCodes(st, x, Codes(st.ts.font, e.s), need, acc) IN ShowSeq(st, r[1], Tail(seq), r[3], r[2])
            ELSE ShowSeq(st, x, Tail(seq), need, acc)
Show(st, seq) ==
  IF st.ts.font = "" THEN st
  ELSE LET r == ShowSeq(st, st.ts.lx, seq, FALSE, <<>>) IN
       [st EXCEPT !.ts.lx = r[1], !.glyphs = st.glyphs \o r[2]]

TStar(st) == LET tm == st.ts.tm  l == -st.ts.tl * U IN
             [st EXCEPT !.ts.tm = <<tm[1], tm[2], tm[3], tm[4], l * tm[3] + tm[5], l * tm[4] + tm[6]>>,
                        !.ts.lx = 0, !.ts.ly = 0]
TdMove(st, tx, ty) == LET tm == st.ts.tm IN
             [st EXCEPT !.ts.tm = <<tm[1], tm[2], tm[3], tm[4], tx * U * tm[1] + ty * U * tm[3] + tm[5],
                                    tx * U * tm[2] + ty * U * tm[4] + tm[6]>>,
                        !.ts.lx = 0, !.ts.ly = 0]

\* ------------------------------------------------------------------ path painting (PDFLayoutAnalyzer.paint_path)
\* path segments: <<"m", x, y>>, <<"l", x, y>>, <<"c", x1,y1,x2,y2,x3,y3>>, <<"v"/"y", ..4..>>, <<"h">>
SegEnd(seg, start) == IF seg[1] = "h" THEN start ELSE <<seg[Len(seg) - 1], seg[Len(seg)]>>
ShapeStr(p) == [i \in 1..Len(p) |-> p[i][1]]
\* split a path at every "m"
RECURSIVE SplitSub(_, _, _)
SplitSub(p, cur, acc) ==
  IF p = <<>> THEN (IF cur = <<>> THEN acc ELSE Append(acc, cur))
  ELSE IF Head(p)[1] = "m" THEN SplitSub(Tail(p), <<Head(p)>>, IF cur = <<>> THEN acc ELSE Append(acc, cur))
  ELSE SplitSub(Tail(p), Append(cur, Head(p)), acc)
OneShape(st, sub, stroke, fill, eo) ==
  LET start == <<sub[1][2], sub[1][3]>>
      raw == [i \in 1..Len(sub) |-> SegEnd(sub[i], start)]
      pts0 == [i \in 1..Len(raw) |-> ApplyPt(st.dctm, raw[i][1], raw[i][2])]
      shp0 == ShapeStr(sub)
      n == Len(shp0)
      drop == n > 3 /\ shp0[n - 1] = "l" /\ shp0[n] = "h" /\ pts0[n - 1] = pts0[1]      \* redundant closing l
      shp == IF drop THEN SubSeq(shp0, 1, n - 2) \o <<"h">> ELSE shp0
      pts == IF drop THEN SubSeq(pts0, 1, n - 2) \o <<pts0[n]>> ELSE pts0
      isline == shp = <<"m", "l", "h">> \/ shp = <<"m", "l">>
      four == shp = <<"m", "l", "l", "l", "h">> \/ shp = <<"m", "l", "l", "l", "l">>
      closed == four /\ pts[1] = pts[5]
      square == four /\ (\/ (pts[1][1] = pts[2][1] /\ pts[2][2] = pts[3][2] /\ pts[3][1] = pts[4][1] /\ pts[4][2] = pts[1][2])
                         \/ (pts[1][2] = pts[2][2] /\ pts[2][1] = pts[3][1] /\ pts[3][2] = pts[4][2] /\ pts[4][1] = pts[1][1]))
      kind == IF isline THEN "line" ELSE IF closed /\ square THEN "rect" ELSE "curve"
  IN [kind |-> kind, pts |-> pts, stroke |-> stroke, fill |-> fill, eo |-> eo, lw |-> st.gs.lw, dash |-> st.gs.dash,
      sc |-> st.gs.sc, nc |-> st.gs.nc, nseg |-> Len(sub) - 1]
Paint(st, stroke, fill, eo) ==
  LET p == st.path
      subs == IF p = <<>> \/ p[1][1] # "m" THEN <<>> ELSE SplitSub(p, <<>>, <<>>)
      \* "m[^m]+": a subpath consisting of the m alone has no segment and paints nothing (intended design)
      \* as coded ("LoneMoveShape"): a path that is one lone `m` (and nothing else) still yields a one-point curve
      real == IF "LoneMoveShape" \in Dev /\ Len(p) = 1 /\ p[1][1] = "m" THEN subs ELSE SelectSeq(subs, LAMBDA s : Len(s) > 1)
  IN [st EXCEPT !.shapes = st.shapes \o [i \in 1..Len(real) |-> OneShape(st, real[i], stroke, fill, eo)], !.path = <<>>]

\* ------------------------------------------------------------------ operators
RECURSIVE Run(_, _), Exec(_, _, _)
SetColor(st, which, q) == IF which = "n" THEN [st EXCEPT !.gs.nc = q] ELSE [st EXCEPT !.gs.sc = q]
DoForm(st, name) ==
  IF name \notin DOMAIN st.env THEN st
  ELSE LET f == Forms[st.env[name]]
           inner0 == State0(Mult(f.m, st.ctm), IF f.own THEN f.xo ELSE st.env, IF f.own THEN f.fo ELSE st.fenv)
           inner1 == IF "FormNoGsInherit" \in Dev THEN inner0
                     ELSE [inner0 EXCEPT !.gs = st.gs, !.scs = st.scs, !.ncs = st.ncs,
                                         !.ts = [st.ts EXCEPT !.tm = Ident, !.lx = 0, !.ly = 0]]
           fin == Run(inner1, f.body)
       IN [st EXCEPT !.glyphs = st.glyphs \o fin.glyphs, !.shapes = st.shapes \o fin.shapes,
                     !.dctm = IF "FormCtmLeak" \in Dev THEN fin.dctm ELSE st.ctm,
                     !.err = fin.err]

\* scn/sc/SCN/SC take their operands from the stack themselves
SetColorN(st, which) ==
  LET cs == IF which = "n" THEN st.ncs ELSE st.scs
      n == CSN(cs)
      have == Len(st.args) IN
  IF n = 0 THEN st
  ELSE IF have < n
       THEN IF "ScnShortRaises" \in Dev THEN [st EXCEPT !.err = "IndexError/TypeError"]
            ELSE [st EXCEPT !.args = <<>>]
  ELSE LET q == SubSeq(st.args, have - n + 1, have)
           rest == SubSeq(st.args, 1, have - n) IN
       IF AllNum(q) THEN [SetColor(st, which, NumsOf(q)) EXCEPT !.args = rest] ELSE [st EXCEPT !.args = rest]

Exec(st, o, a) ==            \* a: the operands popped for operator o (exactly NArgs(o) of them)
  \* the current colour spaces are part of the graphics state (ISO 32000-1 table 52) and are saved and restored with it;
  \* as coded ("QKeepsColorSpace") q/Q saved ctm, text state and the PDFGraphicState object only
  CASE o = "q"  -> [st EXCEPT !.gstack = Append(st.gstack, [ctm |-> st.ctm, ts |-> st.ts, gs |-> st.gs, scs |-> st.scs, ncs |-> st.ncs])]
    [] o = "Q"  -> IF st.gstack = <<>> THEN st
                   ELSE LET top == st.gstack[Len(st.gstack)] IN
                        [st EXCEPT !.gstack = SubSeq(st.gstack, 1, Len(st.gstack) - 1),
                                   !.ctm = top.ctm, !.dctm = top.ctm, !.ts = top.ts, !.gs = top.gs,
                                   !.scs = IF "QKeepsColorSpace" \in Dev THEN st.scs ELSE top.scs,
                                   !.ncs = IF "QKeepsColorSpace" \in Dev THEN st.ncs ELSE top.ncs]
    [] o = "cm" -> IF AllNum(a) THEN LET m == Mult(NumsOf(a), st.ctm) IN [st EXCEPT !.ctm = m, !.dctm = m] ELSE st
    [] o = "BT" -> [st EXCEPT !.ts.tm = Ident, !.ts.lx = 0, !.ts.ly = 0]
    [] o = "ET" -> st
    [] o = "Tc" -> IF IsNum(a[1]) THEN [st EXCEPT !.ts.tc = a[1].n] ELSE st
    [] o = "Tw" -> IF IsNum(a[1]) THEN [st EXCEPT !.ts.tw = a[1].n] ELSE st
    [] o = "Tz" -> IF IsNum(a[1]) THEN [st EXCEPT !.ts.tz = a[1].n] ELSE st
    [] o = "TL" -> IF IsNum(a[1]) THEN [st EXCEPT !.ts.tl = a[1].n] ELSE st
    [] o = "Ts" -> IF IsNum(a[1]) THEN [st EXCEPT !.ts.rise = a[1].n] ELSE st
    \* the font NAME is looked up in the font resources in force (the page's, or the form's own) when Tf executes; the
    \* text state keeps the font itself, which a form without resources of its own inherits from its caller
    [] o = "Tf" -> LET s1 == IF a[1].t = "name" /\ NameStr(a[1]) \in DOMAIN st.fenv
                             THEN [st EXCEPT !.ts.font = st.fenv[NameStr(a[1])]] ELSE st IN
                   IF IsNum(a[2]) THEN [s1 EXCEPT !.ts.size = a[2].n] ELSE s1
    [] o = "Td" -> IF AllNum(a) THEN TdMove(st, a[1].n, a[2].n) ELSE [st EXCEPT !.ts.lx = 0, !.ts.ly = 0]
    [] o = "TD" -> LET s1 == IF AllNum(a) THEN TdMove(st, a[1].n, a[2].n) ELSE [st EXCEPT !.ts.lx = 0, !.ts.ly = 0] IN
                   IF IsNum(a[2]) THEN [s1 EXCEPT !.ts.tl = -a[2].n] ELSE s1
    [] o = "Tm" -> IF AllNum(a) THEN LET q == NumsOf(a) IN
                        [st EXCEPT !.ts.tm = <<q[1], q[2], q[3], q[4], q[5] * U, q[6] * U>>, !.ts.lx = 0, !.ts.ly = 0]
                   ELSE st
    [] o = "T*" -> TStar(st)
    [] o = "Tj" -> Show(st, <<a[1]>>)
    [] o = "TJ" -> IF a[1].t = "arr" THEN Show(st, a[1].a) ELSE st
    [] o = "'"  -> Show(TStar(st), <<a[1]>>)
    [] o = "\"" -> LET s1 == IF IsNum(a[1]) THEN [st EXCEPT !.ts.tw = a[1].n] ELSE st
                       s2 == IF IsNum(a[2]) THEN [s1 EXCEPT !.ts.tc = a[2].n] ELSE s1
                       s3 == IF "DQuoteNoTstar" \in Dev THEN s2 ELSE TStar(s2)
                   IN Show(s3, <<a[3]>>)
    [] o = "w"  -> IF IsNum(a[1]) THEN [st EXCEPT !.gs.lw = a[1].n] ELSE st
    [] o = "d"  -> [st EXCEPT !.gs.dash = <<IF a[1].t = "arr" THEN NumsOf(a[1].a) ELSE <<>>, a[2].n>>]
    [] o = "g"  -> IF IsNum(a[1]) THEN [st EXCEPT !.gs.nc = <<a[1].n>>, !.ncs = "DeviceGray"] ELSE st
    [] o = "G"  -> IF IsNum(a[1]) THEN [st EXCEPT !.gs.sc = <<a[1].n>>, !.scs = "DeviceGray"] ELSE st
    [] o = "rg" -> IF AllNum(a) THEN [st EXCEPT !.gs.nc = NumsOf(a), !.ncs = "DeviceRGB"] ELSE st
    [] o = "RG" -> IF AllNum(a) THEN [st EXCEPT !.gs.sc = NumsOf(a), !.scs = "DeviceRGB"] ELSE st
    [] o = "k"  -> IF AllNum(a) THEN [st EXCEPT !.gs.nc = NumsOf(a), !.ncs = "DeviceCMYK"] ELSE st
    [] o = "K"  -> IF AllNum(a) THEN [st EXCEPT !.gs.sc = NumsOf(a), !.scs = "DeviceCMYK"] ELSE st
    [] o = "cs" -> IF a[1].t = "name" /\ CSN(NameStr(a[1])) # 0
                   THEN [st EXCEPT !.ncs = NameStr(a[1]),
                                   !.gs.nc = IF "CsNoColorReset" \in Dev THEN st.gs.nc ELSE CSInit(NameStr(a[1]))]
                   ELSE st
    [] o = "CS" -> IF a[1].t = "name" /\ CSN(NameStr(a[1])) # 0
                   THEN [st EXCEPT !.scs = NameStr(a[1]),
                                   !.gs.sc = IF "CsNoColorReset" \in Dev THEN st.gs.sc ELSE CSInit(NameStr(a[1]))]
                   ELSE st
    [] o \in {"sc", "scn"} -> SetColorN(st, "n")
    [] o \in {"SC", "SCN"} -> SetColorN(st, "s")
    [] o = "m"  -> IF AllNum(a) THEN [st EXCEPT !.path = Append(st.path, <<"m", a[1].n, a[2].n>>)] ELSE st
    [] o = "l"  -> IF AllNum(a) THEN [st EXCEPT !.path = Append(st.path, <<"l", a[1].n, a[2].n>>)] ELSE st
    [] o = "c"  -> IF AllNum(a) THEN [st EXCEPT !.path = Append(st.path, <<"c">> \o NumsOf(a))] ELSE st
    [] o = "v"  -> IF AllNum(a) THEN [st EXCEPT !.path = Append(st.path, <<"v">> \o NumsOf(a))] ELSE st
    [] o = "y"  -> IF AllNum(a) THEN [st EXCEPT !.path = Append(st.path, <<"y">> \o NumsOf(a))] ELSE st
    [] o = "h"  -> [st EXCEPT !.path = Append(st.path, <<"h">>)]
    [] o = "re" -> IF AllNum(a)
                   THEN LET x == a[1].n  y == a[2].n  w == a[3].n  h == a[4].n IN
                        [st EXCEPT !.path = st.path \o <<<<"m", x, y>>, <<"l", x + w, y>>, <<"l", x + w, y + h>>,
                                                        <<"l", x, y + h>>, <<"h">>>>]
                   ELSE st
    [] o = "S"  -> Paint(st, TRUE, FALSE, FALSE)
    [] o = "s"  -> Paint([st EXCEPT !.path = Append(st.path, <<"h">>)], TRUE, FALSE, FALSE)
    [] o \in {"f", "F"} -> Paint(st, FALSE, TRUE, FALSE)
    [] o = "f*" -> Paint(st, FALSE, TRUE, TRUE)
    [] o = "B"  -> Paint(st, TRUE, TRUE, FALSE)
    [] o = "B*" -> Paint(st, TRUE, TRUE, TRUE)
    [] o = "b"  -> Paint([st EXCEPT !.path = Append(st.path, <<"h">>)], TRUE, TRUE, FALSE)
    [] o = "b*" -> Paint([st EXCEPT !.path = Append(st.path, <<"h">>)], TRUE, TRUE, TRUE)
    [] o = "n"  -> [st EXCEPT !.path = <<>>]
    [] o = "Do" -> IF a[1].t = "name" THEN DoForm(st, NameStr(a[1])) ELSE st
    [] OTHER -> st

\* execute(): operands are pushed; an operator pops its operands and is skipped when too few are there
StepTok(st, tok) ==
  IF tok.t # "op" THEN [st EXCEPT !.args = Append(st.args, tok)]
  ELSE LET o == OpStr(tok)  n == NArgs(o)  have == Len(st.args) IN
       IF n < 0 THEN st                                   \* unknown operator: ignored
       ELSE IF n = 0 THEN Exec(st, o, <<>>)
       ELSE IF have < n THEN [st EXCEPT !.args = <<>>]     \* pop(n) takes what is there; the operator is skipped
       ELSE Exec([st EXCEPT !.args = SubSeq(st.args, 1, have - n)], o, SubSeq(st.args, have - n + 1, have))

Run(st, prog) == IF prog = <<>> \/ st.err # "none" THEN st ELSE Run(StepTok(st, Head(prog)), Tail(prog))

\* ------------------------------------------------------------------ the machine (one token per step)
VARIABLES prog, pc, st, snaps
vars == <<dev, prog, pc, st, snaps>>
CONSTANTS DevChoices,      \* set of deviation sets to run every program under
          MixTokens,       \* > 0: the program is extended with instances drawn from MixPool while it is shorter (used
          MixPool          \*      with `tlc -simulate` for long programs mixing all operator groups); 0: fixed program

Start(p, ctm) == dev \in DevChoices /\ prog = p /\ pc = 1 /\ st = State0(ctm, PageXO, PageFonts) /\ snaps = <<>>

Snap(s) == [ctm |-> s.ctm, dctm |-> s.dctm, tm |-> s.ts.tm, lx |-> s.ts.lx, font |-> s.ts.font, size |-> s.ts.size,
            tc |-> s.ts.tc, tw |-> s.ts.tw, tz |-> s.ts.tz, tl |-> s.ts.tl, rise |-> s.ts.rise,
            lw |-> s.gs.lw, sc |-> s.gs.sc, nc |-> s.gs.nc, npath |-> Len(s.path), depth |-> Len(s.gstack),
            nargs |-> Len(s.args)]
CurTok == prog[pc]
IsOp(k) == pc <= Len(prog) /\ st.err = "none" /\ CurTok.t = "op" /\ OpStr(CurTok) \in k
Adv == /\ st' = StepTok(st, CurTok) /\ pc' = pc + 1 /\ UNCHANGED <<prog, dev>>
       \* a snapshot per operator that is actually dispatched (known operator with enough operands)
       /\ snaps' = IF CurTok.t = "op" /\ NArgs(OpStr(CurTok)) >= 0 /\ Len(st.args) >= NArgs(OpStr(CurTok))
                   THEN Append(snaps, Snap(StepTok(st, CurTok))) ELSE snaps

APushOperand == pc <= Len(prog) /\ st.err = "none" /\ CurTok.t # "op" /\ Adv
AGState   == IsOp({"q", "Q", "cm", "w", "d"}) /\ Adv
ATextObj  == IsOp({"BT", "ET"}) /\ Adv
ATextState == IsOp({"Tc", "Tw", "Tz", "TL", "Tf", "Ts"}) /\ Adv
ATextPos  == IsOp({"Td", "TD", "Tm", "T*"}) /\ Adv
AShow     == IsOp({"Tj", "TJ", "'", "\""}) /\ Adv
AColor    == IsOp({"g", "G", "rg", "RG", "k", "K", "cs", "CS", "sc", "scn", "SC", "SCN"}) /\ Adv
APath     == IsOp({"m", "l", "c", "v", "y", "h", "re"}) /\ Adv
APaint    == IsOp({"S", "s", "f", "F", "f*", "B", "B*", "b", "b*", "n"}) /\ Adv
ADo       == IsOp({"Do"}) /\ Adv
APassThrough == IsOp({"BMC", "BDC", "EMC", "MP", "DP", "BX", "EX", "W", "W*", "J", "j", "M", "i", "ri", "gs", "Tr", "sh"}) /\ Adv
AUnknown  == pc <= Len(prog) /\ st.err = "none" /\ CurTok.t = "op" /\ NArgs(OpStr(CurTok)) < 0 /\ Adv
\* (simulation of long mixed programs) append one more operator instance when the program has been executed
AExtend == /\ pc > Len(prog) /\ st.err = "none" /\ Len(prog) < MixTokens
           /\ \E ins \in MixPool : prog' = prog \o ins
           /\ UNCHANGED <<dev, pc, st, snaps>>
Next == AExtend \/ APushOperand \/ AGState \/ ATextObj \/ ATextState \/ ATextPos \/ AShow \/ AColor \/ APath \/ APaint \/ ADo \/ APassThrough \/ AUnknown

Done == (pc > Len(prog) /\ Len(prog) >= MixTokens) \/ st.err # "none"

\* ------------------------------------------------------------------ properties
\* the matrix the device applies is the interpreter's CTM whenever something is emitted (and always)
DevCtmInSync == "FormCtmLeak" \notin dev => st.dctm = st.ctm
\* painting operators and n leave no path behind (action property)
NoResidue == [][ (pc' = pc + 1 /\ CurTok.t = "op" /\
                  OpStr(CurTok) \in {"S", "s", "f", "F", "f*", "B", "B*", "b", "b*", "n"}) => st'.path = <<>> ]_vars
\* Q restores what the matching q saved (action property): after Q the state equals the saved one
QRestores == [][ (pc' = pc + 1 /\ CurTok.t = "op" /\ OpStr(CurTok) = "Q" /\ st.gstack # <<>>) =>
                   LET top == st.gstack[Len(st.gstack)] IN
                   st'.ctm = top.ctm /\ st'.dctm = top.ctm /\ st'.ts = top.ts /\ st'.gs = top.gs
                   /\ ("QKeepsColorSpace" \notin dev => st'.scs = top.scs /\ st'.ncs = top.ncs) ]_vars
\* a form XObject changes nothing of the caller's state but the outputs (action property)
FormTransparent == [][ (pc' = pc + 1 /\ CurTok.t = "op" /\ OpStr(CurTok) = "Do") =>
                         st'.ctm = st.ctm /\ ("FormCtmLeak" \notin dev => st'.dctm = st.ctm) /\ st'.ts = st.ts /\ st'.gs = st.gs
                         /\ st'.gstack = st.gstack /\ st'.path = st.path ]_vars
\* an operator whose operands are missing or ill-typed changes nothing but the operand stack (action property)
BadOperandsFrame ==
  [][ (pc' = pc + 1 /\ CurTok.t = "op" /\ NArgs(OpStr(CurTok)) > 0 /\ Len(st.args) < NArgs(OpStr(CurTok))) =>
        [st' EXCEPT !.args = <<>>] = [st EXCEPT !.args = <<>>] ]_vars
\* every operator changes only the state components its frame (InterpFrame.tla) allows
FrameOK == [][ (pc' = pc + 1 /\ CurTok.t = "op") =>
                 LET f == Frame(OpStr(CurTok)) IN
                 /\ (st'.ctm # st.ctm => "ctm" \in f) /\ (st'.ts # st.ts => "ts" \in f) /\ (st'.gs # st.gs => "gs" \in f)
                 /\ (Len(st'.path) # Len(st.path) => "path" \in f) /\ (Len(st'.gstack) # Len(st.gstack) => "depth" \in f) ]_vars
NoError == "ScnShortRaises" \notin dev => st.err = "none"

\* intended result and blame (deviations that alone already change the outputs)
EmitTerminal ==
  Done => PrintT("@@" \o ToJson([dev |-> dev, prog |-> prog, glyphs |-> st.glyphs, shapes |-> st.shapes, err |-> st.err, snaps |-> snaps]))
=============================================================================
