------------------------- MODULE ContentInterpTrace -------------------------
(***************************************************************************)
(* Binding B for C05/C16: operator-level traces recorded from the real     *)
(* PDFPageInterpreter on the pages of real documents.  Operands there are  *)
(* arbitrary reals, so each state component is logged as an opaque id      *)
(* (equal ids <=> equal values); the specification checks the control      *)
(* skeleton:                                                               *)
(*   - every operator changes only the components its frame allows;        *)
(*   - q pushes, Q restores exactly the components saved by the matching q *)
(*     (Q on an empty stack changes nothing);                              *)
(*   - painting operators and n leave no path segments;                    *)
(*   - a form/image invocation (Do) leaves the caller's state untouched;   *)
(*   - the matrix the device applies is the interpreter's CTM after every  *)
(*     operator (so at every emission).                                    *)
(* A rejected trace is a deadlock naming trace t and event e.              *)
(***************************************************************************)
EXTENDS InterpFrame, Integers, TLC, Json, IOUtils

Traces == JsonDeserialize(IOEnv.TRACE_FILE)

VARIABLES t, e, cur, stack
vars == <<t, e, cur, stack>>

St0(i) == IF i <= Len(Traces) THEN Traces[i].init ELSE [ctm |-> 0, ts |-> 0, gs |-> 0, npath |-> 0, depth |-> 0, sync |-> TRUE]
Init == t = 1 /\ e = 1 /\ cur = St0(1) /\ stack = <<>>

Changed(a, b) == (IF a.ctm # b.ctm THEN {"ctm"} ELSE {}) \cup (IF a.ts # b.ts THEN {"ts"} ELSE {})
                 \cup (IF a.gs # b.gs THEN {"gs"} ELSE {}) \cup (IF a.npath # b.npath THEN {"path"} ELSE {})
                 \cup (IF a.depth # b.depth THEN {"depth"} ELSE {})

Explained(ev) ==
  LET nx == ev.after IN
  /\ Changed(cur, nx) \subseteq Frame(ev.op)
  /\ nx.sync
  /\ ev.op = "q" => nx.depth = cur.depth + 1
  /\ ev.op = "Q" => IF stack = <<>> THEN Changed(cur, nx) = {}
                    ELSE LET top == stack[Len(stack)] IN
                         nx.depth = cur.depth - 1 /\ nx.ctm = top.ctm /\ nx.ts = top.ts /\ nx.gs = top.gs
  /\ ev.op \in PaintOps => nx.npath = 0
  /\ ev.op \in PathOps => nx.npath >= cur.npath

Step == /\ t <= Len(Traces) /\ e <= Len(Traces[t].events)
        /\ LET ev == Traces[t].events[e] IN
           /\ Explained(ev)
           /\ cur' = ev.after
           /\ stack' = IF ev.op = "q" THEN Append(stack, cur)
                       ELSE IF ev.op = "Q" /\ stack # <<>> THEN SubSeq(stack, 1, Len(stack) - 1) ELSE stack
        /\ e' = e + 1 /\ UNCHANGED t
NextTrace == /\ t <= Len(Traces) /\ e > Len(Traces[t].events)
             /\ t' = t + 1 /\ e' = 1 /\ cur' = St0(t + 1) /\ stack' = <<>>
Finished == t > Len(Traces) /\ UNCHANGED vars
Next == Step \/ NextTrace \/ Finished
Spec == Init /\ [][Next]_vars

StackDepthAgrees == Len(stack) = cur.depth
=============================================================================
