------------------------- MODULE MC_ContentInterp -------------------------
(* program enumeration for ContentInterp: operator-instance groups, all programs up to a length per group *)
EXTENDS ContentInterp

N(n) == Num(n)
I1(o, a) == <<a, Op(o)>>
Ins(o, q) == q \o <<Op(o)>>
Nm(s) == Nam(s)

\* form XObjects of the generated documents
FormDefs == [Fm1 |-> [m |-> <<2, 0, 0, 2, 10, 10>>, own |-> TRUE, xo |-> <<>>, fo |-> [F1 |-> "F1"],
                      body |-> <<Op("BT"), Nm("F1"), N(10), Op("Tf"), Str(<<65>>), Op("Tj"), Op("ET"),
                                 N(0), N(0), N(5), N(5), Op("re"), Op("f"), N(3), N(0), N(0), N(3), N(0), N(0), Op("cm")>>],
             Fm2 |-> [m |-> Ident, own |-> FALSE, xo |-> <<>>, fo |-> <<>>,
                      body |-> <<N(0), N(1), N(0), Op("rg"), N(2), Op("w"), Op("q"), Op("BT"), Nm("F1"), N(20), Op("Tf"), N(2), Op("Tc"),
                                 Str(<<66, 65>>), Op("Tj"), Op("ET"), N(1), N(1), Op("m"), N(4), N(1), Op("l"), Op("S"),
                                 \* (a form without /Matrix that changes the CTM and never restores it: none of the caller's business)
                                 N(2), N(0), N(0), N(2), N(3), N(3), Op("cm")>>],
             \* (in Fm3 the NAME F1 means another font, F1b: same /BaseFont, other widths, written as a direct dictionary)
             \* nesting and name scoping: Fm3 has its own resources in which the NAME Fm1 means another form (Fm4), its own
             \* name Fm3 means Fm4 too (not a recursion: names are local to a resource dictionary), and Fm2 is not visible; Fm4 has no resources of its own, so inside it Fm1 still means Fm4's sibling entry
             Fm3 |-> [m |-> <<1, 0, 0, 1, 5, 0>>, own |-> TRUE, xo |-> [Fm1 |-> "Fm4", Fm3 |-> "Fm4"], fo |-> [F1 |-> "F1b"],
                      body |-> <<Op("BT"), Nm("F1"), N(10), Op("Tf"), Str(<<66>>), Op("Tj"), Op("ET"), Nm("Fm1"), Op("Do"),
                                 Nm("Fm3"), Op("Do"), Nm("Fm2"), Op("Do"), Op("BT"), Nm("F1"), N(10), Op("Tf"), Str(<<65>>), Op("Tj"), Op("ET")>>],
             \* a form that sets colours without choosing a colour space: the spaces are the caller's (ISO 8.10.1)
             Fm5 |-> [m |-> Ident, own |-> FALSE, xo |-> <<>>, fo |-> <<>>,
                      body |-> <<N(1), N(0), N(1), Op("sc"), N(0), N(1), N(1), N(0), Op("SC"), N(0), N(0), N(2), N(2), Op("re"), Op("B")>>],
             Fm4 |-> [m |-> <<1, 0, 0, 1, 0, 7>>, own |-> FALSE, xo |-> <<>>, fo |-> <<>>,
                      body |-> <<N(1), N(0), N(0), Op("rg"), Op("BT"), Nm("F1"), N(10), Op("Tf"), Str(<<65, 66>>), Op("Tj"), Op("ET")>>]]
PageXODef == [Fm1 |-> "Fm1", Fm2 |-> "Fm2", Fm3 |-> "Fm3", Fm5 |-> "Fm5"]
PageFontsDef == [F1 |-> "F1", F2 |-> "F2"]

PreText == <<Op("BT"), Nm("F1"), N(10), Op("Tf")>>
A == <<65>>  AB == <<65, 66>>  ASB == <<65, 32, 66>>

GPos == { Ins("Td", <<N(3), N(0)>>), Ins("Td", <<N(0), N(-2)>>), Ins("TD", <<N(1), N(-3)>>),
          Ins("Tm", <<N(1), N(0), N(0), N(1), N(5), N(5)>>), Ins("Tm", <<N(2), N(0), N(0), N(2), N(0), N(0)>>),
          Ins("Tm", <<N(1), N(0), N(1), N(1), N(0), N(0)>>),        \* a pure shear (synthetic italic): c # 0, b = 0
          <<Op("T*")>>, Ins("TL", <<N(4)>>), Ins("Tj", <<Str(AB)>>), Ins("'", <<Str(A)>>),
          Ins("Td", <<N(0), N(0)>>), Ins("TD", <<N(0), N(0)>>) }
GSpace == { Ins("Tc", <<N(1)>>), Ins("Tc", <<N(3)>>), Ins("Tw", <<N(2)>>), Ins("Tz", <<N(200)>>), Ins("Tz", <<N(50)>>),
            Ins("Ts", <<N(2)>>), Ins("Tj", <<Str(ASB)>>), Ins("Tj", <<Str(<<67, 65, 68, 65>>)>>), Ins("TJ", <<Arr(<<Str(A), N(-100), Str(AB)>>)>>),
            Ins("TJ", <<Arr(<<N(-200), Str(A)>>)>>), Ins("TJ", <<Arr(<<N(-500)>>)>>), Ins("TJ", <<Arr(<<Str(<<>>), N(300), Str(<<>>)>>)>>), Ins("\"", <<N(2), N(1), Str(AB)>>),
            Ins("Tf", <<Nm("F2"), N(10)>>) \o Ins("Tj", <<Str(<<0, 65, 0, 32>>)>>) \o Ins("Tf", <<Nm("F1"), N(10)>>) }
GState == { <<Op("q")>>, <<Op("Q")>>, Ins("cm", <<N(2), N(0), N(0), N(2), N(1), N(1)>>), Ins("cm", <<N(0), N(1), N(-1), N(0), N(0), N(0)>>),
            Ins("cm", <<N(1), N(1), N(0), N(1), N(0), N(0)>>),      \* a pure shear: b # 0, c = 0
            Ins("Do", <<Nm("Fm1")>>), Ins("Do", <<Nm("Fm2")>>), Ins("Do", <<Nm("Fm3")>>), Ins("Tj", <<Str(A)>>), Ins("rg", <<N(1), N(0), N(0)>>),
            Ins("Tc", <<N(1)>>), Ins("re", <<N(0), N(0), N(2), N(3)>>) \o <<Op("B")>> }
GPath == { Ins("m", <<N(0), N(0)>>), Ins("l", <<N(5), N(0)>>), Ins("l", <<N(5), N(4)>>), Ins("l", <<N(0), N(4)>>), Ins("l", <<N(0), N(0)>>),
           <<Op("h")>>, Ins("re", <<N(1), N(1), N(4), N(3)>>), Ins("re", <<N(5), N(5), N(-4), N(3)>>), Ins("re", <<N(5), N(5), N(-4), N(-3)>>), Ins("c", <<N(1), N(2), N(3), N(4), N(5), N(6)>>),
           <<Op("S")>>, <<Op("f*")>>, <<Op("b")>>, <<Op("n")>>, Ins("m", <<N(7), N(7)>>) }
GPathCtm == { Ins("cm", <<N(0), N(1), N(-1), N(0), N(3), N(0)>>), Ins("cm", <<N(1), N(1), N(0), N(1), N(0), N(0)>>),
              Ins("re", <<N(1), N(1), N(4), N(3)>>), Ins("m", <<N(0), N(0)>>) \o Ins("l", <<N(5), N(0)>>),
              Ins("l", <<N(5), N(4)>>) \o Ins("l", <<N(0), N(4)>>), Ins("l", <<N(0), N(0)>>), <<Op("h")>>,
              <<Op("B*")>>, <<Op("s")>>, <<Op("q")>>, <<Op("Q")>>, Ins("w", <<N(3)>>), Ins("d", <<Arr(<<N(4), N(1)>>), N(3)>>),
              Ins("v", <<N(1), N(2), N(3), N(4)>>), Ins("y", <<N(1), N(2), N(3), N(4)>>) }
\* every painting operator after every kind of (possibly open, possibly empty) path
GPaint == { Ins("m", <<N(0), N(0)>>) \o Ins("l", <<N(5), N(0)>>) \o Ins("l", <<N(5), N(4)>>), Ins("re", <<N(1), N(1), N(4), N(3)>>),
            Ins("m", <<N(2), N(2)>>), <<Op("h")>>,
            <<Op("S")>>, <<Op("s")>>, <<Op("f")>>, <<Op("F")>>, <<Op("f*")>>, <<Op("B")>>, <<Op("B*")>>, <<Op("b")>>, <<Op("b*")>>, <<Op("n")>> }
Painter == Ins("re", <<N(0), N(0), N(2), N(2)>>) \o <<Op("B")>>
GColor == { Ins("g", <<N(1)>>), Ins("G", <<N(0)>>), Ins("rg", <<N(1), N(0), N(0)>>), Ins("RG", <<N(0), N(1), N(0)>>),
            Ins("k", <<N(0), N(0), N(0), N(1)>>), Ins("K", <<N(1), N(0), N(0), N(0)>>), Ins("cs", <<Nm("DeviceRGB")>>), Ins("CS", <<Nm("DeviceCMYK")>>),
            <<N(1), N(0), N(1), Op("sc")>>, <<N(1), Op("scn")>>, <<N(0), N(1), N(1), N(0), Op("SCN")>>, <<Op("q")>>, <<Op("Q")>>,
            Painter, Ins("Tj", <<Str(A)>>), Ins("Do", <<Nm("Fm5")>>),
            \* a colour space selected between q and Q: the space in force afterwards is the one saved by q
            <<Op("q")>> \o Ins("cs", <<Nm("DeviceRGB")>>) \o <<Op("Q")>>, <<Op("q")>> \o Ins("CS", <<Nm("DeviceCMYK")>>) \o <<Op("Q")>>,
            <<Op("q")>> \o Ins("rg", <<N(0), N(1), N(0)>>) \o <<Op("Q")>>, <<N(1), Op("SC")>> }

\* colour spaces that come from the page's /ColorSpace resources: 1, 2, 3 and 4 components, initial colours 0 / 1, a space
\* that cannot be used; sc/scn/SC/SCN with 1..4 operands under each of them
GColorRes == { Ins("cs", <<Nm("CsI3")>>), Ins("cs", <<Nm("CsN2")>>), Ins("cs", <<Nm("CsSep")>>), Ins("cs", <<Nm("CsBad")>>),
               Ins("cs", <<Nm("CsI4")>>), Ins("cs", <<Nm("CsI1")>>), Ins("CS", <<Nm("CsN3")>>), Ins("CS", <<Nm("CsIdx")>>),
               Ins("CS", <<Nm("CsLab")>>), Ins("CS", <<Nm("CsN2")>>), <<N(1), Op("scn")>>, <<N(1), N(0), Op("scn")>>,
               <<N(1), N(0), N(1), Op("sc")>>, <<N(0), N(1), N(1), N(0), Op("scn")>>, <<N(1), N(0), Op("SCN")>>,
               <<N(0), N(1), N(0), Op("SC")>>, <<Op("q")>>, <<Op("Q")>>, Painter, Ins("Tj", <<Str(A)>>) }

\* operators that consume operands and change nothing the glyphs and shapes report, between operators that do: the
\* operand count of each must be right (an operand left behind is picked up by a later operator that lacks one), `W n`
\* ends a path without painting it, and clipping / marked content / ExtGState leave text and graphics state alone
GPass == { Ins("BMC", <<Nm("x")>>), Ins("BDC", <<Nm("x"), Nm("x")>>), <<Op("EMC")>>, Ins("MP", <<Nm("x")>>), Ins("DP", <<Nm("x"), Nm("x")>>),
           <<Op("BX")>>, <<Op("EX")>>, <<Op("W")>>, <<Op("W*")>>, Ins("J", <<N(1)>>), Ins("j", <<N(2)>>), Ins("M", <<N(4)>>),
           Ins("i", <<N(1)>>), Ins("ri", <<Nm("x")>>), Ins("gs", <<Nm("x")>>), Ins("Tr", <<N(1)>>), Ins("sh", <<Nm("x")>>),
           \* the same with an operand missing or one too many
           <<Op("BDC")>>, <<Nm("x"), Op("BDC")>>, <<N(7), Nm("x"), Op("BMC")>>, <<N(7), N(8), Op("EMC")>>, <<Op("Tr")>>,
           \* and what shows the damage
           Ins("re", <<N(1), N(1), N(4), N(3)>>), <<Op("n")>>, <<Op("S")>>, Ins("Tj", <<Str(A)>>), <<Op("Td")>>, Ins("w", <<N(2)>>), <<Op("w")>> }

\* operators whose operands are missing or ill-typed, between a good prefix and probes that show any damage
BadOps == { <<Op("Tc")>>, <<Nm("x"), Op("Tc")>>, <<N(3), Op("Td")>>, <<Nm("x"), N(1), Op("Td")>>, <<Op("Tf")>>, <<N(1), Op("Tm")>>,
            <<Op("Tj")>>, <<Op("TJ")>>, <<N(5), Op("TJ")>>, <<N(1), N(2), Op("\"")>>, <<Op("cm")>>, <<N(1), N(2), N(3), Op("cm")>>,
            <<Nm("x"), N(0), N(0), N(1), N(0), N(0), Op("cm")>>, <<Op("w")>>, <<Nm("x"), Op("w")>>, <<N(1), Op("m")>>, <<Op("l")>>,
            <<N(1), N(2), N(3), Op("re")>>, <<N(1), N(1), Op("rg")>>, <<Nm("x"), N(1), N(1), Op("rg")>>, <<Op("g")>>, <<Op("k")>>,
            <<Nm("DeviceRGB"), Op("cs"), N(1), Op("scn")>>, <<Nm("DeviceRGB"), Op("cs"), Op("sc")>>, <<Nm("DeviceCMYK"), Op("CS"), N(1), N(0), Op("SCN")>>,
            <<Nm("x"), Op("g")>>, <<Nm("x"), Op("G")>>, <<Nm("x"), N(0), N(0), N(1), Op("k")>>, <<N(0), N(0), Nm("x"), N(1), Op("K")>>,
            <<Op("Tz")>>, <<Op("TL")>>, <<Op("Ts")>>, <<Op("Tw")>>, <<Nm("x"), Op("Tz")>>, <<Op("Do")>>, <<N(1), Op("Do")>>, <<Op("d")>>,
            <<N(1), N(2), N(3), N(4), N(5), Op("c")>>, <<N(1), Op("v")>>, <<Op("TD")>>, <<Op("'")>>, <<Op("zz")>>, <<N(1), Op("zz")>> }
GoodPre == <<N(1), Op("Tc"), N(2), Op("w"), N(1), N(0), N(0), Op("rg"), N(0), N(0), N(1), Op("RG"), N(2), N(0), Op("Td"), Str(A), Op("Tj")>>
\* (the probe also sets a colour with sc / SC: three operands are right for the colour spaces GoodPre left in force)
Probe == <<Str(AB), Op("Tj")>> \o Painter \o <<N(0), N(1), N(0), Op("sc"), N(0), N(0), N(1), Op("SC"), Op("T*"), Str(A), Op("Tj")>> \o Painter

RECURSIVE Flat(_)
Flat(q) == IF q = <<>> THEN <<>> ELSE Head(q) \o Flat(Tail(q))
SeqsUpTo(S, n) == UNION {[1..m -> S] : m \in 0..n}

InitGroup(G, L, pre, post) == \E q \in SeqsUpTo(G, L) : Start(pre \o Flat(q) \o post, Ident)
InitPos(L)   == InitGroup(GPos, L, PreText, <<Op("ET")>>)
InitSpace(L) == InitGroup(GSpace, L, PreText, <<Str(A), Op("Tj"), Op("ET")>>)
InitState(L) == InitGroup(GState, L, PreText, <<Str(A), Op("Tj"), Op("ET")>> \o Painter)
InitPath(L)  == InitGroup(GPath, L, <<>>, <<Op("S")>>)
InitPaint(L) == InitGroup(GPaint, L, <<>>, <<Op("S")>>)
InitPathCtm(L) == InitGroup(GPathCtm, L, <<>>, <<Op("B")>>)
InitColor(L) == InitGroup(GColor, L, PreText, Painter)
InitPass(L) == InitGroup(GPass, L, PreText, <<Str(A), Op("Tj")>> \o Painter)
InitColorRes(L) == InitGroup(GColorRes, L, PreText, <<Str(A), Op("Tj")>> \o Painter)
InitBad == \E b \in BadOps : Start(PreText \o GoodPre \o b \o Probe, Ident)
\* two operators with missing / ill-typed operands, a good show operator in between and the probes after them
InitBad2 == \E b1 \in BadOps, b2 \in BadOps : Start(PreText \o GoodPre \o b1 \o <<Str(A), Op("Tj")>> \o b2 \o Probe, Ident)

\* an operand that is zero is an operand: every numeric parameter is first given a non-zero value, then one (or two) of
\* them is set back to 0, then the probes show text, move to the next line and paint
ZeroPre == PreText \o <<N(1), Op("Tc"), N(2), Op("Tw"), N(3), Op("TL"), N(1), Op("Ts"), N(2), Op("w"), N(1), Op("g"), N(1), Op("G"),
                        Arr(<<N(2), N(1)>>), N(1), Op("d"), N(2), N(1), Op("Td")>>
ZeroOps == { Ins("Tc", <<N(0)>>), Ins("Tw", <<N(0)>>), Ins("TL", <<N(0)>>), Ins("Ts", <<N(0)>>), Ins("w", <<N(0)>>), Ins("g", <<N(0)>>),
             Ins("G", <<N(0)>>), Ins("Td", <<N(0), N(0)>>), Ins("TD", <<N(0), N(0)>>), Ins("rg", <<N(0), N(0), N(0)>>),
             Ins("RG", <<N(0), N(0), N(0)>>), Ins("k", <<N(0), N(0), N(0), N(0)>>), Ins("K", <<N(0), N(0), N(0), N(0)>>),
             Ins("d", <<Arr(<<>>), N(0)>>), Ins("\"", <<N(0), N(0), Str(A)>>), Ins("TJ", <<Arr(<<N(0), Str(A), N(0)>>)>>),
             Ins("Tm", <<N(1), N(0), N(0), N(1), N(0), N(0)>>), Ins("cs", <<Nm("DeviceRGB")>>) \o <<N(0), N(0), N(0), Op("sc")>>,
             Ins("CS", <<Nm("DeviceGray")>>) \o <<N(0), Op("SC")>>, Ins("Tj", <<Str(<<>>)>>), Ins("TJ", <<Arr(<<>>)>>),
             Ins("re", <<N(0), N(0), N(0), N(0)>>) \o <<Op("S")>>, Ins("Tz", <<N(100)>>) }
InitZero == \E z \in ZeroOps : Start(ZeroPre \o z \o Probe, Ident)
InitZero2 == \E z1 \in ZeroOps, z2 \in ZeroOps : Start(ZeroPre \o z1 \o <<Str(A), Op("Tj")>> \o z2 \o Probe, Ident)

\* nesting deeper than the 28 levels ISO 32000-1 Annex C once listed as an implementation limit: 32 nested q, each level
\* with its own line width and gray level, then Q by Q with a painted rectangle after each
RECURSIVE DeepQ(_), Unwind(_)
DeepQ(n) == IF n = 0 THEN <<>> ELSE <<Op("q"), N(n), Op("w"), N(n % 2), Op("G")>> \o DeepQ(n - 1)
Unwind(n) == IF n = 0 THEN <<>> ELSE <<Op("Q")>> \o Ins("re", <<N(0), N(0), N(2), N(2)>>) \o <<Op("S")>> \o Unwind(n - 1)
InitDeepQ == Start(PreText \o DeepQ(32) \o Unwind(33), Ident)

MixPoolAll == GPos \cup GSpace \cup GState \cup GPath \cup GPathCtm \cup GColor \cup GPaint \cup GColorRes \cup GPass
NoPool == {}
InitMixed == Start(PreText, Ident)

AllDevs == {"TcNotTrailing", "FormNoGsInherit", "CsNoColorReset", "LoneMoveShape", "QKeepsColorSpace"}
DevRuns == {{}, AllDevs} \cup {{d} : d \in AllDevs}
Ideal == {{}}
=============================================================================
