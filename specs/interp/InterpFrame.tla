----------------------------- MODULE InterpFrame -----------------------------
(***************************************************************************)
(* Frame conditions of the content-stream operators: which components of   *)
(* the interpreter state an operator may change.  ContentInterp.tla proves *)
(* (action property FrameOK) that its operator semantics respects this     *)
(* table; ContentInterpTrace.tla checks recorded runs of the real          *)
(* interpreter on real documents against the same table.                   *)
(* Components: "ctm", "ts" (text state incl. matrices), "gs" (graphics     *)
(* state incl. colours), "path" (number of path segments), "depth" (q/Q).  *)
(***************************************************************************)
EXTENDS Sequences, FiniteSets

TextOps  == {"BT", "Tc", "Tw", "Tz", "TL", "Tf", "Ts", "Tr", "Td", "TD", "Tm", "T*", "Tj", "TJ", "'", "\""}
GsOps    == {"w", "d", "J", "j", "M", "i", "ri", "g", "G", "rg", "RG", "k", "K", "cs", "CS", "sc", "scn", "SC", "SCN"}
PathOps  == {"m", "l", "c", "v", "y", "h", "re"}
PaintOps == {"S", "s", "f", "F", "f*", "B", "B*", "b", "b*", "n"}

Frame(o) == CASE o = "q" -> {"depth"}
              [] o = "Q" -> {"depth", "ctm", "ts", "gs"}
              [] o = "cm" -> {"ctm"}
              [] o \in TextOps -> {"ts"}
              [] o \in GsOps -> {"gs"}
              [] o \in PathOps -> {"path"}
              [] o \in PaintOps -> {"path"}
              [] OTHER -> {}        \* Do (a form or image is transparent), ET, marked content, W, W*, gs, sh, BX, EX, ...
=============================================================================
