---- MODULE MC_StreamDelim ----
EXTENDS StreamDelim
\* conformant /Length only (what C03 promises)
DeltasExact == {0}
\* extended coverage: /Length short by 1, 2; long by 1, 2 (into the end-of-line / the word endstream) and by 12
\* (past `endstream`, into `endobj`)
DeltasWrong == {0, -1, -2, 1, 2, 12}
====
