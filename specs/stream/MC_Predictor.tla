---- MODULE MC_Predictor ----
EXTENDS Predictor
NoDev == {}
Prod(c, k, b, r) == RowLength(c, k, b) * r
\* 8-bit PNG and TIFF: colors, columns, rows in 1..3
G8(kind, maxbytes, maxrows) ==
  {<<kind, c, k, 8, r>> : c \in 1..3, k \in 1..3, r \in 1..maxrows} \cap
  {gg \in {<<kind, c, k, 8, r>> : c \in 1..3, k \in 1..3, r \in 1..3} : Prod(gg[2], gg[3], 8, gg[5]) <= maxbytes}
\* sub-byte and 16-bit samples: the row-length and bytes-per-pixel arithmetic
GBits(maxbytes, maxrows) ==
  {gg \in {<<"png", c, k, b, r>> : c \in 1..3, k \in {1, 2, 3, 5, 8, 9}, b \in {1, 2, 4, 16}, r \in 1..maxrows} :
      Prod(gg[2], gg[3], gg[4], gg[5]) <= maxbytes}
  \cup {<<"tiff", 1, 2, b, 1>> : b \in {1, 2, 4, 16}}
\* bits per pixel across the byte classes {1..7, 8, 9..15, 16, 17..23, 24, 32}: (colors, bits) pairs whose product is
\* above 8 and NOT a multiple of 8 make floor and ceiling of bytes-per-pixel differ (9 x 1, 12 x 1, 15 x 1 -> 2 bytes;
\* 17 x 1, 20 x 1 -> 3; 3 x 4 = 12 and 5 x 2 = 10 -> 2), next to the multiples (4 x 8 = 32, 2 x 16 = 32, 16 x 1, 24 x 1)
BppPairs == {<<5, 1>>, <<7, 1>>, <<9, 1>>, <<12, 1>>, <<15, 1>>, <<16, 1>>, <<17, 1>>, <<20, 1>>, <<24, 1>>,
             <<4, 8>>, <<3, 4>>, <<5, 2>>, <<2, 16>>}
GBpp(maxbytes, maxrows) ==
  {gg \in {<<"png", cb[1], k, cb[2], r>> : cb \in BppPairs, k \in 1..2, r \in 1..maxrows} :
      Prod(gg[2], gg[3], gg[4], gg[5]) <= maxbytes}
GeomsQuick == G8("png", 6, 2) \cup G8("tiff", 6, 2) \cup GBits(4, 2) \cup GBpp(4, 2)
GeomsFull  == G8("png", 8, 3) \cup G8("tiff", 8, 3) \cup GBits(6, 2) \cup GBpp(6, 2)
GeomsTiny  == G8("png", 4, 2) \cup G8("tiff", 4, 2) \cup GBits(2, 2)
====
