---- MODULE MC_Predictor ----
EXTENDS Predictor
NoDev == {}
Prod(c, k, b, r) == RowLength(c, k, b) * r
\* 8-bit PNG and TIFF: colors, columns, rows in 1..3
G8(kind, maxbytes, maxrows) ==
  {<<kind, c, k, 8, r>> : c \in 1..3, k \in 1..3, r \in 1..maxrows} \cap
  {gg \in {<<kind, c, k, 8, r>> : c \in 1..3, k \in 1..3, r \in 1..3} : Prod(gg[2], gg[3], 8, gg[5]) <= maxbytes}
\* sub-byte and 16-bit samples: the row-length and bytes-per-pixel arithmetic
GBits(maxbytes, maxrows) ==
  {gg \in {<<"png", c, k, b, r>> : c \in 1..3, k \in {1, 2, 3, 5, 8, 9}, b \in {1, 2, 4, 16}, r \in 1..maxrows} :
      Prod(gg[2], gg[3], gg[4], gg[5]) <= maxbytes}
  \cup {<<"tiff", 1, 2, b, 1>> : b \in {1, 2, 4, 16}}
GeomsQuick == G8("png", 6, 2) \cup G8("tiff", 6, 2) \cup GBits(4, 2)
GeomsFull  == G8("png", 8, 3) \cup G8("tiff", 8, 3) \cup GBits(6, 2)
GeomsTiny  == G8("png", 4, 2) \cup G8("tiff", 4, 2) \cup GBits(2, 2)
====
