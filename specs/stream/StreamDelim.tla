----------------------------- MODULE StreamDelim -----------------------------
(***************************************************************************)
(* C03 / payload delimitation.  The `stream` branch of                      *)
(* PDFParser.do_keyword (pdfminer/pdfparser.py) as a machine over the       *)
(* parser's own fields (file position fp, read buffer bufpos/buflen,        *)
(* charpos, the object stack), with PSBaseParser.nextline() as a            *)
(* sub-machine that sees only the current read buffer of B bytes.           *)
(*                                                                          *)
(* The file is   stream EOL payload [EOL] endstream LF endobj LF            *)
(* with the `stream` keyword at offset 0.  The payload ranges over every    *)
(* string of symbols  x, CR, LF, NUL, the word `endstream`, the word        *)
(* `endobj`;  the EOL after the keyword is LF or CR LF (7.3.8.1), the one   *)
(* before `endstream` is absent, LF, CR or CR LF;  /Length is a direct      *)
(* integer or an indirect reference, whose resolution re-enters the same    *)
(* parser (PDFDocument.getobj seeks it elsewhere and resets its stack)      *)
(* before do_keyword seeks back.                                            *)
(*                                                                          *)
(* PayloadExact: the bytes handed to PDFStream are exactly the payload.     *)
(* ResumeOK: the parser is left at the `endstream` keyword, so that the     *)
(* tokenizer model of specs/lex reads `endstream endobj` from there.        *)
(* Both are promised for a conformant /Length only.                         *)
(*                                                                          *)
(* Extended coverage (not promised by C03, stated here as the code          *)
(* implements it - DeliveredAsStated): /Length too short or too long by     *)
(* delta bytes, missing, or an indirect reference to an object that does    *)
(* not exist (both read as 0), and the parser's fallback mode (set by       *)
(* PDFDocument after a damaged cross-reference table), in which /Length is  *)
(* not looked at and everything up to the first `endstream` is the data.    *)
(* The file continues  ... z LF endstream LF  after `endobj`, standing for  *)
(* the next stream object, so that an over-long scan finds something.       *)
(***************************************************************************)
EXTENDS Integers, Sequences, FiniteSets, TLC, Json

Lex == INSTANCE PSLexOps

CONSTANTS Syms,        \* payload symbols, a subset of {"x", "CR", "LF", "NUL", "ES", "EO"}
          MaxLen,      \* payloads of 0..MaxLen symbols
          EolAfter,    \* subset of {"LF", "CRLF"}
          EolBefore,   \* subset of {"", "LF", "CR", "CRLF"}
          BufSizes,    \* read-buffer sizes (PSBaseParser.BUFSIZ)
          LenKinds,    \* subset of {"direct", "indirect", "missing", "indirect-missing"}
          Deltas,      \* /Length = payload length + delta (0: exact) for the direct and indirect kinds
          Fallbacks    \* subset of BOOLEAN: PDFParser.fallback

KwStream    == <<115, 116, 114, 101, 97, 109>>
KwEndstream == <<101, 110, 100>> \o KwStream
KwEndobj    == <<101, 110, 100, 111, 98, 106>>
SymBytes(s) == CASE s = "x" -> <<120>> [] s = "CR" -> <<13>> [] s = "LF" -> <<10>> [] s = "NUL" -> <<0>>
                 [] s = "ES" -> KwEndstream [] s = "EO" -> KwEndobj
EolBytes(e) == CASE e = "LF" -> <<10>> [] e = "CR" -> <<13>> [] e = "CRLF" -> <<13, 10>> [] OTHER -> <<>>
RECURSIVE Expand(_)
Expand(ss) == IF ss = <<>> THEN <<>> ELSE SymBytes(ss[1]) \o Expand(Tail(ss))

VARIABLES pay, ea, eb, B, lk, delta, fb,      \* the writer's choices, and the parser's mode
          D,                                   \* the file
          fp, bufpos, buflen, charpos, stack,  \* parser fields
          pos, objlen, data,                   \* locals of do_keyword
          linepos, linelen, eol, ret,          \* locals of nextline, and where it returns to
          pc, resume
vars == <<pay, ea, eb, B, lk, delta, fb, D, fp, bufpos, buflen, charpos, stack, pos, objlen, data,
          linepos, linelen, eol, ret, pc, resume>>

Payload == Expand(pay)

Init == /\ pay \in UNION {[1..m -> Syms] : m \in 0..MaxLen}
        /\ ea \in EolAfter /\ eb \in EolBefore /\ B \in BufSizes
        /\ lk \in LenKinds /\ delta \in Deltas /\ fb \in Fallbacks
        /\ (lk \in {"missing", "indirect-missing"} \/ fb) => delta = 0      \* (the value is not looked at)
        /\ fb => lk = "direct"
        /\ Len(Expand(pay)) + delta >= 0
        /\ D = KwStream \o EolBytes(ea) \o Expand(pay) \o EolBytes(eb) \o KwEndstream \o <<10>> \o KwEndobj \o <<10>>
               \o <<122, 10>> \o KwEndstream \o <<10>>
        \* the tokenizer has just delivered the keyword found at offset 0; the dictionary is on the stack
        /\ fp = 0 /\ bufpos = 0 /\ buflen = 0 /\ charpos = 0 /\ stack = <<"dict">>
        /\ pos = 0 /\ objlen = 0 /\ data = <<>>
        /\ linepos = 0 /\ linelen = 0 /\ eol = FALSE /\ ret = "none"
        /\ pc = "kw" /\ resume = -1

Choices == UNCHANGED <<pay, ea, eb, B, lk, delta, fb, D>>
Min(a, b) == IF a < b THEN a ELSE b

\* PSStackParser.seek(p): file position, empty buffer, tokenizer state and object stack reset
SeekTo(p) == fp' = p /\ bufpos' = p /\ buflen' = 0 /\ charpos' = 0 /\ stack' = <<>>
StartLine(r) == linepos' = bufpos' + charpos' /\ linelen' = 0 /\ eol' = FALSE /\ ret' = r /\ pc' = "nl"

\* ((_, dic),) = self.pop(1);  objlen = 0;  if not self.fallback: objlen = int_value(dic["Length"])
\* (a missing key leaves 0)
AKeyword == /\ pc = "kw"
            /\ stack' = SubSeq(stack, 1, Len(stack) - 1)
            /\ IF fb \/ lk = "missing" THEN objlen' = 0 /\ pc' = "seek1"
               ELSE IF lk = "direct" THEN objlen' = Len(Payload) + delta /\ pc' = "seek1"
               ELSE objlen' = objlen /\ pc' = "resolve"
            /\ Choices /\ UNCHANGED <<fp, bufpos, buflen, charpos, pos, data, linepos, linelen, eol, ret, resume>>

\* int_value -> PDFObjRef.resolve -> PDFDocument.getobj: the same parser is sent to the object holding the
\* length (anywhere else in the file: here, the end), parses it there, and is left there
AResolveLength == /\ pc = "resolve" /\ lk = "indirect"
                  /\ SeekTo(Len(D)) /\ objlen' = Len(Payload) + delta /\ pc' = "seek1"
                  /\ Choices /\ UNCHANGED <<pos, data, linepos, linelen, eol, ret, resume>>

\* the referenced object is not in the cross-reference table: getobj raises PDFObjectNotFound before touching
\* the parser, PDFObjRef.resolve answers None and int_value(None) is 0
AResolveMissing == /\ pc = "resolve" /\ lk = "indirect-missing"
                   /\ objlen' = 0 /\ pc' = "seek1"
                   /\ Choices /\ UNCHANGED <<fp, bufpos, buflen, charpos, stack, pos, data, linepos, linelen, eol, ret, resume>>

\* self.seek(pos);  (_, line) = self.nextline()
ASeekKeyword == /\ pc = "seek1" /\ SeekTo(pos) /\ StartLine("line1")
                /\ Choices /\ UNCHANGED <<pos, objlen, data, resume>>

\* ------------------------------------------------------------------ nextline(): one loop iteration each
\* fillbuf() with an exhausted buffer: read the next B bytes (PSEOF at the end of the file)
ANlFill == /\ pc = "nl" /\ charpos >= buflen
           /\ IF fp >= Len(D)
              THEN /\ pc' = (IF ret = "line1" THEN "done" ELSE "seek3")     \* `return` / `break`
                   /\ UNCHANGED <<fp, bufpos, buflen, charpos>>
              ELSE /\ bufpos' = fp /\ buflen' = Min(B, Len(D) - fp) /\ fp' = fp + Min(B, Len(D) - fp)
                   /\ charpos' = 0 /\ pc' = pc
           /\ Choices /\ UNCHANGED <<stack, pos, objlen, data, linepos, linelen, eol, ret, resume>>

Cands == {q \in charpos..(buflen - 1) : D[bufpos + q + 1] \in {10, 13}}
\* EOL.search(self.buf, self.charpos)
ANlSearch == /\ pc = "nl" /\ charpos < buflen /\ ~eol
             /\ IF Cands = {}
                THEN /\ linelen' = linelen + (buflen - charpos) /\ charpos' = buflen
                     /\ eol' = eol /\ pc' = pc
                ELSE LET m == CHOOSE q \in Cands : \A r \in Cands : q <= r IN
                     /\ linelen' = linelen + (m + 1 - charpos) /\ charpos' = m + 1
                     /\ IF D[bufpos + m + 1] = 13 THEN eol' = TRUE /\ pc' = pc ELSE eol' = eol /\ pc' = ret
             /\ Choices /\ UNCHANGED <<fp, bufpos, buflen, stack, pos, objlen, data, linepos, ret, resume>>

\* the byte after a CR (possibly the first one of the next buffer): an LF belongs to the line
ANlAfterCR == /\ pc = "nl" /\ charpos < buflen /\ eol
              /\ IF D[bufpos + charpos + 1] = 10
                 THEN linelen' = linelen + 1 /\ charpos' = charpos + 1
                 ELSE linelen' = linelen /\ charpos' = charpos
              /\ pc' = ret
              /\ Choices /\ UNCHANGED <<fp, bufpos, buflen, stack, pos, objlen, data, linepos, eol, ret, resume>>

\* ------------------------------------------------------------------ back in do_keyword
\* pos += len(line); self.fp.seek(pos); data = self.fp.read(objlen); self.seek(pos + objlen); nextline()...
AReadPayload == /\ pc = "line1"
                /\ pos' = pos + linelen
                /\ data' = SubSeq(D, pos + linelen + 1, Min(pos + linelen + objlen, Len(D)))
                /\ SeekTo(Min(pos + linelen + objlen, Len(D))) /\ StartLine("scan")
                /\ Choices /\ UNCHANGED <<objlen, resume>>

Line == SubSeq(D, linepos + 1, linepos + linelen)
Hits == {i \in 0..(linelen - 9) : SubSeq(Line, i + 1, i + 9) = KwEndstream}
\* if b"endstream" in line: i = line.index(b"endstream"); objlen += i; [fallback: data += line[:i]]; break
\* else: objlen += len(line); [fallback: data += line]
AScanLine == /\ pc = "scan"
             /\ IF Hits = {}
                THEN /\ objlen' = objlen + linelen
                     /\ data' = IF fb THEN data \o Line ELSE data
                     /\ linepos' = bufpos + charpos /\ linelen' = 0 /\ eol' = FALSE /\ pc' = "nl"
                ELSE LET i == CHOOSE i \in Hits : \A j \in Hits : i <= j IN
                     /\ objlen' = objlen + i
                     /\ data' = IF fb THEN data \o SubSeq(Line, 1, i) ELSE data
                     /\ pc' = "seek3" /\ UNCHANGED <<linepos, linelen, eol>>
             /\ Choices /\ UNCHANGED <<fp, bufpos, buflen, charpos, stack, pos, ret, resume>>

\* self.seek(pos + objlen); self.push((pos, PDFStream(dic, data)))
APushStream == /\ pc = "seek3"
               /\ fp' = pos + objlen /\ bufpos' = pos + objlen /\ buflen' = 0 /\ charpos' = 0
               /\ stack' = <<"stream">> /\ resume' = pos + objlen /\ pc' = "done"
               /\ Choices /\ UNCHANGED <<pos, objlen, data, linepos, linelen, eol, ret>>

Next == AKeyword \/ AResolveLength \/ AResolveMissing \/ ASeekKeyword \/ ANlFill \/ ANlSearch \/ ANlAfterCR
        \/ AReadPayload \/ AScanLine \/ APushStream
Spec == Init /\ [][Next]_vars

\* ======================================================================== C03
\* what the property promises is promised for a /Length that is right
Conformant == ~fb /\ lk \in {"direct", "indirect"} /\ delta = 0

PayloadExact == (pc = "done" /\ Conformant) => (stack = <<"stream">> /\ data = Payload)

\* the tokenizer of specs/lex, started where the parser was left, reads `endstream` then `endobj`
ResumeOK == (pc = "done" /\ Conformant) =>
   /\ resume \in 0..Len(D)
   /\ LET toks == Lex!RefOut(SubSeq(D, resume + 1, Len(D)), {}) IN
        /\ Len(toks) >= 2
        /\ toks[1].pos = 0 /\ toks[1].k = "kw" /\ toks[1].v = KwEndstream
        /\ toks[2].k = "kw" /\ toks[2].v = KwEndobj

\* ------------------------------------------------------------------ extended coverage: what is delivered
Start == Len(KwStream) + Len(EolBytes(ea))                   \* first byte after the keyword line
EffLen == IF fb \/ lk \in {"missing", "indirect-missing"} THEN 0 ELSE Len(Payload) + delta
\* first position >= from where the word `endstream` stands (the end of the file if nowhere)
FirstES(from) == LET c == {q \in from..(Len(D) - 9) : SubSeq(D, q + 1, q + 9) = KwEndstream} IN
                 IF c = {} THEN Len(D) ELSE CHOOSE q \in c : \A r \in c : q <= r
\* normal mode: exactly /Length bytes, whatever they are; fallback mode: everything up to the first `endstream`
Delivered == IF fb THEN SubSeq(D, Start + 1, FirstES(Start)) ELSE SubSeq(D, Start + 1, Start + EffLen)
\* the parser goes on at the first `endstream` at or after the end of the /Length bytes
ResumeAt  == FirstES(Start + EffLen)
DeliveredAsStated == pc = "done" => (stack = <<"stream">> /\ data = Delivered /\ resume = ResumeAt)

HasES == \E k \in 1..Len(pay) : pay[k] = "ES"
\* fallback mode: the end-of-line before `endstream` is part of the data; a payload containing the word is cut there
FallbackStatement == (pc = "done" /\ fb) =>
   IF HasES THEN Len(data) < Len(Payload) /\ data = SubSeq(Payload, 1, Len(data))
   ELSE data = Payload \o EolBytes(eb)
\* no usable /Length outside fallback mode: the stream is delivered empty (and the parser still finds its end,
\* or a word `endstream` inside the payload)
MissingStatement == (pc = "done" /\ ~fb /\ lk \in {"missing", "indirect-missing"}) => data = <<>>
\* a /Length that is too short truncates, one that is too long runs into `endstream`
WrongLengthStatement == (pc = "done" /\ ~fb /\ lk \in {"direct", "indirect"}) =>
   data = SubSeq(Payload \o EolBytes(eb) \o KwEndstream \o <<10>> \o KwEndobj \o <<10>>, 1, Len(Payload) + delta)

\* the read buffer never reaches past the file, lines lie inside it
BufferOK == /\ fp \in 0..Len(D) /\ bufpos + buflen <= Len(D) /\ charpos \in 0..buflen
            /\ linepos + linelen <= Len(D)

\* nextline() always moves on: every iteration consumes bytes, refills, or returns
NlProgress == [][(pc = "nl" /\ pc' = "nl") => (bufpos' + charpos' > bufpos + charpos \/ (buflen = charpos /\ buflen' > 0))]_vars

EmitTerminal ==
  pc = "done" => PrintT("@@" \o ToJson([p |-> pay, ea |-> ea, eb |-> eb, b |-> B, lk |-> lk, dl |-> delta, fb |-> fb,
                                        data |-> data, resume |-> resume, st |-> stack]))
=============================================================================
