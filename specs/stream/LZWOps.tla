------------------------------ MODULE LZWOps ------------------------------
(***************************************************************************)
(* LZW as used by the PDF LZWDecode filter (ISO 32000-1 7.4.4, TIFF 6.0     *)
(* section 13), parameterised so that the same operators serve a scaled-    *)
(* down exhaustive instance (LZW.tla) and the real constants                *)
(* (LZWTrace.tla: Alpha = 256, MinBits = 9, MaxBits = 12, ByteBits = 8).    *)
(*                                                                          *)
(*   codes 0..Alpha-1   the single symbols                                  *)
(*   Alpha              clear-table          (256)                          *)
(*   Alpha+1            end of data          (257)                          *)
(*   Alpha+2..          phrases, in the order they are created  (258..)     *)
(*                                                                          *)
(* This module holds what the decoder of pdfminer/lzw.py and the standard   *)
(* have in common: the width schedule and the per-code table step, on an    *)
(* abstract table that only records what a trace can observe.               *)
(***************************************************************************)
EXTENDS Integers, Sequences

CONSTANTS Alpha, MinBits, MaxBits, ByteBits

ASSUME /\ Alpha + 2 < 2^MinBits - 1     \* the first width switch lies after the initial table
       /\ MinBits <= MaxBits
       /\ ByteBits < MinBits            \* padding after the last code is shorter than any code (8 < 9)

ClearCode == Alpha
EODCode   == Alpha + 1
FirstFree == Alpha + 2                  \* table length right after a clear-table code
TableMax  == 2^MaxBits                  \* a table never holds more entries than MaxBits-wide codes can name

\* -------------------------------------------------------------------- reference (the standard)
\* Code width the decoder must use while its table holds tlen entries.  The next code may be as large
\* as tlen (the phrase about to be created), so tlen < 2^w is needed; with /EarlyChange 1 (the default,
\* ISO 32000-1 table 8) the width grows one code earlier: 9 bits below 511 entries, 10 below 1023,
\* 11 below 2047, 12 from then on.  With /EarlyChange 0 the switches are at 512, 1024, 2048.
RECURSIVE WidthFrom(_, _, _)
WidthFrom(tlen, w, ec) == IF w >= MaxBits \/ tlen < 2^w - ec THEN w ELSE WidthFrom(tlen, w + 1, ec)
WidthForEC(tlen, ec) == WidthFrom(tlen, MinBits, ec)
WidthFor(tlen) == WidthForEC(tlen, 1)

\* -------------------------------------------------------------------- as coded (LZWDecoder.feed)
\* `if table_length == 511: nbits = 10 elif == 1023: 11 elif == 2047: 12`
\* (ec = 1 is what the code has; ec = 0 is the same chain with 512 / 1024 / 2048)
RECURSIVE BumpFrom(_, _, _, _)
BumpFrom(tlen, nbits, w, ec) ==
  IF w >= MaxBits THEN nbits
  ELSE IF tlen = 2^w - ec THEN w + 1 ELSE BumpFrom(tlen, nbits, w + 1, ec)
BumpEC(tlen, nbits, ec) == BumpFrom(tlen, nbits, MinBits, ec)
Bump(tlen, nbits) == BumpEC(tlen, nbits, 1)

\* Kind of step LZWDecoder.feed takes on `code`, given the table length tlen (0 = never cleared)
\* and whether prevbuf is empty.
Kind(code, tlen, prevEmpty) ==
  CASE code = ClearCode -> "clear"
    [] code = EODCode   -> "eod"
    [] prevEmpty        -> IF code < tlen THEN "first" ELSE "indexerror"
    [] code < tlen      -> "known"
    [] code = tlen      -> "kwkwk"
    [] OTHER            -> "corrupt"
=============================================================================
