--------------------------- MODULE PredictorTrace ---------------------------
(***************************************************************************)
(* Trace validation for the predictors at real scale (binding B).  A trace  *)
(* is one call of the real apply_png_predictor / apply_tiff_predictor: the  *)
(* geometry, the filtered data enc, and per scan line the filter type ty    *)
(* the real loop saw and the unfiltered bytes raw it produced.  Every row   *)
(* must start where the standard's row length puts it, carry the type       *)
(* byte found there, and unfilter to what the recurrences of PredictorOps   *)
(* (written from the PNG / TIFF specifications) give from the previous      *)
(* accepted row.                                                            *)
(***************************************************************************)
EXTENDS PredictorOps, TLC, Json, IOUtils

Traces == JsonDeserialize(IOEnv.TRACE_FILE)
N == Len(Traces)

VARIABLES t, r, above
vars == <<t, r, above>>
Init == t = 1 /\ r = 0 /\ above = <<>>

Cur == Traces[t]
RL  == RowLength(Cur.colors, Cur.columns, Cur.bits)
BPP == BytesPerPixel(Cur.colors, Cur.bits)
Ev  == Cur.rows[r + 1]

PngRow == /\ t <= N /\ Cur.kind = "png" /\ r < Len(Cur.rows)
          /\ LET off  == r * (RL + 1)
                 line == SubSeq(Cur.enc, off + 2, off + 1 + RL)
                 prior == IF r = 0 THEN Zeros(RL) ELSE above IN
               /\ off + 1 + RL <= Len(Cur.enc)
               /\ Ev.ty = Cur.enc[off + 1] /\ Ev.ty \in 0..4
               /\ Len(Ev.raw) = RL
               /\ Ev.raw = UnfilterRow(Ev.ty, line, prior, BPP)
               /\ above' = Ev.raw
          /\ r' = r + 1 /\ UNCHANGED t

TiffRow8 == /\ t <= N /\ Cur.kind = "tiff" /\ Cur.bits = 8 /\ r < Len(Cur.rows)
            /\ LET off  == r * RL
                   line == SubSeq(Cur.enc, off + 1, off + RL) IN
                 /\ off + RL <= Len(Cur.enc)
                 /\ Ev.raw = UntiffRow(line, Cur.colors)
                 /\ above' = Ev.raw
            /\ r' = r + 1 /\ UNCHANGED t

\* all rows seen, none missing
EndTrace == /\ t <= N /\ r = Len(Cur.rows)
            /\ r * (IF Cur.kind = "png" THEN RL + 1 ELSE RL) = Len(Cur.enc)
            /\ t' = t + 1 /\ r' = 0 /\ above' = <<>>
Finished == t > N /\ UNCHANGED vars
Next == PngRow \/ TiffRow8 \/ EndTrace \/ Finished
Spec == Init /\ [][Next]_vars

RowLenInv == (t <= N /\ r > 0) => Len(above) = RL
=============================================================================
