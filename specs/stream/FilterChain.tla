----------------------------- MODULE FilterChain -----------------------------
(***************************************************************************)
(* C03 / filter pipeline.  PDFStream.get_filters and the loop of            *)
(* PDFStream.decode (pdfminer/pdftypes.py) as a machine, next to the writer *)
(* side of ISO 32000-1 7.3.8.2 / 7.4: a writer applies layers               *)
(*      data := Codec_f( Predict_p( data ) )      for the LAST filter first *)
(* and describes them in the stream dictionary under /Filter (or /F) and    *)
(* /DecodeParms (or /DP), as a name or an array, full or abbreviated filter *)
(* names, with direct or indirect values.  Codecs and predictors are        *)
(* uninterpreted layers here (their own modules decide them); this module   *)
(* decides that the reader peels exactly the writer's layers, in order.     *)
(*                                                                          *)
(* PDF values are records [t, v]:  name / int / null / arr (v a sequence)   *)
(* / dict (v a function from key strings) / ref (v the referenced value).   *)
(***************************************************************************)
EXTENDS FilterChainOps, TLC, Json

CONSTANTS Layers,      \* what a writer may apply at one position: set of <<filter, predictor, earlychange>>,
                       \*   filter in {"AHx","A85","LZW","Fl","RL","CCF"}, predictor 0 (no entry), 1, 2, 10..15,
                       \*   earlychange -1 (no entry; only LZW has one), 0, 1.  The same kind may stand at several
                       \*   positions of a chain with different parameters.
          MaxChain     \* chains of 0..MaxChain layers

FullName(f) == CASE f = "AHx" -> "ASCIIHexDecode" [] f = "A85" -> "ASCII85Decode" [] f = "LZW" -> "LZWDecode"
                 [] f = "Fl" -> "FlateDecode" [] f = "RL" -> "RunLengthDecode" [] f = "CCF" -> "CCITTFaxDecode"
AbbrName(f) == CASE f = "Fl" -> "Fl" [] f = "LZW" -> "LZW" [] f = "A85" -> "A85" [] f = "AHx" -> "AHx" [] f = "RL" -> "RL"
                 [] f = "CCF" -> "CCF"

\* ======================================================================== writer (reference)
\* the encoded data, outermost layer first: what the reader has to undo, in this order
PredLayer(p) == IF p = 2 THEN <<"p:tiff">> ELSE IF p >= 10 THEN <<"p:png">> ELSE <<>>
\* an LZW layer is a different encoding for /EarlyChange 0 and 1 (absent = 1)
CodecTag(f, ec) == IF f = "LZW" THEN (IF ec = 0 THEN "c:LZW:0" ELSE "c:LZW:1") ELSE "c:" \o f
RECURSIVE Wrap(_)
Wrap(ls) == IF ls = <<>> THEN <<>> ELSE <<CodecTag(ls[1][1], ls[1][3])>> \o PredLayer(ls[1][2]) \o Wrap(Tail(ls))

\* spelling: "full" / "abbr" / "mix" (alternating, first full)
Spell(f, k, sp) == IF sp = "full" \/ (sp = "mix" /\ k % 2 = 1) THEN FullName(f) ELSE AbbrName(f)

\* the parameter dictionary of one stage: /Predictor, /EarlyChange, /K as the layer needs them
ParmKeys(l) == (IF l[2] # 0 THEN {"Predictor"} ELSE {}) \cup (IF l[3] # -1 THEN {"EarlyChange"} ELSE {})
               \cup (IF l[1] = "CCF" THEN {"K"} ELSE {})
ParmVal(l, k) == CASE k = "Predictor" -> l[2] [] k = "EarlyChange" -> l[3] [] k = "K" -> -1
NeedsParms(l) == ParmKeys(l) # {}
ParmOf(l, pref, empty) ==
  IF ~NeedsParms(l) THEN empty
  ELSE LET d == Dict([k \in ParmKeys(l) |-> IF pref = "values" THEN Ref(In(ParmVal(l, k))) ELSE In(ParmVal(l, k))]) IN
       IF pref = "items" THEN Ref(d) ELSE d

\* the stream dictionary a writer produces for the layers ls under the given shape choices
Attrs(ls, sh) ==
  LET n     == Len(ls)
      fkey  == IF sh.abbrkeys THEN "F" ELSE "Filter"
      pkey  == IF sh.abbrkeys THEN "DP" ELSE "DecodeParms"
      names == [k \in 1..n |-> LET nm == Nm(Spell(ls[k][1], k, sh.spell)) IN
                               IF sh.fref = "items" THEN Ref(nm) ELSE nm]
      fval0 == IF sh.fform = "name" THEN names[1] ELSE Arr(names)
      fval  == IF sh.fref = "whole" THEN Ref(fval0) ELSE fval0
      empty == IF sh.pform = "arr-empty" THEN Dict(<<>>) ELSE Null
      parms == [k \in 1..n |-> ParmOf(ls[k], sh.pref, empty)]
      pval0 == IF sh.pform = "dict" THEN parms[1] ELSE Arr(parms)
      pval  == IF sh.pref = "whole" THEN Ref(pval0) ELSE pval0
  IN  IF n = 0 THEN (IF sh.fform = "arr" THEN [k \in {fkey} |-> fval] ELSE <<>>)
      ELSE IF sh.pform = "absent" THEN [k \in {fkey} |-> fval]
      ELSE [k \in {fkey, pkey} |-> IF k = fkey THEN fval ELSE pval]

HasPred(ls) == \E k \in 1..Len(ls) : NeedsParms(ls[k])
Shapes(ls) ==
  LET n == Len(ls) IN
  { sh \in [abbrkeys : BOOLEAN, spell : {"full", "abbr", "mix"}, fform : {"name", "arr"},
            fref : {"none", "whole", "items"}, pform : {"absent", "dict", "arr-null", "arr-empty"},
            pref : {"none", "whole", "items", "values"}] :
      /\ (sh.fform = "name") => n <= 1
      /\ (n = 0) => (sh.spell = "full" /\ sh.fref = "none" /\ sh.pform = "absent" /\ sh.pref = "none" /\ ~sh.abbrkeys)
      /\ (sh.spell = "mix") => n >= 2
      /\ (sh.pform = "absent") <=> ~HasPred(ls)           \* parameters are written iff some layer needs them
      /\ (sh.pform = "absent") => sh.pref = "none"
      /\ (sh.pform = "dict") => n = 1                     \* several filters: an array (7.3.8.2)
      /\ (sh.pref = "items" /\ sh.pform = "dict") => FALSE }

\* ======================================================================== reader (as coded)
VARIABLES layers, shape, attrs,          \* the writer's side
          data,                          \* remaining layers of the stream data
          filters, params, pairs, k, pc, err, calls
vars == <<layers, shape, attrs, data, filters, params, pairs, k, pc, err, calls>>

Chains == UNION {[1..m -> Layers] : m \in 0..MaxChain}

Init == /\ layers \in Chains /\ shape \in Shapes(layers)
        /\ attrs = Attrs(layers, shape) /\ data = Wrap(layers)
        /\ filters = Null /\ params = Null /\ pairs = <<>> /\ k = 0 /\ pc = "get" /\ err = "none"
        /\ calls = <<>>
Keep == UNCHANGED <<layers, shape, attrs>>

\* filters = resolve1(get_any(("F","Filter"), [])); params = resolve1(get_any(("DP","DecodeParms","FDecodeParms"), {}))
AGet == /\ pc = "get"
        /\ filters' = TopFilters(attrs)
        /\ params' = TopParams(attrs)
        /\ pc' = "norm" /\ Keep /\ UNCHANGED <<data, pairs, k, err, calls>>

\* `if not filters: return []`, wrap a single filter, repeat a single parameter object, resolve entries, zip
ANormalise ==
  /\ pc = "norm"
  /\ pairs' = Normalise(filters, params)
  /\ pc' = "loop" /\ k' = 1 /\ Keep /\ UNCHANGED <<data, filters, params, err, calls>>

CurF == pairs[k][1]
CurP == pairs[k][2]
Peel(tag) == IF data # <<>> /\ data[1] = tag THEN Tail(data) ELSE <<"garbage">>

\* one action per codec branch of the loop
Codec(f) == /\ pc = "loop" /\ k <= Len(pairs) /\ CurF.t = "name" /\ Canon(CurF.v) = f
            /\ data' = Peel(CodecTag(f, ECOf(CurP))) /\ calls' = Append(calls, CallName(f, CurP)) /\ pc' = "pred"
            /\ Keep /\ UNCHANGED <<filters, params, pairs, k, err>>
AFlate == Codec("Fl")
\* early_change = 1; if params and "EarlyChange" in params: ...; lzwdecode(data, early_change)  - per stage
ALZW   == Codec("LZW")
\* ccittfaxdecode(data, params): /K -1 or PDFValueError
ACCF   == /\ pc = "loop" /\ k <= Len(pairs) /\ KOf(CurP) = -1 /\ Codec("CCF")
ACCFBadK == /\ pc = "loop" /\ k <= Len(pairs) /\ CurF.t = "name" /\ Canon(CurF.v) = "CCF" /\ KOf(CurP) # -1
            /\ err' = "PDFValueError" /\ calls' = Append(calls, "CCF?") /\ pc' = "done"
            /\ Keep /\ UNCHANGED <<data, filters, params, pairs, k>>
AA85   == Codec("A85")
AAHx   == Codec("AHx")
ARL    == Codec("RL")
\* DCT / JBIG2 / JPX data is handed on undecoded: no layer of this model
AOther == /\ pc = "loop" /\ k <= Len(pairs) /\ CurF.t = "name" /\ Canon(CurF.v) = "pass"
          /\ pc' = "pred" /\ UNCHANGED calls
          /\ Keep /\ UNCHANGED <<data, filters, params, pairs, k, err>>
AUnsupported == /\ pc = "loop" /\ k <= Len(pairs) /\ (CurF.t # "name" \/ Canon(CurF.v) = "?")
                /\ err' = "PDFNotImplementedError" /\ pc' = "done"
                /\ Keep /\ UNCHANGED <<data, filters, params, pairs, k, calls>>

\* `if params and "Predictor" in params:` pred = int_value(params["Predictor"])
PredVal == PredValOf(CurP)
ANoPredictor == /\ pc = "pred" /\ PredVal \in {0, 1}
                /\ pc' = "loop" /\ k' = k + 1 /\ Keep /\ UNCHANGED <<data, filters, params, pairs, err, calls>>
ATiff == /\ pc = "pred" /\ PredVal = 2
         /\ data' = Peel("p:tiff") /\ calls' = Append(calls, "tiff") /\ pc' = "loop" /\ k' = k + 1
         /\ Keep /\ UNCHANGED <<filters, params, pairs, err>>
APng  == /\ pc = "pred" /\ PredVal >= 10
         /\ data' = Peel("p:png") /\ calls' = Append(calls, "png") /\ pc' = "loop" /\ k' = k + 1
         /\ Keep /\ UNCHANGED <<filters, params, pairs, err>>
ABadPredictor == /\ pc = "pred" /\ PredVal \in 3..9
                 /\ err' = "PDFNotImplementedError" /\ pc' = "done"
                 /\ Keep /\ UNCHANGED <<data, filters, params, pairs, k, calls>>

ADone == /\ pc = "loop" /\ k > Len(pairs) /\ pc' = "done"
         /\ Keep /\ UNCHANGED <<data, filters, params, pairs, k, err, calls>>

Next == AGet \/ ANormalise \/ AFlate \/ ALZW \/ AA85 \/ AAHx \/ ARL \/ ACCF \/ ACCFBadK \/ AOther \/ AUnsupported
        \/ ANoPredictor \/ ATiff \/ APng \/ ABadPredictor \/ ADone
Spec == Init /\ [][Next]_vars

\* ======================================================================== C03
\* the reader undoes exactly the writer's layers: nothing is left, nothing was mis-peeled
ChainInverts == pc = "done" => (data = <<>> /\ err = "none")
\* what remains is always what the writer applied below the layers already undone
PeelsInOrder == \E j \in 0..Len(Wrap(layers)) : data = SubSeq(Wrap(layers), j + 1, Len(Wrap(layers)))
\* one codec call per layer, in the writer's order
\* ... each LZW stage with its own /EarlyChange (an earlier stage's value must not reach a later one)
CallsMatch == pc = "done" =>
   SelectSeq(calls, LAMBDA c : c \notin {"tiff", "png"}) =
      [i \in 1..Len(layers) |-> IF layers[i][1] = "LZW" /\ layers[i][3] = 0 THEN "LZW0" ELSE layers[i][1]]

\* the machine makes the calls the pure reading of the dictionary predicts (binds FilterChainTrace)
CallsAsPredicted == (pc = "done" /\ err = "none") => calls = ExpectedCalls(attrs)

EmitTerminal ==
  pc = "done" => PrintT("@@" \o ToJson([l |-> layers, a |-> attrs, c |-> calls, e |-> err, d |-> data]))
=============================================================================
