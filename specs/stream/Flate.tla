-------------------------------- MODULE Flate --------------------------------
(***************************************************************************)
(* Extended coverage for C03 (and support for C13): the recovery path of    *)
(* FlateDecode in pdfminer/pdftypes.py.  PDFStream.decode first calls       *)
(* zlib.decompress on the whole data; when that raises zlib.error (and      *)
(* settings.STRICT is off) decompress_corrupted() feeds a decompressobj     *)
(* one byte at a time, collects what comes out and stops at the first       *)
(* error; "Let the error propagate if we're not yet in the CRC checksum"    *)
(* is, as coded, only a warning for errors before the last 3 bytes.         *)
(*                                                                          *)
(* The inflater is abstract: a stream is a list of byte roles and a fault;  *)
(* each byte fed yields Out(i) bytes or fails.  The roles are those of a    *)
(* zlib stream of stored blocks (2 header bytes, per block 5 header bytes   *)
(* and its literal bytes, 4 Adler-32 bytes), which the replay realises      *)
(* byte for byte, so that every enumerated stream is a real zlib stream on  *)
(* which zlib itself is first checked to behave as this inflater.           *)
(*                                                                          *)
(* Faults: none; truncation after t bytes; a wrong header check (detected   *)
(* with the 2nd header byte); an invalid block type (detected at the first  *)
(* byte of block b); LEN/NLEN mismatch (detected with the 5th byte of the   *)
(* block header); a damaged literal or a damaged Adler-32 (both detected    *)
(* with the very last byte).                                                *)
(***************************************************************************)
EXTENDS Integers, Sequences, FiniteSets, TLC, Json

CONSTANTS MaxBlocks,    \* 1..MaxBlocks stored blocks
          MaxLit        \* 0..MaxLit literal bytes per block

\* ======================================================================== the abstract inflater
RECURSIVE BlockRoles(_, _)
BlockRoles(bl, b) ==         \* roles of blocks b..Len(bl): <<role, block, index>>
  IF b > Len(bl) THEN <<>>
  ELSE << <<"btype", b, 0>>, <<"len", b, 1>>, <<"len", b, 2>>, <<"nlen", b, 1>>, <<"nlen", b, 2>> >>
       \o [j \in 1..bl[b] |-> <<"lit", b, j>>] \o BlockRoles(bl, b + 1)
Roles(bl) == << <<"hdr", 0, 1>>, <<"hdr", 0, 2>> >> \o BlockRoles(bl, 1)
             \o [j \in 1..4 |-> <<"adler", 0, j>>]

IndexOf(rs, r) == CHOOSE i \in 1..Len(rs) : rs[i] = r
\* 0-based position of the byte whose arrival makes the inflater fail (-1: it never fails)
FailPos(bl, f) ==
  LET rs == Roles(bl) IN
  CASE f[1] = "header" -> 1
    [] f[1] = "btype"  -> IndexOf(rs, <<"btype", f[2], 0>>) - 1
    [] f[1] = "nlen"   -> IndexOf(rs, <<"nlen", f[2], 2>>) - 1
    [] f[1] \in {"adler", "lit"} -> Len(rs) - 1
    [] OTHER -> -1
\* number of bytes the reader is given
DataLen(bl, f) == IF f[1] = "trunc" THEN f[2] ELSE Len(Roles(bl))
\* what byte i (0-based) makes the inflater put out: a literal is delivered as soon as it arrives
Out(bl, f, i) == LET r == Roles(bl)[i + 1] IN
                 IF r[1] = "lit" THEN << IF f = <<"lit", r[2], r[3]>> THEN <<"damaged", r[2], r[3]>> ELSE r >> ELSE <<>>
\* zlib.decompress on the whole data succeeds iff the stream is complete and undamaged
OneShotOK(bl, f) == f[1] = "none"

Faults(bl) ==
  { <<"none", 0, 0>>, <<"header", 0, 0>>, <<"adler", 0, 0>> }
  \cup { <<"trunc", t, 0>> : t \in 0..(Len(Roles(bl)) - 1) }
  \cup { <<"btype", b, 0>> : b \in 1..Len(bl) } \cup { <<"nlen", b, 0>> : b \in 1..Len(bl) }
  \cup { g \in { <<"lit", b, j>> : b \in 1..Len(bl), j \in 1..MaxLit } : g[3] <= bl[g[2]] }

\* ======================================================================== reader (as coded)
VARIABLES blocks, fault,            \* the stream
          i, result, pc, warned
vars == <<blocks, fault, i, result, pc, warned>>

Init == /\ blocks \in UNION {[1..m -> 0..MaxLit] : m \in 1..MaxBlocks}
        /\ fault \in Faults(blocks)
        /\ i = 0 /\ result = <<>> /\ pc = "oneshot" /\ warned = FALSE
Keep == UNCHANGED <<blocks, fault>>
N == DataLen(blocks, fault)

RECURSIVE AllOut(_, _, _)
AllOut(bl, f, k) == IF k = 0 THEN <<>> ELSE AllOut(bl, f, k - 1) \o Out(bl, f, k - 1)     \* bytes 0..k-1

\* data = zlib.decompress(data)   /   except zlib.error: data = decompress_corrupted(data)
AOneShot == /\ pc = "oneshot"
            /\ IF OneShotOK(blocks, fault) THEN result' = AllOut(blocks, fault, N) /\ pc' = "done"
               ELSE result' = <<>> /\ pc' = "feed"
            /\ Keep /\ UNCHANGED <<i, warned>>

\* result_str += d.decompress(buffer); buffer = f.read(1); i += 1
AFeed == /\ pc = "feed" /\ i < N /\ i # FailPos(blocks, fault)
         /\ result' = result \o Out(blocks, fault, i) /\ i' = i + 1
         /\ Keep /\ UNCHANGED <<pc, warned>>

\* except zlib.error: if i < len(data) - 3: logger.warning(...)
AExcept == /\ pc = "feed" /\ i < N /\ i = FailPos(blocks, fault)
           /\ warned' = (i < N - 3) /\ pc' = "done"
           /\ Keep /\ UNCHANGED <<i, result>>

\* while buffer: ends with the data (a truncated stream raises nothing when fed piecewise)
AEndOfData == /\ pc = "feed" /\ i >= N /\ pc' = "done" /\ Keep /\ UNCHANGED <<i, result, warned>>

Next == AOneShot \/ AFeed \/ AExcept \/ AEndOfData
Spec == Init /\ [][Next]_vars

\* ======================================================================== statements
\* exactly the bytes inflate produced before the failure (all of them if it never fails)
Produced == LET k == FailPos(blocks, fault) IN AllOut(blocks, fault, IF k = -1 \/ k > N THEN N ELSE k)
RecoveredPrefix == pc = "done" => result = Produced
\* an error in the last three bytes (the end of the Adler-32) is passed over in silence, others are logged
WarnRule == pc = "done" => (warned <=> (FailPos(blocks, fault) # -1 /\ FailPos(blocks, fault) < N - 3))
\* a damaged checksum alone loses nothing
ChecksumIgnored == (pc = "done" /\ fault[1] = "adler") => (result = AllOut(blocks, fault, N) /\ ~warned)
Progress == [][pc = "feed" /\ pc' = "feed" => i' = i + 1]_vars

EmitTerminal ==
  pc = "done" => PrintT("@@" \o ToJson([b |-> blocks, f |-> fault, r |-> result, w |-> warned, n |-> N,
                                        k |-> FailPos(blocks, fault)]))
=============================================================================
