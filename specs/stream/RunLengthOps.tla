---------------------------- MODULE RunLengthOps ----------------------------
(***************************************************************************)
(* RunLengthDecode (ISO 32000-1 7.4.5), parameterised by H (real: 128):     *)
(* a length byte L < H is followed by L+1 bytes to copy; L > H by one byte  *)
(* to repeat 2H+1-L times (2..H); L = H is EOD.  Bytes are 0..2H-1.         *)
(***************************************************************************)
EXTENDS Integers, Sequences
CONSTANT H

KindOf(L)  == IF L = H THEN "eod" ELSE IF L < H THEN "lit" ELSE "rep"
OutLen(L)  == IF L = H THEN 0 ELSE IF L < H THEN L + 1 ELSE 2 * H + 1 - L
Consumed(L) == IF L = H THEN 1 ELSE IF L < H THEN L + 2 ELSE 2
Rep(b, n)  == [k \in 1..n |-> b]
=============================================================================
