---- MODULE MC_StreamObject ----
EXTENDS StreamObject
TwoPayloads == {<<>>, <<7>>}
====
