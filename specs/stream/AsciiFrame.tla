----------------------------- MODULE AsciiFrame -----------------------------
(***************************************************************************)
(* C03 / ASCIIHexDecode and ASCII85Decode: the *framing* (white space, EOD  *)
(* markers, odd final digit, `z`, short final group) of pdfminer/ascii85.py *)
(* as two small machines, next to the writer relation of ISO 32000-1 7.4.2  *)
(* and 7.4.3.  The base-85 arithmetic itself is the standard library's and  *)
(* is not modelled: a group of digits decodes to the abstract word          *)
(* <<"w", digits>>, which the replay turns into bytes with an independent   *)
(* reference.                                                               *)
(*                                                                          *)
(* Dev (named deviations of the code from the standard):                    *)
(*   "HexWhiteSpace"  asciihexdecode drops Python's \s, which lacks NUL     *)
(*   "A85WhiteSpace"  ascii85decode frames with Python's \s and lets        *)
(*                    a85decode ignore " \t\n\r\v": FF and NUL inside the   *)
(*                    data are errors                                       *)
(* The standard: all white-space characters (NUL HT LF FF CR SP) are        *)
(* ignored by both filters.                                                 *)
(***************************************************************************)
EXTENDS Integers, Sequences, FiniteSets, TLC, Json

CONSTANTS Dev,
          HexBytes, HexMaxLen,     \* ASCIIHex payloads: strings over HexBytes up to HexMaxLen
          WSChoice,                \* white-space bytes the writer may insert (one, at any one gap)
          A85MaxGroups             \* ASCII85 payloads: up to this many full groups, plus a short one

PDFWS == {0, 9, 10, 12, 13, 32}          \* ISO 32000-1 table 1
PyWS  == {9, 10, 11, 12, 13, 32}         \* Python bytes \s
A85Ignore == {32, 9, 10, 13, 11}         \* base64.a85decode(ignorechars=...) default

LT == 60  GT == 62  TILDE == 126  ZED == 122  BANG == 33
Digits85 == 33..117

HexDigit(n, up) == IF n < 10 THEN 48 + n ELSE (IF up THEN 55 ELSE 87) + n
IsHex(c) == c \in (48..57) \cup (65..70) \cup (97..102)
HexVal(c) == IF c \in 48..57 THEN c - 48 ELSE IF c \in 65..70 THEN c - 55 ELSE c - 87

Strip(s, ws) == SelectSeq(s, LAMBDA c : c \notin ws)
InsertAt(s, g, w) == SubSeq(s, 1, g) \o w \o SubSeq(s, g + 1, Len(s))    \* w after the first g bytes

\* ======================================================================== writers (reference)
RECURSIVE HexText(_, _)
HexText(x, up) == IF x = <<>> THEN <<>>
                  ELSE <<HexDigit(x[1] \div 16, up), HexDigit(x[1] % 16, up)>> \o HexText(Tail(x), up)
\* the digits of x, the last 0 optionally left out (7.4.2: an odd digit count means a final 0), then `>`
HexBodies(x, up) ==
  LET t == HexText(x, up) IN
  {Append(t, GT)} \cup (IF x # <<>> /\ x[Len(x)] % 16 = 0 THEN {Append(SubSeq(t, 1, Len(t) - 1), GT)} ELSE {})

\* ASCII85: menu of digit groups chosen so that `<` and `>` (which are digits) stand first and last
FullGroups  == { <<60, 33, 33, 33, 62>>, <<62, 60, 33, 60, 62>>, <<53, 53, 53, 53, 53>>, <<ZED>> }
ShortGroups == { <<>>, <<60, 62>>, <<62, 33, 60>>, <<33, 33, 33, 62>> }
RECURSIVE Flat(_)
Flat(gs) == IF gs = <<>> THEN <<>> ELSE gs[1] \o Flat(Tail(gs))
Word(g) == IF g = <<ZED>> THEN <<"w", <<BANG, BANG, BANG, BANG, BANG>> >> ELSE <<"w", g>>
Words(gs, sh) == [k \in 1..Len(gs) |-> Word(gs[k])] \o (IF sh = <<>> THEN <<>> ELSE << <<"w", sh>> >>)

\* ======================================================================== machines (as coded)
VARIABLES kind, expect, text, s, pc, out, err
vars == <<kind, expect, text, s, pc, out, err>>

WithWS(body) == {body} \cup {InsertAt(body, g, <<w>>) : g \in 0..Len(body), w \in WSChoice}

InitHex == /\ kind = "hex"
           /\ \E x \in UNION {[1..m -> HexBytes] : m \in 0..HexMaxLen}, up \in BOOLEAN :
                /\ expect = x
                /\ \E b \in HexBodies(x, up) : text \in WithWS(b)
InitA85 == /\ kind = "a85"
           /\ \E gs \in UNION {[1..m -> FullGroups] : m \in 0..A85MaxGroups}, sh \in ShortGroups,
                 pre \in {<<>>, <<LT, TILDE>>}, post \in {<<>>, <<10>>, <<13, 10>>} :
                /\ expect = Words(gs, sh)
                /\ \E b \in WithWS(Flat(gs) \o sh) : text = pre \o b \o <<TILDE, GT>> \o post
Init == (InitHex \/ InitA85) /\ s = text /\ out = <<>> /\ err = "none"
        /\ pc = IF kind = "hex" THEN "hstrip" ELSE "start"

Keep == UNCHANGED <<kind, expect, text>>

\* ------------------------------------------------------------------ asciihexdecode
HexWS == IF "HexWhiteSpace" \in Dev THEN PyWS ELSE PDFWS \cup PyWS
AHexStrip == /\ pc = "hstrip" /\ s' = Strip(s, HexWS) /\ pc' = "heod" /\ Keep /\ UNCHANGED <<out, err>>
\* data.find(b">"): cut there; an odd number of digits gets a 0
AHexEOD == /\ pc = "heod"
           /\ LET c == {k \in 1..Len(s) : s[k] = GT} IN
              IF c = {} THEN s' = s
              ELSE LET i == (CHOOSE k \in c : \A m \in c : k <= m) - 1 IN
                   s' = IF i % 2 = 1 THEN Append(SubSeq(s, 1, i), 48) ELSE SubSeq(s, 1, i)
           /\ pc' = "hunhex" /\ Keep /\ UNCHANGED <<out, err>>
\* binascii.unhexlify
AUnhex == /\ pc = "hunhex"
          /\ IF Len(s) % 2 = 1 \/ \E k \in 1..Len(s) : ~IsHex(s[k])
             THEN err' = "binascii.Error" /\ out' = out
             ELSE err' = err /\ out' = [k \in 1..(Len(s) \div 2) |-> HexVal(s[2 * k - 1]) * 16 + HexVal(s[2 * k])]
          /\ pc' = "done" /\ Keep /\ UNCHANGED s

\* ------------------------------------------------------------------ ascii85decode
ReWS == IF "A85WhiteSpace" \in Dev THEN PyWS ELSE PDFWS \cup PyWS        \* \s of start_re / end_re
CoreWS == IF "A85WhiteSpace" \in Dev THEN A85Ignore ELSE PDFWS \cup A85Ignore
\* first index >= i whose byte is not in ws (Len+1 if none)
RECURSIVE SkipWS(_, _, _)
SkipWS(q, i, ws) == IF i <= Len(q) /\ q[i] \in ws THEN SkipWS(q, i + 1, ws) ELSE i
At(q, i) == IF i <= Len(q) THEN q[i] ELSE -1

\* start_re = ^\s*<?\s*~\s*
AStart == /\ pc = "start"
          /\ LET i == SkipWS(s, 1, ReWS)
                 j == SkipWS(s, IF At(s, i) = LT THEN i + 1 ELSE i, ReWS) IN
             s' = IF At(s, j) = TILDE THEN SubSeq(s, SkipWS(s, j + 1, ReWS), Len(s)) ELSE s
          /\ pc' = "end" /\ Keep /\ UNCHANGED <<out, err>>

\* end_re = \s*~\s*>?\s*$   (leftmost match; only a tilde followed by nothing but white space and
\* at most one `>` can match, and the white space before it goes too)
TailOK(q, k) == LET i == SkipWS(q, k + 1, ReWS)
                    j == SkipWS(q, IF At(q, i) = GT THEN i + 1 ELSE i, ReWS) IN j = Len(q) + 1
RECURSIVE BackWS(_, _)
BackWS(q, k) == IF k >= 1 /\ q[k] \in ReWS THEN BackWS(q, k - 1) ELSE k     \* last index <= k not in ws
AEnd == /\ pc = "end"
        /\ LET c == {k \in 1..Len(s) : s[k] = TILDE /\ TailOK(s, k)} IN
           s' = IF c = {} THEN s
                ELSE LET k == CHOOSE k \in c : \A m \in c : k <= m IN SubSeq(s, 1, BackWS(s, k - 1))
        /\ pc' = "core" /\ Keep /\ UNCHANGED <<out, err>>

\* base64.a85decode: digits in fives, z for a zero word between groups, a short last group
RECURSIVE Core(_, _, _)
Core(q, cur, acc) ==
  IF q = <<>> THEN [out |-> IF Len(cur) >= 2 THEN Append(acc, <<"w", cur>>) ELSE acc,
                    err |-> "none"]      \* (a lone final digit yields no byte)
  ELSE LET c == q[1] IN
       IF c \in CoreWS THEN Core(Tail(q), cur, acc)
       ELSE IF c = ZED THEN IF cur = <<>> THEN Core(Tail(q), cur, Append(acc, <<"w", <<BANG, BANG, BANG, BANG, BANG>> >>))
                            ELSE [out |-> acc, err |-> "ValueError"]
       ELSE IF c \in Digits85
            THEN IF Len(cur) = 4 THEN Core(Tail(q), <<>>, Append(acc, <<"w", Append(cur, c)>>))
                 ELSE Core(Tail(q), Append(cur, c), acc)
       ELSE [out |-> acc, err |-> "ValueError"]
ACore == /\ pc = "core"
         /\ LET r == Core(s, <<>>, <<>>) IN out' = r.out /\ err' = r.err
         /\ pc' = "done" /\ Keep /\ UNCHANGED s

Next == AHexStrip \/ AHexEOD \/ AUnhex \/ AStart \/ AEnd \/ ACore
Spec == Init /\ [][Next]_vars

\* ======================================================================== C03
Inverts == pc = "done" => (err = "none" /\ out = expect)

EmitTerminal ==
  pc = "done" => PrintT("@@" \o ToJson([k |-> kind, t |-> text, x |-> expect, o |-> out, e |-> err]))
=============================================================================
