---------------------------- MODULE PredictorOps ----------------------------
(***************************************************************************)
(* PNG row filters (PNG specification section 6 / ISO 32000-1 7.4.4.4) and  *)
(* TIFF predictor 2 (TIFF 6.0 section 14) as recurrences over the bytes of  *)
(* a row: the forward direction (what a writer does) from the standards,    *)
(* and the inverse as pdfminer/utils.py codes it, with its deviations from  *)
(* the standards as named switches:                                         *)
(*   "PngAboveColumns"  the row above the first row is `columns` zero bytes *)
(*                      instead of a whole row of zeros                     *)
(*   "PngRowFloor"      row length = floor(colors*columns*bits/8)           *)
(*   "PngBppFloor"      bytes per pixel = floor(colors*bits/8), i.e. 0 for  *)
(*                      sub-byte pixels, instead of at least 1              *)
(***************************************************************************)
EXTENDS Integers, Sequences

CeilDiv(a, b) == (a + b - 1) \div b
Max(a, b) == IF a > b THEN a ELSE b
Abs(a) == IF a < 0 THEN -a ELSE a
Zeros(n) == [k \in 1..n |-> 0]

\* ------------------------------------------------------------------ geometry (reference)
RowLength(colors, columns, bits) == CeilDiv(colors * columns * bits, 8)
BytesPerPixel(colors, bits)      == Max(1, CeilDiv(colors * bits, 8))

Paeth(a, b, c) ==      \* a = left, b = above, c = upper left
  LET p == a + b - c  pa == Abs(p - a)  pb == Abs(p - b)  pc == Abs(p - c) IN
  IF pa <= pb /\ pa <= pc THEN a ELSE IF pb <= pc THEN b ELSE c

\* prediction for byte j (1-based) of a row, from the unfiltered bytes raw of this row and prior of
\* the row above (all zeros above the first row), for filter type ty and bpp bytes per pixel
Pred(ty, raw, prior, j, bpp) ==
  LET a == IF j - bpp >= 1 THEN raw[j - bpp] ELSE 0
      b == prior[j]
      c == IF j - bpp >= 1 THEN prior[j - bpp] ELSE 0 IN
  CASE ty = 0 -> 0
    [] ty = 1 -> a
    [] ty = 2 -> b
    [] ty = 3 -> (a + b) \div 2
    [] ty = 4 -> Paeth(a, b, c)

\* the writer: Filt(x) = Raw(x) - prediction  (mod 256)
FilterRow(ty, raw, prior, bpp) == [j \in 1..Len(raw) |-> (raw[j] - Pred(ty, raw, prior, j, bpp)) % 256]

\* the inverse written from the standard: Raw(x) = Filt(x) + prediction (mod 256), left to right
RECURSIVE UnfilterGo(_, _, _, _, _)
UnfilterGo(ty, enc, prior, bpp, raw) ==
  IF Len(raw) = Len(enc) THEN raw
  ELSE LET j == Len(raw) + 1
           a == IF j - bpp >= 1 THEN raw[j - bpp] ELSE 0
           b == prior[j]
           c == IF j - bpp >= 1 THEN prior[j - bpp] ELSE 0
           p == CASE ty = 0 -> 0 [] ty = 1 -> a [] ty = 2 -> b [] ty = 3 -> (a + b) \div 2 [] ty = 4 -> Paeth(a, b, c)
       IN UnfilterGo(ty, enc, prior, bpp, Append(raw, (enc[j] + p) % 256))
UnfilterRow(ty, enc, prior, bpp) == UnfilterGo(ty, enc, prior, bpp, <<>>)

\* TIFF predictor 2 on 8-bit samples: each sample minus the same component of the pixel to its left
TiffRow(raw, colors)   == [j \in 1..Len(raw) |-> IF j > colors THEN (raw[j] - raw[j - colors]) % 256 ELSE raw[j]]
RECURSIVE UntiffGo(_, _, _)
UntiffGo(enc, colors, raw) ==
  IF Len(raw) = Len(enc) THEN raw
  ELSE LET j == Len(raw) + 1 IN
       UntiffGo(enc, colors, Append(raw, IF j > colors THEN (enc[j] + raw[j - colors]) % 256 ELSE enc[j]))
UntiffRow(enc, colors) == UntiffGo(enc, colors, <<>>)

\* ------------------------------------------------------------------ apply_png_predictor, as coded
CodedRowLen(colors, columns, bits, dev) ==
  IF "PngRowFloor" \in dev THEN (colors * columns * bits) \div 8 ELSE RowLength(colors, columns, bits)
CodedBpp(colors, bits, dev) ==
  IF "PngBppFloor" \in dev THEN (colors * bits) \div 8 ELSE BytesPerPixel(colors, bits)
CodedAbove0(colors, columns, bits, dev) ==
  IF "PngAboveColumns" \in dev THEN Zeros(columns) ELSE Zeros(CodedRowLen(colors, columns, bits, dev))

\* one row: line = the bytes after the type byte, above = line_above;  -> [raw, err]
\* (Python: raw[j - bpp] with bpp = 0 reads raw[j], which does not exist yet; line_above[j] past its
\*  end is an IndexError; zip() in the Up branch silently stops at the shorter operand)
RECURSIVE CodedGo(_, _, _, _, _)
CodedGo(ty, line, above, bpp, raw) ==
  IF Len(raw) = Len(line) THEN [raw |-> raw, err |-> "none"]
  ELSE LET j == Len(raw) + 1 IN          \* Python index j-1
       IF ty \in {1, 3, 4} /\ bpp = 0 THEN [raw |-> raw, err |-> "IndexError"]
       ELSE IF ty \in {3, 4} /\ j > Len(above) THEN [raw |-> raw, err |-> "IndexError"]
       ELSE LET a == IF j - bpp >= 1 THEN raw[j - bpp] ELSE 0
                b == IF j <= Len(above) THEN above[j] ELSE 0
                c == IF j - bpp >= 1 THEN above[j - bpp] ELSE 0
                p == CASE ty = 1 -> a [] ty = 3 -> (a + b) \div 2 [] ty = 4 -> Paeth(a, b, c) [] OTHER -> 0
            IN CodedGo(ty, line, above, bpp, Append(raw, (line[j] + p) % 256))
CodedRow(ty, line, above, bpp) ==
  CASE ty = 0 -> [raw |-> line, err |-> "none"]
    [] ty = 2 -> LET n == IF Len(line) < Len(above) THEN Len(line) ELSE Len(above) IN
                 [raw |-> [j \in 1..n |-> (line[j] + above[j]) % 256], err |-> "none"]
    [] ty \in {1, 3, 4} -> CodedGo(ty, line, above, bpp, <<>>)
    [] OTHER -> [raw |-> <<>>, err |-> "PDFValueError"]
=============================================================================
