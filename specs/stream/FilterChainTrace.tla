-------------------------- MODULE FilterChainTrace --------------------------
(***************************************************************************)
(* Trace validation for PDFStream.decode (binding B).  Each trace is one    *)
(* real decode() call: the stream dictionary as the real parser delivered   *)
(* it (a: filter / parameter entries as [t, v] values, indirect references  *)
(* kept as ref) and the sequence c of decoder functions the real loop       *)
(* called (Fl, LZW, A85, AHx, RL, tiff, png).  The calls must be the ones   *)
(* the reader of FilterChain.tla makes for that dictionary, one at a time.  *)
(***************************************************************************)
EXTENDS FilterChainOps, TLC, Json, IOUtils

Traces == JsonDeserialize(IOEnv.TRACE_FILE)
N == Len(Traces)

VARIABLES t, l
vars == <<t, l>>
Init == t = 1 /\ l = 0
Cur == Traces[t]
Want == ExpectedCalls(Cur.a)

Call == /\ t <= N /\ l < Len(Cur.c) /\ l < Len(Want) /\ Cur.c[l + 1] = Want[l + 1]
        /\ l' = l + 1 /\ UNCHANGED t
EndTrace == /\ t <= N /\ l = Len(Cur.c) /\ l = Len(Want) /\ t' = t + 1 /\ l' = 0
Finished == t > N /\ UNCHANGED vars
Next == Call \/ EndTrace \/ Finished
Spec == Init /\ [][Next]_vars
Bounded == t <= N => l <= Len(Want)
=============================================================================
