--------------------------- MODULE FilterChainOps ---------------------------
(***************************************************************************)
(* The reader side of the stream filter pipeline as pure operators          *)
(* (PDFStream.get_filters and the dispatch of PDFStream.decode), shared by  *)
(* the machine of FilterChain.tla and by FilterChainTrace.tla.              *)
(* PDF values are records [t, v]:  name / int / null / arr (v a sequence)   *)
(* / dict (v a function from key strings) / ref (v the referenced value).   *)
(***************************************************************************)
EXTENDS Integers, Sequences, FiniteSets

Nm(s)  == [t |-> "name", v |-> s]
In(n)  == [t |-> "int", v |-> n]
Null   == [t |-> "null", v |-> 0]
Arr(s) == [t |-> "arr", v |-> s]
Dict(f) == [t |-> "dict", v |-> f]
Ref(x) == [t |-> "ref", v |-> x]

Resolve1(v) == IF v.t = "ref" THEN v.v ELSE v
GetAny(attrs, keys, default) ==
  LET have == {i \in 1..Len(keys) : keys[i] \in DOMAIN attrs} IN
  IF have = {} THEN default ELSE attrs[keys[CHOOSE i \in have : \A j \in have : i <= j]]
Falsy(v) == v.t = "null" \/ (v.t \in {"arr", "dict"} /\ DOMAIN v.v = {})

\* filters = resolve1(get_any(("F","Filter"), [])); params = resolve1(get_any(("DP","DecodeParms","FDecodeParms"), {}))
TopFilters(attrs) == Resolve1(GetAny(attrs, <<"F", "Filter">>, Arr(<<>>)))
TopParams(attrs)  == Resolve1(GetAny(attrs, <<"DP", "DecodeParms", "FDecodeParms">>, Dict(<<>>)))

\* `if not filters: return []`, wrap a single filter, repeat a single parameter object, resolve entries
\* (parameters that are not a dictionary, e.g. null, count as no parameters), zip
NoDictIsEmpty(p) == IF p.t = "dict" THEN p ELSE Dict(<<>>)
Normalise(filters, params) ==
  IF Falsy(filters) THEN <<>>
  ELSE LET fl == IF filters.t = "arr" THEN filters.v ELSE <<filters>>
           pl == IF params.t = "arr" THEN params.v ELSE [i \in 1..Len(fl) |-> params]
           m  == IF Len(fl) < Len(pl) THEN Len(fl) ELSE Len(pl) IN
       [i \in 1..m |-> <<Resolve1(fl[i]), NoDictIsEmpty(Resolve1(pl[i]))>>]

Canon(nm) == CASE nm \in {"FlateDecode", "Fl"} -> "Fl" [] nm \in {"LZWDecode", "LZW"} -> "LZW"
               [] nm \in {"ASCII85Decode", "A85"} -> "A85" [] nm \in {"ASCIIHexDecode", "AHx"} -> "AHx"
               [] nm \in {"RunLengthDecode", "RL"} -> "RL"
               [] nm \in {"CCITTFaxDecode", "CCF"} -> "CCF"                      \* (C19's decoder)
               [] nm \in {"DCTDecode", "DCT", "JBIG2Decode", "JPXDecode"} -> "pass"  \* handed on undecoded
               [] OTHER -> "?"

\* `if params and "Predictor" in params:` pred = int_value(params["Predictor"])   (0: no predictor step)
PredValOf(p) == IF p.t = "dict" /\ "Predictor" \in DOMAIN p.v THEN Resolve1(p.v["Predictor"]).v ELSE 0
PredCall(pv) == IF pv = 2 THEN <<"tiff">> ELSE IF pv >= 10 THEN <<"png">> ELSE <<>>

\* per-stage parameters of the codecs themselves, read afresh for every stage:
\* LZWDecode: early_change = 1; if params and "EarlyChange" in params: early_change = int_value(...)   (0 / not 0)
IntParm(p, k, default) == IF p.t = "dict" /\ k \in DOMAIN p.v THEN Resolve1(p.v[k]).v ELSE default
ECOf(p) == IF IntParm(p, "EarlyChange", 1) = 0 THEN 0 ELSE 1
\* CCITTFaxDecode: only /K -1 (Group 4) is decoded, anything else (or no parameters at all) is a PDFValueError
KOf(p) == IntParm(p, "K", 0)
\* the call as the observation wrapper names it: the codec plus the parameter it was given
CallName(c, p) == CASE c = "LZW" -> IF ECOf(p) = 0 THEN "LZW0" ELSE "LZW"
                    [] c = "CCF" -> IF KOf(p) = -1 THEN "CCF" ELSE "CCF?"
                    [] OTHER -> c

\* the decoder calls a stream dictionary leads to, in order (supported filters and predictors only)
RECURSIVE CallsOf(_)
CodecCall(c) == IF c = "pass" THEN <<>> ELSE <<c>>
CallsOf(pairs) == IF pairs = <<>> THEN <<>>
                  ELSE CodecCall(CallName(Canon(pairs[1][1].v), pairs[1][2])) \o PredCall(PredValOf(pairs[1][2])) \o CallsOf(Tail(pairs))
ExpectedCalls(attrs) == CallsOf(Normalise(TopFilters(attrs), TopParams(attrs)))
=============================================================================
