--------------------------- MODULE RunLengthTrace ---------------------------
(***************************************************************************)
(* Trace validation for RunLengthDecode at the real constant H = 128        *)
(* (binding B).  A trace is the encoded data plus, per iteration of the     *)
(* loop of the real rldecode(), the length byte L it read and the number o  *)
(* of bytes it put out.  Each recorded run must be the step the machine of  *)
(* RunLength.tla takes at that position (KindOf/OutLen/Consumed of          *)
(* RunLengthOps); the walk must end exactly at EOD or at the end of the     *)
(* data with `total` bytes put out.                                         *)
(***************************************************************************)
EXTENDS RunLengthOps, TLC, Json, IOUtils

Traces == JsonDeserialize(IOEnv.TRACE_FILE)
N == Len(Traces)

VARIABLES t, l, pos, total
vars == <<t, l, pos, total>>
Init == t = 1 /\ l = 0 /\ pos = 0 /\ total = 0

Cur == Traces[t]
Ev  == Cur.ev[l + 1]

Run == /\ t <= N /\ l < Len(Cur.ev) /\ pos < Len(Cur.enc)
       /\ Ev.L = Cur.enc[pos + 1] /\ KindOf(Ev.L) # "eod"
       /\ Ev.o = OutLen(Ev.L) /\ Ev.o \in 1..H
       /\ pos + Consumed(Ev.L) <= Len(Cur.enc)
       /\ pos' = pos + Consumed(Ev.L) /\ total' = total + Ev.o /\ l' = l + 1 /\ UNCHANGED t

\* the loop ended: at an EOD byte, or because the data ran out
EndTrace == /\ t <= N /\ l = Len(Cur.ev) /\ total = Cur.total
            /\ (IF pos = Len(Cur.enc) THEN TRUE ELSE Cur.enc[pos + 1] = H)
            /\ t' = t + 1 /\ l' = 0 /\ pos' = 0 /\ total' = 0

Finished == t > N /\ UNCHANGED vars
Next == Run \/ EndTrace \/ Finished
Spec == Init /\ [][Next]_vars

PosOK == t <= N => pos <= Len(Cur.enc)
=============================================================================
