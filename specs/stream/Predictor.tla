------------------------------ MODULE Predictor ------------------------------
(***************************************************************************)
(* C03 / predictors.  apply_png_predictor and apply_tiff_predictor of       *)
(* pdfminer/utils.py as a machine (one action per scan line and filter      *)
(* type) next to the writer relation of the standards (PredictorOps):       *)
(* every image of a geometry colors x columns x bits x rows with bytes      *)
(* from Vals, filtered with every assignment of PNG filter types to rows    *)
(* (or with TIFF predictor 2), must be unfiltered to the original bytes.    *)
(* Bits per component the code declares unsupported end in the state        *)
(* "unsupported", which the property (``any supported geometry'') excludes. *)
(***************************************************************************)
EXTENDS PredictorOps, FiniteSets, TLC, Json

CONSTANTS Dev,       \* deviations switched on (see PredictorOps); {} = the standards
          Geoms,     \* set of <<kind, colors, columns, bits, rows>>, kind \in {"png", "tiff"}
          Vals,      \* byte values rows are built from (images of at most SmallBytes bytes)
          ValsBig,   \* byte values of larger images
          SmallBytes,
          Types      \* PNG filter types a writer may choose per row

VARIABLES g,                \* the geometry
          x,                \* the original rows
          types,            \* the writer's filter type per row (all 0 for tiff)
          enc,              \* the filtered data
          i, above, out, err, pc, trig
vars == <<g, x, types, enc, i, above, out, err, pc, trig>>

Kind == g[1]  Colors == g[2]  Columns == g[3]  Bits == g[4]  Rows == g[5]
RL  == RowLength(Colors, Columns, Bits)
BPP == BytesPerPixel(Colors, Bits)

\* ======================================================================== writer (reference)
RECURSIVE FlatRows(_)
FlatRows(rs) == IF rs = <<>> THEN <<>> ELSE rs[1] \o FlatRows(Tail(rs))
PngEnc(rows, tys, rl, bpp) ==
  FlatRows([r \in 1..Len(rows) |->
              <<tys[r]>> \o FilterRow(tys[r], rows[r], IF r = 1 THEN Zeros(rl) ELSE rows[r - 1], bpp)])
TiffEnc(rows, colors) == FlatRows([r \in 1..Len(rows) |-> TiffRow(rows[r], colors)])

Init == /\ g \in Geoms
        /\ x \in [1..Rows -> [1..RL -> IF Rows * RL <= SmallBytes THEN Vals ELSE ValsBig]]
        \* (depths the code declares unsupported only matter for the row arithmetic: filter type None)
        /\ types \in IF Kind = "png" /\ Bits \in {1, 8} THEN [1..Rows -> Types] ELSE {[r \in 1..Rows |-> 0]}
        /\ enc = IF Kind = "png" THEN PngEnc(x, types, RL, BPP) ELSE TiffEnc(x, Colors)
        /\ i = 0 /\ out = <<>> /\ err = "none" /\ trig = {}
        /\ pc = "check" /\ above = <<>>

Keep == UNCHANGED <<g, x, types, enc>>

\* ======================================================================== decoder (as coded)
NB  == CodedRowLen(Colors, Columns, Bits, Dev)
CB  == CodedBpp(Colors, Bits, Dev)

\* `if bitspercomponent not in [8, 1]` / `!= 8`
ACheck == /\ pc = "check"
          /\ IF (Kind = "png" /\ Bits \notin {8, 1}) \/ (Kind = "tiff" /\ Bits # 8)
             THEN pc' = "unsupported" /\ above' = above
             ELSE pc' = "row" /\ above' = IF Kind = "png" THEN CodedAbove0(Colors, Columns, Bits, Dev) ELSE <<>>
          /\ Keep /\ UNCHANGED <<i, out, err, trig>>

\* for scanline_i in range(0, len(data), nbytes + 1)
Line   == SubSeq(enc, i + 2, IF i + 1 + NB <= Len(enc) THEN i + 1 + NB ELSE Len(enc))
TypeB  == enc[i + 1]
PngRow(ty) ==
  /\ pc = "row" /\ Kind = "png" /\ i < Len(enc) /\ TypeB = ty
  /\ LET r == CodedRow(ty, Line, above, CB) IN
       /\ err' = r.err
       /\ IF r.err = "none" THEN out' = out \o r.raw /\ above' = r.raw /\ i' = i + NB + 1 /\ pc' = "row"
          ELSE out' = out /\ above' = above /\ i' = i /\ pc' = "done"
       \* which deviation made this row differ from the standard
       /\ trig' = trig \cup (IF NB # RL THEN {"PngRowFloor"} ELSE {})
                       \cup (IF CB # BPP /\ ty \in {1, 3, 4} THEN {"PngBppFloor"} ELSE {})
                       \cup (IF Len(above) < Len(Line) /\ ty \in {2, 3, 4} THEN {"PngAboveColumns"} ELSE {})
  /\ Keep
ARowNone  == PngRow(0)
ARowSub   == PngRow(1)
ARowUp    == PngRow(2)
ARowAvg   == PngRow(3)
ARowPaeth == PngRow(4)
\* a byte that is no filter type (only reachable when rows are cut at the wrong length)
ARowBad   == /\ pc = "row" /\ Kind = "png" /\ i < Len(enc) /\ TypeB \notin 0..4
             /\ err' = "PDFValueError" /\ pc' = "done" /\ trig' = trig \cup (IF NB # RL THEN {"PngRowFloor"} ELSE {})
             /\ Keep /\ UNCHANGED <<i, above, out>>

\* for scanline_i in range(0, len(data), nbytes): the inner loop over one row
ARowTiff == /\ pc = "row" /\ Kind = "tiff" /\ i < Len(enc)
            /\ out' = out \o UntiffRow(SubSeq(enc, i + 1, i + Colors * Columns), Colors)
            /\ i' = i + Colors * Columns
            /\ Keep /\ UNCHANGED <<above, err, pc, trig>>

AEnd == /\ pc = "row" /\ i >= Len(enc) /\ pc' = "done" /\ Keep /\ UNCHANGED <<i, above, out, err, trig>>

Next == ACheck \/ ARowNone \/ ARowSub \/ ARowUp \/ ARowAvg \/ ARowPaeth \/ ARowBad \/ ARowTiff \/ AEnd
Spec == Init /\ [][Next]_vars

\* ======================================================================== C03
Inverts == pc = "done" => (err = "none" /\ out = FlatRows(x))
\* rows are cut at the length the standard gives
RowLengthOK == (pc = "row" /\ Kind = "png") => (NB = RL /\ i % (RL + 1) = 0)
\* the declarative inverse agrees with the forward direction (sanity of the reference itself)
RefInverts == pc = "check" /\ Kind = "png" =>
   \A r \in 1..Rows : UnfilterRow(types[r], FilterRow(types[r], x[r], IF r = 1 THEN Zeros(RL) ELSE x[r - 1], BPP),
                                  IF r = 1 THEN Zeros(RL) ELSE x[r - 1], BPP) = x[r]

EmitTerminal ==
  pc \in {"done", "unsupported"} =>
     PrintT("@@" \o ToJson([g |-> g, t |-> types, x |-> FlatRows(x), enc |-> enc, o |-> out, e |-> err,
                            pc |-> pc, trig |-> trig]))
=============================================================================
