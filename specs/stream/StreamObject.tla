---------------------------- MODULE StreamObject ----------------------------
(***************************************************************************)
(* C03 / the stream object's call protocol.  A PDFStream holds rawdata      *)
(* until its first decode and data afterwards (pdfminer/pdftypes.py:        *)
(* get_data, get_rawdata, decode).  The property speaks of "the decoded     *)
(* bytes" of a stream; a caller may ask for them any number of times, in    *)
(* any interleaving with get_rawdata(), and must get the same answer every  *)
(* time - also when that answer is the empty string, which is falsy in      *)
(* Python just like the "not decoded yet" marker None.                      *)
(*                                                                          *)
(* TLC enumerates every call sequence up to MaxCalls over                   *)
(* {get_data, get_rawdata, decode} x payload {empty, non-empty} x           *)
(* {filtered, unfiltered}; the replay runs each on real PDFStream objects   *)
(* (built directly and obtained from PDFDocument.getobj) for every filter.  *)
(***************************************************************************)
EXTENDS Integers, Sequences, TLC, Json

CONSTANTS MaxCalls, Payloads      \* Payloads: set of sequences, e.g. {<<>>, <<7>>}

None == [set |-> FALSE, v |-> <<>>]
Some(x) == [set |-> TRUE, v |-> x]

VARIABLES payload, filtered, plan,      \* the case
          data, rawdata,                \* PDFStream.data / .rawdata  (None or a value)
          i, answers, err
vars == <<payload, filtered, plan, data, rawdata, i, answers, err>>

Calls == {"get_data", "get_rawdata", "decode"}
\* what is stored in the file: the payload itself, or its encoding (never empty: every filter has an EOD or header)
Raw(p, f) == IF f THEN <<"enc">> \o p ELSE p

Init == /\ payload \in Payloads /\ filtered \in BOOLEAN
        /\ plan \in UNION {[1..m -> Calls] : m \in 1..MaxCalls}
        /\ data = None /\ rawdata = Some(Raw(payload, filtered))
        /\ i = 0 /\ answers = <<>> /\ err = "none"
Keep == UNCHANGED <<payload, filtered, plan>>
Cur == plan[i + 1]
Step == i < Len(plan) /\ err = "none" /\ i' = i + 1

\* decode(): assert self.data is None and self.rawdata is not None; ...; self.data = <decoded>; self.rawdata = None
Decoded == data' = Some(payload) /\ rawdata' = None

\* get_data(): if self.data is None: self.decode()
AGetDataFirst == /\ Step /\ Cur = "get_data" /\ ~data.set
                 /\ Decoded /\ answers' = Append(answers, Some(payload)) /\ Keep /\ UNCHANGED err
AGetDataAgain == /\ Step /\ Cur = "get_data" /\ data.set
                 /\ answers' = Append(answers, data) /\ Keep /\ UNCHANGED <<data, rawdata, err>>
\* get_rawdata(): return self.rawdata
AGetRaw == /\ Step /\ Cur = "get_rawdata"
           /\ answers' = Append(answers, rawdata) /\ Keep /\ UNCHANGED <<data, rawdata, err>>
ADecode == /\ Step /\ Cur = "decode" /\ ~data.set
           /\ Decoded /\ answers' = Append(answers, None) /\ Keep /\ UNCHANGED err
\* decode() on a stream that is decoded already trips its own assertion (a caller's mistake, stated as coded)
ADecodeTwice == /\ Step /\ Cur = "decode" /\ data.set
                /\ err' = "AssertionError" /\ answers' = Append(answers, None) /\ Keep /\ UNCHANGED <<data, rawdata>>

Next == AGetDataFirst \/ AGetDataAgain \/ AGetRaw \/ ADecode \/ ADecodeTwice
Spec == Init /\ [][Next]_vars

\* ======================================================================== C03
\* every get_data() answers the payload - the first time and every later time, empty or not
SameAnswerEveryTime ==
  \A k \in 1..Len(answers) : plan[k] = "get_data" => answers[k] = Some(payload)
\* the raw bytes are available exactly until the first decode
RawUntilDecoded ==
  \A k \in 1..Len(answers) : plan[k] = "get_rawdata" =>
     answers[k] = IF \E m \in 1..(k - 1) : plan[m] \in {"get_data", "decode"} THEN None ELSE Some(Raw(payload, filtered))
\* exactly one of data / rawdata is held
OneHeld == data.set # rawdata.set
\* nothing but a second explicit decode() fails
OnlyDoubleDecodeFails == err # "none" => \E k, m \in 1..Len(plan) : m < k /\ plan[k] = "decode" /\ plan[m] \in {"decode", "get_data"}

EmitTerminal ==
  (i = Len(plan) \/ err # "none") =>
     PrintT("@@" \o ToJson([p |-> payload, f |-> filtered, plan |-> plan, a |-> answers, e |-> err]))
=============================================================================
