---- MODULE MC_FilterChain ----
EXTENDS FilterChain
\* predictors only accompany LZW and Flate (7.4.4.4)
LayersAll == {<<"AHx", 0>>, <<"A85", 0>>, <<"RL", 0>>,
              <<"LZW", 0>>, <<"LZW", 12>>, <<"LZW", 2>>, <<"Fl", 0>>, <<"Fl", 1>>, <<"Fl", 2>>, <<"Fl", 15>>, <<"Fl", 10>>}
LayersCore == {<<"AHx", 0>>, <<"A85", 0>>, <<"RL", 0>>, <<"LZW", 0>>, <<"LZW", 12>>, <<"Fl", 0>>, <<"Fl", 2>>, <<"Fl", 15>>, <<"Fl", 1>>}
====
