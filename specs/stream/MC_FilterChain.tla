---- MODULE MC_FilterChain ----
EXTENDS FilterChain
\* <<filter, predictor, earlychange>>; predictors only accompany LZW and Flate (7.4.4.4), /EarlyChange only LZW,
\* CCITTFax always carries /K -1 (the realiser adds /Columns)
LayersAll == {<<"AHx", 0, -1>>, <<"A85", 0, -1>>, <<"RL", 0, -1>>, <<"CCF", 0, -1>>,
              <<"LZW", 0, -1>>, <<"LZW", 0, 0>>, <<"LZW", 0, 1>>, <<"LZW", 12, -1>>, <<"LZW", 12, 0>>, <<"LZW", 2, -1>>,
              <<"Fl", 0, -1>>, <<"Fl", 1, -1>>, <<"Fl", 2, -1>>, <<"Fl", 15, -1>>, <<"Fl", 10, -1>>}
LayersCore == {<<"AHx", 0, -1>>, <<"A85", 0, -1>>, <<"RL", 0, -1>>, <<"CCF", 0, -1>>,
               <<"LZW", 0, -1>>, <<"LZW", 0, 0>>, <<"LZW", 12, 0>>, <<"Fl", 2, -1>>, <<"Fl", 15, -1>>}
\* three stages: the kinds whose parameters can leak from one stage into another, around a parameterless one
LayersLeak == {<<"AHx", 0, -1>>, <<"LZW", 0, -1>>, <<"LZW", 0, 0>>, <<"LZW", 12, 1>>, <<"Fl", 15, -1>>, <<"CCF", 0, -1>>}
\* quick tier, three stages: [/LZW /AHx /LZW] and its relatives
LayersLeakSmall == {<<"AHx", 0, -1>>, <<"LZW", 0, -1>>, <<"LZW", 0, 0>>}
\* thorough tier, three stages over the kinds of the first pass
LayersWide == {<<"AHx", 0, -1>>, <<"A85", 0, -1>>, <<"RL", 0, -1>>, <<"LZW", 0, -1>>, <<"LZW", 12, -1>>, <<"LZW", 2, -1>>,
               <<"Fl", 0, -1>>, <<"Fl", 1, -1>>, <<"Fl", 2, -1>>, <<"Fl", 15, -1>>, <<"Fl", 10, -1>>}
====
