------------------------------ MODULE RunLength ------------------------------
(***************************************************************************)
(* C03 / RunLengthDecode.  The decoder loop of pdfminer/runlength.py as a   *)
(* machine (read a length byte; copy; repeat; stop), next to the writer     *)
(* relation of the standard: the input cut into runs in every possible way  *)
(* (literal runs of 1..H bytes, repeat runs of 2..H equal bytes), with or   *)
(* without the EOD byte at the end.  H is scaled down (real: 128); the      *)
(* byte alphabet contains H itself, so payload bytes that look like EOD     *)
(* and like length bytes occur in every position.                           *)
(***************************************************************************)
EXTENDS RunLengthOps, FiniteSets, TLC, Json

CONSTANTS Bytes,     \* payload bytes, a subset of 0..2H-1
          MaxLen,    \* payloads of length 0..MaxLen
          EODs       \* subset of BOOLEAN

ASSUME Bytes \subseteq 0..(2 * H - 1)

Min(a, b) == IF a < b THEN a ELSE b
AllEq(s)  == \A k \in 1..Len(s) : s[k] = s[1]

\* ======================================================================== writer (reference)
\* every encoding of x: the set of byte strings a conforming encoder may produce (without EOD)
RECURSIVE Encs(_)
Encs(x) ==
  IF x = <<>> THEN {<<>>}
  ELSE UNION { LET head == SubSeq(x, 1, n)
                   rest == Encs(SubSeq(x, n + 1, Len(x))) IN
               {<<n - 1>> \o head \o r : r \in rest}
               \cup (IF n >= 2 /\ AllEq(head) THEN {<<2 * H + 1 - n, x[1]>> \o r : r \in rest} ELSE {})
             : n \in 1..Min(H, Len(x)) }

\* ======================================================================== decoder (as coded)
VARIABLES x, enc, pos, L, pc, out, err, runs
vars == <<x, enc, pos, L, pc, out, err, runs>>

Inputs == UNION {[1..m -> Bytes] : m \in 0..MaxLen}

Init == /\ x \in Inputs
        /\ \E e \in Encs(x), eod \in EODs : enc = IF eod THEN Append(e, H) ELSE e
        /\ pos = 0 /\ L = -1 /\ pc = "len" /\ out = <<>> /\ err = "none" /\ runs = <<>>

Keep == UNCHANGED <<x, enc>>

\* length = next(data_iter, 128): the end of the data reads as EOD
AReadLen == /\ pc = "len"
            /\ IF pos < Len(enc) THEN L' = enc[pos + 1] /\ pos' = pos + 1 ELSE L' = H /\ pos' = pos
            /\ pc' = "run" /\ Keep /\ UNCHANGED <<out, err, runs>>

AEOD == /\ pc = "run" /\ KindOf(L) = "eod"
        /\ pc' = "done" /\ runs' = Append(runs, <<L, 0>>) /\ Keep /\ UNCHANGED <<pos, L, out, err>>

ALiteral == /\ pc = "run" /\ KindOf(L) = "lit" /\ pos + L + 1 <= Len(enc)
            /\ out' = out \o SubSeq(enc, pos + 1, pos + L + 1) /\ pos' = pos + L + 1
            /\ pc' = "len" /\ runs' = Append(runs, <<L, L + 1>>) /\ Keep /\ UNCHANGED <<L, err>>

ARepeat == /\ pc = "run" /\ KindOf(L) = "rep" /\ pos + 1 <= Len(enc)
           /\ out' = out \o Rep(enc[pos + 1], OutLen(L)) /\ pos' = pos + 1
           /\ pc' = "len" /\ runs' = Append(runs, <<L, OutLen(L)>>) /\ Keep /\ UNCHANGED <<L, err>>

\* the data ends inside a run: StopIteration / RuntimeError escapes (C13's concern; unreachable here)
ATruncated == /\ pc = "run" /\ KindOf(L) # "eod"
              /\ pos + (IF KindOf(L) = "lit" THEN L + 1 ELSE 1) > Len(enc)
              /\ pc' = "done" /\ err' = "truncated" /\ Keep /\ UNCHANGED <<pos, L, out, runs>>

Next == AReadLen \/ AEOD \/ ALiteral \/ ARepeat \/ ATruncated
Spec == Init /\ [][Next]_vars

\* ======================================================================== C03
Inverts  == pc = "done" => (out = x /\ err = "none")
PrefixOK == Len(out) <= Len(x) /\ out = SubSeq(x, 1, Len(out))
\* every run stays inside the data and puts out between 1 and H bytes
RunsOK   == \A k \in 1..Len(runs) : runs[k][2] = OutLen(runs[k][1]) /\ runs[k][2] \in 0..H
PosOK    == pos \in 0..Len(enc)

EmitTerminal ==
  pc = "done" => PrintT("@@" \o ToJson([x |-> x, enc |-> enc, r |-> runs, o |-> out, e |-> err]))
=============================================================================
