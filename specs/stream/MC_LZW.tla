---- MODULE MC_LZW ----
EXTENDS LZW
\* plain instances: every input up to MaxLen
PrefixNone == <<>>
\* Alpha = 2, 3..4-bit codes: eleven phrases in 19 symbols, so that every continuation of length <= MaxLen
\* runs through the width switch, the table-full clear and the return to MinBits
PrefixWF == <<0, 0, 1, 1, 0, 0, 0, 0, 1, 0, 0, 1, 0, 1, 1, 0, 1, 1, 0>>
====
