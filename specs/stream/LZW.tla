-------------------------------- MODULE LZW --------------------------------
(***************************************************************************)
(* C03 / LZWDecode.  The decoder of pdfminer/lzw.py as a machine (one       *)
(* action per readbits() call and per branch of feed()), next to a writer   *)
(* relation taken from the standard (ISO 32000-1 7.4.4, table 8):           *)
(*   greedy LZW; a clear-table code first; /EarlyChange ec in {0, 1}        *)
(*   decides when code widths grow; when the table is full the writer       *)
(*   clears at once (defer = 0) or keeps writing MaxBits-wide codes from    *)
(*   the frozen table for `defer` more codes (never clearing if the input   *)
(*   ends first) - both are legal; optionally one more clear anywhere; EOD  *)
(*   last (or left out); after EOD the stream may carry `trail` more bytes  *)
(*   that a reader must not look at (EOD ends the data).                    *)
(* TLC enumerates every input string over Alpha symbols up to MaxLen x      *)
(* every writer choice and checks that the decoder gives the input back,    *)
(* with the width schedule of the standard in force at every code.          *)
(*                                                                          *)
(* "Bytes" are ByteBits wide (ByteBits < MinBits as 8 < 9), so that the     *)
(* zero padding after the last code can never be read as a code, exactly    *)
(* as at the real constants.                                                *)
(*                                                                          *)
(* Dev - named deviations of the code from the standard:                    *)
(*   "LzwEarlyChangeIgnored"  PDFStream.decode does not hand /EarlyChange   *)
(*                            to the decoder, which always switches early   *)
(*   "LzwEodContinues"        feed() does nothing on EOD and run() goes on  *)
(*                            reading codes from whatever follows           *)
(***************************************************************************)
EXTENDS LZWOps, FiniteSets, TLC, Json

CONSTANTS MaxLen,       \* inputs are Prefix \o s for every s of length 0..MaxLen over 0..Alpha-1
          Prefix,       \* fixed head of every input (<<>> in the plain instances; a string that fills
                        \* most of the table in the instance that reaches width switch AND table-full)
          EODs,         \* subset of BOOLEAN: does the writer end with the EOD code
          ECs,          \* subset of {0, 1}: the writer's /EarlyChange
          Defers,       \* codes written from a full table before the deferred clear (0 = clear at once)
          MaxXC,        \* the optional extra clear stands at most this far into the enumerated part of the input
          Trails,       \* numbers of bytes after EOD
          TrailBytes,   \* their values
          Dev

Pow2(n) == 2^n
Singles == [i \in 1..Alpha |-> <<i - 1>>]
InitTab == Singles \o << <<>>, <<>> >>          \* entries Alpha, Alpha+1 are never output

\* ======================================================================== writer (reference)
InTab(tab, w)  == \E k \in 1..Len(tab) : tab[k] = w /\ w # <<>>
CodeOf(tab, w) == (CHOOSE k \in 1..Len(tab) : tab[k] = w) - 1
\* width of the next code when n codes have been written since the last clear-table code:
\* the decoder then holds FirstFree + max(n-1, 0) entries (it never counts beyond a full table's width)
Wd(n, ec) == WidthForEC(FirstFree + (IF n = 0 THEN 0 ELSE n - 1), ec)

\* greedy parse of x from symbol i on; w = phrase matched so far; tab = writer's table;
\* n = codes since the last clear; xc = input position of the optional extra clear (0 = none);
\* left = -1 while the table has room, otherwise the codes still to be written before the deferred clear
RECURSIVE EncGo(_, _, _, _, _, _, _, _, _, _)
EncGo(x, i, w, tab, n, acc, xc, ec, defer, left) ==
  IF i = Len(x)
  THEN IF w = <<>> THEN [acc |-> acc, n |-> n]
       ELSE [acc |-> Append(acc, <<CodeOf(tab, w), Wd(n, ec)>>), n |-> n + 1]
  ELSE IF i = xc /\ w # <<>>
  THEN \* optional clear: flush the phrase, clear, start over
       EncGo(x, i, <<>>, InitTab, 0,
             acc \o << <<CodeOf(tab, w), Wd(n, ec)>>, <<ClearCode, Wd(n + 1, ec)>> >>, 0, ec, defer, -1)
  ELSE LET b  == x[i + 1]
           wc == Append(w, b) IN
       IF InTab(tab, wc) THEN EncGo(x, i + 1, wc, tab, n, acc, xc, ec, defer, left)
       ELSE LET acc1 == Append(acc, <<CodeOf(tab, w), Wd(n, ec)>>)
                clr  == Append(acc1, <<ClearCode, Wd(n + 1, ec)>>) IN
            IF left = -1
            THEN LET tab1 == Append(tab, wc) IN
                 IF Len(tab1) < TableMax THEN EncGo(x, i + 1, <<b>>, tab1, n + 1, acc1, xc, ec, defer, -1)
                 ELSE IF defer = 0
                 THEN \* table full: clear-table, written at the width then in force
                      EncGo(x, i + 1, <<b>>, InitTab, 0, clr, xc, ec, defer, -1)
                 ELSE \* table full, clear deferred: go on with the frozen table
                      EncGo(x, i + 1, <<b>>, tab1, n + 1, acc1, xc, ec, defer, defer)
            ELSE \* frozen table: nothing is added
                 IF left = 1 THEN EncGo(x, i + 1, <<b>>, InitTab, 0, clr, xc, ec, defer, -1)
                 ELSE EncGo(x, i + 1, <<b>>, tab, n + 1, acc1, xc, ec, defer, left - 1)

Codes(x, xc, eod, ec, defer) ==
  LET r == EncGo(x, 0, <<>>, InitTab, 0, << <<ClearCode, MinBits>> >>, xc, ec, defer, -1) IN
  IF eod THEN Append(r.acc, <<EODCode, Wd(r.n, ec)>>) ELSE r.acc

\* most significant bit first
RECURSIVE BitsOf(_, _)
BitsOf(v, w) == IF w = 0 THEN <<>> ELSE Append(BitsOf(v \div 2, w - 1), v % 2)
RECURSIVE AllBits(_)
AllBits(cs) == IF cs = <<>> THEN <<>> ELSE BitsOf(cs[1][1], cs[1][2]) \o AllBits(Tail(cs))
RECURSIVE ValOf(_)
ValOf(bs) == IF bs = <<>> THEN 0 ELSE 2 * ValOf(SubSeq(bs, 1, Len(bs) - 1)) + bs[Len(bs)]
Pack(bs) ==
  LET pad == (ByteBits - (Len(bs) % ByteBits)) % ByteBits
      b2  == bs \o [k \in 1..pad |-> 0] IN
  [k \in 1..(Len(b2) \div ByteBits) |-> ValOf(SubSeq(b2, (k - 1) * ByteBits + 1, k * ByteBits))]
Encode(x, xc, eod, ec, defer) == Pack(AllBits(Codes(x, xc, eod, ec, defer)))

\* ======================================================================== decoder (as coded)
VARIABLES x, xc, eod, ec, defer, trail,   \* the writer's choices
          enc,                 \* the encoded "bytes"
          inpos, buff, bpos,   \* LZWDecoder.fp position, .buff, .bpos
          nbits, table, prev,  \* .nbits, .table, .prevbuf  (prev = <<-1>> before the first clear)
          code, pc, out, err,
          hist,                \* per code: <<code, nbits used, kind, bytes put out>>  (for the replay)
          trig                 \* deviations that made a difference in this behaviour
vars == <<x, xc, eod, ec, defer, trail, enc, inpos, buff, bpos, nbits, table, prev, code, pc, out, err, hist, trig>>

Inputs == {Prefix \o s : s \in UNION {[1..m -> 0..(Alpha - 1)] : m \in 0..MaxLen}}

\* (the optional clear is placed anywhere in the enumerated part of the input, not inside the fixed prefix)
Init == /\ x \in Inputs /\ xc \in {0} \cup {p \in Len(Prefix)..(Len(x) - 1) : p <= Len(Prefix) + MaxXC} /\ eod \in EODs
        /\ ec \in ECs /\ defer \in Defers
        /\ trail \in IF eod THEN {<<>>} \cup {[k \in 1..m |-> b] : m \in Trails \ {0}, b \in TrailBytes} ELSE {<<>>}
        /\ enc = Encode(x, xc, eod, ec, defer) \o trail
        /\ inpos = 0 /\ buff = 0 /\ bpos = ByteBits /\ nbits = MinBits
        /\ table = <<>> /\ prev = <<-1>> /\ code = -1
        /\ pc = "read" /\ out = <<>> /\ err = "none" /\ hist = <<>> /\ trig = {}

\* the /EarlyChange value the decoder works with
REC == IF "LzwEarlyChangeIgnored" \in Dev THEN 1 ELSE ec

\* readbits(bits): the loop over the remaining bits of buff and further bytes of fp
RECURSIVE RB(_, _, _, _, _)
RB(bits, v, ip, bf, bp) ==
  LET r == ByteBits - bp IN
  IF bits <= r
  THEN [v |-> v * Pow2(bits) + ((bf \div Pow2(r - bits)) % Pow2(bits)), ip |-> ip, bf |-> bf,
        bp |-> bp + bits, eof |-> FALSE]
  ELSE IF ip >= Len(enc) THEN [v |-> 0, ip |-> ip, bf |-> bf, bp |-> bp, eof |-> TRUE]
  ELSE RB(bits - r, v * Pow2(r) + (bf % Pow2(r)), ip + 1, enc[ip + 1], 0)

Writer == UNCHANGED <<x, xc, eod, ec, defer, trail, enc>>

ARead == /\ pc = "read"
         /\ LET r == RB(nbits, 0, inpos, buff, bpos) IN
              IF r.eof THEN /\ pc' = "done" /\ UNCHANGED <<code, inpos, buff, bpos>>
              ELSE /\ pc' = "feed" /\ code' = r.v /\ inpos' = r.ip /\ buff' = r.bf /\ bpos' = r.bp
         /\ Writer /\ UNCHANGED <<nbits, table, prev, out, err, hist, trig>>

K == Kind(code, Len(table), prev = <<>> \/ prev = <<-1>>)
Fed(kind, n) == hist' = Append(hist, <<code, nbits, kind, n>>)
Keep == Writer /\ UNCHANGED <<inpos, buff, bpos, code>>

DoClear == /\ pc = "feed" /\ K = "clear"
           /\ table' = InitTab /\ prev' = <<>> /\ nbits' = MinBits /\ pc' = "read"
           /\ Fed("clear", 0) /\ Keep /\ UNCHANGED <<out, err, trig>>

AClear      == hist = <<>> /\ DoClear          \* the clear-table code every stream starts with
AClearAgain == hist # <<>> /\ DoClear          \* table full (at once or deferred), or the writer's optional clear

\* EOD ends the data; as coded (LzwEodContinues) feed() passes and run() keeps reading
AEOD == /\ pc = "feed" /\ K = "eod"
        /\ IF "LzwEodContinues" \in Dev
           THEN pc' = "read" /\ trig' = trig \cup (IF trail # <<>> THEN {"LzwEodContinues"} ELSE {})
           ELSE pc' = "done" /\ trig' = trig
        /\ Fed("eod", 0) /\ Keep /\ UNCHANGED <<table, prev, nbits, out, err>>

AFirst == /\ pc = "feed" /\ K = "first"
          /\ prev' = table[code + 1] /\ out' = out \o table[code + 1] /\ pc' = "read"
          /\ Fed("first", Len(table[code + 1])) /\ Keep /\ UNCHANGED <<table, nbits, err, trig>>

\* as coded the table keeps growing even when MaxBits-wide codes can no longer name the new entries
Grow(e, o) == /\ table' = Append(table, e)
              /\ nbits' = BumpEC(Len(table) + 1, nbits, REC)
              /\ trig' = trig \cup (IF BumpEC(Len(table) + 1, nbits, REC) # BumpEC(Len(table) + 1, nbits, ec)
                                      \/ nbits # WidthForEC(Len(table), ec)
                                    THEN {"LzwEarlyChangeIgnored"} ELSE {})
              /\ prev' = o /\ out' = out \o o /\ pc' = "read"

AKnown == /\ pc = "feed" /\ K = "known"
          /\ Grow(Append(prev, table[code + 1][1]), table[code + 1])
          /\ Fed("known", Len(table[code + 1])) /\ Keep /\ UNCHANGED err

AKwKwK == /\ pc = "feed" /\ K = "kwkwk"
          /\ Grow(Append(prev, prev[1]), Append(prev, prev[1]))
          /\ Fed("kwkwk", Len(prev) + 1) /\ Keep /\ UNCHANGED err

\* CorruptDataError ends the decoding silently; an unusable first code raises IndexError
ACorrupt == /\ pc = "feed" /\ K \in {"corrupt", "indexerror"}
            /\ pc' = "done" /\ err' = K /\ Fed(K, 0) /\ Keep /\ UNCHANGED <<table, prev, nbits, out, trig>>

Next == ARead \/ AClear \/ AClearAgain \/ AEOD \/ AFirst \/ AKnown \/ AKwKwK \/ ACorrupt
Spec == Init /\ [][Next]_vars

\* ======================================================================== C03
\* the decoder gives back exactly what the writer encoded
Inverts == pc = "done" => (out = x /\ err = "none")
\* ... with the deviations switched on: unless one of them made a difference
InvertsUnlessDev == pc = "done" => ((out = x /\ err = "none") \/ trig # {})
\* what has been put out is always a prefix of the input
PrefixOK == Len(out) <= Len(x) /\ out = SubSeq(x, 1, Len(out))
\* the width in force is the one the standard prescribes for the current table length and /EarlyChange
WidthSwitchOK == (pc = "read" /\ Len(table) >= FirstFree) => nbits = WidthForEC(Len(table), ec)
\* a writer that clears on time never makes the table outgrow the code space
TableBound == defer = 0 => Len(table) <= TableMax
NoError == err = "none"

EmitTerminal ==
  pc = "done" => PrintT("@@" \o ToJson([x |-> x, xc |-> xc, eod |-> eod, ec |-> ec, df |-> defer, tr |-> trail,
                                        enc |-> enc, cs |-> Codes(x, xc, eod, ec, defer), h |-> hist, o |-> out,
                                        e |-> err, trig |-> trig]))
=============================================================================
