------------------------------ MODULE LZWTrace ------------------------------
(***************************************************************************)
(* Trace validation for LZWDecode at the real constants (binding B).        *)
(* Each trace is the list of LZWDecoder.feed() calls recorded from the real *)
(* decoder on one encoded stream: per code its value c, the width w it was  *)
(* read with, the table length t after the call and the number o of bytes   *)
(* put out.  A trace is accepted iff it is a behaviour of the decoder       *)
(* machine of LZW.tla (same step classification Kind, same width rule       *)
(* Bump, from LZWOps) over a table abstracted to the lengths of its         *)
(* entries; WidthInv and TableBound are evaluated at every code.  A trace   *)
(* carries the writer's /EarlyChange (ec) and whether the writer defers     *)
(* the clear-table code beyond a full table (defer).  Nothing may be        *)
(* decoded after EOD.                                                       *)
(* A rejected trace is a deadlock whose last state names trace t and the    *)
(* number l of events that could be explained.                              *)
(***************************************************************************)
EXTENDS LZWOps, TLC, Json, IOUtils

Traces == JsonDeserialize(IOEnv.TRACE_FILE)
N == Len(Traces)

VARIABLES t, l, lens, prev, nbits, total
vars == <<t, l, lens, prev, nbits, total>>

Base == [i \in 1..FirstFree |-> IF i <= Alpha THEN 1 ELSE 0]
Init == t = 1 /\ l = 0 /\ lens = <<>> /\ prev = -1 /\ nbits = MinBits /\ total = 0

Cur == Traces[t]
Ev  == Cur.ev[l + 1]

Step(kind) == /\ t <= N /\ l < Len(Cur.ev)
              /\ Ev.w = nbits                                  \* read with the width in force
              /\ Ev.c \in 0..(2^nbits - 1)
              /\ Kind(Ev.c, Len(lens), prev <= 0) = kind
              /\ l' = l + 1 /\ total' = total + Ev.o /\ UNCHANGED t

Clear == Step("clear") /\ lens' = Base /\ prev' = 0 /\ nbits' = MinBits
         /\ Ev.o = 0 /\ Ev.t = FirstFree
EOD   == Step("eod") /\ Ev.o = 0 /\ Ev.t = Len(lens) /\ l + 1 = Len(Cur.ev)      \* EOD is the last code looked at
         /\ UNCHANGED <<lens, prev, nbits>>
First == Step("first") /\ Ev.o = lens[Ev.c + 1] /\ Ev.o > 0 /\ prev' = Ev.o /\ Ev.t = Len(lens)
         /\ UNCHANGED <<lens, nbits>>
Grow(o) == /\ lens' = Append(lens, prev + 1) /\ Ev.t = Len(lens) + 1
           /\ nbits' = BumpEC(Len(lens) + 1, nbits, Cur.ec)
           /\ Ev.o = o /\ o > 0 /\ prev' = o
Known == Step("known") /\ Grow(lens[Ev.c + 1])
KwKwK == Step("kwkwk") /\ Grow(prev + 1)

\* the decoder stopped at the end of the data, having produced as many bytes as were encoded
EndTrace == /\ t <= N /\ l = Len(Cur.ev) /\ total = Cur.total
            /\ t' = t + 1 /\ l' = 0 /\ lens' = <<>> /\ prev' = -1 /\ nbits' = MinBits /\ total' = 0

Finished == t > N /\ UNCHANGED vars

Next == Clear \/ EOD \/ First \/ Known \/ KwKwK \/ EndTrace \/ Finished
Spec == Init /\ [][Next]_vars

\* evaluated at every code of every trace
WidthInv   == (t <= N /\ Len(lens) >= FirstFree) => nbits = WidthForEC(Len(lens), Cur.ec)
TableBound == (t <= N /\ ~Cur.defer) => Len(lens) <= TableMax
=============================================================================
