------------------------------ MODULE DumpPdf ------------------------------
(***************************************************************************)
(* C17, extended coverage: tools/dumppdf.py dumpoutline - from an outline  *)
(* item to the number of the page it shows (ISO 32000-1 12.3.2: explicit   *)
(* destinations, 12.3.2.3 named destinations, 12.6.4.2 go-to actions).     *)
(*                                                                         *)
(* Values are small records:                                               *)
(*   [k |-> "none"]                                                        *)
(*   [k |-> "arr", pg |-> p]    an explicit destination whose first entry  *)
(*                              refers to page p (1..P), to an object that *)
(*                              is no page (NONPAGE), or is an integer     *)
(*                              (INTEGER)                                  *)
(*   [k |-> "str"] / [k |-> "lit"]   a named destination given as string / *)
(*                              name object; what the name stands for is   *)
(*                              `nv` (Absent or a value)                   *)
(*   [k |-> "dict", d |-> v | NoDv]     a dictionary with / without /D     *)
(*   [k |-> "ref", v |-> v]     the value behind an indirect reference     *)
(*   [k |-> "act", s |-> "GoTo" | "URI", d |-> v]    an action dictionary  *)
(*                                                                         *)
(* One action per step of dumpoutline / resolve_dest for one item:         *)
(*   DTest      `if dest:` / `elif a:`                                     *)
(*   RName      isinstance(dest, (str, bytes)) / PSLiteral: get_dest, then *)
(*              resolve1 of what was found                                 *)
(*   RDict      isinstance(dest, dict): dest = dest["D"]                   *)
(*   RRef       isinstance(dest, PDFObjRef): dest = dest.resolve()         *)
(*   PLookup    pageno = pages[dest[0].objid]                              *)
(*   AAction    isinstance(action, dict), /S == GoTo and /D                *)
(* Reference: the item's destination is /Dest, else the /D of a go-to      *)
(* action; indirect references are transparent everywhere; a name or       *)
(* string stands for the value stored under it; a dictionary stands for    *)
(* its /D; the page is the first entry of the array.  An item whose        *)
(* destination cannot be resolved to a page of the document simply has no  *)
(* page number.                                                            *)
(*                                                                         *)
(* Named deviations (all outside C17's statement: extended coverage):      *)
(*   IndirectActionIgnored  /A given as an indirect reference is not a     *)
(*                          dict for isinstance: no page number            *)
(*   MissingDestAborts      PDFDestinationNotFound leaves dumpoutline      *)
(*   RefNotReinterpreted    a reference is resolved last, so /Dest n 0 R   *)
(*                          leading to a name, string or dictionary is not *)
(*                          looked up / unwrapped (AttributeError,         *)
(*                          KeyError)                                      *)
(*   NonPageAborts          a first entry that is no page of the tree      *)
(*                          raises KeyError / AttributeError               *)
(***************************************************************************)
EXTENDS DumpPdfOps, Json

CONSTANTS P, Dev

Arrs == {[k |-> "arr", pg |-> p] : p \in (1..P) \cup {NONPAGE, INTEGER}}
RefTo(S) == {[k |-> "ref", v |-> v] : v \in S}
DictOf(S) == {[k |-> "dict", d |-> v] : v \in S}
NoD == [k |-> "dict", d |-> NoDv]
Str == [k |-> "str"]
Lit == [k |-> "lit"]

\* what /Dest (or the /D of an action) may be
Direct == Arrs \cup {Str, Lit, NoD} \cup DictOf(Arrs) \cup DictOf(RefTo(Arrs))
DestForms == Direct \cup RefTo(Direct)
\* what a name may stand for
NamedValues == {Absent} \cup Arrs \cup RefTo(Arrs) \cup DictOf(Arrs) \cup DictOf(RefTo(Arrs)) \cup RefTo(DictOf(Arrs))
\* what /A may be
ActDicts == {[k |-> "act", s |-> s, d |-> d] : s \in {"GoTo", "URI"}, d \in {None} \cup Arrs \cup RefTo(Arrs) \cup {Str, Lit}}
ActForms == ActDicts \cup RefTo(ActDicts)

RECURSIVE Mentions(_)
Mentions(v) == IF v.k \in {"str", "lit"} THEN TRUE
               ELSE IF v.k = "ref" THEN Mentions(v.v)
               ELSE IF v.k = "dict" THEN (v.d # NoDv /\ Mentions(v.d))
               ELSE IF v.k = "act" THEN Mentions(v.d)
               ELSE FALSE

VARIABLES idest, ia, nv,       \* input: the item's /Dest, its /A, what names stand for
          st                   \* [dest, pageno, err, pc, fired]
vars == <<idest, ia, nv, st>>

Init == /\ \/ (idest \in DestForms /\ ia \in {None} \cup {[k |-> "act", s |-> "GoTo", d |-> [k |-> "arr", pg |-> 1]]})
           \/ (idest = None /\ ia \in {None} \cup ActForms)
        /\ nv \in (IF Mentions(idest) \/ Mentions(ia) THEN NamedValues ELSE {Absent})
        /\ st = Start(idest)

In == UNCHANGED <<idest, ia, nv>>
DTest   == st.pc = "test"   /\ st' = StepTest(st) /\ In
RName   == st.pc = "name"   /\ st' = StepName(st, nv, Dev) /\ In
RDict   == st.pc = "dict"   /\ st' = StepDict(st, Dev) /\ In
RRef    == st.pc = "ref"    /\ st' = StepRef(st) /\ In
PLookup == st.pc = "look"   /\ st' = StepLook(st, P, Dev) /\ In
AAction == st.pc = "action" /\ st' = StepAction(st, ia, Dev) /\ In
Finished == st.pc = "done" /\ UNCHANGED vars
Next == DTest \/ RName \/ RDict \/ RRef \/ PLookup \/ AAction \/ Finished
Spec == Init /\ [][Next]_vars

RefPage == RefPageOf(idest, ia, nv, P)
Resolution == (st.pc = "done" /\ st.fired = {}) => (st.err = "none" /\ st.pageno = RefPage)
\* whatever deviation is in force: a page number that is reported is the right one
NeverWrongPage == (st.pc = "done" /\ st.pageno # 0) => st.pageno = RefPage
\* the step-by-step machine and the steps folded into one function agree
RunShape == st.pc = "done" => st = Run(Start(idest), ia, nv, P, Dev)
Progress == [][st'.pc # st.pc \/ st'.dest # st.dest]_vars

EmitTerminal == st.pc = "done" =>
  PrintT("@@" \o ToJson([dest |-> idest, a |-> ia, nv |-> nv, pageno |-> st.pageno, err |-> st.err, fired |-> st.fired, ref |-> RefPage]))
=============================================================================
