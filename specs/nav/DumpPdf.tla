------------------------------ MODULE DumpPdf ------------------------------
(***************************************************************************)
(* C17, extended coverage: tools/dumppdf.py dumpoutline - from an outline  *)
(* item to the number of the page it shows (ISO 32000-1 12.3.2: explicit   *)
(* destinations, 12.3.2.3 named destinations, 12.6.4.2 go-to actions).     *)
(*                                                                         *)
(* Values are small records:                                               *)
(*   [k |-> "none"]                                                        *)
(*   [k |-> "arr", pg |-> p]    an explicit destination whose first entry  *)
(*                              refers to page p (1..P), to an object that *)
(*                              is no page (NONPAGE), or is an integer     *)
(*                              (INTEGER)                                  *)
(*   [k |-> "str"] / [k |-> "lit"]   a named destination given as string / *)
(*                              name object; what the name stands for is   *)
(*                              `nv` (Absent or a value)                   *)
(*   [k |-> "dict", d |-> v | NoDv]     a dictionary with / without /D     *)
(*   [k |-> "ref", v |-> v]     the value behind an indirect reference     *)
(*   [k |-> "act", s |-> "GoTo" | "URI", d |-> v]    an action dictionary  *)
(*                                                                         *)
(* One action per step of dumpoutline / resolve_dest for one item:         *)
(*   DTest      `if dest:` / `elif a:`                                     *)
(*   RName      isinstance(dest, (str, bytes)) / PSLiteral: get_dest, then *)
(*              resolve1 of what was found                                 *)
(*   RDict      isinstance(dest, dict): dest = dest["D"]                   *)
(*   RRef       isinstance(dest, PDFObjRef): dest = dest.resolve()         *)
(*   PLookup    pageno = pages[dest[0].objid]                              *)
(*   AAction    isinstance(action, dict), /S == GoTo and /D                *)
(* Reference: the item's destination is /Dest, else the /D of a go-to      *)
(* action; indirect references are transparent everywhere; a name or       *)
(* string stands for the value stored under it; a dictionary stands for    *)
(* its /D; the page is the first entry of the array.  An item whose        *)
(* destination cannot be resolved to a page of the document simply has no  *)
(* page number.                                                            *)
(*                                                                         *)
(* Named deviations (all outside C17's statement: extended coverage):      *)
(*   IndirectActionIgnored  /A given as an indirect reference is not a     *)
(*                          dict for isinstance: no page number            *)
(*   MissingDestAborts      PDFDestinationNotFound leaves dumpoutline      *)
(*   RefNotReinterpreted    a reference is resolved last, so /Dest n 0 R   *)
(*                          leading to a name, string or dictionary is not *)
(*                          looked up / unwrapped (AttributeError,         *)
(*                          KeyError)                                      *)
(*   NonPageAborts          a first entry that is no page of the tree      *)
(*                          raises KeyError / AttributeError               *)
(***************************************************************************)
EXTENDS Integers, Sequences, FiniteSets, TLC, Json

CONSTANTS P, Dev

None == [k |-> "none"]
NoDv == [k |-> "noD"]
Absent == [k |-> "absent"]
NONPAGE == -1
INTEGER == -2
Arrs == {[k |-> "arr", pg |-> p] : p \in (1..P) \cup {NONPAGE, INTEGER}}
RefTo(S) == {[k |-> "ref", v |-> v] : v \in S}
DictOf(S) == {[k |-> "dict", d |-> v] : v \in S}
NoD == [k |-> "dict", d |-> NoDv]
Str == [k |-> "str"]
Lit == [k |-> "lit"]

\* what /Dest (or the /D of an action) may be
Direct == Arrs \cup {Str, Lit, NoD} \cup DictOf(Arrs) \cup DictOf(RefTo(Arrs))
DestForms == Direct \cup RefTo(Direct)
\* what a name may stand for
NamedValues == {Absent} \cup Arrs \cup RefTo(Arrs) \cup DictOf(Arrs) \cup DictOf(RefTo(Arrs)) \cup RefTo(DictOf(Arrs))
\* what /A may be
ActDicts == {[k |-> "act", s |-> s, d |-> d] : s \in {"GoTo", "URI"}, d \in {None} \cup Arrs \cup RefTo(Arrs) \cup {Str, Lit}}
ActForms == ActDicts \cup RefTo(ActDicts)

RECURSIVE Mentions(_)
Mentions(v) == IF v.k \in {"str", "lit"} THEN TRUE
               ELSE IF v.k = "ref" THEN Mentions(v.v)
               ELSE IF v.k = "dict" THEN (v.d # NoDv /\ Mentions(v.d))
               ELSE IF v.k = "act" THEN Mentions(v.d)
               ELSE FALSE

VARIABLES idest, ia, nv,               \* input: the item's /Dest, its /A, what names stand for
          dest, pageno, err, pc, fired
vars == <<idest, ia, nv, dest, pageno, err, pc, fired>>

Init == /\ \/ (idest \in DestForms /\ ia \in {None} \cup {[k |-> "act", s |-> "GoTo", d |-> [k |-> "arr", pg |-> 1]]})
           \/ (idest = None /\ ia \in {None} \cup ActForms)
        /\ nv \in (IF Mentions(idest) \/ Mentions(ia) THEN NamedValues ELSE {Absent})
        /\ dest = idest /\ pageno = 0 /\ err = "none" /\ pc = "test" /\ fired = {}

In == UNCHANGED <<idest, ia, nv>>
Fail(e, d) == err' = e /\ fired' = fired \cup {d} /\ pc' = "done" /\ UNCHANGED <<dest, pageno>> /\ In

\* resolve1: references are followed to the object
RECURSIVE Resolve1(_)
Resolve1(v) == IF v.k = "ref" THEN Resolve1(v.v) ELSE v

\* `if dest:` ... `elif a:`
DTest == /\ pc = "test"
         /\ pc' = IF dest # None THEN "name" ELSE "action"
         /\ UNCHANGED <<dest, pageno, err, fired>> /\ In

\* resolve_dest, first test: a string or a name object is looked up with get_dest
RName == /\ pc = "name" /\ dest.k \in {"str", "lit"}
         /\ IF nv = Absent
              THEN IF "MissingDestAborts" \in Dev THEN Fail("PDFDestinationNotFound", "MissingDestAborts")
                   ELSE dest' = None /\ pc' = "done" /\ UNCHANGED <<pageno, err, fired>> /\ In
              ELSE dest' = Resolve1(nv) /\ pc' = "dict" /\ UNCHANGED <<pageno, err, fired>> /\ In
RNameSkip == /\ pc = "name" /\ dest.k \notin {"str", "lit"}
             /\ IF "RefNotReinterpreted" \notin Dev /\ dest.k = "ref"
                  THEN dest' = Resolve1(dest) /\ pc' = "name"        \* intended: references are transparent from the start
                  ELSE dest' = dest /\ pc' = "dict"
             /\ UNCHANGED <<pageno, err, fired>> /\ In
\* second test: a dictionary stands for its /D
RDict == /\ pc = "dict"
         /\ IF dest.k = "dict"
              THEN IF dest.d = NoDv
                     THEN IF "NonPageAborts" \in Dev THEN Fail("KeyError", "NonPageAborts")
                          ELSE dest' = None /\ pc' = "done" /\ UNCHANGED <<pageno, err, fired>> /\ In
                     ELSE dest' = dest.d /\ pc' = "ref" /\ UNCHANGED <<pageno, err, fired>> /\ In
              ELSE dest' = dest /\ pc' = "ref" /\ UNCHANGED <<pageno, err, fired>> /\ In
\* third test: a reference is resolved
RRef ==  /\ pc = "ref"
         /\ dest' = IF dest.k = "ref" THEN dest.v ELSE dest
         /\ pc' = "look" /\ UNCHANGED <<pageno, err, fired>> /\ In
\* pageno = pages[dest[0].objid]
PLookup == /\ pc = "look"
           /\ IF dest.k = "arr" /\ dest.pg \in 1..P
                THEN pageno' = dest.pg /\ pc' = "done" /\ UNCHANGED <<dest, err, fired>> /\ In
              ELSE IF dest.k = "arr"
                THEN IF "NonPageAborts" \in Dev
                       THEN Fail(IF dest.pg = INTEGER THEN "AttributeError" ELSE "KeyError", "NonPageAborts")
                       ELSE pc' = "done" /\ UNCHANGED <<dest, pageno, err, fired>> /\ In
              ELSE \* a name, string or dictionary that only came to light behind a reference
                   Fail(IF dest.k = "str" THEN "AttributeError" ELSE IF dest.k = "lit" THEN "TypeError" ELSE "KeyError",
                        "RefNotReinterpreted")
\* `elif a:` - isinstance(action, dict), subtype GoTo, action.get("D")
AAction == /\ pc = "action"
           /\ IF ia = None THEN pc' = "done" /\ UNCHANGED <<dest, fired>>
              ELSE IF ia.k = "ref" /\ "IndirectActionIgnored" \in Dev
                THEN pc' = "done" /\ fired' = fired \cup {"IndirectActionIgnored"} /\ UNCHANGED dest
              ELSE LET act == Resolve1(ia) IN
                   IF act.s = "GoTo" /\ act.d # None
                     THEN dest' = act.d /\ pc' = "name" /\ UNCHANGED fired
                     ELSE pc' = "done" /\ UNCHANGED <<dest, fired>>
           /\ UNCHANGED <<pageno, err>> /\ In
Finished == pc = "done" /\ UNCHANGED vars
Next == DTest \/ RName \/ RNameSkip \/ RDict \/ RRef \/ PLookup \/ AAction \/ Finished
Spec == Init /\ [][Next]_vars

\* ---- reference
RECURSIVE PageOf(_, _)
PageOf(v, names) ==
  CASE v.k = "ref" -> PageOf(v.v, names)
    [] v.k \in {"str", "lit"} -> IF names = Absent THEN 0 ELSE PageOf(names, Absent)
    [] v.k = "dict" -> IF v.d = NoDv THEN 0 ELSE PageOf(v.d, names)
    [] v.k = "arr" -> IF v.pg \in 1..P THEN v.pg ELSE 0
    [] OTHER -> 0
RefPage == IF idest # None THEN PageOf(idest, nv)
           ELSE IF ia = None THEN 0
           ELSE LET act == Resolve1(ia) IN IF act.s = "GoTo" /\ act.d # None THEN PageOf(act.d, nv) ELSE 0

Resolution == (pc = "done" /\ fired = {}) => (err = "none" /\ pageno = RefPage)
\* whatever deviation is in force: a page number that is reported is the right one
NeverWrongPage == (pc = "done" /\ pageno # 0) => pageno = RefPage
Progress == [][pc' # pc \/ dest' # dest]_vars

EmitTerminal == pc = "done" =>
  PrintT("@@" \o ToJson([dest |-> idest, a |-> ia, nv |-> nv, pageno |-> pageno, err |-> err, fired |-> fired, ref |-> RefPage]))
=============================================================================
