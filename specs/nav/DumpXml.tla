------------------------------- MODULE DumpXml -------------------------------
(***************************************************************************)
(* C17, extended coverage: tools/dumppdf.py dumpallobjs - the loop over    *)
(* the cross-reference sections (newest first) and their object numbers    *)
(* with its `visited` set, the objects that read as null left out, each    *)
(* object written through dumpxml (DumpXmlOps.tla), then the trailers.     *)
(*   ASkipVisited  `if objid in visited: continue`                         *)
(*   ASkipNull     `if obj is None: continue`                              *)
(*   ADumpObj      <object id=..> dumpxml(obj, codec) </object>            *)
(*   ANextXref     the next section                                        *)
(*   ATrailer      dumptrailers: one <trailer> per section that is not a   *)
(*                 fallback section                                        *)
(* Reference: every object number that has a non-null object appears       *)
(* exactly once, at its first occurrence over the sections; the output is  *)
(* well nested, its text free of raw markup, and escaping is invertible.   *)
(* Named deviations (extended coverage): RawBinaryTypeError (codec raw /   *)
(* binary writes bytes to a text stream: TypeError - pinned by             *)
(* tests/test_tools_dumppdf.py), MarkupInNames (keys, names and keywords   *)
(* are written without escaping).                                          *)
(***************************************************************************)
EXTENDS DumpXmlOps, Json

CONSTANTS Docs,      \* documents: [xrefs |-> <<[ids |-> <<objid>>, fallback |-> BOOLEAN]>>, objs |-> [objid -> object]]
          Codecs

VARIABLES doc, codec, xi, oi, visited, out, err, pc, fired
vars == <<doc, codec, xi, oi, visited, out, err, pc, fired>>

Init == /\ doc \in Docs /\ codec \in Codecs
        /\ xi = 1 /\ oi = 1 /\ visited = {} /\ out = <<>> /\ err = "none" /\ pc = "objs" /\ fired = {}

In == UNCHANGED <<doc, codec>>
Sec == doc.xrefs[xi]
Cur == Sec.ids[oi]
InLoop == pc = "objs" /\ xi <= Len(doc.xrefs) /\ oi <= Len(Sec.ids)

ASkipVisited == /\ InLoop /\ Cur \in visited
                /\ oi' = oi + 1 /\ UNCHANGED <<xi, visited, out, err, pc, fired>> /\ In
ASkipNull ==    /\ InLoop /\ Cur \notin visited /\ doc.objs[Cur].k = "null"
                /\ visited' = visited \cup {Cur} /\ oi' = oi + 1 /\ UNCHANGED <<xi, out, err, pc, fired>> /\ In
ADumpObj ==     /\ InLoop /\ Cur \notin visited /\ doc.objs[Cur].k # "null"
                /\ visited' = visited \cup {Cur}
                /\ LET toks == Dump(doc.objs[Cur], codec) IN
                   IF HasFailed(toks)
                     THEN err' = "TypeError" /\ pc' = "done" /\ fired' = fired \cup {"RawBinaryTypeError"} /\ out' = out /\ oi' = oi
                     ELSE /\ out' = Append(out, [id |-> Cur, toks |-> toks])
                          /\ fired' = IF RawMarkup(doc.objs[Cur]) THEN fired \cup {"MarkupInNames"} ELSE fired
                          /\ oi' = oi + 1 /\ UNCHANGED <<err, pc>>
                /\ UNCHANGED xi /\ In
ANextXref ==    /\ pc = "objs" /\ xi <= Len(doc.xrefs) /\ oi > Len(Sec.ids)
                /\ xi' = xi + 1 /\ oi' = 1 /\ UNCHANGED <<visited, out, err, pc, fired>> /\ In
AToTrailers ==  /\ pc = "objs" /\ xi > Len(doc.xrefs)
                /\ pc' = "trailers" /\ xi' = 1 /\ UNCHANGED <<oi, visited, out, err, fired>> /\ In
ATrailer ==     /\ pc = "trailers" /\ xi <= Len(doc.xrefs)
                /\ out' = IF Sec.fallback THEN out ELSE Append(out, [id |-> -xi, toks |-> <<>>])
                /\ xi' = xi + 1 /\ UNCHANGED <<oi, visited, err, pc, fired>> /\ In
AEnd ==         /\ pc = "trailers" /\ xi > Len(doc.xrefs)
                /\ pc' = "done" /\ UNCHANGED <<xi, oi, visited, out, err, fired>> /\ In
Finished == pc = "done" /\ UNCHANGED vars
Next == ASkipVisited \/ ASkipNull \/ ADumpObj \/ ANextXref \/ AToTrailers \/ ATrailer \/ AEnd \/ Finished
Spec == Init /\ [][Next]_vars

\* ---- reference and property
LOCAL SeqY == INSTANCE SequencesExt
FirstOcc == LET a == SeqY!FlattenSeq([i \in 1..Len(doc.xrefs) |-> doc.xrefs[i].ids])
            IN SelectSeq([i \in 1..Len(a) |-> <<i, a[i]>>], LAMBDA p : \A j \in 1..(p[1] - 1) : a[j] # p[2])
RefIds == LET f == SelectSeq(FirstOcc, LAMBDA p : doc.objs[p[2]].k # "null") IN [i \in 1..Len(f) |-> f[i][2]]
RefTrailers == LET f == SelectSeq([i \in 1..Len(doc.xrefs) |-> i], LAMBDA i : ~doc.xrefs[i].fallback) IN [i \in 1..Len(f) |-> -f[i]]
OutIds == [i \in 1..Len(out) |-> out[i].id]

EachObjectOnce == (pc = "done" /\ err = "none") => OutIds = RefIds \o RefTrailers
Total == (pc = "done" /\ "RawBinaryTypeError" \notin fired) => err = "none"
WellFormed == \A i \in 1..Len(out) :
                /\ WellNested(out[i].toks)
                /\ "MarkupInNames" \notin fired => TextClean(out[i].toks)
\* escaping: nothing that needs it is left as it is, and it can be undone
EscapeSound == \A i \in 1..Len(out) : \A j \in 1..Len(out[i].toks) :
                 LET tk == out[i].toks[j] IN
                 (tk.t = "txt" /\ j > 1 /\ out[i].toks[j - 1].n \in {"string", "data"}) =>
                    /\ \A x \in 1..Len(tk.c) : tk.c[x] >= 0 => ~Escaped(tk.c[x])
                    /\ Escape(Unescape(tk.c)) = tk.c
Progress == [][pc' # pc \/ xi' > xi \/ oi' > oi]_vars

EmitTerminal == pc = "done" =>
  PrintT("@@" \o ToJson([doc |-> doc, codec |-> codec, out |-> out, err |-> err, fired |-> fired, refids |-> RefIds]))
=============================================================================
