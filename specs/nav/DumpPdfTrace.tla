---------------------------- MODULE DumpPdfTrace ----------------------------
(***************************************************************************)
(* Trace validation for tools/dumppdf.py (binding B of C17's extended      *)
(* coverage).  Per recorded document:                                      *)
(*   outline   what dumpoutline wrote (items [level, title, pageno]; err = *)
(*             the exception that ended it, "none" otherwise) next to the  *)
(*             outline items re-derived through resolve1: /Dest, /A and    *)
(*             what the item's name stands for, as the value records of    *)
(*             DumpPdf.tla (np = number of pages)                          *)
(*   dumps     per codec what dumpallobjs wrote, cut into tokens (ids: the *)
(*             object numbers in output order, negative = trailer of       *)
(*             section -id; objs: [id, val, toks] for the objects whose    *)
(*             value was re-derived), the cross-reference sections (secs)  *)
(*             and the object numbers that read as null (nulls)            *)
(* Every item must be what the steps of DumpPdfOps give (the run ends at   *)
(* the first item whose resolution raises), every object's tokens what     *)
(* DumpXmlOps!Dump gives, the order of objects what the loop of            *)
(* DumpXml.tla gives.  A rejected trace is a deadlock whose last state     *)
(* names the document (d), the phase and the index (j).                    *)
(***************************************************************************)
EXTENDS DumpPdfOps, Json, IOUtils

CONSTANTS Dev

X == INSTANCE DumpXmlOps
LOCAL SeqT == INSTANCE SequencesExt

Docs == JsonDeserialize(IOEnv.TRACE_FILE)
ND == Len(Docs)

VARIABLES d, phase, j
vars == <<d, phase, j>>
Doc == Docs[d]
Init == d = 1 /\ phase = "outline" /\ j = 1

\* ---- dumpoutline, item by item
OL == Doc.outline
Res(i) == Run(Start(OL.items[i].dest), OL.items[i].a, OL.items[i].nv, Doc.np, Dev)
TItem == /\ d <= ND /\ phase = "outline" /\ j <= Len(OL.items)
         /\ (LET r == Res(j) IN
               /\ r.err = "none"
               /\ j <= Len(OL.out)
               /\ OL.out[j].level = OL.items[j].level
               /\ OL.out[j].title = OL.items[j].title
               /\ OL.out[j].pageno = r.pageno
               \* whatever deviation is in force, a page number that is written is the reference's
               /\ r.pageno # 0 => r.pageno = RefPageOf(OL.items[j].dest, OL.items[j].a, OL.items[j].nv, Doc.np)) = TRUE
         /\ j' = j + 1 /\ UNCHANGED <<d, phase>>
\* the run ends: after the last item, or at the first item whose resolution raises
TOutlineEnd == /\ d <= ND /\ phase = "outline"
               /\ (IF j > Len(OL.items) THEN OL.err = "none" /\ Len(OL.out) = Len(OL.items)
                   ELSE Res(j).err # "none" /\ OL.err = Res(j).err /\ Len(OL.out) = j - 1) = TRUE
               /\ phase' = "dumps" /\ j' = 1 /\ UNCHANGED d

\* ---- dumpallobjs, dump by dump
Dmp == Doc.dumps[j]
AllIds(dm) == SeqT!FlattenSeq([i \in 1..Len(dm.secs) |-> dm.secs[i].ids])
FirstOcc(dm) == LET a == AllIds(dm) IN SelectSeq([i \in 1..Len(a) |-> <<i, a[i]>>], LAMBDA p : \A m \in 1..(p[1] - 1) : a[m] # p[2])
NonNull(dm) == LET nulls == {dm.nulls[i] : i \in 1..Len(dm.nulls)}
                   f == SelectSeq(FirstOcc(dm), LAMBDA p : p[2] \notin nulls)
               IN [i \in 1..Len(f) |-> f[i][2]]
Trailers(dm) == LET f == SelectSeq([i \in 1..Len(dm.secs) |-> i], LAMBDA i : ~dm.secs[i].fallback) IN [i \in 1..Len(f) |-> -f[i]]
DumpOK(dm) ==
  IF dm.err = "none"
    THEN /\ dm.ids = NonNull(dm) \o Trailers(dm)
         /\ \A i \in 1..Len(dm.objs) : dm.objs[i].toks = X!Dump(dm.objs[i].val, dm.codec)
    ELSE \* codec raw / binary: the first stream ends the run with TypeError
         /\ dm.err = "TypeError" /\ dm.codec \in {"raw", "binary"}
         /\ \E i \in 1..Len(dm.objs) : X!HasFailed(X!Dump(dm.objs[i].val, dm.codec))
TDump == /\ d <= ND /\ phase = "dumps" /\ j <= Len(Doc.dumps)
         /\ DumpOK(Dmp) = TRUE
         /\ j' = j + 1 /\ UNCHANGED <<d, phase>>
TEndDoc == /\ d <= ND /\ phase = "dumps" /\ j > Len(Doc.dumps)
           /\ d' = d + 1 /\ phase' = "outline" /\ j' = 1
Finished == d > ND /\ UNCHANGED vars
Next == TItem \/ TOutlineEnd \/ TDump \/ TEndDoc \/ Finished
Spec == Init /\ [][Next]_vars
InRange == d \in 1..(ND + 1) /\ j >= 1
=============================================================================
