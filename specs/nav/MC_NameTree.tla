---------------------------- MODULE MC_NameTree ----------------------------
EXTENDS NameTree
\* constant sets that the cfg syntax cannot express
Bools == {TRUE, FALSE}
OnlyTrue == {TRUE}
KeySeqs4 == KeySeqs(4)
KeySeqs5 == KeySeqs(5)
SomeSeq5 == {<<1, 2, 3, 4, 5>>, <<1, 3, 4, 5>>, <<2, 4, 5>>, <<2, 4>>, <<3>>, <<>>}
SomeSeq6 == {<<1, 2, 3, 4, 5, 6>>, <<1, 3, 5, 6>>, <<2, 4, 5>>, <<2, 4>>, <<3>>, <<>>}
DictSets3 == SUBSET {1, 2, 4}
DictSets1 == {{}, {2}}
NoDev == {}
=============================================================================
