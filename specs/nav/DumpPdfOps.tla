----------------------------- MODULE DumpPdfOps -----------------------------
(***************************************************************************)
(* C17, extended coverage: the steps of tools/dumppdf.py dumpoutline /     *)
(* resolve_dest for one outline item, as pure operators on a state record  *)
(* st = [dest, pageno, err, pc, fired]; shared by the machine DumpPdf.tla  *)
(* and the trace specification DumpPdfTrace.tla.  See DumpPdf.tla for the  *)
(* value records and the named deviations.                                 *)
(***************************************************************************)
EXTENDS Integers, Sequences, FiniteSets, TLC

None == [k |-> "none"]
NoDv == [k |-> "noD"]
Absent == [k |-> "absent"]
NONPAGE == -1
INTEGER == -2

\* resolve1: references are followed to the object
RECURSIVE Resolve1(_)
Resolve1(v) == IF v.k = "ref" THEN Resolve1(v.v) ELSE v

Start(idest) == [dest |-> idest, pageno |-> 0, err |-> "none", pc |-> "test", fired |-> {}]
Fail(st, e, d) == [st EXCEPT !.err = e, !.fired = @ \cup {d}, !.pc = "done"]
Goto(st, pc) == [st EXCEPT !.pc = pc]

\* `if dest:` ... `elif a:`
StepTest(st) == Goto(st, IF st.dest # None THEN "name" ELSE "action")

\* resolve_dest, first test: a string or a name object is looked up with get_dest (nv: what the name stands for)
StepName(st, nv, dev) ==
  IF st.dest.k \in {"str", "lit"}
    THEN IF nv = Absent
           THEN IF "MissingDestAborts" \in dev THEN Fail(st, "PDFDestinationNotFound", "MissingDestAborts")
                ELSE [st EXCEPT !.dest = None, !.pc = "done"]
           ELSE [st EXCEPT !.dest = Resolve1(nv), !.pc = "dict"]
  ELSE IF "RefNotReinterpreted" \notin dev /\ st.dest.k = "ref"
    THEN [st EXCEPT !.dest = Resolve1(st.dest)]            \* intended: references are transparent from the start
  ELSE Goto(st, "dict")

\* second test: a dictionary stands for its /D
StepDict(st, dev) ==
  IF st.dest.k = "dict"
    THEN IF st.dest.d = NoDv
           THEN IF "NonPageAborts" \in dev THEN Fail(st, "KeyError", "NonPageAborts")
                ELSE [st EXCEPT !.dest = None, !.pc = "done"]
           ELSE [st EXCEPT !.dest = st.dest.d, !.pc = "ref"]
  ELSE Goto(st, "ref")

\* third test: a reference is resolved
StepRef(st) == [st EXCEPT !.dest = IF st.dest.k = "ref" THEN st.dest.v ELSE st.dest, !.pc = "look"]

\* pageno = pages[dest[0].objid]     (np: number of pages)
StepLook(st, np, dev) ==
  IF st.dest.k = "arr" /\ st.dest.pg \in 1..np THEN [st EXCEPT !.pageno = st.dest.pg, !.pc = "done"]
  ELSE IF st.dest.k = "arr"
    THEN IF "NonPageAborts" \in dev
           THEN Fail(st, IF st.dest.pg = INTEGER THEN "AttributeError" ELSE "KeyError", "NonPageAborts")
           ELSE Goto(st, "done")
  ELSE \* a name, string or dictionary that only came to light behind a reference
       Fail(st, IF st.dest.k = "str" THEN "AttributeError" ELSE IF st.dest.k = "lit" THEN "TypeError" ELSE "KeyError",
            "RefNotReinterpreted")

\* `elif a:` - isinstance(action, dict), subtype GoTo, action.get("D")
StepAction(st, ia, dev) ==
  IF ia = None THEN Goto(st, "done")
  ELSE IF ia.k = "ref" /\ "IndirectActionIgnored" \in dev
    THEN [st EXCEPT !.pc = "done", !.fired = @ \cup {"IndirectActionIgnored"}]
  ELSE LET act == Resolve1(ia) IN
       IF act.k = "act" /\ act.s = "GoTo" /\ act.d # None THEN [st EXCEPT !.dest = act.d, !.pc = "name"]
       ELSE Goto(st, "done")

Step(st, ia, nv, np, dev) ==
  CASE st.pc = "test" -> StepTest(st)
    [] st.pc = "name" -> StepName(st, nv, dev)
    [] st.pc = "dict" -> StepDict(st, dev)
    [] st.pc = "ref" -> StepRef(st)
    [] st.pc = "look" -> StepLook(st, np, dev)
    [] st.pc = "action" -> StepAction(st, ia, dev)
RECURSIVE Run(_, _, _, _, _)
Run(st, ia, nv, np, dev) == IF st.pc = "done" THEN st ELSE Run(Step(st, ia, nv, np, dev), ia, nv, np, dev)

\* ---- reference
RECURSIVE PageOf(_, _, _)
PageOf(v, names, np) ==
  CASE v.k = "ref" -> PageOf(v.v, names, np)
    [] v.k \in {"str", "lit"} -> IF names = Absent THEN 0 ELSE PageOf(names, Absent, np)
    [] v.k = "dict" -> IF v.d = NoDv THEN 0 ELSE PageOf(v.d, names, np)
    [] v.k = "arr" -> IF v.pg \in 1..np THEN v.pg ELSE 0
    [] OTHER -> 0
RefPageOf(idest, ia, nv, np) ==
  IF idest # None THEN PageOf(idest, nv, np)
  ELSE IF ia = None THEN 0
  ELSE LET act == Resolve1(ia) IN IF act.k = "act" /\ act.s = "GoTo" /\ act.d # None THEN PageOf(act.d, nv, np) ELSE 0
=============================================================================
