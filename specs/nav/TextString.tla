----------------------------- MODULE TextString -----------------------------
(***************************************************************************)
(* C17: utils.decode_text - a text string (ISO 32000-1 7.9.2.2) is UTF-16BE *)
(* when it starts with the byte order mark FE FF, PDFDocEncoding otherwise. *)
(*   TBomTest  `s.startswith(b"\xfe\xff")`                                 *)
(*   TUnit     str(s[2:], "utf-16be", "ignore"): one 16-bit unit, or a     *)
(*             surrogate pair -> one code point; an unpaired surrogate is  *)
(*             dropped                                                     *)
(*   TOddTail  a last single byte is dropped                               *)
(*   TDocByte  PDFDocEncoding[c]                                           *)
(* Output: the sequence of Unicode code points.  Only the PDFDocEncoding   *)
(* entries of the bytes in play are written down (DocISO, from Annex D.2;  *)
(* the whole table is cross-checked as data by the harness).               *)
(* The property is claimed for well-formed UTF-16 and for bytes that       *)
(* PDFDocEncoding defines.                                                 *)
(***************************************************************************)
EXTENDS Integers, Sequences, TLC, Json

CONSTANTS Alphabet, MaxLen, Prefixes     \* inputs: a prefix followed by up to MaxLen bytes of Alphabet

VARIABLES data, i, out, mode
vars == <<data, i, out, mode>>

Strings(k) == UNION {[1..m -> Alphabet] : m \in 0..k}
Init == /\ \E p \in Prefixes, b \in Strings(MaxLen) : data = p \o b
        /\ i = 1 /\ out = <<>> /\ mode = "test"

\* Annex D.2, the entries that differ from the byte's own value
DocISO(b) == CASE b = 24 -> 728        \* BREVE U+02D8
               [] b = 128 -> 8226      \* BULLET U+2022
               [] b = 146 -> 8482      \* TRADE MARK SIGN U+2122
               [] b = 160 -> 8364      \* EURO SIGN U+20AC
               [] OTHER -> b
DocDefined(b) == b \notin {127, 159, 173} /\ (b >= 24 \/ b \in {9, 10, 13})

HasBOM == Len(data) >= 2 /\ data[1] = 254 /\ data[2] = 255
Unit(k) == 256 * data[k] + data[k + 1]
IsHigh(u) == u >= 55296 /\ u <= 56319
IsLow(u)  == u >= 56320 /\ u <= 57343

TBomTest == /\ mode = "test"
            /\ IF HasBOM THEN mode' = "utf16" /\ i' = 3 ELSE mode' = "doc" /\ i' = 1
            /\ UNCHANGED <<data, out>>
TUnit ==    /\ mode = "utf16" /\ i + 1 <= Len(data)
            /\ LET u == Unit(i) IN
               IF IsHigh(u) /\ i + 3 <= Len(data) /\ IsLow(Unit(i + 2))
                 THEN out' = Append(out, 65536 + (u - 55296) * 1024 + (Unit(i + 2) - 56320)) /\ i' = i + 4
               ELSE IF IsHigh(u) \/ IsLow(u)
                 THEN out' = out /\ i' = i + 2                  \* errors="ignore"
               ELSE out' = Append(out, u) /\ i' = i + 2
            /\ UNCHANGED <<data, mode>>
TOddTail == /\ mode = "utf16" /\ i = Len(data)
            /\ i' = i + 1 /\ UNCHANGED <<data, out, mode>>
TDocByte == /\ mode = "doc" /\ i <= Len(data)
            /\ out' = Append(out, DocISO(data[i])) /\ i' = i + 1
            /\ UNCHANGED <<data, mode>>
TEnd ==     /\ mode \in {"utf16", "doc"} /\ i > Len(data)
            /\ mode' = "done" /\ UNCHANGED <<data, i, out>>
Finished == mode = "done" /\ UNCHANGED vars
Next == TBomTest \/ TUnit \/ TOddTail \/ TDocByte \/ TEnd \/ Finished
Spec == Init /\ [][Next]_vars

\* ---- reference: UTF-16BE as Unicode defines it (well-formed input), PDFDocEncoding as a byte map
Body == SubSeq(data, 3, Len(data))
Units == [k \in 1..(Len(Body) \div 2) |-> 256 * Body[2 * k - 1] + Body[2 * k]]
WellFormed16 ==
  /\ Len(Body) % 2 = 0
  /\ \A k \in 1..Len(Units) :
       /\ IsHigh(Units[k]) => (k < Len(Units) /\ IsLow(Units[k + 1]))
       /\ IsLow(Units[k]) => (k > 1 /\ IsHigh(Units[k - 1]))
RECURSIVE Ref16(_)
Ref16(us) == IF us = <<>> THEN <<>>
             ELSE IF IsHigh(us[1]) THEN <<65536 + (us[1] - 55296) * 1024 + (us[2] - 56320)>> \o Ref16(SubSeq(us, 3, Len(us)))
             ELSE <<us[1]>> \o Ref16(Tail(us))
AllDefined == \A k \in 1..Len(data) : DocDefined(data[k])
Claimed == IF HasBOM THEN WellFormed16 ELSE AllDefined
RefText == IF HasBOM THEN Ref16(Units) ELSE [k \in 1..Len(data) |-> DocISO(data[k])]

DecodeRule == (mode = "done" /\ Claimed) => out = RefText
\* the decision is made on the first two bytes only and never revisited
ModeStable == [][(mode \in {"utf16", "doc"}) => (mode' \in {mode, "done"})]_vars
Progress == [][mode' # mode \/ i' > i]_vars

EmitTerminal == mode = "done" =>
  PrintT("@@" \o ToJson([data |-> data, out |-> out, claimed |-> Claimed, ref |-> IF Claimed THEN RefText ELSE <<>>]))
=============================================================================
