------------------------------ MODULE NumTree ------------------------------
(***************************************************************************)
(* C17: data_structures.NumberTree - the recursion of _parse over Kids     *)
(* (each call builds a NumberTree of the child, reads its Nums pairs and   *)
(* appends what its own Kids return) followed by the sort in `values`.     *)
(* A value is identified with its key (each key of a valid tree has one    *)
(* value).  Reference (ISO 32000-1 7.9.7): a number tree denotes the set   *)
(* of its key/value pairs, keys in ascending order.                        *)
(***************************************************************************)
EXTENDS NavOps, Json

CONSTANTS NKeys,      \* keys are subsets of 1..NKeys
          Depth, Fan  \* tree shapes: at most Depth levels of intermediate nodes, at most Fan kids

LOCAL SeqY == INSTANCE SequencesExt

VARIABLES tree, stack, items, call, pc, values
vars == <<tree, stack, items, call, pc, values>>

AllTrees == UNION {TreesOver(ks, Depth, Fan) : ks \in KeySeqs(NKeys)}

Init == /\ tree \in AllTrees
        /\ stack = <<>> /\ items = <<>> /\ call = tree /\ pc = "call" /\ values = <<>>

Top == stack[Len(stack)]

\* NumberTree(child_ref)._parse():  `if self.nums:` the pairs are appended;  `if self.kids:` the loop starts
NEnter == /\ pc = "call"
          /\ items' = items \o call.keys
          /\ stack' = Append(stack, [node |-> call, idx |-> 0])
          /\ pc' = "loop" /\ UNCHANGED <<tree, call, values>>
\* `for child_ref in self.kids: items += NumberTree(child_ref)._parse()`
NKid ==   /\ pc = "loop" /\ Top.idx < Len(Top.node.kids)
          /\ call' = Top.node.kids[Top.idx + 1]
          /\ stack' = [stack EXCEPT ![Len(stack)].idx = @ + 1]
          /\ pc' = "call" /\ UNCHANGED <<tree, items, values>>
NReturn == /\ pc = "loop" /\ Top.idx = Len(Top.node.kids)
           /\ stack' = SubSeq(stack, 1, Len(stack) - 1)
           /\ pc' = IF Len(stack) = 1 THEN "sort" ELSE "loop"
           /\ UNCHANGED <<tree, items, call, values>>
\* `values.sort(key=lambda t: t[0])` (not STRICT)
NSort ==  /\ pc = "sort"
          /\ values' = SeqY!SortSeq(items, LAMBDA a, b : a < b)
          /\ pc' = "done" /\ UNCHANGED <<tree, stack, items, call>>
Finished == pc = "done" /\ UNCHANGED vars
Next == NEnter \/ NKid \/ NReturn \/ NSort \/ Finished
Spec == Init /\ [][Next]_vars

\* ---- property
RefValues == SeqY!SetToSortSeq(Range(KeysOf(tree)), LAMBDA a, b : a < b)
Flattened == pc = "done" => values = RefValues
\* every step of the walk is accounted for: what has been appended so far is a prefix of the tree's keys in order
InOrder == \E n \in 0..Len(KeysOf(tree)) : items = SubSeq(KeysOf(tree), 1, n)

EmitTerminal == pc = "done" => PrintT("@@" \o ToJson([tree |-> tree, values |-> values, ref |-> RefValues]))
=============================================================================
