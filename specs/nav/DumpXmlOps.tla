----------------------------- MODULE DumpXmlOps -----------------------------
(***************************************************************************)
(* C17, extended coverage: tools/dumppdf.py escape / dumpxml as pure       *)
(* operators (a recursive function is written as a recursive operator).    *)
(*                                                                         *)
(* Objects:  [k |-> "null"], [k |-> "bool", b |-> BOOLEAN],                *)
(*   [k |-> "num", txt |-> codes]    (txt: what "%s" % obj gives)          *)
(*   [k |-> "str", s |-> codes]  [k |-> "lit", s |-> codes]                *)
(*   [k |-> "kw", s |-> codes]   [k |-> "ref", id |-> n]                   *)
(*   [k |-> "list", items |-> <<object>>]                                  *)
(*   [k |-> "dict", items |-> << <<key codes, object>> >>]                 *)
(*   [k |-> "stream", attrs |-> dict object, raw |-> codes, data |-> codes] *)
(* Output: a sequence of tokens [t, n, a, c]:  t = "open" | "close" |      *)
(* "empty" | "nl" | "txt"; n the element name; a its size= / id= attribute *)
(* (-1: none); c the text as a sequence of items - a code point written as *)
(* it is (>= 0) or the character reference &#N; written as -(N+1).         *)
(***************************************************************************)
EXTENDS Integers, Sequences, FiniteSets, TLC

LOCAL SeqX == INSTANCE SequencesExt

Tok(t, n, a, c) == [t |-> t, n |-> n, a |-> a, c |-> c]
Open(n, a)  == <<Tok("open", n, a, <<>>)>>
Close(n)    == <<Tok("close", n, -1, <<>>)>>
Empty(n, a) == <<Tok("empty", n, a, <<>>)>>
NL          == <<Tok("nl", "", -1, <<>>)>>
Txt(c)      == IF c = <<>> THEN <<>> ELSE <<Tok("txt", "", -1, c)>>

\* ESC_PAT = [\000-\037&<>()"\042\047\134\177-\377]
Escaped(c) == c <= 31 \/ c \in {38, 60, 62, 40, 41, 34, 39, 92} \/ (c >= 127 /\ c <= 255)
Ent(c) == -(c + 1)
Escape(s) == [i \in 1..Len(s) |-> IF Escaped(s[i]) THEN Ent(s[i]) ELSE s[i]]
Unescape(e) == [i \in 1..Len(e) |-> IF e[i] < 0 THEN -(e[i]) - 1 ELSE e[i]]

\* "%s" % obj.name of a keyword: the name is bytes, so Python writes b'...'
BytesRepr(s) == <<98, 39>> \o s \o <<39>>
BoolText(b) == IF b THEN <<84, 114, 117, 101>> ELSE <<70, 97, 108, 115, 101>>

Failed == <<Tok("TypeError", "", -1, <<>>)>>
HasFailed(toks) == \E i \in 1..Len(toks) : toks[i].t = "TypeError"

RECURSIVE Dump(_, _)
Dump(v, codec) ==
  CASE v.k = "null" -> Empty("null", -1)
    [] v.k = "dict" ->
         Open("dict", Len(v.items)) \o NL
         \o SeqX!FlattenSeq([i \in 1..Len(v.items) |->
                Open("key", -1) \o Txt(v.items[i][1]) \o Close("key") \o NL
                \o Open("value", -1) \o Dump(v.items[i][2], "none") \o Close("value") \o NL])
         \o Close("dict")
    [] v.k = "list" ->
         Open("list", Len(v.items)) \o NL
         \o SeqX!FlattenSeq([i \in 1..Len(v.items) |-> Dump(v.items[i], "none") \o NL])
         \o Close("list")
    [] v.k = "str" -> Open("string", Len(v.s)) \o Txt(Escape(v.s)) \o Close("string")
    [] v.k = "stream" ->
         IF codec \in {"raw", "binary"} THEN Failed          \* out.write(bytes) on a text stream
         ELSE Open("stream", -1) \o NL \o Open("props", -1) \o NL \o Dump(v.attrs, "none") \o NL \o Close("props") \o NL
              \o (IF codec = "text" THEN Open("data", Len(v.data)) \o Txt(Escape(v.data)) \o Close("data") \o NL ELSE <<>>)
              \o Close("stream")
    [] v.k = "ref" -> Empty("ref", v.id)
    [] v.k = "kw"  -> Open("keyword", -1) \o Txt(BytesRepr(v.s)) \o Close("keyword")
    [] v.k = "lit" -> Open("literal", -1) \o Txt(v.s) \o Close("literal")
    [] v.k = "bool" -> Open("number", -1) \o Txt(BoolText(v.b)) \o Close("number")      \* isnumber(True)
    [] v.k = "num" -> Open("number", -1) \o Txt(v.txt) \o Close("number")

\* ---- what a dump must satisfy (there is no standard for this format: well-formedness is the reference)
XmlUnsafe == {38, 60, 62}
TextClean(toks) == \A i \in 1..Len(toks) : \A j \in 1..Len(toks[i].c) : toks[i].c[j] \notin XmlUnsafe
RECURSIVE Nest(_, _, _)
Nest(toks, i, stack) ==
  IF i > Len(toks) THEN stack = <<>>
  ELSE IF toks[i].t = "open" THEN Nest(toks, i + 1, Append(stack, toks[i].n))
  ELSE IF toks[i].t = "close"
         THEN stack # <<>> /\ stack[Len(stack)] = toks[i].n /\ Nest(toks, i + 1, SubSeq(stack, 1, Len(stack) - 1))
  ELSE Nest(toks, i + 1, stack)
WellNested(toks) == Nest(toks, 1, <<>>)

\* does the object hold a key or a name whose characters would have needed escaping?
RECURSIVE RawMarkup(_)
RawMarkup(v) ==
  CASE v.k \in {"lit", "kw"} -> \E i \in 1..Len(v.s) : v.s[i] \in XmlUnsafe
    [] v.k = "dict" -> \E i \in 1..Len(v.items) : (\E j \in 1..Len(v.items[i][1]) : v.items[i][1][j] \in XmlUnsafe) \/ RawMarkup(v.items[i][2])
    [] v.k = "list" -> \E i \in 1..Len(v.items) : RawMarkup(v.items[i])
    [] v.k = "stream" -> RawMarkup(v.attrs)
    [] OTHER -> FALSE
=============================================================================
