------------------------------- MODULE NavOps -------------------------------
(***************************************************************************)
(* C17: shared pure operators - number formatters of page labels           *)
(* (utils.format_int_roman / format_int_alpha, written as the loops they   *)
(* are, next to declarative references from ISO 32000-1 12.4.2 table 159)  *)
(* and the shapes of number / name trees (7.9.6, 7.9.7).                   *)
(***************************************************************************)
EXTENDS Integers, Sequences, FiniteSets, TLC

LOCAL SeqX == INSTANCE SequencesExt

Range(s) == {s[i] : i \in 1..Len(s)}

\* ------------------------------------------------------------------ strings
\* s repeated n times (by halving: the recursion stays shallow for the long letter labels)
RECURSIVE Rep(_, _)
Rep(s, n) == IF n <= 0 THEN ""
             ELSE LET h == Rep(s, n \div 2) IN IF n % 2 = 0 THEN h \o h ELSE h \o h \o s

LowerLetters == <<"a", "b", "c", "d", "e", "f", "g", "h", "i", "j", "k", "l", "m",
                  "n", "o", "p", "q", "r", "s", "t", "u", "v", "w", "x", "y", "z">>
UpperLetters == <<"A", "B", "C", "D", "E", "F", "G", "H", "I", "J", "K", "L", "M",
                  "N", "O", "P", "Q", "R", "S", "T", "U", "V", "W", "X", "Y", "Z">>
Letters(upper) == IF upper THEN UpperLetters ELSE LowerLetters
Digits == <<"0", "1", "2", "3", "4", "5", "6", "7", "8", "9">>

\* ------------------------------------------------------------------ the code's formatters, loop by loop
\* format_int_roman: while value != 0: value, remainder = divmod(value, 10); the digit's letters go in front
RomanOnes(upper)  == IF upper THEN <<"I", "X", "C", "M">> ELSE <<"i", "x", "c", "m">>
RomanFives(upper) == IF upper THEN <<"V", "L", "D">> ELSE <<"v", "l", "d">>
RomanDigit(r, index, upper) ==
  LET one == RomanOnes(upper)[index + 1] IN
  IF r = 9 THEN one \o RomanOnes(upper)[index + 2]
  ELSE IF r = 4 THEN one \o RomanFives(upper)[index + 1]
  ELSE IF r >= 5 THEN RomanFives(upper)[index + 1] \o Rep(one, r - 5)
  ELSE Rep(one, r)
RECURSIVE RomanLoop(_, _, _, _)
RomanLoop(value, index, result, upper) ==
  IF value = 0 THEN result
  ELSE RomanLoop(value \div 10, index + 1, RomanDigit(value % 10, index, upper) \o result, upper)
\* `assert 0 < value < 4000`
RomanInDomain(value) == 0 < value /\ value < 4000
CodeRoman(value, upper) == RomanLoop(value, 0, "", upper)

\* format_int_alpha: while value != 0: value, remainder = divmod(value - 1, 26); append; reverse at the end
RECURSIVE AlphaLoop(_, _, _)
AlphaLoop(value, result, upper) ==
  IF value = 0 THEN result
  ELSE AlphaLoop((value - 1) \div 26, Letters(upper)[((value - 1) % 26) + 1] \o result, upper)
CodeAlpha(value, upper) == AlphaLoop(value, "", upper)

\* ------------------------------------------------------------------ references (ISO 32000-1 table 159)
\* decimal arabic numerals
RECURSIVE RefDecimal(_)
RefDecimal(n) == IF n < 10 THEN Digits[n + 1] ELSE RefDecimal(n \div 10) \o Digits[(n % 10) + 1]

\* roman numerals: thousands, hundreds, tens, units, each written from its own table
RomanUnits(upper) == IF upper THEN <<"", "I", "II", "III", "IV", "V", "VI", "VII", "VIII", "IX">>
                              ELSE <<"", "i", "ii", "iii", "iv", "v", "vi", "vii", "viii", "ix">>
RomanTens(upper)  == IF upper THEN <<"", "X", "XX", "XXX", "XL", "L", "LX", "LXX", "LXXX", "XC">>
                              ELSE <<"", "x", "xx", "xxx", "xl", "l", "lx", "lxx", "lxxx", "xc">>
RomanHunds(upper) == IF upper THEN <<"", "C", "CC", "CCC", "CD", "D", "DC", "DCC", "DCCC", "CM">>
                              ELSE <<"", "c", "cc", "ccc", "cd", "d", "dc", "dcc", "dccc", "cm">>
RefRoman(n, upper) ==
  Rep(IF upper THEN "M" ELSE "m", n \div 1000) \o RomanHunds(upper)[((n \div 100) % 10) + 1]
    \o RomanTens(upper)[((n \div 10) % 10) + 1] \o RomanUnits(upper)[(n % 10) + 1]

\* letters: "A to Z for the first 26 pages, AA to ZZ for the next 26, and so on"
RefAlpha(n, upper) == Rep(Letters(upper)[((n - 1) % 26) + 1], ((n - 1) \div 26) + 1)

\* ------------------------------------------------------------------ number / name trees
\* A tree over a strictly increasing key sequence ks: a leaf holding ks, or an intermediate node whose kids hold
\* consecutive non-empty chunks of ks (1..Fan kids; one kid = a degenerate chain), at most Depth levels below.
\*   node == [leaf |-> BOOLEAN, keys |-> Seq(key), kids |-> Seq(node)]
Chunks2(ks) == {<<SubSeq(ks, 1, i), SubSeq(ks, i + 1, Len(ks))>> : i \in 1..(Len(ks) - 1)}
Chunks3(ks) == LET n == Len(ks) IN
  {<<SubSeq(ks, 1, p[1]), SubSeq(ks, p[1] + 1, p[2]), SubSeq(ks, p[2] + 1, n)>> :
     p \in {q \in (1..n) \X (1..n) : q[1] < q[2] /\ q[2] < n}}
RECURSIVE TreesOver(_, _, _)
TreesOver(ks, depth, fan) ==
  {[leaf |-> TRUE, keys |-> ks, kids |-> <<>>]}
  \cup (IF depth = 0 \/ ks = <<>> THEN {} ELSE
        {[leaf |-> FALSE, keys |-> <<>>, kids |-> <<t>>] : t \in TreesOver(ks, depth - 1, fan)}
        \cup (IF fan < 2 THEN {} ELSE
              UNION {{[leaf |-> FALSE, keys |-> <<>>, kids |-> <<a, b>>] :
                        a \in TreesOver(c[1], depth - 1, fan), b \in TreesOver(c[2], depth - 1, fan)} : c \in Chunks2(ks)})
        \cup (IF fan < 3 THEN {} ELSE
              UNION {{[leaf |-> FALSE, keys |-> <<>>, kids |-> <<a, b, d>>] :
                        a \in TreesOver(c[1], depth - 1, fan), b \in TreesOver(c[2], depth - 1, fan),
                        d \in TreesOver(c[3], depth - 1, fan)} :
                     c \in Chunks3(ks)}))

\* all keys below a node, in tree order
RECURSIVE KeysOf(_)
KeysOf(t) == IF t.leaf THEN t.keys ELSE SeqX!FlattenSeq([i \in 1..Len(t.kids) |-> KeysOf(t.kids[i])])

\* strictly increasing subsequences of 1..n as key sequences
KeySeqs(n) == {SeqX!SetToSortSeq(S, LAMBDA a, b : a < b) : S \in SUBSET (1..n)}

\* /Limits of a node: least and greatest key below it (exact, as 7.9.6 requires)
Limits(t) == LET ks == KeysOf(t) IN <<ks[1], ks[Len(ks)]>>
=============================================================================
