------------------------------ MODULE NameTree ------------------------------
(***************************************************************************)
(* C17: PDFDocument.get_dest / lookup_name - named destinations.           *)
(* A destination is asked for either by a string (PDF 1.2: looked up in    *)
(* the name tree catalog /Names /Dests, ISO 32000-1 12.3.2.3, 7.9.6) or by *)
(* a name object (PDF 1.1: the catalog's /Dests dictionary).  Keys are     *)
(* numbers 1..NKeys standing for strings in byte order; a name object      *)
(* never equals a string.  A value is identified with its key and where it *)
(* was found.                                                              *)
(* One action per step of the code:                                        *)
(*   DStart      get_dest -> lookup_name: no /Names or no /Dests in it     *)
(*               raises KeyError                                           *)
(*   KPrune      `if "Limits" in d: if key < k1 or k2 < key: return None`  *)
(*   KLeafHit / KLeafMiss   `names[key]` in a node with /Names             *)
(*   KKid / KKidFound / KKidNone / KExhausted   the loop over /Kids with   *)
(*               its `if v: return v`, then `raise PDFKeyError`            *)
(*   DFallback   `except KeyError`: the /Dests dictionary                  *)
(* Named deviation NameVsLimits: get_dest tries the name tree first also   *)
(* for a name object; comparing it with the /Limits strings of a kid       *)
(* raises TypeError instead of reaching the /Dests dictionary.             *)
(***************************************************************************)
EXTENDS NavOps, Json

CONSTANTS NKeys, Depth, Fan,
          TreeKeySeqs,     \* the key sequences name trees are built over (or "<- all")
          DictKeySets,     \* the key sets the /Dests dictionary may have
          HasTree,         \* subset of BOOLEAN: documents with / without a name tree
          HasDict,
          Dev

VARIABLES tree, hastree, dict, hasdict, q,     \* input: q = [kind |-> "string" | "name", id |-> 1..NKeys]
          stack, call, ret, pc, result, fired, visitedLeaves
vars == <<tree, hastree, dict, hasdict, q, stack, call, ret, pc, result, fired, visitedLeaves>>

NoTree == [leaf |-> TRUE, keys |-> <<>>, kids |-> <<>>]
Init == /\ hastree \in HasTree /\ hasdict \in HasDict
        /\ tree \in (IF hastree THEN UNION {TreesOver(ks, Depth, Fan) : ks \in TreeKeySeqs} ELSE {NoTree})
        /\ dict \in (IF hasdict THEN DictKeySets ELSE {{}})
        /\ q \in [kind : {"string", "name"}, id : 1..NKeys]
        /\ stack = <<>> /\ call = [node |-> NoTree, root |-> TRUE] /\ ret = "unset" /\ pc = "start"
        /\ result = "unset" /\ fired = {} /\ visitedLeaves = 0

In == UNCHANGED <<tree, hastree, dict, hasdict, q>>
Top == stack[Len(stack)]

\* get_dest: `obj = self.lookup_name("Dests", name)`
DStart == /\ pc = "start"
          /\ IF "NameVsLimits" \notin Dev /\ q.kind = "name"
               THEN pc' = "fallback" /\ call' = call          \* intended: a name object is looked up in /Dests only
               ELSE IF hastree THEN pc' = "call" /\ call' = [node |-> tree, root |-> TRUE]
                    ELSE pc' = "fallback" /\ call' = call      \* KeyError from lookup_name
          /\ UNCHANGED <<stack, ret, result, fired, visitedLeaves>> /\ In

\* does the query key equal / precede a string key?  (a name object never equals a string)
KeyEq(k) == q.kind = "string" /\ q.id = k
Outside(n) == LET l == Limits(n) IN q.id < l[1] \/ l[2] < q.id

\* lookup(d) entered on call.node.  Non-root nodes carry /Limits.
KPruneTypeError ==           \* as coded: `key < k1` with a str key and bytes limits
  /\ pc = "call" /\ ~call.root /\ q.kind = "name"
  /\ result' = "TypeError" /\ fired' = fired \cup {"NameVsLimits"} /\ pc' = "done"
  /\ UNCHANGED <<stack, call, ret, visitedLeaves>> /\ In
KPrune ==
  /\ pc = "call" /\ ~call.root /\ q.kind = "string" /\ Outside(call.node)
  /\ ret' = "None" /\ pc' = "return"
  /\ UNCHANGED <<stack, call, result, fired, visitedLeaves>> /\ In
Enter == pc = "call" /\ (IF call.root THEN TRUE ELSE (q.kind = "string" /\ ~Outside(call.node)))
KLeafHit ==
  /\ Enter /\ call.node.leaf /\ \E i \in 1..Len(call.node.keys) : KeyEq(call.node.keys[i])
  /\ ret' = "value" /\ pc' = "return" /\ visitedLeaves' = visitedLeaves + 1
  /\ UNCHANGED <<stack, call, result, fired>> /\ In
KLeafMiss ==                 \* names[key] raises KeyError, which nothing catches before get_dest
  /\ Enter /\ call.node.leaf /\ ~\E i \in 1..Len(call.node.keys) : KeyEq(call.node.keys[i])
  /\ pc' = "fallback" /\ stack' = <<>> /\ visitedLeaves' = visitedLeaves + 1
  /\ UNCHANGED <<call, ret, result, fired>> /\ In
KKids ==
  /\ Enter /\ ~call.node.leaf
  /\ stack' = Append(stack, [node |-> call.node, idx |-> 0])
  /\ pc' = "loop" /\ UNCHANGED <<call, ret, result, fired, visitedLeaves>> /\ In
KKid ==
  /\ pc = "loop" /\ Top.idx < Len(Top.node.kids)
  /\ call' = [node |-> Top.node.kids[Top.idx + 1], root |-> FALSE]
  /\ stack' = [stack EXCEPT ![Len(stack)].idx = @ + 1]
  /\ pc' = "call" /\ UNCHANGED <<ret, result, fired, visitedLeaves>> /\ In
KExhausted ==                \* raise PDFKeyError((cat, key))
  /\ pc = "loop" /\ Top.idx = Len(Top.node.kids)
  /\ pc' = "fallback" /\ stack' = <<>>
  /\ UNCHANGED <<call, ret, result, fired, visitedLeaves>> /\ In
\* a call returns to the loop of its caller (`v = lookup(...)`; `if v: return v`) or to lookup_name
KReturnToLoop ==
  /\ pc = "return" /\ stack # <<>>
  /\ IF ret = "value"
       THEN stack' = SubSeq(stack, 1, Len(stack) - 1) /\ pc' = "return"     \* return v
       ELSE stack' = stack /\ pc' = "loop"
  /\ UNCHANGED <<call, ret, result, fired, visitedLeaves>> /\ In
KReturnToTop ==
  /\ pc = "return" /\ stack = <<>>
  /\ result' = IF ret = "value" THEN <<"tree", q.id>> ELSE "None"
  /\ pc' = "done" /\ UNCHANGED <<stack, call, ret, fired, visitedLeaves>> /\ In

\* `except KeyError:` the PDF 1.1 dictionary.  Its keys are name objects: a string never matches.
DFallback ==
  /\ pc = "fallback"
  /\ result' = IF hasdict /\ q.kind = "name" /\ q.id \in dict THEN <<"dict", q.id>> ELSE "NotFound"
  /\ pc' = "done" /\ UNCHANGED <<stack, call, ret, fired, visitedLeaves>> /\ In

Finished == pc = "done" /\ UNCHANGED vars
Next == DStart \/ KPruneTypeError \/ KPrune \/ KLeafHit \/ KLeafMiss \/ KKids \/ KKid \/ KExhausted
        \/ KReturnToLoop \/ KReturnToTop \/ DFallback \/ Finished
Spec == Init /\ [][Next]_vars

\* ---- reference and property
RefDest == IF q.kind = "string"
             THEN (IF hastree /\ q.id \in Range(KeysOf(tree)) THEN <<"tree", q.id>> ELSE "NotFound")
             ELSE (IF hasdict /\ q.id \in dict THEN <<"dict", q.id>> ELSE "NotFound")
DestRef == (pc = "done" /\ fired = {}) => result = RefDest
\* Limits do their work: at most one leaf is ever opened
OneLeaf == visitedLeaves <= 1
\* frames are nodes on one root-to-node path
PathShaped == \A i \in 1..(Len(stack) - 1) : \E j \in 1..Len(stack[i].node.kids) : stack[i].node.kids[j] = stack[i + 1].node
Progress == [][pc' = "done" \/ pc' # pc \/ Len(stack') # Len(stack) \/ stack' # stack]_vars

EmitTerminal == pc = "done" =>
  PrintT("@@" \o ToJson([tree |-> tree, hastree |-> hastree, dict |-> dict, hasdict |-> hasdict, q |-> q,
                         result |-> result, ref |-> RefDest, fired |-> fired]))
=============================================================================
