----------------------------- MODULE MC_DumpXml -----------------------------
EXTENDS DumpXml
\* ---- object values
Alpha == {31, 32, 38, 60, 65, 92, 127, 255}
Strs(n) == UNION {[1..m -> Alpha] : m \in 0..n}
S(s) == [k |-> "str", s |-> s]
Null == [k |-> "null"]
Leaves == {Null, [k |-> "bool", b |-> TRUE], [k |-> "bool", b |-> FALSE],
           [k |-> "num", txt |-> <<55>>], [k |-> "num", txt |-> <<45, 49, 46, 53>>],
           [k |-> "lit", s |-> <<78>>], [k |-> "lit", s |-> <<97, 60, 98>>], [k |-> "kw", s |-> <<66, 73>>],
           [k |-> "ref", id |-> 5]} \cup {S(s) : s \in Strs(2)}
FewLeaves == {Null, [k |-> "num", txt |-> <<55>>], [k |-> "lit", s |-> <<78>>], [k |-> "ref", id |-> 5], S(<<60, 65>>), [k |-> "bool", b |-> TRUE]}
Keys == {<<75>>, <<97, 38, 98>>}
Lists == {[k |-> "list", items |-> it] : it \in UNION {[1..m -> FewLeaves] : m \in 0..2}}
Dicts1 == {[k |-> "dict", items |-> <<>>]} \cup {[k |-> "dict", items |-> << <<key, v>> >>] : key \in Keys, v \in FewLeaves}
Dicts2 == {[k |-> "dict", items |-> << << <<75>>, v >>, << <<76>>, w >> >>] : v \in FewLeaves, w \in {Null, S(<<38>>)}}
Nested == {[k |-> "list", items |-> <<d>>] : d \in Dicts1} \cup {[k |-> "dict", items |-> << << <<75>>, l >> >>] : l \in Lists}
Streams == {[k |-> "stream", attrs |-> a, raw |-> d, data |-> d] : a \in {[k |-> "dict", items |-> <<>>], [k |-> "dict", items |-> << << <<76>>, [k |-> "num", txt |-> <<50>>] >> >>]},
                                                                   d \in {<<>>, <<65, 60>>, <<255, 31>>}}
Values == Leaves \cup Lists \cup Dicts1 \cup Dicts2 \cup Nested \cup Streams
OneObject == {[xrefs |-> <<[ids |-> <<1>>, fallback |-> FALSE]>>, objs |-> [i \in {1} |-> v]] : v \in Values}
\* ---- the loop: sections x object numbers x null objects
\* (a section lists its object numbers in ascending order)
IdSeqs == {<<>>, <<1>>, <<1, 2>>, <<2, 3>>, <<1, 2, 3>>, <<3>>}
IdSeqsSmall == {<<>>, <<1>>, <<1, 2>>, <<2, 3>>}
Secs == {[ids |-> s, fallback |-> f] : s \in IdSeqs, f \in {FALSE}}
\* (a stream read from a file always has its /Length)
LengthKey == <<76, 101, 110, 103, 116, 104>>
Some == {Null, [k |-> "num", txt |-> <<55>>],
         [k |-> "stream", attrs |-> [k |-> "dict", items |-> << <<LengthKey, [k |-> "num", txt |-> <<49>>]>> >>], raw |-> <<65>>, data |-> <<65>>]}
LoopDocs == {[xrefs |-> x, objs |-> o] : x \in UNION {[1..m -> Secs] : m \in 1..3}, o \in [1..3 -> Some]}
SecsSmall == {[ids |-> s, fallback |-> FALSE] : s \in IdSeqsSmall}
LoopDocsSmall == {[xrefs |-> x, objs |-> o] : x \in UNION {[1..m -> SecsSmall] : m \in 1..2}, o \in [1..3 -> Some]}
AllCodecs == {"none", "raw", "binary", "text"}
=============================================================================
