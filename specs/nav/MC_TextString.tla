---- MODULE MC_TextString ----
EXTENDS TextString
NoPrefix == {<<>>}
BomPrefix == {<<254, 255>>}
\* FE FF NUL 'A' high-surrogate lead, low-surrogate lead, BULLET, BREVE
AlphaDoc == {254, 255, 0, 65, 216, 220, 128, 24}
AlphaDocWide == {254, 255, 0, 9, 65, 216, 220, 128, 24, 146, 160, 233}
Alpha16 == {0, 65, 216, 220, 255}
====
