------------------------------ MODULE NavTrace ------------------------------
(***************************************************************************)
(* Trace validation for page labels, outlines, named destinations and text *)
(* strings (binding B of C17).  The trace file holds, per recorded         *)
(* document, the structures re-derived from the real document through      *)
(* resolve1 / getobj and what the real calls returned:                     *)
(*   labels    the /PageLabels number tree (nodes [nums, kids], label      *)
(*             dictionaries [style, prefix_str, st]) and the labels        *)
(*             get_page_labels() produced for the document's pages         *)
(*   outlines  the items [title_str, hastitle, dest, a, first, next, last] *)
(*             (item 1 = the outline dictionary) and what get_outlines()   *)
(*             yielded: [level, title, dest, a, frames]                    *)
(*   dests     the name tree nodes [limits, names, leaf, kids], the /Dests *)
(*             dictionary, and get_dest results for a list of queries      *)
(*   texts     byte strings with the code points decode_text returned      *)
(* A document is processed in phases; the outline phase steps the          *)
(* generator machine of Outline.tla over the recorded links, the other     *)
(* phases evaluate the specification's functions on the recorded data.     *)
(* A rejected trace is a deadlock whose last state names the document (d), *)
(* the phase and the number of outline items matched (k).                  *)
(***************************************************************************)
EXTENDS NavOps, Json, IOUtils

CONSTANTS Dev

File == JsonDeserialize(IOEnv.TRACE_FILE)
DocTable == File.doctable          \* PDFDocEncoding, Annex D.2 (index byte + 1)
Docs == File.docs
ND == Len(Docs)
LOCAL SeqT == INSTANCE SequencesExt

VARIABLES d, phase, stack, k
vars == <<d, phase, stack, k>>
Doc == Docs[d]

\* ------------------------------------------------------------------ text strings (7.9.2.2)
HasBOM(b) == Len(b) >= 2 /\ b[1] = 254 /\ b[2] = 255
UnitsOf(b) == [j \in 1..((Len(b) - 2) \div 2) |-> 256 * b[2 * j + 1] + b[2 * j + 2]]
IsHigh(u) == u >= 55296 /\ u <= 56319
IsLow(u)  == u >= 56320 /\ u <= 57343
RECURSIVE Dec16(_)
Dec16(us) == IF us = <<>> THEN <<>>
             ELSE IF IsHigh(us[1]) /\ Len(us) >= 2 /\ IsLow(us[2])
                    THEN <<65536 + (us[1] - 55296) * 1024 + (us[2] - 56320)>> \o Dec16(SubSeq(us, 3, Len(us)))
             ELSE IF IsHigh(us[1]) \/ IsLow(us[1]) THEN Dec16(Tail(us))
             ELSE <<us[1]>> \o Dec16(Tail(us))
DecodeText(b) == IF HasBOM(b) THEN Dec16(UnitsOf(b)) ELSE [j \in 1..Len(b) |-> DocTable[b[j] + 1]]
TextsOK(doc) == \A j \in 1..Len(doc.texts) : doc.texts[j].out = DecodeText(doc.texts[j].bytes)

\* ------------------------------------------------------------------ page labels (7.9.7, 12.4.2)
RECURSIVE FlatNums(_, _)
FlatNums(nodes, i) == nodes[i].nums \o SeqT!FlattenSeq([j \in 1..Len(nodes[i].kids) |-> FlatNums(nodes, nodes[i].kids[j])])
Ranges(nt) == LET s == SeqT!SortSeq(FlatNums(nt.nodes, 1), LAMBDA a, b : a[1] < b[1])
              IN IF s = <<>> \/ s[1][1] # 0 THEN <<<<0, 0>>>> \o s ELSE s
DictOf(nt, id) == IF id = 0 THEN [style |-> "none", prefix_str |-> "", st |-> 1] ELSE nt.dicts[id]
FormatCoded(value, style) ==
  CASE style = "none" -> ""
    [] style = "D" -> ToString(value)
    [] style = "R" -> CodeRoman(value, TRUE)
    [] style = "r" -> CodeRoman(value, FALSE)
    [] style = "A" -> IF "AlphaBijective" \in Dev THEN CodeAlpha(value, TRUE) ELSE RefAlpha(value, TRUE)
    [] style = "a" -> IF "AlphaBijective" \in Dev THEN CodeAlpha(value, FALSE) ELSE RefAlpha(value, FALSE)
    [] OTHER -> ""                                     \* unknown style: warning, empty numeric portion
LabelOf(nt, rs, i) ==
  LET c == {j \in 1..Len(rs) : rs[j][1] <= i}
      r == rs[CHOOSE j \in c : \A m \in c : m <= j]
      dd == DictOf(nt, r[2])
  IN dd.prefix_str \o FormatCoded(dd.st + (i - r[1]), dd.style)
LabelsOK(doc) ==
  \A j \in 1..Len(doc.labels) :
    LET nt == doc.labels[j]  rs == Ranges(nt) IN
    /\ nt.same_on_pages
    /\ \A i \in 1..Len(nt.out) : nt.out[i] = LabelOf(nt, rs, i - 1)

\* ------------------------------------------------------------------ named destinations (7.9.6, 12.3.2.3)
RECURSIVE LessB(_, _)
LessB(a, b) == IF b = <<>> THEN FALSE ELSE IF a = <<>> THEN TRUE
               ELSE IF a[1] # b[1] THEN a[1] < b[1] ELSE LessB(Tail(a), Tail(b))
\* lookup(d) of lookup_name: -> <<"value", id>> | <<"None">> | <<"KeyError">> | <<"TypeError">>
RECURSIVE Lookup(_, _, _, _)
RECURSIVE KidLoop(_, _, _, _, _)
Lookup(nodes, i, kind, key) ==
  LET nd == nodes[i] IN
  IF nd.limits # <<>> /\ kind = "name" THEN <<"TypeError">>
  ELSE IF nd.limits # <<>> /\ (LessB(key, nd.limits[1]) \/ LessB(nd.limits[2], key)) THEN <<"None">>
  ELSE IF nd.leaf
    THEN LET hit == {j \in 1..Len(nd.names) : kind = "string" /\ nd.names[j][1] = key}
         IN IF hit = {} THEN <<"KeyError">>
            ELSE <<"value", nd.names[CHOOSE j \in hit : \A m \in hit : m <= j][2]>>      \* dict(): the last pair wins
  ELSE KidLoop(nodes, nd.kids, 1, kind, key)
KidLoop(nodes, kids, j, kind, key) ==
  IF j > Len(kids) THEN <<"KeyError">>
  ELSE LET r == Lookup(nodes, kids[j], kind, key)
       IN IF r[1] = "None" THEN KidLoop(nodes, kids, j + 1, kind, key) ELSE r
DictHit(nm, kind, key) == {j \in 1..Len(nm.dict) : kind = "name" /\ nm.dict[j][1] = key}
\* get_dest as coded (name objects also tried on the tree) / as intended
DestCoded(nm, kind, key) ==
  LET tried == IF nm.nodes = <<>> THEN <<"KeyError">>
               ELSE IF kind = "name" /\ "NameVsLimits" \notin Dev THEN <<"KeyError">>
               ELSE Lookup(nm.nodes, 1, kind, key)
  IN IF tried[1] \in {"value", "TypeError", "None"} THEN tried
     ELSE LET h == DictHit(nm, kind, key) IN
          IF h = {} THEN <<"NotFound">> ELSE <<"value", nm.dict[CHOOSE j \in h : TRUE][2]>>
AllKeys(nm) == UNION {{nm.nodes[i].names[j][1] : j \in 1..Len(nm.nodes[i].names)} : i \in 1..Len(nm.nodes)}
DestsOK(doc) ==
  \A j \in 1..Len(doc.dests) :
    LET nm == doc.dests[j] IN
    \A x \in 1..Len(nm.queries) :
      LET qq == nm.queries[x]  r == DestCoded(nm, qq.kind, qq.key) IN
      /\ qq.res = r[1]
      /\ qq.res = "value" => qq.val = r[2]
      \* the reference: a string is found iff some leaf holds it
      /\ (qq.kind = "string" /\ nm.treevalid) => ((qq.res = "value") <=> (qq.key \in AllKeys(nm)))

\* ------------------------------------------------------------------ outlines (12.3.3): the generator machine
OL == Doc.outlines[1]
Item(i) == OL.items[i]
Top == stack[Len(stack)]
SetTop(f) == [stack EXCEPT ![Len(stack)] = f]
HasOutline == Len(Doc.outlines) = 1
Reported(i) == Item(i).hastitle /\ (("DropsUntargeted" \notin Dev) \/ Item(i).dest \/ Item(i).a)

Init == d = 1 /\ phase = "labels" /\ stack = <<>> /\ k = 0

\* labels, destinations, text strings: evaluated as functions of the recorded data, one phase each (a rejected
\* document deadlocks in the phase that does not explain it)
TLabels == /\ d <= ND /\ phase = "labels" /\ LabelsOK(Doc) = TRUE
           /\ phase' = "dests" /\ UNCHANGED <<d, stack, k>>
TDests ==  /\ d <= ND /\ phase = "dests" /\ DestsOK(Doc) = TRUE
           /\ phase' = "texts" /\ UNCHANGED <<d, stack, k>>
TTexts ==  /\ d <= ND /\ phase = "texts" /\ TextsOK(Doc) = TRUE
           /\ phase' = "outline" /\ k' = 0
           /\ stack' = IF HasOutline THEN <<[item |-> 1, level |-> 0, stage |-> "title"]>> ELSE <<>>
           /\ UNCHANGED d
OVisit == /\ d <= ND /\ phase = "outline" /\ stack # <<>> /\ Top.stage = "title"
          /\ IF Reported(Top.item)
               THEN /\ k < Len(OL.out)
                    /\ LET e == OL.out[k + 1] IN
                         (/\ e.level = Top.level
                          /\ e.title = Item(Top.item).title_str
                          /\ e.dest = Item(Top.item).dest /\ e.a = Item(Top.item).a
                          /\ (e.frames = Len(stack) \/ e.frames = Top.level + 1)) = TRUE
                    /\ k' = k + 1
               ELSE k' = k
          /\ stack' = SetTop([Top EXCEPT !.stage = "first"])
          /\ UNCHANGED <<d, phase>>
OFirst == /\ d <= ND /\ phase = "outline" /\ stack # <<>> /\ Top.stage = "first"
          /\ LET s1 == SetTop([Top EXCEPT !.stage = "next"]) IN
             stack' = IF Item(Top.item).first # 0 /\ Item(Top.item).last
                        THEN Append(s1, [item |-> Item(Top.item).first, level |-> Top.level + 1, stage |-> "title"])
                        ELSE s1
          /\ UNCHANGED <<d, phase, k>>
ONext ==  /\ d <= ND /\ phase = "outline" /\ stack # <<>> /\ Top.stage = "next"
          /\ stack' = IF Item(Top.item).next = 0 THEN SetTop([Top EXCEPT !.stage = "end"])
                      ELSE IF "NextRecurses" \in Dev
                        THEN Append(SetTop([Top EXCEPT !.stage = "end"]),
                                    [item |-> Item(Top.item).next, level |-> Top.level, stage |-> "title"])
                        ELSE SetTop([item |-> Item(Top.item).next, level |-> Top.level, stage |-> "title"])
          /\ UNCHANGED <<d, phase, k>>
OReturn == /\ d <= ND /\ phase = "outline" /\ stack # <<>> /\ Top.stage = "end"
           /\ stack' = SubSeq(stack, 1, Len(stack) - 1)
           /\ UNCHANGED <<d, phase, k>>
\* the recorded call ended: normally after the last item; a run cut short by RecursionError is a prefix
TEndDoc == /\ d <= ND /\ phase = "outline"
           /\ (IF ~HasOutline THEN stack = <<>>
               ELSE \/ (stack = <<>> /\ OL.err = "none" /\ k = Len(OL.out))
                    \/ (OL.err = "RecursionError" /\ "NextRecurses" \in Dev /\ k = Len(OL.out) /\ Len(stack) > 300)) = TRUE
           /\ d' = d + 1 /\ phase' = "labels" /\ stack' = <<>> /\ k' = 0
Finished == d > ND /\ UNCHANGED vars
Next == TLabels \/ TDests \/ TTexts \/ OVisit \/ OFirst \/ ONext \/ OReturn \/ TEndDoc \/ Finished
Spec == Init /\ [][Next]_vars

\* evaluated in every state
LevelsBounded == \A i \in 1..Len(stack) : stack[i].level <= i - 1
Matched == (d <= ND /\ phase = "outline" /\ HasOutline) => k <= Len(OL.out)
=============================================================================
