------------------------------- MODULE Labels -------------------------------
(***************************************************************************)
(* C17: pdfdocument.PageLabels.labels - from the flattened, sorted number  *)
(* tree (vals: records [start, style, prefix, st]) to one label per page.  *)
(* Actions follow the generator:                                           *)
(*   LStart   ranges = self.values; "(0, {})" put in front when the tree   *)
(*            does not begin with page index 0                             *)
(*   LRange   the next range: first_value = St (default 1), its length up  *)
(*            to the next range's start - the last range never ends        *)
(*   LEmit    yield prefix + _format_page_label(value, style)              *)
(*   LStop    the consumer (PDFPage.create_pages) takes one label per page *)
(* Reference (ISO 32000-1 12.4.2): the label of page i is the prefix of    *)
(* the range containing i (the one with the greatest start <= i) followed  *)
(* by the numeric portion St + (i - start) in the range's style.           *)
(*                                                                         *)
(* Named deviation AlphaBijective: styles A / a above 26 are written in    *)
(* bijective base 26 (27 = aa, 28 = ab) where table 159 says AA, BB.       *)
(***************************************************************************)
EXTENDS NavOps, Json

CONSTANTS Starts,      \* candidate range starts (page indices)
          MaxRanges,
          Styles,      \* subset of {"D", "R", "r", "A", "a", "none"}
          Prefixes,    \* strings
          Sts,         \* start values
          P,           \* number of pages
          Dev

VARIABLES vals, ranges, ri, v, left, out, pc, fired
vars == <<vals, ranges, ri, v, left, out, pc, fired>>

LOCAL SeqZ == INSTANCE SequencesExt

Dicts == [style : Styles, prefix : Prefixes, st : Sts]
\* all sorted range sequences: a set of at most MaxRanges starts, one label dictionary each
RangeSeqs == UNION {{[i \in 1..Cardinality(S) |->
                        LET start == SeqZ!SetToSortSeq(S, LAMBDA a, b : a < b)[i]
                        IN [start |-> start, style |-> f[start].style, prefix |-> f[start].prefix, st |-> f[start].st]]
                      : f \in [S -> Dicts]}
                    : S \in {T \in SUBSET Starts : Cardinality(T) <= MaxRanges}}

Init == /\ vals \in RangeSeqs
        /\ ranges = <<>> /\ ri = 0 /\ v = 0 /\ left = 0 /\ out = <<>> /\ pc = "start" /\ fired = {}

Empty == [start |-> 0, style |-> "none", prefix |-> "", st |-> 1]       \* (0, {})
LStart == /\ pc = "start"
          /\ ranges' = IF vals = <<>> \/ vals[1].start # 0 THEN <<Empty>> \o vals ELSE vals
          /\ ri' = 0 /\ pc' = "range" /\ UNCHANGED <<vals, v, left, out, fired>>

LRange == /\ pc = "range" /\ Len(out) < P
          /\ ri' = ri + 1
          /\ v' = ranges[ri + 1].st
          /\ left' = IF ri + 1 = Len(ranges) THEN -1 ELSE ranges[ri + 2].start - ranges[ri + 1].start
          /\ pc' = "emit" /\ UNCHANGED <<vals, ranges, out, fired>>

\* _format_page_label
AlphaDev(value) == "AlphaBijective" \in Dev /\ CodeAlpha(value, FALSE) # RefAlpha(value, FALSE)
Format(value, style) ==
  CASE style = "none" -> ""
    [] style = "D" -> ToString(value)
    [] style = "R" -> CodeRoman(value, TRUE)
    [] style = "r" -> CodeRoman(value, FALSE)
    [] style = "A" -> IF "AlphaBijective" \in Dev THEN CodeAlpha(value, TRUE) ELSE RefAlpha(value, TRUE)
    [] style = "a" -> IF "AlphaBijective" \in Dev THEN CodeAlpha(value, FALSE) ELSE RefAlpha(value, FALSE)

Cur == ranges[ri]
LEmit == /\ pc = "emit" /\ left # 0 /\ Len(out) < P
         /\ out' = Append(out, Cur.prefix \o Format(v, Cur.style))
         /\ fired' = IF Cur.style \in {"A", "a"} /\ AlphaDev(v) THEN fired \cup {Len(out) + 1} ELSE fired
         /\ v' = v + 1
         /\ left' = IF left > 0 THEN left - 1 ELSE left
         /\ UNCHANGED <<vals, ranges, ri, pc>>
LNext == /\ pc = "emit" /\ left = 0 /\ Len(out) < P
         /\ pc' = "range" /\ UNCHANGED <<vals, ranges, ri, v, left, out, fired>>
LStop == /\ pc \in {"emit", "range"} /\ Len(out) = P
         /\ pc' = "done" /\ UNCHANGED <<vals, ranges, ri, v, left, out, fired>>
Finished == pc = "done" /\ UNCHANGED vars
Next == LStart \/ LRange \/ LEmit \/ LNext \/ LStop \/ Finished
Spec == Init /\ [][Next]_vars

\* ---- reference and property
RefFormat(value, style) ==
  CASE style = "none" -> ""
    [] style = "D" -> RefDecimal(value)
    [] style = "R" -> RefRoman(value, TRUE)
    [] style = "r" -> RefRoman(value, FALSE)
    [] style = "A" -> RefAlpha(value, TRUE)
    [] style = "a" -> RefAlpha(value, FALSE)
Containing(i) == {j \in 1..Len(vals) : vals[j].start <= i}
RefLabel(i) == IF Containing(i) = {} THEN ""        \* no range contains the page (the tree should begin at 0)
               ELSE LET r == vals[CHOOSE j \in Containing(i) : \A k \in Containing(i) : k <= j]
                    IN r.prefix \o RefFormat(r.st + (i - r.start), r.style)
RefLabels == [i \in 1..P |-> RefLabel(i - 1)]

LabelRef == \A i \in 1..Len(out) : i \notin fired => out[i] = RefLabel(i - 1)
\* the roman formatter stays inside its asserted domain in this configuration
RomanDomain == (pc = "emit" /\ Cur.style \in {"R", "r"} /\ left # 0 /\ Len(out) < P) => RomanInDomain(v)
Progress == [][pc' = "done" \/ pc' # pc \/ Len(out') > Len(out)]_vars

EmitTerminal == pc = "done" => PrintT("@@" \o ToJson([vals |-> vals, out |-> out, ref |-> RefLabels, fired |-> fired]))
=============================================================================
