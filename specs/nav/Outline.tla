------------------------------- MODULE Outline -------------------------------
(***************************************************************************)
(* C17: PDFDocument.get_outlines - the generator `search(entry, level)`    *)
(* over the outline hierarchy (ISO 32000-1 12.3.3: items linked by First / *)
(* Last / Next / Prev / Parent, Title required, Dest and A optional).      *)
(* An outline forest of n items is given by its preorder level sequence    *)
(* lev (lev[1] = 1, lev[i+1] <= lev[i] + 1; this is a bijection with       *)
(* ordered forests) and by what each item points at (tgt: "Dest", "A" or   *)
(* "none").  Item 0 is the outline dictionary itself (no Title).           *)
(* What is reported for an item is <<level, item, live generator frames>>.  *)
(* The machine keeps the stack of live generator frames [item, level,      *)
(* stage]:  OVisit (the Title test and the yield), OFirst (`if "First" in  *)
(* entry and "Last" in entry: yield from search(First, level + 1)`),       *)
(* ONext (`if "Next" in entry: yield from search(Next, level)`), OReturn.  *)
(* Reference: the items in preorder with their nesting level.              *)
(*                                                                         *)
(* Named deviations:                                                       *)
(*   DropsUntargeted  an item with neither Dest nor A is not reported      *)
(*   NextRecurses     the next sibling is a recursive call: the frames of  *)
(*                    all earlier siblings stay alive, so the depth of the *)
(*                    recursion grows with the number of siblings and not  *)
(*                    with the nesting (a long chapter list exhausts the   *)
(*                    interpreter's stack)                                 *)
(***************************************************************************)
EXTENDS NavOps, Json

CONSTANTS MaxItems, Targets, Dev

VARIABLES n, lev, tgt, stack, out, pc, fired, maxstack
vars == <<n, lev, tgt, stack, out, pc, fired, maxstack>>

LevelSeqs(k) == {l \in [1..k -> 1..k] : (k > 0 => l[1] = 1) /\ \A i \in 1..(k - 1) : l[i + 1] <= l[i] + 1}

Init == /\ n \in 0..MaxItems
        /\ lev \in LevelSeqs(n)
        /\ tgt \in [1..n -> Targets]
        /\ stack = <<[item |-> 0, level |-> 0, stage |-> "title"]>>      \* search(catalog["Outlines"], 0)
        /\ out = <<>> /\ pc = "run" /\ fired = {} /\ maxstack = 1

LevOf(i) == IF i = 0 THEN 0 ELSE lev[i]
First(i) == IF i < n /\ lev[i + 1] = LevOf(i) + 1 THEN i + 1 ELSE 0
NextOf(i) == IF i = 0 THEN 0
             ELSE LET c == {j \in (i + 1)..n : lev[j] = lev[i] /\ \A k \in (i + 1)..(j - 1) : lev[k] > lev[i]}
                  IN IF c = {} THEN 0 ELSE CHOOSE j \in c : \A k \in c : j <= k
In == UNCHANGED <<n, lev, tgt>>
Top == stack[Len(stack)]
SetTop(f) == [stack EXCEPT ![Len(stack)] = f]
Push(st, f) == Append(st, f)
Depth == IF n = 0 THEN 0 ELSE CHOOSE d \in {lev[i] : i \in 1..n} : \A i \in 1..n : lev[i] <= d

\* `if "Title" in entry: if "A" in entry or "Dest" in entry: yield (level, title, dest, action, se)`
OVisit ==
  /\ pc = "run" /\ stack # <<>> /\ Top.stage = "title"
  /\ LET i == Top.item IN
     IF i = 0 THEN out' = out /\ fired' = fired
     ELSE IF tgt[i] = "none" /\ "DropsUntargeted" \in Dev
            THEN out' = out /\ fired' = fired \cup {"DropsUntargeted"}
            ELSE out' = Append(out, <<Top.level, i, Len(stack)>>) /\ fired' = fired
  /\ stack' = SetTop([Top EXCEPT !.stage = "first"])
  /\ UNCHANGED <<pc, maxstack>> /\ In

OFirst ==
  /\ pc = "run" /\ stack # <<>> /\ Top.stage = "first"
  /\ LET f == First(Top.item)  s1 == SetTop([Top EXCEPT !.stage = "next"]) IN
     stack' = IF f = 0 THEN s1 ELSE Push(s1, [item |-> f, level |-> Top.level + 1, stage |-> "title"])
  /\ maxstack' = IF Len(stack') > maxstack THEN Len(stack') ELSE maxstack
  /\ UNCHANGED <<out, pc, fired>> /\ In

ONext ==
  /\ pc = "run" /\ stack # <<>> /\ Top.stage = "next"
  /\ LET x == NextOf(Top.item) IN
     IF x = 0 THEN stack' = SetTop([Top EXCEPT !.stage = "end"]) /\ fired' = fired
     ELSE IF "NextRecurses" \in Dev
            THEN /\ stack' = Push(SetTop([Top EXCEPT !.stage = "end"]), [item |-> x, level |-> Top.level, stage |-> "title"])
                 /\ fired' = fired \cup {"NextRecurses"}
            ELSE /\ stack' = SetTop([item |-> x, level |-> Top.level, stage |-> "title"])    \* a loop over the siblings
                 /\ fired' = fired
  /\ maxstack' = IF Len(stack') > maxstack THEN Len(stack') ELSE maxstack
  /\ UNCHANGED <<out, pc>> /\ In

OReturn ==
  /\ pc = "run" /\ stack # <<>> /\ Top.stage = "end"
  /\ stack' = SubSeq(stack, 1, Len(stack) - 1)
  /\ pc' = IF Len(stack) = 1 THEN "done" ELSE "run"
  /\ UNCHANGED <<out, fired, maxstack>> /\ In

Finished == pc = "done" /\ UNCHANGED vars
Next == OVisit \/ OFirst \/ ONext \/ OReturn \/ Finished
Spec == Init /\ [][Next]_vars

\* ---- reference and property
\* (the third component is the number of live generator frames at the yield: the nesting level, plus the root's)
RefOutline == [i \in 1..n |-> <<lev[i], i, lev[i] + 1>>]
Items(o) == [k \in 1..Len(o) |-> <<o[k][1], o[k][2]>>]
OutlinePreorder == (pc = "done" /\ "DropsUntargeted" \notin fired) =>
                     /\ Items(out) = Items(RefOutline)
                     /\ "NextRecurses" \notin fired => out = RefOutline
\* whatever is reported is reported at its level and in document order
LevelsRight == /\ \A k \in 1..Len(out) : out[k][1] = lev[out[k][2]]
               /\ \A k \in 1..(Len(out) - 1) : out[k][2] < out[k + 1][2]
\* the live generator frames are bounded by the nesting depth, not by the number of siblings
StackByNesting == ("NextRecurses" \notin fired) => Len(stack) <= Depth + 1
Progress == [][pc' = "done" \/ stack' # stack]_vars

EmitTerminal == pc = "done" =>
  PrintT("@@" \o ToJson([n |-> n, lev |-> lev, tgt |-> tgt, out |-> out, ref |-> RefOutline, fired |-> fired,
                         maxstack |-> maxstack, depth |-> Depth]))
=============================================================================
