----------------------------- MODULE XRefTrace -----------------------------
(***************************************************************************)
(* Binding B for C02: lookups recorded from the real PDFDocument.getobj    *)
(* (which sections' get_pos answered, cache hit or not, digest of the      *)
(* value) must be behaviours of the resolution rule of XRef.tla:           *)
(*   a miss is answered by the first section, in chain order, that lists   *)
(*   the object (later listing sections only after it), an object no       *)
(*   section lists is not found, a cache hit happens only with caching on  *)
(*   and returns what the earlier lookup returned, and repeated lookups    *)
(*   return the same value.                                                *)
(* A rejected trace is a deadlock; the last state names trace t, event e.  *)
(***************************************************************************)
EXTENDS Integers, Sequences, FiniteSets, TLC, Json, IOUtils

Traces == JsonDeserialize(IOEnv.TRACE_FILE)

VARIABLES t, e, memo
vars == <<t, e, memo>>

\* objects already in the cache when recording started (fetched while the document was opened)
Pre(i) == IF i <= Len(Traces) THEN Traces[i].precached ELSE <<>>
Init == t = 1 /\ e = 1 /\ memo = Pre(1)

Lists(sec, objid) == \E i \in 1..Len(sec) : sec[i] = objid
Listing(secs, objid) == {i \in 1..Len(secs) : Lists(secs[i], objid)}
Has(m, k) == \E i \in 1..Len(m) : m[i][1] = k
Get(m, k) == m[CHOOSE i \in 1..Len(m) : m[i][1] = k][2]
Ascending(q) == \A i \in 1..(Len(q) - 1) : q[i] < q[i + 1]

Explained(tr, ev) ==
  LET L == Listing(tr.sections, ev.objid) IN
  /\ IF ev.cachehit
     THEN tr.caching /\ ev.tried = <<>> /\ Has(memo, ev.objid) /\ ev.found
     ELSE IF L = {} THEN ev.tried = <<>> /\ ~ev.found
     ELSE /\ ev.tried # <<>> /\ Ascending(ev.tried)
          /\ \A i \in 1..Len(ev.tried) : ev.tried[i] \in L
          \* the sections tried are the first |tried| sections that list the object: none is skipped
          /\ \A s \in L : s < ev.tried[Len(ev.tried)] => \E i \in 1..Len(ev.tried) : ev.tried[i] = s
  /\ (ev.found /\ Has(memo, ev.objid)) => Get(memo, ev.objid) = ev.digest
  \* generated documents: payload object p (object number p + 2) carries (p, revision that wrote it);
  \* NewestWins of XRef.tla: the value comes from the newest revision defining p
  /\ (tr.defs # <<>> /\ ev.objid - 2 >= 1 /\ (\E k \in 1..Len(tr.defs) : \E j \in 1..Len(tr.defs[k]) : tr.defs[k][j] = ev.objid - 2)) =>
        LET p == ev.objid - 2
            ks == {k \in 1..Len(tr.defs) : \E j \in 1..Len(tr.defs[k]) : tr.defs[k][j] = p}
            newest == CHOOSE k \in ks : \A y \in ks : y <= k
        IN ev.found /\ ev.pv = <<p, newest>>

Step == /\ t <= Len(Traces) /\ e <= Len(Traces[t].events)
        /\ Explained(Traces[t], Traces[t].events[e])
        /\ LET ev == Traces[t].events[e] IN
           memo' = IF ev.found /\ ~Has(memo, ev.objid) THEN Append(memo, <<ev.objid, ev.digest>>) ELSE memo
        /\ e' = e + 1 /\ UNCHANGED t
NextTrace == /\ t <= Len(Traces) /\ e > Len(Traces[t].events)
             /\ t' = t + 1 /\ e' = 1 /\ memo' = Pre(t + 1)
Finished == t > Len(Traces) /\ UNCHANGED vars
Next == Step \/ NextTrace \/ Finished
Spec == Init /\ [][Next]_vars
=============================================================================
