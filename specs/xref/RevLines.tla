------------------------------ MODULE RevLines ------------------------------
(***************************************************************************)
(* C02 (locating startxref): PSBaseParser.revreadlines reads the file      *)
(* backwards in chunks of BUFSIZ bytes and yields lines; find_xref strips  *)
(* them and takes the line before `startxref`.  The tail of a file is      *)
(* modelled as a sequence of symbols, each standing for some bytes (the    *)
(* word "startxref" is one symbol so that short strings reach it).         *)
(* Invariant: the outcome is the same for every chunk size.                *)
(***************************************************************************)
EXTENDS Integers, Sequences, FiniteSets, TLC, Json

CONSTANTS Syms,      \* symbols: "CR" "LF" "SP" "D1" "D2" "SX" "PC"
          MaxLen, BufSizes

Bytes(sym) == CASE sym = "CR" -> <<13>> [] sym = "LF" -> <<10>> [] sym = "SP" -> <<32>>
                [] sym = "D1" -> <<49>> [] sym = "D2" -> <<50, 51>>
                [] sym = "SX" -> <<115, 116, 97, 114, 116, 120, 114, 101, 102>>     \* startxref
                [] sym = "PC" -> <<37, 37, 69, 79, 70>>                             \* %%EOF
RECURSIVE Expand(_)
Expand(q) == IF q = <<>> THEN <<>> ELSE Bytes(Head(q)) \o Expand(Tail(q))

EOLS == {10, 13}
StripWS == {9, 10, 11, 12, 13, 32}
\* index of the last EOL in s, 0 if none (rfind)
LastEOL(s) == LET c == {i \in 1..Len(s) : s[i] \in EOLS} IN
              IF c = {} THEN 0 ELSE CHOOSE i \in c : \A j \in c : j <= i
RECURSIVE LStrip(_), RStrip(_)
LStrip(s) == IF s # <<>> /\ s[1] \in StripWS THEN LStrip(Tail(s)) ELSE s
RStrip(s) == IF s # <<>> /\ s[Len(s)] \in StripWS THEN RStrip(SubSeq(s, 1, Len(s) - 1)) ELSE s
Strip(s) == RStrip(LStrip(s))
IsDigits(s) == s # <<>> /\ \A i \in 1..Len(s) : s[i] \in 48..57
SXW == Bytes("SX")

VARIABLES syms, B, data, pos, s, buf, prev, result, phase
vars == <<syms, B, data, pos, s, buf, prev, result, phase>>

Strings == UNION {[1..m -> Syms] : m \in 0..MaxLen}
Init == /\ syms \in Strings /\ B \in BufSizes
        /\ data = Expand(syms) /\ pos = Len(Expand(syms))
        /\ s = <<>> /\ buf = <<>> /\ prev = <<>> /\ result = "none" /\ phase = "read"

\* find_xref consuming one yielded line
Consume(line) ==
  LET l == Strip(line) IN
  IF l = SXW THEN (IF IsDigits(prev) THEN result' = "found" /\ UNCHANGED prev
                   ELSE result' = "invalid" /\ UNCHANGED prev)
  ELSE /\ prev' = IF l # <<>> THEN l ELSE prev
       /\ UNCHANGED result

\* outer loop: read the previous chunk
AReadChunk == /\ phase = "read" /\ result = "none" /\ pos > 0
              /\ LET np == IF pos - B < 0 THEN 0 ELSE pos - B IN
                   /\ s' = SubSeq(data, np + 1, pos) /\ pos' = np
              /\ phase' = "split" /\ UNCHANGED <<syms, B, data, buf, prev, result>>
\* inner loop: yield the part after the last EOL, or keep the rest as the tail of an unfinished line
ASplit == /\ phase = "split" /\ result = "none"
          /\ LET n == LastEOL(s) IN
             IF n = 0 THEN /\ buf' = s \o buf /\ s' = <<>> /\ phase' = "read" /\ UNCHANGED <<prev, result>>
             ELSE /\ Consume(SubSeq(s, n, Len(s)) \o buf)
                  /\ s' = SubSeq(s, 1, n - 1) /\ buf' = <<>> /\ UNCHANGED phase
          /\ UNCHANGED <<syms, B, data, pos>>
AEnd == /\ phase = "read" /\ result = "none" /\ pos = 0
        /\ result' = "eof" /\ UNCHANGED <<syms, B, data, pos, s, buf, prev, phase>>
Next == AReadChunk \/ ASplit \/ AEnd

\* ---- reference: split the whole file at EOLs (forwards), take the last `startxref` line and the line after it
Lines(d) == LET RECURSIVE F(_, _)
                F(rest, cur) == IF rest = <<>> THEN <<cur>>
                                ELSE IF Head(rest) \in EOLS THEN <<cur>> \o F(Tail(rest), <<>>)
                                ELSE F(Tail(rest), Append(cur, Head(rest)))
            IN F(d, <<>>)
\* the first line of the file is never yielded by the backward reader (it has no EOL before it)
RefResult(d) ==
  LET ls == Lines(d)
      st == [i \in 1..Len(ls) |-> Strip(ls[i])]
      cand == {i \in 2..Len(st) : st[i] = SXW}
  IN IF cand = {} THEN <<"eof", <<>>>>
     ELSE LET i == CHOOSE x \in cand : \A y \in cand : y <= x
              after == {j \in (i + 1)..Len(st) : st[j] # <<>>}
              p == IF after = {} THEN <<>> ELSE st[CHOOSE x \in after : \A y \in after : x <= y]
          IN IF IsDigits(p) THEN <<"found", p>> ELSE <<"invalid", <<>>>>

Done == result # "none"
\* the backward reader finds what the forward reading of the same bytes defines, for every chunk size
SameAsReference == Done => result = RefResult(data)[1] /\ (result = "found" => prev = RefResult(data)[2])
Terminates == [][ \/ pos' < pos \/ Len(s') < Len(s) \/ result' # "none" \/ (phase = "split" /\ phase' = "read") ]_vars
EmitTerminal == Done => PrintT("@@" \o ToJson([d |-> data, b |-> B, r |-> result, p |-> IF result = "found" THEN prev ELSE <<>>]))
=============================================================================
