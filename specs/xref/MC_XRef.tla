---- MODULE MC_XRef ----
EXTENDS XRef
AllForms == {"table", "stream", "hybrid"}
NoDev == {}
====
