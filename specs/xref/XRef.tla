-------------------------------- MODULE XRef --------------------------------
(***************************************************************************)
(* C02: cross-reference resolution over document histories.                *)
(*                                                                         *)
(* Writer side (declarative, ISO 32000-1 7.5.4-7.5.8): a history is a      *)
(* sequence of revisions; each defines/overrides payload objects, is       *)
(* written as a classic table, a cross-reference stream or a hybrid, and   *)
(* may pack some objects into an object stream.  Reader side (shaped like  *)
(* PDFDocument): the chain of sections built by read_xref_from (section,   *)
(* then XRefStm, then Prev), get_pos with the /Index range arithmetic,     *)
(* get_objids, getobj with the object cache and the parsed-object-stream   *)
(* cache, _getobj_objstm's index arithmetic, catalog/info selection.       *)
(***************************************************************************)
EXTENDS Integers, Sequences, FiniteSets, TLC, Json

CONSTANTS NPay,      \* payload objects 1..NPay  (object numbers NPay are offset by 2: 1 = catalog, 2 = pages)
          MaxRev,    \* histories of 1..MaxRev revisions
          Forms,     \* subset of {"table", "stream", "hybrid"}
          MaxCalls,  \* number of getobj calls in a behaviour
          Dev        \* deviations: "ObjIdsRangeIndex" (get_objids indexes entries per range, not cumulatively)

Pay == 1..NPay
ObjId(p) == p + 2
MaxOf(S) == CHOOSE x \in S : \A y \in S : y <= x
MinOf(S) == CHOOSE x \in S : \A y \in S : x <= y

\* ------------------------------------------------------------------ histories
\* a revision: which payload objects it (re)defines, physical form, which of them are packed into its object
\* stream, whether its cross-reference stream uses one /Index range per run of consecutive ids (split) or a single
\* range with free filler entries, and whether it carries a new catalog (object 1) and a new Info dictionary
RevChoices ==
  {[defs |-> d, form |-> f, packed |-> k, split |-> s, newroot |-> nr] :
      d \in (SUBSET Pay) \ {{}}, f \in Forms, k \in SUBSET Pay, s \in BOOLEAN, nr \in BOOLEAN}
GoodRev(r) == /\ r.packed \subseteq r.defs
              /\ (r.form = "table" => r.packed = {} /\ ~r.split)
              /\ (r.form = "hybrid" => r.packed # {} /\ ~r.split)
Revs == {r \in RevChoices : GoodRev(r)}

\* object numbers used by the first k revisions: the object stream and the cross-reference stream of a revision get
\* fresh numbers after everything used so far
RECURSIVE TopId(_, _)
Fresh(h, k) == TopId(h, k - 1)                         \* largest number in use before revision k
StmId(h, k) == IF h[k].packed = {} THEN 0 ELSE MaxOf({Fresh(h, k)} \cup {ObjId(p) : p \in h[k].defs}) + 1
XId(h, k)   == IF h[k].form = "table" \/ (h[k].form = "hybrid" /\ h[k].packed = {}) THEN 0
               ELSE MaxOf({Fresh(h, k), StmId(h, k)} \cup {ObjId(p) : p \in h[k].defs}) + 1
TopId(h, k) == IF k = 0 THEN NPay + 2      \* object and xref streams are numbered above every payload number
               ELSE MaxOf({TopId(h, k - 1), StmId(h, k), XId(h, k)} \cup {ObjId(p) : p \in h[k].defs})

\* ------------------------------------------------------------------ what the writer lays out: sections
\* entry: [t |-> 1, ver |-> <<p, k>>]  direct object (payload p as of revision k; p = 0: structural object)
\*        [t |-> 2, stm |-> id, idx |-> i]  member i of object stream id        [t |-> 0] free
Direct(p, k) == [t |-> 1, ver |-> <<p, k>>, stm |-> 0, idx |-> 0]
InStm(id, i) == [t |-> 2, ver |-> <<0, 0>>, stm |-> id, idx |-> i]
FreeE        == [t |-> 0, ver |-> <<0, 0>>, stm |-> 0, idx |-> 0]

\* members of revision k's object stream, in ascending payload order
SetToSeqAsc(S) == LET RECURSIVE F(_)  F(T) == IF T = {} THEN <<>> ELSE <<MinOf(T)>> \o F(T \ {MinOf(T)}) IN F(S)
StmMembers(h, k) == SetToSeqAsc(h[k].packed)
IndexIn(q, x) == CHOOSE i \in 1..Len(q) : q[i] = x

\* the in-use entries revision k writes, as a function objid -> entry
RevEntries(h, k) ==
  LET r == h[k]
      struct == (IF k = 1 \/ r.newroot THEN {1} ELSE {}) \cup (IF k = 1 THEN {2} ELSE {})
      ids == struct \cup {ObjId(p) : p \in r.defs}
               \cup (IF StmId(h, k) # 0 THEN {StmId(h, k)} ELSE {}) \cup (IF XId(h, k) # 0 THEN {XId(h, k)} ELSE {})
  IN [id \in ids |->
        IF id \in struct \/ id = StmId(h, k) \/ id = XId(h, k) THEN Direct(0, k)
        ELSE LET p == id - 2 IN
             IF p \in r.packed THEN InStm(StmId(h, k), IndexIn(StmMembers(h, k), p) - 1) ELSE Direct(p, k)]

Runs(S) == {<<a, n>> \in (S \X (1..Cardinality(S))) :
               /\ \A i \in 0..(n - 1) : a + i \in S
               /\ (a - 1) \notin S /\ (a + n) \notin S}
RunsSeq(S) == LET starts == {r[1] : r \in Runs(S)}
                  ord == SetToSeqAsc(starts)
              IN [i \in 1..Len(ord) |-> CHOOSE r \in Runs(S) : r[1] = ord[i]]

\* a cross-reference stream section: /Index ranges and the flat entry array
StreamSection(ent, split, first) ==
  LET ids0 == DOMAIN ent
      ids == IF first /\ ~split THEN ids0 \cup {0} ELSE IF first THEN ids0 \cup {0} ELSE ids0
      ranges == IF split THEN RunsSeq(ids) ELSE <<<<MinOf(ids), MaxOf(ids) - MinOf(ids) + 1>>>>
      Flat(rg) == [i \in 1..rg[2] |-> IF (rg[1] + i - 1) \in ids0 THEN ent[rg[1] + i - 1] ELSE FreeE]
      RECURSIVE CatR(_)
      CatR(q) == IF q = <<>> THEN <<>> ELSE Flat(Head(q)) \o CatR(Tail(q))
  IN [kind |-> "stream", ranges |-> ranges, ents |-> CatR(ranges), tab |-> <<>>]
TableSection(ent) == [kind |-> "table", ranges |-> <<>>, ents |-> <<>>, tab |-> ent]

\* sections of revision k in the order read_xref_from appends them (table, then its XRefStm)
RevSections(h, k) ==
  LET r == h[k]  e == RevEntries(h, k) IN
  CASE r.form = "table"  -> <<TableSection(e)>>
    [] r.form = "stream" -> <<StreamSection(e, r.split, k = 1)>>
    [] r.form = "hybrid" ->
         LET comp == {id \in DOMAIN e : e[id].t = 2}
             xe == [id \in comp \cup {XId(h, k)} |-> e[id]]
             te == [id \in (DOMAIN e) \ comp |-> e[id]]
         IN <<TableSection(te), StreamSection(xe, FALSE, FALSE)>>

\* the chain: newest revision first, following Prev
RECURSIVE Chain(_, _)
Chain(h, k) == IF k = 0 THEN <<>> ELSE RevSections(h, k) \o Chain(h, k - 1)

\* ------------------------------------------------------------------ reader: get_pos / get_objids
NoEntry == [t |-> 9, ver |-> <<0, 0>>, stm |-> 0, idx |-> 0]
\* PDFXRefStream.get_pos: cumulative index over the ranges; free entries raise KeyError
RECURSIVE PosIn(_, _, _)
PosIn(ranges, objid, acc) ==
  IF ranges = <<>> THEN 0
  ELSE LET rg == Head(ranges) IN
       IF rg[1] <= objid /\ objid < rg[1] + rg[2] THEN acc + (objid - rg[1]) + 1
       ELSE PosIn(Tail(ranges), objid, acc + rg[2])
GetPos(sec, objid) ==
  IF sec.kind = "table" THEN (IF objid \in DOMAIN sec.tab THEN sec.tab[objid] ELSE NoEntry)
  ELSE LET i == PosIn(sec.ranges, objid, 0) IN
       IF i = 0 \/ sec.ents[i].t = 0 THEN NoEntry ELSE sec.ents[i]

\* get_objids: as coded the entry of the i-th object of a range is looked up at index i of the whole array
RECURSIVE IdsOf(_, _, _)
IdsOf(sec, ranges, acc) ==
  IF ranges = <<>> THEN {}
  ELSE LET rg == Head(ranges)
           base == IF "ObjIdsRangeIndex" \in Dev THEN 0 ELSE acc IN
       {rg[1] + i : i \in {j \in 0..(rg[2] - 1) : sec.ents[base + j + 1].t \in {1, 2}}}
         \cup IdsOf(sec, Tail(ranges), acc + rg[2])
GetObjIds(sec) == IF sec.kind = "table" THEN DOMAIN sec.tab ELSE IdsOf(sec, sec.ranges, 0)
\* declarative: the numbers the section marks in use
InUse(sec) == IF sec.kind = "table" THEN DOMAIN sec.tab
              ELSE {id \in 0..200 : PosIn(sec.ranges, id, 0) # 0 /\ sec.ents[PosIn(sec.ranges, id, 0)].t \in {1, 2}}

\* ------------------------------------------------------------------ the machine
VARIABLES hist, caching, xrefs, cached, parsed, calls, lastres
vars == <<hist, caching, xrefs, cached, parsed, calls, lastres>>

Histories == UNION {[1..n -> Revs] : n \in 1..MaxRev}
Init == /\ hist \in Histories
        /\ caching \in BOOLEAN
        /\ xrefs = <<>>           \* filled by ReadXRefs (PDFDocument.__init__)
        /\ cached = <<>> /\ parsed = <<>> /\ calls = <<>> /\ lastres = <<>>

AReadXRefs == /\ xrefs = <<>>
              /\ xrefs' = Chain(hist, Len(hist))
              /\ UNCHANGED <<hist, caching, cached, parsed, calls, lastres>>

\* the revision in which object stream `id` lives
StmRev(h, id) == CHOOSE k \in 1..Len(h) : StmId(h, k) = id
\* first section, newest first, that lists objid
RECURSIVE Lookup(_, _, _)
Lookup(secs, i, objid) ==
  IF i > Len(secs) THEN <<0, NoEntry>>
  ELSE LET e == GetPos(secs[i], objid) IN IF e.t # 9 THEN <<i, e>> ELSE Lookup(secs, i + 1, objid)

NotFound == <<0, 0>>
\* value of payload p: <<p, revision that wrote it>>
Resolve(objid) ==
  LET hit == Lookup(xrefs, 1, objid) IN
  IF hit[1] = 0 THEN NotFound
  ELSE IF hit[2].t = 1 THEN hit[2].ver
  ELSE \* _getobj_objstm: objs = 2n header integers followed by the n objects; obj = objs[n * 2 + index]
       LET k == StmRev(hist, hit[2].stm)  m == StmMembers(hist, k) IN <<m[hit[2].idx + 1], k>>

InMap(m, key) == \E i \in 1..Len(m) : m[i][1] = key
MapGet(m, key) == (CHOOSE i \in 1..Len(m) : m[i][1] = key)
AGetObj(p) ==
  /\ xrefs # <<>> /\ Len(calls) < MaxCalls
  /\ LET objid == ObjId(p)
         hitc == InMap(cached, objid)
         val == IF hitc THEN cached[MapGet(cached, objid)][2] ELSE Resolve(objid)
         hit == Lookup(xrefs, 1, objid)
         viastm == ~hitc /\ hit[1] # 0 /\ hit[2].t = 2
     IN /\ lastres' = val
        /\ calls' = Append(calls, <<p, val>>)
        /\ cached' = IF caching /\ ~hitc /\ val # NotFound THEN Append(cached, <<objid, val>>) ELSE cached
        /\ parsed' = IF caching /\ viastm /\ ~InMap(parsed, hit[2].stm) THEN Append(parsed, <<hit[2].stm, 0>>) ELSE parsed
  /\ UNCHANGED <<hist, caching, xrefs>>

Next == AReadXRefs \/ \E p \in Pay : AGetObj(p)
Spec == Init /\ [][Next]_vars

\* ------------------------------------------------------------------ C02
Defines(k, p) == p \in hist[k].defs
NewestRev(p) == IF \E k \in 1..Len(hist) : Defines(k, p)
                THEN MaxOf({k \in 1..Len(hist) : Defines(k, p)}) ELSE 0
\* every lookup returns the value written by the newest revision that defines the object
NewestWins == \A i \in 1..Len(calls) :
                 calls[i][2] = (IF NewestRev(calls[i][1]) = 0 THEN NotFound ELSE <<calls[i][1], NewestRev(calls[i][1])>>)
\* a cached answer is the answer a miss gives
CacheCoherent == \A i \in 1..Len(cached) : xrefs # <<>> => cached[i][2] = Resolve(cached[i][1])
\* the in-use numbers each section reports are exactly those it defines
ObjIdsExact == \A i \in 1..Len(xrefs) : GetObjIds(xrefs[i]) = InUse(xrefs[i])
\* catalog and info come from the newest revision that carries them
NewestRoot == MaxOf({k \in 1..Len(hist) : k = 1 \/ hist[k].newroot})

SecJ(sec) == [kind |-> sec.kind, ids |-> GetObjIds(sec), inuse |-> InUse(sec)]
EmitTerminal ==
  Len(calls) = MaxCalls =>
    PrintT("@@" \o ToJson([hist |-> [k \in 1..Len(hist) |->
                                        [defs |-> hist[k].defs, form |-> hist[k].form, packed |-> hist[k].packed,
                                         split |-> hist[k].split, newroot |-> hist[k].newroot,
                                         stmid |-> StmId(hist, k), xid |-> XId(hist, k)]],
                           caching |-> caching, calls |-> calls,
                           secs |-> [i \in 1..Len(xrefs) |-> SecJ(xrefs[i])],
                           root |-> NewestRoot]))
=============================================================================
