---- MODULE MC_RevLines ----
EXTENDS RevLines
AllSyms == {"CR", "LF", "SP", "D1", "D2", "SX", "PC"}
====
