----------------------------- MODULE PSLexOps -----------------------------
(***************************************************************************)
(* The PostScript/PDF tokenizer of pdfminer (psparser.PSBaseParser) as a   *)
(* pure step function over a state record.  It is shaped like the code:    *)
(* one operator per _parse_* method, a refill step per fillbuf() and the   *)
(* "feed one newline at end of input" step of nexttoken().  A scanner      *)
(* sees only the bytes of the current buffer data[p+1 .. e].               *)
(*                                                                         *)
(* Dev is the set of named deviations of the code from the intended        *)
(* design (ISO 32000-1 7.2-7.3) that are switched on; Dev = {} is the      *)
(* intended tokenizer.                                                     *)
(*   "OctAssert"   \ddd > 255 trips an assert instead of dropping overflow *)
(*   "CRLFInBuf"   the LF of a `\ CR LF` continuation is looked for only   *)
(*                 inside the current buffer                               *)
(*   "HexOddLow"   a final odd hex digit d yields 0d instead of d0          *)
(*   "HexNulEnds"  NUL ends a hex string instead of being white space      *)
(*   "RawEOLKept"  raw CR / CR LF inside ( ) is copied, not turned into LF *)
(*   "NulNotDelim" NUL (white space in ISO 32000-1 table 1) does not end a *)
(*                 name or keyword                                         *)
(*   "EscCharDropped" a backslash before a character that needs no escape  *)
(*                 (`\d`) drops the character too; 7.3.4.2: only the       *)
(*                 backslash is ignored                                    *)
(*   "LitHexEOFLost" a name whose last bytes are a #xx escape is lost when *)
(*                 the input ends right after it                           *)
(***************************************************************************)
EXTENDS Integers, Sequences, FiniteSets

WS      == {9, 10, 11, 12, 13, 32}            \* Python bytes \s
EOLS    == {10, 13}
DIGIT   == 48..57
OCTD    == 48..55
ALPHA   == (65..90) \cup (97..122)
HEXD    == DIGIT \cup (65..70) \cup (97..102)
ENDLIT  == {35, 47, 37, 91, 93, 40, 41, 60, 62, 123, 125} \cup WS
EndLit(dev) == IF "NulNotDelim" \in dev THEN ENDLIT ELSE ENDLIT \cup {0}
ESCS    == {98, 116, 110, 102, 114, 40, 41, 92}
EscVal(b) == CASE b = 98 -> 8 [] b = 116 -> 9 [] b = 110 -> 10 [] b = 102 -> 12
               [] b = 114 -> 13 [] OTHER -> b

Min(a, b) == IF a < b THEN a ELSE b

\* first absolute position q in p..e-1 whose byte is (not) in S; e if none
First(D, p, e, S) == LET c == {q \in p..(e - 1) : D[q + 1] \in S} IN
                     IF c = {} THEN e ELSE CHOOSE q \in c : \A r \in c : q <= r
FirstNot(D, p, e, S) == LET c == {q \in p..(e - 1) : D[q + 1] \notin S} IN
                     IF c = {} THEN e ELSE CHOOSE q \in c : \A r \in c : q <= r
Slice(D, p, q) == SubSeq(D, p + 1, q)         \* bytes at absolute positions p..q-1

HexVal(b) == IF b \in DIGIT THEN b - 48 ELSE IF b \in 65..70 THEN b - 55 ELSE b - 87
RECURSIVE OctNum(_)
OctNum(s) == IF s = <<>> THEN 0 ELSE OctNum(SubSeq(s, 1, Len(s) - 1)) * 8 + (s[Len(s)] - 48)
RECURSIVE HexNum(_)
HexNum(s) == IF s = <<>> THEN 0 ELSE HexNum(SubSeq(s, 1, Len(s) - 1)) * 16 + HexVal(s[Len(s)])
HasDigit(s) == \E i \in 1..Len(s) : s[i] \in DIGIT

\* HEX_PAIR.sub over the stripped digits: pairs left to right; a final lone digit d
RECURSIVE HexPairs(_, _)
HexPairs(s, dev) == IF s = <<>> THEN <<>>
               ELSE IF Len(s) = 1
                    THEN <<IF "HexOddLow" \in dev THEN HexVal(s[1]) ELSE HexVal(s[1]) * 16>>
               ELSE <<HexVal(s[1]) * 16 + HexVal(s[2])>> \o HexPairs(SubSeq(s, 3, Len(s)), dev)
HexWS(dev) == IF "HexNulEnds" \in dev THEN WS ELSE WS \cup {0}
StripHexWS(s, dev) == SelectSeq(s, LAMBDA b : b \notin HexWS(dev))

\* ------------------------------------------------------------------ state
S0 == [p |-> 0, e |-> 0, st |-> "main", cur |-> <<>>, curpos |-> 0, paren |-> 0,
       oct |-> <<>>, hex |-> <<>>, out |-> <<>>, phase |-> "run", err |-> "none", skiplf |-> FALSE]

Emit(s, k, v) == Append(s.out, [pos |-> s.curpos, k |-> k, v |-> v])

Refill(s, D, B) == [s EXCEPT !.p = s.e, !.e = Min(s.e + B, Len(D))]

SMain(s, D) ==
  LET j == FirstNot(D, s.p, s.e, WS) IN
  IF j = s.e THEN [s EXCEPT !.p = s.e]
  ELSE LET c == D[j + 1]
           b == [s EXCEPT !.p = j + 1, !.curpos = j] IN
       CASE c = 37 -> [b EXCEPT !.st = "comment", !.cur = <<37>>]
         [] c = 47 -> [b EXCEPT !.st = "literal", !.cur = <<>>]
         [] c \in {45, 43} \cup DIGIT -> [b EXCEPT !.st = "number", !.cur = <<c>>]
         [] c = 46 -> [b EXCEPT !.st = "float", !.cur = <<c>>]
         [] c \in ALPHA -> [b EXCEPT !.st = "keyword", !.cur = <<c>>]
         [] c = 40 -> [b EXCEPT !.st = "string", !.cur = <<>>, !.paren = 1]
         [] c = 60 -> [b EXCEPT !.st = "wopen", !.cur = <<>>]
         [] c = 62 -> [b EXCEPT !.st = "wclose", !.cur = <<>>]
         [] c = 0 -> b
         [] OTHER -> [b EXCEPT !.out = Append(s.out, [pos |-> j, k |-> "kw", v |-> <<c>>])]

SComment(s, D) ==
  LET j == First(D, s.p, s.e, EOLS) IN
  [s EXCEPT !.cur = s.cur \o Slice(D, s.p, j), !.p = j,
            !.st = IF j = s.e THEN "comment" ELSE "main"]

SLiteral(s, D, dev) ==
  LET j == First(D, s.p, s.e, EndLit(dev))
      t == s.cur \o Slice(D, s.p, j) IN
  IF j = s.e THEN [s EXCEPT !.cur = t, !.p = j]
  ELSE IF D[j + 1] = 35
       THEN [s EXCEPT !.cur = t, !.hex = <<>>, !.st = "lithex", !.p = j + 1]
       ELSE [s EXCEPT !.cur = t, !.p = j, !.st = "main", !.out = Emit(s, "lit", t)]

SLitHex(s, D) ==
  LET c == D[s.p + 1] IN
  IF c \in HEXD /\ Len(s.hex) < 2
  THEN [s EXCEPT !.hex = Append(s.hex, c), !.p = s.p + 1]
  ELSE [s EXCEPT !.cur = IF s.hex # <<>> THEN Append(s.cur, HexNum(s.hex)) ELSE s.cur,
                 !.st = "literal"]

SNumber(s, D) ==
  LET j == FirstNot(D, s.p, s.e, DIGIT)
      t == s.cur \o Slice(D, s.p, j) IN
  IF j = s.e THEN [s EXCEPT !.cur = t, !.p = j]
  ELSE IF D[j + 1] = 46
       THEN [s EXCEPT !.cur = Append(t, 46), !.st = "float", !.p = j + 1]
       ELSE [s EXCEPT !.cur = t, !.st = "main", !.p = j,
                      !.out = IF HasDigit(t) THEN Emit(s, "int", t) ELSE s.out]

SFloat(s, D) ==
  LET j == FirstNot(D, s.p, s.e, DIGIT)
      t == s.cur \o Slice(D, s.p, j) IN
  IF j = s.e THEN [s EXCEPT !.cur = t, !.p = j]
  ELSE [s EXCEPT !.cur = t, !.st = "main", !.p = j,
                 !.out = IF HasDigit(t) THEN Emit(s, "real", t) ELSE s.out]

SKeyword(s, D, dev) ==
  LET j == First(D, s.p, s.e, EndLit(dev))
      t == s.cur \o Slice(D, s.p, j) IN
  IF j = s.e THEN [s EXCEPT !.cur = t, !.p = j]
  ELSE [s EXCEPT !.cur = t, !.st = "main", !.p = j, !.out = Emit(s, "kw", t)]

SString(s, D, dev) ==
  IF s.skiplf /\ D[s.p + 1] = 10
  THEN \* LF completing a CR LF pair whose CR was the last byte of the previous buffer
       [s EXCEPT !.p = s.p + 1, !.skiplf = FALSE]
  ELSE
  LET stops == IF "RawEOLKept" \in dev THEN {40, 41, 92} ELSE {40, 41, 92, 13}
      j == First(D, s.p, s.e, stops)
      t == s.cur \o Slice(D, s.p, j)
      b == [s EXCEPT !.skiplf = FALSE] IN
  IF j = s.e THEN [b EXCEPT !.cur = t, !.p = j]
  ELSE LET c == D[j + 1] IN
    CASE c = 92 -> [b EXCEPT !.cur = t, !.oct = <<>>, !.st = "string1", !.p = j + 1]
      [] c = 40 -> [b EXCEPT !.cur = Append(t, 40), !.paren = s.paren + 1, !.p = j + 1]
      [] c = 41 /\ s.paren > 1 -> [b EXCEPT !.cur = Append(t, 41), !.paren = s.paren - 1, !.p = j + 1]
      [] c = 41 -> [b EXCEPT !.cur = t, !.paren = s.paren - 1, !.st = "main", !.p = j + 1,
                             !.out = Emit(s, "str", t)]
      [] OTHER -> \* raw CR (intended design only): becomes LF; a following LF is swallowed
                  [b EXCEPT !.cur = Append(t, 10), !.p = j + 1, !.skiplf = TRUE]

SString1(s, D, dev) ==
  LET c == D[s.p + 1] IN
  IF c \in OCTD /\ Len(s.oct) < 3
  THEN [s EXCEPT !.oct = Append(s.oct, c), !.p = s.p + 1]
  ELSE IF s.oct # <<>>
  THEN IF OctNum(s.oct) < 256 \/ "OctAssert" \notin dev
       THEN [s EXCEPT !.cur = Append(s.cur, OctNum(s.oct) % 256), !.st = "string"]
       ELSE [s EXCEPT !.err = "AssertionError"]
  ELSE IF c \in ESCS
  THEN [s EXCEPT !.cur = Append(s.cur, EscVal(c)), !.st = "string", !.p = s.p + 1]
  ELSE IF c = 13
  THEN IF s.p + 1 < s.e \/ "CRLFInBuf" \in dev
       THEN \* look-ahead for the LF inside the current buffer
            [s EXCEPT !.st = "string",
                      !.p = IF s.p + 1 < s.e /\ D[s.p + 2] = 10 THEN s.p + 2 ELSE s.p + 1]
       ELSE \* CR is the last byte of the buffer: the LF is looked for after the refill
            [s EXCEPT !.st = "stringlf", !.p = s.p + 1]
  ELSE IF c = 10 \/ "EscCharDropped" \in dev
  THEN [s EXCEPT !.st = "string", !.p = s.p + 1]                 \* `\ LF`: a line continuation
  ELSE [s EXCEPT !.cur = Append(s.cur, c), !.st = "string", !.p = s.p + 1]   \* the backslash is ignored, the character stays

\* _parse_string_lf: the LF of a `\ CR LF` continuation split across buffers
SStringLF(s, D) ==
  [s EXCEPT !.st = "string", !.p = IF D[s.p + 1] = 10 THEN s.p + 1 ELSE s.p]

SWOpen(s, D) ==
  IF D[s.p + 1] = 60
  THEN [s EXCEPT !.out = Emit(s, "kw", <<60, 60>>), !.st = "main", !.p = s.p + 1]
  ELSE [s EXCEPT !.st = "hexstr"]

SWClose(s, D) ==
  IF D[s.p + 1] = 62
  THEN [s EXCEPT !.out = Emit(s, "kw", <<62, 62>>), !.st = "main", !.p = s.p + 1]
  ELSE [s EXCEPT !.st = "main"]

SHexStr(s, D, dev) ==
  LET j == FirstNot(D, s.p, s.e, HexWS(dev) \cup HEXD)
      t == s.cur \o Slice(D, s.p, j) IN
  IF j = s.e THEN [s EXCEPT !.cur = t, !.p = j]
  ELSE [s EXCEPT !.cur = t, !.st = "main", !.p = j,
                 !.out = Emit(s, "str", HexPairs(StripHexWS(t, dev), dev))]

\* end of input: nexttoken() feeds one LF to the current scanner, then reports EOF
Flush(s, dev) ==
  [s EXCEPT !.phase = "done",
     !.out = CASE s.st = "literal" -> Emit(s, "lit", s.cur)
               [] s.st = "lithex" /\ "LitHexEOFLost" \notin dev
                                   -> Emit(s, "lit", IF s.hex # <<>> THEN Append(s.cur, HexNum(s.hex)) ELSE s.cur)
               [] s.st = "number"  -> IF HasDigit(s.cur) THEN Emit(s, "int", s.cur) ELSE s.out
               [] s.st = "float"   -> IF HasDigit(s.cur) THEN Emit(s, "real", s.cur) ELSE s.out
               [] s.st = "keyword" -> Emit(s, "kw", s.cur)
               [] OTHER -> s.out,
     !.err = IF s.st = "string1" /\ s.oct # <<>> /\ OctNum(s.oct) >= 256 /\ "OctAssert" \in dev
             THEN "AssertionError" ELSE s.err]

Scan(s, D, dev) ==
  CASE s.st = "main"    -> SMain(s, D)
    [] s.st = "comment" -> SComment(s, D)
    [] s.st = "literal" -> SLiteral(s, D, dev)
    [] s.st = "lithex"  -> SLitHex(s, D)
    [] s.st = "number"  -> SNumber(s, D)
    [] s.st = "float"   -> SFloat(s, D)
    [] s.st = "keyword" -> SKeyword(s, D, dev)
    [] s.st = "string"  -> SString(s, D, dev)
    [] s.st = "string1" -> SString1(s, D, dev)
    [] s.st = "stringlf" -> SStringLF(s, D)
    [] s.st = "wopen"   -> SWOpen(s, D)
    [] s.st = "wclose"  -> SWClose(s, D)
    [] s.st = "hexstr"  -> SHexStr(s, D, dev)

Step(s, D, B, dev) ==
  IF s.p < s.e THEN Scan(s, D, dev)
  ELSE IF s.e < Len(D) THEN Refill(s, D, B)
  ELSE Flush(s, dev)

RECURSIVE Run(_, _, _, _)
Run(s, D, B, dev) == IF s.phase = "done" \/ s.err # "none" THEN s ELSE Run(Step(s, D, B, dev), D, B, dev)

\* the token sequence of D read with one unbounded buffer: the reference every buffer size must match
RefRun(D, dev) == Run(S0, D, Len(D) + 1, dev)
RefOut(D, dev) == RefRun(D, dev).out
=============================================================================
