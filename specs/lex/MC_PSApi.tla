---- MODULE MC_PSApi ----
EXTENDS PSApi
\* bytes that matter to the interplay of lines and tokens: both end-of-line bytes, white space, a regular character, a
\* digit, string brackets (end-of-line bytes inside a token), a comment (stops AT the end of line), a name
AlphaApi == {13, 10, 32, 97, 49, 40, 41, 37}
AlphaApiEsc == {13, 10, 40, 41, 92, 97}
AlphaApiDict == {13, 10, 60, 62, 47, 97, 49}
NoDev == {}
====
