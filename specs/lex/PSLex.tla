------------------------------- MODULE PSLex -------------------------------
(***************************************************************************)
(* C14: the tokenizer as a state machine over every input string and every *)
(* read-buffer size.  One action per scanner method / refill / EOF flush.  *)
(***************************************************************************)
EXTENDS PSLexOps, TLC, Json

CONSTANTS Alphabet,   \* byte values inputs are built from
          MaxLen,     \* inputs of length 0..MaxLen
          BufSizes,   \* read-buffer sizes
          Dev         \* deviations switched on (see PSLexOps)

VARIABLES data, B, s
vars == <<data, B, s>>

Strings(n) == UNION {[1..m -> Alphabet] : m \in 0..n}

Init == data \in Strings(MaxLen) /\ B \in BufSizes /\ s = S0

Running  == s.phase = "run" /\ s.err = "none"
CanScan  == Running /\ s.p < s.e
Do(f)    == s' = f /\ UNCHANGED <<data, B>>

ARefill   == Running /\ s.p >= s.e /\ s.e < Len(data) /\ Do(Refill(s, data, B))
AFlush    == Running /\ s.p >= s.e /\ s.e >= Len(data) /\ Do(Flush(s, Dev))
AMain     == CanScan /\ s.st = "main"    /\ Do(SMain(s, data))
AComment  == CanScan /\ s.st = "comment" /\ Do(SComment(s, data))
ALiteral  == CanScan /\ s.st = "literal" /\ Do(SLiteral(s, data, Dev))
ALitHex   == CanScan /\ s.st = "lithex"  /\ Do(SLitHex(s, data))
ANumber   == CanScan /\ s.st = "number"  /\ Do(SNumber(s, data))
AFloat    == CanScan /\ s.st = "float"   /\ Do(SFloat(s, data))
AKeyword  == CanScan /\ s.st = "keyword" /\ Do(SKeyword(s, data, Dev))
AString   == CanScan /\ s.st = "string"  /\ Do(SString(s, data, Dev))
AString1  == CanScan /\ s.st = "string1" /\ Do(SString1(s, data, Dev))
AStringLF == CanScan /\ s.st = "stringlf" /\ Do(SStringLF(s, data))
AWOpen    == CanScan /\ s.st = "wopen"   /\ Do(SWOpen(s, data))
AWClose   == CanScan /\ s.st = "wclose"  /\ Do(SWClose(s, data))
AHexStr   == CanScan /\ s.st = "hexstr"  /\ Do(SHexStr(s, data, Dev))

Next == ARefill \/ AFlush \/ AMain \/ AComment \/ ALiteral \/ ALitHex \/ ANumber \/ AFloat
        \/ AKeyword \/ AString \/ AString1 \/ AStringLF \/ AWOpen \/ AWClose \/ AHexStr

Spec == Init /\ [][Next]_vars

\* ------------------------------------------------------------------ C14
\* the tokenizer signals nothing but end of input
NoError == s.err = "none"

\* tokens lie inside the input at non-decreasing positions
PositionsOK ==
  /\ \A i \in 1..Len(s.out) : s.out[i].pos \in 0..Len(data)
  /\ \A i \in 1..(Len(s.out) - 1) : s.out[i].pos <= s.out[i + 1].pos

\* the token sequence is the one an unbounded buffer gives, hence the same for every buffer size
BufferIndependent == s.phase = "done" => s.out = RefOut(data, Dev)

\* termination: every step moves the read position forward, or refills, or keeps the position
\* while moving to a scanner of lower rank, or finishes
Rank(st) == CASE st = "main" -> 0
              [] st \in {"wopen", "wclose", "lithex", "string1", "stringlf"} -> 2
              [] OTHER -> 1
Progress == [][ \/ s'.phase = "done" \/ s'.err # "none"
                \/ s'.p > s.p
                \/ (s'.p = s.p /\ (Rank(s'.st) < Rank(s.st) \/ s'.e > s.e)) ]_vars

\* terminal states are printed for the replay into the real tokenizer
EmitTerminal ==
  (s.phase = "done" \/ s.err # "none") =>
     PrintT("@@" \o ToJson([d |-> data, b |-> B, o |-> s.out, e |-> s.err]))
=============================================================================
