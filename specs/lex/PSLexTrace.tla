----------------------------- MODULE PSLexTrace -----------------------------
(***************************************************************************)
(* Trace validation for the tokenizer (binding B): token sequences         *)
(* recorded from the real PSBaseParser on large inputs (at several         *)
(* BUFSIZ) must be exactly what the specification's machine produces on    *)
(* the same bytes.  The spec machine is stepped with a small buffer TB     *)
(* (PSLex.tla establishes that the buffer size is irrelevant); each        *)
(* recorded token must match the next token the machine emits.             *)
(* A rejected trace shows up as a deadlock whose last state names the      *)
(* trace (t) and the index of the first unexplained token (k+1).           *)
(***************************************************************************)
EXTENDS PSLexOps, TLC, Json, IOUtils

CONSTANTS Dev, TB

Traces == JsonDeserialize(IOEnv.TRACE_FILE)
N == Len(Traces)

VARIABLES t, s, k, lastpos
vars == <<t, s, k, lastpos>>

Init == t = 1 /\ s = S0 /\ k = 0 /\ lastpos = 0

Cur == Traces[t]

Internal == /\ t <= N /\ s.out = <<>> /\ s.phase = "run" /\ s.err = "none"
            /\ s' = Step(s, Cur.data, TB, Dev)
            /\ UNCHANGED <<t, k, lastpos>>

Match == /\ t <= N /\ s.out # <<>> /\ k < Len(Cur.toks)
         /\ LET m == Head(s.out)  r == Cur.toks[k + 1] IN
              /\ m.pos = r.pos /\ m.k = r.k /\ m.v = r.v /\ r.numok
              /\ r.pos >= lastpos /\ r.pos <= Len(Cur.data)
              /\ lastpos' = r.pos
         /\ k' = k + 1 /\ s' = [s EXCEPT !.out = Tail(@)] /\ UNCHANGED t

EndTrace == /\ t <= N /\ s.out = <<>> /\ s.phase = "done" /\ s.err = "none"
            /\ k = Len(Cur.toks) /\ Cur.err = "none"
            /\ t' = t + 1 /\ s' = S0 /\ k' = 0 /\ lastpos' = 0

Finished == t > N /\ UNCHANGED vars

Next == Internal \/ Match \/ EndTrace \/ Finished
Spec == Init /\ [][Next]_vars

\* evaluated in every state of every trace
ModelNoError == s.err = "none"
OneTokenPending == Len(s.out) <= 1
=============================================================================
