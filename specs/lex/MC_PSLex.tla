---- MODULE MC_PSLex ----
EXTENDS PSLex
\* one representative per lexical byte class
Alpha24 == {32, 0, 13, 10, 12, 37, 47, 35, 40, 41, 60, 62, 91, 92, 49, 56, 97, 98, 110, 120, 43, 46, 42, 128}
\* context sub-alphabets (interesting behaviours need 5-6 bytes inside one lexical context)
AlphaString == {32, 13, 10, 40, 41, 92, 49, 52, 48, 110}
AlphaHexName == {60, 62, 47, 35, 97, 49, 103, 32, 0, 10}
\* (101 = e: the letter exponent notation would use; PDF has no exponents: `1.5e3` is the real 1.5 and the keyword e3)
AlphaNumKw == {43, 45, 46, 49, 120, 101, 32, 47, 91, 37, 10}
AlphaComment == {37, 13, 10, 120, 32, 40}
AlphaEsc == {40, 41, 92, 13, 10, 120}
AlphaOct == {40, 41, 92, 49, 55, 56}
\* an octal escape next to raw end-of-line bytes and continuations
AlphaOctEol == {40, 41, 92, 49, 13, 10}
NoDev == {}
====
