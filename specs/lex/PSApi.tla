------------------------------- MODULE PSApi -------------------------------
(***************************************************************************)
(* PSBaseParser as an object with a call interface: seek(q), nexttoken()   *)
(* and nextline() in any order on one parser, for every input and every    *)
(* read-buffer size.  The scanner steps are those of PSLexOps (one per      *)
(* _parse_* method, refill, end-of-input flush); nextline() is a second     *)
(* machine over the same buffer window; seek() resets both.                 *)
(*                                                                         *)
(* What a caller relies on (PDFParser: seek + nextobject, `stream` keyword  *)
(* followed by nextline; PDFXRef.load: nextline then nexttoken; the         *)
(* fallback scan: nextline, seek back, nextobject):                         *)
(*   - the answer of a call depends on the input and on the read position   *)
(*     only - not on the buffer size, not on what was read before;          *)
(*   - after a call the read position is the one the reference reaches.     *)
(* The reference is the same machine with one buffer that holds the whole   *)
(* input (RefCall).                                                         *)
(***************************************************************************)
EXTENDS PSLexOps, TLC, Json

CONSTANTS Alphabet, MaxLen, BufSizes, Dev,
          MaxCalls      \* calls per behaviour

VARIABLES data, B, s,   \* as in PSLex: input, buffer size, scanner state (s.p read position, s.e end of the buffer window)
          eof,          \* PSBaseParser.eof
          call,         \* the call in progress: [k |-> "idle" | "tok" | "line", p0, acc, eol]
          log           \* completed calls with their answers: [k, q, p0, r, pos, tk (token kind), v (bytes), p1]
vars == <<data, B, s, eof, call, log>>

Strings(n) == UNION {[1..m -> Alphabet] : m \in 0..n}
Idle == [k |-> "idle", p0 |-> 0, acc |-> <<>>, eol |-> FALSE]

\* seek(q): the window is emptied at q, the scanner goes back to its initial state, eof is cleared
Sought(q) == [S0 EXCEPT !.p = q, !.e = q]

Init == /\ data \in Strings(MaxLen) /\ B \in BufSizes
        /\ s = S0 /\ eof = FALSE /\ call = Idle /\ log = <<>>

CanCall == call.k = "idle" /\ Len(log) < MaxCalls /\ s.err = "none"

Answer(k, q, p0, r, pos, tk, v, p1) == [k |-> k, q |-> q, p0 |-> p0, r |-> r, pos |-> pos, tk |-> tk, v |-> v, p1 |-> p1]

\* ---------------------------------------------------------------- seek
CallSeek == /\ CanCall
            /\ \E q \in 0..Len(data) :
                 /\ s' = Sought(q) /\ eof' = FALSE
                 /\ log' = Append(log, Answer("seek", q, s.p, "ok", 0, "", <<>>, q))
            /\ UNCHANGED <<data, B, call>>

\* ---------------------------------------------------------------- nexttoken
CallTok == /\ CanCall
           /\ IF eof
              THEN /\ log' = Append(log, Answer("tok", 0, s.p, "PSEOF", 0, "", <<>>, s.p))
                   /\ UNCHANGED <<s, eof, call>>
              ELSE /\ call' = [Idle EXCEPT !.k = "tok", !.p0 = s.p]
                   /\ UNCHANGED <<s, eof, log>>
           /\ UNCHANGED <<data, B>>

\* one pass of `while not self._tokens:` - fillbuf, then the current scanner; at end of input the flush
TokStep == /\ call.k = "tok" /\ s.out = <<>> /\ s.err = "none" /\ s.phase = "run"
           /\ s' = Step(s, data, B, Dev)
           /\ UNCHANGED <<data, B, eof, call, log>>

TokReturn == /\ call.k = "tok"
             /\ \/ /\ s.out # <<>>                                    \* a token is ready: hand it out
                   /\ log' = Append(log, Answer("tok", 0, call.p0, "token", s.out[1].pos, s.out[1].k, s.out[1].v, s.p))
                   /\ s' = [s EXCEPT !.out = Tail(s.out), !.phase = "run"]
                   /\ eof' = (eof \/ s.phase = "done")
                \/ /\ s.out = <<>> /\ s.phase = "done" /\ s.err = "none"  \* flushed and nothing came out: PSEOF
                   /\ log' = Append(log, Answer("tok", 0, call.p0, "PSEOF", 0, "", <<>>, s.p))
                   /\ s' = [s EXCEPT !.phase = "run"]
                   /\ eof' = TRUE
                \/ /\ s.err # "none"                                   \* a deviation of the scanner raised
                   /\ log' = Append(log, Answer("tok", 0, call.p0, s.err, 0, "", <<>>, s.p))
                   /\ UNCHANGED <<s, eof>>
             /\ call' = Idle
             /\ UNCHANGED <<data, B>>

\* ---------------------------------------------------------------- nextline
CallLine == /\ CanCall
            /\ call' = [Idle EXCEPT !.k = "line", !.p0 = s.p]
            /\ UNCHANGED <<data, B, s, eof, log>>

\* fillbuf() at the head of every pass of nextline's loop
LineRefill == /\ call.k = "line" /\ s.p >= s.e /\ s.e < Len(data)
              /\ s' = Refill(s, data, B)
              /\ UNCHANGED <<data, B, eof, call, log>>
\* ... which raises PSEOF at the end of the input: the bytes gathered so far are not handed out
LineEOF == /\ call.k = "line" /\ s.p >= s.e /\ s.e >= Len(data)
           /\ log' = Append(log, Answer("line", 0, call.p0, "PSEOF", 0, "", <<>>, s.p))
           /\ call' = Idle
           /\ UNCHANGED <<data, B, s, eof>>
LineScan == /\ call.k = "line" /\ s.p < s.e
            /\ IF call.eol
               THEN \* the byte after a CR: an LF belongs to the line
                    LET lf == data[s.p + 1] = 10
                        acc == IF lf THEN Append(call.acc, 10) ELSE call.acc
                        p1 == IF lf THEN s.p + 1 ELSE s.p IN
                    /\ log' = Append(log, Answer("line", 0, call.p0, "line", call.p0, "", acc, p1))
                    /\ s' = [s EXCEPT !.p = p1]
                    /\ call' = Idle
               ELSE LET j == First(data, s.p, s.e, EOLS) IN
                    IF j = s.e
                    THEN /\ call' = [call EXCEPT !.acc = call.acc \o Slice(data, s.p, j)]
                         /\ s' = [s EXCEPT !.p = j]
                         /\ UNCHANGED log
                    ELSE LET acc == call.acc \o Slice(data, s.p, j + 1) IN
                         IF data[j + 1] = 13
                         THEN /\ call' = [call EXCEPT !.acc = acc, !.eol = TRUE]
                              /\ s' = [s EXCEPT !.p = j + 1]
                              /\ UNCHANGED log
                         ELSE /\ log' = Append(log, Answer("line", 0, call.p0, "line", call.p0, "", acc, j + 1))
                              /\ s' = [s EXCEPT !.p = j + 1]
                              /\ call' = Idle
            /\ UNCHANGED <<data, B, eof>>

Next == CallSeek \/ CallTok \/ TokStep \/ TokReturn \/ CallLine \/ LineRefill \/ LineEOF \/ LineScan
Spec == Init /\ [][Next]_vars

\* ------------------------------------------------------------------ reference: one buffer holding the whole input
RECURSIVE RunTok(_, _)
RunTok(t, D) == IF t.out # <<>> \/ t.phase = "done" \/ t.err # "none" THEN t ELSE RunTok(Step(t, D, Len(D) + 1, Dev), D)
\* the line starting at p: <<found, bytes, position after it>>
RefLine(D, p) ==
  LET j == First(D, p, Len(D), EOLS) IN
  IF j = Len(D) THEN <<FALSE, <<>>, Len(D)>>
  ELSE IF D[j + 1] = 10 THEN <<TRUE, Slice(D, p, j + 1), j + 1>>
  ELSE IF j + 1 = Len(D) THEN <<FALSE, <<>>, Len(D)>>          \* a CR as the very last byte: LF may still follow - not a line yet
  ELSE IF D[j + 2] = 10 THEN <<TRUE, Slice(D, p, j + 2), j + 2>>
  ELSE <<TRUE, Slice(D, p, j + 1), j + 1>>

\* every logged answer is the reference's answer for (input, position at the call, eof at the call)
AnswerOK(a, D, eofBefore) ==
  CASE a.k = "seek" -> a.p1 = a.q
    [] a.k = "line" -> LET r == RefLine(D, a.p0) IN
                       IF r[1] THEN a.r = "line" /\ a.v = r[2] /\ a.p1 = r[3] /\ a.pos = a.p0
                       ELSE a.r = "PSEOF" /\ a.p1 = Len(D)
    [] a.k = "tok"  -> IF eofBefore THEN a.r = "PSEOF"
                       ELSE LET t == RunTok(Sought(a.p0), D) IN
                            IF t.err # "none" THEN a.r = t.err
                            ELSE IF t.out = <<>> THEN a.r = "PSEOF"
                            ELSE a.r = "token" /\ a.pos = t.out[1].pos /\ a.tk = t.out[1].k /\ a.v = t.out[1].v /\ a.p1 = t.p

\* eof as it stood before the i-th logged call: set by a token call that reached the end, cleared by seek
RECURSIVE EofAfter(_, _)
EofAfter(lg, D) ==
  IF lg = <<>> THEN FALSE
  ELSE LET a == lg[Len(lg)]
           before == EofAfter(SubSeq(lg, 1, Len(lg) - 1), D) IN
       CASE a.k = "seek" -> FALSE
         [] a.k = "line" -> before
         [] a.k = "tok"  -> before \/ a.r = "PSEOF" \/ (a.r = "token" /\ RunTok(Sought(a.p0), D).phase = "done")

\* history and buffer independence of every call (checked when a call completes, i.e. on the last entry)
CallsAgreeWithReference ==
  log # <<>> => AnswerOK(log[Len(log)], data, EofAfter(SubSeq(log, 1, Len(log) - 1), data))

\* the read position never leaves the input and a call never moves it backwards (seek excepted)
PositionSane == /\ s.p \in 0..Len(data) /\ s.e \in 0..Len(data)
                /\ \A i \in 1..Len(log) : log[i].k # "seek" => log[i].p1 >= log[i].p0
\* lines tile the input: a line starts where the call started and ends at an end-of-line marker
LineShape == \A i \in 1..Len(log) :
               (log[i].k = "line" /\ log[i].r = "line") =>
                  /\ log[i].v = Slice(data, log[i].p0, log[i].p1)
                  /\ log[i].v # <<>> /\ log[i].v[Len(log[i].v)] \in EOLS

\* every call in progress completes: each step moves the read position forward, or refills, or keeps the position while
\* moving to a scanner of lower rank, or ends the call
Rank(st) == CASE st = "main" -> 0
              [] st \in {"wopen", "wclose", "lithex", "string1", "stringlf"} -> 2
              [] OTHER -> 1
CallProgress == [][ (call.k # "idle" /\ call'.k = call.k) =>
                       \/ s'.p > s.p \/ s'.e > s.e \/ s'.phase = "done" \/ s'.err # "none"
                       \/ (s'.p = s.p /\ Rank(s'.st) < Rank(s.st)) ]_vars

Terminal == call.k = "idle" /\ (Len(log) = MaxCalls \/ s.err # "none")
EmitTerminal == Terminal => PrintT("@@" \o ToJson([d |-> data, b |-> B, log |-> log]))
=============================================================================
