------------------------------ MODULE ImageOps ------------------------------
(***************************************************************************)
(* C18: operators shared by ImageExport.tla (the exporter as a machine)    *)
(* and ImageTrace.tla (recorded export runs): image descriptors, the       *)
(* decision tree of export_image, file naming, BMP geometry and row        *)
(* layout, and a BMP reader written from the file format description.      *)
(***************************************************************************)
EXTENDS Integers, Sequences, FiniteSets, TLC

\* image descriptor: XObject name, filter chain, LTImage.bits, colour space ("G" | "RGB" | "CMYK" | "other"), geometry;
\* pk names the pixel kind: "bw" (1 bit gray), "gray" (8 bit gray), "rgb" (8 bit RGB), "cmyk", "other"
PkBits(pk) == IF pk = "bw" THEN 1 ELSE 8
PkCS(pk) == CASE pk \in {"bw", "gray"} -> "G" [] pk = "rgb" -> "RGB" [] pk = "cmyk" -> "CMYK" [] OTHER -> "other"
\* sp = <<filter, parms, colour space, geometry>>: how the stream dictionary spells its entries
\*   filter   "name" | "abbr" | "arr1" (always an array) | "indirect" (/Filter n 0 R) | "arrind" (array of n 0 R)
\*   parms    "direct" | "indirect" | "arr";   colour space "name" | "indirect" | "array";   geometry (W, H, BPC) "direct" | "indirect"
PlainSpelling == <<"name", "direct", "name", "direct">>
ImgS(n, ch, pk, g, sp) == [name |-> n, filters |-> ch, pk |-> pk, bits |-> PkBits(pk), cs |-> PkCS(pk), w |-> g[1], h |-> g[2], sp |-> sp]
Img(n, ch, pk, g) == ImgS(n, ch, pk, g, PlainSpelling)
BmpBits(pk) == CASE pk = "bw" -> 1 [] pk = "gray" -> 8 [] pk = "rgb" -> 24 [] OTHER -> 0
BytesPerLine(im) == CASE im.pk = "bw" -> (im.w + 7) \div 8 [] im.pk = "gray" -> im.w [] im.pk = "rgb" -> im.w * 3 [] OTHER -> im.w * 4
DataLen(im) == BytesPerLine(im) * im.h
\* the q-th byte (from 0) of the decoded image data.  Small images: 3q+1 (any displacement is visible).  Larger images:
\* noise-like bytes (even width: an LZW encoder fills its table and emits a clear-table code in mid-stream; RunLength
\* literal runs exceed 128) or long runs of equal bytes (odd width: RunLength runs exceed 128).
Sample(im, q) == IF im.w * im.h <= 25 THEN 3 * q + 1
                 ELSE IF im.w % 2 = 0 THEN ((q * q + 7 * q + 11) % 65521) % 256
                 ELSE ((q \div 150) * 37 + 5) % 256
RowData(im, row) == [q \in 1..BytesPerLine(im) |-> Sample(im, row * BytesPerLine(im) + q - 1)]
Blob(im) == [q \in 1..DataLen(im) |-> Sample(im, q - 1)]

\* ------------------------------------------------------------------ export_image: the decision tree
\* FlatePNG / FlateTIFF / LZWPNG / LZWTIFF: the two filters that take DecodeParms, with a PNG (10..15) or TIFF (2) predictor
PredictorFilters == {"FlatePNG", "FlateTIFF", "LZWPNG", "LZWTIFF"}
FlateFamily == {"Flate", "FlatePNG", "FlateTIFF"}
\* LZWE0 / LZWE1: LZWDecode with /EarlyChange 0 / 1 written out (plain LZW: absent, i.e. 1)
LZWFamily == {"LZW", "LZWE0", "LZWE1", "LZWPNG", "LZWTIFF"}
Lossless == {"Flate", "LZW", "LZWE0", "LZWE1", "A85", "AHx", "RL"} \cup PredictorFilters
LastFilter(im) == IF im.filters = <<>> THEN "none" ELSE im.filters[Len(im.filters)]
HasJBIG2(im) == \E q \in 1..Len(im.filters) : im.filters[q] = "JBIG2"
\* what the decision tree sees.  The spelling of the dictionary must not matter; as deviations:
\*   "FilterEntryUnresolved" the last filter is read off the /Filter entry itself: an indirect entry or element is not a name
\*                           (a seeded change)
\*   "ColorSpaceUnresolved"  LTImage.colorspace keeps an indirect /ColorSpace as a reference: neither gray nor RGB
\*   "GeometryUnresolved"    LTImage.srcsize / bits keep indirect /Width /Height /BitsPerComponent as references: bits is
\*                           neither 1 nor 8 and the writers fail on them with TypeError
LastSeen(im, dv) == IF "FilterEntryUnresolved" \in dv /\ im.sp[1] \in {"indirect", "arrind"} THEN "unresolved" ELSE LastFilter(im)
SeenCS(im, dv) == IF "ColorSpaceUnresolved" \in dv /\ im.sp[3] = "indirect" THEN "other" ELSE im.cs
Decide(im, dv) ==
  IF im.filters = <<>> /\ "UnfilteredIndexError" \in dv THEN "IndexError"
  ELSE IF LastSeen(im, dv) = "DCT" THEN "jpeg"
  ELSE IF LastSeen(im, dv) = "JPX" THEN "jp2"
  ELSE IF HasJBIG2(im) THEN "jbig2"
  ELSE IF "GeometryUnresolved" \in dv /\ im.sp[4] = "indirect" THEN "TypeError"
  ELSE IF im.bits = 1 THEN "bmp"
  ELSE IF im.bits = 8 /\ SeenCS(im, dv) = "RGB" THEN "bmp"
  ELSE IF im.bits = 8 /\ SeenCS(im, dv) = "G" THEN "bmp"
  ELSE IF Len(im.filters) = 1 /\ im.filters[1] \in FlateFamily THEN "bytes"
  ELSE "raw"
Ext(im, d) == CASE d = "jpeg" -> ".jpg" [] d = "jp2" -> ".jp2" [] d = "jbig2" -> ".jb2" [] d = "bmp" -> ".bmp" [] d = "bytes" -> ".jpg"
                [] d = "raw" -> "." \o ToString(im.bits) \o "." \o ToString(im.w) \o "x" \o ToString(im.h) \o ".img"

\* ------------------------------------------------------------------ files
LE16(n) == <<n % 256, (n \div 256) % 256>>
LE32(n) == <<n % 256, (n \div 256) % 256, (n \div 65536) % 256, (n \div 16777216) % 256>>
Zeros(n) == [q \in 1..n |-> 0]
\* fp.write(bytes) at offset `at`
WriteAt(f, at, bytes) ==
  LET padded == IF at > Len(f) THEN f \o Zeros(at - Len(f)) ELSE f
      endp == at + Len(bytes) IN
  SubSeq(padded, 1, at) \o bytes \o (IF endp < Len(padded) THEN SubSeq(padded, endp + 1, Len(padded)) ELSE <<>>)
\* ------------------------------------------------------------------ BMPWriter
Align32(x) == ((x + 3) \div 4) * 4
NCols(bits) == CASE bits = 1 -> 2 [] bits = 8 -> 256 [] OTHER -> 0
LineSize(im) == Align32((im.w * BmpBits(im.pk) + 7) \div 8)
DataSize(im) == LineSize(im) * im.h
HeaderSize(im) == 14 + 40 + NCols(BmpBits(im.pk)) * 4
Pos1(im) == HeaderSize(im) + DataSize(im)

\* colour table: (0, 255) for 1 bit, 0..255 for 8 bits; struct.pack("BBBx", i, i, i)
PalValue(bits, q) == IF bits = 1 THEN (IF q = 0 THEN 0 ELSE 255) ELSE q
SwapRB(row) == [q \in 1..Len(row) |-> CASE q % 3 = 1 -> row[q + 2] [] q % 3 = 0 -> row[q - 2] [] OTHER -> row[q]]
LineBytes(im, row, dv) ==
  LET raw == RowData(im, row)
      ordered == IF im.pk = "rgb" /\ "RowsRGB" \notin dv THEN SwapRB(raw) ELSE raw IN
  IF "ShortLastRow" \in dv THEN ordered ELSE ordered \o Zeros(LineSize(im) - Len(ordered))
\* ------------------------------------------------------------------ a reader written from the BMP specification
U16(f, at) == f[at + 1] + 256 * f[at + 2]
U32(f, at) == f[at + 1] + 256 * f[at + 2] + 65536 * f[at + 3] + 16777216 * f[at + 4]       \* offset `at` from 0
Stride(w, bits) == ((w * bits + 31) \div 32) * 4
BmpW(f) == U32(f, 18)   BmpH(f) == U32(f, 22)   BmpBitCount(f) == U16(f, 28)   BmpOff(f) == U32(f, 10)
BmpColours(f) == IF BmpBitCount(f) > 8 THEN 0 ELSE IF U32(f, 46) = 0 THEN 2 ^ BmpBitCount(f) ELSE U32(f, 46)
\* BITMAPFILEHEADER + BITMAPINFOHEADER, uncompressed, bottom-up, every byte of the pixel array present
BmpValid(f) ==
  /\ Len(f) >= 54 /\ f[1] = 66 /\ f[2] = 77
  /\ U32(f, 14) = 40 /\ U16(f, 26) = 1 /\ U32(f, 30) = 0
  /\ BmpBitCount(f) \in {1, 8, 24} /\ BmpW(f) > 0 /\ BmpH(f) > 0
  /\ BmpOff(f) >= 54 + 4 * BmpColours(f)
  /\ Len(f) >= BmpOff(f) + Stride(BmpW(f), BmpBitCount(f)) * BmpH(f)
  /\ U32(f, 2) = Len(f)                                              \* bfSize is the size of the file
  /\ U32(f, 34) \in {0, Stride(BmpW(f), BmpBitCount(f)) * BmpH(f)}   \* biSizeImage
PalRGB(f, q) == <<f[54 + 4 * q + 3], f[54 + 4 * q + 2], f[54 + 4 * q + 1]>>      \* entries are B, G, R, 0
BitOf(byte, b) == (byte \div (2 ^ (7 - b))) % 2                                   \* most significant bit first
\* colour <<r, g, b>> of the pixel in column x of row yy counted from the top
BmpPixel(f, x, yy) ==
  LET bits == BmpBitCount(f)
      rowAt == BmpOff(f) + (BmpH(f) - 1 - yy) * Stride(BmpW(f), bits) IN
  CASE bits = 24 -> <<f[rowAt + 3 * x + 3], f[rowAt + 3 * x + 2], f[rowAt + 3 * x + 1]>>
    [] bits = 8 -> PalRGB(f, f[rowAt + x + 1])
    [] bits = 1 -> PalRGB(f, BitOf(f[rowAt + (x \div 8) + 1], x % 8))
\* what PDF means by the stored samples (DeviceGray / DeviceRGB, default Decode)
PdfPixel(im, x, yy) ==
  LET base == yy * BytesPerLine(im) IN
  CASE im.pk = "rgb" -> <<Sample(im, base + 3 * x), Sample(im, base + 3 * x + 1), Sample(im, base + 3 * x + 2)>>
    [] im.pk = "gray" -> <<Sample(im, base + x), Sample(im, base + x), Sample(im, base + x)>>
    [] im.pk = "bw" -> LET b == BitOf(Sample(im, base + (x \div 8)), x % 8) IN <<255 * b, 255 * b, 255 * b>>


\* _create_unique_image_name: name + ext, then name.0ext, name.1ext, ... - the first that does not exist
Candidate(im, d, n) == IF n < 0 THEN im.name \o Ext(im, d) ELSE im.name \o "." \o ToString(n) \o Ext(im, d)
UniqueName(im, d, dir) == LET free == {n \in (-1)..Cardinality(dir) : Candidate(im, d, n) \notin dir} IN
                          Candidate(im, d, CHOOSE n \in free : \A m \in free : n <= m)
=============================================================================
