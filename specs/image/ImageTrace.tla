----------------------------- MODULE ImageTrace -----------------------------
(***************************************************************************)
(* C18, binding B: export runs of the real ImageWriter over documents.     *)
(* A trace is one run of extract_text_to_fp(output_dir=...) : the files    *)
(* already in the directory and one event per export_image call            *)
(*   [name, filters, bits, cs, w, h,     the image as LTImage shows it     *)
(*    dec,                               which writer ran ("IndexError" if *)
(*                                       export_image raised it)           *)
(*    fname,                             the file name returned            *)
(*    bw, bh, bbits, linesize, datasize, pos0, lines, flen, datalen]       *)
(*                                       BMPWriter fields; write_line      *)
(*                                       calls as <<y, offset, length>>;   *)
(*                                       final file length                 *)
(* Each event must be the step the exporter specification takes on that    *)
(* image in that directory.  A rejected trace is a deadlock whose last     *)
(* state names the trace (t) and the event (k).                            *)
(***************************************************************************)
EXTENDS ImageOps, Json, IOUtils

CONSTANT Dev

Traces == JsonDeserialize(IOEnv.TRACE_FILE)
NT == Len(Traces)

VARIABLES t, k, dir
vars == <<t, k, dir>>

ToSet(s) == {s[q] : q \in 1..Len(s)}
Init == t = 1 /\ k = 1 /\ dir = IF NT >= 1 THEN ToSet(Traces[1].dir) ELSE {}

Cur == Traces[t]
E == Cur.ev[k]
\* the descriptor the decision tree looks at
ImOf(ev) == [sp |-> PlainSpelling, name |-> ev.name, filters |-> ev.filters, bits |-> ev.bits, cs |-> ev.cs, w |-> ev.w, h |-> ev.h,
             pk |-> IF ev.bits = 1 THEN "bw" ELSE IF ev.bits = 8 /\ ev.cs = "RGB" THEN "rgb" ELSE IF ev.bits = 8 /\ ev.cs = "G" THEN "gray" ELSE "other"]

\* BMPWriter as recorded: geometry, header position, one seek+write per row, top row first
BmpOK(ev, im) ==
  LET bpl == BytesPerLine(im)
      short == "ShortLastRow" \in Dev
      full == ev.datalen >= bpl * im.h IN        \* the stream holds every row (it does not for e.g. Indexed colour spaces)
  /\ ev.bw = im.w /\ ev.bh = im.h /\ ev.bbits = BmpBits(im.pk)
  /\ ev.linesize = LineSize(im) /\ ev.datasize = DataSize(im) /\ ev.pos0 = HeaderSize(im)
  /\ Len(ev.lines) = im.h
  /\ \A q \in 1..im.h :
        /\ ev.lines[q][1] = q - 1
        /\ ev.lines[q][2] = Pos1(im) - q * LineSize(im)
        /\ (full => ev.lines[q][3] = IF short THEN bpl ELSE LineSize(im))
  /\ (full => ev.flen = IF short THEN Pos1(im) - (LineSize(im) - bpl) ELSE Pos1(im))

Export == /\ t <= NT /\ k <= Len(Cur.ev)
          /\ LET im == ImOf(E)
                 d == Decide(im, Dev) IN
             /\ (E.dec = d) = TRUE
             /\ IF d = "IndexError" THEN UNCHANGED dir
                ELSE /\ (E.fname = UniqueName(im, d, dir)) = TRUE
                     /\ E.fname \notin dir                                   \* nothing is overwritten
                     /\ (d = "bmp" => BmpOK(E, im)) = TRUE
                     /\ dir' = dir \cup {E.fname}
          /\ k' = k + 1 /\ UNCHANGED t
EndTrace == /\ t <= NT /\ k > Len(Cur.ev)
            /\ t' = t + 1 /\ k' = 1 /\ dir' = IF t + 1 <= NT THEN ToSet(Traces[t + 1].dir) ELSE {}
Finished == t > NT /\ UNCHANGED vars
Next == Export \/ EndTrace \/ Finished
Spec == Init /\ [][Next]_vars

\* evaluated in every state: the names handed out so far in this run are distinct and all in the directory
NamesDistinct == t <= NT =>
  LET given == [q \in 1..(k - 1) |-> Cur.ev[q].fname] IN
  \A a, b \in 1..(k - 1) : (a # b /\ Cur.ev[a].dec # "IndexError" /\ Cur.ev[b].dec # "IndexError") => given[a] # given[b]
=============================================================================
