----------------------------- MODULE InlineScan -----------------------------
(***************************************************************************)
(* C18 (second half): inline images in content streams.                    *)
(* PDFContentParser.do_keyword (BI ... ID) and get_inline_data as a        *)
(* machine on top of the tokenizer of PSLexOps.tla (extended, not          *)
(* modified: the tokens of the BI dictionary and of the operators after    *)
(* EI are PSLexOps tokens).                                                *)
(*                                                                         *)
(* Content = Pre(dk) SP data Term(dk, style) foll, optionally divided into *)
(* two streams of a /Contents array at `cut`.                              *)
(*   dict phase   ADictTok  one token of the BI dictionary is pushed       *)
(*                AArrOpen / AArrClose   [ ... ] inside the dictionary     *)
(*                AID       the ID keyword: end_type("inline"), choplist,  *)
(*                          the ASCII85 special case chooses the end       *)
(*                          marker, seek(pos + 3)                          *)
(*   scan phase   AMRefill  fillbuf(): next <= B bytes of the current      *)
(*                          stream, or the next stream, or PSEOF           *)
(*                AMFind    i = 0: buf.index(target[0]) in the buffer      *)
(*                AMChar    i > 0: one byte, advance / restart             *)
(*                AMFinish  i > len(target): strip the marker, strip the   *)
(*                          trailing EOL, push the stream (and EI)         *)
(*                AMEof     PSEOF while scanning                           *)
(*   resume       AResume   tokenising continues behind the marker         *)
(*                                                                         *)
(* dev - named deviations of the code from the intended design:            *)
(*   "NoRestart"     a mismatching byte resets i to 0 even when it is      *)
(*                   itself the first byte of the marker (`..EEI `)        *)
(*   "DollarNewline" the trailing-EOL pattern ends in `$`, which in Python *)
(*                   also matches before a final LF: two EOLs are removed  *)
(*   "CRLFUnit"      CR LF before the marker is removed as a unit          *)
(*   "EOFNotDelim"   the marker at the very end of the content is not      *)
(*                   recognised (PSEOF inside the matcher): the image and  *)
(*                   everything behind it is lost                          *)
(*   "IDSkipsCRLF"   ID + CR + data beginning with LF: the LF is skipped   *)
(*                   with the CR as if it were an end-of-line pair (not in *)
(*                   the code; a seeded change)                            *)
(*   "BareNameNoFilter" /F /A85 (a name, not an array) is taken for "no    *)
(*                   filter": the ASCII85 end marker ~> is not used and    *)
(*                   ASCII85 text holding EI + white space is cut there    *)
(*                   (not in the code; a seeded change)                    *)
(*   "CumulativeBufpos" token positions are accumulated over the streams   *)
(*                   of a /Contents array instead of restarting with each  *)
(*                   stream: seek(pos + 3) lands sum(len(earlier streams)) *)
(*                   bytes too far (not in the code; a seeded change)      *)
(*   "SeekOtherStream" seek(pos + 3) is applied to the stream current when *)
(*                   ID was recognised, although pos was measured in the   *)
(*                   stream where the ID token began                       *)
(***************************************************************************)
EXTENDS PSLexOps, TLC, Json
LOCAL SeqX == INSTANCE SequencesExt

CONSTANTS IDDelims,     \* the white-space byte written after ID
          Leads,        \* sequences of lengths of the streams of the /Contents array that precede the one holding BI
          Alphabet,     \* bytes the image data is made of
          MaxLen,       \* data strings of length 0..MaxLen
          BufSizes,     \* PDFContentParser.BUFSIZ
          DictKinds,    \* spellings of the /F entry of the BI dictionary
          Styles,       \* how the writer ends the data: "eol" (LF EI) or "direct" (EI)
          Followers,    \* what follows EI (byte strings starting with white space, or empty)
          Cuts,         \* where the content is divided into two streams: "none" | "afterID" | "afterIDws" | "beforeEI" | "afterEIws"
          DevChoices,
          FastDict      \* TRUE: the dictionary phase is folded into the initial state (it does not depend on the data)

bE == 69  bI == 73  bSP == 32  bCR == 13  bLF == 10  bTILDE == 126  bGT == 62
SPACES == {9, 10, 11, 12, 13, 32}                  \* bytes.isspace()
EI == <<69, 73>>
A85END == <<126, 62>>
PreBase == <<66, 73, 32, 47, 87, 32, 49, 32, 47, 72, 32, 49, 32, 47, 66, 80, 67, 32, 56, 32, 47, 67, 83, 32, 47, 71>>   \* BI /W 1 /H 1 /BPC 8 /CS /G
FPart(dk) == CASE dk = "none" -> <<>>
               [] dk = "A85Arr" -> <<32, 47, 70, 32, 91, 47, 65, 56, 53, 93>>                          \* /F [/A85]
               [] dk = "AHx" -> <<32, 47, 70, 32, 47, 65, 72, 120>>                                    \* /F /AHx
               [] dk = "A85" -> <<32, 47, 70, 32, 47, 65, 56, 53>>                                   \* /F /A85
               [] dk = "ASCII85Decode" -> <<32, 47, 70, 32, 47, 65, 83, 67, 73, 73, 56, 53, 68, 101, 99, 111, 100, 101>>
               [] dk = "A85Fl" -> <<32, 47, 70, 32, 91, 47, 65, 56, 53, 32, 47, 70, 108, 93>>        \* /F [/A85 /Fl]
               [] dk = "Fl" -> <<32, 47, 70, 32, 47, 70, 108>>                                       \* /F /Fl
               [] dk = "FlA85" -> <<32, 47, 70, 32, 91, 47, 70, 108, 32, 47, 65, 56, 53, 93>>        \* /F [/Fl /A85]
Pre(dk) == PreBase \o FPart(dk) \o <<32, 73, 68>>           \* ... ID
IsA85Kind(dk) == dk \in {"A85", "ASCII85Decode", "A85Fl", "A85Arr"}   \* the OUTER encoding (first filter) is ASCII85
Term(dk, style) == (IF IsA85Kind(dk) THEN A85END ELSE <<>>) \o (IF style = "eol" \/ IsA85Kind(dk) THEN <<bLF>> ELSE <<>>) \o EI

VARIABLES data, dk, style, foll, B, cut, dev, lead, idws, \* the case
          C, cp, ptoks,                            \* derived once: the content bytes, the cut offset, the tokens of `BI ... ID `
          phase, ti, ops, inl, arr,                \* dictionary phase: token index, operand stack, start marks
          tg, p, e, mi, acc,                       \* matcher: target, read position, buffer end, index i, collected bytes
          img, rest                                \* results: captured data, the tokens that follow
vars == <<data, dk, style, foll, B, cut, dev, lead, idws, C, cp, ptoks, phase, ti, ops, inl, arr, tg, p, e, mi, acc, img, rest>>

\* ------------------------------------------------------------------ the content and its division into streams
\* ISO 32000-1 8.9.7: exactly one white-space character follows ID (idws: SP, LF, CR or TAB); the data begin right after it,
\* whatever their first byte is - a CR followed by data that begin with LF is NOT an end-of-line pair to be skipped
Head1 == Pre(dk) \o <<idws>>
Written == data \o Term(dk, style)                  \* what the writer put between `ID ` and the followers
Content == Head1 \o Written \o foll
LenPre == Len(Pre(dk))
DataStart == LenPre + 1                             \* absolute offset of the first data byte
MarkerAt == DataStart + Len(Written) - 2            \* absolute offset of the E of the writer's EI
CutAt == CASE cut = "none" -> 0
            [] cut = "afterID" -> LenPre                                    \* ID | SP data
            [] cut = "afterIDws" -> DataStart                               \* ID SP | data
            [] cut = "beforeEI" -> MarkerAt                                 \* data EOL | EI
            [] cut = "afterEIws" -> MarkerAt + 3                            \* EI SP | followers
CutOK == cut = "none" \/ (CutAt > 0 /\ CutAt < Len(Content))
StreamEnd(q) == IF cp > 0 /\ q < cp THEN cp ELSE Len(C)      \* end of the stream that holds offset q
StreamBase(q) == IF cp > 0 /\ q >= cp THEN cp ELSE 0

\* ------------------------------------------------------------------ BI dictionary
Obj(t, v, a) == [t |-> t, v |-> v, a |-> a]
PreToks == ptoks                                    \* RefOut(Head1, {}): tokens of `BI ... ID ` (PSLexOps)
IsKw(tok, bytes) == tok.k = "kw" /\ tok.v = bytes
\* one step of the stack parser over the dictionary tokens: s = [ti, ops, inl, arr]
DictStep(s) ==
  LET tok == PreToks[s.ti] IN
  IF IsKw(tok, <<66, 73>>) THEN [s EXCEPT !.ti = s.ti + 1, !.inl = Len(s.ops)]                 \* BI: start_type
  ELSE IF IsKw(tok, <<91>>) THEN [s EXCEPT !.ti = s.ti + 1, !.arr = Len(s.ops)]                \* [
  ELSE IF IsKw(tok, <<93>>)                                                                   \* ]: end_type('a')
  THEN [s EXCEPT !.ti = s.ti + 1, !.arr = -1,
                 !.ops = Append(SubSeq(s.ops, 1, s.arr), Obj("arr", <<>>, SubSeq(s.ops, s.arr + 1, Len(s.ops))))]
  ELSE [s EXCEPT !.ti = s.ti + 1, !.ops = Append(s.ops, Obj(tok.k, tok.v, <<>>))]
AtID(s) == s.ti <= Len(PreToks) /\ IsKw(PreToks[s.ti], <<73, 68>>)
RECURSIVE DictRun(_)
DictRun(s) == IF AtID(s) \/ s.ti > Len(PreToks) THEN s ELSE DictRun(DictStep(s))
D0 == [ti |-> 1, ops |-> <<>>, inl |-> 0, arr |-> -1]

\* d.get("F") over the key/value pairs collected since BI; first filter decides the end marker
InlineObjs(o, i0) == SubSeq(o, i0 + 1, Len(o))
FilterOf(objs) == LET ks == {q \in 1..(Len(objs) \div 2) : objs[2 * q - 1].t = "lit" /\ objs[2 * q - 1].v = <<70>>} IN
                  IF ks = {} THEN Obj("none", <<>>, <<>>) ELSE objs[2 * (CHOOSE q \in ks : \A r \in ks : r <= q)]
FirstFilter(f) == IF f.t = "arr" THEN f.a[1] ELSE f
A85Names == {<<65, 56, 53>>, <<65, 83, 67, 73, 73, 56, 53, 68, 101, 99, 111, 100, 101>>}
\* (as a deviation - "BareNameNoFilter", a seeded change - a filter given as a bare name instead of an array is not seen)
TargetOf(objs) == LET f == FilterOf(objs) IN
                  IF f.t # "none" /\ ~("BareNameNoFilter" \in dev /\ f.t # "arr")
                     /\ FirstFilter(f).t = "lit" /\ FirstFilter(f).v \in A85Names THEN A85END ELSE EI
\* seek(pos + len(b"ID ")): pos is relative to the stream in which the ID token began
IDTokPos == PreToks[Len(PreToks)].pos
\* Offsets in this specification count from the beginning of the stream that holds BI: that is what fp.tell() gives the
\* real parser (bufpos restarts with every stream of the array), so the streams before it (`lead`) do not enter - unless
\* positions are accumulated over the streams ("CumulativeBufpos": bufpos += len(buf) instead of fp.tell()).
RECURSIVE SumSeq(_)
SumSeq(q) == IF q = <<>> THEN 0 ELSE Head(q) + SumSeq(Tail(q))
\* ("IDSkipsCRLF", a seeded change: CR LF behind ID is skipped as a pair)
SkipPair(d) == IF "IDSkipsCRLF" \in d /\ idws = bCR /\ Len(C) > LenPre + 1 /\ C[LenPre + 2] = bLF THEN 1 ELSE 0
SeekTarget(d) == IF "IDSkipsCRLF" \in d THEN IDTokPos + 3 + SkipPair(d)
                 ELSE IF "CumulativeBufpos" \in d THEN Min(StreamBase(LenPre) + IDTokPos + 3 + SumSeq(lead), Len(C))
                 ELSE IF "SeekOtherStream" \in d
                 THEN Min(StreamBase(LenPre) + (IDTokPos - StreamBase(IDTokPos)) + 3, Len(C))   \* past the end: nothing to read
                 ELSE IDTokPos + 3

\* ------------------------------------------------------------------ initial states
\* (the prefix tokens depend on the dictionary spelling only: they are computed once per spelling, before the rest is enumerated)
InitCase == /\ dk \in DictKinds /\ idws \in IDDelims /\ ptoks = RefOut(Head1, {})
            /\ B \in BufSizes /\ style \in Styles /\ foll \in Followers /\ cut \in Cuts /\ dev \in DevChoices /\ lead \in Leads
            /\ \E n \in 0..MaxLen : data \in [1..n -> Alphabet]
            /\ CutOK /\ (IsA85Kind(dk) => style = "eol")
            /\ C = Content /\ cp = CutAt
Init == /\ InitCase
        /\ img = <<>> /\ rest = <<>> /\ acc = <<>> /\ mi = 0
        /\ IF FastDict
           THEN LET s == DictRun(D0) IN
                /\ ti = s.ti /\ ops = s.ops /\ inl = s.inl /\ arr = s.arr
                /\ phase = "scan" /\ tg = TargetOf(InlineObjs(s.ops, s.inl))
                /\ p = SeekTarget(dev) /\ e = SeekTarget(dev)
           ELSE /\ ti = 1 /\ ops = <<>> /\ inl = 0 /\ arr = -1 /\ phase = "dict" /\ tg = EI /\ p = 0 /\ e = 0

DS == [ti |-> ti, ops |-> ops, inl |-> inl, arr |-> arr]
ADictTok == /\ phase = "dict" /\ ~AtID(DS)
            /\ LET s == DictStep(DS) IN ti' = s.ti /\ ops' = s.ops /\ inl' = s.inl /\ arr' = s.arr
            /\ UNCHANGED <<data, dk, style, foll, B, cut, dev, lead, idws, C, cp, ptoks, phase, tg, p, e, mi, acc, img, rest>>
AID == /\ phase = "dict" /\ AtID(DS)
       /\ LET objs == InlineObjs(ops, inl) IN
          IF Len(objs) % 2 # 0 THEN phase' = "typeerror" /\ UNCHANGED <<tg, p, e>>
          ELSE phase' = "scan" /\ tg' = TargetOf(objs) /\ p' = SeekTarget(dev) /\ e' = SeekTarget(dev)
       /\ UNCHANGED <<data, dk, style, foll, B, cut, dev, lead, idws, C, cp, ptoks, ti, ops, inl, arr, mi, acc, img, rest>>

\* ------------------------------------------------------------------ get_inline_data
Scanning == phase = "scan" /\ mi <= Len(tg)
AtEOF == p >= e /\ e >= Len(C)
\* fillbuf(): the buffer never spans two streams; an exhausted stream is followed by the next one
AMRefill == /\ Scanning /\ p >= e /\ e < Len(C)
            /\ p' = e /\ e' = Min(e + B, StreamEnd(e))
            /\ UNCHANGED <<data, dk, style, foll, B, cut, dev, lead, idws, C, cp, ptoks, phase, ti, ops, inl, arr, tg, mi, acc, img, rest>>
AMFind == /\ Scanning /\ mi = 0 /\ p < e
          /\ LET j == First(C, p, e, {tg[1]}) IN
             IF j < e THEN acc' = acc \o Slice(C, p, j + 1) /\ p' = j + 1 /\ mi' = 1
             ELSE acc' = acc \o Slice(C, p, e) /\ p' = e /\ mi' = 0
          /\ UNCHANGED <<data, dk, style, foll, B, cut, dev, lead, idws, C, cp, ptoks, phase, ti, ops, inl, arr, tg, e, img, rest>>
AMChar == /\ Scanning /\ mi > 0 /\ p < e
          /\ LET c == C[p + 1] IN
             /\ acc' = Append(acc, c) /\ p' = p + 1
             /\ mi' = IF (mi >= Len(tg) /\ c \in SPACES) \/ (mi < Len(tg) /\ c = tg[mi + 1]) THEN mi + 1
                      ELSE IF "NoRestart" \notin dev /\ c = tg[1] THEN 1      \* the mismatching byte may itself begin the marker
                      ELSE 0
          /\ UNCHANGED <<data, dk, style, foll, B, cut, dev, lead, idws, C, cp, ptoks, phase, ti, ops, inl, arr, tg, e, img, rest>>

\* the trailing-EOL pattern  re.sub(rb"(\x0d\x0a|[\x0d\x0a])$", b"", data)  with its two quirks as switches;
\* the intended design removes exactly one end-of-line character
EndAt(d, q, dv) == q = Len(d) + 1 \/ ("DollarNewline" \in dv /\ q = Len(d) /\ d[Len(d)] = bLF)
RECURSIVE StripFrom(_, _, _)
StripFrom(d, q, dv) ==
  IF q > Len(d) THEN <<>>
  ELSE IF "CRLFUnit" \in dv /\ q < Len(d) /\ d[q] = bCR /\ d[q + 1] = bLF /\ EndAt(d, q + 2, dv) THEN StripFrom(d, q + 2, dv)
  ELSE IF d[q] \in {bCR, bLF} /\ EndAt(d, q + 1, dv) THEN StripFrom(d, q + 1, dv)
  ELSE <<d[q]>> \o StripFrom(d, q + 1, dv)
StripEOL(d, dv) == StripFrom(d, 1, dv)

Finish(body) ==
  LET stripped == StripEOL(body, dev) IN
  /\ img' = IF tg = A85END THEN stripped \o A85END ELSE stripped
  /\ phase' = "resume"
AMFinish == /\ phase = "scan" /\ mi > Len(tg)
            /\ Finish(SubSeq(acc, 1, Len(acc) - (Len(tg) + 1)))
            /\ UNCHANGED <<data, dk, style, foll, B, cut, dev, lead, idws, C, cp, ptoks, ti, ops, inl, arr, tg, p, e, mi, acc, rest>>
\* end of the last stream while scanning: fillfp raises PSEOF, which ends the page's interpretation.
\* Intended: the end of the content delimits a complete marker like white space does.
AMEof == /\ Scanning /\ AtEOF
         /\ IF mi = Len(tg) /\ "EOFNotDelim" \notin dev
            THEN Finish(SubSeq(acc, 1, Len(acc) - Len(tg)))
            ELSE phase' = "eof" /\ UNCHANGED img
         /\ UNCHANGED <<data, dk, style, foll, B, cut, dev, lead, idws, C, cp, ptoks, ti, ops, inl, arr, tg, p, e, mi, acc, rest>>

\* tokenising resumes in the main state right behind the marker's delimiter (seek() reset the tokenizer);
\* for ASCII85 the keyword EI is still in the stream and is tokenised like any operator
Tok2(t) == [k |-> t.k, v |-> t.v]
KV(toks) == [q \in 1..Len(toks) |-> Tok2(toks[q])]
AResume == /\ phase = "resume"
           /\ LET s0 == [S0 EXCEPT !.p = p, !.e = e, !.curpos = p]
                  r == Run(s0, C, B, {}) IN
              rest' = (IF tg = EI THEN <<[k |-> "kw", v |-> EI]>> ELSE <<>>) \o KV(r.out)
           /\ phase' = "done"
           /\ UNCHANGED <<data, dk, style, foll, B, cut, dev, lead, idws, C, cp, ptoks, ti, ops, inl, arr, tg, p, e, mi, acc, img>>

Next == ADictTok \/ AID \/ AMRefill \/ AMFind \/ AMChar \/ AMFinish \/ AMEof \/ AResume
Spec == Init /\ [][Next]_vars

\* ------------------------------------------------------------------ reference semantics
\* The end marker is the first occurrence of the target followed by white space or by the end of the content.
S == Written \o foll
IsMarkerAt(s, q) == q + 1 <= Len(s) /\ s[q] = tg[1] /\ s[q + 1] = tg[2] /\ (q + 2 > Len(s) \/ s[q + 2] \in SPACES)
Markers(s) == {q \in 1..Len(s) : IsMarkerAt(s, q)}
FirstMarker(s) == IF Markers(s) = {} THEN 0 ELSE CHOOSE q \in Markers(s) : \A r \in Markers(s) : q <= r
RefBody == SubSeq(S, 1, FirstMarker(S) - 1)
RefImg == LET b == StripEOL(RefBody, {}) IN IF tg = A85END THEN b \o A85END ELSE b
RefRest == (IF tg = EI THEN <<[k |-> "kw", v |-> EI]>> ELSE <<>>)
           \o KV(RefOut(SubSeq(S, FirstMarker(S) + 3, Len(S)), {}))

\* the data does not contain the end marker: the first marker is the one the writer wrote; a writer that puts no EOL
\* before EI must not end the data with one (the reader removes one by design)
WriterMarker == Len(data) + (IF tg = A85END THEN 1 ELSE Len(Term(dk, style)) - 1)
InDomain == /\ FirstMarker(S) = WriterMarker
            /\ (style = "direct" => (data = <<>> \/ data[Len(data)] \notin {bCR, bLF}))
\* ASCII85 text: white space is not significant, the writer's `~>` ends the data
RECURSIVE DropTrailEOL(_)
DropTrailEOL(d) == IF d # <<>> /\ d[Len(d)] \in {bCR, bLF} THEN DropTrailEOL(SubSeq(d, 1, Len(d) - 1)) ELSE d
ExpectedImg == IF tg = A85END THEN DropTrailEOL(data) \o A85END ELSE data
Captured == IF tg = A85END /\ Len(img) >= 2 THEN DropTrailEOL(SubSeq(img, 1, Len(img) - 2)) \o A85END ELSE img
ExpectedRest == <<[k |-> "kw", v |-> EI]>> \o KV(RefOut(foll, {}))      \* the EI operator, then the followers as if alone

Terminal == phase \in {"done", "eof", "typeerror"}
Intended == dev = {}
\* P_* : the predicate for any design; the invariants claim it for the intended design
P_DataCapturedExactly == (Terminal /\ InDomain) => (phase = "done" /\ Captured = ExpectedImg)
P_FollowersUnaffected == (Terminal /\ InDomain) => (phase = "done" /\ rest = ExpectedRest)
P_MatcherIsFirstMarker == Terminal =>
  IF FirstMarker(S) = 0 THEN phase = "eof" ELSE phase = "done" /\ img = RefImg /\ rest = RefRest
DataCapturedExactly == Intended => P_DataCapturedExactly
FollowersUnaffected == Intended => P_FollowersUnaffected
MatcherIsFirstMarker == Intended => P_MatcherIsFirstMarker

\* structural invariants of the scanner (any design)
BufferInOneStream == phase = "scan" => (p <= e /\ e <= Len(C) /\ (p < e => StreamEnd(p) = StreamEnd(e - 1)))
IndexInRange == mi \in 0..(Len(tg) + 1)
AccIsContiguous == phase = "scan" => (Len(acc) <= Len(C) /\ (p <= Len(C) /\ Len(acc) <= p))
DictWellFormed == phase # "typeerror"

EmitTerminal ==
  Terminal => PrintT("@@" \o ToJson([data |-> data, dk |-> dk, style |-> style, foll |-> foll, B |-> B, cut |-> cut,
                                       cutpos |-> cp, lead |-> lead, idws |-> idws, dev |-> dev, phase |-> phase, img |-> img, rest |-> rest,
                                       content |-> C, indomain |-> InDomain, a85 |-> (tg = A85END)]))
=============================================================================
