------------------------------- MODULE JBIG2 -------------------------------
(***************************************************************************)
(* C18, extended coverage: ImageWriter._save_jbig2 as a machine.           *)
(*   AConcat       input = JBIG2Globals data (rstrip(b"\n")) + image data  *)
(*   AReadSegment  JBIG2StreamReader.get_segments: one segment per step    *)
(*   AReadDone     end of input (is_eof)                                   *)
(*   AWriteHeader  write_file: file ID, flags (sequential), one page       *)
(*   AWriteSegment write_segments: encode_segment of the next dictionary,  *)
(*                 tracking the current page                               *)
(*   AWriteEOP     the end-of-page segment appended when the last page is  *)
(*                 still open (fix_last_page)                              *)
(*   AWriteEOF     the end-of-file segment, numbered last + 2              *)
(* mode "roundtrip": write_segments(get_segments(x), fix_last_page=False)  *)
(* mode "writefile": write_file(get_segments(x))                           *)
(* mode "export":    _save_jbig2 of an image XObject: the .jb2 file        *)
(* Additional deviations (export only):                                    *)
(*   "GlobalsRstrip"   trailing LF bytes of the globals stream are cut off *)
(*                     before the segments are read                        *)
(*   "GlobalsRequired" an image without /JBIG2Globals raises KeyError      *)
(***************************************************************************)
EXTENDS JBIG2Ops, Json

CONSTANTS GlobalLists,   \* set of sequences of abstract segments: the JBIG2Globals stream (<<>> = none)
          SegLists,      \* set of sequences of abstract segments: the image stream
          Modes, DevChoices

VARIABLES gsegs, segs, mode, dev, x, phase, rp, parsed, k, out, curpage, status
vars == <<gsegs, segs, mode, dev, x, phase, rp, parsed, k, out, curpage, status>>

Init == /\ gsegs \in GlobalLists /\ segs \in SegLists /\ mode \in Modes /\ dev \in DevChoices
        /\ x = <<>> /\ phase = "concat" /\ rp = 0 /\ parsed = <<>> /\ k = 1 /\ out = <<>> /\ curpage = 0 /\ status = "ok"

RECURSIVE RstripLF(_)
RstripLF(b) == IF b # <<>> /\ b[Len(b)] = 10 THEN RstripLF(SubSeq(b, 1, Len(b) - 1)) ELSE b
AConcat == /\ phase = "concat"
           /\ IF mode = "export" /\ gsegs = <<>> /\ "GlobalsRequired" \in dev
              THEN phase' = "error" /\ status' = "concat:KeyError" /\ UNCHANGED x
              ELSE /\ x' = (IF mode = "export" /\ "GlobalsRstrip" \in dev THEN RstripLF(EncStdAll(gsegs)) ELSE EncStdAll(gsegs))
                          \o EncStdAll(segs)
                   /\ phase' = "read" /\ UNCHANGED status
           /\ UNCHANGED <<gsegs, segs, mode, dev, rp, parsed, k, out, curpage>>

AReadSegment == /\ phase = "read" /\ rp < Len(x)
                /\ LET r == ParseSegment(x, rp, dev) IN
                   CASE r.st = "ok" -> parsed' = Append(parsed, r.d) /\ rp' = r.p /\ UNCHANGED <<phase, status>>
                     [] r.st = "short" -> rp' = Len(x) /\ UNCHANGED <<parsed, phase, status>>       \* segment["_error"]: dropped
                     [] OTHER -> phase' = "error" /\ status' = "read:" \o r.st /\ UNCHANGED <<parsed, rp>>
                /\ UNCHANGED <<gsegs, segs, mode, dev, x, k, out, curpage>>
AReadDone == /\ phase = "read" /\ rp >= Len(x)
             /\ phase' = IF mode # "roundtrip" THEN "header" ELSE "write"
             /\ UNCHANGED <<gsegs, segs, mode, dev, x, rp, parsed, k, out, curpage, status>>
AWriteHeader == /\ phase = "header" /\ out' = FileHeader /\ phase' = "write"
                /\ UNCHANGED <<gsegs, segs, mode, dev, x, rp, parsed, k, curpage, status>>
AWriteSegment == /\ phase = "write" /\ k <= Len(parsed)
                 /\ LET d == parsed[k]  enc == EncodeSegment(d, dev) IN
                    IF enc[2] # "ok" THEN phase' = "error" /\ status' = "write:" \o enc[2] /\ UNCHANGED <<out, k, curpage>>
                    ELSE /\ out' = out \o enc[1] /\ k' = k + 1 /\ UNCHANGED <<phase, status>>
                         /\ curpage' = IF mode = "roundtrip" THEN curpage ELSE IF d.type = TYPE_EOP THEN 0 ELSE IF d.page # 0 THEN d.page ELSE curpage
                 /\ UNCHANGED <<gsegs, segs, mode, dev, x, rp, parsed>>
LastNum == IF parsed = <<>> THEN 0 ELSE parsed[Len(parsed)].number
AWriteEOP == /\ phase = "write" /\ k > Len(parsed) /\ mode # "roundtrip"
             /\ IF curpage # 0 /\ parsed # <<>>
                THEN LET enc == EncodeSegment(EOPDict(LastNum + 1, curpage), dev) IN
                     IF enc[2] # "ok" THEN phase' = "error" /\ status' = "write:" \o enc[2] /\ UNCHANGED out
                     ELSE out' = out \o enc[1] /\ phase' = "eof" /\ UNCHANGED status
                ELSE phase' = "eof" /\ UNCHANGED <<out, status>>
             /\ UNCHANGED <<gsegs, segs, mode, dev, x, rp, parsed, k, curpage>>
AWriteEOF == /\ phase = "eof"
             /\ out' = out \o EncodeSegment(EOFDict(LastNum + 2), dev)[1] /\ phase' = "done"
             /\ UNCHANGED <<gsegs, segs, mode, dev, x, rp, parsed, k, curpage, status>>
ARoundDone == /\ phase = "write" /\ k > Len(parsed) /\ mode = "roundtrip" /\ phase' = "done"
              /\ UNCHANGED <<gsegs, segs, mode, dev, x, rp, parsed, k, out, curpage, status>>

Next == AConcat \/ AReadSegment \/ AReadDone \/ AWriteHeader \/ AWriteSegment \/ AWriteEOP \/ AWriteEOF \/ ARoundDone
Spec == Init /\ [][Next]_vars

\* ------------------------------------------------------------------ properties (claimed for the intended design, dev = {})
All == gsegs \o segs
Intended == dev = {}
Terminal == phase \in {"done", "error"}
\* the page left open by the embedded segments
RECURSIVE OpenPage(_, _)
OpenPage(ss, cur) == IF ss = <<>> THEN cur
                     ELSE OpenPage(Tail(ss), IF Head(ss).type = TYPE_EOP THEN 0 ELSE IF Head(ss).page # 0 THEN Head(ss).page ELSE cur)
ExpectedFile == All \o (IF OpenPage(All, 0) # 0 /\ All # <<>> THEN <<EOPSeg(All[Len(All)].num + 1, OpenPage(All, 0))>> ELSE <<>>)
                \o <<EOFSeg((IF All = <<>> THEN 0 ELSE All[Len(All)].num) + 2)>>
P_NoError == phase # "error"
P_ReaderInverts == phase \in {"write", "header", "eof", "done"} => parsed = [q \in 1..Len(All) |-> DictOf(All[q])]
P_RoundTrip == (phase = "done" /\ mode = "roundtrip") => out = EncStdAll(All)
P_FileParsesBack == (phase = "done" /\ mode # "roundtrip") => ParseFileStd(out) = ExpectedFile
NoError == Intended => P_NoError
ReaderInverts == Intended => P_ReaderInverts
RoundTrip == Intended => P_RoundTrip
FileParsesBack == Intended => P_FileParsesBack
\* the reference reader inverts the reference encoder (sanity of the two references against each other)
RefsAgree == phase = "read" => ReadAllStd(EncStdAll(All), 0) = All

EmitTerminal ==
  Terminal => PrintT("@@" \o ToJson([gsegs |-> gsegs, segs |-> segs, mode |-> mode, dev |-> dev, x |-> x, phase |-> phase, status |-> status,
                                       parsed |-> parsed, out |-> out]))
=============================================================================
