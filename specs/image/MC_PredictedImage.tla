---- MODULE MC_PredictedImage ----
EXTENDS PredictedImage
\* three rows: every pair of consecutive row filter types occurs (125 sequences); 1-bit rows of 9 pixels span 2 bytes
ShapesQuick == {<<"gray", 3, 3>>, <<"rgb", 2, 3>>, <<"bw", 9, 3>>}
ShapesFull == {<<"gray", 3, 4>>, <<"rgb", 2, 4>>, <<"rgb", 3, 3>>, <<"bw", 9, 4>>, <<"gray", 1, 3>>, <<"bw", 17, 3>>}
AllRowTypes == 0..4
Arithmetic == <<>>
\* Paeth ties: every assignment of the palette to the pixels of a 2x2 image puts every triple left / above / upper left over the
\* palette in front of the predictor.  <<0, 80, 120, 200>> gives the four ties that decide something, the winner being the larger
\* and the smaller value: pb = pc (120, 0, 80: above < upper left; 80, 200, 120: above > upper left), pa = pc (0, 120, 80;
\* 200, 80, 120); 90 / 100 / 120 are the values of the seeded example.  Both rows Paeth-filtered; thorough: first row also unfiltered.
ShapesTies == {<<"gray", 2, 2>>, <<"rgb", 2, 2>>}
PaethOnly == {4}
TieRowTypes == {0, 4}
PaletteTies == <<0, 80, 120, 200>>
PaletteTiesFull == <<0, 80, 90, 100, 120, 200>>
DevTie == {{"PaethTieByValue"}}
OnlyIntended == {{}}
DevNone == {{"NoneKeepsAbove"}}
====
