---- MODULE MC_PredictedImage ----
EXTENDS PredictedImage
\* three rows: every pair of consecutive row filter types occurs (125 sequences); 1-bit rows of 9 pixels span 2 bytes
ShapesQuick == {<<"gray", 3, 3>>, <<"rgb", 2, 3>>, <<"bw", 9, 3>>}
ShapesFull == {<<"gray", 3, 4>>, <<"rgb", 2, 4>>, <<"rgb", 3, 3>>, <<"bw", 9, 4>>, <<"gray", 1, 3>>, <<"bw", 17, 3>>}
OnlyIntended == {{}}
DevNone == {{"NoneKeepsAbove"}}
====
