------------------------------ MODULE JBIG2Ops ------------------------------
(***************************************************************************)
(* C18, extended coverage: the JBIG2 path of ImageWriter.export_image      *)
(* (pdfminer/jbig2.py).  Operators shared by JBIG2.tla and JBIG2Trace.tla. *)
(*                                                                         *)
(* Abstract segment (ITU-T T.88 7.2):                                      *)
(*   [num, type, deferred, palong, page, refs, retain, data]               *)
(*   retain = <<r0, r1, .. rn>> (0/1): r0 for the segment itself, ri for   *)
(*   the i-th referred-to segment.  Numbers stay below 2^31 (TLC ints).    *)
(*                                                                         *)
(* Reference: EncStd (the segment header as T.88 7.2.2-7.2.7 lays it out), *)
(* FileStd / ParseFileStd (sequential file organisation, annex D.1).       *)
(* Code-shaped: ParseSegment = JBIG2StreamReader (parse_flags,             *)
(* parse_retention_flags, parse_page_assoc, parse_data_length) yielding    *)
(* the reader's dictionaries; EncodeSegment = JBIG2StreamWriter            *)
(* (encode_flags, encode_retention_flags, encode_data_length).             *)
(*                                                                         *)
(* dev - named deviations of the code from T.88:                           *)
(*   "RefWidth4"        referred-to segment numbers of a segment numbered  *)
(*                      257..65536 are read and written with 4 bytes       *)
(*                      (struct "I") instead of 2                          *)
(*   "Retain7Bits"      the reader takes 7 retain bits from every byte of  *)
(*                      the long form instead of 8                         *)
(*   "LongCountDropped" the writer's long form carries the marker 7 but    *)
(*                      not the count of referred-to segments              *)
(*   "PageAssocShort"   the writer always writes the page association as   *)
(*                      one byte, also when the flag says four             *)
(*   "ZeroLenNoData"    a segment with data length 0 has no raw_data in    *)
(*                      the reader's dictionary; the writer requires it    *)
(*                      (KeyError) instead of writing no data              *)
(***************************************************************************)
EXTENDS Integers, Sequences, FiniteSets, TLC
LOCAL SeqX == INSTANCE SequencesExt

TYPE_GENERIC_IMM == 38   TYPE_EOP == 49   TYPE_EOF == 51
FILE_ID == <<151, 74, 66, 50, 13, 10, 26, 10>>

BE16(n) == <<(n \div 256) % 256, n % 256>>
BE32(n) == <<(n \div 16777216) % 256, (n \div 65536) % 256, (n \div 256) % 256, n % 256>>
U8(b, p) == b[p + 1]
U16(b, p) == b[p + 1] * 256 + b[p + 2]
\* the top byte must stay below 128 for TLC's 32-bit integers; callers guarantee it or test it first
U32(b, p) == b[p + 1] * 16777216 + b[p + 2] * 65536 + b[p + 3] * 256 + b[p + 4]
Bit(v, q) == (v \div (2 ^ q)) % 2
CeilDiv(a, b) == (a + b - 1) \div b
Pad(s, n) == s \o [q \in 1..(n - Len(s)) |-> 0]
PackBits(bits) == LET z == Pad(bits, 8) IN
                  z[1] + 2 * z[2] + 4 * z[3] + 8 * z[4] + 16 * z[5] + 32 * z[6] + 64 * z[7] + 128 * z[8]

Seg(num, type, deferred, palong, page, refs, retain, data) ==
  [num |-> num, type |-> type, deferred |-> deferred, palong |-> palong, page |-> page, refs |-> refs, retain |-> retain, data |-> data]
\* a segment the header format can express
SegOK(s) == /\ Len(s.retain) = Len(s.refs) + 1
            /\ (s.palong \/ s.page <= 255)

\* ------------------------------------------------------------------ reference: T.88 7.2
RefWidthStd(num) == IF num <= 256 THEN 1 ELSE IF num <= 65536 THEN 2 ELSE 4
EncNum(n, w) == CASE w = 1 -> <<n>> [] w = 2 -> BE16(n) [] OTHER -> BE32(n)
FlagsByte(s) == s.type + (IF s.palong THEN 64 ELSE 0) + (IF s.deferred THEN 128 ELSE 0)
RetainBytes(bits, nbytes) == [j \in 1..nbytes |-> PackBits(SubSeq(Pad(bits, 8 * nbytes), 8 * (j - 1) + 1, 8 * j))]
RetStd(s) ==
  LET n == Len(s.refs) IN
  IF n <= 4 THEN <<n * 32 + PackBits(s.retain)>>
  ELSE <<224 + (n \div 16777216), (n \div 65536) % 256, (n \div 256) % 256, n % 256>> \o RetainBytes(s.retain, CeilDiv(n + 1, 8))
RefsEnc(refs, w) == SeqX!FlattenSeq([q \in 1..Len(refs) |-> EncNum(refs[q], w)])
EncStd(s) == BE32(s.num) \o <<FlagsByte(s)>> \o RetStd(s) \o RefsEnc(s.refs, RefWidthStd(s.num))
             \o (IF s.palong THEN BE32(s.page) ELSE <<s.page>>) \o BE32(Len(s.data)) \o s.data
EncStdAll(segs) == SeqX!FlattenSeq([q \in 1..Len(segs) |-> EncStd(segs[q])])

\* a reader of one segment written straight from 7.2 (used on the exported file): <<segment, next position>> or <<0, 0>>
ReadStd(b, p) ==
  IF p + 6 > Len(b) THEN <<0, 0>> ELSE
  LET num == U32(b, p)
      fl == U8(b, p + 4)
      r0 == U8(b, p + 5)
      short == r0 \div 32 < 7
      n == IF short THEN r0 \div 32 ELSE (r0 % 32) * 16777216 + U16(b, p + 6) * 256 + U8(b, p + 8)
      nb == IF short THEN 0 ELSE CeilDiv(n + 1, 8)
      retpos == IF short THEN p + 6 ELSE p + 9
      allbits == IF short THEN [q \in 1..5 |-> Bit(r0, q - 1)]
                 ELSE [q \in 1..(8 * nb) |-> Bit(U8(b, retpos + (q - 1) \div 8), (q - 1) % 8)]
      w == RefWidthStd(num)
      refpos == retpos + nb
      refs == [q \in 1..n |-> CASE w = 1 -> U8(b, refpos + q - 1) [] w = 2 -> U16(b, refpos + 2 * (q - 1)) [] OTHER -> U32(b, refpos + 4 * (q - 1))]
      papos == refpos + n * w
      palong == Bit(fl, 6) = 1
      page == IF palong THEN U32(b, papos) ELSE U8(b, papos)
      lenpos == papos + (IF palong THEN 4 ELSE 1)
      dlen == U32(b, lenpos)
      endp == lenpos + 4 + dlen IN
  IF endp > Len(b) THEN <<0, 0>>
  ELSE <<Seg(num, fl % 64, Bit(fl, 7) = 1, palong, page, refs, SubSeq(allbits, 1, n + 1), SubSeq(b, lenpos + 5, endp)), endp>>
RECURSIVE ReadAllStd(_, _)
ReadAllStd(b, p) == IF p >= Len(b) THEN <<>>
                    ELSE LET r == ReadStd(b, p) IN IF r[2] = 0 THEN <<Seg(-1, 0, FALSE, FALSE, 0, <<>>, <<0>>, <<>>)>>
                         ELSE <<r[1]>> \o ReadAllStd(b, r[2])
\* annex D.1/D.4: file header (ID, flags: sequential, number of pages known, 4-byte page count), then the segments
FileHeader == FILE_ID \o <<1>> \o BE32(1)
ParseFileStd(b) == IF Len(b) >= 13 /\ SubSeq(b, 1, 13) = FileHeader THEN ReadAllStd(b, 13)
                   ELSE <<Seg(-2, 0, FALSE, FALSE, 0, <<>>, <<0>>, <<>>)>>
EOPSeg(num, page) == Seg(num, TYPE_EOP, FALSE, page > 255, page, <<>>, <<0>>, <<>>)
EOFSeg(num) == Seg(num, TYPE_EOF, FALSE, FALSE, 0, <<>>, <<0>>, <<>>)

\* ------------------------------------------------------------------ JBIG2StreamReader, one segment
\* the reader's dictionary: [number, deferred, palong, type, ref_count, retain (list of 0/1 as the reader builds it),
\*                           refs, page, dlen, hasdata, data];  result [d, p, st]  st: "ok" | "short" (dropped) | "struct.error"
RefWidthCode(num, dev) == IF num <= 256 THEN 1 ELSE IF num <= 65536 THEN (IF "RefWidth4" \in dev THEN 4 ELSE 2) ELSE 4
Dict(num, deferred, palong, type, rc, retain, refs, page, dlen, hasdata, data) ==
  [number |-> num, deferred |-> deferred, palong |-> palong, type |-> type, ref_count |-> rc, retain |-> retain, refs |-> refs,
   page |-> page, dlen |-> dlen, hasdata |-> hasdata, data |-> data]
NoDict == Dict(0, FALSE, FALSE, 0, 0, <<>>, <<>>, 0, 0, FALSE, <<>>)
Res(d, p, st) == [d |-> d, p |-> p, st |-> st]
Avail(b, p, n) == p + n <= Len(b)

ParseSegment(b, p0, dev) ==
  IF ~Avail(b, p0, 4) THEN Res(NoDict, Len(b), "short") ELSE                    \* number
  LET num == U32(b, p0) IN
  IF ~Avail(b, p0 + 4, 1) THEN Res(NoDict, Len(b), "short") ELSE                \* flags -> parse_flags
  LET fl == U8(b, p0 + 4)
      deferred == fl >= 128
      palong == Bit(fl, 6) = 1
      type == fl % 64 IN
  IF ~Avail(b, p0 + 5, 1) THEN Res(NoDict, Len(b), "short") ELSE                \* retention_flags -> parse_retention_flags
  LET r0 == U8(b, p0 + 5)
      short == r0 \div 32 < 7 IN
  IF ~short /\ ~Avail(b, p0 + 6, 3) THEN Res(NoDict, Len(b), "struct.error") ELSE
  LET rc == IF short THEN r0 \div 32 ELSE (r0 % 32) * 16777216 + U16(b, p0 + 6) * 256 + U8(b, p0 + 8)
      nb == IF short THEN 0 ELSE CeilDiv(rc + 1, 8)
      retpos == IF short THEN p0 + 6 ELSE p0 + 9 IN
  IF ~Avail(b, retpos, nb) THEN Res(NoDict, Len(b), "struct.error") ELSE
  LET per == IF "Retain7Bits" \in dev THEN 7 ELSE 8
      retain == IF short THEN [q \in 1..5 |-> Bit(r0, q - 1)]
                ELSE [q \in 1..(per * nb) |-> Bit(U8(b, retpos + (q - 1) \div per), (q - 1) % per)]
      w == RefWidthCode(num, dev)
      refpos == retpos + nb IN
  IF ~Avail(b, refpos, rc * w) THEN Res(NoDict, Len(b), "struct.error") ELSE
  LET refs == [q \in 1..rc |-> CASE w = 1 -> U8(b, refpos + q - 1) [] w = 2 -> U16(b, refpos + 2 * (q - 1)) [] OTHER -> U32(b, refpos + 4 * (q - 1))]
      papos == refpos + rc * w IN
  IF ~Avail(b, papos, 1) THEN Res(NoDict, Len(b), "short") ELSE                 \* page_assoc -> parse_page_assoc
  IF palong /\ ~Avail(b, papos, 4) THEN Res(NoDict, Len(b), "struct.error") ELSE
  LET page == IF palong THEN U32(b, papos) ELSE U8(b, papos)
      lenpos == papos + (IF palong THEN 4 ELSE 1) IN
  IF ~Avail(b, lenpos, 4) THEN Res(NoDict, Len(b), "short") ELSE                \* data_length -> parse_data_length
  LET dlen == U32(b, lenpos)
      dend == IF lenpos + 4 + dlen > Len(b) THEN Len(b) ELSE lenpos + 4 + dlen    \* stream.read(length) may come back short
      hasdata == dlen # 0 IN                                                    \* `if length:` - no raw_data entry otherwise
  Res(Dict(num, deferred, palong, type, rc, retain, refs, page, dlen, hasdata, SubSeq(b, lenpos + 5, dend)), dend, "ok")

\* the dictionary a correct reader builds for an abstract segment (what ParseSegment(EncStd(s)) must be)
DictOf(s) == LET n == Len(s.refs) IN
  Dict(s.num, s.deferred, s.palong, s.type, n, IF n <= 4 THEN Pad(s.retain, 5) ELSE Pad(s.retain, 8 * CeilDiv(n + 1, 8)), s.refs,
       s.page, Len(s.data), Len(s.data) # 0, s.data)

\* ------------------------------------------------------------------ JBIG2StreamWriter, one segment
\* <<bytes, status>>  status: "ok" | "struct.error" | "KeyError"
EncodeFlags(d) == d.type + (IF d.palong THEN 64 ELSE 0) + (IF d.deferred THEN 128 ELSE 0)
EncodeRetention(d, dev) ==
  LET w == RefWidthCode(d.number, dev) IN
  (IF d.ref_count <= 4 THEN <<d.ref_count * 32 + PackBits(d.retain)>>
   ELSE LET nb == CeilDiv(d.ref_count + 1, 8)
            cnt == IF "LongCountDropped" \in dev THEN 0 ELSE d.ref_count IN
        <<224 + (cnt \div 16777216), (cnt \div 65536) % 256, (cnt \div 256) % 256, cnt % 256>> \o RetainBytes(d.retain, nb))
  \o RefsEnc(d.refs, w)
EncodeSegment(d, dev) ==
  IF "PageAssocShort" \in dev /\ d.page > 255 THEN <<(<<>>), "struct.error">>
  ELSE IF ~d.hasdata /\ "ZeroLenNoData" \in dev THEN <<(<<>>), "KeyError">>
  ELSE <<BE32(d.number) \o <<EncodeFlags(d)>> \o EncodeRetention(d, dev)
         \o (IF d.palong /\ "PageAssocShort" \notin dev THEN BE32(d.page) ELSE <<d.page>>)
         \o BE32(d.dlen) \o d.data, "ok">>
\* (the appended segments carry no page_assoc_long entry: the writer then decides by the page number)
EOPDict(num, page) == Dict(num, FALSE, page > 255, TYPE_EOP, 0, <<>>, <<>>, page, 0, TRUE, <<>>)
EOFDict(num) == Dict(num, FALSE, FALSE, TYPE_EOF, 0, <<>>, <<>>, 0, 0, TRUE, <<>>)
=============================================================================
