----------------------------- MODULE JBIG2Trace -----------------------------
(***************************************************************************)
(* C18 extended coverage, binding B for the JBIG2 path: the segments of    *)
(* JBIG2 streams embedded in real documents.  Per segment the harness      *)
(* records the header bytes as stored (number .. data length, without the  *)
(* data), the dictionary the real JBIG2StreamReader built and the header   *)
(* bytes the real JBIG2StreamWriter.encode_segment produced for it.  The   *)
(* reader and writer of JBIG2Ops.tla must do the same on those bytes.      *)
(* Rejection = deadlock naming trace t and segment k.                      *)
(***************************************************************************)
EXTENDS JBIG2Ops, Json, IOUtils
CONSTANT Dev
Traces == JsonDeserialize(IOEnv.TRACE_FILE)
NT == Len(Traces)
VARIABLES t, k
vars == <<t, k>>
Init == t = 1 /\ k = 1
Cur == Traces[t]
E == Cur.segs[k]
NoData(d) == [d EXCEPT !.data = <<>>]
Step == /\ t <= NT /\ k <= Len(Cur.segs)
        /\ LET r == ParseSegment(E.hb, 0, Dev)
               enc == EncodeSegment(NoData(r.d), Dev) IN
           /\ (r.st = "ok") = TRUE
           /\ (NoData(r.d) = E.rd) = TRUE                       \* the reader's dictionary
           /\ (enc[2] = E.ws) = TRUE                            \* the writer's outcome ...
           /\ (enc[2] = "ok" => enc[1] = E.wb) = TRUE           \* ... and header bytes
        /\ k' = k + 1 /\ UNCHANGED t
EndTrace == t <= NT /\ k > Len(Cur.segs) /\ t' = t + 1 /\ k' = 1
Finished == t > NT /\ UNCHANGED vars
Next == Step \/ EndTrace \/ Finished
Spec == Init /\ [][Next]_vars
\* every recorded header is one the reference reader understands the same way, where the deviations do not bite
RefAgrees == (t <= NT /\ k <= Len(Cur.segs)) =>
  LET s == ReadStd(E.hb \o [q \in 1..E.rd.dlen |-> 0], 0) IN
  s[2] # 0 /\ s[1].num = E.rd.number /\ s[1].type = E.rd.type /\ s[1].page = E.rd.page
=============================================================================
