--------------------------- MODULE PredictedImage ---------------------------
(***************************************************************************)
(* C18: an image stored through a filter with a PNG predictor              *)
(* (/DecodeParms << /Predictor 10..15 /Colors /BitsPerComponent /Columns   *)
(* >>): every row of the image carries its own filter type, and the row    *)
(* after it is predicted from the UNFILTERED row.  The row operators are   *)
(* those of specs/stream/PredictorOps.tla (C03): FilterRow is the writer   *)
(* from the PNG specification, CodedRow the inverse as pdfminer/utils.py   *)
(* codes it.  Here they are chained over the rows of an image, for every   *)
(* sequence of row filter types (so every pair of consecutive types        *)
(* occurs), 1 and 3 colour components, 8 and 1 bits per component.         *)
(*   AWriteRow   the writer filters row r against the raw row above        *)
(*   AReadRow    apply_png_predictor: one scan line - type byte, the row,  *)
(*               line_above := the unfiltered row                          *)
(* dev: "NoneKeepsAbove" - after a row of type 0 (None) line_above is not  *)
(* replaced (a seeded change: the None branch `continue`s early).          *)
(*                                                                         *)
(* Sample VALUES are a dimension of their own: with an empty Palette the   *)
(* samples are the arithmetic pattern of ImageOps.tla; otherwise every     *)
(* assignment of palette values to the pixels is an image (component c of  *)
(* a pixel takes the c-th next palette value, so every component plane     *)
(* sees every assignment).  With a palette such as <<90, 100, 120>> a 2x2  *)
(* image puts every triple (left, above, upper left) in front of the Paeth *)
(* predictor, among them the ties between two of its three distances,      *)
(* which PNG breaks in the order left, above, upper left:                  *)
(*   pb = pc < pa   left 90, above 120, upper left 100 -> above            *)
(*   pa = pc < pb   left 120, above 90, upper left 100 -> left             *)
(*   pa = pb        only with left = above, or with pc = 0 (upper left     *)
(*                  wins outright): |b-c| = |a-c| and a # b put c midway   *)
(* dev: "PaethTieByValue" - a tie goes to the neighbour with the smaller   *)
(* VALUE (a seeded change: min() over (distance, value) pairs).            *)
(***************************************************************************)
EXTENDS PredictorOps, Sequences, Json, TLC

CONSTANTS Shapes,       \* set of <<kind, w, h>>, kind "bw" | "gray" | "rgb"
          RowTypes,     \* the row filter types to choose from (subset of 0..4)
          Palette,      \* sequence of sample values, <<>> = the arithmetic pattern
          DevChoices

VARIABLES kind, w, h, types, pix, dev, phase, r, enc, above, out
vars == <<kind, w, h, types, pix, dev, phase, r, enc, above, out>>

Colors == IF kind = "rgb" THEN 3 ELSE 1
Bits == IF kind = "bw" THEN 1 ELSE 8
RL == RowLength(Colors, w, Bits)
BPP == BytesPerPixel(Colors, Bits)
\* the q-th byte (from 0) of the image data, as in ImageOps.tla for small images
Sample(q) == IF Palette = <<>> THEN (3 * q + 1) % 256
             ELSE Palette[((pix[(q \div Colors) + 1] - 1 + (q % Colors)) % Len(Palette)) + 1]
Row(k) == [j \in 1..RL |-> Sample((k - 1) * RL + j - 1)]          \* k-th row, from 1
Samples == [q \in 1..(RL * h) |-> Sample(q - 1)]

Init == /\ \E s \in Shapes : kind = s[1] /\ w = s[2] /\ h = s[3]
        /\ types \in [1..h -> RowTypes] /\ dev \in DevChoices
        /\ pix \in (IF Palette = <<>> THEN {<<>>} ELSE [1..(w * h) -> 1..Len(Palette)])
        /\ phase = "write" /\ r = 1 /\ enc = <<>> /\ above = <<>> /\ out = <<>>

AWriteRow == /\ phase = "write" /\ r <= h
             /\ enc' = enc \o <<types[r]>> \o FilterRow(types[r], Row(r), IF r = 1 THEN Zeros(RL) ELSE Row(r - 1), BPP)
             /\ r' = r + 1 /\ UNCHANGED <<kind, w, h, types, pix, dev, phase, above, out>>
AWriteDone == /\ phase = "write" /\ r > h /\ phase' = "read" /\ r' = 1 /\ above' = CodedAbove0(Colors, w, Bits, {})
              /\ UNCHANGED <<kind, w, h, types, pix, dev, enc, out>>
\* the seeded tie-break: the smallest (distance, value) pair
Least2(x, y) == IF x <= y THEN x ELSE y
PaethByValue(a, b, c) ==
  LET p == a + b - c  pa == Abs(p - a)  pb == Abs(p - b)  pc == Abs(p - c)
      m == Least2(pa, Least2(pb, pc))
      cands == {x \in {<<pa, a>>, <<pb, b>>, <<pc, c>>} : x[1] = m}
  IN CHOOSE v \in {x[2] : x \in cands} : \A u \in {x[2] : x \in cands} : v <= u
RECURSIVE TieGo(_, _, _, _)
TieGo(line, abv, bpp, raw) ==
  IF Len(raw) = Len(line) THEN [raw |-> raw, err |-> "none"]
  ELSE LET j == Len(raw) + 1
           a == IF j - bpp >= 1 THEN raw[j - bpp] ELSE 0
           b == abv[j]
           c == IF j - bpp >= 1 THEN abv[j - bpp] ELSE 0
       IN TieGo(line, abv, bpp, Append(raw, (line[j] + PaethByValue(a, b, c)) % 256))

AReadRow == /\ phase = "read" /\ r <= h
            /\ LET at == (r - 1) * (RL + 1)
                   ty == enc[at + 1]
                   line == SubSeq(enc, at + 2, at + 1 + RL)
                   res == IF ty = 4 /\ "PaethTieByValue" \in dev THEN TieGo(line, above, BPP, <<>>) ELSE CodedRow(ty, line, above, BPP) IN
               /\ out' = out \o res.raw
               /\ above' = IF ty = 0 /\ "NoneKeepsAbove" \in dev THEN above ELSE res.raw
            /\ r' = r + 1 /\ UNCHANGED <<kind, w, h, types, pix, dev, phase, enc>>
AReadDone == /\ phase = "read" /\ r > h /\ phase' = "done" /\ UNCHANGED <<kind, w, h, types, pix, dev, r, enc, above, out>>
Next == AWriteRow \/ AWriteDone \/ AReadRow \/ AReadDone
Spec == Init /\ [][Next]_vars

Intended == dev = {}
P_SamplesBack == phase = "done" => out = Samples
SamplesBack == Intended => P_SamplesBack
\* the reference inverse of PredictorOps agrees row by row (two references against each other)
RefInverts == phase = "read" => \A k \in 1..h :
  UnfilterRow(types[k], FilterRow(types[k], Row(k), IF k = 1 THEN Zeros(RL) ELSE Row(k - 1), BPP), IF k = 1 THEN Zeros(RL) ELSE Row(k - 1), BPP) = Row(k)
EncLength == phase # "write" => Len(enc) = h * (RL + 1)
EmitTerminal == phase = "done" =>
  PrintT("@@" \o ToJson([kind |-> kind, w |-> w, h |-> h, types |-> types, pix |-> pix, pal |-> Palette, dev |-> dev, enc |-> enc, out |-> out]))
=============================================================================
