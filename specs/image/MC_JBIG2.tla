---- MODULE MC_JBIG2 ----
EXTENDS JBIG2
B2 == {FALSE, TRUE}
RefChoices == {<<>>, <<1>>, <<1, 2, 3, 4>>, <<1, 2, 3, 4, 5>>, <<2, 3, 4, 5, 6, 7, 8, 9>>, <<1, 2, 3, 4, 5, 6, 7, 8, 9>>}
\* retain patterns for n referred-to segments: none, all, alternating
RetainFor(n) == {[q \in 1..(n + 1) |-> 0], [q \in 1..(n + 1) |-> 1], [q \in 1..(n + 1) |-> q % 2], [q \in 1..(n + 1) |-> IF q = n + 1 THEN 1 ELSE 0]}
PageChoices == {<<FALSE, 0>>, <<FALSE, 1>>, <<FALSE, 255>>, <<TRUE, 1>>, <<TRUE, 256>>, <<TRUE, 70000>>}
DataChoices == {<<>>, <<7>>, <<0, 10>>}
\* every single segment of the product
SingleSegs == {Seg(n, t, d, pg[1], pg[2], r, rt, dt) : n \in {1, 256, 257, 65536, 65537}, t \in {0, 38, 49}, d \in B2, pg \in PageChoices,
               r \in {<<>>}, rt \in {<<0>>}, dt \in DataChoices}
SingleLists == {<<s>> : s \in SingleSegs}
SingleListsQuick == {<<s>> : s \in {sg \in SingleSegs : sg.num \in {1, 65537} /\ sg.type \in {0, 49}}}
RefSegs == UNION {{Seg(n, 0, FALSE, FALSE, 1, r, rt, <<7>>) : rt \in RetainFor(Len(r))} : n \in {10, 256, 257, 65537}, r \in RefChoices}
RefLists == {<<s>> : s \in RefSegs}
\* short lists for the page bookkeeping of write_segments / write_file
Small == {Seg(n, t, FALSE, FALSE, pg, <<>>, <<0>>, <<7>>) : n \in {1}, t \in {0, 48, 49}, pg \in {0, 1, 2}}
Renum(ss) == [q \in 1..Len(ss) |-> [ss[q] EXCEPT !.num = q]]
PageLists == {<<>>} \cup {Renum(<<a>>) : a \in Small} \cup {Renum(<<a, b>>) : a \in Small, b \in Small}
             \cup {Renum(<<a, b, c>>) : a \in Small, b \in Small, c \in Small}
NoGlobals == {<<>>}
\* a globals stream: a symbol dictionary (page 0) whose data may end in LF
GlobalChoices == {<<>>, <<Seg(0, 0, FALSE, FALSE, 0, <<>>, <<1>>, <<5, 6>>)>>, <<Seg(0, 0, FALSE, FALSE, 0, <<>>, <<1>>, <<5, 10>>)>>}
PageListsQuick == {<<>>} \cup {Renum(<<a>>) : a \in Small} \cup {Renum(<<a, b>>) : a \in Small, b \in Small}
GlobalOne == {<<Seg(0, 0, FALSE, FALSE, 0, <<>>, <<1>>, <<5, 6>>)>>}
ImageAfterGlobals == {<<Seg(1, 48, FALSE, FALSE, 1, <<>>, <<0>>, <<9>>), Seg(2, 38, FALSE, FALSE, 1, <<0>>, <<0, 1>>, <<8, 8>>)>>}
DirectModes == {"roundtrip", "writefile"}
WriteFileMode == {"writefile"}
ExportMode == {"export"}
ExportLists == ImageAfterGlobals \cup {<<Seg(1, 48, FALSE, FALSE, 1, <<>>, <<0>>, <<9>>), Seg(2, 49, FALSE, FALSE, 1, <<>>, <<0>>, <<>>)>>,
               <<Seg(1, 38, FALSE, TRUE, 300, <<>>, <<0>>, <<9>>)>>, <<Seg(300, 38, FALSE, FALSE, 1, <<1, 2>>, <<0, 1, 1>>, <<9>>)>>,
               <<Seg(3, 38, FALSE, FALSE, 1, <<0, 1, 2, 4, 5>>, <<1, 0, 1, 0, 1, 1>>, <<9>>)>>}
OnlyIntended == {{}}
====
