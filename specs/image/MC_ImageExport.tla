---- MODULE MC_ImageExport ----
EXTENDS ImageExport
Geo5 == (1..5) \X (1..5)
Geo3 == (1..3) \X (1..3)
Geo1 == {<<1, 1>>}
Geo2x1 == {<<2, 1>>}
\* images large enough for a table-full LZW clear (48x40 RGB = 5,760 noise-like bytes) and RunLength runs above 128 (151 wide)
GeoLarge == {<<48, 40>>, <<151, 13>>, <<66, 35>>}
GeoLargeQuick == {<<48, 40>>, <<151, 13>>}
KindsLarge == {"gray", "rgb"}
KindRgb == {"rgb"}
\* every filter that takes DecodeParms x every predictor class, alone and in either position of a 2-filter chain
PredChains == {<<pf>> : pf \in PredictorFilters} \cup {<<pf, x>> : pf \in PredictorFilters, x \in {"LZW", "A85", "Flate"}}
              \cup {<<x, pf>> : x \in {"LZW", "A85", "Flate"}, pf \in PredictorFilters}
              \cup {<<pf, pg>> : pf \in PredictorFilters, pg \in PredictorFilters}
PredChainsQuick == {<<pf>> : pf \in PredictorFilters} \cup {<<pf, x>> : pf \in PredictorFilters, x \in {"LZW", "A85"}}
                   \cup {<<x, pf>> : x \in {"LZW", "A85"}, pf \in PredictorFilters}
GeoPred == {<<3, 2>>, <<5, 4>>}
GeoPredQuick == {<<4, 3>>}
OnlyPlainSpelling == {PlainSpelling}
FSp == {"name", "abbr", "arr1", "indirect", "arrind"}
PSp == {"direct", "indirect", "arr"}
CSp == {"name", "indirect", "array"}
GSp == {"direct", "indirect"}
SpellingsFull == FSp \X PSp \X CSp \X GSp
\* each entry varied on its own, and everything indirect at once
SpellingsQuick == {<<f, "direct", "name", "direct">> : f \in FSp} \cup {<<"name", q, "name", "direct">> : q \in PSp}
                  \cup {<<"name", "direct", c, "direct">> : c \in CSp} \cup {<<"name", "direct", "name", "indirect">>,
                  <<"indirect", "indirect", "indirect", "indirect">>, <<"arrind", "arr", "array", "indirect">>}
\* every export route that can be realised, with and without /DecodeParms
RouteChains == {<<>>, <<"Flate">>, <<"LZWPNG">>, <<"DCT">>, <<"A85", "DCT">>, <<"LZW">>}
PlainOnly == {"plain"}
Encrypted == {"RC4", "AESV2"}
\* every export route that can be realised: jpeg (DCT alone, DCT behind ASCII85), bitmap (unfiltered, Flate, LZW), raw (cmyk + LZW)
EncChains == {<<>>, <<"Flate">>, <<"LZW">>, <<"DCT">>, <<"A85", "DCT">>}
GeoEnc == {<<3, 2>>}
\* enough codes behind the clear code for the width switch of LZW (/EarlyChange 0 and 1 differ from 510 / 511 entries on)
GeoLZW == {<<32, 24>>}
LZWChains == {<<"LZW">>, <<"LZWE0">>, <<"LZWE1">>, <<"A85", "LZWE0">>}
KindsBmp == {"bw", "gray", "rgb"}
KindsAll == {"bw", "gray", "rgb", "cmyk"}
KindGray == {"gray"}
KindBw == {"bw"}
FilterNames == {"Flate", "LZW", "A85", "AHx", "RL", "DCT", "JPX", "JBIG2", "CCITT"}
ChainsUnfiltered == {<<>>}
ChainsUpTo2 == {<<>>} \cup {<<a>> : a \in FilterNames} \cup {<<a, b>> : a \in FilterNames, b \in FilterNames}
ChainsNaming == {<<"Flate">>, <<"DCT">>}
OneImage == {<<"A">>}
NameBase == {"A", "A.0", "B"}
NamesUpTo3 == {<<a>> : a \in NameBase} \cup {<<a, b>> : a \in NameBase, b \in NameBase}
              \cup {<<a, b, c>> : a \in NameBase, b \in NameBase, c \in NameBase}
EmptyDir == {{}}
Dirs == {{}, {"A.bmp"}, {"A.bmp", "A.0.bmp", "A.jpg"}}
OnlyIntended == {{}}
====
