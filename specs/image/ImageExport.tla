---------------------------- MODULE ImageExport ----------------------------
(***************************************************************************)
(* C18 (first half): ImageWriter.export_image.                             *)
(* A sequence of images is exported into one output directory:             *)
(*   ADecide     the decision tree of export_image on (last filter, any    *)
(*               JBIG2 filter, bits, colour space, number of filters)      *)
(*   AName / ANameRetry / ACreate   _create_unique_image_name: name + ext, *)
(*               then name.N.ext while the path exists; open(path, "wb")   *)
(*   AHeader, AInfo, APalEntry      BMPWriter.__init__: file header, info  *)
(*               header, colour table, one write() each                    *)
(*   ASeekLine / AWriteLine         BMPWriter.write_line(y, data): seek to *)
(*               pos1 - (y+1)*linesize, write the row                      *)
(*   AWriteBlob  the other writers: the decoded stream data as it is       *)
(*   AClose      end of `with open(...)`                                   *)
(* The file is a sequence of byte values; a write beyond the end fills the *)
(* gap with zeros (POSIX).  Sample bytes are 3*k+1 for the k-th byte of    *)
(* the image data, so that any displacement is visible.                    *)
(*                                                                         *)
(* dev - named deviations of the code from the intended design:            *)
(*   "UnfilteredIndexError"  filters[-1] is taken of an empty filter list  *)
(*   "RowsRGB"       24-bit rows are written R,G,B; a BMP row is B,G,R     *)
(*   "ShortLastRow"  a row is written without its padding to linesize, so  *)
(*                   the top row (written at the end of the file) leaves   *)
(*                   the file shorter than the header says                 *)
(***************************************************************************)
EXTENDS ImageOps, Json

CONSTANTS Geometries,   \* set of <<w, h>>
          PixKinds,     \* subset of {"bw", "gray", "rgb", "cmyk"}: (bits, colour space)
          Chains,       \* set of filter chains (sequences of filter names)
          NameSets,     \* set of sequences of XObject names: the images exported in one run
          PreExisting,  \* set of sets of file names already in the directory
          Spellings,    \* how the stream dictionary spells /Filter, /DecodeParms, /ColorSpace, /Width /Height /BitsPerComponent
          Envs,         \* the document the images sit in: "plain", or encrypted with "RC4" / "AESV2"
          DevChoices

VARIABLES imgs, dev, env, fs0,                       \* the case: image descriptors, deviations, directory before the run
          k, pc, fs, names, dec, nm, idx,       \* current image, program counter, directory, returned names, decision, candidate name
          file, pos, y, pal, files              \* open file (bytes), offset, current row, colour-table index, closed files
vars == <<imgs, dev, env, fs0, k, pc, fs, names, dec, nm, idx, file, pos, y, pal, files>>

Init == /\ dev \in DevChoices /\ fs0 \in PreExisting /\ env \in Envs
        /\ \E ns \in NameSets : \E f \in [1..Len(ns) -> (Geometries \X PixKinds \X Chains \X Spellings)] :
              imgs = [q \in 1..Len(ns) |-> ImgS(ns[q], f[q][3], f[q][2], f[q][1], f[q][4])]
        /\ k = 1 /\ pc = "decide" /\ fs = fs0 /\ names = <<>> /\ dec = "" /\ nm = "" /\ idx = 0
        /\ file = <<>> /\ pos = 0 /\ y = 0 /\ pal = 0 /\ files = <<>>

Cur == imgs[k]
\* encryption of stream data: an uninterpreted invertible function of the bytes (DESIGN.md 1.1); identity in a plain document
Cipher(e, b) == IF e = "plain" THEN b ELSE [q \in 1..Len(b) |-> (b[q] + (IF e = "RC4" THEN 101 ELSE 57)) % 256]

ADecide == /\ pc = "decide" /\ k <= Len(imgs)
           /\ dec' = Decide(Cur, dev)
           /\ pc' = IF dec' \in {"IndexError", "TypeError"} THEN "error" ELSE "name"
           /\ UNCHANGED <<imgs, dev, env, fs0, k, fs, names, nm, idx, file, pos, y, pal, files>>

\* ------------------------------------------------------------------ _create_unique_image_name
AName == /\ pc = "name"
         /\ nm' = Cur.name \o Ext(Cur, dec) /\ idx' = 0 /\ pc' = "exists"
         /\ UNCHANGED <<imgs, dev, env, fs0, k, fs, names, dec, file, pos, y, pal, files>>
ANameRetry == /\ pc = "exists" /\ nm \in fs                             \* while os.path.exists(path)
              /\ nm' = Cur.name \o "." \o ToString(idx) \o Ext(Cur, dec) /\ idx' = idx + 1
              /\ UNCHANGED <<imgs, dev, env, fs0, k, pc, fs, names, dec, file, pos, y, pal, files>>
ACreate == /\ pc = "exists" /\ nm \notin fs                             \* open(path, "wb")
           /\ fs' = fs \cup {nm} /\ names' = Append(names, nm) /\ file' = <<>> /\ pos' = 0 /\ y' = 0 /\ pal' = 0
           /\ pc' = IF dec = "bmp" THEN "header" ELSE "blob"
           /\ UNCHANGED <<imgs, dev, env, fs0, k, dec, nm, idx, files>>

DoWrite(bytes) == file' = WriteAt(file, pos, bytes) /\ pos' = pos + Len(bytes)

AHeader == /\ pc = "header"
           /\ DoWrite(<<66, 77>> \o LE32(HeaderSize(Cur) + DataSize(Cur)) \o LE16(0) \o LE16(0) \o LE32(HeaderSize(Cur)))
           /\ pc' = "info"
           /\ UNCHANGED <<imgs, dev, env, fs0, k, fs, names, dec, nm, idx, y, pal, files>>
AInfo == /\ pc = "info"
         /\ DoWrite(LE32(40) \o LE32(Cur.w) \o LE32(Cur.h) \o LE16(1) \o LE16(BmpBits(Cur.pk)) \o LE32(0) \o LE32(DataSize(Cur))
                    \o LE32(0) \o LE32(0) \o LE32(NCols(BmpBits(Cur.pk))) \o LE32(0))
         /\ pc' = IF NCols(BmpBits(Cur.pk)) = 0 THEN "rows" ELSE "palette"
         /\ UNCHANGED <<imgs, dev, env, fs0, k, fs, names, dec, nm, idx, y, pal, files>>
APalEntry == /\ pc = "palette"
             /\ LET v == PalValue(BmpBits(Cur.pk), pal) IN DoWrite(<<v, v, v, 0>>)
             /\ pal' = pal + 1
             /\ pc' = IF pal + 1 = NCols(BmpBits(Cur.pk)) THEN "rows" ELSE "palette"
             /\ UNCHANGED <<imgs, dev, env, fs0, k, fs, names, dec, nm, idx, y, files>>
\* _save_bmp: for y in range(height): bmp.write_line(y, data[i : i + bytes_per_line])
ASeekLine == /\ pc = "rows" /\ y < Cur.h
             /\ pos' = Pos1(Cur) - (y + 1) * LineSize(Cur) /\ pc' = "line"
             /\ UNCHANGED <<imgs, dev, env, fs0, k, fs, names, dec, nm, idx, file, y, pal, files>>
AWriteLine == /\ pc = "line"
              /\ DoWrite(LineBytes(Cur, y, dev)) /\ y' = y + 1 /\ pc' = "rows"
              /\ UNCHANGED <<imgs, dev, env, fs0, k, fs, names, dec, nm, idx, pal, files>>
\* the other writers put the decoded stream data into the file as it is (JPEG: the DCT data; raw: the samples)
AWriteBlob == /\ pc = "blob"
              \* get_data(): the stored bytes decrypted, then every filter but the image format's undone.  As a deviation
              \* ("JpegRawdata", a seeded change) a JPEG stored with DCTDecode alone is written from the stored bytes -
              \* still encrypted in an encrypted document.
              /\ DoWrite(IF dec = "jpeg" /\ Len(Cur.filters) = 1 /\ "JpegRawdata" \in dev THEN Cipher(env, Blob(Cur)) ELSE Blob(Cur))
              /\ pc' = "written"
              /\ UNCHANGED <<imgs, dev, env, fs0, k, fs, names, dec, nm, idx, y, pal, files>>
AClose == /\ (pc = "written" \/ (pc = "rows" /\ y >= Cur.h))
          /\ files' = Append(files, file) /\ file' = <<>>
          /\ k' = k + 1 /\ pc' = IF k + 1 > Len(imgs) THEN "done" ELSE "decide"
          /\ UNCHANGED <<imgs, dev, env, fs0, fs, names, dec, nm, idx, pos, y, pal>>

Next == ADecide \/ AName \/ ANameRetry \/ ACreate \/ AHeader \/ AInfo \/ APalEntry \/ ASeekLine \/ AWriteLine \/ AWriteBlob \/ AClose
Spec == Init /\ [][Next]_vars

\* ------------------------------------------------------------------ the property
Done == pc = "done"
Intended == dev = {}
InDomain(im) == /\ im.pk \in {"bw", "gray", "rgb"}
                /\ \A q \in 1..Len(im.filters) : im.filters[q] \in Lossless \/ (q = Len(im.filters) /\ im.filters[q] = "DCT")
IsBmp(im) == LastFilter(im) # "DCT"
P_DecisionTotal == pc # "error"
P_DecisionRight == \A q \in 1..Len(files) : InDomain(imgs[q]) =>
                     (Decide(imgs[q], dev) = IF IsBmp(imgs[q]) THEN "bmp" ELSE "jpeg")
P_BMPReadsBack == \A q \in 1..Len(files) : (InDomain(imgs[q]) /\ IsBmp(imgs[q])) =>
  LET f == files[q]  im == imgs[q] IN
  /\ BmpValid(f)
  /\ BmpW(f) = im.w /\ BmpH(f) = im.h /\ BmpBitCount(f) = BmpBits(im.pk)
  /\ Len(f) = HeaderSize(im) + DataSize(im)                           \* file length = header + datasize
  /\ \A x \in 0..(im.w - 1), yy \in 0..(im.h - 1) : BmpPixel(f, x, yy) = PdfPixel(im, x, yy)
P_JPEGByteForByte == \A q \in 1..Len(files) : (InDomain(imgs[q]) /\ ~IsBmp(imgs[q])) => files[q] = Blob(imgs[q])
P_DistinctNames == /\ \A a, b \in 1..Len(names) : a # b => names[a] # names[b]
                   /\ \A a \in 1..Len(names) : names[a] \notin fs0                 \* nothing already there is overwritten
DecisionTotal == Intended => P_DecisionTotal
DecisionRight == Intended => P_DecisionRight
BMPReadsBack == Intended => P_BMPReadsBack
JPEGByteForByte == Intended => P_JPEGByteForByte
DistinctNames == P_DistinctNames                                                  \* claimed for the code as it is
\* structural: seeks stay inside the pixel array; a row never runs into the next one
SeekInArray == pc = "line" => (pos >= HeaderSize(Cur) /\ pos + LineSize(Cur) <= Pos1(Cur))

EmitTerminal ==
  (pc \in {"done", "error"}) =>
     PrintT("@@" \o ToJson([imgs |-> imgs, env |-> env, dev |-> dev, fs0 |-> fs0, pc |-> pc, names |-> names, files |-> files, dec |-> dec]))
=============================================================================
