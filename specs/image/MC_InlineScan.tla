---- MODULE MC_InlineScan ----
EXTENDS InlineScan
Alpha6 == {69, 73, 32, 13, 10, 120}          \* E I SP CR LF other
AlphaA85 == {69, 73, 32, 10, 120}            \* ASCII85 text never contains CR-only quirks of interest beyond LF
FollAll == {<<>>, <<32, 81>>, <<10, 40, 65, 41, 32, 84, 106>>}          \* (end of content) | " Q" | "\n(A) Tj"
FollTwo == {<<>>, <<32, 81>>}
FollOne == {<<32, 81>>}
KindsPlain == {"none"}
KindsAll == {"none", "A85", "ASCII85Decode", "A85Fl", "Fl", "FlA85", "A85Arr", "AHx"}
\* every spelling of an ASCII85 outer filter: abbreviated name, full name, one-element array, multi-element array
KindsA85 == {"A85", "ASCII85Decode", "A85Arr", "A85Fl"}
\* ASCII85 text may hold E, I and white space: EI + SP, EI at a line break
AlphaA85Text == {69, 73, 32, 10}
StylesBoth == {"eol", "direct"}
CutsNone == {"none"}
CutsAll == {"none", "afterID", "afterIDws", "beforeEI", "afterEIws"}
OnlyIntended == {{}}
OnlySP == {32}
IDDelimsAll == {32, 10, 13, 9}
\* first data bytes that matter behind the delimiter: LF, CR, SP, other
AlphaFirst == {10, 13, 32, 120}
NoLead == {<<>>}
\* the inline image in the 1st, 2nd, 3rd stream of the array, after streams of 2, 17+2 and 40 bytes
LeadsAll == {<<>>, <<2>>, <<17, 2>>, <<40>>}
====
