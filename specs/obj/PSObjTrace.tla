----------------------------- MODULE PSObjTrace -----------------------------
(***************************************************************************)
(* Binding B for C01: every recorded run  (bytes written by an independent *)
(* spelling driver for a known value, value, what pdfminer read back) is   *)
(* re-read by the specification's tokenizer + parser.  A record is         *)
(* accepted when pdfminer's result is exactly the result of the as-coded   *)
(* model; the specification, not the driver, then says whether the value   *)
(* was read back (ok) and which named deviation is to blame if not.        *)
(***************************************************************************)
EXTENDS PSObj, IOUtils

Recs == JsonDeserialize(IOEnv.TRACE_FILE)

VARIABLE i
\* JSON -> value
RECURSIVE FromJ(_)
FromJ(j) == CASE j.k = "arr" -> VArr([n \in 1..Len(j.v) |-> FromJ(j.v[n])])
              [] j.k = "dict" -> VDict([n \in 1..Len(j.v) |-> <<j.v[n][1], FromJ(j.v[n][2])>>])
              [] OTHER -> [k |-> j.k, v |-> j.v]
Vals(js) == [n \in 1..Len(js) |-> FromJ(js[n])]

TInit == i = 1 /\ case = [nodes |-> <<>>, variant |-> "stream"] /\ toks = <<>> /\ ps = P0 /\ phase = "trace"
Model(r) == ParseFold(P0, RefOut(r.bytes, Dev), "stream", PDev)
\* ("non-name-key": the model gives no prediction once a deviation has turned a dictionary key into a non-name)
Accept(r) == LET m == Model(r) IN
             IF m.err = "non-name-key" THEN TRUE
             ELSE IF r.err # "none" THEN m.err = r.err
             ELSE m.err = "none" /\ SeqEq(m.results, Vals(r.observed))
TStep == /\ i <= Len(Recs)
         /\ Accept(Recs[i])
         /\ LET r == Recs[i]  m == Model(r)
                okv == m.err = "none" /\ SeqEq(m.results, Vals(r.want))
                idl == ParseFold(P0, RefOut(r.bytes, {}), "stream", {})
                blame == IF okv THEN {}
                         ELSE {d \in Dev : LET x == ParseFold(P0, RefOut(r.bytes, {d}), "stream", {}) IN
                                              ~(x.err = "none" /\ SeqEq(x.results, Vals(r.want)))}
                              \cup {d \in PDev : LET x == ParseFold(P0, RefOut(r.bytes, {}), "stream", {d}) IN
                                              ~(x.err = "none" /\ SeqEq(x.results, Vals(r.want)))}
            IN /\ idl.err = "none" /\ SeqEq(idl.results, Vals(r.want))      \* the driver's spelling is conformant
               /\ PrintT("@@" \o ToJson([id |-> r.id, ok |-> okv, blame |-> blame]))
         /\ i' = i + 1 /\ UNCHANGED <<case, toks, ps, phase>>
TDone == i > Len(Recs) /\ UNCHANGED <<i, case, toks, ps, phase>>
TNext == TStep \/ TDone
=============================================================================
