----------------------------- MODULE MC_PSObj -----------------------------
(***************************************************************************)
(* Case enumeration for PSObj: which values, which spellings (all of       *)
(* Spell.tla's for the leaf pools), which contexts and separators.  Cases  *)
(* are enumerated by nested existential choice in the Init predicates so   *)
(* that TLC never materialises a huge set.                                 *)
(***************************************************************************)
EXTENDS PSObj

NoDev == {}
Bufs == {1, 2, 3, 7}
Variants == {"stream", "doc"}

SeqsUpTo(A, n) == UNION {[1..m -> A] : m \in 0..n}
\* (195, 169 = C3 A9: a valid multi-byte UTF-8 sequence; 233 alone is not UTF-8: pdfminer keeps such a name as bytes)
NameB == {74, 32, 35, 233, 195, 169}
StrB  == {65, 10, 13, 40, 41, 92, 0, 200, 55}
HexB  == {74, 160, 0, 95}

\* "there is a leaf x (a value of pool `sel` with one of its spellings) such that Q(x)"
\* LN/LS/LH: length bounds for names / literal strings / hex strings; LC/LW: up to which length
\* line continuations / white space inside hex strings are enumerated as well
ExLeaf(sel, LN, LS, LC, LH, LW, Q(_)) ==
  \/ "int" \in sel /\ \E n \in {0, 7, -3, 10} : \E b \in IntSpell(n) : Q(Leaf(VInt(n), b))
  \/ "real" \in sel /\ \E r \in {<<5, 1>>, <<-325, 2>>, <<4, 0>>, <<2, 3>>} :
                          \E b \in RealSpell(r[1], r[2]) : Q(Leaf(VReal(r[1], r[2]), b))
  \/ "name" \in sel /\ \E v \in SeqsUpTo(NameB, LN) : \E b \in NameSpell(v) : Q(Leaf(VName(v), b))
  \/ "lit" \in sel /\ \E v \in SeqsUpTo(StrB, LS) : \E b \in LitSpell(v, Len(v) <= LC) : Q(Leaf(VStr(v), b))
  \/ "hex" \in sel /\ \E v \in SeqsUpTo(HexB, LH) : \E b \in HexSpell(v, Len(v) <= LW) : Q(Leaf(VStr(v), b))
  \/ "ref" \in sel /\ \E x \in {Leaf(VRef(12), <<49, 50, 32, 48, 32, 82>>), Leaf(VRef(3), <<51, 10, 48, 37, 99, 13, 82>>),
                                Leaf(VRef(5), <<53, 0, 48, 13, 10, 82>>)} : Q(x)
  \/ "const" \in sel /\ \E x \in {Leaf(VNull, <<110, 117, 108, 108>>), Leaf(VBool(TRUE), <<116, 114, 117, 101>>),
                                  Leaf(VBool(FALSE), <<102, 97, 108, 115, 101>>)} : Q(x)
AllKinds == {"int", "real", "name", "lit", "hex", "ref", "const"}

\* ---- representatives --------------------------------------------------------
N1 == Leaf(VName(<<78>>), <<47, 78>>)                       \* /N
K1 == Leaf(VName(<<75>>), <<47, 75>>)                       \* /K
L1 == Leaf(VName(<<76>>), <<47, 76>>)                       \* /L
I7 == Leaf(VInt(7), <<55>>)
R5 == Leaf(VReal(5, 1), <<46, 53>>)
S1 == Leaf(VStr(<<115>>), <<40, 115, 41>>)                  \* (s)
H1 == Leaf(VStr(<<74>>), <<60, 52, 65, 62>>)                \* <4A>
TT == Leaf(VBool(TRUE), <<116, 114, 117, 101>>)
NL == Leaf(VNull, <<110, 117, 108, 108>>)
RF == Leaf(VRef(12), <<49, 50, 32, 48, 32, 82>>)
EA == ArrN(<<>>)
ED == DictN(<<>>)
A1 == ArrN(<<I7>>)
D1 == DictN(<<K1, Sep(<<32>>), I7>>)
\* a name longer than the 127 bytes ISO 32000-1 Annex C once listed as an implementation limit
LongName == Leaf(VName([i \in 1..130 |-> 74]), <<47>> \o [i \in 1..130 |-> 74])
Rep == {N1, I7, R5, S1, H1, TT, NL, RF, LongName, Leaf(VName(<<99, 195, 169>>), <<47, 99, 35, 67, 51, 35, 65, 57>>), Leaf(VInt(-3), <<45, 51>>), Leaf(VReal(4, 0), <<52, 46>>),
        Leaf(VName(<<74, 32>>), <<47, 74, 35, 50, 48>>), Leaf(VName(<<>>), <<47>>),
        Leaf(VStr(<<40, 41>>), <<40, 40, 41, 41>>), Leaf(VStr(<<10>>), <<40, 92, 110, 41>>),
        Leaf(VStr(<<>>), <<60, 62>>), Leaf(VStr(<<160>>), <<60, 97, 48, 62>>), Leaf(VStr(<<65>>), <<40, 92, 49, 48, 49, 41>>)}
RepSmall == {I7, N1, S1, H1, NL, TT, RF, R5}
CtxSmall == {N1, I7, S1, H1, EA}
CtxFull  == {N1, I7, R5, S1, H1, TT, NL, RF, A1, D1, EA, ED}

NB(x) == NodeBytes(x)
MinSep(x, y) == IF NeedSep(NB(x), NB(y)) THEN Sep(<<32>>) ELSE Sep(<<>>)
SepsFor(x, y) == {Sep(b) : b \in Seps} \cup {MinSep(x, y)}
Case(nodes, v) == [nodes |-> nodes, variant |-> v]

\* A: every leaf spelling between a name and an integer, inside an array
InitA(sel, LN, LS, LC, LH, LW) ==
  \E v \in Variants : ExLeaf(sel, LN, LS, LC, LH, LW,
      LAMBDA x : StartWith(Case(<<ArrN(<<N1, MinSep(N1, x), x, MinSep(x, I7), I7>>)>>, v)))
\* B: representative leaves between every pair of contexts with every separator on either side
InitB(X, C) ==
  \E v \in Variants, l \in C, x \in X, r \in C :
     \/ \E s \in SepsFor(l, x) : StartWith(Case(<<ArrN(<<l, s, x, MinSep(x, r), r>>)>>, v))
     \/ \E t \in SepsFor(x, r) : StartWith(Case(<<ArrN(<<l, MinSep(l, x), x, t, r>>)>>, v))
\* C: dictionaries, one separator style throughout
DSeps == {<<>>, <<32>>, <<10>>, <<37, 99, 10>>, <<0>>, <<13, 10>>}
SafeSep(b, x, y) == IF b = <<>> THEN MinSep(x, y) ELSE Sep(b)
InitC(X) ==
  \E v \in Variants, x \in X, y \in X, b \in DSeps :
     StartWith(Case(<<DictN(<<Sep(b), K1, SafeSep(b, K1, x), x, SafeSep(b, x, L1), L1, SafeSep(b, L1, y), y, Sep(b)>>)>>, v))
\* D: nesting to depth 3
Arrs(T, n) == {ArrN(<<>>)} \cup {ArrN(<<x>>) : x \in T}
              \cup (IF n >= 2 THEN {ArrN(<<x, MinSep(x, y), y>>) : x \in T, y \in T} ELSE {})
Dicts(T, n) == {DictN(<<>>)} \cup {DictN(<<K1, MinSep(K1, x), x>>) : x \in T}
              \cup (IF n >= 2 THEN {DictN(<<K1, MinSep(K1, x), x, MinSep(x, L1), L1, MinSep(L1, y), y>>) : x \in T, y \in T} ELSE {})
T0 == {I7, N1, S1, RF, NL}
T1 == Arrs(T0, 2) \cup Dicts(T0, 2)
InitD(n) ==
  \E v \in Variants :
     \/ \E t \in T1 : StartWith(Case(<<t>>, v))
     \/ \E t \in Arrs(T0 \cup T1, n) \cup Dicts(T0 \cup T1, n) :
           \/ StartWith(Case(<<t>>, v))
           \/ StartWith(Case(<<ArrN(<<t>>)>>, v))
           \/ StartWith(Case(<<DictN(<<K1, MinSep(K1, t), t>>)>>, v))
\* E: top-level sequences of objects (content-stream style), stream variant only
InitE(X) == \E x \in X, y \in X, z \in X : StartWith(Case(<<x, MinSep(x, y), y, MinSep(y, z), z>>, "stream"))

\* F: every representative leaf as the whole object (`n 0 obj null endobj`, an object-stream member that is one token)
InitF(X) == \E v \in Variants, x \in X : StartWith(Case(<<x>>, v))

InitQuickA == InitA(AllKinds, 2, 2, 1, 2, 1)
InitQuickB == InitB(Rep, CtxSmall) \/ InitC(RepSmall) \/ InitD(1) \/ InitE(RepSmall) \/ InitF(Rep \cup {EA, ED})
InitFullA  == InitA(AllKinds, 3, 2, 2, 2, 2)
InitFullB  == InitB(Rep, CtxFull)
InitFullC  == InitC(Rep) \/ InitD(2) \/ InitE(Rep) \/ InitF(Rep \cup {EA, ED, A1, D1})
=============================================================================
