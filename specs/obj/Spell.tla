------------------------------- MODULE Spell -------------------------------
(***************************************************************************)
(* The ISO 32000-1 (7.2, 7.3) *spelling relation*: for a PDF value, the    *)
(* set of byte strings a conforming writer may emit for it.  Written       *)
(* declaratively from the standard, independently of pdfminer's reader.    *)
(* Values are records [k |-> kind, v |-> payload]:                         *)
(*   null <<>>, bool <<0|1>>, int <<n>>, real <<m, s>> (= m / 10^s,        *)
(*   normalised), name/str/kw Seq(byte), ref <<objid>> - all leaf payloads *)
(*   are integer sequences so that TLC can order sets of leaves -,         *)
(*   arr(Seq(value)),                                                      *)
(*   dict(Seq(<<key bytes, value>>)), kw(Seq(byte))                        *)
(***************************************************************************)
EXTENDS Integers, Sequences, FiniteSets

VNull       == [k |-> "null", v |-> <<>>]
VBool(b)    == [k |-> "bool", v |-> <<IF b THEN 1 ELSE 0>>]
VInt(n)     == [k |-> "int", v |-> <<n>>]
VReal(m, s) == [k |-> "real", v |-> <<m, s>>]
VName(b)    == [k |-> "name", v |-> b]
VStr(b)     == [k |-> "str", v |-> b]
VRef(n)     == [k |-> "ref", v |-> <<n>>]
VArr(q)     == [k |-> "arr", v |-> q]
VDict(q)    == [k |-> "dict", v |-> q]
VKw(b)      == [k |-> "kw", v |-> b]

RECURSIVE VEq(_, _)
VEq(a, b) ==
  /\ a.k = b.k
  /\ CASE a.k = "arr"  -> /\ Len(a.v) = Len(b.v)
                          /\ \A i \in 1..Len(a.v) : VEq(a.v[i], b.v[i])
       [] a.k = "dict" -> /\ Len(a.v) = Len(b.v)
                          /\ \A i \in 1..Len(a.v) : \E j \in 1..Len(b.v) :
                                a.v[i][1] = b.v[j][1] /\ VEq(a.v[i][2], b.v[j][2])
       [] a.k = "null" -> TRUE
       [] OTHER -> a.v = b.v

SeqEq(p, q) == Len(p) = Len(q) /\ \A i \in 1..Len(p) : VEq(p[i], q[i])

\* ------------------------------------------------------------------ helpers
Cat(A, B) == {x \o y : x \in A, y \in B}
WSP    == {0, 9, 10, 12, 13, 32}                 \* ISO table 1 (white-space characters)
DELIM  == {40, 41, 60, 62, 91, 93, 123, 125, 47, 37}
Regular(c) == c \notin WSP /\ c \notin DELIM

HexDig(n, up) == IF n < 10 THEN 48 + n ELSE (IF up THEN 55 ELSE 87) + n
HexPairs2(b) == {<<HexDig(b \div 16, u1), HexDig(b % 16, u2)>> : u1 \in BOOLEAN, u2 \in BOOLEAN}

RECURSIVE Digits(_)
Digits(n) == IF n < 10 THEN <<48 + n>> ELSE Append(Digits(n \div 10), 48 + (n % 10))
Abs(n) == IF n < 0 THEN -n ELSE n

\* ------------------------------------------------------------------ numbers (7.3.3)
IntSpell(n) ==
  LET d == Digits(Abs(n))
      bodies == {d, <<48>> \o d, <<48, 48>> \o d}
      signs == IF n < 0 THEN {<<45>>} ELSE IF n = 0 THEN {<<>>, <<43>>, <<45>>} ELSE {<<>>, <<43>>}
  IN Cat(signs, bodies)

\* value m / 10^s with s >= 0; I = integer part digits, F = fraction digits (exactly s of them)
RECURSIVE Pow10(_)
Pow10(s) == IF s = 0 THEN 1 ELSE 10 * Pow10(s - 1)
RECURSIVE PadLeft(_, _)
PadLeft(d, n) == IF Len(d) >= n THEN d ELSE PadLeft(<<48>> \o d, n)
RealSpell(m, s) ==
  LET a == Abs(m)
      I == Digits(a \div Pow10(s))
      F == IF s = 0 THEN <<>> ELSE PadLeft(Digits(a % Pow10(s)), s)
      ints == {I, <<48>> \o I} \cup (IF I = <<48>> /\ F # <<>> THEN {<<>>} ELSE {})
      fracs == {F, Append(F, 48)}
      signs == IF m < 0 THEN {<<45>>} ELSE {<<>>, <<43>>}
  IN {sg \o i \o <<46>> \o f : sg \in signs, i \in ints, f \in fracs}

\* ------------------------------------------------------------------ names (7.3.5)
NameByte(b) == (IF (b \in 33..126 /\ b \notin DELIM /\ b # 35) \/ b > 126 THEN {<<b>>} ELSE {})
               \cup {<<35>> \o h : h \in HexPairs2(b)}
RECURSIVE NameBody(_)
NameBody(n) == IF n = <<>> THEN {<<>>} ELSE Cat(NameByte(Head(n)), NameBody(Tail(n)))
NameSpell(n) == {<<47>> \o x : x \in NameBody(n)}

\* ------------------------------------------------------------------ literal strings (7.3.4.2)
\* atom: [b |-> bytes, par |-> paren delta of raw parentheses, sh |-> short octal form, val |-> value bytes]
Atom(b, par, sh, val) == [b |-> b, par |-> par, sh |-> sh, val |-> val]
Oct3(c) == <<92, 48 + (c \div 64), 48 + ((c \div 8) % 8), 48 + (c % 8)>>
Oct2(c) == <<92, 48 + (c \div 8), 48 + (c % 8)>>
Oct1(c) == <<92, 48 + c>>
EscLetter(c) == CASE c = 10 -> 110 [] c = 13 -> 114 [] c = 9 -> 116 [] c = 8 -> 98 [] c = 12 -> 102 [] OTHER -> c
LitAtoms(c) ==
     (IF c \notin {40, 41, 92, 13} THEN {Atom(<<c>>, 0, FALSE, <<c>>)} ELSE {})
  \cup (IF c = 10 THEN {Atom(<<13>>, 0, FALSE, <<10>>), Atom(<<13, 10>>, 0, FALSE, <<10>>)} ELSE {})
  \cup (IF c \in {10, 13, 9, 8, 12, 40, 41, 92} THEN {Atom(<<92, EscLetter(c)>>, 0, FALSE, <<c>>)} ELSE {})
  \cup {Atom(Oct3(c), 0, FALSE, <<c>>)}
  \* a backslash before a character that needs none is ignored (7.3.4.2): `\d` spells d
  \cup (IF c \notin (48..55) \cup {110, 114, 116, 98, 102, 40, 41, 92, 13, 10} THEN {Atom(<<92, c>>, 0, FALSE, <<c>>)} ELSE {})
  \cup (IF c < 64 THEN {Atom(Oct2(c), 0, TRUE, <<c>>)} ELSE {})
  \cup (IF c < 8 THEN {Atom(Oct1(c), 0, TRUE, <<c>>)} ELSE {})
  \cup (IF c = 40 THEN {Atom(<<40>>, 1, FALSE, <<c>>)} ELSE {})
  \cup (IF c = 41 THEN {Atom(<<41>>, -1, FALSE, <<c>>)} ELSE {})
ContAtoms == {Atom(<<92, 10>>, 0, FALSE, <<>>), Atom(<<92, 13>>, 0, FALSE, <<>>), Atom(<<92, 13, 10>>, 0, FALSE, <<>>)}

RECURSIVE ParOK(_, _)
ParOK(q, depth) == IF q = <<>> THEN depth = 0
                   ELSE depth + Head(q).par >= 0 /\ ParOK(Tail(q), depth + Head(q).par)
AdjOK(q) == \A i \in 1..(Len(q) - 1) :
              /\ ~(q[i].sh /\ q[i + 1].b[1] \in 48..57)
              /\ ~(q[i].b[Len(q[i].b)] = 13 /\ q[i + 1].b[1] = 10)
RECURSIVE CatAtoms(_)
CatAtoms(q) == IF q = <<>> THEN <<>> ELSE Head(q).b \o CatAtoms(Tail(q))

\* all atom sequences for value s with at most one line continuation, at slot `slot` (0 = none)
RECURSIVE AtomSeqs(_)
AtomSeqs(s) == IF s = <<>> THEN {<<>>}
               ELSE {<<a>> \o r : a \in LitAtoms(Head(s)), r \in AtomSeqs(Tail(s))}
InsertAt(q, i, a) == SubSeq(q, 1, i) \o <<a>> \o SubSeq(q, i + 1, Len(q))
LitSeqs(s, withCont) ==
  LET base == AtomSeqs(s) IN
  base \cup (IF withCont THEN {InsertAt(q, i, a) : q \in base, i \in 0..Len(s), a \in ContAtoms} ELSE {})
LitSpell(s, withCont) ==
  {<<40>> \o CatAtoms(q) \o <<41>> : q \in {x \in LitSeqs(s, withCont) : ParOK(x, 0) /\ AdjOK(x)}}

\* ------------------------------------------------------------------ hexadecimal strings (7.3.4.3)
RECURSIVE HexBody(_)
HexBody(s) == IF s = <<>> THEN {<<>>} ELSE Cat(HexPairs2(Head(s)), HexBody(Tail(s)))
HexWSP == {32, 10, 13, 9, 12, 0}
HexSpell(s, withWS) ==
  LET full == HexBody(s)
      odd == IF s # <<>> /\ s[Len(s)] % 16 = 0 THEN {SubSeq(x, 1, Len(x) - 1) : x \in full} ELSE {}
      digs == full \cup odd
      Ins(x) == {SubSeq(x, 1, i) \o <<w>> \o SubSeq(x, i + 1, Len(x)) : i \in 0..Len(x), w \in HexWSP}
      spaced == IF withWS THEN UNION {Ins(x) : x \in digs} ELSE {}
  IN {<<60>> \o x \o <<62>> : x \in digs \cup spaced}

\* ------------------------------------------------------------------ separators (7.2.2, 7.2.3)
Seps == {<<32>>, <<9>>, <<10>>, <<13>>, <<13, 10>>, <<12>>, <<0>>, <<37, 99, 10>>, <<37, 13>>, <<32, 32>>,
         <<37, 40, 13, 10>>}
\* two adjacent tokens need a separator when the first ends and the second begins with a regular character;
\* a lone SOLIDUS (the empty name) likewise absorbs a following regular character
NeedSep(a, b) == a # <<>> /\ b # <<>> /\ (Regular(a[Len(a)]) \/ a[Len(a)] = 47) /\ Regular(b[1])
=============================================================================
