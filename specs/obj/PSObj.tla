------------------------------- MODULE PSObj -------------------------------
(***************************************************************************)
(* C01: object syntax round trip.  A case is a sequence of spelled nodes   *)
(* (leaves with a spelling chosen from Spell.tla, separators, arrays and   *)
(* dictionaries of nodes).  Its bytes are tokenised by the tokenizer model *)
(* (PSLexOps) and parsed by the stack-parser machine below, shaped like    *)
(* PSStackParser.nextobject + PDFStreamParser/PDFParser.do_keyword.        *)
(* RoundTrip: the parsed values equal the values the case was built from.  *)
(***************************************************************************)
EXTENDS PSLexOps, Spell, TLC, Json

CONSTANTS Dev,        \* tokenizer deviations in force (PSLexOps)
          PDev,       \* parser deviations in force:
                      \*   "StreamNullKw"  PDFStreamParser pushes the keyword `null` instead of the null object
                      \*   "StreamTopRef"  PDFStreamParser: `n g R` outside any container is read as the two integers n and g,
                      \*                   because they were already handed out as results when R arrives (before the
                      \*                   short-stack repair in /repo it raised ValueError)
          BufSizes    \* buffer sizes for which the token sequence must equal the reference

\* ------------------------------------------------------------------ nodes
Leaf(v, b)   == [n |-> "leaf", v |-> v, b |-> b, items |-> <<>>]
Sep(b)       == [n |-> "sep", v |-> VNull, b |-> b, items |-> <<>>]
ArrN(items)  == [n |-> "arr", v |-> VNull, b |-> <<>>, items |-> items]
DictN(items) == [n |-> "dict", v |-> VNull, b |-> <<>>, items |-> items]

RECURSIVE NodeBytes(_), SeqBytes(_)
NodeBytes(x) == CASE x.n = "arr"  -> <<91>> \o SeqBytes(x.items) \o <<93>>
                  [] x.n = "dict" -> <<60, 60>> \o SeqBytes(x.items) \o <<62, 62>>
                  [] OTHER -> x.b
SeqBytes(q) == IF q = <<>> THEN <<>> ELSE NodeBytes(Head(q)) \o SeqBytes(Tail(q))

\* declarative reading of a node sequence (ISO 7.3.6, 7.3.7): the values it denotes
RECURSIVE NodeVal(_), SeqVals(_), Pairs(_)
Pairs(vs) == IF Len(vs) < 2 THEN <<>>
             ELSE (IF vs[2].k = "null" THEN <<>> ELSE <<<<vs[1].v, vs[2]>>>>) \o Pairs(SubSeq(vs, 3, Len(vs)))
NodeVal(x) == CASE x.n = "arr"  -> VArr(SeqVals(x.items))
                [] x.n = "dict" -> VDict(Pairs(SeqVals(x.items)))
                [] OTHER -> x.v
SeqVals(q) == IF q = <<>> THEN <<>>
              ELSE (IF Head(q).n = "sep" THEN <<>> ELSE <<NodeVal(Head(q))>>) \o SeqVals(Tail(q))

\* ------------------------------------------------------------------ token -> value
RECURSIVE DecNum(_)
DecNum(d) == IF d = <<>> THEN 0 ELSE DecNum(SubSeq(d, 1, Len(d) - 1)) * 10 + (d[Len(d)] - 48)
Unsigned(t) == IF t # <<>> /\ t[1] \in {43, 45} THEN Tail(t) ELSE t
Sgn(t) == IF t # <<>> /\ t[1] = 45 THEN -1 ELSE 1
RECURSIVE Norm(_, _)
Norm(m, s) == IF s > 0 /\ m % 10 = 0 THEN Norm(m \div 10, s - 1) ELSE <<m, s>>
RealOf(t) == LET u == Unsigned(t)
                 dot == CHOOSE i \in 1..Len(u) : u[i] = 46
                 ip == SubSeq(u, 1, dot - 1)  fp == SubSeq(u, dot + 1, Len(u))
                 nm == Norm(DecNum(ip \o fp), Len(fp))
             IN VReal(Sgn(t) * nm[1], nm[2])
TokVal(tok) == CASE tok.k = "int"  -> VInt(Sgn(tok.v) * DecNum(Unsigned(tok.v)))
                 [] tok.k = "real" -> RealOf(tok.v)
                 [] tok.k = "lit"  -> VName(tok.v)
                 [] tok.k = "str"  -> VStr(tok.v)
                 [] tok.k = "kw" /\ tok.v = <<116, 114, 117, 101>> -> VBool(TRUE)
                 [] tok.k = "kw" /\ tok.v = <<102, 97, 108, 115, 101>> -> VBool(FALSE)
                 [] OTHER -> VKw(tok.v)

\* ------------------------------------------------------------------ the stack parser
P0 == [ctx |-> <<>>, curtype |-> "", curstack |-> <<>>, results |-> <<>>, err |-> "none"]

KwIs(tok, b) == tok.k = "kw" /\ tok.v = b
StartType(ps, ty) == [ps EXCEPT !.ctx = Append(ps.ctx, [ty |-> ps.curtype, st |-> ps.curstack]),
                                !.curtype = ty, !.curstack = <<>>]
PopCtx(ps, val)   == LET c == ps.ctx[Len(ps.ctx)] IN
                     [ps EXCEPT !.ctx = SubSeq(ps.ctx, 1, Len(ps.ctx) - 1), !.curtype = c.ty,
                                !.curstack = Append(c.st, val)]
\* {literal_name(k): v for (k, v) in pairs if v is not None}; a repeated key keeps its first position, last value
RECURSIVE BuildDict(_, _)
BuildDict(objs, acc) ==
  IF Len(objs) < 2 THEN acc
  ELSE LET key == objs[1].v  val == objs[2]  rest == SubSeq(objs, 3, Len(objs)) IN
       IF val.k = "null" THEN BuildDict(rest, acc)
       ELSE IF \E i \in 1..Len(acc) : acc[i][1] = key
            THEN BuildDict(rest, [i \in 1..Len(acc) |-> IF acc[i][1] = key THEN <<key, val>> ELSE acc[i]])
            ELSE BuildDict(rest, Append(acc, <<key, val>>))

PTok(ps, tok, variant, pdev) ==
  IF tok.k # "kw" \/ TokVal(tok).k = "bool"
    THEN [ps EXCEPT !.curstack = Append(ps.curstack, TokVal(tok))]                    \* normal token
  ELSE IF KwIs(tok, <<91>>) THEN StartType(ps, "a")
  ELSE IF KwIs(tok, <<93>>) THEN (IF ps.curtype = "a" THEN PopCtx(ps, VArr(ps.curstack)) ELSE ps)
  ELSE IF KwIs(tok, <<60, 60>>) THEN StartType(ps, "d")
  ELSE IF KwIs(tok, <<62, 62>>)
    THEN IF ps.curtype # "d" THEN ps
         ELSE IF Len(ps.curstack) % 2 # 0 THEN [ps EXCEPT !.err = "PSSyntaxError"]
         ELSE IF \E i \in 1..Len(ps.curstack) : i % 2 = 1 /\ ps.curstack[i].k # "name"
              THEN [ps EXCEPT !.err = "non-name-key"]
         ELSE PopCtx(ps, VDict(BuildDict(ps.curstack, <<>>)))
  ELSE IF KwIs(tok, <<123>>) THEN StartType(ps, "p")
  ELSE IF KwIs(tok, <<125>>) THEN (IF ps.curtype = "p" THEN PopCtx(ps, VArr(ps.curstack)) ELSE ps)
  ELSE IF KwIs(tok, <<82>>)                                                            \* R
    THEN IF Len(ps.curstack) < 2
         THEN IF variant = "doc" THEN ps
              ELSE IF "StreamTopRef" \in pdev THEN ps      \* as coded: R is ignored, the two integers stay two objects
              ELSE \* intended: the two integers already handed out as results are the reference's operands
                   LET n == Len(ps.results) IN
                   IF ps.curstack = <<>> /\ n >= 2 /\ ps.results[n - 1].k = "int"
                   THEN [ps EXCEPT !.results = Append(SubSeq(ps.results, 1, n - 2), VRef(ps.results[n - 1].v[1]))]
                   ELSE ps
         ELSE LET n == Len(ps.curstack)  id == ps.curstack[n - 1]  base == SubSeq(ps.curstack, 1, n - 2) IN
              IF id.k = "int" THEN [ps EXCEPT !.curstack = Append(base, VRef(id.v[1]))]
              ELSE [ps EXCEPT !.curstack = base]
  ELSE IF KwIs(tok, <<110, 117, 108, 108>>) /\ ~(variant = "stream" /\ "StreamNullKw" \in pdev)
    THEN [ps EXCEPT !.curstack = Append(ps.curstack, VNull)]
  ELSE IF variant = "doc" /\ KwIs(tok, <<101, 110, 100, 111, 98, 106>>)                \* endobj: add_results(*pop(4))
    THEN LET n == Len(ps.curstack)  k == IF n < 4 THEN n ELSE 4 IN
         [ps EXCEPT !.results = ps.results \o SubSeq(ps.curstack, n - k + 1, n),
                    !.curstack = SubSeq(ps.curstack, 1, n - k)]
  ELSE IF variant = "stream" /\ (KwIs(tok, <<111, 98, 106>>) \/ KwIs(tok, <<101, 110, 100, 111, 98, 106>>)) THEN ps
  ELSE [ps EXCEPT !.curstack = Append(ps.curstack, VKw(tok.v))]

\* after each token: PDFStreamParser.flush() moves the whole stack to the results when no container is open
PFlush(ps, variant) ==
  IF variant = "stream" /\ ps.ctx = <<>> /\ ps.err = "none"
  THEN [ps EXCEPT !.results = ps.results \o ps.curstack, !.curstack = <<>>] ELSE ps

\* the same parser as a pure fold over a token sequence (used to attribute a failure to one deviation)
RECURSIVE ParseFold(_, _, _, _)
ParseFold(ps, tk, variant, pdev) ==
  IF tk = <<>> \/ ps.err # "none" THEN ps
  ELSE ParseFold(PFlush(PTok(ps, Head(tk), variant, pdev), variant), Tail(tk), variant, pdev)

\* ------------------------------------------------------------------ machine
VARIABLES case, toks, ps, phase
vars == <<case, toks, ps, phase>>

Data(c) == SeqBytes(c.nodes) \o (IF c.variant = "doc" THEN <<32, 101, 110, 100, 111, 98, 106, 32>> ELSE <<32>>)
Want(c) == SeqVals(c.nodes)

\* a case is [nodes |-> Seq(node), variant |-> "stream" | "doc"]; the MC module supplies the Init predicates
\* that enumerate cases (by nested existential choice, so that no huge set is ever materialised)
StartWith(c) == case = c /\ toks = <<>> /\ ps = P0 /\ phase = "lex"

\* tokenise the bytes of the case (the tokenizer machine itself is PSLex.tla; here it is one step)
ALex == /\ phase = "lex" /\ phase' = "parse"
        /\ toks' = RefOut(Data(case), Dev)
        /\ UNCHANGED <<case, ps>>

Parsing == phase = "parse" /\ ps.err = "none" /\ toks # <<>>
CurTok == Head(toks)
Consume(f) == ps' = PFlush(f, case.variant) /\ toks' = Tail(toks) /\ UNCHANGED <<case, phase>>

APush     == Parsing /\ (CurTok.k # "kw" \/ TokVal(CurTok).k = "bool") /\ Consume(PTok(ps, CurTok, case.variant, PDev))
ABegin    == Parsing /\ (KwIs(CurTok, <<91>>) \/ KwIs(CurTok, <<60, 60>>) \/ KwIs(CurTok, <<123>>)) /\ Consume(PTok(ps, CurTok, case.variant, PDev))
AEndArray == Parsing /\ (KwIs(CurTok, <<93>>) \/ KwIs(CurTok, <<125>>)) /\ Consume(PTok(ps, CurTok, case.variant, PDev))
AEndDict  == Parsing /\ KwIs(CurTok, <<62, 62>>) /\ Consume(PTok(ps, CurTok, case.variant, PDev))
AKwR      == Parsing /\ KwIs(CurTok, <<82>>) /\ Consume(PTok(ps, CurTok, case.variant, PDev))
AKwNull   == Parsing /\ KwIs(CurTok, <<110, 117, 108, 108>>) /\ Consume(PTok(ps, CurTok, case.variant, PDev))
AKwOther  == /\ Parsing /\ CurTok.k = "kw" /\ TokVal(CurTok).k = "kw"
             /\ ~(\E b \in {<<91>>, <<93>>, <<60, 60>>, <<62, 62>>, <<123>>, <<125>>, <<82>>, <<110, 117, 108, 108>>} : CurTok.v = b)
             /\ Consume(PTok(ps, CurTok, case.variant, PDev))
AFinish   == phase = "parse" /\ (toks = <<>> \/ ps.err # "none") /\ phase' = "done" /\ UNCHANGED <<case, toks, ps>>

Next == ALex \/ APush \/ ABegin \/ AEndArray \/ AEndDict \/ AKwR \/ AKwNull \/ AKwOther \/ AFinish

\* ------------------------------------------------------------------ C01
Got == IF case.variant = "doc" THEN (IF ps.results = <<>> THEN <<>> ELSE <<ps.results[1]>>) ELSE ps.results

\* reading a conformant spelling back yields exactly the value
RoundTrip == phase = "done" => ps.err = "none" /\ SeqEq(Got, Want(case))
\* ... whatever the read-buffer size
LexBufferIndependent ==
  phase = "parse" /\ ps = P0 /\ ps.results = <<>> =>
     \A B \in BufSizes : LET r == Run(S0, Data(case), B, Dev) IN r.err = "none" /\ r.out = toks
\* the parser never holds more open containers than were opened
StackSane == Len(ps.ctx) <= Len(Data(case))

GotOf(r, variant) == IF variant = "doc" THEN (IF r.results = <<>> THEN <<>> ELSE <<r.results[1]>>) ELSE r.results
GoodWith(c, dev, pdev) ==
  LET r == ParseFold(P0, RefOut(Data(c), dev), c.variant, pdev) IN
  r.err = "none" /\ SeqEq(GotOf(r, c.variant), Want(c))
\* deviations that, switched on alone, already break this case
Blame(c) == {d \in Dev : ~GoodWith(c, {d}, {})} \cup {d \in PDev : ~GoodWith(c, {}, {d})}

\* the intended reader (no deviation switched on) reads every case back exactly: the spelling relation of
\* Spell.tla and the intended tokenizer/parser agree - this is the design-level statement of C01
IdealRoundTrip == phase = "parse" /\ ps = P0 /\ ps.results = <<>> => GoodWith(case, {}, {})

RECURSIVE VJ(_)
VJ(x) == CASE x.k = "arr" -> [k |-> "arr", v |-> [i \in 1..Len(x.v) |-> VJ(x.v[i])]]
           [] x.k = "dict" -> [k |-> "dict", v |-> [i \in 1..Len(x.v) |-> <<x.v[i][1], VJ(x.v[i][2])>>]]
           [] OTHER -> x
EmitTerminal ==
  phase = "done" =>
    PrintT("@@" \o ToJson([d |-> Data(case), variant |-> case.variant,
                           want |-> [i \in 1..Len(Want(case)) |-> VJ(Want(case)[i])],
                           got |-> [i \in 1..Len(Got) |-> VJ(Got[i])],
                           ok |-> (ps.err = "none" /\ SeqEq(Got, Want(case))), err |-> ps.err,
                           blame |-> IF ps.err = "none" /\ SeqEq(Got, Want(case)) THEN {} ELSE Blame(case)]))
=============================================================================
