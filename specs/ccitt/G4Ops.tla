------------------------------- MODULE G4Ops -------------------------------
(***************************************************************************)
(* C19: ITU-T T.6 (Group 4) two-dimensional coding, symbol level.          *)
(*                                                                         *)
(* A line is a sequence of W pixels, 1 = white, 0 = black (the decoder's   *)
(* internal convention).  Positions are 0-based like the code: pixel x of  *)
(* a line is line[x+1]; a0 = -1 is the imaginary white pixel before the    *)
(* line and position W the imaginary changing element after it.            *)
(*                                                                         *)
(* Part 1 is the reference semantics straight from T.6 section 2.2: the    *)
(* changing elements a1, a2, b1, b2 as set expressions and the WRITER      *)
(* RELATION - which mode symbols a conforming encoder may emit in a given  *)
(* situation and where a0 moves (pass if b2 < a1; vertical if |a1-b1| <= 3;*)
(* horizontal always; run lengths as make-up* + terminating code values).  *)
(* Part 2 transcribes the READER of pdfminer/ccitt.py, one operator per    *)
(* method (_do_vertical, _do_pass, _do_horizontal, _parse_horiz1/2,        *)
(* _flush_line, output_line), including its scanning loops.                *)
(*                                                                         *)
(* MK is the make-up granularity (64 in T.4 and in the code's `n < 64`),   *)
(* MKMAX the largest make-up code (2560); small models scale them down so  *)
(* that make-up sequences occur at width 6.                                *)
(***************************************************************************)
EXTENDS Integers, Sequences, FiniteSets

Min2(x, y) == IF x <= y THEN x ELSE y
Max2(x, y) == IF x >= y THEN x ELSE y
Px(line, x) == line[x + 1]
White(W) == [i \in 1..W |-> 1]
SetMin(S) == CHOOSE x \in S : \A y \in S : x <= y
MinOr(S, d) == IF S = {} THEN d ELSE SetMin(S)

\* ------------------------------------------------------------ 1. T.6 reference
\* T.6 2.2.1: a changing element is a pixel whose colour differs from that of the previous pixel on the same line
IsChanging(line, x) == Px(line, x) # (IF x = 0 THEN 1 ELSE Px(line, x - 1))
Changes(line) == {x \in 0..(Len(line) - 1) : IsChanging(line, x)}
\* a1: next changing element to the right of a0 on the coding line; a2: the next one to the right of a1
A1(cur, a0) == MinOr({x \in Changes(cur) : x > a0}, Len(cur))
A2(cur, a1) == MinOr({x \in Changes(cur) : x > a1}, Len(cur))
\* b1: first changing element on the reference line to the right of a0 and of opposite colour to a0; b2: next one
B1(ref, a0, color) == MinOr({x \in Changes(ref) : x > a0 /\ Px(ref, x) # color}, Len(ref))
B2(ref, b1) == MinOr({x \in Changes(ref) : x > b1}, Len(ref))

\* run length n as code values: make-up codes (multiples of MK up to MKMAX, MKMAX repeated for long runs, T.4 4.1.1
\* with the extension of T.6 2.2.4) followed by exactly one terminating code 0..MK-1
RECURSIVE RunCodes(_, _, _)
RunCodes(n, MK, MKMAX) ==
  IF n >= MKMAX + MK THEN <<MKMAX>> \o RunCodes(n - MKMAX, MK, MKMAX)
  ELSE IF n >= MK THEN <<(n \div MK) * MK, n % MK>>
  ELSE <<n>>

\* the symbols a conforming encoder may emit with a0 (colour `color`) on coding line cur under reference line ref,
\* each with the writer's next a0 and colour:  [sym, a0, color]
\* sym: <<"p">> | <<"v", d>> | <<"h", codes1, codes2>>
Admissible(ref, cur, a0, color, MK, MKMAX) ==
  LET a1 == A1(cur, a0)  a2 == A2(cur, a1)
      b1 == B1(ref, a0, color)  b2 == B2(ref, b1)
  IN (IF b2 < a1 THEN {[sym |-> <<"p">>, a0 |-> b2, color |-> color]} ELSE {})
     \cup (IF a1 - b1 \in -3..3 THEN {[sym |-> <<"v", a1 - b1>>, a0 |-> a1, color |-> 1 - color]} ELSE {})
     \cup {[sym |-> <<"h", RunCodes(a1 - Max2(a0, 0), MK, MKMAX), RunCodes(a2 - a1, MK, MKMAX)>>,
            a0 |-> a2, color |-> color]}
\* the choice T.6 figure 7 prescribes (pass, else vertical, else horizontal)
Canonical(ref, cur, a0, color, MK, MKMAX) ==
  LET S == Admissible(ref, cur, a0, color, MK, MKMAX) IN
  IF \E s \in S : s.sym[1] = "p" THEN CHOOSE s \in S : s.sym[1] = "p"
  ELSE IF \E s \in S : s.sym[1] = "v" THEN CHOOSE s \in S : s.sym[1] = "v"
  ELSE CHOOSE s \in S : s.sym[1] = "h"

\* --- the same four elements on a line given as the ascending sequence of its changing positions (used at real
\* widths by G4Trace; G4.tla checks ChangesLevelAgrees).  Element i of the sequence turns the line black when i is odd.
ColAt(i) == IF i % 2 = 1 THEN 0 ELSE 1
FirstIdx(ch, P(_)) == LET S == {i \in DOMAIN ch : P(i)} IN IF S = {} THEN 0 ELSE SetMin(S)      \* 0: none
A1C(ch, a0, W) == LET i == FirstIdx(ch, LAMBDA j : ch[j] > a0) IN IF i = 0 THEN W ELSE ch[i]
B1IdxC(ch, a0, color) == FirstIdx(ch, LAMBDA j : ch[j] > a0 /\ ColAt(j) # color)
B1C(ch, a0, color, W) == LET i == B1IdxC(ch, a0, color) IN IF i = 0 THEN W ELSE ch[i]
B2C(ch, a0, color, W) == LET i == B1IdxC(ch, a0, color) IN IF i = 0 \/ i + 1 > Len(ch) THEN W ELSE ch[i + 1]
AdmissibleC(refch, curch, a0, color, W, MK, MKMAX) ==
  LET a1 == A1C(curch, a0, W)  a2 == A1C(curch, a1, W)
      b1 == B1C(refch, a0, color, W)  b2 == B2C(refch, a0, color, W)
  IN (IF b2 < a1 THEN {[sym |-> <<"p">>, a0 |-> b2, color |-> color]} ELSE {})
     \cup (IF a1 - b1 \in -3..3 THEN {[sym |-> <<"v", a1 - b1>>, a0 |-> a1, color |-> 1 - color]} ELSE {})
     \cup {[sym |-> <<"h", RunCodes(a1 - Max2(a0, 0), MK, MKMAX), RunCodes(a2 - a1, MK, MKMAX)>>,
            a0 |-> a2, color |-> color]}
\* ascending sequence of the changing positions of a pixel line
RECURSIVE ChangeSeqFrom(_, _)
ChangeSeqFrom(line, x) == IF x >= Len(line) THEN <<>>
                          ELSE (IF IsChanging(line, x) THEN <<x>> ELSE <<>>) \o ChangeSeqFrom(line, x + 1)
ChangeSeq(line) == ChangeSeqFrom(line, 0)

\* PDF sample values of a row (ISO 32000-1 table 11, BlackIs1): pixel bit 1 = white unless BlackIs1
Sample(b, blackis1) == IF blackis1 THEN 1 - b ELSE b

\* ------------------------------------------------------------ 2. the reader as coded
\* reader state: [ref, cur, pos, color, y, out]   (pos = _curpos, out = sequence of packed rows)
R0(W) == [ref |-> White(W), cur |-> White(W), pos |-> -1, color |-> 1, y |-> 0, out |-> <<>>]

\* the first loop of _do_vertical/_do_pass, from x1
RECURSIVE ScanB1(_, _, _)
ScanB1(ref, x1, color) ==
  IF x1 = 0
  THEN IF color = 1 /\ Px(ref, x1) # color THEN x1 ELSE ScanB1(ref, x1 + 1, color)
  ELSE IF x1 = Len(ref) \/ (Px(ref, x1 - 1) = color /\ Px(ref, x1) # color) THEN x1
  ELSE ScanB1(ref, x1 + 1, color)
\* the second loop of _do_pass, from x1
RECURSIVE ScanB2(_, _, _)
ScanB2(ref, x1, color) ==
  IF x1 = 0
  THEN IF color = 0 /\ Px(ref, x1) = color THEN x1 ELSE ScanB2(ref, x1 + 1, color)
  ELSE IF x1 = Len(ref) \/ (Px(ref, x1 - 1) # color /\ Px(ref, x1) = color) THEN x1
  ELSE ScanB2(ref, x1 + 1, color)

\* `for x in range(lo, hi): line[x] = c` - a negative x indexes from the end, as in Python
Fill(line, lo, hi, c) ==
  LET W == Len(line)
      idx == {IF x < 0 THEN W + x ELSE x : x \in lo..(hi - 1)}
  IN [i \in 1..W |-> IF (i - 1) \in idx THEN c ELSE line[i]]

DoVertical(s, dx) ==
  LET W == Len(s.cur)
      x1 == ScanB1(s.ref, s.pos + 1, s.color) + dx
      x0 == Max2(0, s.pos)
      x1c == Max2(0, Min2(W, x1))
  IN [s EXCEPT !.cur = IF x1c < x0 THEN Fill(@, x1c, x0, s.color) ELSE Fill(@, x0, x1c, s.color),
               !.pos = x1c, !.color = 1 - s.color]

DoPass(s) ==
  LET x1 == ScanB2(s.ref, ScanB1(s.ref, s.pos + 1, s.color), s.color)
  IN [s EXCEPT !.cur = Fill(@, s.pos, x1, s.color), !.pos = x1]

DoHorizontal(s, n1, n2) ==
  LET W == Len(s.cur)
      p == Max2(s.pos, 0)
      m1 == Min2(n1, Max2(0, W - p))
      m2 == Min2(n2, Max2(0, W - p - m1))
  IN [s EXCEPT !.cur = Fill(Fill(@, p, p + m1, s.color), p + m1, p + m1 + m2, 1 - s.color),
               !.pos = p + m1 + m2]

\* _parse_horiz1/_parse_horiz2: code values are added up until one below MK arrives; -> <<run, rest>>
RECURSIVE TakeRun(_, _, _)
TakeRun(codes, acc, MK) ==
  IF codes = <<>> THEN <<acc, <<>>, FALSE>>                \* ran out of codes (never happens on a writer's output)
  ELSE IF Head(codes) < MK THEN <<acc + Head(codes), Tail(codes), TRUE>>
  ELSE TakeRun(Tail(codes), acc + Head(codes), MK)

\* CCITTFaxDecoder.output_line: ceil(W/8) bytes, most significant bit first, pad bits 0
PackRow(bits, reversed) ==
  LET W == Len(bits)
      nb == (W + 7) \div 8
      bit(i) == IF i < W THEN (IF reversed THEN 1 - Px(bits, i) ELSE Px(bits, i)) ELSE 0
  IN [k \in 1..nb |-> bit(8 * (k - 1)) * 128 + bit(8 * (k - 1) + 1) * 64 + bit(8 * (k - 1) + 2) * 32
                      + bit(8 * (k - 1) + 3) * 16 + bit(8 * (k - 1) + 4) * 8 + bit(8 * (k - 1) + 5) * 4
                      + bit(8 * (k - 1) + 6) * 2 + bit(8 * (k - 1) + 7)]

\* _flush_line (without the ByteSkip signal, which belongs to the bit level: PrefixCode.tla)
FlushLine(s, reversed) ==
  IF Len(s.cur) <= s.pos
  THEN [ref |-> s.cur, cur |-> White(Len(s.cur)), pos |-> -1, color |-> 1, y |-> s.y + 1,
        out |-> Append(s.out, PackRow(s.cur, reversed))]
  ELSE s

\* _parse_mode and the horizontal sub-states on one writer symbol (then _flush_line)
ReadSym(s, sym, MK, reversed) ==
  IF sym[1] = "p" THEN FlushLine(DoPass(s), reversed)
  ELSE IF sym[1] = "v" THEN FlushLine(DoVertical(s, sym[2]), reversed)
  ELSE LET r1 == TakeRun(sym[2], 0, MK)
           r2 == TakeRun(sym[3], 0, MK)
       IN FlushLine(DoHorizontal(s, r1[1], r2[1]), reversed)
\* the horizontal codes are consumed exactly (one terminating code ends each run)
HorizWellFormed(sym, MK) ==
  sym[1] = "h" => LET r1 == TakeRun(sym[2], 0, MK)  r2 == TakeRun(sym[3], 0, MK)
                  IN r1[3] /\ r1[2] = <<>> /\ r2[3] /\ r2[2] = <<>>
=============================================================================
