--------------------------------- MODULE G4 ---------------------------------
(***************************************************************************)
(* C19: a conforming T.6 writer and pdfminer's reader, in lock step.       *)
(*                                                                         *)
(* Init picks the bitmap (every image of H rows from RowSet) and the       *)
(* polarity.  In every step the WRITER chooses one of the mode symbols     *)
(* T.6 admits in its situation (G4Ops.Admissible: pass / vertical /        *)
(* horizontal with make-up and terminating code values) and the READER -   *)
(* the transcription of CCITTG4Parser._parse_mode, _do_pass, _do_vertical, *)
(* _parse_horiz1/2 + _do_horizontal, _flush_line, output_line - consumes   *)
(* it.  One action per mode: APass, AVertical, AHorizontal; AEndOfBlock    *)
(* ends the image.  TLC therefore explores every bitmap x every admissible *)
(* mode sequence.  (Bits, byte alignment and EOFB framing: PrefixCode.tla.)*)
(*                                                                         *)
(* Invariants: InSync (the reader is where the writer is and has rebuilt   *)
(* the coding line so far), RowsSoFar / RowsRoundTrip (the rows put out    *)
(* are the original rows in PDF sample polarity), WellFormed; action       *)
(* property Progress (every symbol advances a0 or completes a row).        *)
(***************************************************************************)
EXTENDS G4Ops, TLC, Json

CONSTANTS W, H,         \* width, height
          RowSet,       \* the rows images are built from (all of [1..W -> {0,1}] in the exhaustive configs)
          MK, MKMAX,    \* make-up granularity and largest make-up code (64 / 2560 in T.4 and in the code)
          Polarities    \* subset of BOOLEAN: values of BlackIs1

VARIABLES img, blackis1, wr, rd, syms, phase
vars == <<img, blackis1, wr, rd, syms, phase>>
\* wr = [y, a0, color]: the writer codes row y (1-based), a0 and its colour as in T.6
\* syms: the symbols of the current row so far (history, so that every mode sequence is a behaviour of its own)

Init == /\ img \in [1..H -> RowSet]
        /\ blackis1 \in Polarities
        /\ wr = [y |-> 1, a0 |-> -1, color |-> 1]
        /\ rd = R0(W)
        /\ syms = <<>>
        /\ phase = "run"

RefRow(y) == IF y = 1 THEN White(W) ELSE img[y - 1]
Options == Admissible(RefRow(wr.y), img[wr.y], wr.a0, wr.color, MK, MKMAX)

Step(kind) ==
  /\ phase = "run" /\ wr.y <= H
  /\ \E s \in Options :
       /\ s.sym[1] = kind
       /\ rd' = ReadSym(rd, s.sym, MK, blackis1)
       /\ IF s.a0 >= W
          THEN wr' = [y |-> wr.y + 1, a0 |-> -1, color |-> 1] /\ syms' = <<>>
          ELSE wr' = [y |-> wr.y, a0 |-> s.a0, color |-> s.color] /\ syms' = Append(syms, s.sym)
  /\ UNCHANGED <<img, blackis1, phase>>

APass       == phase = "run" /\ Step("p")
AVertical   == phase = "run" /\ Step("v")
AHorizontal == phase = "run" /\ Step("h")
AEndOfBlock == /\ phase = "run" /\ wr.y = H + 1
               /\ phase' = "done"
               /\ UNCHANGED <<img, blackis1, wr, rd, syms>>

Next == APass \/ AVertical \/ AHorizontal \/ AEndOfBlock
Spec == Init /\ [][Next]_vars

\* ------------------------------------------------------------------ C19
\* the reader stands where the writer stands, in the same colour, under the same reference line, and has rebuilt
\* the coding line up to there
InSync ==
  /\ rd.pos = wr.a0 /\ rd.color = wr.color /\ rd.y = wr.y - 1
  /\ rd.ref = RefRow(wr.y)
  /\ wr.y <= H => \A x \in 0..(Max2(rd.pos, 0) - 1) : Px(rd.cur, x) = Px(img[wr.y], x)

\* byte sequence B carries row r in the polarity PDF prescribes: ceil(W/8) bytes, most significant bit first, and the
\* pad bits after pixel W-1 are 0 in BOTH polarities (BlackIs1 complements samples, not padding)
BitOf(B, x) == (B[(x \div 8) + 1] \div (2 ^ (7 - (x % 8)))) % 2
IsPacked(B, r) == /\ Len(B) = (W + 7) \div 8
                  /\ \A x \in 0..(8 * Len(B) - 1) : BitOf(B, x) = IF x < W THEN Sample(Px(r, x), blackis1) ELSE 0
RowsSoFar == Len(rd.out) = rd.y /\ \A i \in 1..Len(rd.out) : IsPacked(rd.out[i], img[i])
RowsRoundTrip == phase = "done" => (Len(rd.out) = H /\ \A i \in 1..H : IsPacked(rd.out[i], img[i]))

\* the writer always has a move, and horizontal runs are one terminating code after make-up codes
WellFormed == (phase = "run" /\ wr.y <= H) =>
                 /\ Options # {}
                 /\ \A s \in Options : HorizWellFormed(s.sym, MK) /\ s.a0 > wr.a0 /\ s.a0 <= W
\* the T.6 choice is one of the admissible ones
CanonicalAdmissible == (phase = "run" /\ wr.y <= H) =>
                          Canonical(RefRow(wr.y), img[wr.y], wr.a0, wr.color, MK, MKMAX) \in Options

\* the changes-level form of the writer relation (used by G4Trace at real widths) is the same relation
ChangesLevelAgrees == (phase = "run" /\ wr.y <= H) =>
   Options = AdmissibleC(ChangeSeq(RefRow(wr.y)), ChangeSeq(img[wr.y]), wr.a0, wr.color, W, MK, MKMAX)

Progress == [][phase' = "done" \/ wr'.y > wr.y \/ (wr'.y = wr.y /\ wr'.a0 > wr.a0)]_vars

\* ------------------------------------------------------------------ output for the replay
\* every state of a row whose other rows (except its reference row) are white is printed once, with the reader's
\* state; completing symbols are printed with it so that each complete row coding can be rebuilt
OthersWhite == \A i \in 1..H : (i # wr.y /\ i # wr.y - 1) => img[i] = White(W)
EmitState ==
  (phase = "run" /\ wr.y <= H /\ OthersWhite /\ ~blackis1) =>
    PrintT("@@" \o ToJson([ref |-> RefRow(wr.y), row |-> img[wr.y], syms |-> syms,
                           pos |-> rd.pos, color |-> rd.color, cur |-> rd.cur,
                           fin |-> {s.sym : s \in {t \in Options : t.a0 >= W}}]))
=============================================================================
