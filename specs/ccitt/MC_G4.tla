---- MODULE MC_G4 ----
EXTENDS G4
AllRows == [1..W -> {0, 1}]
Both == {TRUE, FALSE}
OnlyFalse == {FALSE}
\* rows with few runs whose changing elements sit around the make-up boundaries (for widths above 64)
RowOf(C) == [i \in 1..W |-> IF (Cardinality({c \in C : c <= i - 1}) % 2) = 0 THEN 1 ELSE 0]   \* C: set of changing positions
Marks == {0, 1, 2, 62, 63, 64, 65, 66, 127, 128, 129, 130, W - 2, W - 1} \cap (0..(W - 1))
MarksQ == {0, 1, 63, 64, 65, 128, 129, W - 1} \cap (0..(W - 1))
SparseRowsQ == {RowOf(C) : C \in {D \in SUBSET MarksQ : Cardinality(D) <= 2}}
SparseRows == {RowOf(C) : C \in {D \in SUBSET Marks : Cardinality(D) <= 2}}
SparseRows3 == {RowOf(C) : C \in {D \in SUBSET Marks : Cardinality(D) <= 3}}
====
