---- MODULE MC_PrefixCode ----
EXTENDS PrefixCode
\* a small complete prefix code shaped like the mode table: short words, a long end-of-block word
CodeA == [a |-> <<1>>, b |-> <<0, 1, 1>>, c |-> <<0, 1, 0>>, d |-> <<0, 0, 1>>, E |-> <<0, 0, 0, 0, 0, 1, 0, 0, 0, 0, 0, 1>>]
\* an incomplete one (holes in the trie, like the reserved prefixes of the real tables)
CodeB == [a |-> <<1, 1>>, b |-> <<1, 0, 0>>, c |-> <<0, 1>>, E |-> <<0, 0, 0, 0, 1>>]
====
