----------------------------- MODULE PrefixCode -----------------------------
(***************************************************************************)
(* C19, bit level: BitParser (the code tables as bit tries) and the byte   *)
(* loop of CCITTG4Parser.feedbytes with its two signals, ByteSkip (the     *)
(* rest of the byte is fill when EncodedByteAlign and a line has just been *)
(* completed) and EOFB (stop).  The table is a generic prefix-free code;   *)
(* the symbol level (which symbol completes a line) is G4.tla's business   *)
(* and is abstracted here into a flag carried by each message item.        *)
(*                                                                         *)
(* Writer (reference): the code words of the message in order; after an    *)
(* item that completes a line, when align, 0 bits up to the next byte      *)
(* boundary; then the end-of-block word; then 0 bits to a byte boundary.   *)
(* Reader (as coded): one action per outcome of _parse_bit.                *)
(* Invariant PrefixDecodeOK: what has been decoded is a prefix of the      *)
(* message, and the whole message once the reader stops; NoInvalid: the    *)
(* reader never walks off the trie; Progress: every step consumes bits.    *)
(***************************************************************************)
EXTENDS Integers, Sequences, FiniteSets, TLC, Json

CONSTANTS Code,       \* function: symbol -> code word (sequence of 0/1), prefix-free
          END,        \* the symbol that plays EOFB
          MaxLen,     \* messages of up to MaxLen items
          ByteLen     \* 8

Syms == DOMAIN Code \ {END}
Items == [s : Syms, eol : BOOLEAN]

RECURSIVE Msgs(_)
Msgs(n) == IF n = 0 THEN {<<>>} ELSE LET M == Msgs(n - 1) IN M \cup {Append(m, it) : m \in {x \in M : Len(x) = n - 1}, it \in Items}

Zeros(n) == [i \in 1..n |-> 0]
PadTo(bits) == bits \o Zeros((ByteLen - (Len(bits) % ByteLen)) % ByteLen)
RECURSIVE Encode(_, _, _)
Encode(m, align, acc) ==
  IF m = <<>> THEN PadTo(acc \o Code[END])
  ELSE LET a == acc \o Code[Head(m).s] IN
       Encode(Tail(m), align, IF align /\ Head(m).eol THEN PadTo(a) ELSE a)

IsPrefixOf(p, w) == Len(p) <= Len(w) /\ SubSeq(w, 1, Len(p)) = p
PrefixFree == \A a, b \in DOMAIN Code : a # b => ~IsPrefixOf(Code[a], Code[b])
ASSUME PrefixFree

VARIABLES msg, align, bits, i, node, outp, phase
vars == <<msg, align, bits, i, node, outp, phase>>

Init == /\ msg \in Msgs(MaxLen) /\ align \in BOOLEAN
        /\ bits = Encode(msg, align, <<>>)
        /\ i = 0 /\ node = <<>> /\ outp = <<>> /\ phase = "run"

Running == phase = "run" /\ i < Len(bits)
Next1 == Append(node, bits[i + 1])                      \* the child _parse_bit moves to
Leaf(p) == \E s \in DOMAIN Code : Code[s] = p
SymOf(p) == CHOOSE s \in DOMAIN Code : Code[s] = p
Inner(p) == \E s \in DOMAIN Code : IsPrefixOf(p, Code[s]) /\ p # Code[s]
\* the accept callback raises ByteSkip when this symbol completed a line and the parser was built with bytealign
LineDone == Len(outp) < Len(msg) /\ msg[Len(outp) + 1].eol

AWalk == /\ Running /\ Inner(Next1)                      \* `self._state = v`
         /\ node' = Next1 /\ i' = i + 1
         /\ UNCHANGED <<msg, align, bits, outp, phase>>
AAccept == /\ Running /\ Leaf(Next1) /\ SymOf(Next1) # END /\ ~(align /\ LineDone)
           /\ outp' = Append(outp, SymOf(Next1)) /\ node' = <<>> /\ i' = i + 1
           /\ UNCHANGED <<msg, align, bits, phase>>
AByteSkip == /\ Running /\ Leaf(Next1) /\ SymOf(Next1) # END /\ align /\ LineDone
             /\ outp' = Append(outp, SymOf(Next1)) /\ node' = <<>>
             /\ i' = ((i \div ByteLen) + 1) * ByteLen       \* the for-loop over the masks is left
             /\ UNCHANGED <<msg, align, bits, phase>>
AEndOfBlock == /\ Running /\ Leaf(Next1) /\ SymOf(Next1) = END
               /\ phase' = "done" /\ i' = i + 1
               /\ UNCHANGED <<msg, align, bits, node, outp>>
AInvalid == /\ Running /\ ~Leaf(Next1) /\ ~Inner(Next1)  \* the trie holds None: InvalidData escapes feedbytes
            /\ phase' = "invalid"
            /\ UNCHANGED <<msg, align, bits, i, node, outp>>
AExhausted == /\ phase = "run" /\ i >= Len(bits)
              /\ phase' = "exhausted"
              /\ UNCHANGED <<msg, align, bits, i, node, outp>>

Next == AWalk \/ AAccept \/ AByteSkip \/ AEndOfBlock \/ AInvalid \/ AExhausted
Spec == Init /\ [][Next]_vars

Decoded == [k \in 1..Len(outp) |-> msg[k].s]
PrefixDecodeOK == /\ Len(outp) <= Len(msg) /\ outp = Decoded
                  /\ phase \in {"done", "exhausted"} => Len(outp) = Len(msg)
NoInvalid == phase # "invalid"
EndsWithEOFB == phase # "exhausted"
WholeBytes == Len(bits) % ByteLen = 0
Progress == [][phase' # "run" \/ i' > i]_vars

EmitTerminal == phase # "run" =>
   PrintT("@@" \o ToJson([msg |-> msg, align |-> align, bits |-> bits, out |-> outp, phase |-> phase]))
=============================================================================
