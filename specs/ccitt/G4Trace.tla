------------------------------ MODULE G4Trace ------------------------------
(***************************************************************************)
(* Trace validation for the Group 4 decoder (binding B), at real widths    *)
(* (up to several thousand pixels, several 2560 make-up codes per run).    *)
(* A trace is one run of the real ccittfaxdecode on a T.6 stream, recorded *)
(* by the wrappers of harness/observe/g4run.py:                            *)
(*   [origin, w, rows: <<changing positions of each original row>>,        *)
(*    ev: <<[m, d, n1, n2, pos, col, y, ch], ...>>]                        *)
(*   m = "p" / "v" (d = offset) / "h" (n1, n2 = the two run lengths the    *)
(*       reader added up): one call of _do_pass / _do_vertical /           *)
(*       _do_horizontal, with _curpos and _color after the call;           *)
(*   m = "line": output_line(y, bits) with the changing positions ch of    *)
(*       the row put out (after undoing the BlackIs1 polarity).            *)
(* The specification walks the T.6 writer relation of G4Ops (changes-level *)
(* form, which G4.tla shows equal to the pixel-level one) over the         *)
(* ORIGINAL rows: every recorded mode must be one a conforming encoder may *)
(* emit in that situation, the reader must stand exactly where the writer  *)
(* stands afterwards (position and colour), a row must be put out exactly  *)
(* when a0 reaches the width and must be the original row, and the trace   *)
(* must end after the last row.  Rejection = deadlock; the last state      *)
(* names the trace t and the number k of explained events.                 *)
(***************************************************************************)
EXTENDS G4Ops, TLC, Json, IOUtils

Traces == JsonDeserialize(IOEnv.TRACE_FILE)
N == Len(Traces)

VARIABLES t, k, y, a0, color
vars == <<t, k, y, a0, color>>
Init == t = 1 /\ k = 0 /\ y = 1 /\ a0 = -1 /\ color = 1

Cur == Traces[t]
Ev == Cur.ev[k + 1]
More == t <= N /\ k < Len(Cur.ev)
RefCh == IF y = 1 THEN <<>> ELSE Cur.rows[y - 1]
RECURSIVE Sum(_)
Sum(s) == IF s = <<>> THEN 0 ELSE Head(s) + Sum(Tail(s))

Matches(s, e) == /\ s.a0 = e.pos /\ s.color = e.col
                 /\ CASE e.m = "p" -> s.sym = <<"p">>
                      [] e.m = "v" -> s.sym = <<"v", e.d>>
                      [] e.m = "h" -> s.sym[1] = "h" /\ Sum(s.sym[2]) = e.n1 /\ Sum(s.sym[3]) = e.n2
                      [] OTHER -> FALSE

\* (guards are written as IF conditions so that TLC evaluates them as state-level expressions)
EvMode == /\ More /\ Ev.m \in {"p", "v", "h"} /\ y <= Len(Cur.rows) /\ a0 < Cur.w
          /\ LET S == AdmissibleC(RefCh, Cur.rows[y], a0, color, Cur.w, 64, 2560)
                 ok == \E s \in S : Matches(s, Ev)
             IN IF ok
                THEN LET s == CHOOSE s \in S : Matches(s, Ev) IN a0' = s.a0 /\ color' = s.color
                ELSE FALSE
          /\ k' = k + 1 /\ UNCHANGED <<t, y>>

EvLine == /\ More /\ Ev.m = "line"
          /\ IF a0 >= Cur.w /\ y <= Len(Cur.rows) /\ Ev.y = y - 1 /\ Ev.ch = Cur.rows[y]
             THEN y' = y + 1 /\ a0' = -1 /\ color' = 1
             ELSE FALSE
          /\ k' = k + 1 /\ UNCHANGED t

EndTrace == /\ t <= N /\ k = Len(Cur.ev) /\ y = Len(Cur.rows) + 1 /\ a0 = -1
            /\ t' = t + 1 /\ k' = 0 /\ y' = 1 /\ a0' = -1 /\ color' = 1

Finished == t > N /\ UNCHANGED vars
Next == EvMode \/ EvLine \/ EndTrace \/ Finished
Spec == Init /\ [][Next]_vars

PositionsOK == t <= N => (a0 >= -1 /\ a0 <= Cur.w /\ y <= Len(Cur.rows) + 1)
=============================================================================
