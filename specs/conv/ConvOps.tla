------------------------------ MODULE ConvOps ------------------------------
(***************************************************************************)
(* C11 - operators shared by Converters.tla (the two serialisers as        *)
(* machines, checked exhaustively) and ConvTrace.tla (recorded runs).      *)
(*                                                                         *)
(* Characters.  Everything a converter writes is a sequence of small       *)
(* integers.  1..9 are the classes of document-controlled characters,      *)
(* 10..18 are further single characters the converters write themselves,   *)
(* 20..69 are atomic alphanumeric words (element names, attribute names,   *)
(* entity names, fixed attribute values) and 100.. are opaque renderings   *)
(* of numbers (`%.3f`, `%d`, colour tuples; supplied by the harness when   *)
(* a model output is compared with a real one).  A document character of   *)
(* class 2 IS the same character as the `<` the converter writes as        *)
(* markup - that is the point of the well-formedness automaton below.      *)
(***************************************************************************)
EXTENDS Integers, Sequences, FiniteSets, TLC
LOCAL SeqX == INSTANCE SequencesExt

cPLAIN == 1   cLT == 2   cGT == 3   cAMP == 4   cQUOT == 5   cAPOS == 6
cCTRL == 7    \* C0 control other than TAB LF CR (what stripcontrol removes, what XML 1.0 cannot carry)
cNONASCII == 8   cASTRAL == 9
cSLASH == 10  cEQ == 11  cSP == 12  cLF == 13  cSEMI == 14  cQM == 15  cFF == 16
cBOM == 17    \* U+FEFF met in the middle of decoded output
cHASH == 18
cPLUS == 19   cTILDE == 98   \* ASCII characters that escaping codecs must rewrite (utf-7: + ; hz: ~); ordinary for XML
cSI == 96   cSO == 97        \* shift into / out of a multi-byte run of a stateful codec (never document characters)
cGARBAGE == 99   \* a character decoded with a codec other than the one it was encoded with

DocClasses == 1..9
\* format metacharacters: ordinary characters for XML, but what % templates and str.format templates are made of
cPCT == 32   cLBRACE == 33   cRBRACE == 34
cFMT == 35   \* a conversion letter / field index: s, d, 0  (so that  % FMT  is %s, %d  and  { FMT }  is {0})
cWIDE == 36  \* a BMP character beyond latin-1 (Greek, CJK, the euro sign): what narrow codecs (latin-1, ascii, cp1252) cannot express
DocClassesX == DocClasses \cup {cPLUS, cTILDE, cPCT, cLBRACE, cRBRACE, cFMT, cWIDE}

\* element names
ePAGES == 20  ePAGE == 21  eTEXTBOX == 22  eTEXTLINE == 23  eTEXT == 24  eFIGURE == 25  eIMAGE == 26
eLINE == 27   eRECT == 28  eCURVE == 29    eLAYOUT == 30    eTEXTGROUP == 31
\* attribute names
aID == 40  aBBOX == 41  aROTATE == 42  aFONT == 43  aCS == 44  aNCOLOUR == 45  aSIZE == 46  aNAME == 47
aLINEWIDTH == 48  aPTS == 49  aWMODE == 50  aSRC == 51  aWIDTH == 52  aHEIGHT == 53  aVERSION == 54  aENCODING == 55
wXML == 56
\* entity names and fixed values
wLT == 60  wGT == 61  wAMPn == 62  wQUOTn == 63  wX27 == 64  wVERTICAL == 65  wONEZERO == 66  wCODEC == 67  wEXT == 68

IsElem(c) == c \in 20..31
IsAttrName(c) == c \in 40..55

\* opaque number renderings: field f of node i
fID == 0  fBBOX == 1  fROTATE == 2  fCS == 3  fNCOLOUR == 4  fSIZE == 5  fLINEWIDTH == 6  fPTS == 7  fWIDTH == 8  fHEIGHT == 9
Num(i, f) == <<100 + 10 * i + f>>

\* ------------------------------------------------------------------ layout trees
\* A document is a sequence of nodes in preorder:  [k: kind, d: depth, s: string, f: font name, a: int]
\*   kinds  page | textboxh | textboxv | textline | char | anno | figure | image | line | rect | curve
\*          | layout | textgroup | boxref
\*   s      glyph text (char, anno) or resource name (figure, image); f: font name (char)
\*   a      boxref: node index of the text box referred to
\* `layout` is the pseudo-child that stands for `LTPage.groups is not None`; it is the last child of its page.
Containers == {"page", "textboxh", "textboxv", "textline", "figure", "layout", "textgroup"}
TextBoxes == {"textboxh", "textboxv"}
NeedsChild == {"textboxh", "textboxv", "textline", "textgroup"}

Allowed(pk, ck) ==
  CASE pk = "page"      -> ck \in {"textboxh", "textboxv", "char", "figure", "line", "rect", "curve", "layout"}
    [] pk = "figure"    -> ck \in {"char", "image", "figure", "line", "textboxh"}
    [] pk \in TextBoxes -> ck = "textline"
    [] pk = "textline"  -> ck \in {"char", "anno"}
    [] pk = "layout"    -> ck \in {"textgroup", "boxref"}
    [] pk = "textgroup" -> ck \in {"textgroup", "boxref"}
    [] OTHER -> FALSE

\* last index of the subtree rooted at i
SubEnd(T, i) == LET later == {j \in (i + 1)..Len(T) : T[j].d <= T[i].d} IN
                IF later = {} THEN Len(T) ELSE (CHOOSE j \in later : \A q \in later : j <= q) - 1
Parent(T, j) == LET c == {i \in 1..(j - 1) : T[i].d = T[j].d - 1} IN
                IF c = {} THEN 0 ELSE CHOOSE i \in c : \A q \in c : q <= i
ChildSet(T, i) == {j \in (i + 1)..SubEnd(T, i) : T[j].d = T[i].d + 1}
RECURSIVE SortUp(_)
SortUp(S) == IF S = {} THEN <<>> ELSE LET m == CHOOSE x \in S : \A y \in S : x <= y IN <<m>> \o SortUp(S \ {m})
Children(T, i) == SortUp(ChildSet(T, i))
Roots(T) == SortUp({j \in 1..Len(T) : T[j].d = 0})

\* ------------------------------------------------------------------ escaping, control stripping
EncChar(c) == CASE c = cLT -> <<cAMP, wLT, cSEMI>>
                [] c = cGT -> <<cAMP, wGT, cSEMI>>
                [] c = cAMP -> <<cAMP, wAMPn, cSEMI>>
                [] c = cQUOT -> <<cAMP, wQUOTn, cSEMI>>
                [] c = cAPOS -> <<cAMP, cHASH, wX27, cSEMI>>
                [] OTHER -> <<c>>
RECURSIVE Enc(_)                       \* utils.enc = html.escape(x) (quote=True)
Enc(s) == IF s = <<>> THEN <<>> ELSE EncChar(Head(s)) \o Enc(Tail(s))
StripCtl(s) == SelectSeq(s, LAMBDA c : c \notin {cCTRL, cFF})       \* XMLConverter.CONTROL.sub("", text); FF is a C0 control

\* ------------------------------------------------------------------ what each step of the XML converter writes
Quoted(v) == <<cQUOT>> \o v \o <<cQUOT>>
Attr(n, v) == <<cSP, n, cEQ>> \o Quoted(v)
CloseTag(e) == <<cLT, cSLASH, e, cGT, cLF>>

ElemOf(k) == CASE k = "page" -> ePAGE [] k \in TextBoxes -> eTEXTBOX [] k = "textline" -> eTEXTLINE
               [] k \in {"char", "anno"} -> eTEXT [] k = "figure" -> eFIGURE [] k = "image" -> eIMAGE
               [] k = "line" -> eLINE [] k = "rect" -> eRECT [] k = "curve" -> eCURVE
               [] k = "layout" -> eLAYOUT [] k = "textgroup" -> eTEXTGROUP [] k = "boxref" -> eTEXTBOX

XmlHeader(hasCodec) ==                  \* write_header: first write
  <<cLT, cQM, wXML>> \o Attr(aVERSION, <<wONEZERO>>)
  \o (IF hasCodec THEN Attr(aENCODING, <<wCODEC>>) ELSE <<>>) \o <<cSP, cQM, cGT, cLF>>
\* the declaration with an EMPTY encoding name - what a converter writes that tests `codec is None` instead of its truth
XmlHeaderEmptyEncoding == <<cLT, cQM, wXML>> \o Attr(aVERSION, <<wONEZERO>>) \o Attr(aENCODING, <<>>) \o <<cSP, cQM, cGT, cLF>>
XmlRootOpen == <<cLT, ePAGES, cGT, cLF>>
XmlFooter == CloseTag(ePAGES)

\* the single write() made when render() meets node i  (for `char`: the opening tag only)
XmlOpen(T, i, dev, imgw) ==
  LET n == T[i]  k == n.k IN
  CASE k = "page" ->
         <<cLT, ePAGE>> \o Attr(aID, Num(i, fID)) \o Attr(aBBOX, Num(i, fBBOX)) \o Attr(aROTATE, Num(i, fROTATE)) \o <<cGT, cLF>>
    [] k \in {"line", "rect"} ->
         <<cLT, ElemOf(k)>> \o Attr(aLINEWIDTH, Num(i, fLINEWIDTH)) \o Attr(aBBOX, Num(i, fBBOX)) \o <<cSP, cSLASH, cGT, cLF>>
    [] k = "curve" ->
         <<cLT, eCURVE>> \o Attr(aLINEWIDTH, Num(i, fLINEWIDTH)) \o Attr(aBBOX, Num(i, fBBOX)) \o Attr(aPTS, Num(i, fPTS))
         \o <<cSLASH, cGT, cLF>>
    [] k = "figure" ->
         <<cLT, eFIGURE>> \o Attr(aNAME, IF "FigureNameRaw" \in dev THEN n.s ELSE Enc(n.s)) \o Attr(aBBOX, Num(i, fBBOX))
         \o <<cGT, cLF>>
    [] k = "textline" -> <<cLT, eTEXTLINE>> \o Attr(aBBOX, Num(i, fBBOX)) \o <<cGT, cLF>>
    [] k \in TextBoxes ->
         <<cLT, eTEXTBOX>> \o Attr(aID, Num(i, fID)) \o Attr(aBBOX, Num(i, fBBOX))
         \o (IF k = "textboxv" THEN Attr(aWMODE, <<wVERTICAL>>) ELSE <<>>) \o <<cGT, cLF>>
    [] k = "char" ->
         <<cLT, eTEXT>> \o Attr(aFONT, Enc(n.f)) \o Attr(aBBOX, Num(i, fBBOX)) \o Attr(aCS, Num(i, fCS))
         \o Attr(aNCOLOUR, Num(i, fNCOLOUR)) \o Attr(aSIZE, Num(i, fSIZE)) \o <<cGT>>
    [] k = "anno" -> <<cLT, eTEXT, cGT>> \o n.s \o <<cLT, cSLASH, eTEXT, cGT, cLF>>
    [] k = "image" ->
         <<cLT, eIMAGE>> \o (IF imgw THEN Attr(aSRC, Enc(n.s) \o <<wEXT>>) ELSE <<>>)
         \o Attr(aWIDTH, Num(i, fWIDTH)) \o Attr(aHEIGHT, Num(i, fHEIGHT)) \o <<cSP, cSLASH, cGT, cLF>>
    [] k = "layout" -> <<cLT, eLAYOUT, cGT, cLF>>
    [] k = "textgroup" -> <<cLT, eTEXTGROUP>> \o Attr(aBBOX, Num(i, fBBOX)) \o <<cGT, cLF>>
    [] k = "boxref" ->
         <<cLT, eTEXTBOX>> \o Attr(aID, Num(n.a, fID)) \o Attr(aBBOX, Num(n.a, fBBOX)) \o <<cSP, cSLASH, cGT, cLF>>

\* XMLConverter.write_text(item.get_text())
XmlCharText(s, strip) == Enc(IF strip THEN StripCtl(s) ELSE s)
XmlClose(k) == CloseTag(ElemOf(k))          \* also `</text>\n` after a glyph

\* ------------------------------------------------------------------ sinks and codecs
\* A binary sink holds units  c + 1000 * e + 100000 * m : character c encoded with codec e in form m
\*   m = 0 the character's own bytes in the base (ASCII-compatible) state,  m = 1 the escaped form of an ASCII character
\*   the codec must rewrite,  m = 2 the character inside a shifted multi-byte run.
\* Codec classes: ASCII-transparent stateless (utf-8, latin-1; also cp1252), signature / multi-byte (utf-16; also utf-32,
\* utf-8-sig), ASCII-escaping and shifting (utf-7 rewrites +, hz rewrites ~), stateful shifting (iso2022_jp).
kUTF8 == 1   kUTF16 == 2   kLATIN1 == 3   kUTF7 == 4   kHZ == 5   kISO2022 == 6
Codecs == 1..6
Shifting(e) == e \in {kUTF7, kHZ, kISO2022}
EscapeChar(e) == CASE e = kUTF7 -> cPLUS [] e = kHZ -> cTILDE [] OTHER -> 0
NeedsShift(c) == c \in {cNONASCII, cWIDE, cASTRAL}
IsAsciiChar(c) == c \notin {cNONASCII, cWIDE, cASTRAL, cBOM, cGARBAGE}
AllAscii(s) == \A q \in 1..Len(s) : IsAsciiChar(s[q])
\* (the non-ASCII BMP class is realised by a character the codec has: e-acute for latin-1, a CJK ideograph for hz / iso2022_jp)
Representable(e, s) == e \in {kUTF8, kUTF16, kUTF7} \/ \A q \in 1..Len(s) : s[q] # cASTRAL /\ (e = kLATIN1 => s[q] # cWIDE)
\* the `codec` argument a converter is given together with a TEXT sink: none, utf-8, latin-1, ascii.  What the codec could
\* express is irrelevant there - a text sink takes characters - but a converter may (wrongly) filter by it:
\* "no codec" has two spellings: None and the empty string
tNONE == 0   tUTF8 == 1   tLATIN1 == 3   tASCII == 7   tEMPTY == 9
TextSinkCodecs == {tNONE, tEMPTY, tUTF8, tLATIN1, tASCII}
NoCodecSpellings == {tNONE, tEMPTY}
CharFits(t, c) == t \in {tNONE, tEMPTY, tUTF8} \/ (t = tLATIN1 /\ c \notin {cWIDE, cASTRAL}) \/ (t = tASCII /\ c \notin {cNONASCII, cWIDE, cASTRAL})
UnitCodec(u) == (u \div 1000) % 100
UnitForm(u) == u \div 100000
UnitChar(u) == u % 1000
\* one encode call of a stateless encoder; `first` = nothing has been written to this sink yet
EncodeCall(text, e, first, bomEveryCall) ==
  (IF e = kUTF16 /\ (first \/ bomEveryCall) THEN <<cBOM + 1000 * e>> ELSE <<>>)
  \o [q \in 1..Len(text) |-> text[q] + 1000 * e]
\* one encode call of the incremental encoder of a shifting codec; sh = inside a shifted run when the call begins
RECURSIVE EncShift(_, _, _, _)
EncShift(text, q, e, sh) ==
  IF q > Len(text) THEN [u |-> <<>>, sh |-> sh]
  ELSE LET c == text[q]
           sh2 == NeedsShift(c)
           pre == IF sh2 /\ ~sh THEN <<cSI + 1000 * e>> ELSE IF ~sh2 /\ sh THEN <<cSO + 1000 * e>> ELSE <<>>
           unit == c + 1000 * e + (IF sh2 THEN 200000 ELSE IF c = EscapeChar(e) THEN 100000 ELSE 0)
           rest == EncShift(text, q + 1, e, sh2) IN
       [u |-> pre \o <<unit>> \o rest.u, sh |-> rest.sh]
\* the standard decoder of codec e applied to the whole sink
DecodeUnit(u, e, atStart) ==
  LET ue == UnitCodec(u)  c == UnitChar(u) IN
  IF ue = e THEN (IF c = cBOM /\ atStart /\ e = kUTF16 THEN <<>> ELSE <<c>>)
  ELSE IF e # kUTF16 /\ ue # kUTF16 /\ IsAsciiChar(c) THEN <<c>> ELSE <<cGARBAGE>>
RECURSIVE DecShift(_, _, _, _)
DecShift(units, q, e, sh) ==
  IF q > Len(units) THEN <<>>
  ELSE LET u == units[q]  c == UnitChar(u)  m == UnitForm(u) IN
       IF c = cSI THEN (IF sh THEN <<cGARBAGE>> ELSE <<>>) \o DecShift(units, q + 1, e, TRUE)
       ELSE IF c = cSO THEN (IF sh THEN <<>> ELSE <<cGARBAGE>>) \o DecShift(units, q + 1, e, FALSE)
       ELSE (IF m = 2 THEN (IF sh THEN <<c>> ELSE <<cGARBAGE>>)
             ELSE IF m = 1 THEN (IF sh THEN <<cGARBAGE>> ELSE <<c>>)
             \* plain bytes: inside a shifted run they are read as part of it; an escape character starts an escape
             ELSE IF sh \/ c = EscapeChar(e) \/ NeedsShift(c) THEN <<cGARBAGE>> ELSE <<c>>)
            \o DecShift(units, q + 1, e, sh)
Decode(units, e) == IF Shifting(e) THEN DecShift(units, 1, e, FALSE)
                    ELSE SeqX!FlattenSeq([q \in 1..Len(units) |-> DecodeUnit(units[q], e, q = 1)])

\* ------------------------------------------------------------------ kinds of sink
\* PDFConverter._is_binary_stream decides from the sink's `mode` attribute (a file) or its type (StringIO / BytesIO).
\* ModeOf is the mode string as Python REPORTS it for a file opened with the given mode: "w+b" reads back as "rb+",
\* "a+b" as "ab+", "x+b" as "xb+"; tempfile.TemporaryFile() / NamedTemporaryFile() are "rb+" files.
SinkKindsAll == {"StringIO", "BytesIO", "wb", "w+b", "ab", "a+b", "xb", "x+b", "TemporaryFile", "w", "w+", "a"}
MemorySinks == {"StringIO", "BytesIO"}
ModeOf(kind) == CASE kind = "wb" -> <<"w", "b">> [] kind = "w+b" -> <<"r", "b", "+">> [] kind = "ab" -> <<"a", "b">>
                  [] kind = "a+b" -> <<"a", "b", "+">> [] kind = "xb" -> <<"x", "b">> [] kind = "x+b" -> <<"x", "b", "+">>
                  [] kind = "TemporaryFile" -> <<"r", "b", "+">> [] kind = "w" -> <<"w">> [] kind = "w+" -> <<"w", "+">>
                  [] kind = "a" -> <<"a">> [] OTHER -> <<>>
\* what the sink is: it takes bytes
TakesBytes(kind) == kind \in {"BytesIO", "wb", "w+b", "ab", "a+b", "xb", "x+b", "TemporaryFile"}
\* what the converter takes it for; "ModeEndsWithB" (a seeded change): the mode is tested with endswith("b")
SeenBinary(kind, dev) ==
  IF kind \in MemorySinks THEN kind = "BytesIO"
  ELSE LET m == ModeOf(kind) IN
       IF "ModeEndsWithB" \in dev THEN m[Len(m)] = "b" ELSE \E q \in 1..Len(m) : m[q] = "b"

\* ------------------------------------------------------------------ reference 1: the text of the hierarchy
\* in-order concatenation of the text of the leaves, one LF after each text box, one FF after each page;
\* the grouping tree (`layout`) is not part of the hierarchy's children
RECURSIVE NodeText(_, _)
RECURSIVE SeqText(_, _)
NodeText(T, i) ==
  LET k == T[i].k IN
  IF k \in {"char", "anno"} THEN T[i].s
  ELSE IF k = "layout" \/ k \notin Containers THEN <<>>
  ELSE SeqText(T, Children(T, i)) \o (IF k \in TextBoxes THEN <<cLF>> ELSE <<>>) \o (IF k = "page" THEN <<cFF>> ELSE <<>>)
SeqText(T, js) == IF js = <<>> THEN <<>> ELSE NodeText(T, Head(js)) \o SeqText(T, Tail(js))
TreeText(T) == SeqText(T, Roots(T))

\* ------------------------------------------------------------------ reference 2: an XML 1.0 reader
\* Events:  [e |-> "open"|"attr"|"chars"|"close", n |-> name, v |-> decoded value]
\* C0 controls are treated as ordinary characters (well-formedness is judged after their removal, see notes).
Ev(e, n, v) == [e |-> e, n |-> n, v |-> v]
Sym(s, p) == IF p >= 1 /\ p <= Len(s) THEN s[p] ELSE 0
IsWS(c) == c \in {cSP, cLF}
AllWS(v) == \A q \in 1..Len(v) : IsWS(v[q])
P0 == [p |-> 1, st |-> <<>>, ev |-> <<>>, cd |-> <<>>, err |-> 0, roots |-> 0, seen |-> {}]
Fail(r, code) == [r EXCEPT !.err = code]

\* pending character data becomes an event; outside the root only white space is allowed; white space between the
\* children of a container (everything but <text>) is formatting and dropped
FlushCD(r) ==
  IF r.cd = <<>> THEN r
  ELSE IF r.st = <<>> THEN (IF AllWS(r.cd) THEN [r EXCEPT !.cd = <<>>] ELSE Fail(r, 1))
  ELSE IF r.st[Len(r.st)] # eTEXT /\ AllWS(r.cd) THEN [r EXCEPT !.cd = <<>>]
  ELSE [r EXCEPT !.cd = <<>>, !.ev = Append(r.ev, Ev("chars", 0, r.cd))]

\* an entity reference at position p (s[p] = `&`):  <<decoded char, length>>  or <<0, 0>>
EntityAt(s, p) ==
  LET c1 == Sym(s, p + 1) IN
  IF c1 \in {wLT, wGT, wAMPn, wQUOTn} /\ Sym(s, p + 2) = cSEMI THEN <<c1 - 58, 3>>
  ELSE IF c1 = cHASH /\ Sym(s, p + 2) = wX27 /\ Sym(s, p + 3) = cSEMI THEN <<cAPOS, 4>>
  ELSE <<0, 0>>

RECURSIVE PContent(_, _)
RECURSIVE PAttrs(_, _, _)
RECURSIVE PAttrVal(_, _, _, _, _)
PContent(s, r) ==
  LET p == r.p  c == Sym(s, p) IN
  IF r.err # 0 THEN r
  ELSE IF c = 0 THEN FlushCD(r)
  ELSE IF c = cLT THEN
    LET c1 == Sym(s, p + 1) IN
    IF c1 = cQM THEN
      IF p = 1 /\ Sym(s, 3) = wXML THEN PAttrs(s, [r EXCEPT !.p = 4, !.seen = {}], wXML) ELSE Fail(r, 2)
    ELSE IF c1 = cSLASH THEN
      LET f == FlushCD(r) IN
      IF f.err # 0 THEN f
      ELSE IF f.st # <<>> /\ Sym(s, p + 2) = f.st[Len(f.st)] /\ Sym(s, p + 3) = cGT
      THEN PContent(s, [f EXCEPT !.p = p + 4, !.st = SubSeq(f.st, 1, Len(f.st) - 1),
                                 !.ev = Append(f.ev, Ev("close", Sym(s, p + 2), <<>>))])
      ELSE Fail(f, 3)
    ELSE IF IsElem(c1) THEN
      LET f == FlushCD(r) IN
      IF f.err # 0 THEN f
      ELSE IF f.st = <<>> /\ f.roots > 0 THEN Fail(f, 4)
      ELSE PAttrs(s, [f EXCEPT !.p = p + 2, !.seen = {}, !.ev = Append(f.ev, Ev("open", c1, <<>>)),
                               !.roots = IF f.st = <<>> THEN f.roots + 1 ELSE f.roots], c1)
    ELSE Fail(r, 5)
  ELSE IF c = cAMP THEN
    LET en == EntityAt(s, p) IN
    IF en[2] = 0 THEN Fail(r, 6) ELSE PContent(s, [r EXCEPT !.p = p + en[2], !.cd = Append(r.cd, en[1])])
  ELSE PContent(s, [r EXCEPT !.p = p + 1, !.cd = Append(r.cd, c)])

PAttrs(s, r, el) ==
  LET p == r.p  c == Sym(s, p) IN
  IF c = cSP THEN PAttrs(s, [r EXCEPT !.p = p + 1], el)
  ELSE IF el = wXML THEN
    IF c = cQM /\ Sym(s, p + 1) = cGT THEN PContent(s, [r EXCEPT !.p = p + 2])
    ELSE IF c \in {aVERSION, aENCODING} /\ Sym(s, p - 1) = cSP /\ Sym(s, p + 1) = cEQ /\ Sym(s, p + 2) = cQUOT /\ c \notin r.seen
    THEN PAttrVal(s, [r EXCEPT !.p = p + 3, !.seen = r.seen \cup {c}], el, c, <<>>)
    ELSE Fail(r, 7)
  ELSE IF c = cGT THEN PContent(s, [r EXCEPT !.p = p + 1, !.st = Append(r.st, el)])
  ELSE IF c = cSLASH /\ Sym(s, p + 1) = cGT
  THEN PContent(s, [r EXCEPT !.p = p + 2, !.ev = Append(r.ev, Ev("close", el, <<>>))])
  ELSE IF IsAttrName(c) /\ Sym(s, p - 1) = cSP /\ Sym(s, p + 1) = cEQ /\ Sym(s, p + 2) = cQUOT /\ c \notin r.seen
  THEN PAttrVal(s, [r EXCEPT !.p = p + 3, !.seen = r.seen \cup {c}], el, c, <<>>)
  ELSE Fail(r, 8)

PAttrVal(s, r, el, an, v) ==
  LET p == r.p  c == Sym(s, p) IN
  IF c = cQUOT
  THEN IF el = wXML /\ v = <<>> THEN Fail(r, 11)       \* XML 1.0 [80]/[26]: an encoding name / version number is not empty
       ELSE PAttrs(s, [r EXCEPT !.p = p + 1, !.ev = IF el = wXML THEN r.ev ELSE Append(r.ev, Ev("attr", an, v))], el)
  ELSE IF c = 0 \/ c = cLT THEN Fail(r, 9)
  ELSE IF c = cAMP THEN
    LET en == EntityAt(s, p) IN
    IF en[2] = 0 THEN Fail(r, 10) ELSE PAttrVal(s, [r EXCEPT !.p = p + en[2]], el, an, Append(v, en[1]))
  ELSE PAttrVal(s, [r EXCEPT !.p = p + 1], el, an, Append(v, c))

ParseXML(s) == PContent(s, P0)
WellFormed(r) == r.err = 0 /\ r.st = <<>> /\ r.roots = 1

\* ------------------------------------------------------------------ reference 3: the events the hierarchy stands for
RECURSIVE NodeEvents(_, _, _, _)
RECURSIVE SeqEvents(_, _, _, _)
OpenEvents(T, i, imgw) ==
  LET n == T[i]  k == n.k  e == ElemOf(k) IN
  <<Ev("open", e, <<>>)>> \o
  CASE k = "page" -> <<Ev("attr", aID, Num(i, fID)), Ev("attr", aBBOX, Num(i, fBBOX)), Ev("attr", aROTATE, Num(i, fROTATE))>>
    [] k \in {"line", "rect"} -> <<Ev("attr", aLINEWIDTH, Num(i, fLINEWIDTH)), Ev("attr", aBBOX, Num(i, fBBOX))>>
    [] k = "curve" -> <<Ev("attr", aLINEWIDTH, Num(i, fLINEWIDTH)), Ev("attr", aBBOX, Num(i, fBBOX)), Ev("attr", aPTS, Num(i, fPTS))>>
    [] k = "figure" -> <<Ev("attr", aNAME, n.s), Ev("attr", aBBOX, Num(i, fBBOX))>>
    [] k = "textline" -> <<Ev("attr", aBBOX, Num(i, fBBOX))>>
    [] k \in TextBoxes -> <<Ev("attr", aID, Num(i, fID)), Ev("attr", aBBOX, Num(i, fBBOX))>>
                          \o (IF k = "textboxv" THEN <<Ev("attr", aWMODE, <<wVERTICAL>>)>> ELSE <<>>)
    [] k = "char" -> <<Ev("attr", aFONT, n.f), Ev("attr", aBBOX, Num(i, fBBOX)), Ev("attr", aCS, Num(i, fCS)),
                       Ev("attr", aNCOLOUR, Num(i, fNCOLOUR)), Ev("attr", aSIZE, Num(i, fSIZE))>>
    [] k = "image" -> (IF imgw THEN <<Ev("attr", aSRC, n.s \o <<wEXT>>)>> ELSE <<>>)
                      \o <<Ev("attr", aWIDTH, Num(i, fWIDTH)), Ev("attr", aHEIGHT, Num(i, fHEIGHT))>>
    [] k = "textgroup" -> <<Ev("attr", aBBOX, Num(i, fBBOX))>>
    [] k = "boxref" -> <<Ev("attr", aID, Num(n.a, fID)), Ev("attr", aBBOX, Num(n.a, fBBOX))>>
    [] OTHER -> <<>>
CharData(v) == IF v = <<>> THEN <<>> ELSE <<Ev("chars", 0, v)>>
NodeEvents(T, i, strip, imgw) ==
  LET k == T[i].k IN
  OpenEvents(T, i, imgw)
  \o (IF k = "char" THEN CharData(IF strip THEN StripCtl(T[i].s) ELSE T[i].s)
      ELSE IF k = "anno" THEN CharData(T[i].s)
      ELSE SeqEvents(T, Children(T, i), strip, imgw))
  \o <<Ev("close", ElemOf(k), <<>>)>>
SeqEvents(T, js, strip, imgw) ==
  IF js = <<>> THEN <<>> ELSE NodeEvents(T, Head(js), strip, imgw) \o SeqEvents(T, Tail(js), strip, imgw)
TreeEvents(T, strip, imgw) ==
  <<Ev("open", ePAGES, <<>>)>> \o SeqEvents(T, Roots(T), strip, imgw) \o <<Ev("close", ePAGES, <<>>)>>
=============================================================================
