----------------------------- MODULE Converters -----------------------------
(***************************************************************************)
(* C11: TextConverter and XMLConverter as recursive-descent machines over  *)
(* every layout tree up to MaxNodes nodes (grown node by node in the       *)
(* "build" phase), every hostile string of Strings in every                *)
(* document-controlled slot (glyph text, font name, figure name, image     *)
(* name), strip_control on/off, image writer on/off, and all four sinks    *)
(* at once (text sink; binary sink with utf-8, utf-16, latin-1).           *)
(*                                                                         *)
(* One action per code step:                                               *)
(*   ABegin      XMLConverter.__init__ -> write_header (two writes)        *)
(*   AEnter      render(item) reaching a node: TextConverter writes the    *)
(*               text of an LTText leaf, XMLConverter writes the opening   *)
(*               tag / the whole empty element                             *)
(*   ACharText   XMLConverter.write_text(item.get_text()) of a glyph       *)
(*   AExit       return from render(item): `\n` after a text box, `\f`     *)
(*               after a page (text); the closing tag (xml)                *)
(*   AClose      close() -> write_footer                                   *)
(* Every write goes through Write(): TextConverter.write_text /            *)
(* XMLConverter.write, i.e. one encode call per write on a binary sink.    *)
(*                                                                         *)
(* dev - named deviations of the code from the intended design:            *)
(*   "FigureNameRaw"  <figure name="..."> is written without enc()         *)
(*   "TextSinkUtf8"   TextConverter.write_text encodes UTF-8 on a binary   *)
(*                    sink whatever `codec` says                           *)
(*   "BomPerWrite"    each write is encoded on its own by a stateless      *)
(*                    encoder, so a codec with a signature (utf-16) puts a *)
(*                    byte-order mark in front of every write              *)
(*   "ModeEndsWithB"  _is_binary_stream tests mode.endswith("b"): a binary  *)
(*                    file opened for update reports "rb+" / "ab+" and is  *)
(*                    taken for a text sink (a seeded change)              *)
(*   "EmptyCodecDeclared"  with codec "" (the other spelling of "no codec"  *)
(*                    on a text sink) the XML declaration carries          *)
(*                    encoding="" (a seeded change)                        *)
(*   "TextSinkCodecFilter"  TextConverter drops, also on a TEXT sink, the  *)
(*                    characters its `codec` argument cannot express (a    *)
(*                    seeded change; the text sink takes characters)       *)
(*   "AsciiBypass"    a pure-ASCII piece is written as its ASCII bytes,    *)
(*                    past the codec's encoder: wrong for codecs that      *)
(*                    rewrite ASCII characters (utf-7 +, hz ~) or keep a   *)
(*                    shift state (iso2022_jp, hz, utf-7)                  *)
(* The sinks: text; binary with utf-8, utf-16, latin-1 (u8, u16, l1) and   *)
(* with the shifting codecs utf-7, hz, iso2022_jp (xs.u7, xs.hz, xs.jp     *)
(* with their encoder states xs.s7, xs.shz, xs.sjp).                       *)
(***************************************************************************)
EXTENDS ConvOps, Json

CONSTANTS MaxNodes,     \* trees of 1..MaxNodes nodes
          Strings,      \* hostile strings (sequences of DocClasses) put into every document-controlled slot
          Kinds,        \* node kinds the build phase may use
          DevChoices,   \* deviation sets to explore (the intended design is {})
          SinkKinds,    \* kinds of sink handed to the converter (ConvOps: SinkKindsAll); all sinks are modelled at once, the kind
                        \* only matters for how the converter classifies it
          ShiftSinks    \* TRUE: the utf-7 / hz / iso2022_jp sinks are carried as well, and every text-sink codec is tried

VARIABLES T, hs, phase, conv, strip, imgw, tc, sk, dev, i, stack, sub, chars, u8, u16, l1, xs, nw, px
vars == <<T, hs, phase, conv, strip, imgw, tc, sk, dev, i, stack, sub, chars, u8, u16, l1, xs, nw, px>>
cfgv == <<hs, conv, strip, imgw, tc, sk, dev>>

XS0 == [u7 |-> <<>>, hz |-> <<>>, jp |-> <<>>, s7 |-> FALSE, shz |-> FALSE, sjp |-> FALSE]
Node(k, d, s, f, a) == [k |-> k, d |-> d, s |-> s, f |-> f, a |-> a]
Blank == <<>>

Init == /\ hs \in Strings
        /\ T = <<Node("page", 0, Blank, Blank, 0)>>
        /\ phase = "build" /\ conv = "none" /\ strip = FALSE /\ imgw = FALSE /\ tc = 0 /\ sk = "StringIO" /\ dev = {}
        /\ i = 0 /\ stack = <<>> /\ sub = 0 /\ chars = <<>> /\ u8 = <<>> /\ u16 = <<>> /\ l1 = <<>> /\ xs = XS0 /\ nw = 0 /\ px = P0

\* ------------------------------------------------------------------ build phase: grow the tree in preorder
Last == T[Len(T)]
PathNode(d) == CHOOSE j \in 1..Len(T) : T[j].d = d /\ \A q \in (j + 1)..Len(T) : T[q].d > d
PageOf == PathNode(0)
PageBoxes == SortUp({j \in PageOf..Len(T) : T[j].d = 1 /\ T[j].k \in TextBoxes})
NumBoxRefs == Cardinality({j \in PageOf..Len(T) : T[j].k = "boxref"})
CanClose == Last.k \notin NeedsChild
\* a new node of kind k at depth d
MayAdd(k, d) ==
  /\ Len(T) < MaxNodes /\ k \in Kinds
  /\ d <= Last.d + 1 /\ (d <= Last.d => CanClose)
  /\ IF d = 0 THEN k = "page"
     ELSE /\ Allowed(T[PathNode(d - 1)].k, k)
          /\ (d = Last.d + 1 => Last.k \in Containers)
          \* `layout` is the last child of its page
          /\ ~(d = 1 /\ Last.d >= 1 /\ T[PathNode(1)].k = "layout")
          /\ (k = "boxref" => PageBoxes # <<>>)
NewNode(k, d) ==
  CASE k = "char" -> Node(k, d, hs, hs, 0)
    [] k \in {"figure", "image"} -> Node(k, d, hs, Blank, 0)
    [] k = "boxref" -> Node(k, d, Blank, Blank, PageBoxes[(NumBoxRefs % Len(PageBoxes)) + 1])
    [] OTHER -> Node(k, d, Blank, Blank, 0)
AGrow == /\ phase = "build"
         /\ \E k \in Kinds, d \in 0..(Last.d + 1) :
              /\ MayAdd(k, d)
              /\ \/ k # "anno" /\ T' = Append(T, NewNode(k, d))
                 \/ k = "anno" /\ \E w \in {cSP, cLF} : T' = Append(T, Node(k, d, <<w>>, Blank, 0))
         /\ UNCHANGED <<hs, phase, conv, strip, imgw, tc, sk, dev, i, stack, sub, chars, u8, u16, l1, xs, nw, px>>

HasImage == \E j \in 1..Len(T) : T[j].k = "image"
AStart == /\ phase = "build" /\ CanClose
          /\ i' = 1 /\ sk' \in SinkKinds
          /\ conv' \in {"text", "xml"} /\ dev' \in DevChoices
          \* a sink taken for the wrong kind: str written to a binary file (TypeError) / "codec required" (PDFValueError)
          /\ phase' = IF SeenBinary(sk', dev') # TakesBytes(sk') THEN "sinkerror" ELSE "run"
          /\ strip' \in (IF conv' = "xml" THEN BOOLEAN ELSE {FALSE})
          /\ imgw' \in (IF conv' = "xml" /\ HasImage THEN BOOLEAN ELSE {FALSE})
          \* TextConverter takes any `codec` together with a text sink (XMLConverter insists on none)
          \* (the codec dimensions are explored in the configs with ShiftSinks; elsewhere the default utf-8 is passed)
          /\ tc' \in (IF conv' # "text" THEN (IF ShiftSinks THEN NoCodecSpellings ELSE {tNONE}) ELSE IF ShiftSinks THEN TextSinkCodecs ELSE {tUTF8})
          /\ sub' = (IF conv' = "xml" THEN 3 ELSE 0)
          /\ UNCHANGED <<T, hs, stack, chars, u8, u16, l1, xs, nw, px>>

\* ------------------------------------------------------------------ sinks
\* one write(text) call: the text sink receives the characters; each binary sink receives one encode call
Used(e) == IF conv = "text" /\ "TextSinkUtf8" \in dev THEN kUTF8 ELSE e
WriteTo(units, e, text) == units \o EncodeCall(text, Used(e), nw = 0, "BomPerWrite" \in dev)
\* the incremental encoder of a shifting codec; as a deviation, pure-ASCII pieces go past it
ShiftCall(text, e, sh) ==
  IF Used(e) # e THEN [u |-> [q \in 1..Len(text) |-> text[q] + 1000 * Used(e)], sh |-> sh]
  ELSE IF "AsciiBypass" \in dev /\ AllAscii(text) THEN [u |-> [q \in 1..Len(text) |-> text[q] + 1000 * e], sh |-> sh]
  ELSE EncShift(text, 1, e, sh)
Write2(text, btext) ==
  /\ chars' = chars \o (IF conv = "text" /\ "TextSinkCodecFilter" \in dev THEN SelectSeq(text, LAMBDA c : CharFits(tc, c)) ELSE text)
  /\ u8' = WriteTo(u8, kUTF8, btext) /\ u16' = WriteTo(u16, kUTF16, btext) /\ l1' = WriteTo(l1, kLATIN1, btext)
  /\ IF ShiftSinks
     THEN LET a == ShiftCall(btext, kUTF7, xs.s7)  b == ShiftCall(btext, kHZ, xs.shz)  c == ShiftCall(btext, kISO2022, xs.sjp) IN
          xs' = [u7 |-> xs.u7 \o a.u, hz |-> xs.hz \o b.u, jp |-> xs.jp \o c.u, s7 |-> a.sh, shz |-> b.sh, sjp |-> c.sh]
     ELSE UNCHANGED xs
  /\ nw' = nw + 1
Write(text) == Write2(text, text)
NoWrite == UNCHANGED <<chars, u8, u16, l1, xs, nw>>

\* ------------------------------------------------------------------ run phase
N == Len(T)
Top == stack[Len(stack)]
Descend == IF i > N THEN FALSE ELSE IF stack = <<>> THEN TRUE ELSE T[i].d > T[Top].d

\* sub: 3 = XML declaration pending, 1 = root element pending, 2 = glyph text pending, 0 = rendering
\* write_header: the declaration names the codec on a binary sink and has no encoding pseudo-attribute on a text sink
ABegin == /\ phase = "run" /\ sub = 3
          /\ sub' = 1 /\ Write2(IF tc = tEMPTY /\ "EmptyCodecDeclared" \in dev THEN XmlHeaderEmptyEncoding ELSE XmlHeader(FALSE), XmlHeader(TRUE))
          /\ UNCHANGED <<T, hs, phase, conv, strip, imgw, tc, sk, dev, i, stack, px>>
ABegin2 == /\ phase = "run" /\ sub = 1
           /\ sub' = 0 /\ Write(XmlRootOpen)
           /\ UNCHANGED <<T, hs, phase, conv, strip, imgw, tc, sk, dev, i, stack, px>>

AEnter == /\ phase = "run" /\ sub = 0 /\ Descend
          /\ LET k == T[i].k IN
             IF conv = "text"
             THEN IF k = "layout"                   \* TextConverter never looks at LTPage.groups
                  THEN i' = SubEnd(T, i) + 1 /\ NoWrite /\ UNCHANGED <<stack, sub>>
                  ELSE IF k \in {"char", "anno"}    \* isinstance(item, LTText): write_text(item.get_text())
                  THEN i' = i + 1 /\ Write(T[i].s) /\ UNCHANGED <<stack, sub>>
                  ELSE IF k \in Containers          \* isinstance(item, LTContainer): for child in item: render(child)
                  THEN i' = i + 1 /\ stack' = Append(stack, i) /\ NoWrite /\ UNCHANGED sub
                  ELSE i' = i + 1 /\ NoWrite /\ UNCHANGED <<stack, sub>>      \* image (no writer here), line, rect, curve
             ELSE /\ Write(XmlOpen(T, i, dev, imgw)) /\ i' = i + 1
                  /\ IF k = "char" THEN stack' = Append(stack, i) /\ sub' = 2
                     ELSE IF k \in Containers THEN stack' = Append(stack, i) /\ UNCHANGED sub
                     ELSE UNCHANGED <<stack, sub>>
          /\ UNCHANGED <<T, hs, phase, conv, strip, imgw, tc, sk, dev, px>>

ACharText == /\ phase = "run" /\ conv = "xml" /\ sub = 2
             /\ Write(XmlCharText(T[Top].s, strip)) /\ sub' = 0
             /\ UNCHANGED <<T, hs, phase, conv, strip, imgw, tc, sk, dev, i, stack, px>>

AExit == /\ phase = "run" /\ sub = 0 /\ stack # <<>> /\ ~Descend
         /\ stack' = SubSeq(stack, 1, Len(stack) - 1)
         /\ LET k == T[Top].k IN
            IF conv = "text"
            THEN IF k \in TextBoxes THEN Write(<<cLF>>)
                 ELSE IF k = "page" THEN Write(<<cFF>>)
                 ELSE NoWrite
            ELSE Write(XmlClose(k))
         /\ UNCHANGED <<T, hs, phase, conv, strip, imgw, tc, sk, dev, i, sub, px>>

AClose == /\ phase = "run" /\ sub = 0 /\ stack = <<>> /\ i > N
          /\ phase' = "done"
          /\ IF conv = "xml" THEN Write(XmlFooter) /\ px' = ParseXML(chars \o XmlFooter) ELSE NoWrite /\ UNCHANGED px
          /\ UNCHANGED <<T, hs, conv, strip, imgw, tc, sk, dev, i, stack, sub>>

Next == AGrow \/ AStart \/ ABegin \/ ABegin2 \/ AEnter \/ ACharText \/ AExit \/ AClose
Spec == Init /\ [][Next]_vars

\* ------------------------------------------------------------------ the property
\* P_* : the predicate itself (any design);  the invariants claim it for the intended design (dev = {}).
\* px is ParseXML(chars), computed once by AClose.
Done == phase = "done"
Intended == dev = {}

P_TextIsTreeText == (Done /\ conv = "text") => chars = TreeText(T)

\* what is in a sink, as characters; the declaration of a binary sink carries encoding="..." (Canon drops it)
Canon(s) == LET hl == Len(XmlHeader(TRUE)) IN
            IF Len(s) >= hl /\ SubSeq(s, 1, hl) = XmlHeader(TRUE) THEN XmlHeader(FALSE) \o SubSeq(s, hl + 1, Len(s)) ELSE s
\* decoding a binary sink with the codec it was opened with yields the characters the text sink received
SinkOK(units, e) == Representable(e, chars) => Canon(Decode(units, e)) = chars
P_SinkIndependent == Done => /\ SinkOK(u8, kUTF8) /\ SinkOK(u16, kUTF16) /\ SinkOK(l1, kLATIN1)
                             /\ (ShiftSinks => SinkOK(xs.u7, kUTF7) /\ SinkOK(xs.hz, kHZ) /\ SinkOK(xs.jp, kISO2022))

\* well-formed on the text sink; on a binary sink the decoded content is the same characters (P_SinkIndependent) behind a
\* declaration that differs by one well-formed pseudo-attribute, and is parsed as such for the codec with a signature
P_XMLWellFormed == (Done /\ conv = "xml") => WellFormed(px) /\ WellFormed(ParseXML(Decode(u16, kUTF16)))
P_XMLParsesBackToTree == (Done /\ conv = "xml") => px.ev = TreeEvents(T, strip, imgw)

P_SinkKindRecognised == phase # "sinkerror"
SinkKindRecognised == Intended => P_SinkKindRecognised
TextIsTreeText == Intended => P_TextIsTreeText
XMLWellFormed == Intended => P_XMLWellFormed
XMLParsesBackToTree == Intended => P_XMLParsesBackToTree
SinkIndependent == Intended => P_SinkIndependent

\* structural: the render stack is a path of the tree, the cursor only moves forward
StackIsPath == phase = "run" =>
  /\ \A q \in 1..Len(stack) : stack[q] < i /\ T[stack[q]].d = (IF q = 1 THEN 0 ELSE T[stack[q - 1]].d + 1)
  /\ (conv = "text" => \A q \in 1..Len(stack) : T[stack[q]].k \in Containers)

\* terminal states for the replay
EmitTerminal ==
  Done => PrintT("@@" \o ToJson([T |-> T, conv |-> conv, strip |-> strip, imgw |-> imgw, tc |-> tc, sk |-> sk, dev |-> dev,
                                   chars |-> chars, u8 |-> u8, u16 |-> u16, l1 |-> l1, u7 |-> xs.u7, hz |-> xs.hz, jp |-> xs.jp, nw |-> nw,
                                   ev |-> IF conv = "xml" /\ dev = {} THEN px.ev ELSE <<>>]))
=============================================================================
