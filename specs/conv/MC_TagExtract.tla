---- MODULE MC_TagExtract ----
EXTENDS TagExtract
TStr(n) == UNION {[1..m -> {cPLAIN, cLT, cGT, cAMP, cQUOT, cAPOS}] : m \in 1..n}
TStr2 == TStr(2)
TStr1 == TStr(1)
TPalette == {<<cPLAIN>>, <<cLT, cAMP, cQUOT>>, <<cAPOS, cGT>>}
OnlyIntended == {{}}
Tags3 == {hDIV, hSPAN, hA}
Tags2 == {hDIV, hSPAN}
TOne == {<<cLT, cAMP, cQUOT>>}
====
