------------------------- MODULE MarkupConverters -------------------------
(***************************************************************************)
(* C11, extended coverage: HTMLConverter and HOCRConverter as              *)
(* recursive-descent machines over the layout trees of Converters.tla      *)
(* (same node records, same build phase, same alphabet and sinks idea; the *)
(* output is checked by the markup reader of MarkupOps.tla).               *)
(*                                                                         *)
(*   ABegin   __init__ -> write_header                                     *)
(*   AEnter   render(item) reaching a node                                 *)
(*   AExit    return from render(item)                                     *)
(*   AClose   close() -> write_footer                                      *)
(* HTMLConverter state: font (the (fontname, size) of the open             *)
(* <span style="font-family..">, 0 = none), fstack (begin_div / end_div),  *)
(* npages (for the page links of the footer); layoutmode normal | exact |  *)
(* loose.  Positions and sizes (x*scale, (_yoffset-y)*scale with           *)
(* _yoffset accumulating page heights and pagemargin, font sizes) are      *)
(* opaque renderings HNum(node, field) supplied by the harness.            *)
(* HOCRConverter state: w = the word being collected (within_chars,        *)
(* working_text, first / last glyph, size class).                          *)
(*                                                                         *)
(* dev - named deviations of the code from the intended design:            *)
(*   "HtmlFontRaw"   put_text writes the font name into style="..."        *)
(*                   without enc()                                         *)
(*   "HtmlSpanLeak"  a <span style="font-family.."> opened for a glyph     *)
(*                   directly on the page is never closed (only end_div    *)
(*                   closes spans)                                         *)
(*   "HocrTextRaw"   glyph text is written without enc()                   *)
(*   "HocrFontRaw"   the font name is written into style='..' and          *)
(*                   title='..' without enc()                              *)
(*   "HocrWordLost"  when size / font / baseline change inside a line,     *)
(*                   write_word() clears within_chars but the new glyph is *)
(*                   appended to the stale text: it is lost                *)
(*   "HocrPending"   a word still being collected when its line ends       *)
(*                   without an LTAnno (glyphs directly on a page) is      *)
(*                   never written                                         *)
(***************************************************************************)
EXTENDS MarkupOps, Json

CONSTANTS MaxNodes, Strings, Kinds, DevChoices, Convs, Modes,
          ParseOutput     \* TRUE: the finished output is read back by ParseML (exhaustive runs); FALSE: trace validation

VARIABLES T, hs, phase, conv, mode, dev, i, stack, chars, font, fstack, npages, w, px
vars == <<T, hs, phase, conv, mode, dev, i, stack, chars, font, fstack, npages, w, px>>

Node(k, d, s, f, a) == [k |-> k, d |-> d, s |-> s, f |-> f, a |-> a]
W0 == [on |-> FALSE, text |-> <<>>, first |-> 0, last |-> 0, sz |-> 0]
Init == /\ hs \in Strings
        /\ T = <<Node("page", 0, <<>>, <<>>, 0)>>
        /\ phase = "build" /\ conv = "none" /\ mode = "normal" /\ dev = {} /\ i = 0 /\ stack = <<>> /\ chars = <<>>
        /\ font = 0 /\ fstack = <<>> /\ npages = 0 /\ w = W0 /\ px = P0

\* ------------------------------------------------------------------ build phase (as in Converters.tla; glyphs carry a size class a)
Last == T[Len(T)]
PathNode(d) == CHOOSE j \in 1..Len(T) : T[j].d = d /\ \A q \in (j + 1)..Len(T) : T[q].d > d
CanClose == Last.k \notin NeedsChild
MayAdd(k, d) ==
  /\ Len(T) < MaxNodes /\ k \in Kinds
  /\ d <= Last.d + 1 /\ (d <= Last.d => CanClose)
  /\ IF d = 0 THEN k = "page"
     ELSE /\ Allowed(T[PathNode(d - 1)].k, k)
          /\ (d = Last.d + 1 => Last.k \in Containers)
AGrow == /\ phase = "build"
         /\ \E k \in Kinds, d \in 0..(Last.d + 1) :
              /\ MayAdd(k, d)
              /\ CASE k = "char" -> \E a \in {0, 1} : T' = Append(T, Node(k, d, hs, hs, a))
                   [] k = "anno" -> \E c \in {cSP, cLF} : T' = Append(T, Node(k, d, <<c>>, <<>>, 0))
                   [] k = "figure" -> T' = Append(T, Node(k, d, hs, <<>>, 0))
                   [] OTHER -> T' = Append(T, Node(k, d, <<>>, <<>>, 0))
         /\ UNCHANGED <<hs, phase, conv, mode, dev, i, stack, chars, font, fstack, npages, w, px>>
AStart == /\ phase = "build" /\ CanClose
          /\ phase' = "begin" /\ i' = 1 /\ conv' \in Convs /\ dev' \in DevChoices
          /\ mode' \in (IF conv' = "html" THEN Modes ELSE {"normal"})
          /\ UNCHANGED <<T, hs, stack, chars, font, fstack, npages, w, px>>

\* ------------------------------------------------------------------ HTMLConverter pieces
FontKey(j) == T[j].a + 1                       \* (fontname, size): all glyphs share the name, the size class tells them apart
HtmlHeader == <<cLT, hHTML, cGT, cLT, hHEAD, cGT, cLF>>
              \o OpenTag(hMETA, QAttr(bHTTPEQUIV, <<gCONTENTTYPE>>) \o QAttr(bCONTENT, <<gTEXTHTML>>)) \o <<cLF>>
              \o EndTag(hHEAD) \o <<cLT, hBODY, cGT, cLF>>
RECURSIVE PageLinks(_, _)
PageLinks(n, q) == IF q > n THEN <<>>
                   ELSE (IF q > 1 THEN <<gCOMMA>> ELSE <<>>) \o OpenTag(hA, QAttr(bHREF, <<gHASHMARK, 1900000 + q>>)) \o <<1900000 + q>> \o EndTag(hA)
                        \o PageLinks(n, q + 1)
HtmlFooter(n) == OpenTag(hDIV, QAttr(bSTYLE, HNum(0, hTOP))) \o <<gPAGES>> \o PageLinks(n, 1) \o EndTag(hDIV) \o <<cLF>>
                 \o EndTag(hBODY) \o EndTag(hHTML) \o <<cLF>>
PlaceRect(j) == OpenTag(hSPAN, QAttr(bSTYLE, HNum(j, hRECT))) \o EndTag(hSPAN) \o <<cLF>>
BeginDiv(j) == OpenTag(hDIV, QAttr(bSTYLE, HNum(j, hDIVSTYLE)))
CloseSpanIf(f) == IF f # 0 THEN EndTag(hSPAN) ELSE <<>>
FontName(j) == LET nm == AfterLastPlus(T[j].f) IN IF "HtmlFontRaw" \in dev THEN nm ELSE Enc(nm)
PutText(j) == (IF font # FontKey(j)
               THEN CloseSpanIf(font) \o OpenTag(hSPAN, QAttr(bSTYLE, <<gFONTFAMILY>> \o FontName(j) \o <<gFONTSIZE>> \o HNum(j, hFONTPX) \o <<gPX>>))
               ELSE <<>>) \o Enc(T[j].s)
PlaceText(j) == OpenTag(hSPAN, QAttr(bSTYLE, HNum(j, hTEXTSTYLE))) \o Enc(T[j].s) \o EndTag(hSPAN) \o <<cLF>>
PageOpen(j) == PlaceRect(j) \o OpenTag(hDIV, QAttr(bSTYLE, HNum(j, hTOP)))
               \o OpenTag(hA, QAttr(bNAME, Num(j, fID))) \o <<gPAGE>> \o Num(j, fID) \o EndTag(hA) \o EndTag(hDIV) \o <<cLF>>

\* ------------------------------------------------------------------ HOCRConverter pieces
HocrHeader == OpenTag(hHTML, <<cSP, gHOCRHTMLATTRS>>) \o <<cLF>> \o OpenTag(hHEAD, <<>>) \o <<cLF>>
              \o OpenTag(hTITLE, <<>>) \o EndTag(hTITLE) \o <<cLF>>
              \o <<cLT, hMETA, cSP, gHOCRMETA1, cSP, cSLASH, cGT, cLF>> \o <<cLT, hMETA, cSP, gHOCRMETA2, cSP, cSLASH, cGT, cLF>>
              \o <<cSP, cSP, cLT, hMETA, cSP, gHOCRMETA3, cSLASH, cGT, cLF>> \o EndTag(hHEAD) \o <<cLF>> \o OpenTag(hBODY, <<>>) \o <<cLF>>
HocrFooter == <<gHOCRCOMMENT1, cLF, gHOCRCOMMENT2>> \o EndTag(hBODY) \o EndTag(hHTML) \o <<cLF>>
HocrFont(j) == IF "HocrFontRaw" \in dev THEN T[j].f ELSE Enc(T[j].f)
HocrText(s) == IF "HocrTextRaw" \in dev THEN s ELSE Enc(s)
\* recorded trees: a size class of 50000 or more marks a font whose name holds "Bold" / "Italic" (write_word adds a
\* font-weight / font-style declaration, one more opaque token); the enumerated trees have no such fonts
Styled(j) == T[j].a >= 50000
WriteWord(ww) ==
  IF ww.text = <<>> THEN <<>>
  ELSE OpenTag(hSPAN, AAttr(bSTYLE, <<gFONTQ>> \o HocrFont(ww.first) \o <<gQFONTSIZE>> \o HNum(ww.first, hWSIZE) \o <<gSEMISP>>
                                       \o (IF Styled(ww.first) THEN HNum(ww.first, 8) ELSE <<>>))
                      \o AAttr(bCLASS, <<gOCRXWORD>>)
                      \o AAttr(bTITLE, HNum2(ww.first, ww.last, hWBBOX) \o <<gXFONT>> \o HocrFont(ww.first) \o <<gXFSIZE>> \o HNum(ww.first, hWSIZE)))
       \o HocrText(Strip(ww.text)) \o EndTag(hSPAN)
\* what write_word compares: baseline, font name, size - here the size class and the glyph's parent (its line)
WordKey(j) == T[j].a + 100000 * Parent(T, j)
\* one glyph j arriving at the word collector:  <<output, new word state>>
HocrChar(j) ==
  LET s == T[j].s IN
  IF ~w.on THEN <<(<<>>), [on |-> TRUE, text |-> s, first |-> j, last |-> j, sz |-> WordKey(j)]>>
  ELSE IF AllSpace(s) THEN <<WriteWord(w) \o HocrText(s), [w EXCEPT !.on = FALSE]>>
  ELSE IF w.sz # WordKey(j)
       THEN IF "HocrWordLost" \in dev
            \* write_word() leaves within_chars False; the glyph joins the stale text, which the next glyph overwrites
            THEN <<WriteWord(w), [on |-> FALSE, text |-> w.text \o s, first |-> j, last |-> j, sz |-> WordKey(j)]>>
            ELSE <<WriteWord(w), [on |-> TRUE, text |-> s, first |-> j, last |-> j, sz |-> WordKey(j)]>>
  ELSE <<(<<>>), [w EXCEPT !.text = w.text \o s, !.last = j]>>
\* a word still open when a line or page ends: the intended design writes it
FlushPending == IF w.on /\ "HocrPending" \notin dev THEN WriteWord(w) ELSE <<>>
FlushedW == IF w.on /\ "HocrPending" \notin dev THEN [w EXCEPT !.on = FALSE] ELSE w

\* ------------------------------------------------------------------ run phase
N == Len(T)
Top == stack[Len(stack)]
Descend == IF i > N THEN FALSE ELSE IF stack = <<>> THEN TRUE ELSE T[i].d > T[Top].d
Write(text) == chars' = chars \o text

ABegin == /\ phase = "begin" /\ phase' = "run"
          /\ Write(IF conv = "html" THEN HtmlHeader ELSE HocrHeader)
          /\ UNCHANGED <<T, hs, conv, mode, dev, i, stack, font, fstack, npages, w, px>>

HtmlEnter ==
  LET k == T[i].k IN
  CASE k = "page" -> Write(PageOpen(i)) /\ stack' = Append(stack, i) /\ UNCHANGED <<font, fstack, npages>>
    [] k \in {"line", "rect", "curve"} -> Write(PlaceRect(i)) /\ UNCHANGED <<stack, font, fstack, npages>>
    [] k = "figure" -> Write(BeginDiv(i)) /\ stack' = Append(stack, i) /\ fstack' = Append(fstack, font) /\ font' = 0 /\ UNCHANGED npages
    [] k = "image" -> Write(<<>>) /\ UNCHANGED <<stack, font, fstack, npages>>                  \* no image writer
    [] k = "textline" -> Write(<<>>) /\ stack' = Append(stack, i) /\ UNCHANGED <<font, fstack, npages>>
    [] k \in TextBoxes ->
         IF mode = "exact" THEN Write(<<>>) /\ stack' = Append(stack, i) /\ UNCHANGED <<font, fstack, npages>>
         ELSE Write(BeginDiv(i)) /\ stack' = Append(stack, i) /\ fstack' = Append(fstack, font) /\ font' = 0 /\ UNCHANGED npages
    [] k = "char" ->
         IF mode = "exact" THEN Write(PlaceText(i)) /\ UNCHANGED <<stack, font, fstack, npages>>
         ELSE Write(PutText(i)) /\ font' = FontKey(i) /\ UNCHANGED <<stack, fstack, npages>>
    [] k = "anno" -> Write(IF mode = "exact" THEN <<>> ELSE Enc(T[i].s)) /\ UNCHANGED <<stack, font, fstack, npages>>
    [] OTHER -> Write(<<>>) /\ UNCHANGED <<stack, font, fstack, npages>>
HtmlExit ==
  LET k == T[Top].k IN
  /\ stack' = SubSeq(stack, 1, Len(stack) - 1)
  /\ CASE k = "page" ->
            /\ npages' = npages + 1
            /\ IF font # 0 /\ "HtmlSpanLeak" \notin dev THEN Write(EndTag(hSPAN)) /\ font' = 0 ELSE Write(<<>>) /\ UNCHANGED font
            /\ UNCHANGED fstack
       [] k = "figure" \/ (k \in TextBoxes /\ mode # "exact") ->
            /\ Write(CloseSpanIf(font) \o EndTag(hDIV)) /\ font' = fstack[Len(fstack)] /\ fstack' = SubSeq(fstack, 1, Len(fstack) - 1)
            /\ UNCHANGED npages
       [] k = "textline" -> Write(IF mode = "normal" THEN <<cLT, hBR, cGT>> ELSE <<>>) /\ UNCHANGED <<font, fstack, npages>>
       [] OTHER -> Write(<<>>) /\ UNCHANGED <<font, fstack, npages>>

HocrEnter ==
  LET k == T[i].k
      pre == IF w.on /\ k = "anno" THEN WriteWord(w) ELSE <<>>          \* `if self.within_chars and isinstance(item, LTAnno)`
      w1 == IF w.on /\ k = "anno" THEN [w EXCEPT !.on = FALSE] ELSE w IN
  CASE k = "page" -> Write(pre \o OpenTag(hDIV, AAttr(bCLASS, <<gOCRPAGE>>) \o AAttr(bID, Num(i, fID)) \o AAttr(bTITLE, HNum(i, hBBOX))) \o <<cLF>>)
                     /\ stack' = Append(stack, i) /\ w' = w1
    [] k \in TextBoxes -> Write(pre \o OpenTag(hDIV, AAttr(bCLASS, <<gOCRBLOCK>>) \o AAttr(bID, Num(i, fID)) \o AAttr(bTITLE, HNum(i, hBBOX))) \o <<cLF>>)
                          /\ stack' = Append(stack, i) /\ w' = w1
    [] k = "textline" -> Write(pre \o OpenTag(hSPAN, AAttr(bCLASS, <<gOCRLINE>>) \o AAttr(bTITLE, HNum(i, hBBOX))))
                         /\ stack' = Append(stack, i) /\ w' = w1
    [] k = "char" -> LET r == HocrChar(i) IN Write(r[1]) /\ w' = r[2] /\ UNCHANGED stack
    [] k = "figure" -> Write(pre) /\ w' = w1 /\ i' = SubEnd(T, i) + 1 /\ UNCHANGED stack       \* render() has no branch for figures
    [] OTHER -> Write(pre) /\ w' = w1 /\ UNCHANGED stack
HocrExit ==
  LET k == T[Top].k IN
  /\ stack' = SubSeq(stack, 1, Len(stack) - 1)
  /\ CASE k = "page" -> Write(FlushPending \o EndTag(hDIV) \o <<cLF>>) /\ w' = FlushedW
       [] k \in TextBoxes -> Write(EndTag(hDIV) \o <<cLF>>) /\ UNCHANGED w
       [] k = "textline" -> Write(FlushPending \o EndTag(hSPAN) \o <<cLF>>) /\ w' = FlushedW
       [] OTHER -> Write(<<>>) /\ UNCHANGED w

AEnter == /\ phase = "run" /\ Descend
          /\ IF conv = "html" THEN HtmlEnter /\ i' = i + 1 /\ UNCHANGED w
             ELSE HocrEnter /\ (T[i].k # "figure" => i' = i + 1) /\ UNCHANGED <<font, fstack, npages>>
          /\ UNCHANGED <<T, hs, phase, conv, mode, dev, px>>
AExit == /\ phase = "run" /\ ~Descend /\ stack # <<>>
         /\ IF conv = "html" THEN HtmlExit /\ UNCHANGED w ELSE HocrExit /\ UNCHANGED <<font, fstack, npages>>
         /\ UNCHANGED <<T, hs, phase, conv, mode, dev, i, px>>
AClose == /\ phase = "run" /\ ~Descend /\ stack = <<>>
          /\ LET foot == IF conv = "html" THEN HtmlFooter(npages) ELSE HocrFooter IN
             Write(foot) /\ px' = IF ParseOutput THEN ParseML(chars \o foot) ELSE P0
          /\ phase' = "done"
          /\ UNCHANGED <<T, hs, conv, mode, dev, i, stack, font, fstack, npages, w>>

Next == AGrow \/ AStart \/ ABegin \/ AEnter \/ AExit \/ AClose
Spec == Init /\ [][Next]_vars

\* ------------------------------------------------------------------ properties (claimed for the intended design)
Done == phase = "done"
Intended == dev = {}
\* the glyph text a converter is meant to carry: html normal/loose - glyphs and layout annotations; html exact - glyphs;
\* hocr - the glyphs that sit in text lines (figures and glyphs directly on the page are not rendered)
InLine(j) == \E q \in 1..(j - 1) : T[q].k = "textline" /\ j <= SubEnd(T, q)
InFigure(j) == \E q \in 1..(j - 1) : T[q].k = "figure" /\ j <= SubEnd(T, q)
Carries(j) == IF conv = "html" THEN T[j].k = "char" \/ (T[j].k = "anno" /\ mode # "exact")
              ELSE T[j].k = "char" /\ ~InFigure(j)
\* hOCR is defined for analysed pages: every glyph outside a figure sits in a text line
HocrDomain == \A j \in 1..Len(T) : (T[j].k = "char" /\ ~InFigure(j)) => InLine(j)
RECURSIVE GlyphText(_)
GlyphText(j) == IF j > Len(T) THEN <<>> ELSE (IF Carries(j) THEN T[j].s ELSE <<>>) \o GlyphText(j + 1)

P_WellFormed == Done => (px.err = 0 /\ px.st = <<>> /\ px.roots = 1)
P_TextFaithful == (Done /\ (conv = "hocr" => HocrDomain)) => NoSpace(DocText(px.ev)) = NoSpace(GlyphText(1))
P_HocrNested == (Done /\ conv = "hocr" /\ HocrDomain) => HocrNested(px.ev)
WellFormedML == Intended => P_WellFormed
TextFaithful == Intended => P_TextFaithful
HocrNesting == Intended => P_HocrNested
\* the span / font bookkeeping of HTMLConverter: one saved font per open div
FontStackDepth == (phase = "run" /\ conv = "html") =>
  Len(fstack) = Cardinality({q \in 1..Len(stack) : T[stack[q]].k = "figure" \/ (T[stack[q]].k \in TextBoxes /\ mode # "exact")})

EmitTerminal ==
  Done => PrintT("@@" \o ToJson([T |-> T, conv |-> conv, mode |-> mode, dev |-> dev, chars |-> chars, npages |-> npages]))
=============================================================================
