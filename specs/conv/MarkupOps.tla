------------------------------ MODULE MarkupOps ------------------------------
(***************************************************************************)
(* C11, extended coverage: operators for the HTML, hOCR and tag            *)
(* converters (HTMLConverter, HOCRConverter, pdfdevice.TagExtractor).      *)
(* Same character alphabet as ConvOps.tla, plus                            *)
(*   70..79   element names   html head meta body div span a br img title  *)
(*   80..95   attribute names style name href src border width height      *)
(*            http-equiv content class id title xmlns xml:lang lang charset*)
(*   1800000+ fixed fragments of text the converters write (opaque: they   *)
(*            hold none of < > & " ' )                                     *)
(*   2000000+ opaque renderings of positions / sizes / styles: HNum(i, f)  *)
(* and a reader for this markup: tags must balance except the void         *)
(* elements meta, br, img; attribute values are quoted with " or ' and     *)
(* must not hold their own quote, < or a bare &; character data must not   *)
(* hold < or a bare &.                                                     *)
(***************************************************************************)
EXTENDS ConvOps

hHTML == 70  hHEAD == 71  hMETA == 72  hBODY == 73  hDIV == 74  hSPAN == 75  hA == 76  hBR == 77  hIMG == 78  hTITLE == 79
bSTYLE == 80  bNAME == 81  bHREF == 82  bSRC == 83  bBORDER == 84  bWIDTH == 85  bHEIGHT == 86  bHTTPEQUIV == 87  bCONTENT == 88
bCLASS == 89  bID == 90  bTITLE == 91  bXMLNS == 92  bXMLLANG == 93  bLANG == 94  bCHARSET == 95
IsMLElem(c) == c \in 70..79 \/ c = ePAGE             \* <page> is the root of TagExtractor's output
IsMLAttr(c) == c \in 80..95 \/ c \in {aID, aBBOX, aROTATE}
Voids == {hMETA, hBR, hIMG}
\* fixed fragments
gCONTENTTYPE == 1800000   \* Content-Type
gTEXTHTML == 1800001      \* text/html            (text sink)
gTEXTHTMLCS == 1800002    \* text/html; charset=  (binary sink; the codec name follows)
gFONTFAMILY == 1800003    \* font-family:SP
gFONTSIZE == 1800004      \* ; font-size:
gPX == 1800005            \* px
gPAGE == 1800006          \* Page SP              (anchor text)
gPAGES == 1800007         \* Page: SP             (footer)
gCOMMA == 1800008         \* , SP
gHASHMARK == 1800009      \* #   (href="#n")
gOCRPAGE == 1800010  gOCRBLOCK == 1800011  gOCRLINE == 1800012  gOCRXWORD == 1800013     \* class values
gHOCRHTMLATTRS == 1800014 \* xmlns='..' xml:lang='en' lang='en' [charset='..']   (the whole attribute list, fixed)
gHOCRMETA1 == 1800015  gHOCRMETA2 == 1800016  gHOCRMETA3 == 1800017                  \* the three fixed meta elements' attribute lists
gHOCRCOMMENT1 == 1800018  gHOCRCOMMENT2 == 1800019                               \* the two fixed comments of write_footer
gFONTQ == 1800020         \* font:"        (inside style='...')
gQFONTSIZE == 1800021     \* "; font-size:
gSEMISP == 1800022        \* ; SP
gXFONT == 1800023         \* ; x_font SP
gXFSIZE == 1800024        \* ; x_fsize SP
IsFragment(c) == c >= 1800000 /\ c < 1900000
IsComment(c) == c \in {gHOCRCOMMENT1, gHOCRCOMMENT2}

\* opaque renderings: field f of node i (positions, sizes, whole style values)
hRECT == 0  hDIVSTYLE == 1  hTOP == 2  hTEXTSTYLE == 3  hFONTPX == 4  hBBOX == 5  hWSIZE == 6  hWBBOX == 7
HNum(i, f) == <<2000000 + 20 * i + f>>
\* the bounding box of an hOCR word depends on its first and last glyph
HNum2(i, j, f) == <<2000000 + 20 * (100 * i + j) + f>>

\* fontname.split("+")[-1] : the part behind the last +
RECURSIVE AfterLastPlus(_)
AfterLastPlus(s) == LET ps == {q \in 1..Len(s) : s[q] = cPLUS} IN
                    IF ps = {} THEN s ELSE SubSeq(s, (CHOOSE q \in ps : \A r \in ps : r <= q) + 1, Len(s))
\* str.strip() on the model's characters: white space here is SP and LF
IsSpaceCh(c) == c \in {cSP, cLF}
RECURSIVE LStrip(_)
LStrip(s) == IF s # <<>> /\ IsSpaceCh(Head(s)) THEN LStrip(Tail(s)) ELSE s
RECURSIVE RStrip(_)
RStrip(s) == IF s # <<>> /\ IsSpaceCh(s[Len(s)]) THEN RStrip(SubSeq(s, 1, Len(s) - 1)) ELSE s
Strip(s) == RStrip(LStrip(s))
AllSpace(s) == \A q \in 1..Len(s) : IsSpaceCh(s[q])

\* ------------------------------------------------------------------ pieces
QAttr(n, v) == <<cSP, n, cEQ, cQUOT>> \o v \o <<cQUOT>>        \* name="value"
AAttr(n, v) == <<cSP, n, cEQ, cAPOS>> \o v \o <<cAPOS>>        \* name='value'
OpenTag(e, attrs) == <<cLT, e>> \o attrs \o <<cGT>>
EndTag(e) == <<cLT, cSLASH, e, cGT>>

\* ------------------------------------------------------------------ reader
\* Events as in ConvOps:  open / attr / chars / close.  r = [p, st, ev, cd, err, roots, seen]
MFlush(r) == IF r.cd = <<>> THEN r
             ELSE IF r.st = <<>> THEN (IF AllWS(r.cd) THEN [r EXCEPT !.cd = <<>>] ELSE Fail(r, 1))
             ELSE IF AllWS(r.cd) THEN [r EXCEPT !.cd = <<>>]
             ELSE [r EXCEPT !.cd = <<>>, !.ev = Append(r.ev, Ev("chars", r.st[Len(r.st)], r.cd))]
RECURSIVE MContent(_, _)
RECURSIVE MAttrs(_, _, _)
RECURSIVE MAttrVal(_, _, _, _, _, _)
MContent(s, r) ==
  LET p == r.p  c == Sym(s, p) IN
  IF r.err # 0 THEN r
  ELSE IF c = 0 THEN MFlush(r)
  ELSE IF IsComment(c) THEN MContent(s, [r EXCEPT !.p = p + 1])
  ELSE IF c = cLT THEN
    LET c1 == Sym(s, p + 1) IN
    IF c1 = cSLASH THEN
      LET f == MFlush(r) IN
      IF f.err # 0 THEN f
      ELSE IF f.st # <<>> /\ Sym(s, p + 2) = f.st[Len(f.st)] /\ Sym(s, p + 3) = cGT
      THEN MContent(s, [f EXCEPT !.p = p + 4, !.st = SubSeq(f.st, 1, Len(f.st) - 1), !.ev = Append(f.ev, Ev("close", Sym(s, p + 2), <<>>))])
      ELSE Fail(f, 3)
    ELSE IF IsMLElem(c1) THEN
      LET f == MFlush(r) IN
      IF f.err # 0 THEN f
      ELSE IF f.st = <<>> /\ f.roots > 0 THEN Fail(f, 4)
      ELSE MAttrs(s, [f EXCEPT !.p = p + 2, !.seen = {}, !.ev = Append(f.ev, Ev("open", c1, <<>>)),
                               !.roots = IF f.st = <<>> THEN f.roots + 1 ELSE f.roots], c1)
    ELSE Fail(r, 5)
  ELSE IF c = cAMP THEN
    LET en == EntityAt(s, p) IN
    IF en[2] = 0 THEN Fail(r, 6) ELSE MContent(s, [r EXCEPT !.p = p + en[2], !.cd = Append(r.cd, en[1])])
  ELSE MContent(s, [r EXCEPT !.p = p + 1, !.cd = Append(r.cd, c)])

MAttrs(s, r, el) ==
  LET p == r.p  c == Sym(s, p) IN
  IF c = cSP THEN MAttrs(s, [r EXCEPT !.p = p + 1], el)
  ELSE IF IsFragment(c) /\ Sym(s, p - 1) = cSP THEN MAttrs(s, [r EXCEPT !.p = p + 1], el)       \* a fixed attribute list
  ELSE IF c = cGT THEN
    IF el \in Voids THEN MContent(s, [r EXCEPT !.p = p + 1, !.ev = Append(r.ev, Ev("close", el, <<>>))])
    ELSE MContent(s, [r EXCEPT !.p = p + 1, !.st = Append(r.st, el)])
  ELSE IF c = cSLASH /\ Sym(s, p + 1) = cGT
  THEN MContent(s, [r EXCEPT !.p = p + 2, !.ev = Append(r.ev, Ev("close", el, <<>>))])
  ELSE IF IsMLAttr(c) /\ Sym(s, p - 1) = cSP /\ Sym(s, p + 1) = cEQ /\ Sym(s, p + 2) \in {cQUOT, cAPOS} /\ c \notin r.seen
  THEN MAttrVal(s, [r EXCEPT !.p = p + 3, !.seen = r.seen \cup {c}], el, c, <<>>, Sym(s, p + 2))
  ELSE Fail(r, 8)

MAttrVal(s, r, el, an, v, q) ==
  LET p == r.p  c == Sym(s, p) IN
  IF c = q THEN MAttrs(s, [r EXCEPT !.p = p + 1, !.ev = Append(r.ev, Ev("attr", an, v))], el)
  ELSE IF c = 0 \/ c = cLT THEN Fail(r, 9)
  ELSE IF c = cAMP THEN
    LET en == EntityAt(s, p) IN
    IF en[2] = 0 THEN Fail(r, 10) ELSE MAttrVal(s, [r EXCEPT !.p = p + en[2]], el, an, Append(v, en[1]), q)
  ELSE MAttrVal(s, [r EXCEPT !.p = p + 1], el, an, Append(v, c), q)

ParseML(s) == MContent(s, P0)

\* ------------------------------------------------------------------ what the events say
IsDocChar(c) == c \in DocClassesX \/ c \in {cSP, cLF}
\* the document text of the output: every document character of the character data, in order
RECURSIVE DocText(_)
DocText(ev) == IF ev = <<>> THEN <<>>
               ELSE (IF Head(ev).e = "chars" THEN SelectSeq(Head(ev).v, IsDocChar) ELSE <<>>) \o DocText(Tail(ev))
NoSpace(s) == SelectSeq(s, LAMBDA c : ~IsSpaceCh(c))
\* hOCR nesting: ocr_page > ocr_block > ocr_line > ocrx_word, read off the class attributes; cs = stack of class values
ClassRank(c) == CASE c = gOCRPAGE -> 1 [] c = gOCRBLOCK -> 2 [] c = gOCRLINE -> 3 [] c = gOCRXWORD -> 4 [] OTHER -> 0
RECURSIVE NestOK(_, _, _)
NestOK(ev, q, cs) ==
  IF q > Len(ev) THEN TRUE
  ELSE LET e == ev[q] IN
    IF e.e = "open" THEN NestOK(ev, q + 1, Append(cs, 0))
    ELSE IF e.e = "attr" /\ e.n = bCLASS /\ Len(e.v) = 1 /\ ClassRank(e.v[1]) > 0 THEN
      LET rk == ClassRank(e.v[1])
          outer == {cs[j] : j \in 1..(Len(cs) - 1)} \ {0} IN
      \* directly inside the next outer class (an ocr_line needs a block, a word needs a line)
      IF rk > 1 /\ (rk - 1) \notin outer THEN FALSE
      ELSE NestOK(ev, q + 1, [cs EXCEPT ![Len(cs)] = rk])
    ELSE IF e.e = "close" THEN NestOK(ev, q + 1, SubSeq(cs, 1, Len(cs) - 1))
    ELSE NestOK(ev, q + 1, cs)
HocrNested(ev) == NestOK(ev, 1, <<>>)
=============================================================================
