----------------------------- MODULE TagExtract -----------------------------
(***************************************************************************)
(* C11, extended coverage: pdfdevice.TagExtractor driven by the            *)
(* marked-content operators of a page's content stream.                    *)
(* A program is a sequence of operations                                   *)
(*   [o: "BMC" | "BDC" | "EMC" | "MP" | "DP" | "Tj", tag, pv]              *)
(* grown so that BMC/BDC ... EMC nest properly (balanced input); tag is an *)
(* element word (standing for a name like /P, /Span, /Artifact), pv the    *)
(* value of the single property of a BDC / DP property list:               *)
(* <<>> = an integer (MCID), otherwise a string of document characters.    *)
(*   ABeginPage  begin_page: <page id bbox rotate>                         *)
(*   AOp         do_BMC / do_BDC -> begin_tag (push), do_EMC -> end_tag    *)
(*               (pop), do_MP / do_DP -> do_tag, Tj -> render_string       *)
(*   AEndPage    end_page: </page> LF                                      *)
(* dev - named deviations:                                                 *)
(*   "TagPointOpen"  do_tag writes the opening tag of a marked-content     *)
(*                   point and pops the stack, but writes no end: <A>      *)
(*                   stays open in the output                              *)
(*   "TagPropRaw"    property values are written with make_compat_str()    *)
(*                   but without enc()                                     *)
(***************************************************************************)
EXTENDS MarkupOps, Json
CONSTANTS MaxOps, MaxDepth, Strings, DevChoices, Tags
VARIABLES prog, hs, dev, phase, k, stack, chars, px
vars == <<prog, hs, dev, phase, k, stack, chars, px>>

Op(o, tag, pv) == [o |-> o, tag |-> tag, pv |-> pv]
Depth(p) == Cardinality({q \in 1..Len(p) : p[q].o \in {"BMC", "BDC"}}) - Cardinality({q \in 1..Len(p) : p[q].o = "EMC"})
Init == /\ hs \in Strings /\ dev \in DevChoices /\ prog = <<>> /\ phase = "build" /\ k = 1 /\ stack = <<>> /\ chars = <<>> /\ px = P0
AGrow == /\ phase = "build" /\ Len(prog) < MaxOps
         /\ \/ \E t \in Tags : prog' = Append(prog, Op("BMC", t, <<>>)) /\ Depth(prog) < MaxDepth
            \/ \E t \in Tags, v \in {<<>>, hs} : prog' = Append(prog, Op("BDC", t, v)) /\ Depth(prog) < MaxDepth
            \/ prog' = Append(prog, Op("EMC", 0, <<>>)) /\ Depth(prog) > 0
            \/ \E t \in Tags : prog' = Append(prog, Op("MP", t, <<>>))
            \/ \E t \in Tags, v \in {<<>>, hs} : prog' = Append(prog, Op("DP", t, v))
            \/ prog' = Append(prog, Op("Tj", 0, hs))
         /\ UNCHANGED <<hs, dev, phase, k, stack, chars, px>>
AStart == /\ phase = "build" /\ Depth(prog) = 0 /\ phase' = "page" /\ UNCHANGED <<prog, hs, dev, k, stack, chars, px>>

\* the property list of BDC / DP: one entry, /MCID n or /Lang (string)
Props(op) == IF op.o \in {"BMC", "MP"} THEN <<>>
             ELSE IF op.pv = <<>> THEN QAttr(bID, <<1900003>>)
             ELSE QAttr(bLANG, IF "TagPropRaw" \in dev THEN op.pv ELSE Enc(op.pv))
BeginTag(op) == OpenTag(op.tag, Props(op))
ABeginPage == /\ phase = "page" /\ phase' = "run"
              /\ chars' = OpenTag(ePAGE, QAttr(aID, Num(0, fID)) \o QAttr(aBBOX, Num(0, fBBOX)) \o QAttr(aROTATE, Num(0, fROTATE)))
              /\ UNCHANGED <<prog, hs, dev, k, stack, px>>
AOp == /\ phase = "run" /\ k <= Len(prog)
       /\ LET op == prog[k] IN
          CASE op.o \in {"BMC", "BDC"} -> chars' = chars \o BeginTag(op) /\ stack' = Append(stack, op.tag)
            [] op.o = "EMC" -> chars' = chars \o EndTag(stack[Len(stack)]) /\ stack' = SubSeq(stack, 1, Len(stack) - 1)
            [] op.o \in {"MP", "DP"} ->          \* do_tag: begin_tag(), then the stack entry is dropped again
                 /\ chars' = chars \o (IF "TagPointOpen" \in dev THEN BeginTag(op)
                                       ELSE <<cLT, op.tag>> \o Props(op) \o <<cSLASH, cGT>>)
                 /\ UNCHANGED stack
            [] OTHER -> chars' = chars \o Enc(op.pv) /\ UNCHANGED stack           \* render_string: enc(text)
       /\ k' = k + 1 /\ UNCHANGED <<prog, hs, dev, phase, px>>
AEndPage == /\ phase = "run" /\ k > Len(prog)
            /\ chars' = chars \o EndTag(ePAGE) \o <<cLF>> /\ px' = ParseML(chars \o EndTag(ePAGE) \o <<cLF>>) /\ phase' = "done"
            /\ UNCHANGED <<prog, hs, dev, k, stack>>
Next == AGrow \/ AStart \/ ABeginPage \/ AOp \/ AEndPage
Spec == Init /\ [][Next]_vars

Done == phase = "done"
Intended == dev = {}
RECURSIVE ShownText(_)
ShownText(q) == IF q > Len(prog) THEN <<>> ELSE (IF prog[q].o = "Tj" THEN prog[q].pv ELSE <<>>) \o ShownText(q + 1)
\* the open / close events of the marked-content sequences, in order, as the program nests them
P_WellFormed == Done => (px.err = 0 /\ px.st = <<>> /\ px.roots = 1)
P_StackEmpty == Done => stack = <<>>
P_TextFaithful == Done => NoSpace(DocText(px.ev)) = NoSpace(ShownText(1))
\* every marked-content sequence and point of the program is one element of the output
P_ElementsMatch == Done =>
  Cardinality({q \in 1..Len(px.ev) : px.ev[q].e = "open"}) = 1 + Cardinality({q \in 1..Len(prog) : prog[q].o \in {"BMC", "BDC", "MP", "DP"}})
TagWellFormed == Intended => P_WellFormed
TagStackEmpty == P_StackEmpty
TagTextFaithful == Intended => P_TextFaithful
TagElementsMatch == Intended => P_ElementsMatch
StackIsOpenTags == phase = "run" => Len(stack) = Depth(SubSeq(prog, 1, k - 1))
EmitTerminal == Done => PrintT("@@" \o ToJson([prog |-> prog, dev |-> dev, chars |-> chars]))
=============================================================================
