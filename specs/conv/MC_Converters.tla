---- MODULE MC_Converters ----
EXTENDS Converters
\* every string of up to n document character classes
StrUpTo(n) == UNION {[1..m -> DocClasses] : m \in 0..n}
Str3 == StrUpTo(3)
Str2 == StrUpTo(2)
Str1 == StrUpTo(1)
\* a small hostile palette for the run over all tree shapes
Palette2 == {<<cPLAIN>>, <<cLT, cAMP, cQUOT>>}
Palette3 == {<<cPLAIN>>, <<cLT, cAMP, cQUOT>>, <<cCTRL, cASTRAL, cAPOS>>, <<cGT, cNONASCII>>}
AllKinds == {"page", "textboxh", "textboxv", "textline", "char", "anno", "figure", "image", "line", "rect", "curve",
             "layout", "textgroup", "boxref"}
\* the kinds that carry a document-controlled string, and what is needed to hold them
StringKinds == {"page", "textboxh", "textline", "char", "figure", "image"}
OnlyIntended == {{}}
AsCodedAll == {{}, {"FigureNameRaw", "TextSinkUtf8", "BomPerWrite"}}
\* strings for the sink dimension: ASCII characters that escaping codecs rewrite, a CJK run followed by ASCII
StrSinks(n) == UNION {[1..m -> {cPLAIN, cPLUS, cTILDE, cNONASCII, cWIDE, cLT}] : m \in 0..n}
StrSinks3 == StrSinks(3)
StrSinks2 == StrSinks(2)
\* strings of format metacharacters: %%, %s, %d, a trailing %, {0}, {} ...
StrFormat(n) == UNION {[1..m -> {cPLAIN, cPCT, cLBRACE, cRBRACE, cFMT}] : m \in 1..n}
StrFormat2 == StrFormat(2) \cup {<<cLBRACE, cFMT, cRBRACE>>, <<cPCT, cPCT, cFMT>>, <<cPCT, cLT, cFMT>>}
StrFormat3 == StrFormat(3)
FormatPalette == {<<cPCT>>, <<cPCT, cPCT>>, <<cPCT, cFMT>>, <<cPLAIN, cPCT>>, <<cLBRACE, cFMT, cRBRACE>>, <<cLBRACE, cRBRACE>>, <<cPCT, cLT, cFMT>>}
MemoryOnly == {"StringIO"}
DevMode == {{"ModeEndsWithB"}}
SinkPalette == {<<cPLAIN, cWIDE>>, <<cLT>>}
DevEmptyCodec == {{"EmptyCodecDeclared"}}
DevTextFilter == {{"TextSinkCodecFilter"}}
DevBypass == {{"AsciiBypass"}}
DevFig == {{"FigureNameRaw"}}
DevUtf8 == {{"TextSinkUtf8"}}
DevBom == {{"BomPerWrite"}}
FigKinds == {"page", "figure", "char"}
====
