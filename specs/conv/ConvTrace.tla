----------------------------- MODULE ConvTrace -----------------------------
(***************************************************************************)
(* C11, binding B: runs of the real TextConverter / XMLConverter over      *)
(* pages of real documents.  Each trace carries the layout tree the        *)
(* converter was handed (projected by the harness: kind, depth, glyph      *)
(* text, font / resource name, interned number renderings) and what it     *)
(* wrote: the character stream (text) or the stream of lexical events      *)
(* (xml: tags with their raw attribute values, raw character data).  The   *)
(* machine below is the serialiser machine of Converters.tla run over the  *)
(* recorded tree; every piece it would write must be the next piece of the *)
(* recording.  A rejected trace is a deadlock whose last state names the   *)
(* trace (t), the node (i) and the position in the recording (o).          *)
(*                                                                         *)
(* Characters: 2..6 XML-special, 12 SP, 13 LF, 16 FF, 7 other C0 control,  *)
(* 1000 + code point otherwise.  Number renderings are interned strings    *)
(* (equal id = equal string).                                              *)
(***************************************************************************)
EXTENDS ConvOps, Json, IOUtils

CONSTANT Dev

Traces == JsonDeserialize(IOEnv.TRACE_FILE)
NT == Len(Traces)

VARIABLES t, i, stack, o, sub
vars == <<t, i, stack, o, sub>>

Cur == Traces[t]
T == Cur.T
N == Len(T)
Out == Cur.out            \* text: characters; xml: events [e, n, at, fa, v]
IsXml == Cur.conv = "xml"

Init == t = 1 /\ i = 1 /\ stack = <<>> /\ o = 0 /\ sub = IF NT >= 1 /\ Traces[1].conv = "xml" THEN 3 ELSE 0

Top == stack[Len(stack)]
Descend == IF i > N THEN FALSE ELSE IF stack = <<>> THEN TRUE ELSE T[i].d > T[Top].d

\* the next Len(piece) recorded characters are `piece`
Matches(piece) == (o + Len(piece) <= Len(Out) /\ SubSeq(Out, o + 1, o + Len(piece)) = piece) = TRUE
EvIs(q, e, n) == (q <= Len(Out) /\ Out[q].e = e /\ Out[q].n = n) = TRUE

\* the raw value of the document-controlled attribute of node i (font of a glyph, name of a figure)
DocAttr(n) == CASE n.k = "char" -> Enc(n.f)
                [] n.k = "figure" -> (IF "FigureNameRaw" \in Dev THEN n.s ELSE Enc(n.s))
                [] OTHER -> <<>>

\* ---------------------------------------------------------------- text converter
TEnter == /\ t <= NT /\ ~IsXml /\ Descend
          /\ LET k == T[i].k IN
             IF k = "layout" THEN i' = T[i].e + 1 /\ UNCHANGED <<stack, o>>
             ELSE IF k \in {"char", "anno"} THEN Matches(T[i].s) /\ o' = o + Len(T[i].s) /\ i' = i + 1 /\ UNCHANGED stack
             ELSE IF k \in Containers THEN stack' = Append(stack, i) /\ i' = i + 1 /\ UNCHANGED o
             ELSE i' = i + 1 /\ UNCHANGED <<stack, o>>
          /\ UNCHANGED <<t, sub>>
TExit == /\ t <= NT /\ ~IsXml /\ ~Descend /\ stack # <<>>
         /\ LET k == T[Top].k IN
            IF k \in TextBoxes THEN Matches(<<cLF>>) /\ o' = o + 1
            ELSE IF k = "page" THEN Matches(<<cFF>>) /\ o' = o + 1
            ELSE UNCHANGED o
         /\ stack' = SubSeq(stack, 1, Len(stack) - 1) /\ UNCHANGED <<t, i, sub>>

\* ---------------------------------------------------------------- xml converter
XBegin == /\ t <= NT /\ IsXml /\ sub = 3
          /\ Cur.prolog /\ EvIs(1, "open", ePAGES) /\ o' = 1 /\ sub' = 0 /\ UNCHANGED <<t, i, stack>>
XEnter == /\ t <= NT /\ IsXml /\ sub = 0 /\ Descend
          /\ LET n == T[i]  k == n.k  q == o + 1 IN
             /\ EvIs(q, "open", ElemOf(k))
             /\ (Out[q].at = n.nu /\ Out[q].fa = DocAttr(n)) = TRUE
             /\ IF k \in {"char", "anno"}
                THEN LET txt == IF k = "char" THEN XmlCharText(n.s, Cur.strip) ELSE n.s IN
                     IF txt = <<>> THEN EvIs(q + 1, "close", eTEXT) /\ o' = q + 1
                     ELSE /\ EvIs(q + 1, "chars", 0) /\ (Out[q + 1].v = txt) = TRUE
                          /\ EvIs(q + 2, "close", eTEXT) /\ o' = q + 2
                     /\ UNCHANGED stack
                ELSE IF k \in Containers THEN stack' = Append(stack, i) /\ o' = q
                ELSE EvIs(q + 1, "close", ElemOf(k)) /\ o' = q + 1 /\ UNCHANGED stack
          /\ i' = i + 1 /\ UNCHANGED <<t, sub>>
XExit == /\ t <= NT /\ IsXml /\ sub = 0 /\ ~Descend /\ stack # <<>>
         /\ EvIs(o + 1, "close", ElemOf(T[Top].k)) /\ o' = o + 1
         /\ stack' = SubSeq(stack, 1, Len(stack) - 1) /\ UNCHANGED <<t, i, sub>>

\* ---------------------------------------------------------------- end of a trace
EndTrace == /\ t <= NT /\ sub = 0 /\ i > N /\ stack = <<>>
            /\ IF IsXml THEN EvIs(o + 1, "close", ePAGES) /\ o + 1 = Len(Out) ELSE o = Len(Out)
            /\ t' = t + 1 /\ i' = 1 /\ stack' = <<>> /\ o' = 0
            /\ sub' = IF t + 1 <= NT /\ Traces[t + 1].conv = "xml" THEN 3 ELSE 0
Finished == t > NT /\ UNCHANGED vars

Next == TEnter \/ TExit \/ XBegin \/ XEnter \/ XExit \/ EndTrace \/ Finished
Spec == Init /\ [][Next]_vars

\* evaluated in every state of every trace
StackIsPath == t <= NT =>
  \A q \in 1..Len(stack) : stack[q] < i /\ T[stack[q]].d = q - 1 + T[stack[1]].d
CursorInRange == t <= NT => o <= Len(Out)
=============================================================================
