---- MODULE MC_Markup ----
EXTENDS MarkupConverters
\* hostile strings: XML-special characters, a subset tag separator, white space, a control and a non-ASCII character
MStr(n) == UNION {[1..m -> {cPLAIN, cLT, cAMP, cQUOT, cAPOS, cPLUS, cSP}] : m \in 0..n}
MStr2 == MStr(2)
MStr1 == MStr(1)
MPalette == {<<cPLAIN>>, <<cLT, cAMP>>, <<cQUOT, cPLUS, cAPOS>>, <<cSP>>, <<cPLAIN, cSP, cPLAIN>>, <<cPCT, cFMT>>, <<cLBRACE, cFMT, cRBRACE>>}
HtmlKinds == {"page", "textboxh", "textboxv", "textline", "char", "anno", "figure", "line", "image"}
HocrKinds == {"page", "textboxh", "textline", "char", "anno", "figure"}
LineKinds == {"page", "textboxh", "textline", "char", "anno"}
MLines == {<<cPLAIN>>, <<cPLAIN, cSP, cLT>>, <<cSP>>}
FlatKinds == {"page", "figure", "char", "anno"}
BothConvs == {"html", "hocr"}
OnlyHtml == {"html"}
OnlyHocr == {"hocr"}
AllModes == {"normal", "exact", "loose"}
NormalMode == {"normal"}
OnlyIntended == {{}}
====
