----------------------------- MODULE MarkupTrace -----------------------------
(***************************************************************************)
(* C11 extended coverage, binding B for HTMLConverter / HOCRConverter:     *)
(* recorded runs over pages of real documents.  A trace carries the layout *)
(* tree handed to receive_layout (kinds, depths, glyph text and font names *)
(* as characters, the identities the converters compare: `a` = size class  *)
(* of (font name, size) for HTML / of (baseline, font name, size) per line *)
(* for hOCR), the converter, the layout mode and the output as tokens of   *)
(* the specification's alphabet (obtained by matching the real output      *)
(* against the concrete form of each token, position by position).         *)
(* The machine of MarkupConverters.tla is started on the recorded tree     *)
(* (one initial state per trace; hs = <<t>> names the trace) and run to    *)
(* the end; the characters it wrote must be the recording.                 *)
(***************************************************************************)
EXTENDS MarkupConverters, IOUtils
Traces == JsonDeserialize(IOEnv.TRACE_FILE)
TraceInit == \E t \in 1..Len(Traces) :
               /\ hs = <<t>> /\ T = Traces[t].T /\ phase = "begin" /\ conv = Traces[t].conv /\ mode = Traces[t].mode
               /\ dev = {Traces[t].dev[q] : q \in 1..Len(Traces[t].dev)}      \* the design the harness found the run to follow
               /\ i = 1 /\ stack = <<>> /\ chars = <<>> /\ font = 0 /\ fstack = <<>> /\ npages = 0 /\ w = W0 /\ px = P0
TraceNext == ABegin \/ AEnter \/ AExit \/ AClose
\* checked in every state: what has been written so far is a prefix of the recording; at the end it is the recording
TraceMatches == LET rec == Traces[hs[1]].out IN
  /\ Len(chars) <= Len(rec)
  /\ (phase = "done" => Len(chars) = Len(rec))
  /\ (Len(chars) > 0 => chars[Len(chars)] = rec[Len(chars)])
WholeMatches == phase = "done" => chars = Traces[hs[1]].out
=============================================================================
