---- MODULE TT ----
EXTENDS MC_Markup
TheDevs == {{"HocrPending"}}
====
