------------------------------- MODULE Crypt -------------------------------
(***************************************************************************)
(* C10: the standard security handler, symbolically (Dolev-Yao style).     *)
(*                                                                         *)
(* Cryptographic primitives are uninterpreted and perfect (DESIGN.md 1.1): *)
(* a term decrypts only under exactly the key term it was encrypted with.  *)
(* What the model decides is the *use* of the primitives: which password   *)
(* preparation, which key derivation inputs, which handler, which          *)
(* (object number, generation) enters the per-object key, WHERE decryption *)
(* is applied and how often.                                               *)
(*                                                                         *)
(*  - writer side  = reference semantics, ISO 32000-1 7.6 (R2-R4), Adobe   *)
(*    ExtensionLevel 3 (R5), ISO 32000-2 7.6 (R6): which items carry an    *)
(*    encryption layer and under which key term (Layers);                  *)
(*  - reader side  = implementation-shaped machine, one action per code    *)
(*    step of pdfdocument.py / pdftypes.py / pdfparser.py.                 *)
(*                                                                         *)
(* One behaviour = one document configuration, one password pair, one      *)
(* password tried, one item observed.  Known deviations of the code from   *)
(* the standard are named switches in Dev; with Dev = {} the machine is    *)
(* the intended design and the invariants hold without excuses.            *)
(* Both machines are explored in one run (Dev is chosen by Init).          *)
(***************************************************************************)
EXTENDS Integers, Sequences, FiniteSets, TLC, Json

CONSTANTS DevSets,   \* sets of deviations to explore: {{}} = intended design only; {{}, D} = intended design and the
                     \* machine as coded (D = deviations listed as known findings), side by side in one run
          Configs,   \* set of [V, R, keylen, cfm, em, perms, id, form, encplace, dv]
                     \*   form: table | xrefstm (cross-reference stream + object stream) | hybrid (table + /XRefStm + object
                     \*   stream) | xrefstmw0 (/W [1 n 0]: no generation field) | xrefstm0w (/W [0 n 2]: no type field)
                     \*   dv: how the Encrypt dictionary spells entries that do not matter for this V/R:
                     \*   plain | len40 len64 nolen (a top-level /Length that only V 2/3 give a meaning to, or none)
                     \*   | alt (crypt filter named other than StdCF, /CF /Length in bits, /EncryptMetadata written out)
                     \*   | big, huge (not about the dictionary: the document also carries strings and streams of 65535,
                     \*     65536, 65537 (huge: and 150000) bytes)
                     \*   | below V 4: emfalse emtrue (an /EncryptMetadata entry, which R 2/3 give no meaning to),
                     \*     cfnoise (/CF /StmF /StrF present), len40 (V 1 with /Length 40 written out)
          PwPairs,   \* set of <<user password class, owner password class | "same">>
          Tried,     \* password classes tried by the reader
          Items      \* universe of item records; ItemsOf(cfg) selects those a configuration contains

AllDev == {"AESKeepsPadding",            \* decrypt_aes128/256 return the PKCS#7 padding with the plaintext
           "StreamDictNotDeciphered",    \* decipher_all does not descend into PDFStream.attrs
           "NonLatin1PasswordError",     \* R<=4: password.encode("latin1") raises UnicodeEncodeError
           "SaslprepErrorEscapes",       \* R6: saslprep raises PDFValueError on prohibited characters
           "SaslprepEmptyIndexError",    \* R6: saslprep indexes data[0] after mapping everything to nothing
           "ImplicitIdentityKeyError",   \* V4 without StmF/StrF (default Identity): KeyError 'StmF'
           "GenFromWholeEntry",          \* cross-reference stream with /W [a b 0]: the (absent) generation field is read from the
                                         \* whole entry instead of defaulting to 0 - it only feeds the per-object key
           "DecipherResultDropped",      \* getobj keeps the parsed object and drops what decipher_all RETURNS: an indirect
                                         \* object that is itself a string (immutable) keeps its ciphertext
           "KeystreamStateLost",         \* RC4 applied block-wise (64 KiB) without carrying the cipher state from block to
                                         \* block: data longer than 65536 bytes decrypts wrongly after the first block
           "EmFlagAllRevisions",         \* the ff ff ff ff of "EncryptMetadata false" enters the file key for every revision
           "NfcShortcut",                \* R6: SASLprep skips its NFKC step for a string that is NFC-normalised already
           "V4LengthFromDict",           \* V4: key length taken from the top-level /Length (meaningful only for V 2/3)
           "TruncateCharsNotBytes"}      \* R5/R6: password cut to 127 characters before encoding instead of 127 bytes after
ASSUME \A D \in DevSets : D \subseteq AllDev
CodedDev == UNION DevSets        \* the largest set explored: terminal states of that machine are printed for the replay

VARIABLES cfg, Dev, upw, opw, tried, item, \* chosen by Init, constant afterwards (Dev: the deviations in force)
          phase, handler, pwb, key, outcome, perms,
          cur,       \* the body object being fetched: [n, g, stream, type, hasdec, sid]
          val,       \* symbolic value of the item: [enc: remaining layers, spur: decryptions that hit no layer, pad]
          calls,     \* history of decrypt calls
          blame      \* deviations that changed this behaviour
vars == <<cfg, Dev, upw, opw, tried, item, phase, handler, pwb, key, outcome, perms, cur, val, calls, blame>>

ObjStmId == 30      \* object stream container / cross-reference stream / Encrypt dictionary object numbers
XRefId   == 31      \* (the realiser uses the same numbers)
EncId    == 16

(***************************************************************************)
(* Password preparation (reference).  Classes:                             *)
(*   e empty, a b short ASCII, L (41 bytes), L2 = L's first 32 bytes + a   *)
(*   different tail, M (131 bytes), M2 = M's first 127 bytes + different   *)
(*   tail, n Latin-1 non-ASCII, n2 = NFKC-equivalent spelling of n (not    *)
(*   Latin-1), w wrong ASCII, x wrong non-Latin-1, c contains a character  *)
(*   SASLprep prohibits, s = soft hyphen (SASLprep maps it to nothing),    *)
(*   N N2 P long AND non-ASCII, B31 B32 B33 at the 32-byte boundary (see   *)
(*   PwInfo).  Truncation is defined on BYTES of the encoded string.       *)
(* Two passwords are the same password for a revision iff their prepared   *)
(* forms are equal; "BAD" = no prepared form exists (it cannot be right).  *)
(***************************************************************************)
\* What matters about a password class: its length in characters, in Latin-1 bytes (-1: not encodable), in UTF-8
\* bytes, and the identity of its first 32 Latin-1 bytes / first 127 UTF-8 bytes (classes that share them agree).
\*   N  = "a" + 70 x e-acute: 71 characters, 141 UTF-8 bytes (more than 127 BYTES, fewer than 127 CHARACTERS)
\*   N2 = the first 127 UTF-8 bytes of N followed by a different tail
\*   P  = 130 x e-acute: more than 127 characters, 260 UTF-8 bytes
\*   B31, B32, B33: ASCII of exactly 31, 32, 33 bytes, each a prefix of the next
PwInfo(p) ==
  CASE p = "e"  -> [ch |-> 0,   l1 |-> 0,   u8 |-> 0,   p32 |-> "-",   p127 |-> "-"]
    [] p = "L"  -> [ch |-> 41,  l1 |-> 41,  u8 |-> 41,  p32 |-> "L32", p127 |-> "-"]
    [] p = "L2" -> [ch |-> 41,  l1 |-> 41,  u8 |-> 41,  p32 |-> "L32", p127 |-> "-"]
    [] p = "M"  -> [ch |-> 131, l1 |-> 131, u8 |-> 131, p32 |-> "M32", p127 |-> "M127"]
    [] p = "M2" -> [ch |-> 131, l1 |-> 131, u8 |-> 131, p32 |-> "M32", p127 |-> "M127"]
    [] p = "n"  -> [ch |-> 8,   l1 |-> 8,   u8 |-> 10,  p32 |-> "-",   p127 |-> "-"]
    [] p = "n2" -> [ch |-> 10,  l1 |-> -1,  u8 |-> 12,  p32 |-> "-",   p127 |-> "-"]
    [] p = "x"  -> [ch |-> 6,   l1 |-> -1,  u8 |-> 12,  p32 |-> "-",   p127 |-> "-"]
    [] p = "s"  -> [ch |-> 1,   l1 |-> 1,   u8 |-> 2,   p32 |-> "-",   p127 |-> "-"]
    [] p = "N"  -> [ch |-> 71,  l1 |-> 71,  u8 |-> 141, p32 |-> "N32", p127 |-> "N127"]
    [] p = "N2" -> [ch |-> 74,  l1 |-> 74,  u8 |-> 147, p32 |-> "N32", p127 |-> "N127"]
    [] p = "P"  -> [ch |-> 130, l1 |-> 130, u8 |-> 260, p32 |-> "P32", p127 |-> "P127"]
    [] p = "B31" -> [ch |-> 31, l1 |-> 31,  u8 |-> 31,  p32 |-> "-",   p127 |-> "-"]
    [] p = "B32" -> [ch |-> 32, l1 |-> 32,  u8 |-> 32,  p32 |-> "B32", p127 |-> "-"]
    [] p = "B33" -> [ch |-> 33, l1 |-> 33,  u8 |-> 33,  p32 |-> "B32", p127 |-> "-"]
    [] p = "q"  -> [ch |-> 14,  l1 |-> 14,  u8 |-> 14,  p32 |-> "-",   p127 |-> "-"]      \* "pass2wordIX-fi"
    [] p = "q2" -> [ch |-> 12,  l1 |-> -1,  u8 |-> 19,  p32 |-> "-",   p127 |-> "-"]      \* the same, spelled with compatibility
                                                   \* characters (fullwidth p, superscript two, ROMAN NUMERAL NINE, ligature fi)
    [] OTHER    -> [ch |-> 5,   l1 |-> 5,   u8 |-> 5,   p32 |-> "-",   p127 |-> "-"]      \* a b w c: short ASCII

\* RFC 4013 on the classes: n2 normalises to n, s maps to nothing, c is prohibited
\* (the normalisation is NFKC: compatibility characters are folded - q2 becomes q - whether or not the string is NFC)
Sasl(p) == CASE p = "n2" -> "n" [] p = "q2" -> "q" [] p = "s" -> "e" [] p = "c" -> "BAD" [] OTHER -> p

Prep(R, p) ==
  IF R <= 4 THEN          \* PDFDocEncoding; the first 32 BYTES count (algorithm 2 step a: pad or truncate to 32)
    IF PwInfo(p).l1 < 0 THEN "BAD" ELSE IF PwInfo(p).l1 >= 32 THEN PwInfo(p).p32 ELSE p
  ELSE                    \* (R6: SASLprep first) UTF-8; the first 127 BYTES of the UTF-8 string count
    LET q == IF R = 6 THEN Sasl(p) ELSE p
    IN IF q = "BAD" THEN "BAD" ELSE IF PwInfo(q).u8 > 127 THEN PwInfo(q).p127 ELSE q

\* deviation TruncateCharsNotBytes: str[:127].encode() - cut after 127 CHARACTERS, then encode
CharCut(R, p) == LET q == IF R = 6 THEN Sasl(p) ELSE p
                 IN IF R >= 5 /\ q # "BAD" /\ PwInfo(q).u8 > 127 /\ PwInfo(q).u8 # PwInfo(q).ch
                    THEN "charcut:" \o q        \* a byte string the writer never hashed
                    ELSE Prep(R, p)

Owner == IF opw = "same" THEN upw ELSE opw

(***************************************************************************)
(* Symbolic key material.                                                  *)
(***************************************************************************)
NoKey == [t |-> "nokey"]
Fk256 == [t |-> "fk256"]                               \* the random file key of R5/R6
NB(R, keylen) == IF R = 2 THEN 5 ELSE keylen \div 8    \* bytes of the RC4/AES-128 file key
IdTerm(c) == IF c.id = "present" THEN "id0" ELSE "empty"

OKey(R, nb, p) == [t |-> "okey", R |-> R, nb |-> nb, pw |-> p]                    \* algorithm 3 a-d
Key234(R, p, O, P, idt, emf, nb) ==                                             \* algorithm 2
  [t |-> "key", R |-> R, pw |-> p, O |-> O, P |-> P, id |-> idt, emf |-> emf, nb |-> nb]
UOf(R, k, idt) == [t |-> "U", k |-> k, id |-> IF R = 2 THEN "-" ELSE idt]       \* algorithms 4, 5
H(p, salt, u) == [t |-> "H", pw |-> p, salt |-> salt, u |-> u]                  \* algorithm 2.B / SHA-256

\* ---- what the writer stores in the Encrypt dictionary
StoredO(c) == IF c.R <= 4
              THEN [t |-> "O", k |-> OKey(c.R, NB(c.R, c.keylen), Prep(c.R, Owner)), user |-> Prep(c.R, upw)]
              ELSE [t |-> "O5", hash |-> H(Prep(c.R, Owner), "ovs", "U"), kh |-> H(Prep(c.R, Owner), "oks", "U")]
FileKey(c) == IF c.R <= 4
              THEN Key234(c.R, Prep(c.R, upw), StoredO(c), c.perms, IdTerm(c), c.R >= 4 /\ ~c.em, NB(c.R, c.keylen))
              ELSE Fk256
StoredU(c) == IF c.R <= 4 THEN UOf(c.R, FileKey(c), IdTerm(c))
              ELSE [t |-> "U5", hash |-> H(Prep(c.R, upw), "uvs", "-"), kh |-> H(Prep(c.R, upw), "uks", "-")]

(***************************************************************************)
(* Writer relation: which items carry an encryption layer, under what key. *)
(***************************************************************************)
Alg(c) == CASE c.V \in {1, 2} -> "RC4"
            [] c.cfm = "V2" -> "RC4"
            [] c.cfm = "AESV2" -> "AES128"
            [] c.cfm = "AESV3" -> "AES256"
            [] OTHER -> "ID"                            \* Identity, explicit or by default
IsAES(a) == a \in {"AES128", "AES256"}

ObjKey(k, n, g, a) == IF a = "AES256" THEN k           \* algorithm 1.A: the file key itself
                      ELSE [t |-> "objkey", base |-> k, n |-> n, g |-> g, salt |-> (a = "AES128")]  \* algorithm 1
Layer(c, n, g) == [key |-> ObjKey(FileKey(c), n, g, Alg(c)), alg |-> Alg(c)]

\* the body object whose number/generation keys the item's layer
OwnerNG(it) == IF it.loc = "objstm" THEN <<ObjStmId, 0>> ELSE <<it.n, it.g>>

Layers(c, it) ==
  IF Alg(c) = "ID" \/ it.kind = "atom" THEN <<>>        \* (names and numbers are never encrypted)
  ELSE CASE it.loc \in {"direct", "streamdict", "streamdata"} -> <<Layer(c, it.n, it.g)>>
         [] it.loc = "metadata" -> IF c.V >= 4 /\ ~c.em THEN <<>> ELSE <<Layer(c, it.n, it.g)>>
         [] it.loc = "objstm" -> <<Layer(c, ObjStmId, 0)>>   \* encrypted once, as part of the container's data
         [] OTHER -> <<>>                                     \* trailer, Encrypt dictionary, cross-reference stream

ItemsOf(c) ==
  {it \in Items :
     /\ it.loc = "objstm" => c.form \in {"xrefstm", "hybrid"}
     /\ it.loc = "xrefstm" => c.form \in {"xrefstm", "hybrid", "xrefstmw0", "xrefstm0w"}
     /\ it.n \in {50, 51, 52} => c.dv \in {"big", "huge"}       \* the size dimension: data around and beyond 64 KiB
     /\ (it.n = 52 \/ it.len = 150000) => c.dv = "huge"
     /\ c.form = "xrefstmw0" => it.g = 0          \* /W [1 2 0]: there is no generation field, every generation is 0
     /\ it.loc = "encdict" => c.encplace = "indirect"
     /\ (it.loc = "trailer" /\ it.type = "encrypt") => c.encplace = "direct"
     /\ (it.loc = "trailer" /\ it.type = "id") => c.id = "present"}

\* items of the original document (the Encrypt dictionary and the encrypted file's own cross-reference
\* stream are not part of "the unencrypted original"; they are modelled, observed, but not gated)
Gated(it) == it.loc \notin {"encdict", "xrefstm"}

(***************************************************************************)
(* Reader.                                                                 *)
(***************************************************************************)
NoCur == [n |-> 0, g |-> 0, stream |-> FALSE, type |-> "-", hasdec |-> FALSE, sid |-> <<>>]

Init ==
  /\ cfg \in Configs
  /\ Dev \in DevSets
  /\ \E pp \in PwPairs : upw = pp[1] /\ opw = pp[2]
  \* a document can only be written with passwords that have a prepared form in its revision
  /\ Prep(cfg.R, upw) # "BAD" /\ Prep(cfg.R, IF opw = "same" THEN upw ELSE opw) # "BAD"
  /\ tried \in Tried
  /\ item \in ItemsOf(cfg)
  /\ phase = "select" /\ handler = "none" /\ pwb = "-" /\ key = NoKey /\ outcome = "pending"
  /\ perms = {"print", "modify", "extract"}     \* PDFDocument.__init__: all True until a handler says otherwise
  /\ cur = NoCur
  /\ val = [enc |-> Layers(cfg, item), spur |-> 0, pad |-> FALSE]
  /\ calls = <<>> /\ blame = {}

Fail(exc, d) == /\ outcome' = exc /\ phase' = "done" /\ blame' = blame \cup d
                /\ UNCHANGED <<cfg, Dev, upw, opw, tried, item, handler, pwb, key, perms, cur, val, calls>>

\* the top-level /Length entry as written (0: absent).  For V 4 the crypt filter decides (AESV2 / V2 with 128 bits),
\* for V 5 the key is 256 bits: the entry is noise there
TopLen(c) == CASE c.dv = "len40" -> 40 [] c.dv = "len64" -> 64 [] c.dv = "nolen" -> 0 [] OTHER -> c.keylen
V4Len == IF "V4LengthFromDict" \in Dev /\ TopLen(cfg) # 0 THEN TopLen(cfg) ELSE 128

\* does ff ff ff ff enter the file key?  (algorithm 2 step f: revision 4 or greater, metadata not encrypted)
RdEmf == (cfg.R >= 4 /\ ~cfg.em) \/ ("EmFlagAllRevisions" \in Dev /\ cfg.R < 4 /\ cfg.dv = "emfalse")

\* _initialize_password: registry lookup by V, supported_revisions, init_params
ASelectHandler ==
  /\ phase = "select"
  /\ LET h == CASE cfg.V \in {1, 2} -> "Base" [] cfg.V = 4 -> "V4" [] cfg.V = 5 -> "V5" [] OTHER -> "none"
         revok == (h = "Base" /\ cfg.R \in {2, 3}) \/ (h = "V4" /\ cfg.R = 4) \/ (h = "V5" /\ cfg.R \in {5, 6})
     IN IF h = "none" \/ ~revok THEN Fail("PDFEncryptionError", {})
        ELSE IF cfg.cfm = "IdentityDefault" /\ "ImplicitIdentityKeyError" \in Dev
        THEN Fail("KeyError", {"ImplicitIdentityKeyError"})          \* self.param["StmF"]
        ELSE /\ handler' = h /\ phase' = "encode"
             /\ UNCHANGED <<cfg, Dev, upw, opw, tried, item, pwb, key, outcome, perms, cur, val, calls, blame>>

\* authenticate(): password.encode("latin1")  /  _normalize_password (saslprep for R6, utf-8, [:127])
AEncodePassword ==
  /\ phase = "encode"
  /\ LET p == Prep(cfg.R, tried) IN
     IF cfg.R <= 4 /\ p = "BAD" /\ "NonLatin1PasswordError" \in Dev
     THEN Fail("UnicodeEncodeError", {"NonLatin1PasswordError"})
     ELSE IF cfg.R = 6 /\ tried = "c" /\ "SaslprepErrorEscapes" \in Dev
     THEN Fail("PDFValueError", {"SaslprepErrorEscapes"})
     ELSE IF cfg.R = 6 /\ tried = "s" /\ "SaslprepEmptyIndexError" \in Dev
     THEN Fail("IndexError", {"SaslprepEmptyIndexError"})
     ELSE LET nfc == "NfcShortcut" \in Dev /\ cfg.R = 6 /\ tried = "q2"       \* NFC-normalised, so left as spelled
              q == IF nfc THEN "unfolded:q2" ELSE IF "TruncateCharsNotBytes" \in Dev THEN CharCut(cfg.R, tried) ELSE p IN
          /\ pwb' = q
          /\ blame' = (IF nfc THEN blame \cup {"NfcShortcut"} ELSE IF q # p THEN blame \cup {"TruncateCharsNotBytes"} ELSE blame)
                       \cup (IF RdEmf /\ cfg.R < 4 THEN {"EmFlagAllRevisions"} ELSE {})
                       \cup (IF handler = "V4" /\ V4Len # 128 THEN {"V4LengthFromDict"} ELSE {})
          /\ phase' = IF q = "BAD" THEN "reject" ELSE IF handler = "V5" THEN "auth_owner5" ELSE "auth_user"
          /\ UNCHANGED <<cfg, Dev, upw, opw, tried, item, handler, key, outcome, perms, cur, val, calls>>

\* what the reader reads back from the Encrypt dictionary
RdNB == IF cfg.R = 2 THEN 5 ELSE (IF handler = "V4" THEN V4Len ELSE cfg.keylen) \div 8   \* V4.init_params: length = 128
TryUser(p) == LET k == Key234(cfg.R, p, StoredO(cfg), cfg.perms, IdTerm(cfg), RdEmf, RdNB)   \* compute_encryption_key
              IN IF UOf(cfg.R, k, IdTerm(cfg)) = StoredU(cfg) THEN k ELSE NoKey               \* verify_encryption_key

Goto(ph, k) == /\ phase' = ph /\ key' = k
               /\ UNCHANGED <<cfg, Dev, upw, opw, tried, item, handler, pwb, outcome, perms, cur, val, calls, blame>>

\* PDFStandardSecurityHandler.authenticate: user first ...
AAuthUser ==
  /\ phase = "auth_user"
  /\ LET k == TryUser(pwb) IN IF k # NoKey THEN Goto("open", k) ELSE Goto("auth_owner", NoKey)

\* ... then owner (algorithm 7: recover the user password from O, then authenticate it)
AAuthOwner ==
  /\ phase = "auth_owner"
  /\ LET up == IF OKey(cfg.R, RdNB, pwb) = StoredO(cfg).k THEN StoredO(cfg).user ELSE "garbage"
         k == TryUser(up)
     IN IF k # NoKey THEN Goto("open", k) ELSE Goto("reject", NoKey)

\* PDFStandardSecurityHandlerV5.authenticate: owner first (hash over password, validation salt, U) ...
AAuthOwner5 ==
  /\ phase = "auth_owner5"
  /\ IF H(pwb, "ovs", "U") = StoredO(cfg).hash
     THEN Goto("open", IF H(pwb, "oks", "U") = StoredO(cfg).kh THEN Fk256 ELSE [t |-> "garbagekey"])
     ELSE Goto("auth_user5", NoKey)

\* ... then user
AAuthUser5 ==
  /\ phase = "auth_user5"
  /\ IF H(pwb, "uvs", "-") = StoredU(cfg).hash
     THEN Goto("open", IF H(pwb, "uks", "-") = StoredU(cfg).kh THEN Fk256 ELSE [t |-> "garbagekey"])
     ELSE Goto("reject", NoKey)

\* init_key: key is None -> raise PDFPasswordIncorrect
AReject == /\ phase = "reject"
           /\ outcome' = "PDFPasswordIncorrect" /\ phase' = "done"
           /\ UNCHANGED <<cfg, Dev, upw, opw, tried, item, handler, pwb, key, perms, cur, val, calls, blame>>

\* _initialize_password: self.decipher = handler.decrypt; is_printable/modifiable/extractable from P
AOpen == /\ phase = "open"
         /\ outcome' = "opened" /\ perms' = cfg.perms /\ phase' = "fetch"
         /\ UNCHANGED <<cfg, Dev, upw, opw, tried, item, handler, pwb, key, cur, val, calls, blame>>

(* ---- handler.decrypt(objid, genno, data, attrs) ---- *)
CodeAlg(isStreamCall, ty) ==
  IF handler = "Base" THEN "RC4"
  ELSE IF ~cfg.em /\ isStreamCall /\ ty = "Metadata" THEN "ID"     \* V4.decrypt: attrs is only passed for streams
  ELSE Alg(cfg)                                                    \* self.cfm[self.strf]

LostBlame(a) == IF a = "RC4" /\ "KeystreamStateLost" \in Dev /\ item.len > 65536 /\ item.loc \in {"direct", "streamdata"}
                THEN {"KeystreamStateLost"} ELSE {}
Decrypt(v, n, g, isStreamCall, ty) ==
  LET a == CodeAlg(isStreamCall, ty)
      k == ObjKey(key, n, g, a)
  IN IF a = "ID" THEN v
     ELSE IF v.enc # <<>> /\ v.enc[Len(v.enc)].alg = a /\ v.enc[Len(v.enc)].key = k
     THEN [v EXCEPT !.enc = SubSeq(@, 1, Len(@) - 1),
                    !.pad = @ \/ (IsAES(a) /\ "AESKeepsPadding" \in Dev),
                    \* the size dimension: RC4 is a stream cipher, its state runs through the whole datum whatever its length
                    !.spur = IF LostBlame(a) # {} THEN @ + 1 ELSE @]
     ELSE [v EXCEPT !.spur = @ + 1]
CallRec(n, g, isStreamCall, ty) ==
  [n |-> n, g |-> g, stream |-> isStreamCall, alg |-> CodeAlg(isStreamCall, ty),
   key |-> ObjKey(key, n, g, CodeAlg(isStreamCall, ty))]
PadBlame(a) == IF IsAES(a) /\ "AESKeepsPadding" \in Dev THEN {"AESKeepsPadding"} ELSE {}

\* what is being fetched for the item: the object itself, or the object stream that contains it
Target == IF item.loc = "objstm"
          THEN [n |-> ObjStmId, g |-> 0, stream |-> TRUE, type |-> "ObjStm"]
          ELSE [n |-> item.n, g |-> item.g, stream |-> item.loc \in {"streamdict", "streamdata", "metadata", "xrefstm"},
                type |-> item.type]

Step(ph) == /\ phase' = ph
            /\ UNCHANGED <<cfg, Dev, upw, opw, tried, item, handler, pwb, key, outcome, perms>>

\* trailer dictionaries were read by read_xref_from before any handler existed and are never deciphered
AObserveTrailer == /\ phase = "fetch" /\ item.loc = "trailer"
                   /\ Step("done") /\ UNCHANGED <<cur, val, calls, blame>>

\* the Encrypt dictionary was resolved (and cached) before the handler was installed: cache hit, no decipher
AGetObjCached == /\ phase = "fetch" /\ item.loc = "encdict"
                 /\ Step("done") /\ UNCHANGED <<cur, val, calls, blame>>

\* getobj: xref.get_pos(objid) -> (None, pos, genno) or (strmid, index, 0); _getobj_parse of the body object;
\* the parser creates PDFStream(dic, data, doc.decipher)
\* the generation comes out of the cross-reference entry (table: as written; stream: third field, 0 when its width is 0)
RdGen(g) == IF cfg.form = "xrefstmw0" /\ "GenFromWholeEntry" \in Dev THEN 99999 ELSE g
AParseBody == /\ phase = "fetch" /\ item.loc \notin {"trailer", "encdict"}
              /\ cur' = [n |-> Target.n, g |-> RdGen(Target.g), stream |-> Target.stream, type |-> Target.type,
                         hasdec |-> Target.stream, sid |-> <<>>]
              /\ blame' = IF RdGen(Target.g) # Target.g /\ Alg(cfg) \in {"RC4", "AES128"} THEN blame \cup {"GenFromWholeEntry"} ELSE blame
              /\ Step("decipher_all") /\ UNCHANGED <<val, calls>>

\* getobj: decipher_all(self.decipher, objid, genno, obj) - bytes of length > 0, recursively through list and dict;
\* a PDFStream is returned as is (its dictionary is not visited)
ADecipherAll ==
  /\ phase = "decipher_all"
  /\ LET hit == \/ item.loc = "direct" /\ item.kind = "string" /\ Len(val.enc) + item.len > 0   \* empty ciphertext is skipped
                \/ item.loc = "streamdict" /\ "StreamDictNotDeciphered" \notin Dev
         \* nest = -1: the indirect object IS the string; decipher_all returns a new value, nothing can change in place
         dropped == item.nest = -1 /\ "DecipherResultDropped" \in Dev
     IN IF hit
        THEN /\ val' = IF dropped THEN val ELSE Decrypt(val, cur.n, cur.g, FALSE, "-")
             /\ calls' = Append(calls, CallRec(cur.n, cur.g, FALSE, "-"))
             /\ blame' = IF dropped /\ val.enc # <<>> THEN blame \cup {"DecipherResultDropped"}
                         ELSE blame \cup PadBlame(CodeAlg(FALSE, "-")) \cup LostBlame(CodeAlg(FALSE, "-"))
        ELSE /\ UNCHANGED <<val, calls>>
             /\ blame' = blame \cup (IF item.loc = "streamdict" /\ val.enc # <<>> THEN {"StreamDictNotDeciphered"} ELSE {})
  /\ cur' = cur
  /\ Step(IF cur.stream THEN "set_objid" ELSE "done")

\* getobj: if isinstance(obj, PDFStream): obj.set_objid(objid, genno)
ASetObjid == /\ phase = "set_objid"
             /\ cur' = [cur EXCEPT !.sid = <<cur.n, cur.g>>]
             /\ Step(IF item.loc = "streamdict" THEN "done" ELSE "decode")
             /\ UNCHANGED <<val, calls, blame>>

\* PDFStream.decode (lazily, from get_data): data = self.decipher(self.objid, self.genno, data, self.attrs)
AStreamDecode ==
  /\ phase = "decode" /\ cur.hasdec /\ cur.sid # <<>>
  /\ val' = Decrypt(val, cur.sid[1], cur.sid[2], TRUE, cur.type)
  /\ calls' = Append(calls, CallRec(cur.sid[1], cur.sid[2], TRUE, cur.type))
  /\ blame' = blame \cup (IF val.enc # <<>> THEN PadBlame(CodeAlg(TRUE, cur.type)) \cup LostBlame(CodeAlg(TRUE, cur.type)) ELSE {})
  /\ cur' = cur
  /\ Step("filters")

\* PDFStream.decode: the filter chain.  A Flate stream is self-delimiting, so bytes after its end (left-over
\* padding) do not reach the result; an unfiltered stream is returned as decrypted.
AFilters == /\ phase = "filters"
            /\ LET flate == item.loc = "objstm" \/ item.loc = "xrefstm" \/ (item.kind = "stream" /\ item.filt = "flate")
               IN val' = IF flate /\ val.enc = <<>> /\ val.spur = 0 THEN [val EXCEPT !.pad = FALSE] ELSE val
            /\ Step(IF item.loc = "objstm" THEN "parse_objstm" ELSE "done")
            /\ UNCHANGED <<cur, calls, blame>>

\* _getobj_objstm / _get_objects: objects parsed out of the decoded container are returned without decipher_all
AParseObjStm == /\ phase = "parse_objstm"
                /\ Step("done") /\ UNCHANGED <<cur, val, calls, blame>>

Next == ASelectHandler \/ AEncodePassword \/ AAuthUser \/ AAuthOwner \/ AAuthOwner5 \/ AAuthUser5 \/ AReject \/ AOpen
        \/ AObserveTrailer \/ AGetObjCached \/ AParseBody \/ ADecipherAll \/ ASetObjid \/ AStreamDecode \/ AFilters
        \/ AParseObjStm
Spec == Init /\ [][Next]_vars

(***************************************************************************)
(* The property.                                                           *)
(***************************************************************************)
Done == phase = "done"
Opened == outcome = "opened"
RefOpens == LET p == Prep(cfg.R, tried) IN p # "BAD" /\ p \in {Prep(cfg.R, upw), Prep(cfg.R, Owner)}
Plain(v) == v.enc = <<>> /\ v.spur = 0 /\ ~v.pad
LayerCount(v) == Len(v.enc) - v.spur          \* +1: still encrypted;  -1: decrypted once too often
Observed == Done /\ Opened

\* the only ways in which the as-coded machine may differ from the standard: each named deviation, its exact effect
AuthExcuse ==
  \/ blame = {"NonLatin1PasswordError"} /\ outcome = "UnicodeEncodeError" /\ ~RefOpens
  \/ blame = {"SaslprepErrorEscapes"} /\ outcome = "PDFValueError" /\ ~RefOpens
  \/ blame = {"SaslprepEmptyIndexError"} /\ outcome = "IndexError"
  \/ blame = {"ImplicitIdentityKeyError"} /\ outcome = "KeyError"
  \/ blame = {"TruncateCharsNotBytes"} /\ outcome = "PDFPasswordIncorrect"
  \/ blame = {"V4LengthFromDict"} /\ outcome = "PDFPasswordIncorrect"
  \/ blame = {"EmFlagAllRevisions"} /\ outcome = "PDFPasswordIncorrect"
  \/ blame = {"NfcShortcut"} /\ outcome = "PDFPasswordIncorrect"
ItemExcuse ==
  \/ blame = {"AESKeepsPadding"} /\ val.enc = <<>> /\ val.spur = 0 /\ val.pad
  \/ blame = {"StreamDictNotDeciphered"} /\ LayerCount(val) = 1 /\ val.spur = 0 /\ ~val.pad
  \/ blame = {"DecipherResultDropped"} /\ LayerCount(val) = 1 /\ val.spur = 0 /\ ~val.pad
  \/ blame = {"GenFromWholeEntry"} /\ val.spur > 0
  \/ blame = {"KeystreamStateLost"} /\ val.spur > 0
BlameSound == blame \subseteq Dev          \* in particular: the intended design (Dev = {}) needs no excuse at all

\* every observed item of the original is plaintext: layer count 0, never +1 (left encrypted), never -1 (decrypted
\* again: object-stream content, trailer), and nothing else is left behind (padding)
PlainExactlyOnce == Observed /\ Gated(item) => Plain(val) \/ ItemExcuse
\* the user password and the owner password (any spelling with the same prepared form) open the document, with the
\* file key the writer used
EitherPasswordOpens == Done /\ RefOpens => (Opened /\ key = FileKey(cfg)) \/ AuthExcuse
\* every other password is rejected with the password-incorrect error
OthersRejected == Done /\ ~RefOpens => outcome = "PDFPasswordIncorrect" \/ AuthExcuse
\* the permissions are reported as stored
PermissionsAsStored == Opened => perms = cfg.perms
\* every decryption is keyed by the file key and the number and generation of the body object that holds the data
KeyPerObject == \A i \in 1..Len(calls) :
                  \/ calls[i].alg = "ID" \/ "GenFromWholeEntry" \in blame
                  \/ calls[i].key = ObjKey(FileKey(cfg), OwnerNG(item)[1], OwnerNG(item)[2], calls[i].alg)
\* streams are deciphered only after set_objid, with the captured decipher
DecodeAfterSetObjid == phase = "filters" => cur.sid = <<cur.n, cur.g>>

\* terminal states are printed for the replay into the real code (a behaviour that ends before any item is
\* fetched does not depend on the item: it is printed once, for the canonical item every configuration contains)
CanonicalItem(it) == it.loc = "direct" /\ it.n = 10 /\ it.len = 5 /\ it.nest = 0
EmitTerminal ==
  Done /\ Dev = CodedDev /\ (Opened \/ CanonicalItem(item)) => PrintT("@@" \o ToJson([c |-> cfg, u |-> upw, o |-> opw, t |-> tried, it |-> item, out |-> outcome,
                                  pr |-> perms, enc |-> Len(val.enc), spur |-> val.spur, pad |-> val.pad,
                                  bl |-> blame, nc |-> Len(calls), ro |-> RefOpens]))
=============================================================================
