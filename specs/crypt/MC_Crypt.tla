---- MODULE MC_Crypt ----
(* Finite instances of Crypt.tla.  The item universe mirrors harness/realise/cryptdoc.py (the check verifies  *)
(* that every model item has a realised counterpart and vice versa).                                          *)
EXTENDS Crypt


\* ------------------------------------------------------------------------------------- configurations
KeyLensQuick == {40, 128}
KeyLensFull  == {40, 48, 56, 64, 72, 80, 88, 96, 104, 112, 120, 128}

Algs(KL) ==
  {[V |-> 1, R |-> 2, keylen |-> 40, cfm |-> "none"], [V |-> 1, R |-> 3, keylen |-> 40, cfm |-> "none"]}
  \cup {[V |-> 2, R |-> 3, keylen |-> k, cfm |-> "none"] : k \in KL}
  \cup {[V |-> 4, R |-> 4, keylen |-> 128, cfm |-> f] : f \in {"V2", "AESV2", "Identity", "IdentityDefault"}}
  \cup {[V |-> 5, R |-> r, keylen |-> 256, cfm |-> f] : r \in {5, 6}, f \in {"AESV3", "Identity"}}

MkDv(A, Perms, Ids, Forms, Encs, DVs) ==
  {[V |-> a.V, R |-> a.R, keylen |-> a.keylen, cfm |-> a.cfm, em |-> em, perms |-> p, id |-> i, form |-> f, encplace |-> e, dv |-> v] :
     a \in A, em \in BOOLEAN, p \in Perms, i \in Ids, f \in Forms, e \in Encs, v \in DVs}
Mk(A, Perms, Ids, Forms, Encs) == MkDv(A, Perms, Ids, Forms, Encs, {"plain"})
Valid(S) == {c \in S : c.V < 4 => c.em}        \* EncryptMetadata exists from V4 on

AllPerms == SUBSET {"print", "modify", "extract"}
SomePerms == {{"print"}, {"modify"}, {"extract"}}      \* every flag true once and false twice; every pair of flags told apart
OnePerm == {{"print", "extract"}}
BothIds == {"present", "absent"}

\* ------------------------------------------------------------------------------------- passwords
AllTried == {"e", "a", "b", "L", "L2", "M", "M2", "n", "n2", "w", "x", "c", "s", "N", "N2", "P", "B31", "B32", "B33", "q", "q2"}
PairsQuick == {<<"a", "b">>, <<"e", "b">>, <<"n", "M">>, <<"N", "P">>, <<"B32", "B31">>, <<"a", "same">>, <<"q2", "q">>}
PairsFull == {<<u, o>> : u \in {"e", "a", "L", "M", "n"}, o \in {"b", "L", "M", "n", "same"}}
             \cup {<<"N", "b">>, <<"a", "N">>, <<"N", "P">>, <<"P", "N">>, <<"P", "same">>,     \* long AND non-ASCII, either role
                   <<"B32", "B31">>, <<"B33", "B32">>, <<"B31", "B33">>,
                   <<"q2", "b">>, <<"q", "q2">>, <<"a", "q2">>}                          \* compatibility spellings (R6: NFKC)                   \* the 32-byte boundary
CanonPair == {<<"a", "b">>}
OpenTried == {"a", "b"}

\* ------------------------------------------------------------------------------------- items
Str(loc, n, g, len, nest) == [loc |-> loc, kind |-> "string", type |-> "plain", n |-> n, g |-> g, len |-> len, filt |-> "-", nest |-> nest]
Stm(loc, ty, n, g, len, filt) == [loc |-> loc, kind |-> "stream", type |-> ty, n |-> n, g |-> g, len |-> len, filt |-> filt, nest |-> 0]

DictShape == {<<0, 0>>, <<5, 0>>, <<16, 0>>, <<17, 0>>, <<5, 1>>, <<16, 2>>, <<17, 2>>}     \* <<length, nesting depth>> (item_dict)
DirectNG == {<<10, 0>>, <<11, 3>>, <<70001, 0>>}
StreamSpecs == {<<100, 0, 0, "none">>, <<101, 0, 0, "flate">>, <<102, 0, 5, "none">>, <<103, 0, 5, "flate">>,
                <<104, 0, 16, "none">>, <<105, 0, 16, "flate">>, <<106, 0, 17, "none">>, <<107, 0, 17, "flate">>,
                <<110, 2, 17, "none">>, <<111, 0, 16, "flate">>, <<70002, 0, 5, "flate">>}

AllItems ==
  {Str("direct", ng[1], ng[2], s[1], s[2]) : ng \in DirectNG, s \in DictShape}
  \cup {Str("direct", 1, 0, 5, 0), Str("direct", 6, 0, 12, 0)}
  \* indirect objects that ARE a string (nest -1; 40 is /Info /Title), an array of strings, a name, a number
  \cup {Str("direct", 40, 0, 5, -1), Str("direct", 41, 1, 16, -1), Str("direct", 43, 0, 5, -1),
        Str("direct", 42, 0, 5, 0), Str("direct", 42, 0, 16, 1)}
  \cup {[loc |-> "direct", kind |-> "atom", type |-> ty, n |-> n, g |-> 0, len |-> l, filt |-> "-", nest |-> -1] :
          <<ty, n, l>> \in {<<"name", 44, 10>>, <<"number", 45, 5>>}}
  \cup {Str("objstm", n, 0, s[1], s[2]) : n \in {20, 21}, s \in DictShape}
  \cup {Str("streamdict", sp[1], sp[2], s[1], s[2]) : sp \in StreamSpecs, s \in {<<5, 0>>, <<16, 1>>}}
  \cup {Stm("streamdata", "plain", sp[1], sp[2], sp[3], sp[4]) : sp \in StreamSpecs}
  \cup {Stm("streamdata", "plain", 5, 0, 77, "none")}
  \* the size dimension (documents with dv = big / huge only)
  \cup {Str("direct", 50, 0, l, 0) : l \in {65535, 65536, 65537, 150000}}
  \cup {Stm("streamdata", "plain", 51, 0, 65537, "none"), Stm("streamdata", "plain", 52, 0, 150000, "none")}
  \cup {Stm("metadata", "Metadata", 15, 0, 106, "none")}
  \cup {[loc |-> "trailer", kind |-> "string", type |-> ty, n |-> 0, g |-> 0, len |-> 16, filt |-> "-", nest |-> 0] : ty \in {"note", "id", "encrypt"}}
  \cup {[loc |-> "encdict", kind |-> "string", type |-> "encrypt", n |-> EncId, g |-> 0, len |-> 32, filt |-> "-", nest |-> 0]}
  \cup {Stm("xrefstm", "XRef", XRefId, 0, 99, "flate")}

CanonItem == {Str("direct", 10, 0, 5, 0)}

\* ------------------------------------------------------------------------------------- spaces
\* "auth": every configuration x permission set x ID x password pair x tried password, one canonical item
AuthQuick == Valid(Mk(Algs(KeyLensQuick), SomePerms, BothIds, {"table"}, {"direct"}))
AuthFull  == Valid(Mk(Algs(KeyLensFull), AllPerms, BothIds, {"table"}, {"direct"}))
\* "authpw" (thorough): every configuration x ID x the full set of password pairs, one permission set
AuthPw == Valid(Mk(Algs(KeyLensFull), OnePerm, BothIds, {"table"}, {"direct"}))
\* "dict": every V>=4 configuration x every spelling of the Encrypt dictionary's irrelevant / optional entries
DictVariants == {"len40", "len64", "nolen", "alt"}
DictCfg == {c \in Valid(MkDv(Algs({128}), OnePerm, {"present"}, {"table"}, {"direct", "indirect"}, DictVariants)) :
              c.V >= 4 /\ (c.dv = "alt" => c.cfm \in {"V2", "AESV2", "AESV3"})}
DictTried == {"a", "b", "w"}
\* below V 4: entries only V >= 4 gives a meaning to, written out all the same
LowDictCfg == {c \in Valid(MkDv(Algs({40, 128}), OnePerm, BothIds, {"table"}, {"direct", "indirect"}, {"emfalse", "emtrue", "cfnoise", "len40"})) :
                 c.V < 4 /\ (c.dv = "len40" => c.V = 1)}
AllDictCfg == DictCfg \cup LowDictCfg
\* "size": strings and streams of 65535 / 65536 / 65537 bytes (thorough: also 150000), RC4 and AES
SizeAlgsQuick == {a \in Algs({128}) : (a.V = 2) \/ a.cfm = "AESV2"}
SizeAlgsFull == {a \in Algs({40, 128}) : a.cfm \in {"none", "V2", "AESV2"} \/ (a.cfm = "AESV3" /\ a.R = 6)}
SizeCfgQuick == {c \in Valid(MkDv(SizeAlgsQuick, OnePerm, {"present"}, {"table"}, {"direct"}, {"big"})) : c.em}
SizeCfgFull == {c \in Valid(MkDv(SizeAlgsFull, OnePerm, {"present"}, {"table"}, {"direct"}, {"big", "huge"})) :
                  c.em /\ (c.dv = "huge" => c.keylen \in {128, 256} /\ c.V # 1)}
SizeTried == {"a"}
\* "content": every configuration x ID x physical form x Encrypt placement x every item location, both passwords
AllForms == {"table", "xrefstm", "hybrid", "xrefstmw0", "xrefstm0w"}     \* /W [1 n 0] and /W [0 n 2] cross-reference streams
ContentQuick == Valid(Mk(Algs(KeyLensQuick), OnePerm, {"present"}, AllForms, {"direct", "indirect"}))
ContentFull  == Valid(Mk(Algs(KeyLensFull), OnePerm, BothIds, AllForms, {"direct", "indirect"}))
\* "mixed": the full product on reduced sets (thorough tier)
MixedCfg == Valid(Mk(Algs({40, 128}), {{"print"}, {"modify", "extract"}}, BothIds, {"table", "xrefstm"}, {"direct", "indirect"}))
MixedTried == {"e", "a", "b", "w", "x", "L2", "n", "N", "N2", "B33"}
MixedPairs == {<<"a", "b">>, <<"e", "n">>, <<"L", "same">>, <<"N", "P">>}
====
