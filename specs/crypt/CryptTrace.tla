----------------------------- MODULE CryptTrace -----------------------------
(***************************************************************************)
(* Trace validation for C10 (binding B).  A trace is one run of the real   *)
(* library over one encrypted file: the harness opens it with a correct    *)
(* password, fetches every object, reads every string and stream, and the  *)
(* wrappers on handler.decrypt / decipher_all / PDFStream.decode log what   *)
(* was decrypted with which (object number, generation).                   *)
(*                                                                         *)
(* The trace header declares what is in the FILE (read with deciphering    *)
(* switched off): per object its home (file body / object stream / the     *)
(* Encrypt dictionary / cross-reference stream) and the raw lengths of its *)
(* strings and stream.  The writer relation of Crypt.tla (ISO 32000-1      *)
(* 7.6.1) says which of these carry one encryption layer.  The spec then   *)
(* requires:  every decrypt call is enabled - it is keyed by the number    *)
(* and generation of a body object and hits an item of that object that    *)
(* still carries its layer (so nothing is decrypted twice and nothing that *)
(* the writer left clear - object-stream content, the Encrypt dictionary - *)
(* is decrypted at all);  and when an object is observed, no item of it    *)
(* still carries a layer (every encrypted item was decrypted exactly once  *)
(* before it was observed).                                                *)
(* Verdicts are total: every trace is accepted or rejected at a named      *)
(* event (one "@@" line per trace); a deadlock is a machinery failure.     *)
(***************************************************************************)
EXTENDS Integers, Sequences, FiniteSets, TLC, Json, IOUtils

CONSTANTS Dev          \* deviations modelled as coded (see Crypt.tla)

Traces == JsonDeserialize(IOEnv.TRACE_FILE)
N == Len(Traces)

VARIABLES t,      \* current trace
          i,      \* events consumed
          rem,    \* per declared object: remaining (still encrypted) string lengths s, dictionary strings d, stream st
          shape,  \* non-gating: the implementation-shaped events (decipher_all, decode) came as the model expects
          rejected
vars == <<t, i, rem, shape, rejected>>

Cur == Traces[t]
Objs == Cur.objs
IsAES(a) == a \in {"AES128", "AES256"}

\* ---- writer relation (Crypt!Layers) on the declared objects
ExemptIn(T, o) == o.ty = "Metadata" /\ T.V >= 4 /\ ~T.em
Exempt(o) == ExemptIn(Cur, o)
NonEmpty(s) == SelectSeq(s, LAMBDA x : x > 0)
Rem0In(T, o) == IF o.home = "body" /\ T.alg # "ID"
                THEN [s |-> NonEmpty(o.s), d |-> NonEmpty(o.d), st |-> IF o.sl > 0 /\ ~ExemptIn(T, o) THEN 1 ELSE 0]
                ELSE [s |-> <<>>, d |-> <<>>, st |-> 0]
Rem0(o) == Rem0In(Cur, o)
InitRem(T) == [k \in 1..Len(T.objs) |-> Rem0In(T, T.objs[k])]

Init == t = 1 /\ i = 0 /\ shape = TRUE /\ rejected = 0 /\ rem = IF N = 0 THEN <<>> ELSE InitRem(Traces[1])

Ev == Cur.events[i + 1]
HasEv == t <= N /\ i < Len(Cur.events)

\* the body object with this number and generation (0 if none)
Body(n, g) == IF \E k \in 1..Len(Objs) : Objs[k].n = n /\ Objs[k].g = g /\ Objs[k].home = "body"
              THEN CHOOSE k \in 1..Len(Objs) : Objs[k].n = n /\ Objs[k].g = g /\ Objs[k].home = "body"
              ELSE 0
Index(n) == IF \E k \in 1..Len(Objs) : Objs[k].n = n THEN CHOOSE k \in 1..Len(Objs) : Objs[k].n = n ELSE 0

RemoveOne(s, x) == LET k == CHOOSE k \in 1..Len(s) : s[k] = x
                   IN SubSeq(s, 1, k - 1) \o SubSeq(s, k + 1, Len(s))
Has(s, x) == \E k \in 1..Len(s) : s[k] = x

\* length of the result of one decryption
OutLenOK(e) ==
  IF e.id THEN e.ol = e.il
  ELSE IF IsAES(Cur.alg)
       THEN IF "AESKeepsPadding" \in Dev THEN e.ol = e.il - 16
            ELSE e.ol >= e.il - 32 /\ e.ol <= e.il - 17
       ELSE e.ol = e.il

Advance == i' = i + 1 /\ UNCHANGED t

\* ---- guards (a recorded event that satisfies none of them is unexplained: the trace is rejected there)
\* a string decrypted by handler.decrypt(objid, genno, data): keyed by a body object's number and generation,
\* and that object still holds an encrypted string of this length
GDecString ==
  /\ Ev.e = "dec" /\ Ev.k = "string" /\ (Ev.id => Cur.alg = "RC4")   \* (an RC4 keystream byte may be 0)
  /\ LET o == Body(Ev.n, Ev.g) IN
       /\ o # 0 /\ OutLenOK(Ev)
       /\ Has(rem[o].s, Ev.il) \/ ("StreamDictNotDeciphered" \notin Dev /\ Has(rem[o].d, Ev.il))
\* a stream decrypted from PDFStream.decode: handler.decrypt(objid, genno, data, attrs)
GDecStream ==
  /\ Ev.e = "dec" /\ Ev.k = "stream" /\ (Ev.id => Cur.alg = "RC4")
  /\ LET o == Body(Ev.n, Ev.g) IN o # 0 /\ rem[o].st = 1 /\ Ev.il = Objs[o].sl /\ OutLenOK(Ev)
\* a call that returned its input: allowed exactly where the writer put no layer
\* (Identity crypt filter, metadata left clear by EncryptMetadata false, nothing to decrypt)
GDecIdentity ==
  /\ Ev.e = "dec" /\ Ev.id /\ Ev.ol = Ev.il
  /\ \/ Cur.alg = "ID"
     \/ Ev.il = 0
     \/ Ev.k = "stream" /\ LET o == Body(Ev.n, Ev.g) IN o # 0 /\ Exempt(Objs[o]) /\ Ev.il = Objs[o].sl
\* the harness has read every string and the stream data of object n: nothing of it may still be encrypted
GObserve ==
  /\ Ev.e = "obs"
  /\ LET o == Index(Ev.n) IN
       /\ o # 0
       /\ rem[o].s = <<>> /\ rem[o].st = 0
       /\ IF "StreamDictNotDeciphered" \in Dev THEN rem[o].d = Rem0(Objs[o]).d ELSE rem[o].d = <<>>
       /\ Objs[o].home = "objstm" => (Index(Objs[o].c) # 0 /\ rem[Index(Objs[o].c)].st = 0)

DecString ==
  /\ HasEv /\ GDecString
  /\ LET o == Body(Ev.n, Ev.g) IN
       IF Has(rem[o].s, Ev.il) THEN rem' = [rem EXCEPT ![o].s = RemoveOne(@, Ev.il)]
                               ELSE rem' = [rem EXCEPT ![o].d = RemoveOne(@, Ev.il)]
  /\ Advance /\ UNCHANGED <<shape, rejected>>

DecStream ==
  /\ HasEv /\ GDecStream
  /\ rem' = [rem EXCEPT ![Body(Ev.n, Ev.g)].st = 0]
  /\ Advance /\ UNCHANGED <<shape, rejected>>

DecIdentity == HasEv /\ GDecIdentity /\ Advance /\ UNCHANGED <<rem, shape, rejected>>

\* non-gating, implementation-shaped: decipher_all is applied by getobj to body objects only
DecipherAll ==
  /\ HasEv /\ Ev.e = "da"
  /\ shape' = (shape /\ Body(Ev.n, Ev.g) # 0)
  /\ Advance /\ UNCHANGED <<rem, rejected>>

\* non-gating: decode runs with the (objid, genno) that set_objid stored, i.e. those of a declared object;
\* a stream that never went through getobj (the cross-reference stream read by read_xref_from) has none (-1)
Decode ==
  /\ HasEv /\ Ev.e = "decode"
  /\ shape' = (shape /\ (Body(Ev.n, Ev.g) # 0 \/ Ev.n = -1))
  /\ Advance /\ UNCHANGED <<rem, rejected>>

Observe == HasEv /\ GObserve /\ Advance /\ UNCHANGED <<rem, shape, rejected>>

NextTrace == /\ t' = t + 1 /\ i' = 0 /\ shape' = TRUE
             /\ rem' = IF t + 1 <= N THEN InitRem(Traces[t + 1]) ELSE <<>>

\* total verdicts: an event that no guard explains rejects the trace at that event (reported, next trace)
Reject ==
  /\ HasEv /\ Ev.e \in {"dec", "obs"}
  /\ ~(GDecString \/ GDecStream \/ GDecIdentity \/ GObserve)
  /\ PrintT("@@" \o ToJson([t |-> t, ok |-> FALSE, i |-> i, shape |-> shape]))
  /\ rejected' = rejected + 1
  /\ NextTrace

EndTrace ==
  /\ t <= N /\ i = Len(Cur.events)
  /\ PrintT("@@" \o ToJson([t |-> t, ok |-> TRUE, i |-> i, shape |-> shape]))
  /\ NextTrace /\ UNCHANGED rejected

Finished == t > N /\ UNCHANGED vars

Next == DecString \/ DecStream \/ DecIdentity \/ DecipherAll \/ Decode \/ Observe \/ Reject \/ EndTrace \/ Finished
Spec == Init /\ [][Next]_vars

\* evaluated in every state of every trace: no layer count ever goes below zero / above one by construction of rem;
\* what remains is always a sub-multiset of what the writer encrypted
RemWithinWritten ==
  t <= N => \A k \in 1..Len(Objs) : /\ Len(rem[k].s) <= Len(Rem0(Objs[k]).s)
                                    /\ Len(rem[k].d) <= Len(Rem0(Objs[k]).d)
                                    /\ rem[k].st \in {0, 1} /\ rem[k].st <= Rem0(Objs[k]).st
=============================================================================
