---- MODULE MC_CryptTwo ----
(* Finite instances of CryptTwo.tla: every pair of document kinds x every interleaving of the six actions. *)
EXTENDS CryptTwo
NoDev == {}
K(v, a, f) == [V |-> v, alg |-> a, fname |-> f]
KindsQuick == {K(2, "RC4", "-"), K(4, "RC4", "StdCF"), K(4, "AES128", "StdCF"), K(5, "AES256", "StdCF")}
\* thorough: also crypt filters that are not called StdCF (two documents then share no filter name)
KindsFull == KindsQuick \cup {K(4, "AES128", "VerifCF"), K(5, "AES256", "VerifCF")}
====
