------------------------------ MODULE CryptTwo ------------------------------
(***************************************************************************)
(* C10, two documents open in one process.                                 *)
(*                                                                         *)
(* Crypt.tla follows one document.  The property, however, speaks about    *)
(* every document, also while another one is open: a security handler is   *)
(* per-document state.  This module interleaves  Open(A), Open(B),         *)
(* Read(A, obj), Read(B, obj)  in every order and requires that every read *)
(* yields the plaintext of ITS OWN document, i.e. that the decryption used *)
(* the file key (and cipher) of the document the object was read from.     *)
(*                                                                         *)
(* Implementation shape (pdfdocument.py): _initialize_password creates a   *)
(* handler; a V4/V5 handler's init_params fills a crypt-filter table       *)
(* name -> bound decrypt method; handler.decrypt looks the document's      *)
(* StrF/StmF name up in that table.  The table belongs to the handler      *)
(* INSTANCE.  Deviation SharedFilterTable: it is one table for all         *)
(* handlers of the process (a class attribute), so the document opened     *)
(* last owns every filter name it defines.  Strings are deciphered when    *)
(* the object is first fetched (getobj -> decipher_all), streams when      *)
(* first decoded; both are cached afterwards.                              *)
(***************************************************************************)
EXTENDS Integers, Sequences, FiniteSets, TLC, Json

CONSTANTS Dev,      \* subset of AllDev
          Kinds     \* document kinds: [V, alg, fname]   (fname: the crypt filter's name, "-" for V < 4)

AllDev == {"SharedFilterTable"}
ASSUME Dev \subseteq AllDev

Docs == {"A", "B"}
Objs == {"str", "stm"}       \* a string in a body object; the data of a stream object

VARIABLES kind,     \* kind[d]: chosen by Init
          opened,   \* documents whose handler has been created
          own,      \* own[d]: the handler instance's own table: filter name -> document whose method is stored
          shared,   \* the process-wide table (only consulted under SharedFilterTable)
          got,      \* got[d][o]: "unread" | "plain" | "wrong"
          hist      \* the actions taken, for the replay
vars == <<kind, opened, own, shared, got, hist>>

NoTable == [f \in {"StdCF", "VerifCF"} |-> "nobody"]

Init == /\ kind \in [Docs -> Kinds]
        /\ opened = {} /\ own = [d \in Docs |-> NoTable] /\ shared = NoTable
        /\ got = [d \in Docs |-> [o \in Objs |-> "unread"]] /\ hist = <<>>

\* PDFDocument(parser, password) -> _initialize_password -> handler(...).init_params
Open(d) ==
  /\ d \notin opened
  /\ opened' = opened \cup {d}
  /\ IF kind[d].V >= 4
     THEN /\ own' = [own EXCEPT ![d] = [NoTable EXCEPT ![kind[d].fname] = d]]        \* self.cfm = {}; self.cfm[k] = bound method
          /\ shared' = [shared EXCEPT ![kind[d].fname] = d]                         \* (the same write, on a table that is shared)
     ELSE UNCHANGED <<own, shared>>
  /\ hist' = Append(hist, <<"open", d, "-">>)
  /\ UNCHANGED <<kind, got>>

\* whose decrypt method answers for document d: handler.decrypt -> self.cfm[self.strf]
Answers(d) == IF kind[d].V < 4 THEN d                                   \* PDFStandardSecurityHandler.decrypt: decrypt_rc4, no table
              ELSE IF "SharedFilterTable" \in Dev THEN shared[kind[d].fname]
              ELSE own[d][kind[d].fname]

\* first getobj (strings: decipher_all) / first get_data (streams: PDFStream.decode); later reads come from the cache
Read(d, o) ==
  /\ d \in opened /\ got[d][o] = "unread"
  /\ got' = [got EXCEPT ![d][o] = IF Answers(d) = d THEN "plain" ELSE "wrong"]     \* another document's key: not the plaintext
  /\ hist' = Append(hist, <<"read", d, o>>)
  /\ UNCHANGED <<kind, opened, own, shared>>

Next == \E d \in Docs : Open(d) \/ \E o \in Objs : Read(d, o)
Spec == Init /\ [][Next]_vars

\* every read yields the plaintext of its own document
OwnPlaintext == \A d \in Docs, o \in Objs : got[d][o] # "wrong" \/ "SharedFilterTable" \in Dev
\* a handler's table never names another document
TablePerDocument == \A d \in opened : kind[d].V >= 4 => own[d][kind[d].fname] = d

Terminal == opened = Docs /\ \A d \in Docs, o \in Objs : got[d][o] # "unread"
EmitTerminal == Terminal => PrintT("@@" \o ToJson([k |-> kind, h |-> hist, g |-> got]))
=============================================================================
