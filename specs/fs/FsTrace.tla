------------------------------ MODULE FsTrace ------------------------------
(***************************************************************************)
(* Trace validation for C15 (binding B).  A trace is the list of           *)
(* file-system audit events (sys.addaudithook: open, os.mkdir, os.remove,  *)
(* os.rename, ...) raised while extract_text_to_fp runs over one document  *)
(* with image export switched on.  The harness has classified every path   *)
(* by the region its real path lies in (input | res = a resource directory *)
(* | out = the output directory | code = interpreter loading its own       *)
(* modules | outside) and says whether the path existed when it was        *)
(* opened.  The spec is the reference file-system discipline of            *)
(* FsConfine.tla: reads only from input/res, creations only inside out and *)
(* only of paths that did not exist, every created path distinct, no other *)
(* kind of file-system mutation.  Verdicts are total: one "@@" line per    *)
(* trace, rejected traces name the event.                                  *)
(***************************************************************************)
EXTENDS Integers, Sequences, FiniteSets, TLC, Json, IOUtils

Traces == JsonDeserialize(IOEnv.TRACE_FILE)
N == Len(Traces)

VARIABLES t, i, created, rejected
vars == <<t, i, created, rejected>>

Cur == Traces[t]
Ev == Cur.events[i + 1]
HasEv == t <= N /\ i < Len(Cur.events)

Init == t = 1 /\ i = 0 /\ created = {} /\ rejected = 0

\* FsConfine!ReadsConfined
GRead == Ev.k = "read" /\ Ev.region \in {"input", "res", "code"}
\* FsConfine!WritesConfined, NeverOverwrite, DistinctNames
GCreate == Ev.k = "write" /\ Ev.region = "out" /\ ~Ev.existed /\ Ev.path \notin created
\* ImageWriter.__init__ creates the output directory itself when it is missing
GMkdir == Ev.k = "mkdir" /\ Ev.region = "out"

\* a directory listing: only of a resource directory, or the interpreter looking for its own modules
GList == Ev.k = "list" /\ Ev.region \in {"res", "code"}
List == HasEv /\ GList /\ i' = i + 1 /\ UNCHANGED <<t, created, rejected>>
Read == HasEv /\ GRead /\ i' = i + 1 /\ UNCHANGED <<t, created, rejected>>
Create == HasEv /\ GCreate /\ created' = created \cup {Ev.path} /\ i' = i + 1 /\ UNCHANGED <<t, rejected>>
Mkdir == HasEv /\ GMkdir /\ i' = i + 1 /\ UNCHANGED <<t, created, rejected>>

NextTrace == t' = t + 1 /\ i' = 0 /\ created' = {}
Reject == /\ HasEv /\ ~(GRead \/ GCreate \/ GMkdir \/ GList)
          /\ PrintT("@@" \o ToJson([t |-> t, ok |-> FALSE, i |-> i]))
          /\ rejected' = rejected + 1 /\ NextTrace
EndTrace == /\ t <= N /\ i = Len(Cur.events)
            /\ PrintT("@@" \o ToJson([t |-> t, ok |-> TRUE, i |-> i]))
            /\ NextTrace /\ UNCHANGED rejected
Finished == t > N /\ UNCHANGED vars

Next == Read \/ List \/ Create \/ Mkdir \/ Reject \/ EndTrace \/ Finished
Spec == Init /\ [][Next]_vars

\* every path recorded as created so far was created exactly once, inside the output directory
CreatedInsideOut == \A p \in created : \E k \in 1..i : /\ Cur.events[k].k = "write" /\ Cur.events[k].path = p
                                                     /\ Cur.events[k].region = "out" /\ ~Cur.events[k].existed
=============================================================================
