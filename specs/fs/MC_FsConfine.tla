---- MODULE MC_FsConfine ----
(* Finite instances of FsConfine.tla: every name of up to MaxSeg segments over the ten segment kinds,     *)
(* relative and absolute, at every lookup site; for the image site additionally every set of pre-existing *)
(* candidate files and one or two exports of the same name.                                               *)
EXTENDS FsConfine
CONSTANTS MaxSeg, MaxSegImage

NoDev == {}
SeqsUpTo(n) == UNION {[1..m -> Seg] : m \in 0..n}
NamesUpTo(n) == {[abs |-> a, segs |-> s] : a \in BOOLEAN, s \in SeqsUpTo(n)}
AllNames == NamesUpTo(MaxSeg)
AllCMapSites == {"enc", "cmapname", "usecmap", "regord"}
NoSites == {}
AllImageCases == {[init |-> i, draws |-> d] : i \in SUBSET {-1, 0, 1}, d \in 1..2}
FewImageCases == {[init |-> {}, draws |-> 2], [init |-> {-1, 1}, draws |-> 2]}
NoImageCases == {}
ImageNames == NamesUpTo(MaxSegImage)
====
