---- MODULE MC_FsConfine ----
(* Finite instances of FsConfine.tla: every name of up to MaxSeg segments over the thirteen segment kinds *)
(* at every lookup site (an absolute name is spelled with an empty - or NUL-only - first segment; the     *)
(* explicit "absolute" flag is explored at the image site, where names are shorter); for the image site   *)
(* additionally every set of pre-existing candidate files and one or two exports of the same name.        *)
EXTENDS FsConfine
CONSTANTS MaxSeg, MaxSegImage

NoDev == {}
SeqsUpTo(n) == UNION {[1..m -> Seg \ {"lnk"}] : m \in 0..n}
\* names that go through the symbolic link inside resource directory 1 (and back up)
LinkSeg == {"lnk", "dd", "d", "e", "evil", "H", "zz", "sub", "dec"}
LinkNames == {[abs |-> FALSE, segs |-> s, look |-> "ascii"] : s \in UNION {[1..m -> LinkSeg] : m \in 0..MaxSeg}}
NamesUpTo(n, A) == {[abs |-> a, segs |-> s, look |-> "ascii"] : a \in A, s \in SeqsUpTo(n)}
\* names spelled with characters that only LOOK like separators and dots (over the segments where that matters)
LookKinds == {"fw", "fwl", "fwa", "bs", "div", "big", "lig", "over"}
LookSeg == {"dd", "d", "e", "dec", "zz", "sib"}
LookNames == {[abs |-> a, segs |-> s, look |-> l] :
                a \in BOOLEAN, l \in LookKinds, s \in UNION {[1..m -> LookSeg] : m \in 0..MaxSegImage}}
AllNames == NamesUpTo(MaxSeg, {FALSE})
AllCMapSites == {"enc", "cmapname", "usecmap", "regord"}
NoSites == {}
IC(i, d) == [init |-> i, draws |-> d, ext |-> "bmp", src |-> "xobj"]
AllImageCases == {IC(i, d) : i \in SUBSET {-1, 0, 1}, d \in 1..2}
FewImageCases == {IC({}, 2), IC({-1, 1}, 2)}
LookImageCases == {IC({}, 1), IC({-1}, 2)}
LookImageCasesQuick == {IC({}, 1)}
\* every way the image dictionary can fill the extension x XObject / inline image x one or two exports
ExtKinds == {"raw", "neg", "csill", "filterill", "illclean", "lead1", "mid1", "leadW"}
ExtImageCases == {[init |-> {}, draws |-> d, ext |-> e, src |-> s] : d \in 1..2, e \in ExtKinds, s \in {"xobj", "inline"}}
NoImageCases == {}
\* inline images that get the SAME name: one per page / one on the page and one in a form it invokes, into an empty
\* directory and into one where inline0.<ext> (and inline0.0.<ext>) exist already
InlineImageCases == {[init |-> i, draws |-> d, ext |-> "raw", src |-> s] :
                       i \in {{}, {-1}, {-1, 0}}, d \in 1..2, s \in {"inlinepages", "inlineform"}}
\* LONG runs of occupied candidates: name.ext and name.0.ext .. name.k.ext all exist already
Run(k) == {-1} \cup 0..k
RunImageCases == {IC(Run(k), d) : k \in {0, 1, 9, 99, 100, 150}, d \in 1..2}
\* one document that exports the same name once on each of 103 pages into an empty directory
ManyImageCases == {IC({}, 103)}
OneName == {[abs |-> FALSE, segs |-> <<"zz">>, look |-> "ascii"]}
HalfImageCases == {IC(i, 2) : i \in SUBSET {-1, 0, 1}}
ImageNames == NamesUpTo(MaxSegImage, BOOLEAN)
ImageNamesRel == NamesUpTo(MaxSegImage, {FALSE})
====
