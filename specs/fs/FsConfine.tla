----------------------------- MODULE FsConfine -----------------------------
(***************************************************************************)
(* C15: document-supplied names and the file system.                       *)
(*                                                                         *)
(* A name is a flag "absolute" plus a sequence of segments; a segment is   *)
(* a plain word (some exist in the modelled tree, one does not), "..",     *)
(* ".", the empty segment, a word containing NUL, or an over-long word.    *)
(* The file system is a small tree under a root:                           *)
(*     /res            resource directory no. 1 (CMAP_PATH)                *)
(*     /res/sub        a directory inside it                               *)
(*     /out, /out/sub  the image output directory and a directory in it    *)
(*     /dec            a directory that is neither (decoy files live here) *)
(*     /sib            a look-alike SIBLING: a directory next to the site's *)
(*                     base directory whose name has the base directory's  *)
(*                     name as a proper prefix (res_evil next to res for   *)
(*                     the CMap sites, out_evil next to out for the image  *)
(*                     site).  Containment is a relation on path           *)
(*                     COMPONENTS (IsPrefix on sequences); a test on the    *)
(*                     characters of the spelled path takes /sib for       *)
(*                     inside - the deviation ContainmentByCharacters.     *)
(*     /cmap           a decoy directory named like resource directory     *)
(*                     no. 2 (the words "res" and "cmap" - the BASENAMES   *)
(*                     of the two resource directories - are segments:     *)
(*                     "../cmap/x" re-enters the package's cmap directory  *)
(*                     but leaves /res for /cmap; "../res/x" re-enters     *)
(*                     /res).  Containment is a relation between the       *)
(*                     joined path and THE directory it was joined onto -  *)
(*                     deviation CheckedAgainstOneDirectory otherwise.     *)
(*     /res/lnk        a SYMBOLIC LINK inside resource directory 1 to      *)
(*                     /dec/pack: the kernel follows it, so "lnk/.." is    *)
(*                     /dec, not /res.  Paths in this model are resolved   *)
(*                     (physical) paths; a resource directory that is      *)
(*                     itself reached through a link is the same directory *)
(*                     (replayed with CMAP_PATH naming the link).           *)
(*                     Containment judged on the lexically normalised text *)
(*                     of the path: deviation LexicalContainment.          *)
(*     @pkg            resource directory no. 2 (the package's cmap        *)
(*                     directory), somewhere else: its parent, like the    *)
(*                     root's parent, is the unknown region "@above" in    *)
(*                     which none of the modelled words exists             *)
(* Join has POSIX semantics: an absolute name replaces the directory; the  *)
(* kernel resolves component by component, so "x/.." needs x to exist.     *)
(*                                                                         *)
(* Lookup sites (cmapdb.py): CMapDB.get_cmap(name) -> _load_data(name)     *)
(* reached from a font's /Encoding name, from /CMapName of an /Encoding    *)
(* stream, from the operand of usecmap in an embedded CMap;                *)
(* CMapDB.get_unicode_map(Registry-Ordering) -> _load_data("to-unicode-"   *)
(* + that).  Image site (image.py): ImageWriter._create_unique_image_name  *)
(* + open(path, "wb"), name = key of the XObject in the resources.         *)
(*                                                                         *)
(* Dev names the places where the code as written is not confined.         *)
(***************************************************************************)
EXTENDS Integers, Sequences, FiniteSets, TLC, Json

CONSTANTS Dev,        \* subset of AllDev
          Names,      \* set of [abs: BOOLEAN, segs: Seq(Seg), look]   look: how separators and dots are SPELLED -
                      \*   "ascii": with "/" and "." ;  otherwise with characters that only look like them:
                      \*   fw  U+FF0F fullwidth solidus + U+FF0E fullwidth full stop   (NFKC maps both to the real ones)
                      \*   fwl U+FF0F + U+2024 one dot leader (NFKC: ".")     fwa U+FF0F + ASCII dots
                      \*   bs  U+FF3C fullwidth reverse solidus (NFKC: a backslash, no POSIX separator)
                      \*   div U+2215, big U+29F8 (no compatibility mapping)   lig U+2105 (NFKC: the letters c / o)
                      \*   over: the overlong UTF-8 bytes C0 AF (not a character at all)
                      \* A look-alike name contains no separator: for every site it is ONE plain word
          CMapSites,  \* subset of {"enc", "cmapname", "usecmap", "regord"}
          ImageCases  \* set of [init: subset of {-1, 0, 1}, draws: 1..2, ext, src] for the image site ({} = not explored)
                      \*   ext: how the image dictionary fills the file name's extension (see ExtKinds)
                      \*   src: "xobj" (the name is the document's XObject key) | inline images, whose name is the running
                      \*   number the interpreter gives them, restarting with every content stream: "inline" (all exports
                      \*   in ONE content stream: inline0, inline1, ... distinct words) | "inlinepages" (one per page: every
                      \*   one is inline0) | "inlineform" (one on the page, one in a form XObject it invokes: both inline0)

AllDev == {"CMapNameUnconfined",     \* _load_data joins the name unchecked: any *.pickle.gz can be opened (and unpickled)
           "ImageNameUnconfined",    \* _create_unique_image_name joins the XObject name unchecked
           "ScreenBeforeStrip",      \* containment only tested for names that LOOK dangerous (absolute / contain ..),
                                     \* judged on the raw name before its NULs are removed
           "InlineNamesAssumedUnique",  \* inline images skip the uniqueness loop ("their running number is unique")
           "NumberingBounded",       \* the uniqueness loop gives up after 100 candidates and opens the last one it BUILT
                                     \* (name.99.ext) without having tested it
           "NormaliseAfterSanitise", \* the image name is NFKC-normalised AFTER separators were replaced: fullwidth solidus and
                                     \* full stop turn into real ones behind the check
           "ExtFieldsUnvalidated",   \* _save_raw builds the extension ".<bits>.<width>x<height>.img" from the image dictionary's
                                     \* entries without insisting that they are integers (%s instead of %d)
           "ListsBeforeCheck",       \* the directory part of the joined path is LISTED before the containment test: a name
                                     \* with separators makes the library list whatever directory the document names
           "LexicalContainment",     \* containment judged on normpath(join(dir, name)) - ".." cancels the component before
                                     \* it textually - instead of on the path the kernel resolves (symbolic links)
           "CheckedAgainstOneDirectory",  \* the name is validated once, against the package's cmap directory, and then
                                     \* joined onto every directory of the search path
           "ContainmentByCharacters"}   \* "inside the directory" decided on the characters of the real path (startswith /
                                     \* commonprefix without a separator) instead of on its components
ASSUME Dev \subseteq AllDev

Plain == {"H", "dec", "evil", "sub", "zz", "sib", "res", "cmap", "lnk"}
\* dd ".."   d "."   e empty   nul "ev<NUL>il"   long 300 bytes
\* ndd ".<NUL>."  - a dot-dot split by a NUL      n0 "<NUL>" - nothing but a NUL (in front of a "/" it hides the root)
\* NULs are removed from a CMap name BEFORE the path is built and resolved, so for the lookup ndd IS ".." and a name
\* that starts with n0 followed by another segment IS absolute; a screen of the raw spelling sees neither.
Seg == Plain \cup {"dd", "d", "e", "nul", "long", "ndd", "n0"}
NulKinds == {"nul", "ndd", "n0"}

VARIABLES site, name, icase,            \* chosen by Init
          phase,
          dirs,                         \* directories still to try (cmap)
          reads,                        \* files opened for reading: set of <<dir path, file word>>
          creates,                      \* files created, in order: [dir, k, existed]
          outfiles,                     \* indices k (-1 = no index) of candidate files that exist at the image's target
          lists,                        \* directories whose entries were listed (os.listdir / os.scandir)
          drawn, err, blame
vars == <<site, name, icase, phase, dirs, reads, creates, outfiles, lists, drawn, err, blame>>

(***************************************************************************)
(* The tree.                                                               *)
(***************************************************************************)
Root == <<>>
Above == <<"@above">>
Pkg == <<"@pkg">>
Res == <<"res">>
Out == <<"out">>
Sib == <<"sib">>
PkgParent == <<"@pkgparent">>       \* the directory that holds the package's cmap directory (nothing else of ours is in it)
Dirs == {Root, Res, <<"res", "sub">>, Out, <<"out", "sub">>, <<"dec">>, <<"dec", "pack">>, Sib, <<"cmap">>, Pkg}
\* symbolic links to directories: where the link is, where it leads
LinkAt == <<"res", "lnk">>
LinkTo == <<"dec", "pack">>
\* existing *.pickle.gz files, by directory and base word
PickleFiles == {<<Pkg, "H">>,                       \* a genuine character map of the package
                <<<<"dec">>, "H">>,                 \* a file of the same name outside
                <<LinkTo, "evil">>,                 \* a file behind the link: reachable as res/lnk/evil, physically outside
                <<Sib, "evil">>,                    \* a decoy in the look-alike sibling of the resource directory
                <<<<"cmap">>, "evil">>,             \* a decoy in the directory that is merely NAMED like resource directory 2
                <<Res, "evil">>, <<<<"res", "sub">>, "evil">>,   \* files inside resource directory 1
                <<<<"dec">>, "evil">>,              \* the decoy outside
                <<Res, "to-unicode-Adobe-evil">>}   \* a unicode map inside resource directory 1
IsPrefix(p, q) == Len(p) <= Len(q) /\ SubSeq(q, 1, Len(p)) = p
InResource(d) == IsPrefix(Res, d) \/ IsPrefix(Pkg, d)
\* what a character-wise test ("/x/res_evil/f".startswith("/x/res")) takes for inside as well
LooksInside(base, d) == base \in {Res, Out} /\ IsPrefix(Sib, d)
InOut(d) == IsPrefix(Out, d)

Up(d) == IF d = Pkg THEN PkgParent
         ELSE IF d = Above \/ d = Root \/ d = PkgParent THEN Above ELSE SubSeq(d, 1, Len(d) - 1)
Fail == <<"@fail">>
\* one component of kernel path resolution; w is the component as the kernel sees it
Walk(d, w) == CASE d = Fail -> Fail
                [] w \in {"d", "e"} -> d
                [] w = "dd" -> Up(d)
                [] w \in Plain -> IF d = PkgParent THEN (IF w = "cmap" THEN Pkg ELSE Fail)      \* "../cmap" from @pkg is @pkg
                                  ELSE IF Append(d, w) = LinkAt THEN LinkTo                     \* the kernel follows the link
                                  ELSE IF d # Above /\ Append(d, w) \in Dirs THEN Append(d, w) ELSE Fail
                [] OTHER -> Fail          \* over-long component (ENAMETOOLONG), or a word that is not a directory
RECURSIVE WalkAll(_, _)
WalkAll(d, s) == IF s = <<>> THEN d ELSE WalkAll(Walk(d, Head(s)), Tail(s))

\* os.path.normpath: ".." removes the component before it as TEXT, whatever that component is on disk
RECURSIVE LexAll(_, _)
LexAll(d, s) == IF s = <<>> THEN d
                ELSE LexAll(CASE Head(s) \in {"d", "e"} -> d
                              [] Head(s) = "dd" -> (IF d = <<>> THEN d ELSE SubSeq(d, 1, Len(d) - 1))
                              [] OTHER -> Append(d, Head(s)), Tail(s))

\* os.path.join(directory, name): an absolute name replaces the directory.  A name is absolute when it is flagged so
\* or when its spelling starts with the separator anyway (an empty first segment followed by another segment)
IsAbs(nm) == nm.abs \/ (Len(nm.segs) >= 2 /\ nm.segs[1] = "e")
Start(dir, nm) == IF IsAbs(nm) THEN Root ELSE dir
Front(s) == SubSeq(s, 1, Len(s) - 1)
\* directory in which the last component is looked up / created
ParentDir(dir, nm) == IF nm.segs = <<>> THEN Start(dir, nm) ELSE WalkAll(Start(dir, nm), Front(nm.segs))
LastWord(nm) == IF nm.segs = <<>> THEN "e" ELSE nm.segs[Len(nm.segs)]

(***************************************************************************)
(* CMap lookup, as coded.                                                  *)
(***************************************************************************)
\* name.replace("\0", ""): the NUL-containing word "ev\0il" becomes the word "evil"
StripNul(s) == [k \in 1..Len(s) |-> CASE s[k] = "nul" -> "evil" [] s[k] = "ndd" -> "dd" [] s[k] = "n0" -> "e" [] OTHER -> s[k]]
\* what a screen of the raw spelling (before the NULs are removed) takes for dangerous
RawSuspicious(nm) == IsAbs(nm) \/ \E k \in 1..Len(nm.segs) : nm.segs[k] = "dd"
\* "to-unicode-" + registry-ordering: the prefix sticks to the first component (and makes the name relative)
Prefixed(nm) == IF nm.segs = <<>> \/ nm.abs THEN [abs |-> FALSE, segs |-> <<"pfx:e">> \o nm.segs]
                ELSE [abs |-> FALSE, segs |-> <<"pfx:" \o nm.segs[1]>> \o Tail(nm.segs)]
SplitLooks == {"fw", "fwl", "fwa"}           \* spellings that NFKC turns into real separators (and real dots)
Effective(st, nm) == LET n1 == IF nm.look = "ascii" THEN [abs |-> nm.abs, segs |-> StripNul(nm.segs)]
                               ELSE [abs |-> FALSE, segs |-> <<"zz">>]       \* one word that exists nowhere
                     IN IF st = "regord" THEN Prefixed(n1) ELSE n1
\* file word the last component + ".pickle.gz" denotes, "" if it can exist nowhere in the tree
FileWord(w) == CASE w \in {"H", "evil"} -> w
                 [] w = "pfx:evil" -> "to-unicode-Adobe-evil"
                 [] OTHER -> ""
(***************************************************************************)
(* Intended design: a file is only used when it lies inside the directory  *)
(* being searched; an image name never leaves the output directory         *)
(* (separators and NUL in the name are replaced).                          *)
(***************************************************************************)
Init ==
  /\ \/ site \in CMapSites /\ icase = [init |-> {}, draws |-> 0, ext |-> "bmp", src |-> "xobj"]
     \/ site = "image" /\ icase \in ImageCases
  /\ name \in Names
  /\ phase = "start" /\ dirs = <<>> /\ reads = {} /\ creates = <<>> /\ outfiles = {} /\ lists = {} /\ drawn = 0
  /\ err = "none" /\ blame = {}

Keep == UNCHANGED <<site, name, icase>>

\* extract_text_to_fp opens nothing but its input (given as an open file) before the first font / image is met
AStart ==
  /\ phase = "start"
  /\ IF site = "image"
     THEN /\ phase' = "img_name" /\ outfiles' = icase.init /\ UNCHANGED dirs
     ELSE /\ phase' = "try" /\ dirs' = <<Res, Pkg>> /\ UNCHANGED outfiles     \* cmap_paths = (CMAP_PATH, package cmap dir)
  /\ Keep /\ UNCHANGED <<reads, creates, lists, drawn, err, blame>>

\* _load_data: for directory in cmap_paths: path = join(directory, filename); if exists(path): gzip.open(path) ...
ATryDir ==
  /\ phase = "try" /\ dirs # <<>>
  /\ LET d == Head(dirs)
         nm == Effective(site, name)
         p == ParentDir(d, nm)          \* (a prefixed first component is a word that exists nowhere as a directory)
         hit == p \notin {Fail, Above} /\ FileWord(LastWord(nm)) # "" /\ <<p, FileWord(LastWord(nm))>> \in PickleFiles
         inside == hit /\ IsPrefix(d, p)
         looks == hit /\ ~inside /\ LooksInside(d, p) /\ "ContainmentByCharacters" \in Dev
         \* the same name joined onto the package's cmap directory stays inside THAT directory
         pq == ParentDir(Pkg, nm)
         lexical == hit /\ ~inside /\ "LexicalContainment" \in Dev /\ d = Res
                    /\ IsPrefix(d, LexAll(IF IsAbs(nm) THEN Root ELSE d, IF nm.segs = <<>> THEN <<>> ELSE Front(nm.segs)))
         onedir == hit /\ ~inside /\ "CheckedAgainstOneDirectory" \in Dev
                   /\ pq \notin {Fail, Above, PkgParent} /\ IsPrefix(Pkg, pq)
         unscreened == hit /\ ~inside /\ "ScreenBeforeStrip" \in Dev
                       /\ ~RawSuspicious(IF site = "regord" THEN Prefixed(name) ELSE name)
     IN IF hit /\ (inside \/ looks \/ unscreened \/ onedir \/ lexical \/ "CMapNameUnconfined" \in Dev)
        THEN /\ reads' = reads \cup {<<p, FileWord(LastWord(nm))>>}          \* opened, read, unpickled
             /\ blame' = IF inside THEN blame
                         ELSE IF looks THEN blame \cup {"ContainmentByCharacters"}
                         ELSE IF unscreened THEN blame \cup {"ScreenBeforeStrip"}
                         ELSE IF onedir THEN blame \cup {"CheckedAgainstOneDirectory"}
                         ELSE IF lexical THEN blame \cup {"LexicalContainment"} ELSE blame \cup {"CMapNameUnconfined"}
             /\ phase' = "done" /\ dirs' = <<>>
        ELSE /\ dirs' = Tail(dirs) /\ UNCHANGED <<reads, blame>>
             /\ phase' = IF Tail(dirs) = <<>> THEN "done" ELSE "try"           \* raise CMapNotFound (caught by callers)
  \* the intended design looks at nothing but the candidate file itself (exists, then open): no directory is listed
  /\ lists' = LET d == Head(dirs)
                  p == ParentDir(d, Effective(site, name))
              IN IF "ListsBeforeCheck" \in Dev /\ p \notin {Fail, Above} THEN lists \cup {p} ELSE lists
  /\ Keep /\ UNCHANGED <<creates, outfiles, drawn, err>>

(* ---- image export ---- *)
HasNul == \E k \in 1..Len(name.segs) : name.segs[k] \in NulKinds
HasLong == \E k \in 1..Len(name.segs) : name.segs[k] = "long"
\* the kernel reports the first component that fails: a missing directory (ENOENT) or an over-long component
\* (ENAMETOOLONG), whichever comes first
RECURSIVE FirstFailure(_, _)
FirstFailure(d, s) == IF s = <<>> THEN "none"
                      ELSE IF Head(s) = "long" THEN "OSError"
                      ELSE IF Walk(d, Head(s)) = Fail THEN "FileNotFoundError"
                      ELSE FirstFailure(Walk(d, Head(s)), Tail(s))
OpenError == IF name.segs = <<>> THEN "none"
             ELSE LET e == FirstFailure(Start(Out, name), Front(name.segs))
                  IN IF e # "none" THEN e ELSE IF LastWord(name) = "long" THEN "OSError" ELSE "none"
\* is the name joined as a PATH (its separators live)?  ASCII spelling: when it is not sanitised; look-alike
\* spelling: only when normalisation brings the separators back after the sanitising step
Coded == IF name.look = "ascii" THEN "ImageNameUnconfined" \in Dev
         ELSE "NormaliseAfterSanitise" \in Dev /\ name.look \in SplitLooks
\* U+2105 becomes "c/o": the components around it are words that exist nowhere
LigSplit == "NormaliseAfterSanitise" \in Dev /\ name.look = "lig" /\ (name.abs \/ Len(name.segs) >= 2)
\* directory the image file lands in: as coded join(outdir, name + ext); intended: always the output directory
Target == IF Coded THEN ParentDir(Out, name) ELSE Out
\* first candidate index that does not exist: -1 (name.ext), 0 (name.0.ext), 1, 2 ...
MaxIdx == 400        \* (more than any run of occupied candidates plus the exports of one behaviour)
TrueFirstFree(S) == IF -1 \notin S THEN -1 ELSE CHOOSE k \in 0..MaxIdx : k \notin S /\ \A j \in 0..(k - 1) : j \in S
\* the loop "while exists(path): name = name.<i>.ext; i += 1" has no bound: however long the run of occupied
\* candidates, the first free one is found.  NumberingBounded: "... and i < 100" - candidate 99 is the last one built
FirstFree(S) == LET k == TrueFirstFree(S) IN IF "NumberingBounded" \in Dev /\ k > 99 THEN 99 ELSE k

(* The file name is  sanitised-name ++ extension.  The extension is ".bmp" on the bitmap route; on the "unknown    *)
(* encoding" route (_save_raw) it is "." bits "." width "x" height ".img", and bits/width/height are whatever the   *)
(* image dictionary holds.  ExtKinds = how that text looks:                                                        *)
(*   bmp, raw, neg, csill   integers (neg: negative ones; csill: ill-typed /ColorSpace sends an 8-bit image here)    *)
(*   filterill              unknown /Filter name: bitmap route, the file is opened, then decoding fails             *)
(*   illclean               an entry that is not a number but renders without a path separator (an array of ints)  *)
(*   lead1                  bits is a NAME: it renders as /'x' - the extension STARTS with ". /" so the first path  *)
(*                          component is  name ++ "."  ("." ++ "." = "..", "" ++ "." = ".")                         *)
(*   mid1, leadW            a separator further inside (bits a string "a/b"; width a name): the first component    *)
(*                          is a word that exists nowhere                                                          *)
(* Intended: an entry that is not an integer never reaches a path (%d raises TypeError, nothing is opened).        *)
IllTyped == icase.ext \in {"illclean", "lead1", "mid1", "leadW"}
\* the sanitised name as a word: what matters is whether  word ++ "."  is a special component
Inline == icase.src \in {"inline", "inlinepages", "inlineform"}
NameWord == IF Inline THEN "plain"                               \* inline<k>: not the document's
            ELSE IF name.look # "ascii" /\ name.segs # <<>> THEN "plain"
            ELSE IF name.segs = <<>> \/ name.segs = <<"e">> THEN "empty"
            ELSE IF name.segs = <<"d">> THEN "dot"
            ELSE "plain"                                         \* (".." ++ "." is "...", a plain word)
ExtTarget(T) == CASE icase.ext = "lead1" -> (CASE NameWord = "dot" -> Up(T) [] NameWord = "empty" -> T [] OTHER -> Fail)
                  [] icase.ext \in {"mid1", "leadW"} -> Fail
                  [] OTHER -> T

\* ImageWriter.export_image -> _create_unique_image_name (exists loop) -> open(path, "wb")
AExport ==
  /\ phase = "img_name"
  /\ IF IllTyped /\ "ExtFieldsUnvalidated" \notin Dev        \* "%d" % <not a number>, before any name is built
     THEN /\ err' = "TypeError" /\ phase' = "done" /\ UNCHANGED <<creates, outfiles, drawn, blame>>
     ELSE IF Coded /\ HasNul /\ icase.src = "xobj"
     THEN /\ err' = "ValueError" /\ phase' = "done" /\ UNCHANGED <<creates, outfiles, drawn, blame>>   \* embedded null byte
     ELSE IF ~Coded /\ HasLong /\ icase.src = "xobj"
     THEN /\ err' = "OSError" /\ phase' = "done" /\ UNCHANGED <<creates, outfiles, drawn, blame>>      \* File name too long
     ELSE IF Coded /\ OpenError # "none" /\ icase.src = "xobj"  \* (a directory above the root exists: a file is created there)
     THEN /\ err' = OpenError /\ phase' = "done" /\ UNCHANGED <<creates, outfiles, drawn, blame>>
     ELSE LET T == IF LigSplit /\ icase.src = "xobj" THEN Fail ELSE ExtTarget(IF Inline THEN Out ELSE Target)
              \* which word the file name starts with: exports in one content stream get inline0, inline1, ... ; a new
              \* content stream starts again at inline0; an XObject keeps its name.  outfiles = occupied candidates of word 0
              w == IF icase.src = "inline" THEN drawn ELSE 0
              occ == IF w = 0 THEN outfiles ELSE {}
              assumed == Inline /\ "InlineNamesAssumedUnique" \in Dev
              \* with a separator in the extension the numbered candidates name.0<ext> ... start with another word
              k == IF icase.ext \in {"lead1", "mid1", "leadW"} \/ assumed THEN -1 ELSE FirstFree(occ)
          IN IF T = Fail \/ (icase.ext = "lead1" /\ -1 \in occ)
             THEN /\ err' = "FileNotFoundError" /\ phase' = "done" /\ UNCHANGED <<creates, outfiles, drawn, blame>>
             ELSE /\ creates' = Append(creates, [dir |-> T, k |-> k, w |-> w, existed |-> k \in occ])
                  /\ outfiles' = IF w = 0 THEN outfiles \cup {k} ELSE outfiles
                  /\ drawn' = drawn + 1
                  /\ blame' = IF k \in occ THEN blame \cup (IF assumed THEN {"InlineNamesAssumedUnique"} ELSE {"NumberingBounded"})
                              ELSE IF InOut(T) THEN blame
                              ELSE IF IllTyped THEN blame \cup {"ExtFieldsUnvalidated"}
                              ELSE IF name.look # "ascii" THEN blame \cup {"NormaliseAfterSanitise"}
                              ELSE blame \cup {"ImageNameUnconfined"}
                  /\ IF icase.ext = "filterill"                 \* the file is open when PDFStream.decode meets the filter
                     THEN err' = "PDFNotImplementedError" /\ phase' = "done"
                     ELSE err' = err /\ phase' = IF drawn + 1 = icase.draws THEN "done" ELSE "img_name"
  /\ Keep /\ UNCHANGED <<dirs, reads, lists>>

Next == AStart \/ ATryDir \/ AExport
Spec == Init /\ [][Next]_vars

(***************************************************************************)
(* The property.                                                           *)
(***************************************************************************)
\* every file opened for reading is a resource inside a resource directory (the input is passed in open)
ReadsConfined == \A r \in reads : InResource(r[1]) \/ blame \cap {"CMapNameUnconfined", "ContainmentByCharacters", "ScreenBeforeStrip", "CheckedAgainstOneDirectory",
                                                                      "LexicalContainment"} # {}
\* a directory whose entries are listed is a resource directory (or lies inside one): the document cannot make the
\* library look around elsewhere
ListsConfined == \A d \in lists : InResource(d) \/ "ListsBeforeCheck" \in Dev
\* every file created lies inside the output directory
WritesConfined == \A k \in 1..Len(creates) : InOut(creates[k].dir) \/ blame \cap {"ImageNameUnconfined", "ExtFieldsUnvalidated", "NormaliseAfterSanitise"} # {}
\* a path that exists is never opened for writing
NeverOverwrite == \A k \in 1..Len(creates) : ~creates[k].existed \/ blame \cap {"NumberingBounded", "InlineNamesAssumedUnique"} # {}
\* two exports never land on the same file
DistinctNames == \A j, k \in 1..Len(creates) :
                   j # k => \/ <<creates[j].dir, creates[j].w, creates[j].k>> # <<creates[k].dir, creates[k].w, creates[k].k>>
                            \/ blame \cap {"NumberingBounded", "InlineNamesAssumedUnique"} # {}
BlameSound == blame \subseteq Dev
\* the lookup terminates having tried each directory at most once
LookupBounded == Len(dirs) <= 2

EmitTerminal ==
  phase = "done" => PrintT("@@" \o ToJson([s |-> site, n |-> name, ic |-> icase, rd |-> reads, ls |-> lists, cr |-> creates,
                                             er |-> err, bl |-> blame]))
=============================================================================
