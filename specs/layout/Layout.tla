------------------------------- MODULE Layout -------------------------------
(***************************************************************************)
(* C08 / C09: the layout analysis of pdfminer (LTLayoutContainer.analyze)  *)
(* as a state machine shaped like the code, over glyph boxes with integer  *)
(* coordinates (unit: 1/8 pt, so the Plane grid of 50 pt is G = 400) and   *)
(* LAParams as exact ratios.                                               *)
(*                                                                         *)
(*   build      the page is put together glyph by glyph (the enumerated    *)
(*              input space: every arrangement reachable with the moves    *)
(*              Moves(P), each gap/overlap at threshold-1/threshold/+1)    *)
(*   split      fsplit(LTChar) ; LTFigure.analyze returns unless all_texts *)
(*   chars      group_objects: one step per consecutive pair, the five-way *)
(*              branch on halign/valign, word-space insertion in add()     *)
(*   empties    fsplit(is_empty), analyze() of the empty lines             *)
(*   gtl        group_textlines: per line neighbour query (Plane.find +    *)
(*              filter), merge with the boxes of the neighbours, uniq      *)
(*   collect    boxes in the order of their first line                     *)
(*   gtb        group_textboxes: heap of (skip, dist, id, id); the id()    *)
(*              tie-break is a nondeterministic choice among least entries *)
(*   ganalyze   LTTextGroup*.analyze: line sort in boxes, child sort       *)
(*   index      IndexAssigner ; sortboxes  textboxes.sort(key=index)       *)
(*   flat       boxes_flow=None: box analyze, sort by getkey               *)
(*   done       _objs = textboxes + otherobjs + empties                    *)
(*                                                                         *)
(* Dev = named deviations of the code from the stated property:            *)
(*   "NoIndexFlowNone"  with boxes_flow=None no box index is assigned      *)
(*                      (every index stays -1)                             *)
(*   "GridOrderTies"    the members of a text box are collected in the     *)
(*                      order in which utils.Plane.find answers (grid      *)
(*                      cells of 50 pt, bottom-up): lines of one box with  *)
(*                      the same top edge come out in an order that        *)
(*                      depends on where the absolute grid falls, i.e. on  *)
(*                      the scale of the page (intended: the order in      *)
(*                      which the lines were yielded)                      *)
(* Dev = {} is the intended design; the invariants below are C08 and C09.  *)
(***************************************************************************)
EXTENDS LayoutOps, TLC, Json

CONSTANTS Params,        \* set of LAParams records [lo, cm, wm, lm, bf, dv, at]; bf = <<0,0>> is boxes_flow=None
          Wheres,        \* subset of {"page", "figure"}: container analysed
          Trs,           \* subset of BOOLEAN: transpose the built arrangement (vertical writing)
          MaxItems,      \* items on the page
          Firsts(_),     \* Firsts(P): choices for the first item
          Moves(_),      \* Moves(P): placements of a further item relative to the cursor
          PG,            \* index bounds = bbox of the container, <<0, 0, S, S>>
          G,             \* Plane grid in units (50 pt)
          Scales,        \* powers of two at which scale invariance is evaluated inside the model
          Dev

ASSUME PG[1] = 0 /\ PG[2] = 0 /\ PG[3] = PG[4]

VARIABLES P, wh, tie, txt, page, bc, pc, k, cur, lines, emp, tl, bmap, bxs, tb, ord, nodes, heap, pl, dn, out
vars == <<P, wh, tie, txt, page, bc, pc, k, cur, lines, emp, tl, bmap, bxs, tb, ord, nodes, heap, pl, dn, out>>

NoneFlow == P.bf[2] = 0
GridOrder == "GridOrderTies" \in Dev
PosIn(s, x) == CHOOSE i \in 1..Len(s) : s[i] = x
Ids(n) == [i \in 1..n |-> i]

\* ------------------------------------------------------------------ derived
TxtIdx == SelectSeq([i \in 1..Len(page) |-> i], LAMBDA i : page[i].k = "c")   \* fsplit: textobjs (page positions) -> txt
OthIdx == SelectSeq([i \in 1..Len(page) |-> i], LAMBDA i : page[i].k # "c")   \*         otherobjs
N   == Len(txt)
GB(i) == page[txt[i]].bb          \* box of glyph i (glyph id = rank among the text objects)
GT  == [i \in 1..N |-> page[txt[i]].t]

\* ------------------------------------------------------------------ build (input enumeration)
Item(bb, t) == [k |-> "c", bb |-> bb, t |-> t]
Place(mv) ==
  CASE mv.m = "R" -> LET x == bc.pv[3] + mv.gap  y == bc.pv[2] + mv.d IN <<x, y, x + mv.w, y + mv.h>>
    [] mv.m = "D" -> LET y == bc.ls[2] - mv.gap  x == bc.ls[1] + mv.d IN <<x, y - mv.h, x + mv.w, y>>
    [] mv.m = "C" -> LET x == bc.xmax + mv.gap   y == bc.top[4] + mv.d IN <<x, y - mv.h, x + mv.w, y>>
    [] OTHER      -> <<mv.gap, mv.d, mv.gap + mv.w, mv.d + mv.h>>            \* "A": absolute
Cursor(mv, b) ==
  IF bc.n = 0 THEN [n |-> 1, pv |-> b, ls |-> b, top |-> b, xmax |-> b[3]]
  ELSE [n |-> bc.n + 1, pv |-> b, ls |-> IF mv.m = "R" THEN bc.ls ELSE b, top |-> bc.top, xmax |-> Max(bc.xmax, b[3])]

BuildFirst == /\ pc = "build" /\ bc.n = 0 /\ Len(page) < MaxItems
              /\ \E f \in Firsts(P) : page' = Append(page, Item(f.bb, f.t)) /\ bc' = Cursor(f, f.bb)
              /\ UNCHANGED <<P, wh, tie, txt, pc, k, cur, lines, emp, tl, bmap, bxs, tb, ord, nodes, heap, pl, dn, out>>
BuildGlyph == /\ pc = "build" /\ bc.n > 0 /\ Len(page) < MaxItems
              /\ \E mv \in Moves(P) : /\ mv.m # "O"
                                      /\ page' = Append(page, Item(Place(mv), mv.t))
                                      /\ bc' = Cursor(mv, Place(mv))
              /\ UNCHANGED <<P, wh, tie, txt, pc, k, cur, lines, emp, tl, bmap, bxs, tb, ord, nodes, heap, pl, dn, out>>
BuildOther == /\ pc = "build" /\ Len(page) < MaxItems
              /\ \E mv \in Moves(P) : mv.m = "O"
              /\ page' = Append(page, [k |-> "o", bb |-> <<0, 0, 8, 8>>, t |-> "e"])
              /\ UNCHANGED <<P, wh, tie, txt, bc, pc, k, cur, lines, emp, tl, bmap, bxs, tb, ord, nodes, heap, pl, dn, out>>
Transposed(b) == <<b[2], PG[3] - b[3], b[4], PG[3] - b[1]>>
EndBuild == /\ pc = "build"
            /\ \E tr \in Trs : (tr => P.dv) /\ page' = IF tr THEN [i \in 1..Len(page) |-> [page[i] EXCEPT !.bb = Transposed(@)]]
                                              ELSE page
            /\ pc' = "split"
            /\ UNCHANGED <<P, wh, tie, txt, bc, k, cur, lines, emp, tl, bmap, bxs, tb, ord, nodes, heap, pl, dn, out>>

\* ------------------------------------------------------------------ emission of terminal states for the replay
\* (printed by the action that completes the analysis, once per distinct completed analysis)
RECURSIVE Leaves(_)
Leaves(i) == IF nodes[i].ch = <<>> THEN <<i>> ELSE Leaves(nodes[i].ch[1]) \o Leaves(nodes[i].ch[2])
Live == {i \in Range(pl) : i \notin dn}
LiveSeq == SelectSeq(pl, LAMBDA i : i \notin dn)
OutBox(b) == [o |-> b.o, idx |-> b.idx, bb |-> b.bb,
              ls |-> [j \in 1..Len(b.ls) |-> [o |-> tl[b.ls[j]].o, it |-> tl[b.ls[j]].it, bb |-> tl[b.ls[j]].bb]]]
OutEntry(e) == IF e.k = "box" THEN [k |-> "box", v |-> OutBox(tb[e.i])]
               ELSE IF e.k = "empty" THEN [k |-> "empty", v |-> [o |-> emp[e.i].o, it |-> emp[e.i].it, bb |-> emp[e.i].bb]]
               ELSE [k |-> "item", v |-> e.i]
RECURSIVE TreeOf(_)
TreeOf(i) == IF nodes[i].ch = <<>> THEN [b |-> tb[i].idx]
             ELSE [kd |-> nodes[i].kd, bb |-> nodes[i].bb, ch |-> <<TreeOf(nodes[i].ch[1]), TreeOf(nodes[i].ch[2])>>]
SameCol(a, b) == a.bb[1] = b.bb[1]
ColumnPage ==
  /\ \A a \in Range(tb) : a.o = "H"
  /\ \A a, b \in Range(tb) : a # b =>
        IF SameCol(a, b) THEN a.bb[2] >= b.bb[4] \/ b.bb[2] >= a.bb[4]          \* stacked, disjoint
        ELSE a.bb[3] < b.bb[1] \/ b.bb[3] < a.bb[1]                              \* side by side, disjoint
  \* all columns span the same height
  /\ \A a, b \in Range(tb) : LET col(c) == {x \in Range(tb) : SameCol(x, c)} IN
        /\ (\A x \in col(a) : x.bb[4] <= a.bb[4]) /\ (\A x \in col(b) : x.bb[4] <= b.bb[4]) => a.bb[4] = b.bb[4]
        /\ (\A x \in col(a) : x.bb[2] >= a.bb[2]) /\ (\A x \in col(b) : x.bb[2] >= b.bb[2]) => a.bb[2] = b.bb[2]
  \* the gutter is wider (as area between boxes) than any gap inside a column
  /\ \A a, b, c, d \in Range(tb) : (SameCol(a, b) /\ a # b /\ ~SameCol(c, d)
                                    /\ ~\E x \in Range(tb) : SameCol(x, a) /\ x # a /\ x # b
                                                             /\ Min(a.bb[2], b.bb[2]) < x.bb[2] /\ x.bb[4] < Max(a.bb[4], b.bb[4]))
                                   => Dist(a.bb, b.bb) < Dist(c.bb, d.bb)
EmitDone(o) ==
  PrintT("@@" \o ToJson([page |-> page, p |-> P, wh |-> wh,
                         out |-> [i \in 1..Len(o) |-> OutEntry(o[i])],
                         nb |-> Len(tb), tie |-> tie,
                         colpage |-> (Len(tb) > 1 /\ ~NoneFlow /\ ColumnPage),
                         groups |-> IF NoneFlow \/ Len(nodes) = 0 THEN <<>> ELSE [i \in 1..Len(LiveSeq) |-> TreeOf(LiveSeq[i])]]))

\* ------------------------------------------------------------------ analyze: entry
\* LTFigure.analyze: nothing happens unless all_texts
SkipFigure == /\ pc = "split" /\ wh = "figure" /\ ~P.at
              /\ out' = [i \in 1..Len(page) |-> [k |-> "item", i |-> i]] /\ pc' = "done" /\ EmitDone(out')
              /\ UNCHANGED <<P, wh, tie, txt, page, bc, k, cur, lines, emp, tl, bmap, bxs, tb, ord, nodes, heap, pl, dn>>
\* fsplit(isinstance LTChar); "if not textobjs: return"
SplitText == /\ pc = "split" /\ (wh = "page" \/ P.at)
             /\ txt' = TxtIdx
             /\ IF TxtIdx = <<>> THEN out' = [i \in 1..Len(page) |-> [k |-> "item", i |-> i]] /\ pc' = "done" /\ UNCHANGED k
                                  /\ EmitDone(out')
                         ELSE pc' = "chars" /\ k' = 2 /\ UNCHANGED out
             /\ UNCHANGED <<P, wh, tie, page, bc, cur, lines, emp, tl, bmap, bxs, tb, ord, nodes, heap, pl, dn>>

\* ------------------------------------------------------------------ group_objects
HA(i, j) == Halign(GB(i), GB(j), P)
VA(i, j) == P.dv /\ Valign(GB(i), GB(j), P)
GOBranch == Branch(cur, HA(k - 1, k), VA(k - 1, k))
Add(L, i) == LineAdd(L, i, GB(i), P)
GOFrame == UNCHANGED <<P, wh, tie, txt, page, bc, pc, emp, tl, bmap, bxs, tb, ord, nodes, heap, pl, dn, out>>
GOAppend == /\ pc = "chars" /\ k <= N /\ GOBranch = "append"
            /\ cur' = Add(cur, k) /\ k' = k + 1 /\ UNCHANGED lines /\ GOFrame
GOYield  == /\ pc = "chars" /\ k <= N /\ GOBranch = "yield"
            /\ lines' = Append(lines, cur) /\ cur' = NoLine /\ k' = k + 1 /\ GOFrame
GONewV   == /\ pc = "chars" /\ k <= N /\ GOBranch = "newV"
            /\ cur' = Add(Add(NewLine("V"), k - 1), k) /\ k' = k + 1 /\ UNCHANGED lines /\ GOFrame
GONewH   == /\ pc = "chars" /\ k <= N /\ GOBranch = "newH"
            /\ cur' = Add(Add(NewLine("H"), k - 1), k) /\ k' = k + 1 /\ UNCHANGED lines /\ GOFrame
GOSingle == /\ pc = "chars" /\ k <= N /\ GOBranch = "single"
            /\ lines' = Append(lines, Add(NewLine("H"), k - 1)) /\ cur' = NoLine /\ k' = k + 1 /\ GOFrame
GOFlush  == /\ pc = "chars" /\ k > N
            /\ lines' = Append(lines, IF cur.o = "N" THEN Add(NewLine("H"), N) ELSE cur)
            /\ cur' = NoLine /\ pc' = "empties"
            /\ UNCHANGED <<P, wh, tie, txt, page, bc, k, emp, tl, bmap, bxs, tb, ord, nodes, heap, pl, dn, out>>

\* ------------------------------------------------------------------ fsplit(is_empty); empties analysed
SplitEmpties ==
  /\ pc = "empties"
  /\ emp' = [i \in 1..Len(SelectSeq(lines, LAMBDA L : LineIsEmpty(L, GT))) |->
               Newline(SelectSeq(lines, LAMBDA L : LineIsEmpty(L, GT))[i])]
  /\ tl' = SelectSeq(lines, LAMBDA L : ~LineIsEmpty(L, GT))
  /\ bmap' = [l \in 1..Len(tl') |-> 0] /\ bxs' = <<>> /\ k' = 1 /\ pc' = "gtl"
  /\ UNCHANGED <<P, wh, tie, txt, page, bc, cur, lines, tb, ord, nodes, heap, pl, dn, out>>

\* ------------------------------------------------------------------ group_textlines
GTLStep == /\ pc = "gtl" /\ k <= Len(tl)
           /\ LET r == MergeStep(k, Neighbors(tl, k, P.lm, PG, G, GridOrder), bmap, bxs) IN bmap' = r.bmap /\ bxs' = r.bxs
           /\ k' = k + 1
           /\ UNCHANGED <<P, wh, tie, txt, page, bc, pc, cur, lines, emp, tl, tb, ord, nodes, heap, pl, dn, out>>
BoxOf(ls) == [o |-> tl[ls[1]].o, ls |-> ls, bb |-> UnionAll([i \in 1..Len(ls) |-> tl[ls[i]].bb]), idx |-> -1]
\* "if not box.is_empty(): yield box" (LTComponent.is_empty: no width or no height)
GTLCollect == /\ pc = "gtl" /\ k > Len(tl)
              /\ tb' = SelectSeq([i \in 1..Len(Collect(bmap)) |-> BoxOf(bxs[Collect(bmap)[i]])],
                                 LAMBDA b : ~(BW(b.bb) <= 0 \/ BH(b.bb) <= 0))
              /\ pc' = IF NoneFlow THEN "flat" ELSE "gtb0"
              /\ UNCHANGED <<P, wh, tie, txt, page, bc, k, cur, lines, emp, tl, bmap, bxs, ord, nodes, heap, pl, dn, out>>

\* LTTextBox*.analyze: every line gets its newline, lines sorted by -y1 (-x1), stable
LineLt(o, a, b) == IF o = "H" THEN tl[a].bb[4] > tl[b].bb[4] ELSE tl[a].bb[3] > tl[b].bb[3]
SortedLines(b) == StableSortBy(b.ls, LAMBDA x, y : LineLt(b.o, x, y))
AnalyzedBoxes == [i \in 1..Len(tb) |-> [tb[i] EXCEPT !.ls = SortedLines(tb[i])]]
WithNewlines == [l \in 1..Len(tl) |-> IF \E i \in 1..Len(tb) : l \in Range(tb[i].ls) THEN Newline(tl[l]) ELSE tl[l]]

\* ------------------------------------------------------------------ boxes_flow = None
NoneLt(a, b) == Lex3(NoneKey(a.o, a.bb), NoneKey(b.o, b.bb))
FlatSort == /\ pc = "flat"
            /\ tb' = AnalyzedBoxes /\ tl' = WithNewlines
            /\ ord' = StableSortBy(Ids(Len(tb)), LAMBDA a, b : NoneLt(tb[a], tb[b]))
            /\ pc' = IF "NoIndexFlowNone" \in Dev THEN "final" ELSE "flatindex"
            /\ UNCHANGED <<P, wh, tie, txt, page, bc, k, cur, lines, emp, bmap, bxs, nodes, heap, pl, dn, out>>
\* intended: boxes are numbered in output order also without the group hierarchy
FlatIndex == /\ pc = "flatindex"
             /\ tb' = [i \in 1..Len(tb) |-> [tb[i] EXCEPT !.idx = PosIn(ord, i) - 1]] /\ pc' = "final"
             /\ UNCHANGED <<P, wh, tie, txt, page, bc, k, cur, lines, emp, tl, bmap, bxs, ord, nodes, heap, pl, dn, out>>

\* ------------------------------------------------------------------ group_textboxes
NodeBoxes == [i \in 1..Len(nodes) |-> nodes[i].bb]
IsAnyAt(nb, live, i1, i2, pg) == FindSet(nb, live, Union(nb[i1], nb[i2]), 1, pg, G) \ {i1, i2} # {}
IsAny(i1, i2) == IsAnyAt(NodeBoxes, Live, i1, i2, PG)
GTBInit == /\ pc = "gtb0"
           /\ nodes' = [i \in 1..Len(tb) |-> [kd |-> IF tb[i].o = "V" THEN "BV" ELSE "BH", ch |-> <<>>, bb |-> tb[i].bb]]
           /\ heap' = {<<0, Dist(tb[q[1]].bb, tb[q[2]].bb), q[1], q[2]>> :
                        q \in {r \in (1..Len(tb)) \X (1..Len(tb)) : r[1] < r[2]}}
           /\ pl' = [i \in 1..Len(tb) |-> i] /\ dn' = {} /\ pc' = "gtb"
           /\ UNCHANGED <<P, wh, tie, txt, page, bc, k, cur, lines, emp, tl, bmap, bxs, tb, ord, out>>
\* history flag (for the harness): some pop had more than one least entry with both members still in the plane,
\* i.e. the id() tie-break mattered somewhere in this behaviour
Tied == Cardinality({f \in MinEntries(heap) : f[3] \notin dn /\ f[4] \notin dn}) > 1
GTBFrame == UNCHANGED <<P, wh, txt, page, bc, pc, k, cur, lines, emp, tl, bmap, bxs, tb, ord, out>>
\* popped pair already merged away
GTBDiscard == /\ pc = "gtb"
              /\ \E e \in MinEntries(heap) : (e[3] \in dn \/ e[4] \in dn) /\ heap' = heap \ {e}
              /\ UNCHANGED <<nodes, pl, dn, tie>> /\ GTBFrame
\* something lies between the two: come back to the pair after every unobstructed one
GTBRepush  == /\ pc = "gtb"
              /\ \E e \in MinEntries(heap) : /\ e[3] \notin dn /\ e[4] \notin dn /\ e[1] = 0 /\ IsAny(e[3], e[4])
                                             /\ heap' = (heap \ {e}) \cup {<<1, e[2], e[3], e[4]>>}
              /\ tie' = (tie \/ Tied) /\ UNCHANGED <<nodes, pl, dn>> /\ GTBFrame
GTBMerge   == /\ pc = "gtb"
              /\ \E e \in MinEntries(heap) :
                   /\ e[3] \notin dn /\ e[4] \notin dn /\ (e[1] = 1 \/ ~IsAny(e[3], e[4]))
                   /\ LET g  == Len(nodes) + 1
                          gb == Union(nodes[e[3]].bb, nodes[e[4]].bb)
                          rest == Live \ {e[3], e[4]} IN
                      /\ nodes' = Append(nodes, [kd |-> GroupKind(nodes[e[3]].kd, nodes[e[4]].kd),
                                                 ch |-> <<e[3], e[4]>>, bb |-> gb])
                      /\ heap' = (heap \ {e}) \cup {<<0, Dist(gb, nodes[o].bb), g, o>> : o \in rest}
                      /\ dn' = dn \cup {e[3], e[4]} /\ pl' = Append(pl, g)
              /\ tie' = (tie \/ Tied) /\ GTBFrame
GTBEnd == /\ pc = "gtb" /\ heap = {} /\ pc' = "ganalyze"
          /\ UNCHANGED <<P, wh, tie, txt, page, bc, k, cur, lines, emp, tl, bmap, bxs, tb, ord, nodes, heap, pl, dn, out>>

\* group.analyze for every top-level group: boxes analysed, children of every group sorted by the flow key
GroupLt(kd, a, b) == IF kd = "LRTB" THEN KeyLRTB(nodes[a].bb, P.bf) < KeyLRTB(nodes[b].bb, P.bf)
                                    ELSE KeyTBRL(nodes[a].bb, P.bf) < KeyTBRL(nodes[b].bb, P.bf)
AnalyzeGroups == /\ pc = "ganalyze"
                 /\ nodes' = [i \in 1..Len(nodes) |->
                                IF nodes[i].ch = <<>> THEN nodes[i]
                                ELSE [nodes[i] EXCEPT !.ch = StableSortBy(@, LAMBDA a, b : GroupLt(nodes[i].kd, a, b))]]
                 /\ tb' = AnalyzedBoxes /\ tl' = WithNewlines /\ pc' = "index"
                 /\ UNCHANGED <<P, wh, tie, txt, page, bc, k, cur, lines, emp, bmap, bxs, ord, heap, pl, dn, out>>
\* IndexAssigner.run over the groups in plane order
DFSOrder == Flat([i \in 1..Len(LiveSeq) |-> Leaves(LiveSeq[i])])
AssignIndex == /\ pc = "index"
               /\ tb' = [i \in 1..Len(tb) |-> [tb[i] EXCEPT !.idx = PosIn(DFSOrder, i) - 1]] /\ pc' = "sortboxes"
               /\ UNCHANGED <<P, wh, tie, txt, page, bc, k, cur, lines, emp, tl, bmap, bxs, ord, nodes, heap, pl, dn, out>>
SortBoxes == /\ pc = "sortboxes"
             /\ ord' = StableSortBy(Ids(Len(tb)), LAMBDA a, b : tb[a].idx < tb[b].idx) /\ pc' = "final"
             /\ UNCHANGED <<P, wh, tie, txt, page, bc, k, cur, lines, emp, tl, bmap, bxs, tb, nodes, heap, pl, dn, out>>

\* self._objs = textboxes + otherobjs + empties
Finish == /\ pc = "final"
          /\ out' = [i \in 1..Len(ord) |-> [k |-> "box", i |-> ord[i]]]
                    \o [i \in 1..Len(OthIdx) |-> [k |-> "item", i |-> OthIdx[i]]]
                    \o [i \in 1..Len(emp) |-> [k |-> "empty", i |-> i]]
          /\ pc' = "done" /\ EmitDone(out')
          /\ UNCHANGED <<P, wh, tie, txt, page, bc, k, cur, lines, emp, tl, bmap, bxs, tb, ord, nodes, heap, pl, dn>>

Finished == pc = "done" /\ UNCHANGED vars

Init == /\ P \in Params /\ wh \in Wheres /\ page = <<>> /\ txt = <<>> /\ tie = FALSE /\ pc = "build"
        /\ bc = [n |-> 0, pv |-> <<>>, ls |-> <<>>, top |-> <<>>, xmax |-> 0]
        /\ k = 0 /\ cur = NoLine /\ lines = <<>> /\ emp = <<>> /\ tl = <<>> /\ bmap = <<>> /\ bxs = <<>>
        /\ tb = <<>> /\ ord = <<>> /\ nodes = <<>> /\ heap = {} /\ pl = <<>> /\ dn = {} /\ out = <<>>

Next == \/ BuildFirst \/ BuildGlyph \/ BuildOther \/ EndBuild \/ SkipFigure \/ SplitText
        \/ GOAppend \/ GOYield \/ GONewV \/ GONewH \/ GOSingle \/ GOFlush \/ SplitEmpties
        \/ GTLStep \/ GTLCollect \/ FlatSort \/ FlatIndex
        \/ GTBInit \/ GTBDiscard \/ GTBRepush \/ GTBMerge \/ GTBEnd \/ AnalyzeGroups \/ AssignIndex \/ SortBoxes
        \/ Finish \/ Finished
Spec == Init /\ [][Next]_vars

\* ================================================================== reference semantics (declarative)
\* Lines, from the documentation: a maximal run of consecutive glyphs whose consecutive pairs are aligned in
\* the run's direction; the direction is fixed by the first pair (exactly one of halign/valign; with
\* detect_vertical off only halign exists).
Al(o, i) == IF o = "H" THEN HA(i, i + 1) ELSE VA(i, i + 1)
RunO(s) == IF s >= N THEN "S" ELSE IF HA(s, s + 1) /\ ~VA(s, s + 1) THEN "H"
           ELSE IF VA(s, s + 1) /\ ~HA(s, s + 1) THEN "V" ELSE "S"
RunEnd(s) == IF RunO(s) = "S" THEN s
             ELSE CHOOSE e \in (s + 1)..N : /\ \A j \in s..(e - 1) : Al(RunO(s), j)
                                            /\ (e = N \/ ~Al(RunO(s), e))
RECURSIVE RunsFrom(_)
RunsFrom(s) == IF s > N THEN <<>> ELSE <<[o |-> IF RunO(s) = "V" THEN "V" ELSE "H", a |-> s, b |-> RunEnd(s)]>>
                                       \o RunsFrom(RunEnd(s) + 1)
\* word spaces, from the documentation: in front of a glyph that lies further from its predecessor in the
\* line than word_margin times the larger of its width and height (word_margin 0 = no word spaces)
RefSpace(o, i) == /\ P.wm[1] # 0
                  /\ LET g == GB(i)  p == GB(i - 1)
                         gap == IF o = "H" THEN g[1] - p[3] ELSE p[2] - g[4] IN
                     gap * P.wm[2] > P.wm[1] * Max(BW(g), BH(g))
RefItems(r) == Flat([j \in 1..(r.b - r.a + 1) |->
                       IF j > 1 /\ RefSpace(r.o, r.a + j - 1) THEN <<0, r.a + j - 1>> ELSE <<r.a + j - 1>>])
RefLines == LET runs == RunsFrom(1) IN [i \in 1..Len(runs) |-> [o |-> runs[i].o, it |-> RefItems(runs[i])]]

\* ================================================================== C08
AllLines == lines        \* every line ever yielded (empties and text lines keep their contents)
StripAnno(it) == SelectSeq(it, LAMBDA x : x >= 1)
\* every glyph exactly once, in content order, at every stage
\* (every conjunct is evaluated where the data it speaks about is produced; later stages keep it unchanged)
Analysed == N > 0 /\ (wh = "page" \/ P.at)
Conservation ==
  /\ pc = "chars" => Flat([i \in 1..Len(lines) |-> GlyphIds(lines[i])])
                     \o (IF cur.o = "N" THEN <<k - 1>> ELSE GlyphIds(cur))
                     \o [i \in 1..(N - k + 1) |-> k + i - 1] = Ids(N)
  /\ pc = "empties" => Flat([i \in 1..Len(lines) |-> GlyphIds(lines[i])]) = Ids(N)
  /\ pc = "gtl" /\ k = 1
       => \* empties and text lines are exactly the yielded lines
          /\ Len(emp) + Len(tl) = Len(lines)
          /\ \A L \in Range(lines) : (\E e \in Range(emp) : StripAnno(e.it) = StripAnno(L.it))
                                     \/ (\E t \in Range(tl) : StripAnno(t.it) = StripAnno(L.it))
  /\ pc \in {"flat", "gtb0"}
       => \* every text line in exactly one box
          IsPerm(Flat([i \in 1..Len(tb) |-> tb[i].ls]), 1..Len(tl))
  /\ pc = "gtb" => IsPerm(Flat([i \in 1..Len(LiveSeq) |-> Leaves(LiveSeq[i])]), 1..Len(tb))
  /\ pc = "done" => \* every item of the page exactly once in the output
       LET boxesG == Flat([i \in 1..Len(out) |-> IF out[i].k = "box"
                            THEN Flat([j \in 1..Len(tb[out[i].i].ls) |-> GlyphIds(tl[tb[out[i].i].ls[j]])]) ELSE <<>>])
           empG   == Flat([i \in 1..Len(out) |-> IF out[i].k = "empty" THEN GlyphIds(emp[out[i].i]) ELSE <<>>])
           items  == Flat([i \in 1..Len(out) |-> IF out[i].k = "item" THEN <<out[i].i>> ELSE <<>>]) IN
       IF ~Analysed THEN items = Ids(Len(page))
       ELSE IsPerm(boxesG \o empG, 1..N) /\ items = OthIdx

\* the bounding box of every line, box and group is the union of its members'
LineBBoxOK(L) == L.bb = UnionAll([i \in 1..Len(GlyphIds(L)) |-> GB(GlyphIds(L)[i])])
BBoxIsUnion ==
  /\ pc = "chars" => LineBBoxOK(cur)
  /\ pc = "empties" => \A L \in Range(lines) : LineBBoxOK(L)
  /\ pc \in {"flat", "gtb0", "done"} => \A b \in Range(tb) : b.bb = UnionAll([i \in 1..Len(b.ls) |-> tl[b.ls[i]].bb])
  /\ pc \in {"gtb", "done"} => \A i \in 1..Len(nodes) : nodes[i].ch # <<>> =>
                                  nodes[i].bb = Union(nodes[nodes[i].ch[1]].bb, nodes[nodes[i].ch[2]].bb)
  /\ pc = "done" => \A L \in Range(tl) \cup Range(emp) : LineBBoxOK(L)

\* one orientation per line and per box; every line of the output ends in exactly one line break
OneOrientationAndNewline ==
  /\ pc = "empties" => \A L \in Range(lines) : /\ L.o \in {"H", "V"} /\ (L.o = "V" => P.dv)
                                               /\ \A i \in 1..(Len(GlyphIds(L)) - 1) :
                                                     GlyphIds(L)[i + 1] = GlyphIds(L)[i] + 1 /\ Al(L.o, GlyphIds(L)[i])
  /\ pc \in {"flat", "gtb0", "done"} => \A b \in Range(tb) : \A l \in Range(b.ls) : tl[l].o = b.o
  /\ pc = "done" => \A L \in Range(tl) \cup Range(emp) :
                       /\ L.it[Len(L.it)] = -1 /\ \A i \in 1..(Len(L.it) - 1) : L.it[i] # -1
                       /\ L.it[1] >= 1 /\ \A i \in 1..(Len(L.it) - 1) : L.it[i] = 0 => L.it[i + 1] >= 1

\* lines inside a box top to bottom (right to left in vertical boxes)
LineOrder == pc = "done" => \A b \in Range(tb) : IsSortedBy(b.ls, LAMBDA x, y : LineLt(b.o, x, y))

\* text boxes numbered 0..n-1 in output order, for every LAParams
Indices0toN == pc = "done" => IsPerm(ord, 1..Len(tb)) /\ \A p \in 1..Len(ord) : tb[ord[p]].idx = p - 1

\* text of a container = concatenation of its members' text (as item sequences)
BoxItems(b) == Flat([j \in 1..Len(b.ls) |-> tl[b.ls[j]].it])
TextIsConcat == pc = "done" =>
  /\ \A b \in Range(tb) : StripAnno(BoxItems(b)) = Flat([j \in 1..Len(b.ls) |-> GlyphIds(tl[b.ls[j]])])
  /\ \A b \in Range(tb) : Cardinality({i \in 1..Len(BoxItems(b)) : BoxItems(b)[i] = -1}) = Len(b.ls)

\* termination: every analysis step lowers a natural-number rank
PcRank == CASE pc = "build" -> 14 [] pc = "split" -> 13 [] pc = "chars" -> 12 [] pc = "empties" -> 11 [] pc = "gtl" -> 10
            [] pc = "gtb0" -> 9 [] pc = "gtb" -> 8 [] pc = "ganalyze" -> 7 [] pc = "index" -> 6 [] pc = "sortboxes" -> 5
            [] pc = "flat" -> 4 [] pc = "flatindex" -> 3 [] pc = "final" -> 2 [] OTHER -> 1
Inner == CASE pc = "build" -> MaxItems - Len(page)
           [] pc = "chars" -> N + 1 - k
           [] pc = "gtl"   -> Len(tl) + 1 - k
           [] pc = "gtb"   -> 2 * Cardinality({e \in heap : e[1] = 0}) + Cardinality({e \in heap : e[1] = 1})
                              + 2 * Cardinality(Live) * Cardinality(Live)
           [] OTHER -> 0
Termination == [][ PcRank' < PcRank \/ (PcRank' = PcRank /\ Inner' < Inner /\ Inner' >= 0) ]_vars

\* ================================================================== C09
LineShape(L) == [o |-> L.o, it |-> SelectSeq(L.it, LAMBDA x : x >= 0)]
\* consecutive glyphs share a line exactly when aligned as documented (partition = the reference runs)
JoinIff == pc = "empties" =>
             LET ref == RefLines IN
             [i \in 1..Len(lines) |-> [o |-> lines[i].o, g |-> GlyphIds(lines[i])]]
             = [i \in 1..Len(ref) |-> [o |-> ref[i].o, g |-> StripAnno(ref[i].it)]]
\* a space is inserted exactly when the gap exceeds word_margin
SpaceIff == pc = "empties" => [i \in 1..Len(lines) |-> LineShape(lines[i])] = RefLines
\* with line_overlap < 1 the library's overlap measure (smaller distance between opposite edges) and the
\* geometric overlap decide alike on glyphs that have a height; they differ for nested boxes otherwise
OverlapReadings == pc = "chars" /\ k <= N /\ P.lo[1] < P.lo[2] /\ BH(GB(k - 1)) > 0 /\ BH(GB(k)) > 0 =>
                     Halign(GB(k - 1), GB(k), P) = GeoHalign(GB(k - 1), GB(k), P)

\* lines are in one box exactly when connected by the documented neighbour relation
\* (stated for containers whose text lines lie inside the container's bounding box: utils.Plane does not index
\* what lies outside its bounds, and what it answers there is not constrained by the documentation)
InBounds(b) == PG[1] <= b[1] /\ PG[2] <= b[2] /\ b[3] <= PG[3] /\ b[4] <= PG[4]
DocEdge(a, b) == DocNeighbor(tl[a], tl[b], P.lm)
BoxIffConnected ==
  pc \in {"flat", "gtb0"} /\ (\A l \in 1..Len(tl) : InBounds(tl[l].bb)) =>
     {Range(tb[i].ls) : i \in 1..Len(tb)} = Components(Len(tl), DocEdge)

\* order of the boxes.  (a) boxes_flow=None: by the bottom-left corner, top first, then left first.
\* (b) numeric boxes_flow: the children of every group are ordered by the documented weighting of the
\* horizontal and the vertical position.  (c) on a page made of columns (ColumnPage) and -1 < boxes_flow < 1:
\* every column top to bottom, a left column before a right one.
ColumnOrder ==
  pc = "done" /\ Analysed =>
    /\ NoneFlow => IsSortedBy(ord, LAMBDA a, b : NoneLt(tb[a], tb[b]))
    /\ ~NoneFlow => \A i \in 1..Len(nodes) : nodes[i].ch # <<>> =>
                       ~GroupLt(nodes[i].kd, nodes[i].ch[2], nodes[i].ch[1])
    /\ (~NoneFlow /\ ColumnPage /\ -P.bf[2] < P.bf[1] /\ P.bf[1] < P.bf[2]) =>
          \A i, j \in 1..Len(tb) : (tb[i].bb[1] < tb[j].bb[1] \/ (SameCol(tb[i], tb[j]) /\ tb[i].bb[2] > tb[j].bb[2]))
                                       => tb[i].idx < tb[j].idx

\* ------------------------------------------------------------------ scale invariance, inside the model
\* Every decision of the machine has the same outcome on the page (and index bounds) multiplied by s, and the
\* stage results that depend on the order of Plane.find (members of a box before the stable line sort) are
\* compared as outcomes: the boxes with their sorted lines.
SL(L, s) == [L EXCEPT !.bb = ScaleBox(@, s), !.last = @ * s]
STL(s) == [i \in 1..Len(tl) |-> SL(tl[i], s)]
RECURSIVE GTLFold(_, _, _, _)
GTLFold(tls, pgs, j, st) == IF j > Len(tls) THEN st
                            ELSE GTLFold(tls, pgs, j + 1, MergeStep(j, Neighbors(tls, j, P.lm, pgs, G, GridOrder), st.bmap, st.bxs))
FoldBoxes(tls, pgs) ==
  LET st == GTLFold(tls, pgs, 1, [bmap |-> [l \in 1..Len(tls) |-> 0], bxs |-> <<>>])
      lt(o, a, b) == IF o = "H" THEN tls[a].bb[4] > tls[b].bb[4] ELSE tls[a].bb[3] > tls[b].bb[3]
  IN  [i \in 1..Len(Collect(st.bmap)) |->
         StableSortBy(st.bxs[Collect(st.bmap)[i]], LAMBDA x, y : lt(tls[st.bxs[Collect(st.bmap)[i]][1]].o, x, y))]
ScaleInvariant == \A s \in Scales :
  /\ pc = "chars" /\ k <= N =>
        /\ Halign(GB(k - 1), GB(k), P) = Halign(ScaleBox(GB(k - 1), s), ScaleBox(GB(k), s), P)
        /\ Valign(GB(k - 1), GB(k), P) = Valign(ScaleBox(GB(k - 1), s), ScaleBox(GB(k), s), P)
        /\ cur.o # "N" => NeedSpace(cur, GB(k), P) = NeedSpace(SL(cur, s), ScaleBox(GB(k), s), P)
  /\ pc = "gtl" /\ k <= Len(tl) =>
        Range(Neighbors(tl, k, P.lm, PG, G, TRUE)) = Range(Neighbors(STL(s), k, P.lm, ScaleBox(PG, s), G, TRUE))
  /\ pc \in {"flat", "gtb0"} =>
        [i \in 1..Len(tb) |-> SortedLines(tb[i])] = FoldBoxes(STL(s), ScaleBox(PG, s))
  /\ pc = "gtb" => \A e \in MinEntries(heap) : (e[3] \notin dn /\ e[4] \notin dn) =>
        IsAny(e[3], e[4]) = IsAnyAt([i \in 1..Len(nodes) |-> ScaleBox(nodes[i].bb, s)], Live, e[3], e[4], ScaleBox(PG, s))
  /\ pc = "ganalyze" => \A i \in 1..Len(nodes) : nodes[i].ch # <<>> =>
        LET a == nodes[nodes[i].ch[1]].bb  b == nodes[nodes[i].ch[2]].bb IN
        IF nodes[i].kd = "LRTB"
        THEN (KeyLRTB(a, P.bf) < KeyLRTB(b, P.bf)) = (KeyLRTB(ScaleBox(a, s), P.bf) < KeyLRTB(ScaleBox(b, s), P.bf))
        ELSE (KeyTBRL(a, P.bf) < KeyTBRL(b, P.bf)) = (KeyTBRL(ScaleBox(a, s), P.bf) < KeyTBRL(ScaleBox(b, s), P.bf))
  /\ pc = "flat" => \A a, b \in Range(tb) :
        NoneLt(a, b) = NoneLt([a EXCEPT !.bb = ScaleBox(@, s)], [b EXCEPT !.bb = ScaleBox(@, s)])

=============================================================================
