----------------------------- MODULE LayoutOps -----------------------------
(***************************************************************************)
(* Operators of the layout analysis of pdfminer (layout.py, utils.Plane),  *)
(* shared by Layout.tla (the machine over integer geometry) and            *)
(* LayoutTrace.tla (the control skeleton over recorded facts).             *)
(*                                                                         *)
(* Numbers.  Coordinates are integers in a declared unit (1/8 pt by        *)
(* default: G = 50 pt = 400 units is the grid of utils.Plane).  A box is   *)
(* <<x0, y0, x1, y1>>.  LAParams ratios are <<num, den>> with den > 0;     *)
(* every comparison is cross-multiplied, so thresholds are exact.          *)
(*                                                                         *)
(* Items of a line: a glyph id (>= 1), 0 = LTAnno(" "), -1 = LTAnno("\n"). *)
(* Text classes of glyphs: "c" visible character, "s" white space,         *)
(* "e" the empty string.                                                   *)
(***************************************************************************)
EXTENDS Integers, Sequences, FiniteSets

Min(a, b) == IF a < b THEN a ELSE b
Max(a, b) == IF a > b THEN a ELSE b
Abs(a)    == IF a < 0 THEN -a ELSE a

\* ------------------------------------------------------------------ boxes
BW(b) == b[3] - b[1]
BH(b) == b[4] - b[2]
Union(a, b)    == <<Min(a[1], b[1]), Min(a[2], b[2]), Max(a[3], b[3]), Max(a[4], b[4])>>
UnionOpt(a, b) == IF a = <<>> THEN b ELSE Union(a, b)      \* <<>> = the (+INF,+INF,-INF,-INF) start box
ScaleBox(b, s) == IF b = <<>> THEN b ELSE <<b[1] * s, b[2] * s, b[3] * s, b[4] * s>>
RECURSIVE UnionAll(_)
UnionAll(bs) == IF bs = <<>> THEN <<>> ELSE UnionOpt(UnionAll(Tail(bs)), Head(bs))

\* LTComponent.is_hoverlap / hdistance / hoverlap / is_voverlap / vdistance / voverlap
IsHOverlap(a, b) == b[1] <= a[3] /\ a[1] <= b[3]
IsVOverlap(a, b) == b[2] <= a[4] /\ a[2] <= b[4]
HEdge(a, b) == Min(Abs(a[1] - b[3]), Abs(a[3] - b[1]))
VEdge(a, b) == Min(Abs(a[2] - b[4]), Abs(a[4] - b[2]))
HDistance(a, b) == IF IsHOverlap(a, b) THEN 0 ELSE HEdge(a, b)
HOverlap(a, b)  == IF IsHOverlap(a, b) THEN HEdge(a, b) ELSE 0
VDistance(a, b) == IF IsVOverlap(a, b) THEN 0 ELSE VEdge(a, b)
VOverlap(a, b)  == IF IsVOverlap(a, b) THEN VEdge(a, b) ELSE 0
\* the geometric length of the common part of the two intervals (what "overlap" means in plane geometry)
GeoVOverlap(a, b) == Max(0, Min(a[4], b[4]) - Max(a[2], b[2]))
GeoHOverlap(a, b) == Max(0, Min(a[3], b[3]) - Max(a[1], b[1]))

\* group_objects: halign / valign  (r*a < b  is  r[1]*a < b*r[2])
Halign(a, b, P) == /\ IsVOverlap(a, b)
                   /\ P.lo[1] * Min(BH(a), BH(b)) < VOverlap(a, b) * P.lo[2]
                   /\ HDistance(a, b) * P.cm[2] < Max(BW(a), BW(b)) * P.cm[1]
Valign(a, b, P) == /\ IsHOverlap(a, b)
                   /\ P.lo[1] * Min(BW(a), BW(b)) < HOverlap(a, b) * P.lo[2]
                   /\ VDistance(a, b) * P.cm[2] < Max(BH(a), BH(b)) * P.cm[1]
\* the same with the geometric overlap (documentation read literally)
GeoHalign(a, b, P) == /\ IsVOverlap(a, b)
                      /\ P.lo[1] * Min(BH(a), BH(b)) < GeoVOverlap(a, b) * P.lo[2]
                      /\ HDistance(a, b) * P.cm[2] < Max(BW(a), BW(b)) * P.cm[1]

\* ------------------------------------------------------------------ sequences
RECURSIVE UniqR(_, _)
UniqR(s, seen) == IF s = <<>> THEN <<>>
                  ELSE IF Head(s) \in seen THEN UniqR(Tail(s), seen)
                  ELSE <<Head(s)>> \o UniqR(Tail(s), seen \cup {Head(s)})
Uniq(s) == UniqR(s, {})                                      \* utils.uniq
RECURSIVE Flat(_)
Flat(ss) == IF ss = <<>> THEN <<>> ELSE Head(ss) \o Flat(Tail(ss))
Range(s) == {s[i] : i \in 1..Len(s)}
IsPerm(s, S) == Len(s) = Cardinality(S) /\ Range(s) = S

\* list.sort(key=..) : stable; Lt is the strict order of the keys
StableSortBy(s, Lt(_, _)) ==
  LET n == Len(s)
      pos(i) == 1 + Cardinality({j \in 1..n : Lt(s[j], s[i]) \/ (~Lt(s[i], s[j]) /\ j < i)})
  IN  [p \in 1..n |-> s[CHOOSE i \in 1..n : pos(i) = p]]
IsSortedBy(s, Lt(_, _)) == \A i \in 1..(Len(s) - 1) : ~Lt(s[i + 1], s[i])
\* a finite set as the sequence ordered by the strict total order Lt
SeqOfSet(S, Lt(_, _)) ==
  LET pos(x) == 1 + Cardinality({y \in S : Lt(y, x)})
  IN  [p \in 1..Cardinality(S) |-> CHOOSE x \in S : pos(x) = p]
Lex3(a, b) == a[1] < b[1] \/ (a[1] = b[1] /\ (a[2] < b[2] \/ (a[2] = b[2] /\ a[3] < b[3])))

\* ------------------------------------------------------------------ lines
NoLine     == [o |-> "N", it |-> <<>>, bb |-> <<>>, last |-> 0]
NewLine(o) == [o |-> o, it |-> <<>>, bb |-> <<>>, last |-> 0]

\* LTTextLineHorizontal.add / LTTextLineVertical.add : is LTAnno(" ") put in front of glyph box g ?
\* (self._x1 is +INF / self._y0 is -INF before the first glyph; a falsy word_margin switches the test off)
NeedSpace(L, g, P) ==
  /\ P.wm[1] # 0
  /\ L.it # <<>>
  /\ IF L.o = "H" THEN P.wm[1] * Max(BW(g), BH(g)) < (g[1] - L.last) * P.wm[2]
                  ELSE P.wm[1] * Max(BW(g), BH(g)) < (L.last - g[4]) * P.wm[2]
\* the skeleton of add(): sp = the recorded/recomputed outcome of the word-space test
LineAddF(L, id, g, sp) ==
  [L EXCEPT !.it = (IF sp THEN Append(@, 0) ELSE @) \o <<id>>,
            !.bb = UnionOpt(@, g),
            !.last = IF L.o = "H" THEN g[3] ELSE g[2]]
LineAdd(L, id, g, P) == LineAddF(L, id, g, NeedSpace(L, g, P))

\* group_objects, the five-way branch on one consecutive pair; h, v = halign, (detect_vertical and valign)
Branch(cur, h, v) ==
  IF cur.o # "N" /\ ((h /\ cur.o = "H") \/ (v /\ cur.o = "V")) THEN "append"
  ELSE IF cur.o # "N" THEN "yield"
  ELSE IF v /\ ~h THEN "newV"
  ELSE IF h /\ ~v THEN "newH"
  ELSE "single"

GlyphIds(L) == SelectSeq(L.it, LAMBDA x : x >= 1)
\* LTTextLine.is_empty: degenerate box, or text.isspace() (non-empty and all white space); T: glyph id -> class
TextIsSpace(L, T) == /\ \E i \in 1..Len(L.it) : L.it[i] = 0 \/ (L.it[i] >= 1 /\ T[L.it[i]] = "s")
                     /\ \A i \in 1..Len(L.it) : L.it[i] >= 1 => T[L.it[i]] # "c"
LineIsEmpty(L, T) == BW(L.bb) <= 0 \/ BH(L.bb) <= 0 \/ TextIsSpace(L, T)
Newline(L) == [L EXCEPT !.it = Append(@, -1)]               \* LTTextLine.analyze

\* ------------------------------------------------------------------ utils.Plane (grid G, index bounds pg)
\* cells touched by the rectangle with numerators q over the denominator den: <<gx0, gy0, gx1, gy1>> or <<>>
\* (_getrange: nothing if the rectangle does not meet pg; else clipped; drange = floor(v/50) .. floor(v/50))
Cells(q, den, pg, G) ==
  IF q[3] <= pg[1] * den \/ pg[3] * den <= q[1] \/ q[4] <= pg[2] * den \/ pg[4] * den <= q[2] THEN <<>>
  ELSE << Max(pg[1] * den, q[1]) \div (den * G), Max(pg[2] * den, q[2]) \div (den * G),
          Min(pg[3] * den, q[3]) \div (den * G), Min(pg[4] * den, q[4]) \div (den * G) >>
\* Plane.find(q): bbs = boxes in insertion order, live = indices still in the plane.
\* Result in the order of the code: grid rows bottom-up, cells left to right, insertion order in a cell.
FindHit(bbs, i, q, den, pg, G) ==
  LET c == Cells(bbs[i], 1, pg, G)  qc == Cells(q, den, pg, G) IN
  /\ c # <<>> /\ qc # <<>>
  /\ c[1] <= qc[3] /\ qc[1] <= c[3] /\ c[2] <= qc[4] /\ qc[2] <= c[4]
  /\ ~(bbs[i][3] * den <= q[1] \/ q[3] <= bbs[i][1] * den \/ bbs[i][4] * den <= q[2] \/ q[4] <= bbs[i][2] * den)
FindSet(bbs, live, q, den, pg, G) == {i \in live : FindHit(bbs, i, q, den, pg, G)}
FindSeq(bbs, live, q, den, pg, G) ==
  LET qc == Cells(q, den, pg, G)
      key(i) == LET c == Cells(bbs[i], 1, pg, G) IN <<Max(c[2], qc[2]), Max(c[1], qc[1]), i>>
  IN  SeqOfSet(FindSet(bbs, live, q, den, pg, G), LAMBDA a, b : Lex3(key(a), key(b)))
\* what the index would return were it exact (every object strictly overlapping the query)
OverlapsQ(b, q, den) == ~(b[3] * den <= q[1] \/ q[3] <= b[1] * den \/ b[4] * den <= q[2] \/ q[4] <= b[2] * den)

\* ------------------------------------------------------------------ find_neighbors
\* d = line_margin * height (width for vertical lines); the query and every tolerance use numerators over lm[2]
NeighQuery(L, lm) ==
  LET b == L.bb  n == lm[1]  d == lm[2] IN
  IF L.o = "H" THEN <<b[1] * d, b[2] * d - n * BH(b), b[3] * d, b[4] * d + n * BH(b)>>
               ELSE <<b[1] * d - n * BW(b), b[2] * d, b[3] * d + n * BW(b), b[4] * d>>
\* same size and left/right/centre (lower/upper/centre) aligned, all within the tolerance d
NeighFilter(L, M, lm) ==
  LET a == L.bb  b == M.bb IN
  /\ M.o = L.o
  /\ IF L.o = "H"
     THEN LET t == lm[1] * BH(a) IN
          /\ Abs(BH(b) - BH(a)) * lm[2] <= t
          /\ \/ Abs(b[1] - a[1]) * lm[2] <= t
             \/ Abs(b[3] - a[3]) * lm[2] <= t
             \/ Abs((b[1] + b[3]) - (a[1] + a[3])) * lm[2] <= 2 * t
     ELSE LET t == lm[1] * BW(a) IN
          /\ Abs(BW(b) - BW(a)) * lm[2] <= t
          /\ \/ Abs(b[2] - a[2]) * lm[2] <= t
             \/ Abs(b[4] - a[4]) * lm[2] <= t
             \/ Abs((b[2] + b[4]) - (a[2] + a[4])) * lm[2] <= 2 * t
LineBoxes(tl) == [i \in 1..Len(tl) |-> tl[i].bb]
\* grid = TRUE: the answer comes in the order of Plane.find (grid cells, as coded); FALSE: in the order the lines were
\* put into the plane (independent of the absolute 50 pt grid)
Neighbors(tl, j, lm, pg, G, grid) ==
  SelectSeq(IF grid THEN FindSeq(LineBoxes(tl), 1..Len(tl), NeighQuery(tl[j], lm), lm[2], pg, G)
                    ELSE SeqOfSet(FindSet(LineBoxes(tl), 1..Len(tl), NeighQuery(tl[j], lm), lm[2], pg, G), LAMBDA a, b : a < b),
            LAMBDA m : NeighFilter(tl[j], tl[m], lm))
\* the documented neighbour relation, without the spatial index
DocNeighbor(L, M, lm) == OverlapsQ(M.bb, NeighQuery(L, lm), lm[2]) /\ NeighFilter(L, M, lm)

\* group_textlines, one iteration: bmap = line -> box id (0 none), bxs = box id -> member lines
Members(j, nb, bmap, bxs) ==
  Uniq(<<j>> \o Flat([i \in 1..Len(nb) |->
                        <<nb[i]>> \o (IF bmap[nb[i]] # 0 THEN bxs[bmap[nb[i]]] ELSE <<>>)]))
MergeStep(j, nb, bmap, bxs) ==
  LET mem == Members(j, nb, bmap, bxs)  new == Len(bxs) + 1 IN
  [bmap |-> [l \in DOMAIN bmap |-> IF l \in Range(mem) THEN new
                                   ELSE IF l \in Range(nb) THEN 0 ELSE bmap[l]],
   bxs  |-> Append(bxs, mem)]
\* second loop: boxes in the order of their first line
RECURSIVE CollectR(_, _, _)
CollectR(bmap, l, seen) ==
  IF l > Len(bmap) THEN <<>>
  ELSE IF bmap[l] = 0 \/ bmap[l] \in seen THEN CollectR(bmap, l + 1, seen)
  ELSE <<bmap[l]>> \o CollectR(bmap, l + 1, seen \cup {bmap[l]})
Collect(bmap) == CollectR(bmap, 1, {})

\* connected components (as a set of sets) of the symmetric closure of edge relation E over nodes 1..n
Components(n, E(_, _)) ==
  LET adj(x) == {y \in 1..n : E(x, y) \/ E(y, x)}
      RECURSIVE Grow(_, _)
      Grow(S, c) == IF c = 0 THEN S ELSE Grow(S \cup UNION {adj(x) : x \in S}, c - 1)
  IN  {Grow({x}, n) : x \in 1..n}

\* ------------------------------------------------------------------ group_textboxes
Dist(a, b) == LET u == Union(a, b) IN BW(u) * BH(u) - BW(a) * BH(a) - BW(b) * BH(b)
IsVertKind(k) == k \in {"BV", "TBRL"}
GroupKind(k1, k2) == IF IsVertKind(k1) \/ IsVertKind(k2) THEN "TBRL" ELSE "LRTB"
\* heap entries <<skip, dist, id1, id2>>; heappop takes a least one; among entries equal in (skip, dist)
\* the code falls back on id(obj1), id(obj2), i.e. on memory addresses
MinEntries(heap) == {e \in heap : \A f \in heap : e[1] < f[1] \/ (e[1] = f[1] /\ e[2] <= f[2])}

\* LTTextGroupLRTB / TBRL sort keys times bf[2]
KeyLRTB(b, bf) == (bf[2] - bf[1]) * b[1] - (bf[2] + bf[1]) * (b[2] + b[4])
KeyTBRL(b, bf) == (0 - (bf[2] + bf[1])) * (b[1] + b[3]) - (bf[2] - bf[1]) * b[4]
\* analyze(): getkey for boxes_flow = None
NoneKey(o, b) == IF o = "V" THEN <<0, 0 - b[3], 0 - b[2]>> ELSE <<1, 0 - b[2], b[1]>>
=============================================================================
