---------------------------- MODULE LayoutTrace ----------------------------
(***************************************************************************)
(* Trace validation for the layout analysis (binding B).  One record per   *)
(* LTLayoutContainer.analyze call of the real code on real documents       *)
(* (harness/observe/layoutrun.py): the arithmetic predicates each step     *)
(* depends on are logged as boolean facts recomputed with exact rationals, *)
(* coordinates as order-preserving ranks.  This module replays the control *)
(* skeleton of Layout.tla (same operators, LayoutOps) on those facts and   *)
(* requires the recorded lines, neighbour answers, boxes, heap operations, *)
(* groups and final tree to be what the skeleton produces; the C08         *)
(* invariants are evaluated on the recorded final tree.                    *)
(*                                                                         *)
(* A rejected record shows up as a deadlock whose last state names the     *)
(* record (t), the stage (st) and the step (k), or as a violated T*        *)
(* invariant in stage "final".                                             *)
(***************************************************************************)
EXTENDS LayoutOps, TLC, Json, IOUtils

CONSTANTS Dev

Traces == JsonDeserialize(IOEnv.TRACE_FILE)
NT == Len(Traces)

VARIABLES t, st, k, cur, lines, bmap, bxs, heap, live, dn
vars == <<t, st, k, cur, lines, bmap, bxs, heap, live, dn>>

Tr == Traces[t]
Z  == <<0, 0, 0, 0>>
Ids(n) == [i \in 1..n |-> i]
Reset == /\ k = 0 /\ cur = NoLine /\ lines = <<>> /\ bmap = <<>> /\ bxs = <<>> /\ heap = {} /\ live = <<>> /\ dn = {}
Init == t = 1 /\ st = "start" /\ Reset

\* ------------------------------------------------------------------ group_objects on the facts h, v, spH, spV
Start == /\ t <= NT /\ st = "start" /\ Tr.n >= 1
         /\ st' = "chars" /\ k' = 2 /\ UNCHANGED <<t, cur, lines, bmap, bxs, heap, live, dn>>
Sp(Ln, i) == IF Ln.it = <<>> THEN FALSE ELSE IF Ln.o = "H" THEN Tr.spH[i] ELSE Tr.spV[i]
Add(Ln, i) == LineAddF(Ln, i, Z, Sp(Ln, i))
CharStep ==
  /\ t <= NT /\ st = "chars" /\ k <= Tr.n
  /\ LET br == Branch(cur, Tr.h[k - 1], Tr.dv /\ Tr.v[k - 1]) IN
     CASE br = "append" -> cur' = Add(cur, k) /\ UNCHANGED lines
       [] br = "yield"  -> lines' = Append(lines, cur) /\ cur' = NoLine
       [] br = "newV"   -> cur' = Add(Add(NewLine("V"), k - 1), k) /\ UNCHANGED lines
       [] br = "newH"   -> cur' = Add(Add(NewLine("H"), k - 1), k) /\ UNCHANGED lines
       [] OTHER         -> lines' = Append(lines, Add(NewLine("H"), k - 1)) /\ cur' = NoLine
  /\ k' = k + 1 /\ UNCHANGED <<t, st, bmap, bxs, heap, live, dn>>
Shape(Ln) == [o |-> Ln.o, it |-> Ln.it]
\* the lines the skeleton yields are the lines the code yielded
CharFlush ==
  /\ t <= NT /\ st = "chars" /\ k > Tr.n
  /\ lines' = Append(lines, IF cur.o = "N" THEN Add(NewLine("H"), Tr.n) ELSE cur)
  /\ [i \in 1..Len(lines') |-> Shape(lines'[i])] = [i \in 1..Len(Tr.lines) |-> [o |-> Tr.lines[i].o, it |-> Tr.lines[i].it]]
  /\ cur' = NoLine /\ st' = "empties" /\ UNCHANGED <<t, k, bmap, bxs, heap, live, dn>>

\* ------------------------------------------------------------------ fsplit(is_empty)
Empties ==
  /\ t <= NT /\ st = "empties"
  /\ Tr.emp = SelectSeq(Ids(Len(lines)), LAMBDA i : Tr.emptyF[i])
  /\ Tr.tl  = SelectSeq(Ids(Len(lines)), LAMBDA i : ~Tr.emptyF[i])
  /\ bmap' = [l \in 1..Len(Tr.tl) |-> 0] /\ bxs' = <<>> /\ k' = 1 /\ st' = "gtl"
  /\ UNCHANGED <<t, cur, lines, heap, live, dn>>

\* ------------------------------------------------------------------ group_textlines on the recorded neighbour answers
\* (inside the container the answer must be the documented neighbour relation, recomputed as nbrF)
GtlStep ==
  /\ t <= NT /\ st = "gtl" /\ k <= Len(Tr.tl)
  /\ Tr.inb => Range(Tr.nbr[k]) = Range(Tr.nbrF[k])
  /\ \A x \in Range(Tr.nbr[k]) : x \in 1..Len(Tr.tl)
  \* the neighbours are taken in the order of the lines (as coded before the repair of GridOrderTies: in the order
  \* Plane.find answered)
  /\ LET nb == IF "GridOrderTies" \in Dev THEN Tr.nbr[k]
               ELSE SeqOfSet(Range(Tr.nbr[k]), LAMBDA a, b : a < b)
         r == MergeStep(k, nb, bmap, bxs) IN bmap' = r.bmap /\ bxs' = r.bxs
  /\ k' = k + 1 /\ UNCHANGED <<t, st, cur, lines, heap, live, dn>>
GtlCollect ==
  /\ t <= NT /\ st = "gtl" /\ k > Len(Tr.tl)
  /\ [i \in 1..Len(Collect(bmap)) |-> bxs[Collect(bmap)[i]]] = [i \in 1..Len(Tr.boxes0) |-> Tr.boxes0[i].ls]
  /\ \A i \in 1..Len(Tr.boxes0) : \A l \in Range(Tr.boxes0[i].ls) : Tr.lines[Tr.tl[l]].o = Tr.boxes0[i].o
  /\ st' = "sort" /\ UNCHANGED <<t, k, cur, lines, bmap, bxs, heap, live, dn>>

\* ------------------------------------------------------------------ LTTextBox*.analyze: stable sort by -y1 / -x1
OutBoxes == SelectSeq(Tr.out, LAMBDA e : e.k = "box")
SortLines ==
  /\ t <= NT /\ st = "sort"
  /\ Len(OutBoxes) = Len(Tr.boxes0)
  /\ \A i \in 1..Len(OutBoxes) :
        LET e == OutBoxes[i] IN
        /\ e.b0 \in 1..Len(Tr.boxes0)
        /\ [j \in 1..Len(e.ls) |-> e.ls[j].t]
           = StableSortBy(Tr.boxes0[e.b0].ls, LAMBDA x, y : Tr.lkey[x] < Tr.lkey[y])
  /\ IF Tr.gtb THEN /\ st' = "gtb" /\ k' = 1 /\ heap' = Range(Tr.init) /\ live' = Ids(Len(Tr.boxes0)) /\ dn' = {}
                    /\ Range(Tr.init) = {<<0, e[2], e[3], e[4]>> : e \in Range(Tr.init)}
                    /\ {<<e[3], e[4]>> : e \in Range(Tr.init)}
                       = {q \in (1..Len(Tr.boxes0)) \X (1..Len(Tr.boxes0)) : q[1] < q[2]}
               ELSE st' = "final" /\ UNCHANGED <<k, heap, live, dn>>
  /\ UNCHANGED <<t, cur, lines, bmap, bxs>>

\* ------------------------------------------------------------------ group_textboxes on the recorded heap operations
Kind(i) == Tr.nodes[i].kd
LiveSet == {x \in Range(live) : x \notin dn}
GtbStep ==
  /\ t <= NT /\ st = "gtb" /\ k <= Len(Tr.ev)
  /\ LET ev == Tr.ev[k]  e == <<ev.e[1], ev.e[2], ev.e[3], ev.e[4]>>
         dead == e[3] \in dn \/ e[4] \in dn
         blocked == IF Tr.allin THEN ev.isanyF ELSE ev.g = 0 IN
     /\ e \in MinEntries(heap)                                           \* heappop returned a least entry
     /\ IF dead
        THEN ev.g = 0 /\ ev.push = <<>> /\ heap' = heap \ {e} /\ UNCHANGED <<live, dn>>
        ELSE IF e[1] = 0 /\ blocked
        THEN /\ ev.g = 0 /\ ev.push = << <<1, e[2], e[3], e[4]>> >>
             /\ heap' = (heap \ {e}) \cup {<<1, e[2], e[3], e[4]>>} /\ UNCHANGED <<live, dn>>
        ELSE /\ ev.g = Len(live) + 1 /\ ev.gch = <<e[3], e[4]>>
             /\ ev.gk = GroupKind(Kind(e[3]), Kind(e[4])) /\ Kind(ev.g) = ev.gk
             /\ Range(Tr.nodes[ev.g].ch) = {e[3], e[4]}
             \* one new entry per object still in the plane, in plane order
             /\ [i \in 1..Len(ev.push) |-> <<ev.push[i][1], ev.push[i][3], ev.push[i][4]>>]
                = [i \in 1..Len(SelectSeq(live, LAMBDA x : x \in LiveSet \ {e[3], e[4]})) |->
                     <<0, ev.g, SelectSeq(live, LAMBDA x : x \in LiveSet \ {e[3], e[4]})[i]>>]
             /\ heap' = (heap \ {e}) \cup {<<p[1], p[2], p[3], p[4]>> : p \in Range(ev.push)}
             /\ live' = Append(live, ev.g) /\ dn' = dn \cup {e[3], e[4]}
  /\ k' = k + 1 /\ UNCHANGED <<t, st, cur, lines, bmap, bxs>>
GtbEnd ==
  /\ t <= NT /\ st = "gtb" /\ k > Len(Tr.ev)
  /\ heap = {} /\ Tr.roots = SelectSeq(live, LAMBDA x : x \notin dn)
  /\ st' = "final" /\ UNCHANGED <<t, k, cur, lines, bmap, bxs, heap, live, dn>>

\* ------------------------------------------------------------------ next record
NextTrace == /\ t <= NT /\ st = "final"
             /\ t' = t + 1 /\ st' = "start" /\ k' = 0 /\ cur' = NoLine /\ lines' = <<>> /\ bmap' = <<>> /\ bxs' = <<>>
             /\ heap' = {} /\ live' = <<>> /\ dn' = {}
Finished == t > NT /\ UNCHANGED vars

Next == Start \/ CharStep \/ CharFlush \/ Empties \/ GtlStep \/ GtlCollect \/ SortLines \/ GtbStep \/ GtbEnd
        \/ NextTrace \/ Finished
Spec == Init /\ [][Next]_vars

\* ================================================================== C08 on the recorded final tree (stage "final")
AtFinal == t <= NT /\ st = "final"
Glyphs(it) == SelectSeq(it, LAMBDA x : x >= 1)
OutLines == Flat([i \in 1..Len(Tr.out) |-> Tr.out[i].ls])
TConservation == AtFinal =>
  /\ IsPerm(Flat([i \in 1..Len(OutLines) |-> Glyphs(OutLines[i].it)]), 1..Tr.n)
  /\ [i \in 1..Len(SelectSeq(Tr.out, LAMBDA e : e.k = "item")) |-> SelectSeq(Tr.out, LAMBDA e : e.k = "item")[i].idx] = Tr.others
  \* boxes, then the other items, then the empty lines (in the order they were yielded)
  /\ \A i \in 1..(Len(Tr.out) - 1) : ~(Tr.out[i].k = "item" /\ Tr.out[i + 1].k = "box")
                                      /\ ~(Tr.out[i].k = "empty" /\ Tr.out[i + 1].k # "empty")
  /\ [i \in 1..Len(SelectSeq(Tr.out, LAMBDA e : e.k = "empty")) |-> SelectSeq(Tr.out, LAMBDA e : e.k = "empty")[i].ls[1].t] = Tr.emp
  \* every yielded line is in the tree with the glyphs and word spaces it was yielded with
  /\ \A i \in 1..Len(Tr.out) : Tr.out[i].k = "box" => \A j \in 1..Len(Tr.out[i].ls) :
        SelectSeq(Tr.out[i].ls[j].it, LAMBDA x : x >= 0) = Tr.lines[Tr.tl[Tr.out[i].ls[j].t]].it
  /\ \A i \in 1..Len(Tr.out) : Tr.out[i].k = "empty" =>
        SelectSeq(Tr.out[i].ls[1].it, LAMBDA x : x >= 0) = Tr.lines[Tr.out[i].ls[1].t].it
TBBoxIsUnion == AtFinal =>
  /\ \A i \in 1..Len(OutLines) : OutLines[i].bb = UnionAll([j \in 1..Len(Glyphs(OutLines[i].it)) |-> Tr.gb[Glyphs(OutLines[i].it)[j]]])
  /\ \A i \in 1..Len(Tr.out) : Tr.out[i].k = "box" => Tr.out[i].bb = UnionAll([j \in 1..Len(Tr.out[i].ls) |-> Tr.out[i].ls[j].bb])
  /\ \A i \in 1..Len(Tr.nodes) : Tr.nodes[i].ch # <<>> =>
        Tr.nodes[i].bb = Union(Tr.nodes[Tr.nodes[i].ch[1]].bb, Tr.nodes[Tr.nodes[i].ch[2]].bb)
TOneOrientationAndNewline == AtFinal =>
  /\ \A i \in 1..Len(Tr.out) : \A j \in 1..Len(Tr.out[i].ls) : Tr.out[i].ls[j].o = Tr.out[i].o /\ (Tr.out[i].o = "V" => Tr.dv)
  /\ \A i \in 1..Len(OutLines) : LET it == OutLines[i].it IN
        /\ it[Len(it)] = -1 /\ \A j \in 1..(Len(it) - 1) : it[j] >= 0
        /\ it[1] >= 1 /\ \A j \in 1..(Len(it) - 1) : it[j] = 0 => it[j + 1] >= 1
        /\ \A j \in 1..(Len(Glyphs(it)) - 1) : Glyphs(it)[j + 1] = Glyphs(it)[j] + 1
TLineOrder == AtFinal => \A i \in 1..Len(Tr.out) : Tr.out[i].k = "box" =>
  \A j \in 1..(Len(Tr.out[i].ls) - 1) : Tr.lkey[Tr.out[i].ls[j].t] <= Tr.lkey[Tr.out[i].ls[j + 1].t]
RECURSIVE TLeaves(_)
TLeaves(i) == IF Tr.nodes[i].ch = <<>> THEN <<i>> ELSE TLeaves(Tr.nodes[i].ch[1]) \o TLeaves(Tr.nodes[i].ch[2])
TIndices0toN == AtFinal =>
  \* (as coded, deviation NoIndexFlowNone: no index at all when boxes_flow is None)
  IF ~Tr.flow /\ "NoIndexFlowNone" \in Dev /\ (\A i \in 1..Len(OutBoxes) : OutBoxes[i].idx = -1) THEN TRUE
  ELSE /\ \A i \in 1..Len(OutBoxes) : OutBoxes[i].idx = i - 1
       \* IndexAssigner: depth-first over the groups in the order their members were sorted into
       /\ Tr.gtb => [i \in 1..Len(OutBoxes) |-> OutBoxes[i].b0] = Flat([r \in 1..Len(Tr.roots) |-> TLeaves(Tr.roots[r])])
TTextIsConcat == AtFinal => \A i \in 1..Len(Tr.out) : Tr.out[i].tok /\ \A j \in 1..Len(Tr.out[i].ls) : Tr.out[i].ls[j].tok
\* C09 ordering facts: members of every group in the order of the boxes_flow weighting; flat order for None
TGroupOrder == AtFinal =>
  /\ \A i \in 1..Len(Tr.nodes) : Tr.nodes[i].kle
  /\ ~Tr.flow => IsSortedBy(OutBoxes, LAMBDA a, b : Lex3(NoneKey(a.o, a.bb), NoneKey(b.o, b.bb)))
=============================================================================
