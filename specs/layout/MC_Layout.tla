----------------------------- MODULE MC_Layout -----------------------------
(***************************************************************************)
(* Input spaces for Layout.tla.  A family = a set of LAParams x the moves  *)
(* that place the next glyph relative to the cursor; every gap, overlap    *)
(* and offset that a threshold of the analysis looks at is taken at        *)
(* threshold-1, threshold, threshold+1 units (Around).  The base glyph is  *)
(* 8 x 8 units (1 pt at 1/8 pt per unit); the index bounds are 512 x 512   *)
(* units (64 pt), so the Plane grid (400 units) already has four cells at  *)
(* scale 1 and the first glyph sits on the corner of all four.             *)
(***************************************************************************)
EXTENDS Layout

PR(lo, cm, wm, lm, bf, dv, at) == [lo |-> lo, cm |-> cm, wm |-> wm, lm |-> lm, bf |-> bf, dv |-> dv, at |-> at]
None == <<0, 0>>
T(r, s) == (r[1] * s) \div r[2]                 \* floor(r * s)
Around(t) == {t - 1, t, t + 1}
B == 8

First1(q) == {[m |-> "A", bb |-> <<376, 392, 384, 400>>, t |-> "c"]}
First2(q) == First1(q) \cup {[m |-> "A", bb |-> <<376, 392, 392, 400>>, t |-> "c"]}
R(gap, d, w, h, t) == [m |-> "R", gap |-> gap, d |-> d, w |-> w, h |-> h, t |-> t]
D(gap, d, w, h, t) == [m |-> "D", gap |-> gap, d |-> d, w |-> w, h |-> h, t |-> t]
C(gap, d, w, h, t) == [m |-> "C", gap |-> gap, d |-> d, w |-> w, h |-> h, t |-> t]
A(x, y, w, h, t)   == [m |-> "A", gap |-> x, d |-> y, w |-> w, h |-> h, t |-> t]
Other == [m |-> "O", gap |-> 0, d |-> 0, w |-> 0, h |-> 0, t |-> "e"]

\* ------------------------------------------------------------------ lines: halign / valign / word spaces
LineGaps(q, m) == Around(T(q.cm, m)) \cup Around(T(q.wm, m)) \cup {0 - 2}
LineOffs(q, m) == {0} \cup {m - v : v \in Around(T(q.lo, m))}
LineMovesQ(q) == {R(g, d, B, B, "c") : g \in LineGaps(q, B), d \in LineOffs(q, B)}
                 \cup {R(T(q.cm, B) - 1, 0, B, B, "s"), R(0, 0, B, B, "e"), R(1, 0, 0, B, "c")}
\* mixed sizes: thresholds of both the smaller and the larger glyph; offsets both ways; nested boxes
LineMovesT(q) == {R(g, d, B, B, "c") : g \in {T(q.cm, B) - 1, T(q.cm, B), T(q.wm, B), T(q.wm, B) + 1}, d \in {0, B - T(q.lo, B), B - T(q.lo, B) + 1}}
                 \cup {R(g, d, 12, 16, "c") : g \in Around(T(q.cm, 12)) \cup {T(q.wm, 16), T(q.wm, 16) + 1},
                                              d \in {0, 0 - 4, 0 - 8} \cup {B - v : v \in Around(T(q.lo, B))}}
                 \cup {R(g, 0 - d, B, B, "c") : g \in {T(q.cm, B) - 1, T(q.wm, B) + 1}, d \in LineOffs(q, B)}
                 \cup {R(0 - 20, 0, B, B, "c"), R(0 - 8, 0, B, B, "c"), R(0, 0, B, B, "s")}
\* four glyphs in a row: the thresholds only
LineMoves4(q) == {R(g, d, B, B, "c") : g \in {T(q.cm, B) - 1, T(q.cm, B), T(q.wm, B) + 1}, d \in {0, B - T(q.lo, B), B - T(q.lo, B) + 1}}
ParamsLineQ == {PR(<<1, 2>>, cm, wm, <<1, 2>>, <<1, 2>>, dv, FALSE) :
                  cm \in {<<2, 1>>, <<1, 2>>}, wm \in {<<1, 8>>, <<1, 2>>, <<0, 1>>}, dv \in BOOLEAN}
ParamsLineQH == {q \in ParamsLineQ : ~q.dv /\ (q.cm = <<2, 1>> \/ q.wm = <<1, 8>>)}
ParamsLineQV == {q \in ParamsLineQ : q.dv /\ q.cm = <<2, 1>> /\ q.wm # <<1, 2>>}
ParamsLineM == {PR(lo, cm, wm, <<1, 2>>, <<1, 2>>, dv, FALSE) :
                  lo \in {<<1, 2>>, <<1, 4>>}, cm \in {<<2, 1>>, <<1, 2>>}, wm \in {<<1, 8>>, <<1, 2>>, <<0, 1>>}, dv \in BOOLEAN}
ParamsLineT == {PR(lo, cm, wm, <<1, 2>>, <<1, 2>>, dv, FALSE) :
                  lo \in {<<1, 4>>, <<3, 4>>}, cm \in {<<2, 1>>, <<1, 2>>, <<1, 1>>},
                  wm \in {<<1, 8>>, <<1, 2>>, <<0, 1>>, <<1, 10>>}, dv \in BOOLEAN}
ParamsLine4 == {PR(<<1, 2>>, cm, <<1, 8>>, <<1, 2>>, <<1, 2>>, dv, FALSE) : cm \in {<<2, 1>>, <<1, 2>>}, dv \in BOOLEAN}
\* the library defaults, and every parameter at its extremes (one at a time)
Default(dv) == PR(<<1, 2>>, <<2, 1>>, <<1, 10>>, <<1, 2>>, <<1, 2>>, dv, FALSE)
ParamsExtreme ==
  LET d == Default(FALSE) IN
  {d, Default(TRUE), [d EXCEPT !.bf = None], [Default(TRUE) EXCEPT !.bf = None]}
  \cup {[d EXCEPT !.lo = x] : x \in {<<0, 1>>, <<0 - 1, 1>>, <<1, 1>>, <<2, 1>>}}
  \cup {[d EXCEPT !.lo = x, !.dv = TRUE] : x \in {<<0 - 1, 1>>, <<1, 1>>}}
  \cup {[d EXCEPT !.cm = x] : x \in {<<0, 1>>, <<0 - 1, 1>>, <<1000, 1>>}}
  \cup {[d EXCEPT !.wm = x] : x \in {<<0, 1>>, <<0 - 1, 1>>, <<1000, 1>>}}
  \cup {[d EXCEPT !.lm = x, !.bf = f] : x \in {<<0, 1>>, <<0 - 1, 1>>, <<1000, 1>>}, f \in {<<1, 2>>, None}}
  \cup {[d EXCEPT !.bf = x] : x \in {<<0 - 1, 1>>, <<1, 1>>, <<0, 1>>}}
  \* tiny positive margins (<<1, 1024>> stands for every positive value below one unit; the replay also runs 1e-9 and
  \* 2^-40, and 1e12, 1e15 and inf for <<1000, 1>>)
  \cup {[d EXCEPT !.cm = <<1, 1024>>], [d EXCEPT !.wm = <<1, 1024>>], [d EXCEPT !.lm = <<1, 1024>>],
        [d EXCEPT !.lm = <<1, 1024>>, !.bf = None], [d EXCEPT !.lm = <<1000, 1>>, !.dv = TRUE]}
\* a small space that takes every action of the machine (vacuity guard, run with -coverage)
ParamsCover == {[Default(TRUE) EXCEPT !.lm = <<1, 4>>], [Default(TRUE) EXCEPT !.lm = <<1, 4>>, !.bf = None, !.at = TRUE]}
\* moves for the extremes: a bit of everything, incl. other items, off-page and edge-straddling glyphs
MixMovesT(q) == {R(g, d, B, B, "c") : g \in {0 - 2, 1, 16, 17}, d \in {0, 5, 9}}
                \cup {R(2, 2, 4, 4, "c"), R(0 - 6, 2, 4, 4, "c"), R(0, 0, B, B, "s")}
                \cup {D(g, x, B, B, "c") : g \in {0, 4}, x \in {0, 8}}
                \* overlapping lines (leading smaller than the glyph height): at line_margin 0 they still join
                \cup {D(0 - 2, 0, B, B, "c"), D(0 - 1, 0, B, B, "c"), D(0 - 2, 1, B, B, "c")}
                \cup {C(8, 0, B, B, "c"), A(600, 600, B, B, "c"), A(508, 100, B, B, "c"), Other}
MixMovesQ(q) == {R(g, d, B, B, "c") : g \in {1, 16}, d \in {0, 5}}
                \cup {R(0 - 6, 2, 4, 4, "c"), R(0, 0, B, B, "s")}
                \cup {D(4, 0, B, B, "c"), D(0, 8, B, B, "c"), D(0 - 2, 0, B, B, "c")}
                \cup {C(8, 0, B, B, "c"), A(600, 600, B, B, "c"), A(508, 100, B, B, "c"), Other}

\* ------------------------------------------------------------------ boxes: find_neighbors
StackSizes(q) == LET d == T(q.lm, B) IN {<<B, B>>, <<B + 2 * d + 2, B>>, <<B, B + d>>, <<B, B + d + 1>>}
StackMovesT(q) == LET d == T(q.lm, B) IN
  {D(g, x, s[1], s[2], "c") : g \in Around(d) \cup {0 - 2}, x \in {0, B, 0 - d - 1} \cup Around(d), s \in StackSizes(q)}
  \cup {R(0, 0, B, B, "c")}
StackMovesQ(q) == LET d == T(q.lm, B) IN
  {D(g, x, s[1], s[2], "c") : g \in {d - 1, d}, x \in {0, d, d + 1}, s \in {<<B, B>>, <<B, B + d + 1>>}}
  \cup {R(0, 0, B, B, "c")}
ParamsStack == {PR(<<1, 2>>, <<2, 1>>, <<1, 8>>, lm, bf, FALSE, FALSE) :
                  lm \in {<<1, 2>>, <<1, 4>>, <<1, 1>>}, bf \in {<<1, 2>>, None}}
ParamsStack3 == {q \in ParamsStack : q.bf = <<1, 2>>}
ParamsStackV == {PR(<<1, 2>>, <<2, 1>>, <<1, 8>>, lm, bf, TRUE, FALSE) :
                  lm \in {<<1, 2>>, <<1, 4>>}, bf \in {<<1, 2>>, None}}

\* ------------------------------------------------------------------ columns: group_textboxes, ordering
ColMovesQ(q) == {D(4, 0, B, B, "c"), D(8, 0, B, B, "c"), D(4, 0, 2 * B, B, "c")}
                \cup {C(g, d, B, B, "c") : g \in {4, 12}, d \in {0, 0 - 4}}
ColMovesT(q) == {D(g, 0, w, B, "c") : g \in {4, 8, 12}, w \in {B, 2 * B}}
                \cup {C(g, d, w, B, "c") : g \in {4, 8, 16}, d \in {0, 0 - 4, 4}, w \in {B, 2 * B}}
ParamsCols == {PR(<<1, 2>>, <<2, 1>>, <<1, 8>>, <<1, 4>>, bf, FALSE, FALSE) :
                 bf \in {<<0 - 1, 1>>, <<0 - 1, 2>>, <<0, 1>>, <<1, 2>>, <<1, 1>>, None}}
ParamsCols3 == {q \in ParamsCols : q.bf \in {<<1, 2>>, None}}
ParamsColsV == {PR(<<1, 2>>, <<2, 1>>, <<1, 8>>, <<1, 4>>, bf, TRUE, FALSE) : bf \in {<<0 - 1, 2>>, <<1, 2>>, None}}

\* ------------------------------------------------------------------ figures (all_texts) on a small space
ParamsFig == {PR(<<1, 2>>, <<2, 1>>, <<1, 8>>, <<1, 2>>, bf, FALSE, at) : bf \in {<<1, 2>>, None}, at \in BOOLEAN}
FigMoves(q) == {R(g, 0, B, B, "c") : g \in {0, 2, 17}} \cup {D(g, 0, B, B, "c") : g \in {3, 4}} \cup {Other, R(0, 0, B, B, "s")}

\* ------------------------------------------------------------------ simulation: two columns x paragraphs, <= 9 glyphs
ParamsSim == {PR(lo, cm, wm, lm, bf, dv, FALSE) :
                lo \in {<<1, 2>>, <<1, 4>>}, cm \in {<<2, 1>>, <<1, 2>>}, wm \in {<<1, 8>>, <<1, 10>>, <<1, 2>>},
                lm \in {<<1, 2>>, <<1, 4>>}, bf \in {<<0 - 1, 2>>, <<0, 1>>, <<1, 2>>, <<1, 1>>, None}, dv \in BOOLEAN}
SimMoves(q) == LineMovesQ(q) \cup StackMovesQ(q) \cup ColMovesQ(q)
               \cup {D(g, 0, B, B, "c") : g \in {8, 12, 16}} \cup {R(0, 0, B, B, "c"), R(1, 0, B, B, "c"), Other}

CoverMoves(q) == MixMovesQ(q) \cup ColMovesQ(q)
\* ------------------------------------------------------------------ nested extents inside one box
\* a tall line and, not consecutive in the content (a glyph far below comes between), a shorter line printed over it
\* whose vertical extent lies inside the tall one's (also: same top, same bottom, narrower).  Two glyphs per line and
\* transposition give the same for vertical boxes (x-extents nested, right-to-left rule).
FirstNest(q) == {[m |-> "A", bb |-> <<376, 388, 384, 400>>, t |-> "c"]}
NestMoves(q) == {R(0, 0, B, 12, "c"), R(0, 0, B, B, "c"), D(40, 0, B, B, "c"),
                 C(0 - 16, 0 - 2, B, B, "c"), C(0 - 8, 0 - 2, 6, B, "c")}
NestMovesT(q) == NestMoves(q) \cup {C(0 - 8, 0 - 2, B, B, "c"), C(0 - 8, 0, B, B, "c"), C(0 - 8, 0 - 4, B, B, "c"), C(0 - 16, 0 - 1, B, 10, "c")}
ParamsNest == {[Default(FALSE) EXCEPT !.bf = None], Default(TRUE)}
ParamsNestT == {Default(FALSE), [Default(FALSE) EXCEPT !.bf = None], Default(TRUE), [Default(TRUE) EXCEPT !.bf = None],
                [Default(FALSE) EXCEPT !.lm = <<1, 1>>]}
\* ------------------------------------------------------------------ degenerate first members
\* a line whose first glyph has no width (advance 0: combining mark) or no height and lies outside the glyphs that follow
FirstDegen(q) == {[m |-> "A", bb |-> <<376, 392, 376, 400>>, t |-> "c"], [m |-> "A", bb |-> <<376, 396, 384, 396>>, t |-> "c"],
                  [m |-> "A", bb |-> <<376, 392, 384, 400>>, t |-> "c"],
                  \* no width and no height (font size 0); a page whose only glyphs are blank
                  [m |-> "A", bb |-> <<376, 392, 376, 392>>, t |-> "c"], [m |-> "A", bb |-> <<376, 392, 384, 400>>, t |-> "s"]}
DegenMoves(q) == {R(3, 0, B, B, "c"), R(3, 0 - 4, B, B, "c"), R(0, 0, B, B, "c"), R(3, 0, 0, B, "c"), R(3, 4, B, 0, "c"),
                  D(3, 0, B, B, "c"), D(3, 0 - 3, 0, B, "c"),
                  \* blanks (realised also as line feed / carriage return glyphs): last glyph of a line, a line of their own
                  R(0, 0, B, B, "s"), D(3, 0, B, B, "s"), D(40, 0, B, B, "s"), R(0, 0, B, B, "e"),
                  \* a glyph without width and height, after a gap (word-space test on a zero-size glyph) and on its own
                  R(3, 0, 0, 0, "c"), R(0, 4, 0, 0, "c"), D(3, 0, 0, 0, "c")}
ParamsDegenT == {Default(FALSE), Default(TRUE), [Default(FALSE) EXCEPT !.bf = None]}
ParamsDegen == {Default(TRUE), [Default(FALSE) EXCEPT !.bf = None]}
\* ------------------------------------------------------------------ word spaces in front of glyphs wider than tall
\* (taller than wide in vertical lines, by transposition): gaps around BOTH word_margin * width and word_margin * height,
\* so that "relative to the larger of width and height" is told from "relative to the height / size / width"
FirstWide(q) == {[m |-> "A", bb |-> <<376, 392, 384, 400>>, t |-> "c"], [m |-> "A", bb |-> <<368, 392, 384, 400>>, t |-> "c"]}
WideMoves(q) == {R(g, 0, w, B, "c") : g \in Around(T(q.wm, 2 * B)) \cup Around(T(q.wm, B)), w \in {B, 2 * B}}
                \cup {R(g, 0, 3 * B, 12, "c") : g \in Around(T(q.wm, 3 * B)) \cup Around(T(q.wm, 12))}
WideMovesQ(q) == {R(g, 0, w, B, "c") : g \in Around(T(q.wm, 2 * B)) \cup Around(T(q.wm, B)), w \in {B, 2 * B}}
ParamsWideQ == {PR(<<1, 2>>, <<2, 1>>, wm, <<1, 2>>, <<1, 2>>, dv, FALSE) : wm \in {<<1, 2>>, <<1, 10>>}, dv \in BOOLEAN}
ParamsWide == {PR(<<1, 2>>, <<2, 1>>, wm, <<1, 2>>, <<1, 2>>, dv, FALSE) : wm \in {<<1, 8>>, <<1, 2>>, <<1, 10>>, <<3, 4>>}, dv \in BOOLEAN}
\* ------------------------------------------------------------------ columns of vertical writing: find_neighbors of vertical lines
\* built as rows and transposed (detect_vertical on): a long line (two glyphs 12 wide) and a short one (two glyphs 8 wide)
\* one unit apart (line_margin 1/4: d = 2), the short one placed so that the two are aligned at the start (0), at the
\* end (8), only in the middle (3, 4, 5), around the thresholds (2, 6) or not at all (-3, 11).  Transposed this is a
\* short column beside a long one, aligned at the top / bottom / centre only / not at all.
FirstVCol(q) == {[m |-> "A", bb |-> <<376, 392, 388, 400>>, t |-> "c"]}
VColMovesQ(q) == {R(0, 0, 12, B, "c"), R(0, 0, B, B, "c")} \cup {D(1, x, B, B, "c") : x \in {0, 8, 4, 0 - 3}}
VColMovesT(q) == {R(0, 0, 12, B, "c"), R(0, 0, B, B, "c")}
                 \cup {D(g, x, B, B, "c") : g \in {0, 1, 2}, x \in {0, 8, 2, 3, 4, 5, 6, 7, 0 - 3, 11}}
ParamsVCol == {PR(<<1, 2>>, <<2, 1>>, <<1, 8>>, <<1, 4>>, bf, TRUE, FALSE) : bf \in {<<1, 2>>, None}}
NoDev == {}
PageOnly == {"page"}
PageAndFigure == {"page", "figure"}
NoTr == {FALSE}
BothTr == {FALSE, TRUE}
PG512 == <<0, 0, 512, 512>>
Scales28 == {2, 8}
Scales2864 == {2, 8, 64}
Scales864 == {8, 64}
\* the smallest space that shows GridOrderTies: two overprinted glyphs (two lines with the same box when vertical
\* detection is on) and a third line below; the grid separates them at scale 64 only
ParamsOver == {Default(TRUE)}
OverMoves(q) == {R(0 - 8, 0, B, B, "c"), D(3, 4, B, B, "c")}
=============================================================================
