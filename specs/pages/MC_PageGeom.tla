---------------------------- MODULE MC_PageGeom ----------------------------
EXTENDS PageGeom
\* constant sets that the cfg syntax cannot express (negative numbers, tuples)
XsSmall == {-1, 0, 2}
YsSmall == {-2, 0, 1}
XsFull  == -2..2
YsFull  == -2..2
OrdersAll == {"llur", "urll", "ullr", "lrul"}
Quarters  == {90 * k : k \in -9..9}
Oblique   == {1, 45, 89, 91, 179, 181, 269, 271, 359, 361, -1, -45, -89, -91, -359, -361, 3599, -3601}
RotatesSmall == Quarters \cup {1, 45, 91, -45, 359, 361, -361}
RotatesFull  == {90 * k : k \in -12..12} \cup Oblique
MarksSmall == {<<1, 1>>, <<0, 2>>}
MarksFull  == {<<0, 0>>, <<1, 1>>, <<0, 2>>}
NoDev == {}
\* Rotate spellings, UserUnit values and CropBox placements
IntOnly == {"int"}
BothForms == {"int", "real"}
NoUnit == {1}
Units == {1, 2}
NoCrop == {"absent"}
NoRotation == {0}
RotationArgs == {0, 90, 180, 270, 360, 450, -90}
RotatesPlain == {0, 90, 180, 270, -90, 450}
XsOff == {-1, 2}
AllCrops == {"absent", "inside", "inside-urll", "outside"}
XsTwo == {0, 2}
YsOne == {-1}
RotatesFew == {0, 90, -90, 180, 450}
OrdersPlain == {"llur"}
MarksOne == {<<1, 1>>}
=============================================================================
