------------------------------ MODULE PageGeom ------------------------------
(***************************************************************************)
(* C04, geometry part: from the page's MediaBox and Rotate entries to the  *)
(* page coordinate system.  One action per code step:                      *)
(*   AParseBox     PDFPage._parse_mediabox / utils.parse_rect              *)
(*   AParseRotate  PDFPage.__init__:  (int_value(Rotate) + 360) % 360      *)
(*   AAddRotation  high_level.extract_text_to_fp: the `rotation` argument  *)
(*                 is added to the page's Rotate, modulo 360               *)
(*   ACtm90 / ACtm180 / ACtm270 / ACtmElse                                 *)
(*                 the four branches of PDFPageInterpreter.process_page    *)
(*   ABeginPage    PDFLayoutAnalyzer.begin_page (apply_matrix_rect, abs)   *)
(*   ARenderMark   a marker drawn at a user-space point of the page goes   *)
(*                 through the CTM (LTChar.matrix of a glyph shown there)  *)
(* Coordinates are integers in an arbitrary unit (the replay scales them). *)
(*                                                                         *)
(* Reference (ISO 32000-1 7.9.5 rectangles, 7.7.3.3 Rotate "the number of  *)
(* degrees by which the page shall be rotated clockwise when displayed",   *)
(* a multiple of 90): a rectangle is any two diagonally opposite corners;  *)
(* turning the page clockwise by a quarter turn sends the point (x, y) of  *)
(* a W x H page (origin at its lower-left corner) to (y, W - x) on a       *)
(* H x W page.                                                             *)
(*                                                                         *)
(* Named deviation:  BoxAsWritten - the MediaBox array is used as written; *)
(* when it names its corners in another order than lower-left, upper-right *)
(* the box does not land on the (0,0)-origin page.                         *)
(***************************************************************************)
EXTENDS PageGeomOps, TLC, Json

CONSTANTS Xs, Ys,       \* coordinates of the lower-left corner
          Ws, Hs,       \* widths and heights (> 0)
          Orders,       \* which corners the array names: "llur" "urll" "ullr" "lrul"
          Rotates,      \* values of /Rotate as written (any integer)
          Marks,        \* marker positions <<dx, dy>> relative to the lower-left corner
          RForms,       \* how /Rotate is written: "int", or "real" (90.0 - not allowed by ISO 32000-1 table 30)
          UserUnits,    \* /UserUnit values (1 = absent); nothing below reads it
          Crops,        \* /CropBox: "absent", "inside", "outside" (reaching beyond the MediaBox), "inside-urll"
          Rotations,    \* the `rotation` argument of high_level.extract_text_to_fp (0 = the other entry points)
          Dev

VARIABLES boxw, rraw, pt,                    \* input: MediaBox as written, Rotate as written, marker point
          rform, uu, cropw,                  \* input: spelling of Rotate, UserUnit, CropBox as written (<<>> = absent)
          rotation,                          \* input: extract_text_to_fp(rotation=...)
          pc, mediabox, cropbox, rotate, ctm, bbox, mpt, fired
vars == <<boxw, rraw, pt, rform, uu, cropw, rotation, pc, mediabox, cropbox, rotate, ctm, bbox, mpt, fired>>

Written(x, y, w, h, o) ==
  CASE o = "llur" -> <<x, y, x + w, y + h>>
    [] o = "urll" -> <<x + w, y + h, x, y>>
    [] o = "ullr" -> <<x, y + h, x + w, y>>
    [] o = "lrul" -> <<x + w, y, x, y + h>>

CropWritten(x, y, w, h, c) ==
  CASE c = "absent" -> <<>>
    [] c = "inside" -> <<x, y, x + 1, y + 1>>
    [] c = "inside-urll" -> <<x + 1, y + 1, x, y>>
    [] c = "outside" -> <<x - 1, y, x + w + 1, y + 1>>

Init == /\ \E x \in Xs, y \in Ys, w \in Ws, h \in Hs, o \in Orders, m \in Marks, c \in Crops :
             /\ boxw = Written(x, y, w, h, o)
             /\ pt = <<x + m[1], y + m[2]>>
             /\ cropw = CropWritten(x, y, w, h, c)
        /\ rraw \in Rotates /\ rform \in RForms /\ uu \in UserUnits /\ rotation \in Rotations
        /\ pc = "box" /\ mediabox = <<>> /\ cropbox = <<>> /\ rotate = -1 /\ ctm = <<>> /\ bbox = <<>> /\ mpt = <<>> /\ fired = {}

InSame == UNCHANGED <<boxw, rraw, pt, rform, uu, cropw, rotation>>

AParseBox ==
  /\ pc = "box"
  /\ IF "BoxAsWritten" \in Dev
       THEN mediabox' = boxw /\ fired' = IF boxw # Norm(boxw) THEN fired \cup {"BoxAsWritten"} ELSE fired
       ELSE mediabox' = Norm(boxw) /\ fired' = fired
  /\ pc' = "crop" /\ UNCHANGED <<cropbox, rotate, ctm, bbox, mpt>> /\ InSame

\* PDFPage._parse_cropbox: the MediaBox when absent; otherwise the array (normalised), as it is - not clipped
AParseCrop ==
  /\ pc = "crop"
  /\ cropbox' = IF cropw = <<>> THEN mediabox ELSE IF "BoxAsWritten" \in Dev THEN cropw ELSE Norm(cropw)
  /\ fired' = IF cropw # <<>> /\ Intersect(Norm(cropw), Norm(boxw)) # Norm(cropw) THEN fired \cup {"CropNotClipped"} ELSE fired
  /\ pc' = "rotate" /\ UNCHANGED <<mediabox, rotate, ctm, bbox, mpt>> /\ InSame

\* int_value(Rotate): a real number is not an int - 0 when not STRICT
AParseRotate ==
  /\ pc = "rotate"
  /\ IF rform = "real" /\ "RealRotateIgnored" \in Dev
       THEN rotate' = RotNorm(0) /\ fired' = IF RotNorm(rraw) # 0 THEN fired \cup {"RealRotateIgnored"} ELSE fired
       ELSE rotate' = RotNorm(rraw) /\ fired' = fired
  /\ pc' = "rotation" /\ UNCHANGED <<mediabox, cropbox, ctm, bbox, mpt>> /\ InSame

\* high_level.extract_text_to_fp:  page.rotate = (page.rotate + rotation) % 360   (the other entry points: rotation = 0)
AAddRotation ==
  /\ pc = "rotation"
  /\ rotate' = (rotate + rotation) % 360
  /\ pc' = "ctm" /\ UNCHANGED <<mediabox, cropbox, ctm, bbox, mpt, fired>> /\ InSame

SetCtm(m) == ctm' = m /\ pc' = "begin" /\ UNCHANGED <<mediabox, cropbox, rotate, bbox, mpt, fired>> /\ InSame
ACtm90   == pc = "ctm" /\ rotate = 90  /\ SetCtm(Ctm90(mediabox))
ACtm180  == pc = "ctm" /\ rotate = 180 /\ SetCtm(Ctm180(mediabox))
ACtm270  == pc = "ctm" /\ rotate = 270 /\ SetCtm(Ctm270(mediabox))
ACtmElse == pc = "ctm" /\ rotate \notin {90, 180, 270} /\ SetCtm(CtmElse(mediabox))

ABeginPage ==
  /\ pc = "begin"
  /\ bbox' = BeginBox(ctm, mediabox)
  /\ pc' = "mark" /\ UNCHANGED <<mediabox, cropbox, rotate, ctm, mpt, fired>> /\ InSame

ARenderMark ==
  /\ pc = "mark"
  /\ mpt' = ApplyPt(ctm, pt)
  /\ pc' = "done" /\ UNCHANGED <<mediabox, cropbox, rotate, ctm, bbox, fired>> /\ InSame

Finished == pc = "done" /\ UNCHANGED vars
Next == AParseBox \/ AParseCrop \/ AParseRotate \/ AAddRotation \/ ACtm90 \/ ACtm180 \/ ACtm270 \/ ACtmElse \/ ABeginPage \/ ARenderMark \/ Finished
Spec == Init /\ [][Next]_vars

\* ================================================================== the property (C04, geometry part)
\* Rotate reduced to 0..359: the unique representative of its residue class
\* (a Rotate written as a real number is outside the standard: only the range is claimed for it)
\* with extract_text_to_fp(rotation=r) the page is laid out like a document that carries (Rotate + r) mod 360
RefRot == RotNorm(rraw + rotation)
RotateRange == (pc \notin {"box", "crop", "rotate", "rotation"}) =>
                 /\ rotate \in 0..359
                 /\ "RealRotateIgnored" \notin fired => \E q \in -100..100 : rraw + rotation = rotate + 360 * q

NB == Norm(boxw)
W  == NB[3] - NB[1]
H  == NB[4] - NB[2]
Rel(p) == <<p[1] - NB[1], p[2] - NB[2]>>
Quarter == RefRot \div 90
Page == IF Quarter % 2 = 1 THEN <<0, 0, H, W>> ELSE <<0, 0, W, H>>

\* the linear part a glyph matrix must show: the images of the unit vectors under the quarter turns
RefLin == LET o == Turn(Quarter, <<0, 0>>, W, H)  x == Turn(Quarter, <<1, 0>>, W, H)  y == Turn(Quarter, <<0, 1>>, W, H)
          IN <<x[1] - o[1], x[2] - o[2], y[1] - o[1], y[2] - o[2]>>

\* the MediaBox lands on the (0,0)-origin page turned clockwise by Rotate: the page box, each corner, the marker
Lands ==
  /\ bbox = Page
  /\ ApplyRect(ctm, NB) = Page
  /\ \A c \in {<<NB[1], NB[2]>>, <<NB[3], NB[2]>>, <<NB[3], NB[4]>>, <<NB[1], NB[4]>>} :
        ApplyPt(ctm, c) = Turn(Quarter, Rel(c), W, H)
  /\ mpt = Turn(Quarter, Rel(pt), W, H)
  /\ <<ctm[1], ctm[2], ctm[3], ctm[4]>> = RefLin
Applies == pc = "done" /\ RefRot % 90 = 0      \* Rotate "shall be a multiple of 90"; otherwise only RotateRange is claimed
BoxLands == (Applies /\ fired \subseteq {"CropNotClipped"}) => Lands

\* ---- around the property (extended coverage; none of this is in C04's statement)
\* the crop box: the MediaBox when absent; never reaching beyond the MediaBox (ISO 32000-1 14.11.2: a crop box that
\* does is "effectively reduced to [its] intersection with the media box")
RefCrop == IF cropw = <<>> THEN NB ELSE Intersect(Norm(cropw), NB)
CropRef == (pc = "done" /\ fired \cap {"CropNotClipped", "BoxAsWritten"} = {}) => cropbox = RefCrop
\* begin_page builds the page from the MediaBox alone: neither CropBox nor UserUnit enters the matrix or the page box
PageFromMediaBox == pc = "done" => (ctm = CtmFor(rotate, mediabox) /\ bbox = BeginBox(ctm, mediabox))

EmitTerminal ==
  pc = "done" => PrintT("@@" \o ToJson([boxw |-> boxw, rraw |-> rraw, pt |-> pt, mediabox |-> mediabox,
                                        rform |-> rform, uu |-> uu, cropw |-> cropw, rotation |-> rotation, cropbox |-> cropbox, refcrop |-> RefCrop,
                                        refrot |-> RefRot, rotate |-> rotate, ctm |-> ctm, bbox |-> bbox, mpt |-> mpt,
                                        fired |-> fired, applies |-> Applies, lands |-> (Applies /\ Lands),
                                        page |-> Page, reflin |-> IF Applies THEN RefLin ELSE <<>>, refpt |-> IF Applies THEN Turn(Quarter, Rel(pt), W, H) ELSE <<>>]))
=============================================================================
