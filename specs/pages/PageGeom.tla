------------------------------ MODULE PageGeom ------------------------------
(***************************************************************************)
(* C04, geometry part: from the page's MediaBox and Rotate entries to the  *)
(* page coordinate system.  One action per code step:                      *)
(*   AParseBox     PDFPage._parse_mediabox / utils.parse_rect              *)
(*   AParseRotate  PDFPage.__init__:  (int_value(Rotate) + 360) % 360      *)
(*   ACtm90 / ACtm180 / ACtm270 / ACtmElse                                 *)
(*                 the four branches of PDFPageInterpreter.process_page    *)
(*   ABeginPage    PDFLayoutAnalyzer.begin_page (apply_matrix_rect, abs)   *)
(*   ARenderMark   a marker drawn at a user-space point of the page goes   *)
(*                 through the CTM (LTChar.matrix of a glyph shown there)  *)
(* Coordinates are integers in an arbitrary unit (the replay scales them). *)
(*                                                                         *)
(* Reference (ISO 32000-1 7.9.5 rectangles, 7.7.3.3 Rotate "the number of  *)
(* degrees by which the page shall be rotated clockwise when displayed",   *)
(* a multiple of 90): a rectangle is any two diagonally opposite corners;  *)
(* turning the page clockwise by a quarter turn sends the point (x, y) of  *)
(* a W x H page (origin at its lower-left corner) to (y, W - x) on a       *)
(* H x W page.                                                             *)
(*                                                                         *)
(* Named deviation:  BoxAsWritten - the MediaBox array is used as written; *)
(* when it names its corners in another order than lower-left, upper-right *)
(* the box does not land on the (0,0)-origin page.                         *)
(***************************************************************************)
EXTENDS PageGeomOps, TLC, Json

CONSTANTS Xs, Ys,       \* coordinates of the lower-left corner
          Ws, Hs,       \* widths and heights (> 0)
          Orders,       \* which corners the array names: "llur" "urll" "ullr" "lrul"
          Rotates,      \* values of /Rotate as written (any integer)
          Marks,        \* marker positions <<dx, dy>> relative to the lower-left corner
          Dev

VARIABLES boxw, rraw, pt,                    \* input: MediaBox as written, Rotate as written, marker point
          pc, mediabox, rotate, ctm, bbox, mpt, fired
vars == <<boxw, rraw, pt, pc, mediabox, rotate, ctm, bbox, mpt, fired>>

Written(x, y, w, h, o) ==
  CASE o = "llur" -> <<x, y, x + w, y + h>>
    [] o = "urll" -> <<x + w, y + h, x, y>>
    [] o = "ullr" -> <<x, y + h, x + w, y>>
    [] o = "lrul" -> <<x + w, y, x, y + h>>

Init == /\ \E x \in Xs, y \in Ys, w \in Ws, h \in Hs, o \in Orders, m \in Marks :
             /\ boxw = Written(x, y, w, h, o)
             /\ pt = <<x + m[1], y + m[2]>>
        /\ rraw \in Rotates
        /\ pc = "box" /\ mediabox = <<>> /\ rotate = -1 /\ ctm = <<>> /\ bbox = <<>> /\ mpt = <<>> /\ fired = {}

InSame == UNCHANGED <<boxw, rraw, pt>>

AParseBox ==
  /\ pc = "box"
  /\ IF "BoxAsWritten" \in Dev
       THEN mediabox' = boxw /\ fired' = IF boxw # Norm(boxw) THEN fired \cup {"BoxAsWritten"} ELSE fired
       ELSE mediabox' = Norm(boxw) /\ fired' = fired
  /\ pc' = "rotate" /\ UNCHANGED <<rotate, ctm, bbox, mpt>> /\ InSame

AParseRotate ==
  /\ pc = "rotate"
  /\ rotate' = RotNorm(rraw)
  /\ pc' = "ctm" /\ UNCHANGED <<mediabox, ctm, bbox, mpt, fired>> /\ InSame

SetCtm(m) == ctm' = m /\ pc' = "begin" /\ UNCHANGED <<mediabox, rotate, bbox, mpt, fired>> /\ InSame
ACtm90   == pc = "ctm" /\ rotate = 90  /\ SetCtm(Ctm90(mediabox))
ACtm180  == pc = "ctm" /\ rotate = 180 /\ SetCtm(Ctm180(mediabox))
ACtm270  == pc = "ctm" /\ rotate = 270 /\ SetCtm(Ctm270(mediabox))
ACtmElse == pc = "ctm" /\ rotate \notin {90, 180, 270} /\ SetCtm(CtmElse(mediabox))

ABeginPage ==
  /\ pc = "begin"
  /\ bbox' = BeginBox(ctm, mediabox)
  /\ pc' = "mark" /\ UNCHANGED <<mediabox, rotate, ctm, mpt, fired>> /\ InSame

ARenderMark ==
  /\ pc = "mark"
  /\ mpt' = ApplyPt(ctm, pt)
  /\ pc' = "done" /\ UNCHANGED <<mediabox, rotate, ctm, bbox, fired>> /\ InSame

Finished == pc = "done" /\ UNCHANGED vars
Next == AParseBox \/ AParseRotate \/ ACtm90 \/ ACtm180 \/ ACtm270 \/ ACtmElse \/ ABeginPage \/ ARenderMark \/ Finished
Spec == Init /\ [][Next]_vars

\* ================================================================== the property (C04, geometry part)
\* Rotate reduced to 0..359: the unique representative of its residue class
RotateRange == (pc \notin {"box", "rotate"}) =>
                 /\ rotate \in 0..359
                 /\ \E q \in -100..100 : rraw = rotate + 360 * q

NB == Norm(boxw)
W  == NB[3] - NB[1]
H  == NB[4] - NB[2]
Rel(p) == <<p[1] - NB[1], p[2] - NB[2]>>
Quarter == rotate \div 90
Page == IF Quarter % 2 = 1 THEN <<0, 0, H, W>> ELSE <<0, 0, W, H>>

\* the linear part a glyph matrix must show: the images of the unit vectors under the quarter turns
RefLin == LET o == Turn(Quarter, <<0, 0>>, W, H)  x == Turn(Quarter, <<1, 0>>, W, H)  y == Turn(Quarter, <<0, 1>>, W, H)
          IN <<x[1] - o[1], x[2] - o[2], y[1] - o[1], y[2] - o[2]>>

\* the MediaBox lands on the (0,0)-origin page turned clockwise by Rotate: the page box, each corner, the marker
Lands ==
  /\ bbox = Page
  /\ ApplyRect(ctm, NB) = Page
  /\ \A c \in {<<NB[1], NB[2]>>, <<NB[3], NB[2]>>, <<NB[3], NB[4]>>, <<NB[1], NB[4]>>} :
        ApplyPt(ctm, c) = Turn(Quarter, Rel(c), W, H)
  /\ mpt = Turn(Quarter, Rel(pt), W, H)
  /\ <<ctm[1], ctm[2], ctm[3], ctm[4]>> = RefLin
Applies == pc = "done" /\ rotate % 90 = 0      \* Rotate "shall be a multiple of 90"; otherwise only RotateRange is claimed
BoxLands == (Applies /\ fired = {}) => Lands

EmitTerminal ==
  pc = "done" => PrintT("@@" \o ToJson([boxw |-> boxw, rraw |-> rraw, pt |-> pt, mediabox |-> mediabox,
                                        rotate |-> rotate, ctm |-> ctm, bbox |-> bbox, mpt |-> mpt,
                                        fired |-> fired, applies |-> Applies, lands |-> (Applies /\ Lands),
                                        page |-> Page, reflin |-> IF Applies THEN RefLin ELSE <<>>, refpt |-> IF Applies THEN Turn(Quarter, Rel(pt), W, H) ELSE <<>>]))
=============================================================================
