---------------------------- MODULE MC_PageTree ----------------------------
EXTENDS PageTree
\* constant sets that the cfg syntax cannot express
PN_None == {{}}                       \* page_numbers falsy: all pages
PN_Sub3 == SUBSET (0..2)
PN_Sub5 == SUBSET (0..4)
PN_Sub6 == SUBSET (0..5)
PN_Few  == {{}, {1}, {0, 2}, {3}}
NoDev == {}
NoAttrs == {}
AllOwnSets == SUBSET Attrs
\* all four attributes on larger graphs: a node carries none, one, or all of them
FewOwnSets == {{}} \cup {{a} : a \in Attrs} \cup {Attrs}
\* ... or: none, the two boxes-and-resources kinds, the two others, all four
PairOwnSets == {{}, {"Resources", "MediaBox"}, {"CropBox", "Rotate"}, Attrs}
=============================================================================
