------------------------------ MODULE PageTree ------------------------------
(***************************************************************************)
(* C04: PDFPage.create_pages (the depth-first walk with its visited set    *)
(* and the inheritance copy) feeding PDFPage.get_pages (page_numbers /     *)
(* maxpages), over every document graph up to N nodes.                     *)
(*                                                                         *)
(* The document is revealed as the walk reads it: a node's dictionary is   *)
(* chosen (AReveal) when the walk first resolves a reference to it, a      *)
(* /Kids entry is chosen (ALoopKid) when the loop reaches it - either an   *)
(* object already seen (repeat, self reference, cycle) or a new one.  The  *)
(* walk never reads anything before it is chosen, so complete behaviours   *)
(* correspond one to one to the reachable document graphs, each labelled   *)
(* in discovery order exactly once (no isomorphic duplicates).  When       *)
(* get_pages stops early (maxpages) the code abandons the generator; the   *)
(* model lets the walk run on ("draining", broke = TRUE) so that the rest  *)
(* of the document - the pages that must NOT be yielded - exists in the    *)
(* realised file, and `produced` is what a full create_pages gives.        *)
(*                                                                         *)
(* Named deviations of the code from the intended design (Dev):            *)
(*   ContinueSkipsMax  the `continue` taken for an unselected page skips   *)
(*                     the maxpages test                                   *)
(*   CatalogInherits   the walk starts with the catalog dictionary as      *)
(*                     "parent", so Resources/MediaBox/CropBox/Rotate      *)
(*                     written in the catalog are inherited by the pages   *)
(* `fired` records the deviations actually exercised in a behaviour; every *)
(* property clause is stated as  fired = {} => clause, so with Dev = {}    *)
(* the clauses hold outright, and with the as-coded Dev every failure is   *)
(* pinned to a named deviation.                                            *)
(***************************************************************************)
EXTENDS PageTreeOps, TLC, Json

CONSTANTS N,            \* at most N nodes
          K,            \* at most K /Kids entries per node
          E,            \* at most E /Kids entries in the whole document
          Attrs,        \* page attribute kinds in play (Resources, MediaBox, CropBox, Rotate; Annots)
          Inheritable,  \* those of them that PDFPage.INHERITABLE_ATTRS lists (Annots is not inherited)
          OwnSets,      \* the sets of kinds a node's own dictionary may carry (SUBSET Attrs: all placements)
          CatAttrs,     \* attribute kinds the catalog may carry
          RootKinds,    \* kinds the object behind catalog /Pages may have
          Kinds,        \* kinds of the other nodes
          AllowBack,    \* may a /Kids entry point at an object already seen (repeats, cycles)?
          PageNoSets,   \* the page_numbers arguments tried ({} = falsy = all pages)
          MaxPagesSet,  \* the maxpages arguments tried (0 = no limit)
          Dev

VARIABLES g, cat, pagenos, maxpages,     \* the input
          stack, visited, call, pc,      \* depth_first_search: frames [node, props, idx], visited set, pending call
          produced,                      \* pages produced by create_pages: <<[node, props]>>
          yielded, broke, fired,         \* get_pages: zero-based indices yielded; loop left by `break`
          ylabs                          \* the label index each yielded page carries (PDFPage.label)
vars == <<g, cat, pagenos, maxpages, stack, visited, call, pc, produced, yielded, broke, fired, ylabs>>

NoProps == [a \in Attrs |-> NONE]
RootParent(c) == IF "CatalogInherits" \in Dev THEN [a \in Attrs |-> IF a \in c THEN CAT ELSE NONE] ELSE NoProps

Init == /\ g = <<>>
        /\ cat \in SUBSET CatAttrs
        /\ pagenos \in PageNoSets
        /\ maxpages \in MaxPagesSet
        /\ stack = <<>> /\ visited = {}
        /\ call = [t |-> 0, pp |-> RootParent(cat)]     \* depth_first_search(catalog["Pages"], catalog)
        /\ pc = "call"
        /\ produced = <<>> /\ yielded = <<>> /\ broke = FALSE /\ ylabs = <<>>
        /\ fired = IF cat # {} /\ "CatalogInherits" \in Dev THEN {"CatalogInherits"} ELSE {}

Top        == stack[Len(stack)]
Resume(st) == IF st = <<>> THEN "done" ELSE "loop"
InputSame  == UNCHANGED <<cat, pagenos, maxpages>>

\* ---------------------------------------------------------------- the document is read
Min(a, b) == IF a < b THEN a ELSE b
RECURSIVE SumNk(_)
SumNk(gr) == IF gr = <<>> THEN 0 ELSE Head(gr).nk + SumNk(Tail(gr))
UsedSlots == SumNk(g)
\* a reference to an object not seen before is resolved: its dictionary is chosen (and the /Kids entry of the
\* node whose loop made the call now has a label to point at)
AReveal ==
  /\ pc = "call" /\ call.t = 0
  /\ \E kind \in (IF g = <<>> THEN RootKinds ELSE Kinds) :
       \E own \in (IF kind = "Other" THEN {{}} ELSE OwnSets),    \* nothing is ever read from an "Other" node
          nk \in (IF kind = "Pages" THEN 0..Min(K, E - UsedSlots) ELSE {0}) :
         LET new == [kind |-> kind, own |-> own, nk |-> nk, kids |-> <<>>]
             old == IF stack = <<>> THEN g ELSE [g EXCEPT ![Top.node].kids = Append(@, Len(g) + 1)]
         IN g' = Append(old, new)
  /\ call' = [call EXCEPT !.t = Len(g) + 1]
  /\ UNCHANGED <<stack, visited, pc, produced, yielded, broke, fired, ylabs>> /\ InputSame

\* ---------------------------------------------------------------- depth_first_search
\* `if object_id in visited: return`
ASkipVisited ==
  /\ pc = "call" /\ call.t # 0 /\ call.t \in visited
  /\ pc' = Resume(stack)
  /\ UNCHANGED <<g, stack, visited, call, produced, yielded, broke, fired, ylabs>> /\ InputSame

Entering(kind) == pc = "call" /\ call.t # 0 /\ call.t \notin visited /\ g[call.t].kind = kind
Props == Inherit(call.t, g[call.t].own, call.pp, Attrs, Inheritable)

\* Type Pages: visited.add, inheritance copy, start the Kids loop
AEnterPages ==
  /\ Entering("Pages")
  /\ visited' = visited \cup {call.t}
  /\ stack' = Append(stack, [node |-> call.t, props |-> Props, idx |-> 0])
  /\ pc' = "loop"
  /\ UNCHANGED <<g, call, produced, yielded, broke, fired, ylabs>> /\ InputSame

\* Type Page: visited.add, inheritance copy, `yield (object_id, object_properties)`
AEnterPage ==
  /\ Entering("Page")
  /\ visited' = visited \cup {call.t}
  /\ produced' = Append(produced, [node |-> call.t, props |-> Props, lab |-> Len(produced)])   \* next(page_labels)
  /\ pc' = IF broke THEN Resume(stack) ELSE "page"
  /\ UNCHANGED <<g, stack, call, yielded, broke, fired, ylabs>> /\ InputSame

\* any other Type (or none, or not a dictionary): visited.add, nothing produced, Kids not followed
AEnterOther ==
  /\ Entering("Other")
  /\ visited' = visited \cup {call.t}
  /\ pc' = Resume(stack)
  /\ UNCHANGED <<g, stack, call, produced, yielded, broke, fired, ylabs>> /\ InputSame

\* `for child in list_value(Kids): yield from depth_first_search(child, object_properties, visited)`
Targets == (IF AllowBack \/ Len(g) >= N THEN 1..Len(g) ELSE {}) \cup (IF Len(g) < N THEN {0} ELSE {})
ALoopKid ==
  /\ pc = "loop" /\ Top.idx < g[Top.node].nk
  /\ \E t \in Targets :
       /\ call' = [t |-> t, pp |-> Top.props]
       /\ g' = IF t = 0 THEN g ELSE [g EXCEPT ![Top.node].kids = Append(@, t)]
  /\ stack' = [stack EXCEPT ![Len(stack)].idx = @ + 1]
  /\ pc' = "call"
  /\ UNCHANGED <<visited, produced, yielded, broke, fired, ylabs>> /\ InputSame

\* Kids exhausted: the generator frame returns
ALoopEnd ==
  /\ pc = "loop" /\ Top.idx = g[Top.node].nk
  /\ stack' = SubSeq(stack, 1, Len(stack) - 1)
  /\ pc' = Resume(stack')
  /\ UNCHANGED <<g, visited, call, produced, yielded, broke, fired, ylabs>> /\ InputSame

\* ---------------------------------------------------------------- get_pages, one produced page at a time
PageNo == Len(produced) - 1          \* enumerate(create_pages(doc))

\* `if pagenos and (pageno not in pagenos): continue`
ASelSkip ==
  /\ pc = "page" /\ Skipped(pagenos, PageNo)
  /\ IF "ContinueSkipsMax" \in Dev
       THEN /\ broke' = FALSE          \* as coded: the maxpages test below is not reached
            /\ fired' = IF MaxReached(maxpages, PageNo) THEN fired \cup {"ContinueSkipsMax"} ELSE fired
       ELSE /\ broke' = MaxReached(maxpages, PageNo)
            /\ fired' = fired
  /\ pc' = Resume(stack)
  /\ UNCHANGED <<g, stack, visited, call, produced, yielded, ylabs>> /\ InputSame

\* `yield page` followed by `if maxpages and maxpages <= pageno + 1: break`
ASelYield ==
  /\ pc = "page" /\ ~Skipped(pagenos, PageNo)
  /\ yielded' = Append(yielded, PageNo)
  /\ ylabs' = Append(ylabs, produced[Len(produced)].lab)
  /\ broke' = MaxReached(maxpages, PageNo)
  /\ pc' = Resume(stack)
  /\ UNCHANGED <<g, stack, visited, call, produced, fired>> /\ InputSame

Finished == pc = "done" /\ UNCHANGED vars

Next == AReveal \/ ASkipVisited \/ AEnterPages \/ AEnterPage \/ AEnterOther \/ ALoopKid \/ ALoopEnd
        \/ ASelSkip \/ ASelYield \/ Finished
Spec == Init /\ [][Next]_vars

\* ================================================================== the property (C04, tree part)
Done == pc = "done"
Ref  == RefPages(g, Attrs, Inheritable)
Intended == fired = {}

TypeOK ==
  /\ Len(g) <= N /\ visited \subseteq 1..Len(g)
  /\ \A i \in 1..Len(g) : Len(g[i].kids) <= g[i].nk /\ g[i].nk <= K /\ Range(g[i].kids) \subseteq 1..Len(g)
  /\ \A i \in 1..Len(stack) : stack[i].node \in visited /\ g[stack[i].node].kind = "Pages"

\* pages come out in depth-first Kids order (holds in every state: the walk so far equals the reference walk of
\* the part of the document read so far)
DFSOrder == (pc \in {"loop", "page", "done"}) =>
              [i \in 1..Len(produced) |-> produced[i].node] = [i \in 1..Len(Ref) |-> Ref[i].node]

\* each inheritable attribute comes from the page itself or else from its nearest ancestor defining it
NearestAncestor == (Intended /\ pc \in {"loop", "page", "done"}) => produced = Ref

\* every node is entered at most once; a finished walk has entered exactly the nodes it was led to
VisitedOnce ==
  /\ \A i, j \in 1..Len(produced) : produced[i].node = produced[j].node => i = j
  /\ \A i, j \in 1..Len(stack) : stack[i].node = stack[j].node => i = j
  /\ Done => visited = 1..Len(g)

\* selection: exactly the pages whose zero-based index is selected and below the limit, in order
Selection == (Intended /\ Done) => yielded = RefSelect(Len(Ref), pagenos, maxpages)

\* whatever deviation is in force: indices increase, lie in the produced range and are selected
SelectionSane ==
  /\ \A i \in 1..Len(yielded) : yielded[i] \in 0..(Len(produced) - 1) /\ (pagenos = {} \/ yielded[i] \in pagenos)
  /\ \A i \in 1..(Len(yielded) - 1) : yielded[i] < yielded[i + 1]

\* a page carries the label of its zero-based index in document order - also when page_numbers / maxpages
\* leave pages out (the labels are drawn where the pages are produced, not where they are selected)
LabelByIndex == /\ \A i \in 1..Len(produced) : produced[i].lab = i - 1
                /\ ylabs = yielded

\* the action-by-action loop and the loop written as one recursive function agree
LoopShape == Done => yielded = SelLoop(Len(produced), pagenos, maxpages, Dev)

\* termination on every graph, cyclic or not: every step decreases <<unvisited, open Kids slots, frames, pc>>
\* (AReveal adds a node and is immediately followed by its visit: counted through the pending call)
Unvisited == N - Cardinality(visited)
RECURSIVE Slots(_)
Slots(st) == IF st = <<>> THEN 0 ELSE (g[Head(st).node].nk - Head(st).idx) + Slots(Tail(st))
Rank == CASE pc = "call" /\ call.t = 0 -> 3 [] pc = "call" -> 2 [] pc = "page" -> 1 [] OTHER -> 0
Measure == <<Unvisited, Slots(stack), Len(stack), Rank>>
LexLess(a, b) == \E i \in 1..4 : a[i] < b[i] /\ \A j \in 1..(i - 1) : a[j] = b[j]
Progress == [][LexLess(<<Unvisited', Slots(stack)', Len(stack)', Rank'>>, Measure)]_vars

\* ------------------------------------------------------------------ terminal states for the replay
EmitTerminal ==
  Done => PrintT("@@" \o ToJson([g |-> g, cat |-> cat, pagenos |-> pagenos, maxpages |-> maxpages,
                                 produced |-> produced, yielded |-> yielded, ylabs |-> ylabs, fired |-> fired,
                                 ref |-> Ref, refsel |-> RefSelect(Len(Ref), pagenos, maxpages)]))
=============================================================================
