--------------------------- MODULE PageGeomTrace ---------------------------
(***************************************************************************)
(* Trace validation for the page geometry (binding B).  Each event is one  *)
(* real PDFPageInterpreter.process_page call on a page of a real document: *)
(*   boxw      the MediaBox array as written in the file                   *)
(*   mediabox  PDFPage.mediabox        rraw   /Rotate as written           *)
(*   rotate    PDFPage.rotate          ctm    the matrix handed to         *)
(*   bbox      LTPage.bbox                    device.begin_page            *)
(* All lengths are integers in 1/1000 point (pages whose numbers are not   *)
(* exact in that unit are left out by the recorder and counted).           *)
(* Every event must be a behaviour of PageGeom.tla's steps, and must land  *)
(* the MediaBox on the (0,0)-origin page turned clockwise by Rotate.       *)
(* A rejected event is a deadlock whose last state names its index i.      *)
(***************************************************************************)
EXTENDS PageGeomOps, TLC, Json, IOUtils

CONSTANTS Dev

Events == JsonDeserialize(IOEnv.TRACE_FILE)
NE == Len(Events)

VARIABLE i
vars == i
Init == i = 1

Parsed(e) == IF "BoxAsWritten" \in Dev THEN e.boxw ELSE Norm(e.boxw)

StepsOK(e) ==
  /\ e.mediabox = Parsed(e)
  /\ e.rotate = RotNorm(e.rraw)
  /\ e.ctm = CtmFor(e.rotate, e.mediabox)
  /\ e.bbox = BeginBox(e.ctm, e.mediabox)

\* the property itself, on the recorded values
LandsOK(e) ==
  LET nb == Norm(e.boxw)  w == nb[3] - nb[1]  h == nb[4] - nb[2]  q == e.rotate \div 90
      page == IF q % 2 = 1 THEN <<0, 0, h, w>> ELSE <<0, 0, w, h>>
  IN /\ e.rotate \in 0..359
     /\ (e.rotate % 90 = 0 /\ ("BoxAsWritten" \notin Dev \/ e.boxw = nb)) =>
          /\ e.bbox = page
          /\ ApplyRect(e.ctm, nb) = page
          /\ \A c \in {<<nb[1], nb[2]>>, <<nb[3], nb[2]>>, <<nb[3], nb[4]>>, <<nb[1], nb[4]>>} :
               ApplyPt(e.ctm, c) = Turn(q, <<c[1] - nb[1], c[2] - nb[2]>>, w, h)

Accept == i <= NE /\ (StepsOK(Events[i]) /\ LandsOK(Events[i])) = TRUE /\ i' = i + 1
Finished == i > NE /\ UNCHANGED i
Next == Accept \/ Finished
Spec == Init /\ [][Next]_vars
InRange == i \in 1..(NE + 1)
=============================================================================
