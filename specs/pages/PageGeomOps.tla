---------------------------- MODULE PageGeomOps ----------------------------
(***************************************************************************)
(* C04, geometry part: pure operators shared by the machine PageGeom.tla   *)
(* and the trace specification PageGeomTrace.tla.                          *)
(***************************************************************************)
EXTENDS Integers, Sequences

Min2(a, b) == IF a < b THEN a ELSE b
Max2(a, b) == IF a > b THEN a ELSE b
Abs(a) == IF a < 0 THEN -a ELSE a
Min4(a, b, c, d) == Min2(Min2(a, b), Min2(c, d))
Max4(a, b, c, d) == Max2(Max2(a, b), Max2(c, d))

\* utils.apply_matrix_pt / apply_matrix_rect
ApplyPt(m, p) == <<m[1] * p[1] + m[3] * p[2] + m[5], m[2] * p[1] + m[4] * p[2] + m[6]>>
ApplyRect(m, r) ==
  LET a == ApplyPt(m, <<r[1], r[2]>>)  b == ApplyPt(m, <<r[3], r[2]>>)
      c == ApplyPt(m, <<r[3], r[4]>>)  d == ApplyPt(m, <<r[1], r[4]>>)
  IN <<Min4(a[1], b[1], c[1], d[1]), Min4(a[2], b[2], c[2], d[2]),
       Max4(a[1], b[1], c[1], d[1]), Max4(a[2], b[2], c[2], d[2])>>


\* a rectangle is any two diagonally opposite corners (ISO 32000-1 7.9.5): the normalised form
Norm(b) == <<Min2(b[1], b[3]), Min2(b[2], b[4]), Max2(b[1], b[3]), Max2(b[2], b[4])>>

\* the intersection of two normalised rectangles that overlap
Intersect(a, b) == <<Max2(a[1], b[1]), Max2(a[2], b[2]), Min2(a[3], b[3]), Min2(a[4], b[4])>>

\* ---- the code's steps
\* PDFPage.__init__:  (int_value(attrs.get("Rotate", 0)) + 360) % 360
RotNorm(r) == (r + 360) % 360
\* PDFPageInterpreter.process_page: the four branches (mb is the box the page object holds)
Ctm90(mb)   == <<0, -1, 1, 0, -mb[2], mb[3]>>
Ctm180(mb)  == <<-1, 0, 0, -1, mb[3], mb[4]>>
Ctm270(mb)  == <<0, 1, -1, 0, mb[4], -mb[1]>>
CtmElse(mb) == <<1, 0, 0, 1, -mb[1], -mb[2]>>
CtmFor(rot, mb) == CASE rot = 90 -> Ctm90(mb) [] rot = 180 -> Ctm180(mb) [] rot = 270 -> Ctm270(mb) [] OTHER -> CtmElse(mb)
\* PDFLayoutAnalyzer.begin_page
BeginBox(m, mb) == LET r == ApplyRect(m, mb) IN <<0, 0, Abs(r[1] - r[3]), Abs(r[2] - r[4])>>

\* ---- reference
\* k clockwise quarter turns of the point p (relative to the lower-left corner) of a w x h page
RECURSIVE Turn(_, _, _, _)
Turn(k, p, w, h) == IF k = 0 THEN p ELSE Turn(k - 1, <<p[2], w - p[1]>>, h, w)

=============================================================================
