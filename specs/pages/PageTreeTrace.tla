--------------------------- MODULE PageTreeTrace ---------------------------
(***************************************************************************)
(* Trace validation for the page tree (binding B).  Each recorded trace    *)
(* holds a document graph re-derived from the real document through        *)
(* getobj (tree: node records [kind, vals, kids]; labels assigned breadth  *)
(* first by the recorder; vals[a] = an interned id of the value written    *)
(* in the node's own dictionary, 0 = absent), the catalog's own entries    *)
(* (cat), the pages the real create_pages produced in order (pages:        *)
(* [node, vals]) and the results of real get_pages calls (sels:            *)
(* [pagenos, maxpages, yielded]).                                          *)
(* The machine of PageTree.tla is run over the fixed graph; every page it  *)
(* produces must be the next recorded page, with the recorded values.  At  *)
(* the end of a trace the declarative reference (RefPagePaths, nearest     *)
(* ancestor) and the selection function are evaluated on the recorded      *)
(* data.  A rejected trace is a deadlock whose last state names the trace  *)
(* (t) and the number of pages matched so far (k).                         *)
(***************************************************************************)
EXTENDS PageTreeOps, TLC, Json, IOUtils

CONSTANTS Dev

Traces == JsonDeserialize(IOEnv.TRACE_FILE)
NT == Len(Traces)
Inherited == {"Resources", "MediaBox", "CropBox", "Rotate"}      \* PDFPage.INHERITABLE_ATTRS
AttrsAll == Inherited \cup {"Annots"}                              \* Annots: recorded too, never inherited

VARIABLES t, stack, visited, call, pc, k
vars == <<t, stack, visited, call, pc, k>>

Cur  == Traces[t]
Tree == Cur.tree
RootPP(tr) == IF "CatalogInherits" \in Dev THEN [a \in AttrsAll |-> IF a \in Inherited THEN tr.cat[a] ELSE 0] ELSE [a \in AttrsAll |-> 0]
StartCall(i) == IF i <= NT THEN [t |-> 1, pp |-> RootPP(Traces[i])] ELSE [t |-> 0, pp |-> [a \in AttrsAll |-> 0]]

Init == t = 1 /\ stack = <<>> /\ visited = {} /\ call = StartCall(1) /\ pc = "call" /\ k = 0

Top == stack[Len(stack)]
Resume(st) == IF st = <<>> THEN "done" ELSE "loop"
InheritV(vals, pp) == [a \in AttrsAll |-> IF vals[a] # 0 THEN vals[a] ELSE IF a \in Inherited THEN pp[a] ELSE 0]
Props == InheritV(Tree[call.t].vals, call.pp)
Live == t <= NT

TSkipVisited == /\ Live /\ pc = "call" /\ call.t \in visited
                /\ pc' = Resume(stack) /\ UNCHANGED <<t, stack, visited, call, k>>
Entering(kind) == Live /\ pc = "call" /\ call.t \notin visited /\ Tree[call.t].kind = kind
TEnterPages == /\ Entering("Pages")
               /\ visited' = visited \cup {call.t}
               /\ stack' = Append(stack, [node |-> call.t, props |-> Props, idx |-> 0])
               /\ pc' = "loop" /\ UNCHANGED <<t, call, k>>
\* the page the machine produces must be the next recorded one, with the recorded attribute values
TEnterPage ==  /\ Entering("Page")
               /\ k < Len(Cur.pages)
               /\ Cur.pages[k + 1].node = call.t
               /\ (\A a \in AttrsAll : Cur.pages[k + 1].vals[a] = Props[a]) = TRUE
               /\ visited' = visited \cup {call.t}
               /\ k' = k + 1
               /\ pc' = Resume(stack) /\ UNCHANGED <<t, stack, call>>
TEnterOther == /\ Entering("Other")
               /\ visited' = visited \cup {call.t}
               /\ pc' = Resume(stack) /\ UNCHANGED <<t, stack, call, k>>
TLoopKid ==    /\ Live /\ pc = "loop" /\ Top.idx < Len(Tree[Top.node].kids)
               /\ call' = [t |-> Tree[Top.node].kids[Top.idx + 1], pp |-> Top.props]
               /\ stack' = [stack EXCEPT ![Len(stack)].idx = @ + 1]
               /\ pc' = "call" /\ UNCHANGED <<t, visited, k>>
TLoopEnd ==    /\ Live /\ pc = "loop" /\ Top.idx = Len(Tree[Top.node].kids)
               /\ stack' = SubSeq(stack, 1, Len(stack) - 1)
               /\ pc' = Resume(stack') /\ UNCHANGED <<t, visited, call, k>>

\* ---- end of a trace: the declarative reference and the selections
NearestV(gr, path, a) ==
  LET def == {i \in (IF a \in Inherited THEN 1 ELSE Len(path))..Len(path) : gr[path[i]].vals[a] # 0}
  IN IF def = {} THEN 0 ELSE gr[path[MaxOf(def)]].vals[a]
CatSilent(tr) == "CatalogInherits" \notin Dev \/ \A a \in Inherited : tr.cat[a] = 0
\* the unfolding of the reference lists every cycle-free path, which explodes on large graphs with many repeated
\* or backward Kids entries; it is evaluated on the recorded documents whose Kids form a proper tree (all of the
\* repository's samples do) - on the others the step-by-step match above is the validation
IsProperTree(gr) ==
  LET all == Flatten([i \in 1..Len(gr) |-> gr[i].kids])
  IN Len(all) = Len(gr) - 1 /\ Cardinality(Range(all)) = Len(all) /\ 1 \notin Range(all)
RefOK(tr) ==
  IsProperTree(tr.tree) =>
  LET pp == RefPagePaths(tr.tree) IN
  /\ Len(pp) = Len(tr.pages)
  /\ \A i \in 1..Len(pp) :
       /\ Last(pp[i]) = tr.pages[i].node
       /\ CatSilent(tr) => \A a \in AttrsAll : tr.pages[i].vals[a] = NearestV(tr.tree, pp[i], a)
SelOK(tr) ==
  \A i \in 1..Len(tr.sels) :
    LET s == tr.sels[i] IN
    /\ s.yielded = SelLoop(Len(tr.pages), Range(s.pagenos), s.maxpages, Dev)
    /\ ("ContinueSkipsMax" \notin Dev) => s.yielded = RefSelect(Len(tr.pages), Range(s.pagenos), s.maxpages)

TEndTrace == /\ Live /\ pc = "done" /\ k = Len(Cur.pages)
             /\ (RefOK(Cur) /\ SelOK(Cur)) = TRUE     \* "= TRUE": evaluated as a plain expression, not as an action
             /\ t' = t + 1 /\ stack' = <<>> /\ visited' = {} /\ call' = StartCall(t + 1) /\ pc' = "call" /\ k' = 0

Finished == t > NT /\ UNCHANGED vars

Next == TSkipVisited \/ TEnterPages \/ TEnterPage \/ TEnterOther \/ TLoopKid \/ TLoopEnd \/ TEndTrace \/ Finished
Spec == Init /\ [][Next]_vars

\* evaluated in every state of every trace
StackSane == \A i, j \in 1..Len(stack) : stack[i].node = stack[j].node => i = j
MatchedInOrder == Live => k <= Len(Cur.pages)
=============================================================================
