---------------------------- MODULE PageTreeOps ----------------------------
(***************************************************************************)
(* C04: page tree - shared definitions.                                    *)
(*                                                                         *)
(* A document graph is a sequence gr of node records; the label of a node  *)
(* is its index, the catalog's /Pages entry points at label 1.             *)
(*   kind  "Pages" | "Page" | "Other"   (value of /Type)                    *)
(*   own   the inheritable attributes the node's own dictionary carries    *)
(*   nk    number of /Kids entries (0 unless kind = "Pages")               *)
(*   kids  the /Kids entries, labels; repeats, self references and back    *)
(*         references (cycles) are allowed                                 *)
(* The value of attribute a written in node x is unique to x, so an        *)
(* attribute value is represented by the label of the node that defines    *)
(* it (its "source"): NONE = absent, CAT = written in the catalog.         *)
(***************************************************************************)
EXTENDS Integers, Sequences, FiniteSets

NONE == 0
CAT  == -1

Range(s) == {s[i] : i \in 1..Len(s)}
Last(s)  == s[Len(s)]
MaxOf(S) == CHOOSE x \in S : \A y \in S : y <= x

\* concatenation of a sequence of sequences; the subsequence of s at the indices in keep, in order
\* (written with the library's FlattenSeq / SelectSeq, which TLC evaluates without recursion: recorded documents
\* have hundreds of pages)
LOCAL SeqX == INSTANCE SequencesExt
Flatten(ss) == SeqX!FlattenSeq(ss)
Pick(s, keep) == LET idx == SeqX!SetToSortSeq(keep, LAMBDA a, b : a < b)
                 IN [j \in 1..Len(idx) |-> s[idx[j]]]

(***************************************************************************)
(* Reference semantics, written from ISO 32000-1 7.7.3 (page tree) and     *)
(* 7.7.3.4 (inheritance), extended to graphs the way the property states   *)
(* it: "a tree whose Kids contain cycles or repeated nodes still           *)
(* terminates, visiting each node once".                                   *)
(*                                                                         *)
(* Unfold lists, in Kids order, the root-to-node path of every occurrence  *)
(* of a node in the tree obtained by unfolding the graph and cutting an    *)
(* occurrence of a node below itself.  A node counts at its first          *)
(* occurrence.  The pages are the first occurrences of kind "Page"; an     *)
(* inheritable attribute comes from the nearest node on that path (the     *)
(* page itself included) whose own dictionary carries it.                  *)
(***************************************************************************)
RECURSIVE Unfold(_, _, _)
Unfold(gr, t, path) ==
  IF t \in Range(path) THEN <<>>
  ELSE LET p == Append(path, t) IN
       <<p>> \o (IF gr[t].kind = "Pages"
                   THEN Flatten([i \in 1..Len(gr[t].kids) |-> Unfold(gr, gr[t].kids[i], p)])
                   ELSE <<>>)

FirstOccurrences(ps) ==
  LET node == [i \in 1..Len(ps) |-> Last(ps[i])]
  IN Pick(ps, {i \in 1..Len(ps) : \A j \in 1..(i - 1) : node[j] # node[i]})

RefWalk(gr) == IF gr = <<>> THEN <<>> ELSE FirstOccurrences(Unfold(gr, 1, <<>>))

RefPagePaths(gr) == LET w == RefWalk(gr) IN Pick(w, {i \in 1..Len(w) : gr[Last(w[i])].kind = "Page"})

Nearest(gr, path, a) ==
  LET def == {i \in 1..Len(path) : a \in gr[path[i]].own}
  IN IF def = {} THEN NONE ELSE path[MaxOf(def)]
\* an entry that is not inheritable (Annots, ...) is the page's own or nothing
OwnOnly(gr, path, a) == IF a \in gr[Last(path)].own THEN Last(path) ELSE NONE

\* (inh: the inheritable kinds among attrs; lab: the page label a page carries is the label of its zero-based
\* index in document order, ISO 32000-1 12.4.2)
RefPages(gr, attrs, inh) ==
  LET pp == RefPagePaths(gr)
  IN [i \in 1..Len(pp) |-> [node |-> Last(pp[i]),
                             props |-> [a \in attrs |-> IF a \in inh THEN Nearest(gr, pp[i], a) ELSE OwnOnly(gr, pp[i], a)],
                             lab |-> i - 1]]

\* page selection: zero-based indices that are selected (an empty page_numbers selects all) and below the limit
\* (maxpages = 0: no limit), in order
Selected(i, pagenos, maxpages) == (pagenos = {} \/ i \in pagenos) /\ (maxpages = 0 \/ i < maxpages)
RefSelect(np, pagenos, maxpages) ==
  LET idx == SeqX!SetToSortSeq({i \in 0..(np - 1) : Selected(i, pagenos, maxpages)}, LAMBDA a, b : a < b) IN idx

(***************************************************************************)
(* Pure steps of the implementation (pdfpage.py), shared by the machine in *)
(* PageTree.tla and the trace specification PageTreeTrace.tla.             *)
(***************************************************************************)
\* the inheritance copy:  for k, v in parent.items(): if k inheritable and k not in object_properties: copy
\* (inh = PDFPage.INHERITABLE_ATTRS among the kinds in play)
Inherit(t, own, pp, attrs, inh) == [a \in attrs |-> IF a \in own THEN t ELSE IF a \in inh THEN pp[a] ELSE NONE]

\* `if pagenos and (pageno not in pagenos): continue`
Skipped(pagenos, pageno) == pagenos # {} /\ pageno \notin pagenos
\* `if maxpages and maxpages <= pageno + 1: break`
MaxReached(maxpages, pageno) == maxpages # 0 /\ maxpages <= pageno + 1

\* the get_pages loop over np produced pages as a pure function (dev: the deviations in force): one step per
\* produced page, folded over the page numbers (FoldLeft is evaluated iteratively - recorded documents are long)
SelStep(acc, i, pagenos, maxpages, dev) ==
  IF acc.stop THEN acc
  ELSE IF Skipped(pagenos, i)
         THEN [acc EXCEPT !.stop = ("ContinueSkipsMax" \notin dev /\ MaxReached(maxpages, i))]
         ELSE [out |-> Append(acc.out, i), stop |-> MaxReached(maxpages, i)]
SelLoop(np, pagenos, maxpages, dev) ==
  SeqX!FoldLeft(LAMBDA acc, i : SelStep(acc, i, pagenos, maxpages, dev),
                [out |-> <<>>, stop |-> FALSE], [i \in 1..np |-> i - 1]).out
=============================================================================
