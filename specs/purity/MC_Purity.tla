---- MODULE MC_Purity ----
EXTENDS Purity
AllDocs == {"dA", "dB", "dC"}
AllPageSets == {{1}, {2}, {1, 2}}
BothPages == {{1, 2}}
TwoPageSets == {{2}, {1, 2}}
NoDev == {}
====
